import DudModel.SysCmd
/-!
# System-call level model of the WHOLE `dud checkout` command

`Sys.lean` gives the trace of one `checkoutDir` / `checkoutFile` (`checkoutNodeT`) below a workspace path
whose parent exists.  This file assembles, as a total library function, the trace of the whole command in
the order the Go code issues the calls (`src/cmd/root.go` `prepare` / lock, `src/cmd/checkout.go`,
`src/index/checkout.go`, `src/cache/checkout.go`):

* `create_excl <lock>` — `lockProject`, first mutating call of the process;
* for every stage, in the order the depth-first traversal `Index.Checkout` finishes them, for every output
  that is not `SkipCache`, in `sortArts` order, one `LocalCache.Checkout` trace (`checkoutArtWT`):
  - the `mkdir`s of `os.MkdirAll(filepath.Dir(workPath))` (file artifact) resp. of the proper ancestors
    in `os.MkdirAll(workPath)` (directory artifact): one `mkdir` per proper, non-empty prefix of the
    artifact's path that is absent from the workspace, outermost first (`parentMkdirs`; this is what
    `setPath` of the logical `checkoutArtW` does to the tree) — issued after the checks that can fail
    (checksum present, object in cache, manifest readable) and before anything else,
  - then the trace `checkoutNodeT` of the artifact itself (for a directory that is absent it starts with
    the `mkdir` of the directory);
* `unlink <lock>` — `unlockProject`, last mutating call.

`dud checkout` writes no stage file and nothing in the cache.  The traversal itself is the generic `visit`
on states that carry the trace (`checkoutTravT`), as for `dud commit` (`SysCmd.lean`).  The trace is kept
segmented (one call list per `LocalCache.Checkout`); `cmdCheckoutT` flattens it between lock and unlock.

A run that fails at the logical level has no trace in this model (its real trace is a prefix of the calls
before the failing check).

Checked against `strace` of the real binary on the two-stage project of `Props/C06cmd.lean`
(`ExampleCheckout`: a directory output `a/` with two files, a file output `p/q/f`): link checkout into a
fresh clone, copy checkout into a fresh clone with the downstream stage as target, copy checkout over the
links of the committed workspace — same calls in the same order, except that the real workers interleave
the entries of one directory (the model processes them in manifest order), and that a copy is created with
mode 0644 (`Call.createExcl` carries no mode; `apply` gives every exclusively created file 0600).
-/
namespace Dud.Sys

open Dud

variable {κ : Type}

/-! ## one artifact -/

/-- the proper, non-empty prefixes of a path, shortest first: the ancestors `os.MkdirAll` walks -/
def parentDirs (comps : List Name) : List (List Name) :=
  (List.range (comps.length - 1)).map (fun k => comps.take (k + 1))

/-- the `mkdir`s of `os.MkdirAll` on the ancestors of `comps`: one per ancestor absent from the tree -/
def parentMkdirs (ws : Node κ) (comps : List Name) : List (Call κ) :=
  ((parentDirs comps).filter (fun p => (getPath ws p).isNone)).map (fun p => .mkdir (.ws p))

/-- traced `checkoutArtW` for an artifact that is not `SkipCache` -/
def checkoutArtWT (c : CmdCfg κ) (strat : Strat) (a : Art) (w : World κ) :
    Except Err (World κ × List (Call κ)) :=
  let comps := Path.comps a.path
  match checkoutNodeT (c.tc strat) w.store c.cfg.fuel comps (getPath w.ws comps) a.child with
  | .error e => .error e
  | .ok (n, calls) =>
    match setPath w.ws comps n with
    | none => .error .other
    | some ws' => .ok ({ w with ws := ws' }, parentMkdirs w.ws comps ++ calls)

/-- traced `checkoutArts`: one call list per artifact that is not `SkipCache` -/
def checkoutArtsT (c : CmdCfg κ) (strat : Strat) :
    List Art → World κ → Except Err (World κ × List (List (Call κ)))
  | [], w => .ok (w, [])
  | a :: r, w =>
    if a.skip then checkoutArtsT c strat r w
    else match checkoutArtWT c strat a w with
      | .error e => .error e
      | .ok (w1, calls1) => match checkoutArtsT c strat r w1 with
        | .error e => .error e
        | .ok (w2, segs) => .ok (w2, calls1 :: segs)

/-- traced `checkoutAct`: the outputs of the stage -/
def checkoutActT (c : CmdCfg κ) (strat : Strat) (sp : Bytes) (w : World κ) :
    Except Err (World κ × List (List (Call κ))) :=
  match w.stage sp with
  | .error e => .error e
  | .ok stg => match checkoutArtsT c strat (sortArts stg.outputs) w with
    | .error e => .error e
    | .ok (w', segs) => .ok ({ w' with done := sp :: w'.done }, segs)

/-! ## the traversal on states carrying the trace -/

/-- `checkoutTrav` on (world, artifact traces so far) -/
def checkoutTravT (c : CmdCfg κ) (strat : Strat) : Trav (World κ × List (List (Call κ))) :=
  { isDone := fun p sp => p.1.done.contains sp
    owners := fun p sp => ownersOf c.cfg p.1 sp
    act := fun sp p => match checkoutActT c strat sp p.1 with
      | .error e => .error e
      | .ok (w', segs) => .ok (w', p.2 ++ segs) }

/-! ## the whole command -/

/-- `dud checkout [--copy] [--single-stage] [targets]` with one call list per `LocalCache.Checkout` -/
def cmdCheckoutSegs (c : CmdCfg κ) (strat : Strat) (single : Bool) (targets : List Bytes) (w : World κ) :
    Except Err (World κ × List (List (Call κ))) :=
  if w.idx.isEmpty then .error .invalid else
  let ts := if targets.isEmpty then allStages w else targets
  let recursive := targets.isEmpty || !single
  perTargetP (fun t p => visit (checkoutTravT c strat) recursive (p.1.idx.length + 1) (allStages p.1) t p)
    ts (fresh w, [])

/-- the flat call sequence: lock, artifacts, unlock -/
def coCalls (segs : List (List (Call κ))) : List (Call κ) :=
  [.createExcl .lock] ++ segs.flatten ++ [.unlink .lock]

/-- **`dud checkout` with the list of its file-system mutating calls** -/
def cmdCheckoutT (c : CmdCfg κ) (strat : Strat) (single : Bool) (targets : List Bytes) (w : World κ) :
    Except Err (World κ × List (Call κ)) :=
  match cmdCheckoutSegs c strat single targets w with
  | .error e => .error e
  | .ok (w', segs) => .ok (w', coCalls segs)

end Dud.Sys
