import DudModel.Basic
/-!
# Model of `checksum.ChecksumBuffer` (src/checksum/checksum.go)

Core-only.

```
h := hasherPool.Get().(*blake3.Hasher)   // arbitrary prior state: pooled hashers are dirty
defer hasherPool.Put(h)
h.Reset()
io.CopyBuffer(h, reader, buffer)          // panics on a zero-length buffer
return hex(h.Sum(nil))
```

`io.CopyBuffer` (generic path) is the loop
`nr, er := src.Read(buf); if nr > 0 { dst.Write(buf[0:nr]) }; if er == EOF { break }`.
(The `WriterTo`/`ReaderFrom` fast paths only change HOW the content is cut into `Write` calls, which
the theorems quantify over anyway.)

A reader is a list `reads : List Bytes`: the i-th element is what the source has ready at that
moment (possibly nothing: `Read` may return `0, nil`); after the list is exhausted `Read` returns
`0, io.EOF`.  A `Read` into a buffer of `bufSize` bytes takes at most `bufSize` of the ready bytes
and leaves the remainder for the following `Read`s.
-/
namespace Dud.Hasher

/-- An abstract `hash.Hash`. -/
structure HasherSpec (σ : Type) where
  reset : σ → σ
  write : σ → Bytes → σ
  sum   : σ → Bytes

/-- What we assume of the real hasher: after `Reset`, the digest depends only on the concatenation
of the written chunks (and equals the spec hash `Hh` of it), whatever the state before `Reset`. -/
def Contract {σ : Type} (hs : HasherSpec σ) (Hh : Bytes → Bytes) : Prop :=
  ∀ (s : σ) (chunks : List Bytes), hs.sum (chunks.foldl hs.write (hs.reset s)) = Hh chunks.flatten

/-- The successive `Read(buf)` results (`len buf = n`) while the source has `c` ready.
`fuel` bounds the number of reads needed (`c.length + 1` suffices for `n > 0`). -/
def splitChunk (n : Nat) : Nat → Bytes → List Bytes
  | 0, _ => []
  | fuel + 1, c => if c.length ≤ n then [c] else c.take n :: splitChunk n fuel (c.drop n)

/-- All `Read(buf)` results of the reader, in order (the final `0, EOF` is implicit). -/
def readResults (bufSize : Nat) : List Bytes → List Bytes
  | [] => []
  | c :: rest => splitChunk bufSize (c.length + 1) c ++ readResults bufSize rest

/-- The `io.CopyBuffer` loop over the sequence of read results. -/
def copyLoop {σ : Type} (hs : HasherSpec σ) : List Bytes → σ → σ
  | [], s => s                                        -- `0, io.EOF`: break
  | c :: rest, s => copyLoop hs rest (if c.length > 0 then hs.write s c else s)

/-- `ChecksumBuffer(reader, buffer)` with `len buffer = bufSize`, pooled hasher in state `s0`.
`resetFirst` is the extracted fact "`h.Reset()` precedes `io.CopyBuffer`". -/
def checksumBuffer {σ : Type} (hs : HasherSpec σ) (resetFirst : Bool) (bufSize : Nat)
    (reads : List Bytes) (s0 : σ) : Bytes :=
  let h := if resetFirst then hs.reset s0 else s0
  hs.sum (copyLoop hs (readResults bufSize reads) h)

/-- `io.TeeReader(r, w)` in front of the copy loop (as in `checkoutFile`'s copy strategy):
`Read` forwards to `r` and, `if n > 0`, writes `p[:n]` to the sink `w`. State: hasher × sink. -/
def teeCopyLoop {σ : Type} (hs : HasherSpec σ) : List Bytes → σ × Bytes → σ × Bytes
  | [], st => st
  | c :: rest, (s, sink) =>
    let sink' := if c.length > 0 then sink ++ c else sink     -- TeeReader.Read
    let s' := if c.length > 0 then hs.write s c else s        -- CopyBuffer body
    teeCopyLoop hs rest (s', sink')

/-- `ChecksumBuffer(io.TeeReader(reader, sink), buffer)`: digest and final sink contents. -/
def checksumBufferTee {σ : Type} (hs : HasherSpec σ) (resetFirst : Bool) (bufSize : Nat)
    (reads : List Bytes) (s0 : σ) (sink0 : Bytes) : Bytes × Bytes :=
  let h := if resetFirst then hs.reset s0 else s0
  let r := teeCopyLoop hs (readResults bufSize reads) (h, sink0)
  (hs.sum r.1, r.2)

/-- `reads` is a chunking of content `c` for a buffer of `bufSize` bytes. -/
def Chunking (bufSize : Nat) (c : Bytes) (reads : List Bytes) : Prop :=
  reads.flatten = c ∧ ∀ r ∈ reads, r.length ≤ bufSize

/-- Toy hasher for negative witnesses: state = everything written since the last reset. -/
def toy : HasherSpec Bytes := { reset := fun _ => [], write := fun s c => s ++ c, sum := id }

end Dud.Hasher
