import DudModel.Model
/-!
# Specification vocabulary for push / fetch (C11)

`Reaches ctx s c d`: digest `d` belongs to the closure of the manifest entry `c` in the store `s`
(the object of `c` itself, and, for a directory whose manifest can be read, the closure of its
entries).  This is exactly the set of objects `checkoutNode` looks up for `c`.
-/
namespace Dud

variable {κ : Type}

inductive Reaches (ctx : Ctx κ) (s : Store κ) : Child → Digest → Prop
  | self (c : Child) : Reaches ctx s c c.sum
  | child (c : Child) (cs : List Child) (k : Child) (d : Digest) :
      c.isDir = true → readManifest ctx s c.sum = .ok cs → k ∈ cs → Reaches ctx s k d →
      Reaches ctx s c d

/-- `c` is an entry of some manifest that can be read from `s` -/
def Occurs (ctx : Ctx κ) (s : Store κ) (c : Child) : Prop :=
  ∃ d cs, readManifest ctx s d = .ok cs ∧ c ∈ cs

/-- no checksum is referenced both as a file and as a directory (among the entries satisfying `P`) -/
def KindsAgree (P : Child → Prop) : Prop :=
  ∀ c1 c2, P c1 → P c2 → c1.sum = c2.sum → c1.isDir = c2.isDir

end Dud
