import DudModel.Stage
/-!
# The stage file: `Stage.toFileFormat` / `Stage.Serialize` and `stage.FromFile` (`src/stage/stage.go`)

The YAML library is a trusted parameter: the model starts from the *typed document* the library
hands to / receives from dud, i.e. a `Stage` value whose artifact maps are keyed by the path string
and whose artifact values carry no path (`toFileFormat` blanks `art.Path`, tagged `omitempty`).

* `StageDoc` — that document.  A map value may be `none`: yaml.v2 deserialises `  path.txt:` as a nil
  pointer, which `FromFile` replaces by `new(artifact.Artifact)`.
* `toDoc` — `toFileFormat`: the path moves to the key; inputs are written with `SkipCache = false`.
* `fromDoc` — `FromFile` after decoding: `Command` is `strings.TrimSpace`d, `WorkingDir` and every
  key are `filepath.Clean`ed, inputs get `SkipCache = true`, the maps are rebuilt keyed by the
  cleaned path.  (Go maps have no order; the model keeps artifact lists sorted by path, `sortArts`.
  When two keys clean to the same path Go keeps whichever the random map iteration visits last; the
  model keeps the first of the list.  The theorems exclude that case by hypothesis.)
* `trimSpace` — byte-exact `strings.TrimSpace`: strips every leading and trailing code point with the
  Unicode `White_Space` property.  These are exactly the 25 byte sequences of `wsSeqs` (UTF-8 has a
  single valid encoding per code point, `utf8.DecodeRune` rejects overlong forms, and
  `utf8.DecodeLastRune` finds exactly a trailing valid encoding), so "strip a leading / trailing
  element of `wsSeqs` while there is one" is what `TrimFunc(s, unicode.IsSpace)` computes on
  arbitrary — also invalid — byte strings.
-/
namespace Dud

/-- an artifact as a value of the `inputs:` / `outputs:` maps of a stage file (no path) -/
structure FileArt where
  sum : Digest := ""
  isDir : Bool := false
  noRec : Bool := false
  skip : Bool := false
deriving DecidableEq, Repr, Inhabited

/-- the decoded YAML document of a stage file -/
structure StageDoc where
  sum : Digest := ""
  cmd : Bytes := []
  wd : Bytes := []
  inputs : List (Bytes × Option FileArt) := []
  outputs : List (Bytes × Option FileArt) := []
deriving DecidableEq, Repr, Inhabited

/-! ## `strings.TrimSpace` -/

/-- UTF-8 encodings of the code points with the `White_Space` property (`unicode.IsSpace`):
U+0009–U+000D, U+0020, U+0085, U+00A0, U+1680, U+2000–U+200A, U+2028, U+2029, U+202F, U+205F, U+3000 -/
def wsSeqs : List Bytes :=
  [[0x09], [0x0A], [0x0B], [0x0C], [0x0D], [0x20], [0xC2, 0x85], [0xC2, 0xA0], [0xE1, 0x9A, 0x80],
   [0xE2, 0x80, 0x80], [0xE2, 0x80, 0x81], [0xE2, 0x80, 0x82], [0xE2, 0x80, 0x83], [0xE2, 0x80, 0x84],
   [0xE2, 0x80, 0x85], [0xE2, 0x80, 0x86], [0xE2, 0x80, 0x87], [0xE2, 0x80, 0x88], [0xE2, 0x80, 0x89],
   [0xE2, 0x80, 0x8A], [0xE2, 0x80, 0xA8], [0xE2, 0x80, 0xA9], [0xE2, 0x80, 0xAF], [0xE2, 0x81, 0x9F],
   [0xE3, 0x80, 0x80]]

/-- strip one leading element of `ws`, if there is one -/
def stripOne (ws : List Bytes) (b : Bytes) : Option Bytes :=
  ws.findSome? fun w => if w.isPrefixOf b then some (b.drop w.length) else none

def trimLeftWith (ws : List Bytes) : Nat → Bytes → Bytes
  | 0, b => b
  | n+1, b => match stripOne ws b with
    | some r => trimLeftWith ws n r
    | none => b

def trimLeft (b : Bytes) : Bytes := trimLeftWith wsSeqs b.length b
def trimRight (b : Bytes) : Bytes :=
  (trimLeftWith (wsSeqs.map List.reverse) b.length b.reverse).reverse
/-- `strings.TrimSpace` -/
def trimSpace (b : Bytes) : Bytes := trimRight (trimLeft b)

/-! ## the two conversions -/

/-- one entry of a decoded artifact map ↦ the artifact `FromFile` stores -/
def docArt (isInput : Bool) (e : Bytes × Option FileArt) : Art :=
  let fa : FileArt := e.2.getD {}
  { path := Path.clean e.1, sum := fa.sum, isDir := fa.isDir, noRec := fa.noRec,
    skip := if isInput then true else fa.skip }

/-- `stage.FromFile` after YAML decoding (before `Validate`) -/
def fromDoc (d : StageDoc) : Stage :=
  { sum := d.sum, cmd := trimSpace d.cmd, wd := Path.clean d.wd,
    inputs := sortArts (d.inputs.map (docArt true)),
    outputs := sortArts (d.outputs.map (docArt false)) }

/-- an artifact ↦ its entry in the map `toFileFormat` builds -/
def artDoc (isInput : Bool) (a : Art) : Bytes × Option FileArt :=
  (a.path, some { sum := a.sum, isDir := a.isDir, noRec := a.noRec,
                  skip := if isInput then false else a.skip })

/-- `Stage.toFileFormat`, the value handed to the YAML encoder by `Serialize` -/
def toDoc (stg : Stage) : StageDoc :=
  { sum := stg.sum, cmd := stg.cmd, wd := stg.wd,
    inputs := stg.inputs.map (artDoc true), outputs := stg.outputs.map (artDoc false) }

/-! ## normal form -/

/-- strictly increasing by path (in particular: one entry per path) -/
def ArtSorted (l : List Art) : Prop := l.Pairwise (fun a b => a.path < b.path)

instance (l : List Art) : Decidable (ArtSorted l) := by unfold ArtSorted; exact inferInstance

/-- what a stage looks like after `FromFile`: command trimmed, working directory and paths clean,
inputs flagged `skip-cache`, artifact maps = lists sorted by path without duplicates -/
structure NormalForm (stg : Stage) : Prop where
  cmdTrim : trimSpace stg.cmd = stg.cmd
  wdClean : Path.clean stg.wd = stg.wd
  pathsClean : ∀ a ∈ stg.inputs ++ stg.outputs, Path.clean a.path = a.path
  inSkip : ∀ a ∈ stg.inputs, a.skip = true
  inSorted : ArtSorted stg.inputs
  outSorted : ArtSorted stg.outputs

/-- the keys of a decoded artifact map stay distinct when cleaned (`filepath.Clean` is injective on
them): no two entries collide in the map `FromFile` builds -/
def KeysOK (m : List (Bytes × Option FileArt)) : Prop := (m.map fun e => Path.clean e.1).Nodup

instance (m : List (Bytes × Option FileArt)) : Decidable (KeysOK m) := by
  unfold KeysOK; exact inferInstance

/-- valid UTF-8, as `utf8.Valid` -/
def Utf8 (b : Bytes) : Prop := GoJson.validUtf8 (b.length + 1) b = true

instance (b : Bytes) : Decidable (Utf8 b) := by unfold Utf8; exact inferInstance

/-- command, working directory and every artifact path are valid UTF-8 (otherwise
`encoding/json` replaces the offending bytes by U+FFFD and distinct strings collide) -/
structure Utf8Stage (stg : Stage) : Prop where
  cmd : Utf8 stg.cmd
  wd : Utf8 stg.wd
  paths : ∀ a ∈ stg.inputs ++ stg.outputs, Utf8 a.path

end Dud
