/-!
# Basic vocabulary of the dud model

Core-only Lean.  Everything the driver (`Driver/Main.lean`) imports must stay free of Mathlib.
-/
namespace Dud

abbrev Bytes := List UInt8
/-- A directory-entry name: raw bytes (file names are not necessarily UTF-8). -/
abbrev Name := List UInt8
/-- Lower-case hex digest as dud prints it. -/
abbrev Digest := String

inductive Strat | link | copy
deriving DecidableEq, Repr, Inhabited

/-- Error classes.  The correspondence compares classes, never message texts. -/
inductive Err
  | missing          -- workspace entry absent
  | notRegular       -- expected regular file
  | exists_          -- something is in the way
  | invalidSum       -- no / too short checksum
  | missingFromCache
  | badManifest      -- object is not a decodable manifest
  | sumMismatch      -- copy checkout found other bytes
  | notDir           -- expected directory
  | cycle
  | unknownStage
  | owned
  | invalid
  | other
deriving DecidableEq, Repr, Inhabited

def Err.toString : Err → String
  | .missing => "missing" | .notRegular => "not-regular" | .exists_ => "exists"
  | .invalidSum => "invalid-checksum" | .missingFromCache => "missing-from-cache"
  | .badManifest => "bad-manifest" | .sumMismatch => "checksum-mismatch" | .notDir => "not-dir"
  | .cycle => "cycle" | .unknownStage => "unknown-stage" | .owned => "owned"
  | .invalid => "invalid" | .other => "other"

instance : ToString Err := ⟨Err.toString⟩

/-- Association-list lookup used for every finite map of the model (first match wins). -/
def alookup {α β : Type} [BEq α] (l : List (α × β)) (a : α) : Option β :=
  match l with
  | [] => none
  | (k, v) :: r => if k == a then some v else alookup r a

theorem alookup_cons_self {α β} [BEq α] [LawfulBEq α] (l : List (α × β)) (a : α) (b : β) :
    alookup ((a, b) :: l) a = some b := by simp [alookup]

theorem alookup_cons_ne {α β} [BEq α] [LawfulBEq α] (l : List (α × β)) {a k : α} (b : β) (h : k ≠ a) :
    alookup ((k, b) :: l) a = alookup l a := by
  simp [alookup, h]

theorem alookup_mem {α β} [BEq α] [LawfulBEq α] {l : List (α × β)} {a : α} {b : β}
    (h : alookup l a = some b) : (a, b) ∈ l := by
  induction l with
  | nil => simp [alookup] at h
  | cons x xs ih =>
    obtain ⟨k, v⟩ := x
    by_cases hk : k = a
    · subst hk; simp [alookup] at h; subst h; simp
    · simp [alookup, hk] at h; exact List.mem_cons_of_mem _ (ih h)

/-- remove every binding of a key -/
def aerase {α β : Type} [BEq α] (l : List (α × β)) (a : α) : List (α × β) :=
  l.filter (fun p => !(p.1 == a))

end Dud
