import DudModel.Spec
import DudModel.Lemmas.Run
import DudModel.Lemmas.WorldTrip
/-!
# Specification vocabulary for "outputs are consistent with inputs" (the `Hence` clause of C09)

A FUNCTIONAL semantics of stage commands and the notions the theorems of `Props/C09hence.lean` are
stated with.

* `logicalAt cfg w p` — the logical content found at the workspace path `p` (links into the cache
  followed, `deref`); `none` if nothing is there.
* `Fun κ` — what a stage command writes at its output paths as a function of what it reads at its
  input paths; `insOf cfg w stg` is what the command of `stg` reads in the world `w`.
* `Fun.Stable` — the function looks at the stage only through its command line and working directory
  and at the inputs only as a finite map path ↦ content (`dud commit` re-sorts the artifacts of a
  stage and rewrites their checksums and `skip-cache` flags: none of this may matter to the command).
* `ExecIs cfg F exec` — the interpretation `exec` of the stage commands implements `F`.
* `FreshStage`, `Fresh` — every output equals what the command produces from the current inputs.
* `Recorded` — the stage is unchanged since its last commit, as `run_sound` phrases it.
* `PipeOK` — well-formedness of an index (no two outputs overlap, un-owned inputs lie apart from all
  outputs, an owned input lies at or below the output owning it).
-/
namespace Dud

open WT

variable {κ : Type}

/-! ## logical content -/

/-- the logical content found at the workspace path `p`: the subtree at `p` with every link into the
cache replaced by the bytes of the object it points to (`deref`); `none` if the path is absent -/
def logicalAt (cfg : Cfg κ) (w : World κ) (p : Bytes) : Option (Node κ) :=
  (getPath w.ws (Path.comps p)).map (deref cfg.ctx w.store)

/-- `logicalAt cfg w p` is the regular file with bytes `c` -/
def FileAt (cfg : Cfg κ) (w : World κ) (p : Bytes) (c : κ) : Prop :=
  logicalAt cfg w p = some (.file c)

/-! ## functional semantics of stage commands -/

/-- What a stage command writes at its output paths (path ↦ tree) as a function of the stage
definition and of what it reads at its input paths (path ↦ logical content). Both lists are read
as finite maps (`alookup`). -/
abbrev Fun (κ : Type) := Stage → List (Bytes × Node κ) → List (Bytes × Node κ)

/-- what the command of `stg` reads in the world `w`: the logical content at each input path that
exists -/
def insOf (cfg : Cfg κ) (w : World κ) (stg : Stage) : List (Bytes × Node κ) :=
  stg.inputs.filterMap fun a => (logicalAt cfg w a.path).map fun n => (a.path, n)

/-- The function depends on the stage only through command line and working directory, and on the
inputs only as a finite map. (`dud commit` replaces a stage by one with re-sorted artifacts, new
checksums and `skip-cache` set on the un-owned inputs.) -/
def Fun.Stable (F : Fun κ) : Prop :=
  ∀ (stg stg' : Stage) (ins ins' : List (Bytes × Node κ)),
    stg.cmd = stg'.cmd → stg.wd = stg'.wd → (∀ p, alookup ins p = alookup ins' p) →
    ∀ p, alookup (F stg ins) p = alookup (F stg' ins') p

/-- **`exec` implements `F`.** Whenever `exec stg w` succeeds in `w'`:
* (`frame`) index, memo, command log, `done` and the cache are untouched;
* (`outs`) the logical content at each output path of the stage is what `F` yields for that path from
  the logical content found in `w` at the input paths (nothing at the path if `F` yields nothing);
* (`others`) every workspace path apart from all output paths of the stage is untouched;
* (`succeeds`) and it does succeed if the outputs do not overlap, can be written, and `F` yields a
  plain tree for each of them. -/
structure ExecIs (cfg : Cfg κ) (F : Fun κ) (exec : Exec κ) : Prop where
  frame : ∀ stg w w', exec stg w = .ok w' →
    w'.idx = w.idx ∧ w'.ran = w.ran ∧ w'.log = w.log ∧ w'.done = w.done ∧ w'.store = w.store
  outs : ∀ stg w w', exec stg w = .ok w' → ∀ a, a ∈ stg.outputs →
    logicalAt cfg w' a.path = alookup (F stg (insOf cfg w stg)) a.path
  others : ∀ stg w w', exec stg w = .ok w' →
    ∀ q, (∀ a, a ∈ stg.outputs → Apart (Path.comps a.path) q) → getPath w'.ws q = getPath w.ws q
  succeeds : ∀ stg w, ApartArts stg.outputs →
    (∀ a, a ∈ stg.outputs → Writable w.ws (Path.comps a.path)) →
    (∀ a, a ∈ stg.outputs → ∃ n, alookup (F stg (insOf cfg w stg)) a.path = some n ∧ n.plain = true) →
    ∃ w', exec stg w = .ok w'

/-! ## fresh / recorded -/

/-- the logical content found at each output of `stg` is what `F` yields from the logical content
found NOW at its inputs -/
def FreshStage (cfg : Cfg κ) (F : Fun κ) (w : World κ) (stg : Stage) : Prop :=
  ∀ a, a ∈ stg.outputs → logicalAt cfg w a.path = alookup (F stg (insOf cfg w stg)) a.path

/-- every stage of the index that has a command is `FreshStage` (this includes the command stages
without inputs, whose outputs are then what the command produces from nothing) -/
def Fresh (cfg : Cfg κ) (F : Fun κ) (w : World κ) : Prop :=
  ∀ sp stg, alookup w.idx sp = some stg → stg.hasCmd = true → FreshStage cfg F w stg

variable [DecidableEq κ]

/-- **Stage `sp` is unchanged since its last commit** (the second alternative of `run_sound`): its
definition checksum is recorded and current; every un-owned input and every output matches its
recorded checksum (`ContentsMatch` of `ch.Status`); every input owned by another stage carries the
checksum that owner records for the owning output. -/
def Recorded (cfg : Cfg κ) (w : World κ) (sp : Bytes) : Prop :=
  ∃ stg, alookup w.idx sp = some stg ∧ stg.sumOk cfg = true ∧
    (∀ a, a ∈ sortArts (plainInputs cfg w.idx stg) → matchShort cfg w a = .ok true) ∧
    (∀ a, a ∈ sortArts stg.outputs → matchShort cfg w a = .ok true) ∧
    (∀ a, a ∈ stg.inputs → ∀ sp' oa, findOwner cfg.walkAccumulates w.idx a.path = some (sp', oa) →
      a.sum = oa.sum)

omit [DecidableEq κ]

/-! ## well-formed pipelines -/

/-- Hypotheses on an index (all of them facts about paths, invariant under `dud commit`):
distinct stage paths; no two outputs overlap, within a stage and across stages; an input no stage
owns lies apart from every output; an input a stage owns lies at or below the owning output. -/
structure PipeOK (cfg : Cfg κ) (idx : Index) : Prop where
  keys : (idx.map (·.1)).Nodup
  apart_in : ∀ sp stg, alookup idx sp = some stg → ApartArts stg.outputs
  apart_across : ∀ sp1 sp2 stg1 stg2, sp1 ≠ sp2 →
    alookup idx sp1 = some stg1 → alookup idx sp2 = some stg2 →
    ∀ a, a ∈ stg1.outputs → ∀ b, b ∈ stg2.outputs → Apart (Path.comps a.path) (Path.comps b.path)
  plain_apart : ∀ sp stg, alookup idx sp = some stg → ∀ a, a ∈ stg.inputs →
    findOwner cfg.walkAccumulates idx a.path = none →
    ∀ sp' stg', alookup idx sp' = some stg' → ∀ b, b ∈ stg'.outputs →
      Apart (Path.comps b.path) (Path.comps a.path)
  owner_contains : ∀ sp stg, alookup idx sp = some stg → ∀ a, a ∈ stg.inputs →
    ∀ o oa, findOwner cfg.walkAccumulates idx a.path = some (o, oa) →
      Path.comps oa.path <+: Path.comps a.path

/-- the pipelines of files: no artifact is a directory artifact, no two inputs of a stage have the
same path (Go: the inputs are a map keyed by path), and an owned input is the owning output itself
(not something below it) -/
structure FilePipe (cfg : Cfg κ) (idx : Index) : Prop where
  ins_nodup : ∀ sp stg, alookup idx sp = some stg → stg.inputs.Pairwise (fun a b => a.path ≠ b.path)
  ins_files : ∀ sp stg, alookup idx sp = some stg → ∀ a, a ∈ stg.inputs → a.isDir = false
  outs_files : ∀ sp stg, alookup idx sp = some stg → ∀ a, a ∈ stg.outputs → a.isDir = false
  owner_same : ∀ sp stg, alookup idx sp = some stg → ∀ a, a ∈ stg.inputs →
    ∀ o oa, findOwner cfg.walkAccumulates idx a.path = some (o, oa) →
      Path.comps oa.path = Path.comps a.path

/-- in `w` every output, and every input no stage owns, is (logically) a regular file: what
`dud commit` needs to find in a pipeline of file artifacts -/
def AllFilesAt (cfg : Cfg κ) (w : World κ) : Prop :=
  ∀ sp stg, alookup w.idx sp = some stg →
    (∀ b, b ∈ stg.outputs → ∃ c, FileAt cfg w b.path c) ∧
    (∀ a, a ∈ stg.inputs → findOwner cfg.walkAccumulates w.idx a.path = none →
      ∃ c, FileAt cfg w a.path c)

end Dud
