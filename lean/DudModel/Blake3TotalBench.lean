import DudModel.Blake3Total
/-!
# Timing: total `Blake3T.hash` against the driver's `partial def` `Blake3.hash`

Not a theorem file.  Run interpreted with `lake env lean --run DudModel/Blake3TotalBench.lean [MiB]`
(about 12 s per hash of 4 MiB, both versions), or natively, which is what matters to the compiled driver:

    lake build DudModel.Blake3:o DudModel.Blake3Total:o DudModel.Blake3TotalBench:o
    leanc -o /tmp/bench .lake/build/ir/DudModel/Blake3.c.o.export \
      .lake/build/ir/DudModel/Blake3Total.c.o.export .lake/build/ir/DudModel/Blake3TotalBench.c.o.export
    /tmp/bench 4        # about 0.1 s per hash of 4 MiB, both versions

Hashes a buffer of the given size (default 4 MiB) with both functions, checks that the digests agree and
prints the wall-clock times.
-/

def benchInput (n : Nat) : ByteArray := Id.run do
  let mut b := ByteArray.emptyWithCapacity n
  for i in [0:n] do b := b.push (i % 251).toUInt8
  return b

@[noinline] def timeIt (label : String) (f : ByteArray → ByteArray) (input : ByteArray) :
    IO (ByteArray × Nat) := do
  let t0 ← IO.monoMsNow
  let r ← IO.lazyPure (fun _ => f input)
  -- force the result before reading the clock
  let hex := Blake3.toHex r
  IO.print s!"{label}: {hex}"
  let t1 ← IO.monoMsNow
  IO.println s!"  {t1 - t0} ms"
  return (r, t1 - t0)

def main (args : List String) : IO UInt32 := do
  let mib := (args.head? >>= String.toNat?).getD 4
  let input := benchInput (mib * 1024 * 1024)
  IO.println s!"input: {input.size} bytes"
  let (a, ta) ← timeIt "Blake3.hash  (partial)" Blake3.hash input
  let (b, tb) ← timeIt "Blake3T.hash (total)  " Blake3T.hash input
  let (_, ta2) ← timeIt "Blake3.hash  (partial)" Blake3.hash input
  let (_, tb2) ← timeIt "Blake3T.hash (total)  " Blake3T.hash input
  IO.println s!"agree: {a == b}; total/partial = {(tb + tb2) * 100 / (ta + ta2 + 1)} %"
  return (if a == b then 0 else 1)
