import DudModel.Lemmas.Crash
/-!
# Concurrent dud commands over the system-call model (C12 at the level of `FS` / `Call` / `apply`)

`Lock.lean` models the lock protocol with abstract program counters and a Boolean "the lock file exists".
This file gives the same protocol a small-step CONCURRENT semantics over the real file-system model of
`Sys.lean`: any number of processes share one `FS κ`; every step of a process is one mutating system call
(`Call κ`) applied with the real `apply`.

* A process is described by its **plan** `FS κ → List (Call κ)`: the calls of its body as a function of the
  file system it sees right after it has taken the lock (commands are deterministic given what they read).
  Nothing is assumed about a plan except `BodyOK`: no call of the body writes the lock path.
* A command that FAILS in the middle still unlocks (`fatal` calls `unlockProject`, `Lock.runCommand`): it is
  the process with plan `failing plan k` (the first `k` calls of the body, then the unlock).
* A command that is KILLED (or blocks for ever) simply is never scheduled again: schedules are arbitrary
  lists of process indices, no fairness is assumed.  All safety theorems therefore cover killed processes;
  a process killed while holding leaves the lock behind, and every later command is refused
  (`Props/C12sys.lean`, `lock_busy_refuses`).
* Process states `idle | holding rest | refused | done`; `step i`:
  - `idle`: the process issues `createExcl lock`.  `apply` is total: on an existing path `createExcl` changes
    nothing (that is how its failure is represented), so success is tested on the state before the call
    (`lockFree`); `step_idle_fs` shows that in both cases the new file system is `apply … (createExcl lock)`.
    Success: the process becomes `holding (plan fs')`, `fs'` the file system with the lock; failure:
    `refused`, file system unchanged.
  - `holding (c :: r)`: applies `c`;  `holding []`: applies `unlink lock`, becomes `done`;
  - `refused` / `done`: nothing (the process has exited).
* `retry i` puts a process that has exited (`refused` or `done`) back to `idle`: the user runs the command
  again.  `Ev` = a step or a retry; `runE` folds events, `run` folds steps only.
* Ghost **history** (`Hist`, `histStep`, `serialOf`): the blocks of calls executed under the lock, in the
  order the lock was acquired: completed blocks, plus the block of the current holder.  The history is not
  read by `step`; `runH_fst` (Props) shows the instrumented run is the plain run.
* `stepX false`: the variant without `O_EXCL` (lock taken with a plain create that succeeds on an existing
  file), for the negative witness.

Executable, core Lean only.
-/
namespace Dud.Sys.Conc

open Dud Dud.Sys

variable {κ : Type}

/-- the body of a command as a function of the file system it sees right after taking the lock -/
abbrev Plan (κ : Type) := FS κ → List (Call κ)

/-- no call of the body writes the lock path -/
def BodyOK (plan : Plan κ) : Prop := ∀ fs, ∀ x ∈ plan fs, P.lock ∉ callWrites x

/-- the command whose body fails after `k` calls: the rest of the body is not executed; the process still
unlocks (`fatal` → `unlockProject`) -/
def failing (plan : Plan κ) (k : Nat) : Plan κ := fun fs => (plan fs).take k

inductive PSt (κ : Type) where
  | idle                                -- before `lockProject`
  | holding (rest : List (Call κ))      -- lock taken; the calls still to issue before the unlock
  | refused                             -- `lockProject` failed: exits through `fatal` WITHOUT unlocking
  | done                                -- `unlockProject` done, process exited
deriving Repr, Inhabited

def PSt.isHolding : PSt κ → Bool
  | .holding _ => true
  | _ => false

def PSt.exited : PSt κ → Bool
  | .refused => true
  | .done => true
  | _ => false

structure State (κ : Type) where
  fs : FS κ
  procs : List (PSt κ)
deriving Repr

def init (fs : FS κ) (n : Nat) : State κ := { fs := fs, procs := List.replicate n .idle }

/-- plan of process `i` (out of range: the empty body) -/
def planOf (plans : List (Plan κ)) (i : Nat) : Plan κ := plans.getD i (fun _ => [])

/-- the lock path is free: `createExcl lock` will succeed -/
def lockFree (fs : FS κ) : Bool := (fs.get .lock).isNone

/-- the call `lockProject` issues: `O_CREATE|O_EXCL` (`excl = true`, the code), or a plain create -/
def lockCall (excl : Bool) : Call κ := if excl then .createExcl .lock else .createTrunc .lock

/-- one atomic step (one system call) of process `i` -/
def stepX (excl : Bool) (emp : κ) (plans : List (Plan κ)) (st : State κ) (i : Nat) : State κ :=
  match st.procs[i]? with
  | none => st
  | some .idle =>
    if excl && !lockFree st.fs then { st with procs := st.procs.set i .refused }        -- EEXIST
    else
      let fs' := apply emp st.fs (lockCall excl)
      { fs := fs', procs := st.procs.set i (.holding (planOf plans i fs')) }
  | some (.holding (c :: r)) => { fs := apply emp st.fs c, procs := st.procs.set i (.holding r) }
  | some (.holding []) => { fs := apply emp st.fs (.unlink .lock), procs := st.procs.set i .done }
  | some .refused => st
  | some .done => st

/-- the protocol as coded -/
def step (emp : κ) (plans : List (Plan κ)) (st : State κ) (i : Nat) : State κ := stepX true emp plans st i

def runX (excl : Bool) (emp : κ) (plans : List (Plan κ)) (st : State κ) (sched : List Nat) : State κ :=
  sched.foldl (stepX excl emp plans) st

/-- any schedule: a list of process indices, no fairness assumed -/
def run (emp : κ) (plans : List (Plan κ)) (st : State κ) (sched : List Nat) : State κ :=
  sched.foldl (step emp plans) st

/-- the user runs the command of an exited process again -/
def retry (st : State κ) (i : Nat) : State κ :=
  match st.procs[i]? with
  | some .refused => { st with procs := st.procs.set i .idle }
  | some .done => { st with procs := st.procs.set i .idle }
  | _ => st

inductive Ev where
  | step (i : Nat)
  | retry (i : Nat)
deriving DecidableEq, Repr

def exec (emp : κ) (plans : List (Plan κ)) (st : State κ) : Ev → State κ
  | .step i => step emp plans st i
  | .retry i => retry st i

def runE (emp : κ) (plans : List (Plan κ)) (st : State κ) (evs : List Ev) : State κ :=
  evs.foldl (exec emp plans) st

def State.holdingCount (st : State κ) : Nat := st.procs.countP PSt.isHolding

/-! ## serial execution -/

/-- the complete call sequence of one command started on `fs`: lock, body (planned on the file system with
the lock), unlock -/
def fullBlock (emp : κ) (plan : Plan κ) (fs : FS κ) : List (Call κ) :=
  .createExcl .lock :: (plan (apply emp fs (.createExcl .lock)) ++ [.unlink .lock])

/-- the commands `order` run one after the other, each to completion -/
def serialRun (emp : κ) (plans : List (Plan κ)) (fs : FS κ) (order : List Nat) : FS κ :=
  order.foldl (fun fs i => replay emp fs (fullBlock emp (planOf plans i) fs)) fs

/-! ## ghost history -/

/-- the calls executed under the lock, grouped by holder, in the order the lock was acquired -/
structure Hist (κ : Type) where
  /-- completed blocks (process index, its calls), oldest first -/
  done : List (Nat × List (Call κ))
  /-- the block of the current holder: the calls it has executed so far -/
  cur : Option (Nat × List (Call κ))
deriving Repr

def Hist.empty : Hist κ := { done := [], cur := none }

def flatBlocks (bs : List (Nat × List (Call κ))) : List (Call κ) := (bs.map (·.2)).flatten

def Hist.curCalls (h : Hist κ) : List (Call κ) :=
  match h.cur with
  | none => []
  | some b => b.2

/-- all calls of the history in order -/
def Hist.calls (h : Hist κ) : List (Call κ) := flatBlocks h.done ++ h.curCalls

/-- the processes that completed, in the order they acquired the lock -/
def Hist.order (h : Hist κ) : List Nat := h.done.map (·.1)

/-- how a step of process `i` from `st` extends the history -/
def histStep (st : State κ) (h : Hist κ) (i : Nat) : Hist κ :=
  match st.procs[i]? with
  | some .idle => if lockFree st.fs then { h with cur := some (i, [.createExcl .lock]) } else h
  | some (.holding (c :: _)) => { h with cur := h.cur.map (fun b => (b.1, b.2 ++ [c])) }
  | some (.holding []) =>
    { done := h.done ++ (h.cur.map (fun b => (b.1, b.2 ++ [.unlink .lock]))).toList, cur := none }
  | _ => h

def execH (emp : κ) (plans : List (Plan κ)) (p : State κ × Hist κ) (e : Ev) : State κ × Hist κ :=
  match e with
  | .step i => (step emp plans p.1 i, histStep p.1 p.2 i)
  | .retry i => (retry p.1 i, p.2)

def runH (emp : κ) (plans : List (Plan κ)) (p : State κ × Hist κ) (evs : List Ev) : State κ × Hist κ :=
  evs.foldl (execH emp plans) p

/-- the history of a run from `init fs0 n` -/
def serialOf (emp : κ) (plans : List (Plan κ)) (fs0 : FS κ) (n : Nat) (evs : List Ev) : Hist κ :=
  (runH emp plans (init fs0 n, Hist.empty) evs).2

/-- every completed block is `lock ++ plan (fs with the lock) ++ unlock`, planned on the file system the
serial execution of the earlier blocks produces -/
def Complete (emp : κ) (plans : List (Plan κ)) : FS κ → List (Nat × List (Call κ)) → Prop
  | _, [] => True
  | fs, b :: r => b.2 = fullBlock emp (planOf plans b.1) fs ∧ Complete emp plans (replay emp fs b.2) r

end Dud.Sys.Conc
