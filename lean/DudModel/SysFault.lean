import DudModel.SysCmd
import DudModel.Props.C04
/-!
# Fault model of the WHOLE `dud commit` command (C04, command level)

`SysCmd.lean` gives the list of file-system mutating calls of a successful `dud commit` in Go's order
(`cmdCommitGoT`).  This file says what the process does when ONE of these calls FAILS (returns an errno):

* the calls before it have taken effect, the failing call has NO effect (`runFault` of `Props/C04.lean`:
  the state is the crash prefix `calls.take k`);
* the error travels up the stack; on its way the Go code removes the private temp files of the operation
  that was under way and that still exist — `commitBytes` removes its cache temp file (deferred
  `os.Remove(tempPath)`, fix 2671af9), the rename probe `canRenameFileBetweenDirs` removes the workspace
  temp file when the cache temp file cannot be created (fix 295d467), `Stage.ToFile` removes `<stage>.tmp`
  (fix 232f967).  `liveTmps` computes, from the calls that took effect, the temp paths that may still
  exist: created (`createExcl` …) and neither renamed away nor unlinked since.  `cleanupCalls` unlinks
  exactly these.  Temp files of EARLIER operations are never live: each operation renames or unlinks its
  own (`Props/C04cmd.lean`, `cmdCommit_fault_tmp_free`: after the clean-up no temp path exists).
  EXCEPTION, as in the Go code: when the failing call is itself the removal of a temp file (the two
  `os.Remove` calls at the end of the rename probe) the function returns the error at once — nothing is
  cleaned up, a temp file of the probe stays behind (`cleanupCalls … (.unlink tmp) = []`);
* `fatal` (`src/cmd/root.go`) then calls `unlockProject`: `unlink <lock>` — unless the project was never
  locked (the failing call is `create_excl <lock>` itself) or the failing call is the final
  `unlink <lock>` (`unlockProject` clears `projectLocked` BEFORE `os.Remove`, so `fatal` does not try
  again: the lock file stays);
* the process exits with a non-zero status (`faultExitOk = false`); no later call of the trace is issued.

Positions are 0-based as in `runFault`: "the call at position `k` fails" = the first `k` calls succeed,
the `(k+1)`-th fails.  `k ≥ length`: no call fails, the trace is the whole trace, exit status 0.

Modelling decisions: a failing `rename` inside the rename probe is, in the Go code, not an error but the
NEGATIVE ANSWER of the probe (dud goes on with `canRename = false`); the model treats it like every other
failing call (abort + clean-up), i.e. it describes a run that stops there.  A short write is the pair
`writePart`/`write` with the fault at the `write`.
-/
namespace Dud.Sys

open Dud

variable {κ : Type}

/-! ## temp files that may still exist after a prefix -/

/-- the paths a call may bring into existence -/
def callCreates : Call κ → List P
  | .mkdir p => [p]
  | .createExcl p => [p]
  | .createTrunc p => [p]
  | .rename _ d => [d]
  | .symlink _ p => [p]
  | _ => []

/-- the paths that certainly do not exist after the call -/
def callRemoves : Call κ → List P
  | .rename s d => if s = d then [] else [s]
  | .unlink p => [p]
  | _ => []

/-- one step of the book-keeping: drop what the call removes, add the temp paths it may create -/
def liveStep (live : List P) (c : Call κ) : List P :=
  let kept := live.filter (fun p => !(callRemoves c).contains p)
  kept ++ (callCreates c).filter (fun p => p.isTemp && !kept.contains p)

/-- the private temp paths (`P.isTemp`) that may exist after the calls `pre` took effect, in the order
of their creation: created and neither renamed away nor unlinked since -/
def liveTmps (pre : List (Call κ)) : List P := pre.foldl liveStep []

/-! ## what dud does after the failing call -/

/-- the removal of the temp files that still exist; nothing when the failing call is itself the removal
of a temp file (the rename probe returns that error at once) -/
def cleanupCalls (pre : List (Call κ)) (failed : Call κ) : List (Call κ) :=
  match failed with
  | .unlink p => if p.isTemp then [] else (liveTmps pre).map .unlink
  | _ => (liveTmps pre).map .unlink

/-- `fatal` → `unlockProject`: the lock file is removed unless it was never created by this process or
its removal is the call that failed -/
def unlockCalls (failed : Call κ) : List (Call κ) :=
  match failed with
  | .createExcl .lock => []
  | .unlink .lock => []
  | _ => [.unlink .lock]

/-- **The calls of a run in which the call at position `k` of `calls` fails**: the prefix, the clean-up,
the unlock.  (`k ≥ calls.length`: nothing fails, the whole trace.) -/
def faultTrace (calls : List (Call κ)) (k : Nat) : List (Call κ) :=
  match calls[k]? with
  | none => calls
  | some c => calls.take k ++ cleanupCalls (calls.take k) c ++ unlockCalls c

/-- exit status 0 ⇔ no call failed -/
def faultExitOk (calls : List (Call κ)) (k : Nat) : Bool := calls[k]?.isNone

/-- the file system after the run in which the call at position `k` fails -/
def runFaultCleanup (emp : κ) (fs : FS κ) (calls : List (Call κ)) (k : Nat) : FS κ :=
  replay emp fs (faultTrace calls k)

/-! ## the command -/

/-- the calls of `dud commit` (Go's order) when its call at position `k` fails; `[]` when the command
fails at the logical level (no trace in this model) -/
def cmdCommitFaultCalls (c : CmdCfg κ) (strat : Strat) (targets : List Bytes) (w : World κ) (k : Nat) :
    List (Call κ) :=
  match cmdCommitGoT c strat targets w with
  | .ok (_, calls) => faultTrace calls k
  | .error _ => []

/-- **the file system after `dud commit` whose call at position `k` failed** -/
def cmdCommitFaultT (c : CmdCfg κ) (emp : κ) (strat : Strat) (targets : List Bytes) (w : World κ)
    (k : Nat) (fs : FS κ) : FS κ :=
  replay emp fs (cmdCommitFaultCalls c strat targets w k)

/-- exit status of that run: 0 ⇔ the command succeeds at the logical level and no call failed -/
def cmdCommitFaultExitOk (c : CmdCfg κ) (strat : Strat) (targets : List Bytes) (w : World κ) (k : Nat) :
    Bool :=
  match cmdCommitGoT c strat targets w with
  | .ok (_, calls) => faultExitOk calls k
  | .error _ => false

end Dud.Sys
