import DudModel.Model
/-!
# `artifact.Status.String()` (`src/artifact/artifact.go`)
-/
namespace Dud

def insertCount (k : String) : List (String × Nat) → List (String × Nat)
  | [] => [(k, 1)]
  | (x, n) :: r => if x == k then (x, n + 1) :: r else (x, n) :: insertCount k r

/-- rendering of a non-directory status (every `return` of `String()` before the directory case) -/
def Status.leafString (st : Status) : Option String :=
  let isDir := st.ws == .directory
  let isAbsent := st.ws == .absent
  if (st.isDir != isDir) && !isAbsent then some s!"incorrect file type: {st.ws.toString}"
  else if st.skip && st.ws != .regular then some s!"incorrect file type: {st.ws.toString} (not cached)"
  else match st.ws with
    | .absent =>
      some (if st.has then (if st.inCache then "missing from workspace" else "missing from cache and workspace")
            else "missing and not committed")
    | .regular =>
      let base := if st.has then
          (if st.inCache || st.skip then (if st.cm then "up-to-date" else "modified") else "missing from cache")
        else "not committed"
      some (if st.skip then base ++ " (not cached)" else base)
    | .link =>
      some (if st.has then (if st.inCache then (if st.cm then "up-to-date (link)" else "incorrect link") else "broken link")
            else "link with no checksum")
    | .other => some "invalid file type"
    | .directory => none

mutual
/-- `dirStatusCounts` -/
def Status.counts : Status → List (String × Nat) → List (String × Nat)
  | ⟨_, _, _, _, _, _, _, children⟩, acc =>
    let acc := insertCount (if children.isEmpty then "empty directory" else "directory") acc
    countsList children acc
def countsList : List Status → List (String × Nat) → List (String × Nat)
  | [], acc => acc
  | c :: r, acc =>
    if c.isDir then countsList r (c.counts acc)
    else countsList r (insertCount ((c.leafString).getD "?") acc)
end

def insertSorted (p : String × Nat) : List (String × Nat) → List (String × Nat)
  | [] => [p]
  | x :: r =>
    let before := if p.2 == x.2 then decide (p.1 < x.1) else decide (p.2 > x.2)
    if before then p :: x :: r else x :: insertSorted p r

/-- `Status.String()` -/
def Status.render (st : Status) : String :=
  match st.leafString with
  | some s => s
  | none =>
    let cs := (st.counts []).foldr insertSorted []
    ", ".intercalate (cs.map fun (k, n) => s!"{n}x {k}")

end Dud
