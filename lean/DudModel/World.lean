import DudModel.Stage
/-!
# Project-level model: index traversals (`src/index/*.go`) and the CLI commands (`src/cmd/*.go`)

One generic depth-first traversal (`visit`) carries run, commit, checkout, status, push, fetch and
graph; `avail` is the complement of Go's `inProgress` map, so the recursion is structural in the
fuel and a stage found outside `avail` is exactly "cycle detected".
-/
namespace Dud

variable {κ : Type}

/-! ## workspace addressing -/

def getPath : Node κ → List Name → Option (Node κ)
  | n, [] => some n
  | .dir es, c :: r => match alookup es c with
    | some n => getPath n r
    | none => none
  | _, _ :: _ => none

/-- write a node at a path, creating intermediate directories (`os.MkdirAll`); `none` if an
intermediate component exists and is not a directory -/
def setPath : Node κ → List Name → Node κ → Option (Node κ)
  | _, [], v => some v
  | .dir es, c :: r, v =>
    match setPath ((alookup es c).getD (.dir [])) r v with
    | some n => some (.dir (setEntry es c n))
    | none => none
  | _, _ :: _, _ => none

def delPath : Node κ → List Name → Node κ
  | n, [] => n
  | .dir es, [c] => .dir (aerase es c)
  | .dir es, c :: r => match alookup es c with
    | some n => .dir (setEntry es c (delPath n r))
    | none => .dir es
  | n, _ => n

/-! ## generic traversal -/

structure Trav (σ : Type) where
  isDone : σ → Bytes → Bool
  /-- owners of the stage's inputs, in the order they are visited -/
  owners : σ → Bytes → Except Err (List Bytes)
  /-- what happens at the stage once everything upstream is finished; marks the stage done -/
  act : Bytes → σ → Except Err σ

def visitAll {σ} (f : Bytes → σ → Except Err σ) : List Bytes → σ → Except Err σ
  | [], st => .ok st
  | o :: os, st => match f o st with
    | .error e => .error e
    | .ok st' => visitAll f os st'

/-- `Index.Run/Commit/Checkout/Status/Push/Fetch/Graph` skeleton -/
def visit {σ} (T : Trav σ) (recursive : Bool) : Nat → List Bytes → Bytes → σ → Except Err σ
  | 0, _, _, _ => .error .cycle
  | fuel+1, avail, sp, st =>
    if T.isDone st sp then .ok st
    else if !avail.contains sp then .error .cycle
    else match T.owners st sp with
      | .error e => .error e
      | .ok os =>
        let up : Except Err σ :=
          if recursive then visitAll (visit T recursive fuel (avail.filter (· != sp))) os st
          else .ok st
        match up with
        | .error e => .error e
        | .ok st' => T.act sp st'

/-! ## world state -/

structure Cfg (κ : Type) where
  ctx : Ctx κ
  ofBytes : Bytes → κ
  toBytes : κ → Bytes
  /-- regenerated fact, see `Stage.lean` -/
  walkAccumulates : Bool
  fuel : Nat := 64

structure World (κ : Type) where
  ws : Node κ := .dir []
  store : Store κ := []
  remote : Store κ := []
  idx : Index := []
  done : List Bytes := []
  ran : List (Bytes × Bool) := []
  log : List Bytes := []
  stat : List (Bytes × Bool × Bool × List Status) := []   -- stage, hasSum, sumMatches, artifacts
deriving Inhabited

def World.stage (w : World κ) (sp : Bytes) : Except Err Stage :=
  match alookup w.idx sp with
  | some s => .ok s
  | none => .error .unknownStage

def setStage (idx : Index) (sp : Bytes) (s : Stage) : Index :=
  idx.map (fun p => if p.1 == sp then (p.1, s) else p)

def ownersOf (cfg : Cfg κ) (w : World κ) (sp : Bytes) : Except Err (List Bytes) :=
  match w.stage sp with
  | .error e => .error e
  | .ok stg => .ok ((sortArts stg.inputs).filterMap fun a => (findOwner cfg.walkAccumulates w.idx a.path).map (·.1))

def Stage.defSum (cfg : Cfg κ) (stg : Stage) : Digest := cfg.ctx.H (cfg.ofBytes stg.defBytes)

/-! ## commit -/

/-- `ch.Commit(rootDir, art, …)` on the world; returns the artifact with its new checksum -/
def commitArtW (cfg : Cfg κ) (strat : Strat) (a : Art) (w : World κ) : Except Err (Art × World κ) :=
  let comps := Path.comps a.path
  match commitArt cfg.ctx strat a (getPath w.ws comps) w.store with
  | .error e => .error e
  | .ok (n, d, s) =>
    match setPath w.ws comps n with
    | none => .error .other
    | some ws' => .ok ({ a with sum := d }, { w with ws := ws', store := s })

def commitArts (cfg : Cfg κ) (strat : Strat) : List Art → World κ → Except Err (List Art × World κ)
  | [], w => .ok ([], w)
  | a :: r, w => match commitArtW cfg strat a w with
    | .error e => .error e
    | .ok (a', w1) => match commitArts cfg strat r w1 with
      | .error e => .error e
      | .ok (r', w2) => .ok (a' :: r', w2)

/-- body of `Index.Commit` after the upstream recursion -/
def commitAct (cfg : Cfg κ) (strat : Strat) (sp : Bytes) (w : World κ) : Except Err (World κ) :=
  match w.stage sp with
  | .error e => .error e
  | .ok stg =>
    let wa := cfg.walkAccumulates
    -- inputs owned by another stage take the owner's (already updated) checksum
    let owned := stg.inputs.filter (fun a => (findOwner wa w.idx a.path).isSome)
    let owned' := owned.map fun a =>
      match findOwner wa w.idx a.path with
      | some (_, oa) => { a with sum := oa.sum }
      | none => a
    let plain := (stg.inputs.filter (fun a => (findOwner wa w.idx a.path).isNone)).map
      (fun a => { a with skip := true })
    match commitArts cfg strat (sortArts plain) w with
    | .error e => .error e
    | .ok (plain', w1) =>
      match commitArts cfg strat (sortArts stg.outputs) w1 with
      | .error e => .error e
      | .ok (outs', w2) =>
        let stg' : Stage := { stg with inputs := sortArts (owned' ++ plain'), outputs := outs' }
        let stg'' := { stg' with sum := stg'.defSum cfg }
        .ok { w2 with idx := setStage w2.idx sp stg'', done := sp :: w2.done }

def commitTrav (cfg : Cfg κ) (strat : Strat) : Trav (World κ) :=
  { isDone := fun w sp => w.done.contains sp, owners := ownersOf cfg, act := commitAct cfg strat }

/-- run one traversal per target with a fresh recursion stack and a shared memo -/
def perTarget (f : Bytes → World κ → Except Err (World κ)) : List Bytes → World κ → Except Err (World κ)
  | [], w => .ok w
  | t :: r, w =>
    -- a target that is not in the index: `idx[stagePath]` fails with "unknown stage"
    if (alookup w.idx t).isNone then .error .unknownStage else
    match f t w with
    | .error e => .error e
    | .ok w' => perTarget f r w'

def allStages (w : World κ) : List Bytes := w.idx.map (·.1)

def fresh (w : World κ) : World κ := { w with done := [], ran := [], log := [], stat := [] }

/-- `dud commit [--copy] [targets]` -/
def cmdCommit (cfg : Cfg κ) (strat : Strat) (targets : List Bytes) (w : World κ) : Except Err (World κ) :=
  let ts := if targets.isEmpty then allStages w else targets
  if ts.isEmpty then .error .invalid
  else perTarget (fun t w => visit (commitTrav cfg strat) true (w.idx.length + 1) (allStages w) t w) ts (fresh w)

/-! ## checkout -/

def checkoutArtW (cfg : Cfg κ) (strat : Strat) (a : Art) (w : World κ) : Except Err (World κ) :=
  let comps := Path.comps a.path
  match checkoutArt cfg.ctx strat cfg.fuel a (getPath w.ws comps) w.store with
  | .error e => .error e
  | .ok none => .ok w
  | .ok (some n) =>
    if a.skip then .ok w
    else match setPath w.ws comps n with
      | none => .error .other
      | some ws' => .ok { w with ws := ws' }

def checkoutArts (cfg : Cfg κ) (strat : Strat) : List Art → World κ → Except Err (World κ)
  | [], w => .ok w
  | a :: r, w => match checkoutArtW cfg strat a w with
    | .error e => .error e
    | .ok w' => checkoutArts cfg strat r w'

def checkoutAct (cfg : Cfg κ) (strat : Strat) (sp : Bytes) (w : World κ) : Except Err (World κ) :=
  match w.stage sp with
  | .error e => .error e
  | .ok stg => match checkoutArts cfg strat (sortArts stg.outputs) w with
    | .error e => .error e
    | .ok w' => .ok { w' with done := sp :: w'.done }

def checkoutTrav (cfg : Cfg κ) (strat : Strat) : Trav (World κ) :=
  { isDone := fun w sp => w.done.contains sp, owners := ownersOf cfg, act := checkoutAct cfg strat }

/-- `dud checkout [--copy] [--single-stage] [targets]` (the flag is ignored without targets) -/
def cmdCheckout (cfg : Cfg κ) (strat : Strat) (single : Bool) (targets : List Bytes) (w : World κ) :
    Except Err (World κ) :=
  if w.idx.isEmpty then .error .invalid else
  let ts := if targets.isEmpty then allStages w else targets
  let recursive := targets.isEmpty || !single
  perTarget (fun t w => visit (checkoutTrav cfg strat) recursive (w.idx.length + 1) (allStages w) t w) ts (fresh w)

/-! ## status -/

def statusArts [DecidableEq κ] (cfg : Cfg κ) (w : World κ) : List Art → Except Err (List Status)
  | [] => .ok []
  | a :: r => match statusArt cfg.ctx w.store cfg.fuel a (getPath w.ws (Path.comps a.path)) with
    | .error e => .error e
    | .ok st => match statusArts cfg w r with
      | .error e => .error e
      | .ok rs => .ok (st :: rs)

def statusAct [DecidableEq κ] (cfg : Cfg κ) (sp : Bytes) (w : World κ) : Except Err (World κ) :=
  match w.stage sp with
  | .error e => .error e
  | .ok stg =>
    let plain := (stg.inputs.filter (fun a => (findOwner cfg.walkAccumulates w.idx a.path).isNone))
    match statusArts cfg w (sortArts (plain ++ stg.outputs)) with
    | .error e => .error e
    | .ok sts =>
      let has := !stg.sum.isEmpty
      .ok { w with stat := w.stat ++ [(sp, has, has && stg.defSum cfg == stg.sum, sts)], done := sp :: w.done }

def statusTrav [DecidableEq κ] (cfg : Cfg κ) : Trav (World κ) :=
  { isDone := fun w sp => w.done.contains sp, owners := ownersOf cfg, act := statusAct cfg }

/-- `dud status [targets]` -/
def cmdStatus [DecidableEq κ] (cfg : Cfg κ) (targets : List Bytes) (w : World κ) : Except Err (World κ) :=
  if w.idx.isEmpty then .error .invalid else
  let ts := if targets.isEmpty then allStages w else targets
  perTarget (fun t w => visit (statusTrav cfg) true (w.idx.length + 1) (allStages w) t w) ts (fresh w)

/-! ## run -/

/-- `ContentsMatch` of `ch.Status(rootDir, art, shortCircuit = true)`: the short-circuit variant
returns early (no match) for a directory without a cached checksum. -/
def matchShort [DecidableEq κ] (cfg : Cfg κ) (w : World κ) (a : Art) : Except Err Bool :=
  let cur := getPath w.ws (Path.comps a.path)
  if a.isDir && !(quick w.store a.sum cur).inCache then .ok (quick w.store a.sum cur).cm
  else match statusArt cfg.ctx w.store cfg.fuel a cur with
    | .error e => .error e
    | .ok st => .ok st.cm

def allMatch [DecidableEq κ] (cfg : Cfg κ) (w : World κ) : List Art → Except Err Bool
  | [] => .ok true
  | a :: r => match matchShort cfg w a with
    | .error e => .error e
    | .ok false => .ok false
    | .ok true => allMatch cfg w r

/-- How the model executes a stage command: a parameter (the driver interprets a small command
language; theorems hold for every interpretation). -/
abbrev Exec (κ : Type) := Stage → World κ → Except Err (World κ)

def didRun (w : World κ) (sp : Bytes) : Bool := (alookup w.ran sp).getD false

/-- body of `Index.Run` after the upstream recursion -/
def runAct [DecidableEq κ] (cfg : Cfg κ) (exec : Exec κ) (recursive : Bool) (sp : Bytes) (w : World κ) :
    Except Err (World κ) :=
  match w.stage sp with
  | .error e => .error e
  | .ok stg =>
    let wa := cfg.walkAccumulates
    let hasCmd := !stg.cmd.isEmpty
    let sumOk := !stg.sum.isEmpty && stg.defSum cfg == stg.sum
    let noInputs := hasCmd && stg.inputs.isEmpty
    let plain := stg.inputs.filter (fun a => (findOwner wa w.idx a.path).isNone)
    let ups := stg.inputs.filterMap (fun a => (findOwner wa w.idx a.path).map (·.1))
    match allMatch cfg w (sortArts plain) with
    | .error e => .error e
    | .ok plainOk =>
      let upRan := recursive && ups.any (didRun w)
      -- an owned input whose recorded checksum differs from what its owner records now
      let ownedStale := stg.inputs.any fun a =>
        match findOwner wa w.idx a.path with
        | some (_, oa) => a.sum != oa.sum
        | none => false
      let pre := noInputs || !sumOk || !plainOk || upRan || ownedStale
      let outsOk : Except Err Bool := if pre then .ok true else allMatch cfg w (sortArts stg.outputs)
      match outsOk with
      | .error e => .error e
      | .ok oo =>
        let doRun := pre || !oo
        if doRun && hasCmd then
          match exec stg w with
          | .error e => .error e
          | .ok w' => .ok { w' with ran := (sp, true) :: w'.ran, log := w'.log ++ [sp] }
        else .ok { w with ran := (sp, doRun) :: w.ran }

def runTrav [DecidableEq κ] (cfg : Cfg κ) (exec : Exec κ) (recursive : Bool) : Trav (World κ) :=
  { isDone := fun w sp => (alookup w.ran sp).isSome, owners := ownersOf cfg, act := runAct cfg exec recursive }

/-- `dud run [--single-stage] [targets]` -/
def cmdRun [DecidableEq κ] (cfg : Cfg κ) (exec : Exec κ) (single : Bool) (targets : List Bytes) (w : World κ) :
    Except Err (World κ) :=
  if w.idx.isEmpty then .error .invalid else
  let ts := if targets.isEmpty then allStages w else targets
  perTarget (fun t w => visit (runTrav cfg exec (!single)) (!single) (w.idx.length + 1) (allStages w) t w) ts (fresh w)

/-! ## push / fetch -/

/-- `gatherFilesToPush`: digests reachable from a child, or an error for a missing object -/
def gatherChildren (f : Child → List Digest → Except Err (List Digest)) :
    List Child → List Digest → Except Err (List Digest)
  | [], acc => .ok acc
  | c :: cs, acc => match f c acc with
    | .error e => .error e
    | .ok acc' => gatherChildren f cs acc'

def gather (ctx : Ctx κ) (s : Store κ) : Nat → Child → List Digest → Except Err (List Digest)
  | 0, _, _ => .error .other
  | fuel+1, c, acc =>
    if !hasSum c.sum then .error .invalidSum
    else if !s.has c.sum then .error .missingFromCache
    else if c.isDir then
      match readManifest ctx s c.sum with
      | .error e => .error e
      | .ok cs => match gatherChildren (gather ctx s fuel) cs acc with
        | .error e => .error e
        | .ok acc' => .ok (if acc'.contains c.sum then acc' else c.sum :: acc')
    else .ok (if acc.contains c.sum then acc else c.sum :: acc)

def gatherArts (cfg : Cfg κ) (s : Store κ) : List Art → List Digest → Except Err (List Digest)
  | [], acc => .ok acc
  | a :: r, acc =>
    if a.skip then gatherArts cfg s r acc
    else match gather cfg.ctx s cfg.fuel a.child acc with
      | .error e => .error e
      | .ok acc' => gatherArts cfg s r acc'

/-- the stand-in's `copy --files-from`: copies what the destination lacks; a missing source is an error -/
def copyObjs (src dst : Store κ) : List Digest → Except Err (Store κ)
  | [] => .ok dst
  | d :: r =>
    match src.get d with
    | none => .error .missingFromCache
    | some o => copyObjs src (if dst.has d then dst else dst.put d o) r

def pushAct (cfg : Cfg κ) (sp : Bytes) (w : World κ) : Except Err (World κ) :=
  match w.stage sp with
  | .error e => .error e
  | .ok stg => match gatherArts cfg w.store (sortArts stg.outputs) [] with
    | .error e => .error e
    | .ok ds => match copyObjs w.store w.remote ds with
      | .error e => .error e
      | .ok rem => .ok { w with remote := rem, done := sp :: w.done }

/-- one level of `LocalCache.Fetch`: `arts` keyed as in the Go map; returns the children map of
the next level (keyed by checksum: a later entry with the same checksum replaces an earlier one) -/
def fetchLevel (ctx : Ctx κ) (remote : Store κ) (local_ : Store κ) (arts : List Child) :
    Except Err (Store κ × List Child) :=
  if arts.any (fun a => !hasSum a.sum) then .error .invalidSum else
  let missing := (arts.filter (fun a => !local_.has a.sum)).map (·.sum)
  match copyObjs remote local_ missing.eraseDups with
  | .error e => .error e
  | .ok loc' =>
    -- dirArtifacts is keyed by cache path: one entry per checksum
    let dirs := (arts.filter (·.isDir)).map (·.sum) |>.eraseDups
    let rec kids : List Digest → Except Err (List Child)
      | [] => .ok []
      | d :: r => match readManifest ctx loc' d with
        | .error e => .error e
        | .ok cs => match kids r with
          | .error e => .error e
          | .ok rest => .ok (cs ++ rest)
    match kids dirs with
    | .error e => .error e
    | .ok cs => .ok (loc', cs)

/-- children map keyed by checksum: keep one child per checksum. Which one survives depends on Go's
map iteration order; `pickLast` chooses the last, any choice is allowed when kinds agree. -/
def dedupBySum : List Child → List Child
  | [] => []
  | c :: r => if r.any (fun x => x.sum == c.sum) then dedupBySum r else c :: dedupBySum r

def fetchFix (ctx : Ctx κ) (remote : Store κ) : Nat → Store κ → List Child → Except Err (Store κ)
  | 0, _, _ => .error .other
  | fuel+1, loc, arts =>
    match fetchLevel ctx remote loc arts with
    | .error e => .error e
    | .ok (loc', kids) =>
      if kids.isEmpty then .ok loc' else fetchFix ctx remote fuel loc' (dedupBySum kids)

def fetchAct (cfg : Cfg κ) (sp : Bytes) (w : World κ) : Except Err (World κ) :=
  match w.stage sp with
  | .error e => .error e
  | .ok stg =>
    let arts := ((sortArts stg.outputs).filter (fun a => !a.skip)).map Art.child
    match fetchFix cfg.ctx w.remote cfg.fuel w.store arts with
    | .error e => .error e
    | .ok loc => .ok { w with store := loc, done := sp :: w.done }

def simpleTrav (cfg : Cfg κ) (act : Bytes → World κ → Except Err (World κ)) : Trav (World κ) :=
  { isDone := fun w sp => w.done.contains sp, owners := ownersOf cfg, act := act }

def cmdPush (cfg : Cfg κ) (single : Bool) (targets : List Bytes) (w : World κ) : Except Err (World κ) :=
  if w.idx.isEmpty then .error .invalid else
  let ts := if targets.isEmpty then allStages w else targets
  let recursive := targets.isEmpty || !single
  perTarget (fun t w => visit (simpleTrav cfg (pushAct cfg)) recursive (w.idx.length + 1) (allStages w) t w) ts (fresh w)

def cmdFetch (cfg : Cfg κ) (single : Bool) (targets : List Bytes) (w : World κ) : Except Err (World κ) :=
  let ts := if targets.isEmpty then allStages w else targets
  let recursive := targets.isEmpty || !single
  perTarget (fun t w => visit (simpleTrav cfg (fetchAct cfg)) recursive (w.idx.length + 1) (allStages w) t w) ts (fresh w)

end Dud
