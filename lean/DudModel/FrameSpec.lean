import DudModel.Spec
/-!
# Frame relation for checkout: what a checkout may do to the node it finds

`Keeps ctx s strat n n'`: `n'` keeps everything `n` had.  Every node is unchanged, except that
(copy strategy only) a link that resolves to a cache object may have been replaced by a regular file
holding exactly that object's bytes; directories keep every entry at its position (recursively) and
may gain entries at the end.
-/
namespace Dud

variable {κ : Type}

mutual
def Keeps (ctx : Ctx κ) (s : Store κ) (strat : Strat) : Node κ → Node κ → Prop
  | .dir es, n' => ∃ es', n' = .dir es' ∧ KeepsList ctx s strat es es'
  | .link (.obj d), n' =>
    n' = .link (.obj d) ∨ (strat = .copy ∧ ∃ o, s.get d = some o ∧ n' = .file (o.bytes ctx))
  | .link (.foreign l), n' => n' = .link (.foreign l)
  | .file c, n' => n' = .file c
  | .other, n' => n' = .other
/-- positional: the i-th entry of `es` is the i-th entry of `es'` (same name, kept node) -/
def KeepsList (ctx : Ctx κ) (s : Store κ) (strat : Strat) :
    List (Name × Node κ) → List (Name × Node κ) → Prop
  | [], _ => True
  | (nm, n) :: r, es' => ∃ n' r', es' = (nm, n') :: r' ∧ Keeps ctx s strat n n' ∧ KeepsList ctx s strat r r'
end

end Dud
