import DudModel.Sys
import DudModel.World
import DudModel.Generated.Facts
/-!
# System-call level model of the WHOLE `dud commit` command

`Sys.lean` gives the trace of one `LocalCache.Commit` (`commitArtT`).  This file assembles, as a total
library function, the trace of the whole command in the order the Go code issues the calls
(`src/cmd/root.go` `prepare` / lock, `src/cmd/commit.go`, `src/index/commit.go`, `src/stage/stage.go`
`ToFile`):

* `create_excl <lock>` — `lockProject`, first mutating call of the process;
* for every stage, in the order the depth-first traversal `Index.Commit` finishes them: one
  `commitArtT` trace per plain (un-owned) input, with `skip := true`, then one per output
  (`commitArtWT`, `commitArtsT`, `commitActT`: traced twins of `commitArtW`, `commitArts`, `commitAct` of
  `World.lean`; the traversal itself is the generic `visit` on states that carry the trace, `commitTravT`);
* for every committed stage, in the same order, the rewrite of its stage file (`metaWriteCalls`, variant
  selected by the regenerated fact `stageWrite`) with the bytes `encStage` of the stage the final index
  holds;
* `unlink <lock>` — `unlockProject`, last mutating call.

The trace is kept segmented (`CmdTrace`: one call list per artifact, one per stage file) so that a
driver can number temp files per artifact and drop repeated `mkdir`s when rendering; `CmdTrace.calls`
is the flat sequence the theorems talk about.

Two orders of the stage-file writes.  `cmdCommitT` / `cmdCommitSegs` issue ALL stage-file writes after
ALL artifacts — the call sequence of the driver's `traceCommit`, which they replace, validated against the
real binary (stream S2) on single-stage projects.  With SEVERAL targets (or no target and several stages
in the index: every stage is a target then) the Go loop of `cmd/commit.go` writes the stage files of the
stages a target's traversal committed right after that traversal, before the artifacts of the next
target: `cmdCommitGoT` / `cmdCommitGoSegs` (last section) follow that order.  With one target the two
coincide (`cmdCommitGoT_single` in `Props/C03cmdGo.lean`).  The crash-safety argument does not depend on
the position of the stage-file writes (they touch neither workspace nor cache paths); both variants are
covered (`Props/C03cmd.lean`, `Props/C03cmdGo.lean`).
-/
namespace Dud.Sys

open Dud

variable {κ : Type}

/-- parameters of the traced command: the logical configuration plus what the trace generator needs -/
structure CmdCfg (κ : Type) where
  cfg : Cfg κ
  /-- "the file is empty": such a file gets no `write` call -/
  isEmp : κ → Bool
  /-- outcome of the rename probe between workspace and cache directory -/
  canRename : Bool
  /-- bytes of a stage file (YAML encoding of `Stage.toFileFormat`; the YAML library is a parameter) -/
  encStage : Stage → κ

def CmdCfg.tc (c : CmdCfg κ) (strat : Strat) : TCfg κ :=
  { ctx := c.cfg.ctx, isEmp := c.isEmp, strat := strat, canRename := c.canRename }

/-- regenerated fact: `stage.ToFile` goes through a temp file and `os.Rename` -/
def stageAtomic : Bool := Dud.Facts.stageWrite == "tempRename"

/-! ## artifacts of one stage -/

/-- traced `commitArtW` -/
def commitArtWT (c : CmdCfg κ) (strat : Strat) (a : Art) (w : World κ) :
    Except Err ((Art × World κ) × List (Call κ)) :=
  let comps := Path.comps a.path
  match commitArtT (c.tc strat) a comps (getPath w.ws comps) w.store with
  | .error e => .error e
  | .ok ((n, d, s), calls) =>
    match setPath w.ws comps n with
    | none => .error .other
    | some ws' => .ok (({ a with sum := d }, { w with ws := ws', store := s }), calls)

/-- traced `commitArts`: one call list per artifact -/
def commitArtsT (c : CmdCfg κ) (strat : Strat) :
    List Art → World κ → Except Err ((List Art × World κ) × List (List (Call κ)))
  | [], w => .ok (([], w), [])
  | a :: r, w => match commitArtWT c strat a w with
    | .error e => .error e
    | .ok ((a', w1), calls1) => match commitArtsT c strat r w1 with
      | .error e => .error e
      | .ok ((r', w2), segs) => .ok ((a' :: r', w2), calls1 :: segs)

/-- traced `commitAct`: plain inputs (forced `skip`), then outputs -/
def commitActT (c : CmdCfg κ) (strat : Strat) (sp : Bytes) (w : World κ) :
    Except Err (World κ × List (List (Call κ))) :=
  match w.stage sp with
  | .error e => .error e
  | .ok stg =>
    let wa := c.cfg.walkAccumulates
    let owned := stg.inputs.filter (fun a => (findOwner wa w.idx a.path).isSome)
    let owned' := owned.map fun a =>
      match findOwner wa w.idx a.path with
      | some (_, oa) => { a with sum := oa.sum }
      | none => a
    let plain := (stg.inputs.filter (fun a => (findOwner wa w.idx a.path).isNone)).map
      (fun a => { a with skip := true })
    match commitArtsT c strat (sortArts plain) w with
    | .error e => .error e
    | .ok ((plain', w1), segs1) =>
      match commitArtsT c strat (sortArts stg.outputs) w1 with
      | .error e => .error e
      | .ok ((outs', w2), segs2) =>
        let stg' : Stage := { stg with inputs := sortArts (owned' ++ plain'), outputs := outs' }
        let stg'' := { stg' with sum := stg'.defSum c.cfg }
        .ok ({ w2 with idx := setStage w2.idx sp stg'', done := sp :: w2.done }, segs1 ++ segs2)

/-! ## the traversal on states carrying the trace -/

/-- `commitTrav` on (world, artifact traces so far) -/
def commitTravT (c : CmdCfg κ) (strat : Strat) : Trav (World κ × List (List (Call κ))) :=
  { isDone := fun p sp => p.1.done.contains sp
    owners := fun p sp => ownersOf c.cfg p.1 sp
    act := fun sp p => match commitActT c strat sp p.1 with
      | .error e => .error e
      | .ok (w', segs) => .ok (w', p.2 ++ segs) }

/-- `perTarget` on states that carry something next to the world -/
def perTargetP {β : Type} (f : Bytes → World κ × β → Except Err (World κ × β)) :
    List Bytes → World κ × β → Except Err (World κ × β)
  | [], p => .ok p
  | t :: r, p =>
    if (alookup p.1.idx t).isNone then .error .unknownStage else
    match f t p with
    | .error e => .error e
    | .ok p' => perTargetP f r p'

/-! ## stage files -/

/-- rewrite of the stage file `sp` with the stage the index `idx` holds -/
def stageWriteCalls (c : CmdCfg κ) (idx : Index) (sp : Bytes) : List (Call κ) :=
  match alookup idx sp with
  | some stg => metaWriteCalls stageAtomic (.stageFile sp) (.stageTmp sp) c.isEmp (c.encStage stg)
  | none => []

/-! ## the whole command -/

/-- the segmented trace of the command -/
structure CmdTrace (κ : Type) where
  /-- one call list per `LocalCache.Commit`, in order -/
  arts : List (List (Call κ))
  /-- one call list per rewritten stage file, in order -/
  metas : List (List (Call κ))

/-- the flat call sequence: lock, artifacts, stage files, unlock -/
def CmdTrace.calls (t : CmdTrace κ) : List (Call κ) :=
  [.createExcl .lock] ++ t.arts.flatten ++ t.metas.flatten ++ [.unlink .lock]

/-- `dud commit [--copy] [targets]` with its segmented trace -/
def cmdCommitSegs (c : CmdCfg κ) (strat : Strat) (targets : List Bytes) (w : World κ) :
    Except Err (World κ × CmdTrace κ) :=
  let ts := if targets.isEmpty then allStages w else targets
  if ts.isEmpty then .error .invalid
  else
    match perTargetP (fun t p => visit (commitTravT c strat) true (p.1.idx.length + 1) (allStages p.1) t p)
        ts (fresh w, []) with
    | .error e => .error e
    | .ok (w', arts) =>
      .ok (w', { arts := arts, metas := w'.done.reverse.map (stageWriteCalls c w'.idx) })

/-- **`dud commit` with the list of its file-system mutating calls** -/
def cmdCommitT (c : CmdCfg κ) (strat : Strat) (targets : List Bytes) (w : World κ) :
    Except Err (World κ × List (Call κ)) :=
  match cmdCommitSegs c strat targets w with
  | .error e => .error e
  | .ok (w', t) => .ok (w', t.calls)

/-! ## Go's order with several targets: stage files after each target -/

/-- the stages on `done'` that are not on `done`, oldest first: what `for path := range committed { if
written[path] … }` of `cmd/commit.go` writes after a target (Go iterates the map in an unspecified order;
the model fixes commit order) -/
def newlyDone (done done' : List Bytes) : List Bytes :=
  (done'.filter (fun sp => !done.contains sp)).reverse

/-- the loop over the targets of `cmd/commit.go`: traversal of the target, then the stage files of the
stages it committed, with the index as it is then.  A segment is tagged `true` when it is the trace of
one `LocalCache.Commit`, `false` when it is the rewrite of one stage file. -/
def goTargets (c : CmdCfg κ) (strat : Strat) :
    List Bytes → World κ × List (Bool × List (Call κ)) → Except Err (World κ × List (Bool × List (Call κ)))
  | [], p => .ok p
  | t :: r, p =>
    if (alookup p.1.idx t).isNone then .error .unknownStage else
    match visit (commitTravT c strat) true (p.1.idx.length + 1) (allStages p.1) t (p.1, []) with
    | .error e => .error e
    | .ok (w', arts) =>
      goTargets c strat r (w', p.2 ++ arts.map (fun s => (true, s)) ++
        (newlyDone p.1.done w'.done).map (fun sp => (false, stageWriteCalls c w'.idx sp)))

/-- `dud commit` with its tagged segments in Go's order -/
def cmdCommitGoSegs (c : CmdCfg κ) (strat : Strat) (targets : List Bytes) (w : World κ) :
    Except Err (World κ × List (Bool × List (Call κ))) :=
  let ts := if targets.isEmpty then allStages w else targets
  if ts.isEmpty then .error .invalid
  else goTargets c strat ts (fresh w, [])

/-- the flat call sequence of tagged segments between lock and unlock -/
def goCalls (segs : List (Bool × List (Call κ))) : List (Call κ) :=
  [.createExcl .lock] ++ (segs.map (·.2)).flatten ++ [.unlink .lock]

/-- **`dud commit` with the list of its file-system mutating calls, stage files written after each
target** -/
def cmdCommitGoT (c : CmdCfg κ) (strat : Strat) (targets : List Bytes) (w : World κ) :
    Except Err (World κ × List (Call κ)) :=
  match cmdCommitGoSegs c strat targets w with
  | .error e => .error e
  | .ok (w', segs) => .ok (w', goCalls segs)

end Dud.Sys
