namespace Blake3

def IV : Array UInt32 := #[0x6A09E667, 0xBB67AE85, 0x3C6EF372, 0xA54FF53A, 0x510E527F, 0x9B05688C, 0x1F83D9AB, 0x5BE0CD19]
def MSG_PERM : Array Nat := #[2, 6, 3, 10, 7, 0, 4, 13, 1, 11, 12, 5, 9, 14, 15, 8]

def CHUNK_START : UInt32 := 1
def CHUNK_END : UInt32 := 2
def PARENT : UInt32 := 4
def ROOT : UInt32 := 8

@[inline] def rotr (x : UInt32) (n : UInt32) : UInt32 := (x >>> n) ||| (x <<< (32 - n))

@[inline] def g (s : Array UInt32) (a b c d : Nat) (mx my : UInt32) : Array UInt32 :=
  let sa := s[a]! + s[b]! + mx
  let sd := rotr (s[d]! ^^^ sa) 16
  let sc := s[c]! + sd
  let sb := rotr (s[b]! ^^^ sc) 12
  let sa := sa + sb + my
  let sd := rotr (sd ^^^ sa) 8
  let sc := sc + sd
  let sb := rotr (sb ^^^ sc) 7
  (((s.set! a sa).set! b sb).set! c sc).set! d sd

def round (s m : Array UInt32) : Array UInt32 :=
  let s := g s 0 4 8 12 m[0]! m[1]!
  let s := g s 1 5 9 13 m[2]! m[3]!
  let s := g s 2 6 10 14 m[4]! m[5]!
  let s := g s 3 7 11 15 m[6]! m[7]!
  let s := g s 0 5 10 15 m[8]! m[9]!
  let s := g s 1 6 11 12 m[10]! m[11]!
  let s := g s 2 7 8 13 m[12]! m[13]!
  let s := g s 3 4 9 14 m[14]! m[15]!
  s

def permute (m : Array UInt32) : Array UInt32 := MSG_PERM.map (fun i => m[i]!)

/-- full 16-word output of the compression function -/
def compress (cv : Array UInt32) (block : Array UInt32) (counter : UInt64) (blockLen flags : UInt32) : Array UInt32 :=
  let s : Array UInt32 := #[cv[0]!, cv[1]!, cv[2]!, cv[3]!, cv[4]!, cv[5]!, cv[6]!, cv[7]!,
    IV[0]!, IV[1]!, IV[2]!, IV[3]!, counter.toUInt32, (counter >>> 32).toUInt32, blockLen, flags]
  let rec loop (i : Nat) (s m : Array UInt32) : Array UInt32 :=
    match i with
    | 0 => s
    | i+1 => let s := round s m; if i = 0 then s else loop i s (permute m)
  let s := loop 7 s block
  (Array.range 16).map fun i => if i < 8 then s[i]! ^^^ s[i+8]! else s[i]! ^^^ cv[i-8]!

def wordsOfBlock (b : ByteArray) (off len : Nat) : Array UInt32 :=
  (Array.range 16).map fun w =>
    let byte (k : Nat) : UInt32 := let i := 4*w + k; if i < len then (b.get! (off + i)).toUInt32 else 0
    byte 0 ||| (byte 1 <<< 8) ||| (byte 2 <<< 16) ||| (byte 3 <<< 24)

structure Output where
  cv : Array UInt32
  block : Array UInt32
  counter : UInt64
  blockLen : UInt32
  flags : UInt32
deriving Inhabited

def Output.chaining (o : Output) : Array UInt32 := (compress o.cv o.block o.counter o.blockLen o.flags).extract 0 8
def Output.rootBytes (o : Output) : ByteArray := Id.run do
  let w := compress o.cv o.block 0 o.blockLen (o.flags ||| ROOT)
  let mut out := ByteArray.empty
  for i in [0:8] do
    let x := w[i]!
    out := out.push x.toUInt8 |>.push (x >>> 8).toUInt8 |>.push (x >>> 16).toUInt8 |>.push (x >>> 24).toUInt8
  return out

/-- chunk [off, off+len) with len ≤ 1024, chunk counter c -/
def chunkOutput (b : ByteArray) (off len : Nat) (c : UInt64) : Output := Id.run do
  let nblocks := if len = 0 then 1 else (len + 63) / 64
  let mut cv := IV
  for i in [0:nblocks - 1] do
    let fl := if i = 0 then CHUNK_START else 0
    cv := (compress cv (wordsOfBlock b (off + 64*i) 64) c 64 fl).extract 0 8
  let i := nblocks - 1
  let bl := len - 64*i
  let fl := (if i = 0 then CHUNK_START else 0) ||| CHUNK_END
  return { cv := cv, block := wordsOfBlock b (off + 64*i) bl, counter := c, blockLen := bl.toUInt32, flags := fl }

def parentOutput (l r : Array UInt32) : Output :=
  { cv := IV, block := l ++ r, counter := 0, blockLen := 64, flags := PARENT }

/-- largest power of two strictly less than n chunks (n ≥ 2) -/
partial def leftLen (n : Nat) : Nat := Id.run do
  let mut p := 1
  while 2*p < n do p := 2*p
  return p

/-- recursive tree definition straight from the BLAKE3 paper: subtree over chunks [c0, c0+n) -/
partial def subtree (b : ByteArray) (c0 n : Nat) (total : Nat) : Output :=
  if n ≤ 1 then
    let off := 1024*c0
    chunkOutput b off (min 1024 (total - off)) c0.toUInt64
  else
    let l := leftLen n
    parentOutput (subtree b c0 l total).chaining (subtree b (c0+l) (n-l) total).chaining

def hash (b : ByteArray) : ByteArray :=
  let n := if b.size = 0 then 1 else (b.size + 1023) / 1024
  (subtree b 0 n b.size).rootBytes

def hexDigit (n : UInt8) : Char := if n < 10 then Char.ofNat (48 + n.toNat) else Char.ofNat (87 + n.toNat)
def toHex (b : ByteArray) : String := b.foldl (fun s x => s.push (hexDigit (x >>> 4)) |>.push (hexDigit (x &&& 15))) ""

end Blake3
