import DudModel.Basic
import DudModel.Generated.Facts
/-!
# Model of the project lock (src/cmd/root.go `lockProject`/`unlockProject`/`fatal`/`Main`,
src/cmd/config.go)

Core-only.

(a) Mutual-exclusion protocol between `N` dud processes sharing one project.
(b) One command run end to end: where the lock file is created and where it is removed.
-/
namespace Dud.Lock

/-! ## (a) protocol -/

/-- Program counter of one dud process. -/
inductive PC
  | idle      -- before `lockProject`
  | holding   -- `lockProject` succeeded (`projectLocked = true`), body running
  | refused   -- `lockProject` returned `projectLockedError`; `fatal` skips `unlockProject`
  | finished  -- `unlockProject` done
deriving DecidableEq, Repr, Inhabited

structure State where
  pcs        : List PC
  lockExists : Bool       -- does `<root>/.dud/lock` exist
deriving DecidableEq, Repr

def init (N : Nat) : State := { pcs := List.replicate N .idle, lockExists := false }

/-- One atomic step of process `i`.  `excl` = the open flags contain `O_CREATE|O_EXCL`
(`excl = false`: the open always succeeds, whether or not the file exists). -/
def stepX (excl : Bool) (st : State) (i : Nat) : State :=
  match st.pcs[i]? with
  | none => st
  | some .idle =>
    if excl && st.lockExists then { st with pcs := st.pcs.set i .refused }   -- EEXIST
    else { pcs := st.pcs.set i .holding, lockExists := true }                -- file created
  | some .holding => { pcs := st.pcs.set i .finished, lockExists := false }  -- os.Remove
  | some .refused => st
  | some .finished => st

def runX (excl : Bool) (st : State) (sched : List Nat) : State := sched.foldl (stepX excl) st

/-- The protocol as coded (`O_EXCL` present). -/
def step (st : State) (i : Nat) : State := stepX true st i
def run (st : State) (sched : List Nat) : State := runX true st sched

def State.holdingCount (st : State) : Nat := st.pcs.count .holding
/-- pc of process `i` (out of range: `idle`, which is in no "done" set). -/
def State.pc (st : State) (i : Nat) : PC := st.pcs.getD i .idle

/-! ## (b) one command -/

/-- `lockPath = ".dud/lock"` as components. -/
def lockRel : List String := [".dud", "lock"]

/-- Process + file-system state of one run.  `locks` = absolute paths that exist as lock files. -/
structure Proc where
  cwd           : List String
  projectLocked : Bool
  locks         : List (List String)
deriving DecidableEq, Repr

/-- `lockProject(rootDir)`: `os.OpenFile(filepath.Join(rootDir, lockPath), O_CREATE|O_RDWR|O_EXCL)`.
`false` = `projectLockedError`. -/
def lockProject (root : List String) (p : Proc) : Bool × Proc :=
  if (root ++ lockRel) ∈ p.locks then (false, p)
  else (true, { p with projectLocked := true, locks := (root ++ lockRel) :: p.locks })

/-- `unlockProject()`: `if projectLocked { projectLocked = false; return os.Remove(lockPath) }`;
the RELATIVE `lockPath` resolves against the current directory.  `false` = error (ENOENT). -/
def unlockProject (p : Proc) : Bool × Proc :=
  if p.projectLocked then
    let p' := { p with projectLocked := false }
    if (p.cwd ++ lockRel) ∈ p.locks then (true, { p' with locks := p.locks.erase (p.cwd ++ lockRel) })
    else (false, p')
  else (true, p)

/-- `fatal(err)`: unlock unless `err` is `projectLockedError` (an unlock error is only logged),
then exit non-zero.  Returns the final state. -/
def fatal (isLockedErr : Bool) (p : Proc) : Proc :=
  if isLockedErr then p else (unlockProject p).2

/-- One dud command.  `chdirs`: the command does `os.Chdir(rootDir)` before locking (`prepare`).
`fsLock`: `<root>/.dud/lock` exists beforehand.  `bodyOk`: the body returns normally (otherwise it
calls `fatal`).  Result: (exit status is 0, `<root>/.dud/lock` exists afterwards). -/
def runCommand (chdirs : Bool) (root cwd : List String) (bodyOk : Bool) (fsLock : Bool) :
    Bool × Bool :=
  let p0 : Proc := { cwd := cwd, projectLocked := false,
                     locks := if fsLock then [root ++ lockRel] else [] }
  let p1 := if chdirs then { p0 with cwd := root } else p0          -- os.Chdir(rootDir)
  let (locked, p2) := lockProject root p1
  let left (p : Proc) : Bool := decide ((root ++ lockRel) ∈ p.locks)
  if !locked then (false, left (fatal true p2))                     -- fatal(projectLockedError{})
  else if !bodyOk then (false, left (fatal false p2))               -- body: fatal(err)
  else                                                              -- Main, after Execute()
    let (ok, p3) := unlockProject p2
    if ok then (true, left p3) else (false, left (fatal false p3))

/-- Does a command change to the root before locking?  `usesPrepare`: its `Run` goes through
`prepare`; otherwise it is one of the `config` sub-commands, described by the extracted fact. -/
def cmdChdirs (usesPrepare : Bool) : Bool := usesPrepare || Dud.Facts.configChdirs

end Dud.Lock
