import DudModel.Model
/-!
# Byte-exact model of Go's `encoding/json` *encoder* for the two values dud hashes

* the directory manifest (`directoryManifest` with `artifact.Artifact` children), new and old schema;
* the cleaned stage definition hashed by `Stage.CalculateChecksum`.

`json.NewEncoder(w).Encode(v)`: HTML escaping on, map keys sorted bytewise, trailing newline.
Tied to the toolchain that builds /repo (S5 reports drift).
-/
namespace Dud.GoJson

def hexd (n : Nat) : UInt8 := if n < 10 then (48 + n).toUInt8 else (87 + n).toUInt8

def str (s : String) : Bytes := s.toUTF8.toList

/-- `\u00XX` -/
def u00 (b : UInt8) : Bytes := str "\\u00" ++ [hexd (b.toNat / 16), hexd (b.toNat % 16)]

def isCont (b : UInt8) : Bool := 0x80 ≤ b && b ≤ 0xBF

/-- Length of the valid UTF-8 sequence at the head of the input (Go's `utf8.DecodeRune`
acceptance table); `0` means "invalid byte, width 1". -/
def runeLen : Bytes → Nat
  | [] => 0
  | b0 :: r =>
    if b0 < 0x80 then 1
    else if 0xC2 ≤ b0 && b0 ≤ 0xDF then
      match r with
      | b1 :: _ => if isCont b1 then 2 else 0
      | _ => 0
    else if 0xE0 ≤ b0 && b0 ≤ 0xEF then
      match r with
      | b1 :: b2 :: _ =>
        let lo : UInt8 := if b0 == 0xE0 then 0xA0 else 0x80
        let hi : UInt8 := if b0 == 0xED then 0x9F else 0xBF
        if lo ≤ b1 && b1 ≤ hi && isCont b2 then 3 else 0
      | _ => 0
    else if 0xF0 ≤ b0 && b0 ≤ 0xF4 then
      match r with
      | b1 :: b2 :: b3 :: _ =>
        let lo : UInt8 := if b0 == 0xF0 then 0x90 else 0x80
        let hi : UInt8 := if b0 == 0xF4 then 0x8F else 0xBF
        if lo ≤ b1 && b1 ≤ hi && isCont b2 && isCont b3 then 4 else 0
      | _ => 0
    else 0

/-- `utf8.Valid` -/
def validUtf8 : Nat → Bytes → Bool
  | 0, b => b.isEmpty
  | _, [] => true
  | fuel+1, b :: r =>
    match runeLen (b :: r) with
    | 0 => false
    | n => validUtf8 fuel ((b :: r).drop n)

/-- JSON string body (without quotes) as Go's encoder writes it with `escapeHTML = true`. -/
def escBody : Nat → Bytes → Bytes
  | 0, _ => []
  | _, [] => []
  | fuel+1, b :: r =>
    if b < 0x80 then
      let out : Bytes :=
        if b == 0x22 then str "\\\""
        else if b == 0x5C then str "\\\\"
        else if b == 0x08 then str "\\b"
        else if b == 0x0C then str "\\f"
        else if b == 0x0A then str "\\n"
        else if b == 0x0D then str "\\r"
        else if b == 0x09 then str "\\t"
        else if b < 0x20 then u00 b
        else if b == 0x3C || b == 0x3E || b == 0x26 then u00 b
        else [b]
      out ++ escBody fuel r
    else
      match runeLen (b :: r) with
      | 0 => str "\\ufffd" ++ escBody fuel r
      | n =>
        let seq := (b :: r).take n
        let rest := (b :: r).drop n
        -- U+2028 / U+2029 = E2 80 A8 / E2 80 A9
        let out : Bytes :=
          if seq == [0xE2, 0x80, 0xA8] then str "\\u2028"
          else if seq == [0xE2, 0x80, 0xA9] then str "\\u2029"
          else seq
        out ++ escBody fuel rest

def jstr (b : Bytes) : Bytes := [0x22] ++ escBody (b.length + 1) b ++ [0x22]

def jbool (b : Bool) : Bytes := if b then str "true" else str "false"

def joinComma : List Bytes → Bytes
  | [] => []
  | [x] => x
  | x :: r => x ++ [0x2C] ++ joinComma r

def obj (fields : List Bytes) : Bytes := [0x7B] ++ joinComma fields ++ [0x7D]

def field (k : String) (v : Bytes) : Bytes := jstr (str k) ++ [0x3A] ++ v

/-- `artifact.Artifact` with its json tags (all `omitempty`). -/
def artNew (sum : Digest) (path : Bytes) (isDir noRec skip : Bool) : Bytes :=
  obj ((if sum.isEmpty then [] else [field "checksum" (jstr (str sum))]) ++
       (if path.isEmpty then [] else [field "path" (jstr path)]) ++
       (if isDir then [field "is-dir" (jbool true)] else []) ++
       (if noRec then [field "disable-recursion" (jbool true)] else []) ++
       (if skip then [field "skip-cache" (jbool true)] else []))

/-- the pre-tag `Artifact` struct: every field, Go field names -/
def artOld (sum : Digest) (path : Bytes) (isDir noRec skip : Bool) : Bytes :=
  obj [field "Checksum" (jstr (str sum)), field "Path" (jstr path), field "IsDir" (jbool isDir),
       field "DisableRecursion" (jbool noRec), field "SkipCache" (jbool skip)]

def childJson (sch : Schema) (c : Child) : Bytes :=
  match sch with
  | .new => artNew c.sum c.name c.isDir false false
  | .old => artOld c.sum c.name c.isDir false false

/-- `directoryManifest` (children must already be sorted by name, see `sortChildren`). -/
def manifest (sch : Schema) (path : Bytes) (cs : List Child) : Bytes :=
  let contents := obj (cs.map fun c => jstr c.name ++ [0x3A] ++ childJson sch c)
  match sch with
  | .new => obj [field "path" (jstr path), field "contents" contents] ++ [0x0A]
  | .old => obj [field "Path" (jstr path), field "Contents" contents] ++ [0x0A]

/-- an artifact of a stage definition, checksum blanked -/
structure DefArt where
  path : Bytes
  isDir : Bool
  noRec : Bool
  skip : Bool
deriving DecidableEq, Repr, Inhabited

def defArts (as : List DefArt) : Bytes :=
  obj (as.map fun a => jstr a.path ++ [0x3A] ++ artNew "" a.path a.isDir a.noRec a.skip)

/-- what `CalculateChecksum` hashes; `ins`/`outs` sorted by path -/
def stageDef (cmd wd : Bytes) (ins outs : List DefArt) : Bytes :=
  obj [field "Checksum" (jstr []), field "Command" (jstr cmd), field "WorkingDir" (jstr wd),
       field "Inputs" (defArts ins), field "Outputs" (defArts outs)] ++ [0x0A]

end Dud.GoJson
