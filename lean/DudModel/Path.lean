import DudModel.Basic
/-!
# Go's `path/filepath` (Unix) on byte strings: Clean, Dir, Join, Rel, IsAbs, Split on "/"

Checked exhaustively against the real functions on small alphabets (stream S6).
-/
namespace Dud.Path

def slash : UInt8 := 0x2F
def dot : UInt8 := 0x2E
def dotdot : Bytes := [dot, dot]

/-- `strings.Split(s, "/")` -/
def splitSlash : Bytes → List Bytes
  | [] => [[]]
  | b :: r =>
    if b == slash then [] :: splitSlash r
    else match splitSlash r with
      | [] => [[b]]          -- unreachable: splitSlash never returns []
      | x :: xs => (b :: x) :: xs

def intercalate : List Bytes → Bytes
  | [] => []
  | [x] => x
  | x :: r => x ++ [slash] ++ intercalate r

structure PPath where
  rooted : Bool
  comps : List Bytes
deriving DecidableEq, Repr

/-- lexical normalisation: drop "" and ".", resolve ".." against a previous real component; at
the root ".." vanishes; in a relative path leading ".." are kept. `acc` is the reversed output. -/
def normAux (rooted : Bool) : List Bytes → List Bytes → List Bytes
  | acc, [] => acc.reverse
  | acc, c :: cs =>
    if c == [] || c == [dot] then normAux rooted acc cs
    else if c == dotdot then
      match acc with
      | [] => if rooted then normAux rooted [] cs else normAux rooted [dotdot] cs
      | a :: as => if a == dotdot then normAux rooted (dotdot :: acc) cs else normAux rooted as cs
    else normAux rooted (c :: acc) cs

def isAbs (s : Bytes) : Bool := s.head? == some slash

def parse (s : Bytes) : PPath := { rooted := isAbs s, comps := splitSlash s }
def norm (p : PPath) : PPath := { p with comps := normAux p.rooted [] p.comps }
def render (p : PPath) : Bytes :=
  if p.rooted then slash :: intercalate p.comps
  else if p.comps.isEmpty then [dot] else intercalate p.comps

/-- `filepath.Clean` -/
def clean (s : Bytes) : Bytes := render (norm (parse s))

/-- `filepath.Dir`: strip the last element, then Clean. -/
def dir (s : Bytes) : Bytes :=
  match (splitSlash s).reverse with
  | [] => [dot]
  | _ :: restRev =>
    if restRev.isEmpty then [dot] else
    let d := intercalate restRev.reverse
    clean (if d == [] then [slash] else d)

/-- `filepath.Join` -/
def join (elems : List Bytes) : Bytes :=
  let ne := elems.filter (fun e => !e.isEmpty)
  if ne.isEmpty then [] else clean (intercalate ne)

def stripCommon : List Bytes → List Bytes → List Bytes × List Bytes
  | x :: xs, y :: ys => if x == y then stripCommon xs ys else (x :: xs, y :: ys)
  | xs, ys => (xs, ys)

/-- `filepath.Rel` -/
def rel (base targ : Bytes) : Option Bytes :=
  let b := norm (parse base); let t := norm (parse targ)
  if b.rooted != t.rooted then none else
  let (bRest, tRest) := stripCommon b.comps t.comps
  if bRest.contains dotdot then none else
  let up := bRest.map (fun _ => dotdot)
  -- Go quirk: a relative target that cleans to "." is appended literally ("../.")
  let out := if !t.rooted && t.comps.isEmpty && !up.isEmpty then up ++ [[dot]] else up ++ tRest
  some (if out.isEmpty then [dot] else intercalate out)

/-- `strings.Contains(s, "..")` -/
def containsDotDot : Bytes → Bool
  | a :: b :: r => (a == dot && b == dot) || containsDotDot (b :: r)
  | _ => false

/-- the components of a clean relative path; "." is the empty list -/
def comps (s : Bytes) : List Bytes := (norm (parse s)).comps

end Dud.Path
