import DudModel.Props.C03
import DudModel.Lemmas.Interleave
/-!
# C03 (second tier) — concurrent workers: every interleaving is crash-safe

`Sys.lean` generates the trace of a directory commit with the entries processed one after the other.
The Go code runs up to 64+1 workers; their calls interleave.  `interleave_crash_safe`
(`Lemmas/Interleave.lean`): two traces that are each `Allowed`-disciplined when run alone from the
same safe state, and that own disjoint private paths (`Owned A₁`, `Owned A₂`: workspace files and temp
names; objects and shard directories are shared), can be interleaved in ANY way (`Interleave`) — every
call is still allowed in the state it meets, so the state after every prefix is safe.  The argument
is the one in the comment of `commitBytes`: everyone racing for the same digest name puts the same
bytes there (`Good.inj`), and rename is atomic.

`commit_siblings_interleave_crash_safe` instantiates this with the traced commits of two directory
entries with different names (and disjoint temp names).
-/
namespace Dud.Sys

open Dud

namespace Example
open Dud.Example

/-- all interleavings of two lists -/
def interleavings {α : Type} : List α → List α → List (List α)
  | [], l2 => [l2]
  | l1, [] => [l1]
  | a :: l1, b :: l2 =>
    (interleavings l1 (b :: l2)).map (a :: ·) ++ (interleavings (a :: l1) l2).map (b :: ·)

def twoFiles : Node K := .dir [([97], .file (.raw "alpha")), ([98], .file (.raw "alpha"))]

/-- the two workers' traces: file `t/a` (temp 1) and file `t/b` (temp 2), same content — they race
for the same object name -/
def trace1 (strat : Strat) (canRename : Bool) : List (Call K) :=
  commitFileCalls isEmp strat canRename (.ws [[116], [97]]) 1 (.raw "alpha") (ctx.H (.raw "alpha"))
def trace2 (strat : Strat) (canRename : Bool) : List (Call K) :=
  commitFileCalls isEmp strat canRename (.ws [[116], [98]]) 2 (.raw "alpha") (ctx.H (.raw "alpha"))

/-- the same with two empty files (shorter traces: no write calls) -/
def twoEmpty : Node K := .dir [([97], .file (.raw "")), ([98], .file (.raw ""))]
def traceE (nm : Name) (n : Nat) : List (Call K) :=
  commitFileCalls isEmp .link false (.ws [[116], nm]) n (.raw "") (ctx.H (.raw ""))

/-- every prefix of every interleaving passes the Boolean checker -/
def interReport (strat : Strat) (canRename : Bool) : String :=
  let fs0 := fsOf ctx [[116]] twoFiles []
  let tracked := trackedOf [[116]] twoFiles
  let ls := interleavings (trace1 strat canRename) (trace2 strat canRename)
  let ok := ls.all (fun l => (List.range (l.length + 1)).all (fun k => safeB tracked (replay emp fs0 (l.take k))))
  s!"{ls.length} interleavings, every prefix of each safe: {ok}"

def interReportE : String :=
  let fs0 := fsOf ctx [[116]] twoEmpty []
  let tracked := trackedOf [[116]] twoEmpty
  let ls := interleavings (traceE [97] 1) (traceE [98] 2)
  let ok := ls.all (fun l => (List.range (l.length + 1)).all (fun k => safeB tracked (replay emp fs0 (l.take k))))
  s!"{ls.length} interleavings, every prefix of each safe: {ok}"

#eval interReport .link true
#eval interReportE          -- link strategy without rename: copy, unlink, symlink
#eval interReport .copy false

/-- the theorem on this instance: the hypotheses are satisfiable -/
example (strat : Strat) (canRename : Bool) (l : List (Call K))
    (hi : Interleave (trace1 strat canRename) (trace2 strat canRename) l) (k : Nat) :
    Safe ctx (trackedOf [[116]] twoFiles) (replay emp (fsOf ctx [[116]] twoFiles []) (l.take k)) := by
  have hu : uniqNode twoFiles := by simp [twoFiles, uniqNode, uniqList]
  have hsafe := fsOf_safe ctx [[116]] twoFiles [] hu empty_consistent
  have hget := fsOf_get_tracked ctx [[116]] twoFiles [] hu
  have ha : (.ws [[116], [97]], K.raw "alpha") ∈ trackedOf [[116]] twoFiles := by
    simp [twoFiles, trackedOf, trackedList]
  have hb : (.ws [[116], [98]], K.raw "alpha") ∈ trackedOf [[116]] twoFiles := by
    simp [twoFiles, trackedOf, trackedList]
  have hc1 : commitNodeT (tc strat canRename) ([[116]] ++ [[97]]) (.file (.raw "alpha")) ⟨[97], "", false⟩ [] 1
      = .ok ((if strat = .link then .link (.obj (ctx.H (.raw "alpha"))) else .file (.raw "alpha"),
              ⟨[97], ctx.H (.raw "alpha"), false⟩, [(ctx.H (.raw "alpha"), .blob (.raw "alpha"))]),
             trace1 strat canRename, if strat == .link && canRename then 1 else 2) := by
    cases strat <;> cases canRename <;> rfl
  have hc2 : commitNodeT (tc strat canRename) ([[116]] ++ [[98]]) (.file (.raw "alpha")) ⟨[98], "", false⟩ [] 2
      = .ok ((if strat = .link then .link (.obj (ctx.H (.raw "alpha"))) else .file (.raw "alpha"),
              ⟨[98], ctx.H (.raw "alpha"), false⟩, [(ctx.H (.raw "alpha"), .blob (.raw "alpha"))]),
             trace2 strat canRename, if strat == .link && canRename then 2 else 3) := by
    cases strat <;> cases canRename <;> rfl
  refine commit_siblings_interleave_crash_safe (t := tc strat canRename) good (trackedOf_ws _ _) hemp
    (by decide : ([97] : Name) ≠ [98]) (by simp [uniqNode]) (by simp [uniqNode]) hc1 hc2
    (by cases strat <;> cases canRename <;> simp) hsafe ?_ ?_
    (fun k _ => fsOf_get_ctmp ctx _ _ _ k) hi k
  · intro p hp
    simp [trackedOf] at hp; subst hp
    exact ⟨_, hget _ ha⟩
  · intro p hp
    simp [trackedOf] at hp; subst hp
    exact ⟨_, hget _ hb⟩

end Example

#print axioms Interleave.append
#print axioms apply_get_congr
#print axioms objLe_apply
#print axioms Allowed.transfer
#print axioms Rel.step_own
#print axioms Rel.step_other
#print axioms interleave_allowed
#print axioms interleave_crash_safe
#print axioms commitNodeT_owned
#print axioms commitEntriesT_owned
#print axioms commit_siblings_interleave_crash_safe

end Dud.Sys
