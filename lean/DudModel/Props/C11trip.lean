import DudModel.Props.C11world
import DudModel.Lemmas.WorldStatus
/-!
# C11 ∘ C01 at the world level — commit, push, lose the cache, fetch, checkout

`commit_checkout_world_roundtrip` (`Props/C01world.lean`) asks of the cache used by checkout that it
extends the committed cache on ALL objects (`Store.le`).  A fetch restores only the objects reachable
from the non-skip outputs in scope (`push_fetch_world_partial`), so the two do not compose as stated.
This file closes the gap:

* `heldEst` / `cmdCommit_holds`: after `dud commit` the cache HOLDS (`HoldsNode`,
  `Lemmas/Holds.lean`) the tree of every non-skip output in scope;
* `holds_transfer`: a store that has, with the same bytes, every object reachable (`Reaches`) from the
  entry of a held tree holds the tree too;
* `roundTrip_of_holds`: from a store holding the tree, checkout into an absent place rebuilds it
  (`RoundTrip`, by `checkoutNode_holds`);
* `cmdCheckout_restored`: the checkout half of `commit_checkout_world_roundtrip`, from `RoundTrip` in
  the clone's own cache instead of `Store.le` from the committed cache;
* **`commit_push_fetch_checkout_world_partial`**: `dud commit`, `dud push`, a clone with the committed
  index, the remote, NO cache and an EMPTY workspace, `dud fetch`, `dud checkout`: the checkout
  succeeds and at every non-skip output of every stage in scope stands a node whose logical content
  (`deref`) is the original subtree.

PARTIAL because of `KindsAgree` on the manifests of the remote (inherited from
`cmdFetch_world_closure_partial`, see `fetch_skips_children` in `Props/C11.lean`).  Further
hypotheses, all inherited: `PipelineOK` (`Props/C01world.lean`); the inputs no stage owns are file
artifacts and directory outputs are recursive (`PlainInputsFiles`, `Recursive`, as in
`Props/C05world.lean`: `HoldsNode` is established for whole trees); `single = false`.
-/
namespace Dud

open WT WR RT WStat

variable {κ : Type}

/-! ## 1. after commit the cache holds the output trees -/

/-- the cache holds the tree `n` committed for the non-skip artifact `a'` -/
def HeldOut (cfg : Cfg κ) (a' : Art) (n _t' : Node κ) (s : Store κ) : Prop :=
  a'.skip = false → HoldsNode cfg.ctx s newChoice a'.path n

theorem trackedOf_recursive {a : Art} {n : Node κ} (hk : n.isDir = a.isDir) (hrec : Recursive a) :
    trackedOf a n = n := by
  cases n with
  | dir es =>
    have hd : a.isDir = true := by rw [← hk]; rfl
    simp [trackedOf, hrec hd]
  | file _ => rfl
  | link _ => rfl
  | other => rfl

/-- `commitArt` on an artifact satisfying `ArtPre` (a directory artifact being recursive) leaves a
cache holding the tree (`recommitNode_post` of `Props/C16.lean`) -/
theorem heldEst (cfg : Cfg κ) (g : Good cfg.ctx) : Est cfg Recursive (HeldOut cfg) where
  mono := fun _ n _ _ _ h hle hsk => HoldsNode.mono hle n _ _ (h hsk)
  est := by
    intro a n hpre hrec s hc strat t' d s' h hsk
    obtain ⟨hk, hp, _, hn, hfr, _⟩ := hpre
    have hsk : a.skip = false := hsk
    have hcompat : CompatNode cfg.ctx s n a.sum := by
      cases n with
      | dir es =>
        have hd : a.isDir = true := by rw [← hk]; rfl
        rw [(hfr hd).1]
        exact compatNode_empty cfg.ctx s _
      | file _ => simp [CompatNode]
      | link _ => simp [CompatNode]
      | other => simp [CompatNode]
    obtain ⟨s1, hcn, _, _, hh1, _, _⟩ :=
      recommitNode_post g n hp hn ⟨a.path, a.sum, a.isDir⟩ s strat hk.symm hcompat hc
    have h' := commitArt_of_commitNode hk hrec (fun _ => hsk) hcn
    rw [h'] at h
    simp only [Except.ok.injEq, Prod.mk.injEq] at h
    obtain ⟨rfl, rfl, rfl⟩ := h
    exact hh1

/-- **`dud commit` leaves a cache holding every non-skip output tree in scope.** -/
theorem cmdCommit_holds (cfg : Cfg κ) (g : Good cfg.ctx) (strat : Strat) (targets : List Bytes)
    (w0 w' : World κ) (hc : Consistent cfg.ctx w0.store)
    (hok : PipelineOK cfg (InScope cfg w0 targets) w0)
    (hfiles : PlainInputsFiles cfg (InScope cfg w0 targets) w0)
    (hrec : ∀ sp stg, InScope cfg w0 targets sp → alookup w0.idx sp = some stg →
      ∀ a, a ∈ stg.outputs → Recursive a)
    (h : cmdCommit cfg strat targets w0 = .ok w') :
    ∀ sp stg, InScope cfg w0 targets sp → alookup w0.idx sp = some stg →
      ∀ a, a ∈ stg.outputs → a.skip = false →
        HoldsNode cfg.ctx w'.store newChoice a.path (origAt w0.ws a) := by
  obtain ⟨_, _, l', _, hiff, hdone, _⟩ := cmdCommit_inv cfg g strat targets w0 w' hc hok h
  have hinv := cmdCommit_inv2 (heldEst cfg g) g strat targets w0 w' hc hok hfiles hrec h
  intro sp stg hsp hs a ha hsk
  have hd : w'.done.contains sp = true := by
    rw [hdone]; simpa using (hiff sp).2 hsp
  obtain ⟨_, _, hh⟩ := hinv.outs sp stg hsp hd hs a ha
  exact hh hsk

/-! ## 2. holding a tree is a matter of the objects reachable from its entry -/

mutual
theorem holds_transfer {ctx : Ctx κ} (g : Good ctx) {s s' : Store κ} :
    ∀ (t : Node κ) (ch : Choice) (nm : Bytes), t.plain = true → t.sorted = true → NamesOK ctx t →
      HoldsNode ctx s ch nm t →
      (∀ d, Reaches ctx s ⟨nm, digestAs ctx ch nm t, t.isDir⟩ d →
        ∃ o o', s.get d = some o ∧ s'.get d = some o' ∧ o'.bytes ctx = o.bytes ctx) →
      HoldsNode ctx s' ch nm t
  | .file x, ch, nm, _, _, _, h, htr => by
    simp only [HoldsNode] at h ⊢
    obtain ⟨o, ho, hb⟩ := h
    obtain ⟨o1, o1', h1, h1', hb1⟩ := htr (ctx.H x) (by
      have := Reaches.self (ctx := ctx) (s := s) ⟨nm, digestAs ctx ch nm (.file x), false⟩
      simpa [digestAs, Node.isDir] using this)
    rw [ho] at h1
    cases h1
    exact ⟨o1', h1', hb1.trans hb⟩
  | .dir es, ch, nm, hp, hs, hn, h, htr => by
    have hp' : plainList es = true := by simpa [Node.plain] using hp
    have hs' : sortedList es = true := by simpa [Node.sorted] using hs
    have hn' : NamesOKList ctx es := namesOK_dir hn
    obtain ⟨_, hread⟩ := readManifest_holds g hs' hn' h
    simp only [HoldsNode] at h ⊢
    obtain ⟨⟨o, ho, hb⟩, hl⟩ := h
    obtain ⟨o1, o1', h1, h1', hb1⟩ := htr _ (.self _)
    simp only at h1 h1'
    rw [ho] at h1
    cases h1
    refine ⟨⟨o1', h1', hb1.trans hb⟩, holdsList_transfer g es ch hp' hs' hn' hl ?_⟩
    intro e he d hr
    refine htr d (.child _ (childrenAs ctx ch es) _ d rfl hread ?_ hr)
    rw [childrenAs_eq_map]
    exact List.mem_map.2 ⟨e, he, rfl⟩
  | .link _, _, _, hp, _, _, _, _ => by simp [Node.plain] at hp
  | .other, _, _, hp, _, _, _, _ => by simp [Node.plain] at hp
theorem holdsList_transfer {ctx : Ctx κ} (g : Good ctx) {s s' : Store κ} :
    ∀ (es : List (Name × Node κ)) (ch : Choice), plainList es = true → sortedList es = true →
      NamesOKList ctx es → HoldsList ctx s ch es →
      (∀ e, e ∈ es → ∀ d,
        Reaches ctx s ⟨e.1, digestAs ctx (subChoice ch e.1) e.1 e.2, e.2.isDir⟩ d →
        ∃ o o', s.get d = some o ∧ s'.get d = some o' ∧ o'.bytes ctx = o.bytes ctx) →
      HoldsList ctx s' ch es
  | [], _, _, _, _, _, _ => by simp [HoldsList]
  | (nm, n) :: r, ch, hp, hs, hn, h, htr => by
    simp only [HoldsList] at h ⊢
    exact ⟨holds_transfer g n (subChoice ch nm) nm (plainList_cons hp).1 (sortedList_cons hs).1
        (namesOK_node hn) h.1 (fun d hr => htr (nm, n) List.mem_cons_self d hr),
      holdsList_transfer g r ch (plainList_cons hp).2 (sortedList_cons hs).2 (namesOK_tail hn) h.2
        (fun e he d hr => htr e (List.mem_cons_of_mem _ he) d hr)⟩
end

/-! ## 3. checkout from a cache that holds the tree -/

/-- from a cache holding the tree (and from any later one), checkout of the committed artifact into
an absent place rebuilds the tree -/
theorem roundTrip_of_holds {cfg : Cfg κ} (g : Good cfg.ctx) (a : Art) (t : Node κ)
    (hp : t.plain = true) (hs : t.sorted = true) (hn : NamesOK cfg.ctx t) (hk : t.isDir = a.isDir)
    (hsk : a.skip = false) (hf : depth t ≤ cfg.fuel) (s : Store κ)
    (hh : HoldsNode cfg.ctx s newChoice a.path t) : RoundTrip cfg a t s := by
  intro s'' hle strat2
  have hh' := HoldsNode.mono hle t _ _ hh
  have h1 := checkoutNode_holds g s'' strat2 t newChoice a.path cfg.fuel hp hs hn hh' hf
  rw [digestAs_new, hk] at h1
  exact ⟨_, checkoutArt_noskip hsk h1, deref_wsAfter hp hh' strat2⟩

/-- one stage action of the checkout traversal succeeds and keeps `CheckoutInv`, when the clone's own
cache `sC` has the `RoundTrip` property (`checkoutInv_step` of `Props/C01world.lean` has it for the
committed cache and needs `Store.le` from there) -/
theorem checkoutInv_step' (cfg : Cfg κ) (strat2 : Strat) (Sc : Bytes → Prop) (w0 : World κ)
    (idx' : Index) (hok : PipelineOK cfg Sc w0)
    (hstage : ∀ sp, Sc sp → ∃ stg stg', alookup w0.idx sp = some stg ∧ alookup idx' sp = some stg' ∧
      stg'.outputs = (sortArts stg.outputs).map (committedArt cfg.ctx w0.ws))
    (sC : Store κ)
    (hrt : ∀ sp stg, Sc sp → alookup w0.idx sp = some stg → ∀ a, a ∈ stg.outputs → a.skip = false →
      RoundTrip cfg a (trackedOf a (origAt w0.ws a)) sC)
    (sp : Bytes) (v : World κ) (hsc : Sc sp) (hidx : v.idx = idx')
    (hinv : CheckoutInv cfg Sc w0 sC v) (hnd : v.done.contains sp = false) :
    ∃ v1, checkoutAct cfg strat2 sp v = .ok v1 ∧ CheckoutInv cfg Sc w0 sC v1 := by
  obtain ⟨stg, stg', e0, e1, e2⟩ := hstage sp hsc
  obtain ⟨v1, h1, h2, _, h4, h5, h6⟩ := checkoutAct_committed cfg strat2 sp w0.ws stg stg' v sC
    (by rw [hidx]; exact e1) e2 (hok.apart_in sp stg hsc e0) (hrt sp stg hsc e0)
    (by rw [hinv.store]; exact Store.le_refl _ _) (hinv.pending sp stg hsc hnd e0)
  have hdone : ∀ x, v1.done.contains x = (x == sp || v.done.contains x) := by
    intro x; rw [h4, List.contains_cons]
  refine ⟨v1, h1, h2.trans hinv.store, ?_, ?_⟩
  · intro x stgx hscx hx hsx a ha hsk
    rw [hdone, Bool.or_eq_false_iff] at hx
    have hne : x ≠ sp := by simpa using hx.1
    obtain ⟨p1, p2⟩ := hinv.pending x stgx hscx hx.2 hsx a ha hsk
    obtain ⟨g1, g2⟩ := h6 (Path.comps a.path)
      (fun b hb _ => hok.apart_across sp x stg stgx hsc hscx (Ne.symm hne) e0 hsx b hb a ha)
    exact ⟨by rw [g1]; exact p1, g2 p2⟩
  · intro x stgx hscx hx hsx a ha hsk
    by_cases hxs : x = sp
    · subst hxs
      rw [e0] at hsx
      cases hsx
      obtain ⟨r, hr, hd⟩ := h5 a ha hsk
      exact ⟨r, hr, by rw [← hinv.store]; exact hd⟩
    · have hx' : v.done.contains x = true := by
        rw [hdone] at hx
        have : (x == sp) = false := by simpa using hxs
        simpa [this] using hx
      obtain ⟨r, hr, hd⟩ := hinv.finished x stgx hscx hx' hsx a ha hsk
      obtain ⟨g1, _⟩ := h6 (Path.comps a.path)
        (fun b hb _ => hok.apart_across sp x stg stgx hsc hscx (Ne.symm hxs) e0 hsx b hb a ha)
      exact ⟨r, by rw [g1]; exact hr, hd⟩

/-- **`dud checkout` in a clone whose cache was restored.** `w'` is the world a successful
`dud commit [targets]` left; the clone `v` has the committed index, a cache with the `RoundTrip`
property for every non-skip output in scope, and these outputs are absent and writable.  Then
`dud checkout [targets]` succeeds and rebuilds every such output.  (The checkout half of
`commit_checkout_world_roundtrip`, with the hypothesis on the clone's cache alone.) -/
theorem cmdCheckout_restored (cfg : Cfg κ) (g : Good cfg.ctx) (strat strat2 : Strat)
    (targets : List Bytes) (w0 w' : World κ) (hc : Consistent cfg.ctx w0.store)
    (hok : PipelineOK cfg (InScope cfg w0 targets) w0)
    (h : cmdCommit cfg strat targets w0 = .ok w') (v : World κ) (hv : v.idx = w'.idx)
    (hrt : ∀ sp stg, InScope cfg w0 targets sp → alookup w0.idx sp = some stg →
      ∀ a, a ∈ stg.outputs → a.skip = false →
        RoundTrip cfg a (trackedOf a (origAt w0.ws a)) v.store)
    (hfresh : ∀ sp stg, InScope cfg w0 targets sp → alookup w0.idx sp = some stg →
      ∀ a, a ∈ stg.outputs → a.skip = false →
        getPath v.ws (Path.comps a.path) = none ∧ Writable v.ws (Path.comps a.path)) :
    ∃ v', cmdCheckout cfg strat2 false targets v = .ok v' ∧ v'.store = v.store ∧ v'.idx = v.idx ∧
      ∀ sp stg, InScope cfg w0 targets sp → alookup w0.idx sp = some stg →
        ∀ a, a ∈ stg.outputs → a.skip = false →
          ∃ r, getPath v'.ws (Path.comps a.path) = some r ∧
            deref cfg.ctx v'.store r = trackedOf a (origAt w0.ws a) := by
  obtain ⟨hci, hsh, l', hnd, hiff, hdone, htop, hts, ⟨t0, ht0⟩⟩ :=
    cmdCommit_inv cfg g strat targets w0 w' hc hok h
  have hall : ∀ sp, InScope cfg w0 targets sp → w'.done.contains sp = true := by
    intro sp hsp
    rw [hdone]
    simpa using (hiff sp).2 hsp
  have hstage : ∀ sp, InScope cfg w0 targets sp → ∃ stg stg', alookup w0.idx sp = some stg ∧
      alookup w'.idx sp = some stg' ∧
      stg'.outputs = (sortArts stg.outputs).map (committedArt cfg.ctx w0.ws) := by
    intro sp hsp
    obtain ⟨stg, stg', e0, e1, e2, _⟩ := hci.finished sp hsp (hall sp hsp)
    exact ⟨stg, stg', e0, e1, e2⟩
  have hown : ∀ sp x, x ∈ ownIdx cfg w'.idx sp ↔ x ∈ ownIdx cfg w0.idx sp :=
    fun sp x => ownIdx_sim cfg hsh sp x
  have hT : (checkoutTrav cfg strat2).LawfulOn (ownIdx cfg w0.idx) (fun u => u.idx = w'.idx) :=
    lawfulOn_congr_own (checkoutTrav_lawfulOn cfg strat2 w'.idx) hown
  have hts' : (if targets.isEmpty then allStages v else targets) =
      (if targets.isEmpty then allStages w0 else targets) := by
    have : allStages v = allStages w0 := by
      simp only [allStages, hv]
      exact hsh.keys
    rw [this]
  obtain ⟨v', hrun, hi', hq'⟩ := WT.perTarget_progress (T := checkoutTrav cfg strat2)
    (Q := CheckoutInv cfg (InScope cfg w0 targets) w0 v.store) (S := (· ∈ l')) (rank := l'.idxOf) hT
    (fun x hx o ho => ⟨(htop x hx o ho).mem_left, WT.idxOf_lt_of_before hnd (htop x hx o ho)⟩)
    (fun st sp hi hsp => by
      obtain ⟨_, stg', _, e1, _⟩ := hstage sp ((hiff sp).1 hsp)
      have hi : st.idx = w'.idx := hi
      show ∃ os, ownersOf cfg st sp = .ok os
      simp only [ownersOf, World.stage, hi, e1]
      exact ⟨_, rfl⟩)
    (fun st sp hi hq hsp hndone _ =>
      checkoutInv_step' cfg strat2 _ w0 w'.idx hok hstage v.store hrt sp st ((hiff sp).1 hsp) hi hq
        hndone)
    (fun u => l'.length + u.idx.length + 1) allStages
    (fun u hi x hx => by
      have hi : u.idx = w'.idx := hi
      obtain ⟨_, stg', _, e1, _⟩ := hstage x ((hiff x).1 hx)
      have hl : alookup u.idx x = some stg' := by rw [hi]; exact e1
      refine ⟨?_, WT.mem_keys_of_alookup hl, by rw [hl]; rfl⟩
      have := List.idxOf_le_length (l := l') (a := x)
      omega)
    (if targets.isEmpty then allStages v else targets) (fresh v)
    (fun t ht => hts t (hts' ▸ ht)) hv
    { store := rfl
      pending := fun sp stg hsp _ hs a ha hsk => hfresh sp stg hsp hs a ha hsk
      finished := fun sp stg _ hd => by simp [fresh] at hd }
  have hcmd : cmdCheckout cfg strat2 false targets v = .ok v' := by
    have hne : v.idx.isEmpty = false := by
      obtain ⟨_, stg', _, e1, _⟩ := hstage t0 ((hiff t0).1 ht0)
      rw [hv]
      cases hw : w'.idx with
      | nil => rw [hw] at e1; simp [alookup] at e1
      | cons _ _ => rfl
    simp only [cmdCheckout, hne, Bool.false_eq_true, if_false, Bool.not_false, Bool.or_true]
    rw [← hrun]
    refine WT.perTarget_congr (fun t u => ?_) _ _
    refine visit_fuel_irrelevant _ true _ _ (allStages u) t u ?_ ?_
    · simp [allStages]
    · simp only [allStages, List.length_map]; omega
  refine ⟨v', hcmd, hq'.store, hi'.trans hv.symm, ?_⟩
  obtain ⟨l'', _, _, hnd'', _, hts'', hdone'', htop''⟩ := cmdCheckout_spec cfg strat2 false targets v v' hcmd
  have htop2 := htop'' (by simp)
  intro sp stg hsp hs a ha hsk
  have hdn : v'.done.contains sp = true := by
    obtain ⟨t, ht, hr⟩ := hsp
    have hr' : Reach (ownIdx cfg v.idx) t sp :=
      reach_congr_own (fun s x hx => by rw [hv]; exact (hown s x).2 hx) hr
    have := reach_mem_log hnd'' htop2 hr' (hts'' t (hts' ▸ ht))
    rw [hdone'']
    simpa using this
  obtain ⟨r, hr, hd⟩ := hq'.finished sp stg hsp hdn hs a ha hsk
  exact ⟨r, hr, by rw [hq'.store]; exact hd⟩

/-! ## 4. the composition -/

/-- the scope of `dud push/fetch` (recursive) in the committed world is the scope of `dud commit` -/
theorem cmdScope_iff_inScope (cfg : Cfg κ) {w0 w1 : World κ} (hsh : SameShape w1.idx w0.idx)
    (targets : List Bytes) (sp : Bytes) :
    CmdScope cfg w1 false targets sp ↔ InScope cfg w0 targets sp := by
  have hk : allStages w1 = allStages w0 := by simp only [allStages]; exact hsh.keys
  simp only [CmdScope, TravScope, InScope, Bool.not_false, Bool.or_true, if_true, hk]
  constructor
  · rintro ⟨t, ht, hr⟩
    exact ⟨t, ht, reach_congr_own (fun s x hx => (ownIdx_sim cfg hsh s x).1 hx) hr⟩
  · rintro ⟨t, ht, hr⟩
    exact ⟨t, ht, reach_congr_own (fun s x hx => (ownIdx_sim cfg hsh s x).2 hx) hr⟩

/-- a clone without cache: `KindsAgreeW` is a condition on the remote alone -/
theorem kindsAgreeW_empty (cfg : Cfg κ) (v : World κ) (hs : v.store = [])
    (hk : KindsAgree (Occurs cfg.ctx v.remote)) : KindsAgreeW cfg v := by
  intro c1 c2 h1 h2
  have hno : ∀ c, ¬ Occurs cfg.ctx v.store c := by
    rintro c ⟨d, cs, hm, _⟩
    rw [hs] at hm
    simp [readManifest, Store.get, alookup] at hm
  rcases h1 with h1 | h1
  · exact absurd h1 (hno _)
  rcases h2 with h2 | h2
  · exact absurd h2 (hno _)
  exact hk c1 c2 h1 h2

/-- **C11 ∘ C01, world level — PARTIAL (`KindsAgree` on the remote).**
`dud commit [targets]` in `w0` (pipeline satisfying `PipelineOK`, un-owned inputs files, directory
outputs recursive), `dud push [targets]` to a consistent remote, then a clone `c` that has the
committed index and the remote but NO cache (`c.store = []`), and in which the non-skip outputs in
scope are absent and writable (e.g. an empty workspace: `commit_push_fetch_checkout_empty_partial`):
`dud fetch [targets]` (assumed to succeed, like commit and push) followed by `dud checkout [targets]`
with either strategy SUCCEEDS, and at the path of every non-skip output of every stage in scope
stands a node whose logical content (`deref` in the fetched cache) is the original subtree. -/
theorem commit_push_fetch_checkout_world_partial (cfg : Cfg κ) (g : Good cfg.ctx)
    (strat strat2 : Strat) (targets : List Bytes) (w0 w1 w2 c v : World κ)
    (hc : Consistent cfg.ctx w0.store)
    (hok : PipelineOK cfg (InScope cfg w0 targets) w0)
    (hfiles : PlainInputsFiles cfg (InScope cfg w0 targets) w0)
    (hrec : ∀ sp stg, InScope cfg w0 targets sp → alookup w0.idx sp = some stg →
      ∀ a, a ∈ stg.outputs → Recursive a)
    (hcommit : cmdCommit cfg strat targets w0 = .ok w1)
    (hcr : Consistent cfg.ctx w1.remote)
    (hpush : cmdPush cfg false targets w1 = .ok w2)
    (hci : c.idx = w1.idx) (hcrem : c.remote = w2.remote) (hcs : c.store = [])
    (hfresh : ∀ sp stg, InScope cfg w0 targets sp → alookup w0.idx sp = some stg →
      ∀ a, a ∈ stg.outputs → a.skip = false →
        getPath c.ws (Path.comps a.path) = none ∧ Writable c.ws (Path.comps a.path))
    (hk : KindsAgree (Occurs cfg.ctx w2.remote))
    (hfetch : cmdFetch cfg false targets c = .ok v) :
    ∃ v', cmdCheckout cfg strat2 false targets v = .ok v' ∧ v'.store = v.store ∧ v'.idx = w1.idx ∧
      ∀ sp stg, InScope cfg w0 targets sp → alookup w0.idx sp = some stg →
        ∀ a, a ∈ stg.outputs → a.skip = false →
          ∃ r, getPath v'.ws (Path.comps a.path) = some r ∧
            deref cfg.ctx v'.store r = origAt w0.ws a := by
  -- commit: consistent cache, recorded outputs, held trees
  obtain ⟨⟨hc1, _⟩, hrecd, _⟩ :=
    commit_checkout_world_roundtrip cfg g strat strat2 targets w0 w1 hc hok hcommit
  obtain ⟨_, hsh, _⟩ := cmdCommit_inv cfg g strat targets w0 w1 hc hok hcommit
  have hheld := cmdCommit_holds cfg g strat targets w0 w1 hc hok hfiles hrec hcommit
  -- push + fetch: the closures are restored with the same bytes
  obtain ⟨_, htr⟩ := push_fetch_world_partial g false targets w1 w2 c v hc1 hcr hpush hci hcrem
    (by rw [hcs]; exact Consistent.nil _)
    (kindsAgreeW_empty cfg c hcs (by rw [hcrem]; exact hk)) hfetch
  obtain ⟨_, hvi, hvw, _, _⟩ := cmdFetch_world_mono cfg false targets c v hfetch
  -- so the fetched cache has the `RoundTrip` property
  have hrt : ∀ sp stg, InScope cfg w0 targets sp → alookup w0.idx sp = some stg →
      ∀ a, a ∈ stg.outputs → a.skip = false →
        RoundTrip cfg a (trackedOf a (origAt w0.ws a)) v.store := by
    intro sp stg hsp hs a ha hsk
    obtain ⟨n, hn, hpre⟩ := hok.pre sp stg hsp hs a ha
    have horig : origAt w0.ws a = n := origAt_of_getPath hn
    have hra := hrec sp stg hsp hs a ha
    have htk : trackedOf a n = n := trackedOf_recursive hpre.kind hra
    rw [horig, htk]
    obtain ⟨stg', hs', hout⟩ := hrecd sp stg hsp hs
    have hap := hok.apart_in sp stg hsp hs
    have hap' : ApartArts stg'.outputs := by
      rw [hout]
      exact hap.sortArts.of_paths (committedArt_paths cfg.ctx w0.ws _)
    have hmem : committedArt cfg.ctx w0.ws a ∈ sortArts stg'.outputs := by
      refine mem_sortArts_of_mem hap'.paths_ne ?_
      rw [hout]
      exact List.mem_map.2 ⟨a, mem_sortArts_of_mem hap.paths_ne ha, rfl⟩
    have hh1 : HoldsNode cfg.ctx w1.store newChoice a.path n := by
      have := hheld sp stg hsp hs a ha hsk
      rwa [horig] at this
    have hchild : (committedArt cfg.ctx w0.ws a).child =
        ⟨a.path, digestAs cfg.ctx newChoice a.path n, n.isDir⟩ := by
      simp only [committedArt, Art.child, horig, htk, digestAs_new, hpre.kind]
    have hh2 : HoldsNode cfg.ctx v.store newChoice a.path n := by
      refine holds_transfer g n newChoice a.path hpre.plain hpre.sorted hpre.names hh1 ?_
      intro d hr
      rw [← hchild] at hr
      exact (htr sp stg' ((cmdScope_iff_inScope cfg hsh targets sp).2 hsp) hs' _ hmem hsk d hr).2
    exact roundTrip_of_holds g a n hpre.plain hpre.sorted hpre.names hpre.kind hsk
      (by have := hpre.fuel; rwa [htk] at this) v.store hh2
  obtain ⟨v', h1, h2, h3, h4⟩ := cmdCheckout_restored cfg g strat strat2 targets w0 w1 hc hok
    hcommit v (hvi.trans hci) hrt (by rw [hvw]; exact hfresh)
  refine ⟨v', h1, h2, h3.trans (hvi.trans hci), ?_⟩
  intro sp stg hsp hs a ha hsk
  obtain ⟨r, hr, hd⟩ := h4 sp stg hsp hs a ha hsk
  obtain ⟨n, hn, hpre⟩ := hok.pre sp stg hsp hs a ha
  refine ⟨r, hr, ?_⟩
  rw [hd, origAt_of_getPath hn, trackedOf_recursive hpre.kind (hrec sp stg hsp hs a ha)]

/-- the same in a FRESH clone: the committed index, the remote, no cache and an empty workspace -/
theorem commit_push_fetch_checkout_empty_partial (cfg : Cfg κ) (g : Good cfg.ctx)
    (strat strat2 : Strat) (targets : List Bytes) (w0 w1 w2 v : World κ)
    (hc : Consistent cfg.ctx w0.store)
    (hok : PipelineOK cfg (InScope cfg w0 targets) w0)
    (hfiles : PlainInputsFiles cfg (InScope cfg w0 targets) w0)
    (hrec : ∀ sp stg, InScope cfg w0 targets sp → alookup w0.idx sp = some stg →
      ∀ a, a ∈ stg.outputs → Recursive a)
    (hdot : ∀ sp stg, InScope cfg w0 targets sp → alookup w0.idx sp = some stg →
      ∀ a, a ∈ stg.outputs → a.skip = false → Path.comps a.path ≠ [])
    (hcommit : cmdCommit cfg strat targets w0 = .ok w1)
    (hcr : Consistent cfg.ctx w1.remote)
    (hpush : cmdPush cfg false targets w1 = .ok w2)
    (hk : KindsAgree (Occurs cfg.ctx w2.remote))
    (hfetch : cmdFetch cfg false targets { idx := w1.idx, remote := w2.remote } = .ok v) :
    ∃ v', cmdCheckout cfg strat2 false targets v = .ok v' ∧
      ∀ sp stg, InScope cfg w0 targets sp → alookup w0.idx sp = some stg →
        ∀ a, a ∈ stg.outputs → a.skip = false →
          ∃ r, getPath v'.ws (Path.comps a.path) = some r ∧
            deref cfg.ctx v'.store r = origAt w0.ws a := by
  obtain ⟨v', h1, _, _, h4⟩ := commit_push_fetch_checkout_world_partial cfg g strat strat2 targets
    w0 w1 w2 { idx := w1.idx, remote := w2.remote } v hc hok hfiles hrec hcommit hcr hpush rfl rfl rfl
    (fun sp stg hsp hs a ha hsk => by
      refine ⟨?_, WT.writable_empty _⟩
      cases hp : Path.comps a.path with
      | nil => exact absurd hp (hdot sp stg hsp hs a ha hsk)
      | cons c r => exact WT.getPath_nil_dir r c)
    hk hfetch
  exact ⟨v', h1, h4⟩

/-! ## 5. a decidable sufficient condition for `KindsAgree` -/

/-- all entries of all manifests readable from the store -/
def storeKids (ctx : Ctx κ) (s : Store κ) : List Child :=
  s.flatMap (fun p => match readManifest ctx s p.1 with
    | .ok cs => cs
    | .error _ => [])

theorem occurs_mem_storeKids {ctx : Ctx κ} {s : Store κ} {c : Child} (h : Occurs ctx s c) :
    c ∈ storeKids ctx s := by
  obtain ⟨d, cs, hm, hc⟩ := h
  obtain ⟨o, ho⟩ := Store.has_eq_true.1 (readManifest_ok_has hm)
  have hmem : (d, o) ∈ s := alookup_mem ho
  exact List.mem_flatMap.2 ⟨(d, o), hmem, by simp only [hm]; exact hc⟩

/-- equal checksums have equal kinds, checked pairwise -/
def kindsOK (l : List Child) : Bool :=
  l.all (fun c1 => l.all (fun c2 => c1.sum != c2.sum || c1.isDir == c2.isDir))

theorem kindsAgree_of_kindsOK {ctx : Ctx κ} {s : Store κ} (h : kindsOK (storeKids ctx s) = true) :
    KindsAgree (Occurs ctx s) := by
  intro c1 c2 h1 h2 hs
  have := List.all_eq_true.1 (List.all_eq_true.1 h c1 (occurs_mem_storeKids h1)) c2
    (occurs_mem_storeKids h2)
  simpa [hs] using this

/-! ## non-vacuity: a two-stage pipeline, all five commands

The pipeline of `Example2` (`Props/C01world.lean`: stage `[2]` consumes the directory that stage `[1]`
produces) with one-byte names `[1]`, `[2]`, `[3]`: the example hash prints names in unary, so the
digests stay short (at most 103 characters) and the kernel can run push and fetch. -/

namespace Example3
open Dud.Example

def cfg : Cfg K :=
  { ctx := ctx, ofBytes := fun _ => .raw "", toBytes := fun _ => [], walkAccumulates := true, fuel := 8 }

/-- output of stage A: a directory with a file and a sub-directory -/
def treeA : Node K := .dir [([1], .file (.raw "x")), ([2], .dir [([3], .file (.raw "z"))])]

def outA : Art := { path := [1], isDir := true }
def outB : Art := { path := [2] }
def stageA : Stage := { cmd := [1], outputs := [outA] }
/-- stage B reads the directory `[1]` (owned by stage A) and writes the file `[2]` -/
def stageB : Stage := { cmd := [2], inputs := [{ path := [1], isDir := true }], outputs := [outB] }

def w0 : World K :=
  { ws := .dir [([1], treeA), ([2], .file (.raw "o"))],
    idx := [([1], stageA), ([2], stageB)] }

/-- did the command succeed? (decided by kernel evaluation) -/
def okB {α : Type} : Except Err α → Bool
  | .ok _ => true
  | .error _ => false

theorem eq_ok_of_okB {α : Type} [Inhabited α] (x : Except Err α) (h : okB x = true) :
    x = .ok (match x with | .ok w => w | .error _ => default) := by
  cases x with
  | ok w => rfl
  | error e => cases h

/-- after `dud commit` (link strategy), computed by the model -/
def w1 : World K :=
  match cmdCommit cfg .link [] w0 with
  | .ok w => w
  | .error _ => default

theorem commit_ok : cmdCommit cfg .link [] w0 = .ok w1 := eq_ok_of_okB _ (by decide +kernel)

/-- after `dud push` (all stages) -/
def w2 : World K :=
  match cmdPush cfg false [] w1 with
  | .ok w => w
  | .error _ => default

theorem push_ok : cmdPush cfg false [] w1 = .ok w2 := eq_ok_of_okB _ (by decide +kernel)

/-- a fresh clone (committed index, the remote, no cache, empty workspace) after `dud fetch` -/
def v1 : World K :=
  match cmdFetch cfg false [] { idx := w1.idx, remote := w2.remote } with
  | .ok w => w
  | .error _ => default

theorem fetch_ok : cmdFetch cfg false [] { idx := w1.idx, remote := w2.remote } = .ok v1 :=
  eq_ok_of_okB _ (by decide +kernel)

/-- the remote lists no checksum both as a file and as a directory -/
theorem remote_kinds : KindsAgree (Occurs cfg.ctx w2.remote) :=
  kindsAgree_of_kindsOK (by decide +kernel)

theorem idx_cases {sp : Bytes} {stg : Stage} (h : alookup w0.idx sp = some stg) :
    (sp = [1] ∧ stg = stageA) ∨ (sp = [2] ∧ stg = stageB) := by
  simp only [w0, alookup] at h
  split at h
  · rename_i h1
    cases h
    exact .inl ⟨(by simpa using h1 : [1] = sp).symm, rfl⟩
  · split at h
    · rename_i h2
      cases h
      exact .inr ⟨(by simpa using h2 : [2] = sp).symm, rfl⟩
    · cases h

theorem compsA : Path.comps outA.path = [[1]] := rfl
theorem compsB : Path.comps outB.path = [[2]] := rfl

theorem apartAB : Apart (Path.comps outA.path) (Path.comps outB.path) := by
  rw [compsA, compsB]
  exact WT.apart_iff_diverge.2 ⟨[], [1], [2], [], [], by decide, rfl, rfl⟩

theorem preA : ArtPre cfg.ctx cfg.fuel outA treeA where
  kind := rfl
  plain := by simp [treeA, Node.plain, plainList]
  sorted := by simp [treeA, Node.sorted, sortedList, headName]; decide
  names := by
    intro nm h
    refine ⟨rfl, fun _ _ _ => rfl, ?_⟩
    simp only [treeA, allNames, allNamesList, List.mem_cons, List.not_mem_nil,
      List.append_nil, or_false, List.nil_append] at h
    rcases h with rfl | rfl | rfl <;> decide
  fresh := fun _ => ⟨rfl, rfl⟩
  fuel := by simp [trackedOf, outA, treeA, depth, depthList, cfg]

theorem preB : ArtPre cfg.ctx cfg.fuel outB (.file (.raw "o")) where
  kind := rfl
  plain := rfl
  sorted := rfl
  names := by intro nm h; simp [allNames] at h
  fresh := fun h => by cases h
  fuel := by simp [trackedOf, depth, cfg]

theorem pipelineOK (Sc : Bytes → Prop) : PipelineOK cfg Sc w0 where
  keys := by decide
  apart_in := by
    intro sp stg _ hs
    rcases idx_cases hs with ⟨_, rfl⟩ | ⟨_, rfl⟩ <;> exact List.pairwise_singleton _ _
  apart_across := by
    intro sp1 sp2 stg1 stg2 _ _ hne h1 h2 a ha b hb
    rcases idx_cases h1 with ⟨rfl, rfl⟩ | ⟨rfl, rfl⟩ <;> rcases idx_cases h2 with ⟨rfl, rfl⟩ | ⟨rfl, rfl⟩
    · exact absurd rfl hne
    · simp only [stageA, stageB, List.mem_singleton] at ha hb
      subst ha; subst hb; exact apartAB
    · simp only [stageA, stageB, List.mem_singleton] at ha hb
      subst ha; subst hb; exact apartAB.symm
    · exact absurd rfl hne
  pre := by
    intro sp stg _ hs a ha
    rcases idx_cases hs with ⟨_, rfl⟩ | ⟨_, rfl⟩
    · simp only [stageA, List.mem_singleton] at ha
      subst ha
      exact ⟨treeA, rfl, preA⟩
    · simp only [stageB, List.mem_singleton] at ha
      subst ha
      exact ⟨_, rfl, preB⟩
  inputs := by
    intro sp stg _ hs sp' stg' _ _ a _ b hb hn
    rcases idx_cases hs with ⟨_, rfl⟩ | ⟨_, rfl⟩
    · simp [stageA] at hb
    · simp only [stageB, List.mem_singleton] at hb
      subst hb
      have : (findOwner cfg.walkAccumulates w0.idx [1]).isNone = false := rfl
      rw [this] at hn
      cases hn

theorem scope_all (sp : Bytes) (h : sp = [1] ∨ sp = [2]) : InScope cfg w0 [] sp := by
  refine ⟨sp, ?_, .refl _⟩
  rcases h with rfl | rfl <;> decide

/-- **`commit_push_fetch_checkout_empty_partial` instantiated**: commit, push, fresh clone, fetch,
then `dud checkout` (either strategy) rebuilds the directory of stage A and the file of stage B. -/
theorem five_commands (strat2 : Strat) :
    ∃ v', cmdCheckout cfg strat2 false [] v1 = .ok v' ∧
      (∃ r, getPath v'.ws [[1]] = some r ∧ deref ctx v'.store r = treeA) ∧
      (∃ r, getPath v'.ws [[2]] = some r ∧ deref ctx v'.store r = .file (.raw "o")) := by
  obtain ⟨v', h1, h2⟩ := commit_push_fetch_checkout_empty_partial cfg good .link strat2 [] w0 w1 w2 v1
    (by intro d o h; simp [w0, Store.get, alookup] at h) (pipelineOK _)
    (by
      intro sp stg _ hs b hb hn
      rcases idx_cases hs with ⟨_, rfl⟩ | ⟨_, rfl⟩
      · simp [stageA] at hb
      · simp only [stageB, List.mem_singleton] at hb
        subst hb
        have : (findOwner cfg.walkAccumulates w0.idx [1]).isNone = false := rfl
        rw [this] at hn
        cases hn)
    (by
      intro sp stg _ hs a ha
      rcases idx_cases hs with ⟨_, rfl⟩ | ⟨_, rfl⟩
      · simp only [stageA, List.mem_singleton] at ha
        subst ha; intro _; rfl
      · simp only [stageB, List.mem_singleton] at ha
        subst ha; intro h; cases h)
    (by
      intro sp stg _ hs a ha _
      rcases idx_cases hs with ⟨_, rfl⟩ | ⟨_, rfl⟩
      · simp only [stageA, List.mem_singleton] at ha
        subst ha; rw [compsA]; simp
      · simp only [stageB, List.mem_singleton] at ha
        subst ha; rw [compsB]; simp)
    commit_ok
    (by
      have : w1.remote = [] := by decide +kernel
      rw [this]
      intro d o h
      simp [Store.get, alookup] at h)
    push_ok remote_kinds fetch_ok
  refine ⟨v', h1, ?_, ?_⟩
  · exact h2 [1] stageA (scope_all _ (.inl rfl)) rfl outA (by simp [stageA]) rfl
  · exact h2 [2] stageB (scope_all _ (.inr rfl)) rfl outB (by simp [stageB]) rfl

/-- the same by running the model: with the copy strategy the clone's workspace IS the original;
the fetched cache has as many objects as the committed one; lengths of the digests on the remote -/
def fiveExact : Bool × Nat × Nat × List Nat :=
  match cmdCheckout cfg .copy false [] v1 with
  | .ok v => (nodeBEq v.ws w0.ws, v1.store.length, w1.store.length, w2.remote.map (·.1.length))
  | .error _ => (false, 0, 0, [])

#eval fiveExact

end Example3

/-! ## axioms -/

#print axioms trackedOf_recursive
#print axioms heldEst
#print axioms cmdCommit_holds
#print axioms holds_transfer
#print axioms holdsList_transfer
#print axioms roundTrip_of_holds
#print axioms checkoutInv_step'
#print axioms cmdCheckout_restored
#print axioms cmdScope_iff_inScope
#print axioms kindsAgreeW_empty
#print axioms commit_push_fetch_checkout_world_partial
#print axioms commit_push_fetch_checkout_empty_partial
#print axioms occurs_mem_storeKids
#print axioms kindsAgree_of_kindsOK
#print axioms Example3.eq_ok_of_okB
#print axioms Example3.commit_ok
#print axioms Example3.push_ok
#print axioms Example3.fetch_ok
#print axioms Example3.remote_kinds
#print axioms Example3.idx_cases
#print axioms Example3.compsA
#print axioms Example3.compsB
#print axioms Example3.apartAB
#print axioms Example3.preA
#print axioms Example3.preB
#print axioms Example3.pipelineOK
#print axioms Example3.scope_all
#print axioms Example3.five_commands

end Dud
