import DudModel.Lemmas.Remote
import DudModel.Generated.Facts
/-!
# C02 — the cache is content-addressed and append-only

Logical level: `Consistent ctx s` (every object sits under the digest of its bytes) is an invariant
of every cache-writing operation, and `Store.le ctx s s'` (the bytes under every existing name are
kept) relates the cache before and after.  `Store.Step ctx s s'` packages both:
`Consistent s → Consistent s' ∧ Store.le s s'`.

1. commit (`commitFile`, `commitNode`/`commitEntries`, `commitArt`) for arbitrary nodes and
   arbitrary recorded checksums;
2. frames for the world-level stage actions;
3. lifting through `visit` / `visitAll` / `perTarget`, then the six commands;
4. arbitrary histories of successful commands;
5. the regenerated facts on the on-disk layout (`commitBytes`).
-/
namespace Dud

variable {κ : Type}

/-! ## 1. commit -/

/-- the cache after `commitFile` is the old one, possibly with the file's bytes put under their hash -/
theorem commitFile_cases {ctx : Ctx κ} {strat skip n sum} {s : Store κ} {n' d s'}
    (h : commitFile ctx strat skip n sum s = .ok (n', d, s')) :
    s' = s ∨ ∃ c, s' = s.put (ctx.H c) (.blob c) := by
  unfold commitFile at h
  repeat' split at h
  all_goals first | cases h | (simp only [Except.ok.injEq, Prod.mk.injEq] at h; obtain ⟨_, _, rfl⟩ := h)
  all_goals first | exact .inl rfl | exact .inr ⟨_, rfl⟩

theorem commitFile_store {ctx : Ctx κ} (hg : Good ctx) {strat skip n sum} {s : Store κ} {n' d s'}
    (h : commitFile ctx strat skip n sum s = .ok (n', d, s')) (hs : Consistent ctx s) :
    Consistent ctx s' ∧ Store.le ctx s s' := by
  rcases commitFile_cases h with rfl | ⟨c, rfl⟩
  · exact Store.Step.refl _ _ hs
  · exact Store.Step.put hg _ rfl hs

mutual
theorem commitNode_step {ctx : Ctx κ} (hg : Good ctx) (strat : Strat) :
    ∀ (n : Node κ) (c : Child) (s : Store κ) {n' c' s'},
      commitNode ctx strat n c s = .ok (n', c', s') → Store.Step ctx s s'
  | .dir es, c, s, n', c', s', h => by
    rw [commitNode] at h
    split at h
    · split at h
      · cases h
      · split at h
        · cases h
        · rename_i es' cs s1 he
          simp only [Except.ok.injEq, Prod.mk.injEq] at h
          obtain ⟨_, _, rfl⟩ := h
          exact (commitEntries_step hg strat false es _ s he).trans (.put hg _ rfl)
    · cases h
  | .file x, c, s, n', c', s', h => by
    rw [commitNode] at h
    split at h
    · cases h
    · split at h
      · cases h
      · rename_i hf
        simp only [Except.ok.injEq, Prod.mk.injEq] at h
        obtain ⟨_, _, rfl⟩ := h
        exact commitFile_store hg hf
  | .link l, c, s, n', c', s', h => by
    rw [commitNode] at h
    split at h
    · cases h
    · split at h
      · cases h
      · rename_i hf
        simp only [Except.ok.injEq, Prod.mk.injEq] at h
        obtain ⟨_, _, rfl⟩ := h
        exact commitFile_store hg hf
  | .other, c, s, n', c', s', h => by
    rw [commitNode] at h
    split at h
    · cases h
    · split at h
      · cases h
      · rename_i hf
        simp only [Except.ok.injEq, Prod.mk.injEq] at h
        obtain ⟨_, _, rfl⟩ := h
        exact commitFile_store hg hf
theorem commitEntries_step {ctx : Ctx κ} (hg : Good ctx) (strat : Strat) (skipDirs : Bool) :
    ∀ (es : List (Name × Node κ)) (old : List Child) (s : Store κ) {es' cs s'},
      commitEntries ctx strat skipDirs es old s = .ok (es', cs, s') → Store.Step ctx s s'
  | [], old, s, es', cs, s', h => by
    rw [commitEntries] at h
    simp only [Except.ok.injEq, Prod.mk.injEq] at h
    obtain ⟨_, _, rfl⟩ := h
    exact .refl _ _
  | (nm, n) :: r, old, s, es', cs, s', h => by
    rw [commitEntries] at h
    split at h
    · split at h
      · cases h
      · rename_i hr
        simp only [Except.ok.injEq, Prod.mk.injEq] at h
        obtain ⟨_, _, rfl⟩ := h
        exact commitEntries_step hg strat skipDirs r old s hr
    · split at h
      · cases h
      · dsimp only at h
        split at h
        · cases h
        · rename_i hn
          split at h
          · cases h
          · rename_i hr
            simp only [Except.ok.injEq, Prod.mk.injEq] at h
            obtain ⟨_, _, rfl⟩ := h
            exact (commitNode_step hg strat n _ s hn).trans (commitEntries_step hg strat skipDirs r old _ hr)
end

/-- `commitWorker` on an arbitrary node with an arbitrary (old or fresh) child record -/
theorem commitNode_store {ctx : Ctx κ} (hg : Good ctx) (strat : Strat) (n : Node κ) (c : Child) (s : Store κ)
    {n' c' s'} (h : commitNode ctx strat n c s = .ok (n', c', s')) (hs : Consistent ctx s) :
    Consistent ctx s' ∧ Store.le ctx s s' := commitNode_step hg strat n c s h hs

theorem commitEntries_store {ctx : Ctx κ} (hg : Good ctx) (strat : Strat) (skipDirs : Bool)
    (es : List (Name × Node κ)) (old : List Child) (s : Store κ) {es' cs s'}
    (h : commitEntries ctx strat skipDirs es old s = .ok (es', cs, s')) (hs : Consistent ctx s) :
    Consistent ctx s' ∧ Store.le ctx s s' := commitEntries_step hg strat skipDirs es old s h hs

theorem commitArt_step {ctx : Ctx κ} (hg : Good ctx) (strat : Strat) (a : Art) (n : Option (Node κ)) (s : Store κ)
    {n' d s'} (h : commitArt ctx strat a n s = .ok (n', d, s')) : Store.Step ctx s s' := by
  unfold commitArt at h
  split at h
  · split at h
    · split at h
      · cases h
      · split at h
        · cases h
        · rename_i he
          simp only [Except.ok.injEq, Prod.mk.injEq] at h
          obtain ⟨_, _, rfl⟩ := h
          exact (commitEntries_step hg strat _ _ _ s he).trans (.put hg _ rfl)
    · cases h
    · cases h
  · exact fun hs => commitFile_store hg h hs

/-- `LocalCache.Commit` keeps the cache content-addressed and loses nothing -/
theorem commitArt_store {ctx : Ctx κ} (hg : Good ctx) (strat : Strat) (a : Art) (n : Option (Node κ)) (s : Store κ)
    {n' d s'} (h : commitArt ctx strat a n s = .ok (n', d, s')) (hs : Consistent ctx s) :
    Consistent ctx s' ∧ Store.le ctx s s' := commitArt_step hg strat a n s h hs

/-! ## 2. world-level frames -/

/-- neither cache is touched -/
def SameCache (w w' : World κ) : Prop := w'.store = w.store ∧ w'.remote = w.remote

theorem SameCache.refl (w : World κ) : SameCache w w := ⟨rfl, rfl⟩
theorem SameCache.trans {a b c : World κ} (h1 : SameCache a b) (h2 : SameCache b c) : SameCache a c :=
  ⟨h2.1.trans h1.1, h2.2.trans h1.2⟩

/-- commit: remote untouched, local cache makes a `Store.Step` -/
def CommitRel (ctx : Ctx κ) (w w' : World κ) : Prop := w'.remote = w.remote ∧ Store.Step ctx w.store w'.store

theorem CommitRel.refl (ctx : Ctx κ) (w : World κ) : CommitRel ctx w w := ⟨rfl, .refl _ _⟩
theorem CommitRel.trans {ctx : Ctx κ} {a b c : World κ} (h1 : CommitRel ctx a b) (h2 : CommitRel ctx b c) :
    CommitRel ctx a c := ⟨h2.1.trans h1.1, h1.2.trans h2.2⟩

/-- push: local cache untouched; the remote keeps every binding and stays consistent -/
def PushRel (ctx : Ctx κ) (w w' : World κ) : Prop :=
  w'.store = w.store ∧ Store.ext w.remote w'.remote ∧
    (Consistent ctx w.store → Consistent ctx w.remote → Consistent ctx w'.remote)

theorem PushRel.refl (ctx : Ctx κ) (w : World κ) : PushRel ctx w w := ⟨rfl, .refl _, fun _ h => h⟩
theorem PushRel.trans {ctx : Ctx κ} {a b c : World κ} (h1 : PushRel ctx a b) (h2 : PushRel ctx b c) :
    PushRel ctx a c :=
  ⟨h2.1.trans h1.1, h1.2.1.trans h2.2.1, fun hs hr => h2.2.2 (h1.1 ▸ hs) (h1.2.2 hs hr)⟩

/-- fetch: remote untouched; the local cache keeps every binding and stays consistent -/
def FetchRel (ctx : Ctx κ) (w w' : World κ) : Prop :=
  w'.remote = w.remote ∧ Store.ext w.store w'.store ∧
    (Consistent ctx w.remote → Consistent ctx w.store → Consistent ctx w'.store)

theorem FetchRel.refl (ctx : Ctx κ) (w : World κ) : FetchRel ctx w w := ⟨rfl, .refl _, fun _ h => h⟩
theorem FetchRel.trans {ctx : Ctx κ} {a b c : World κ} (h1 : FetchRel ctx a b) (h2 : FetchRel ctx b c) :
    FetchRel ctx a c :=
  ⟨h2.1.trans h1.1, h1.2.1.trans h2.2.1, fun hr hs => h2.2.2 (h1.1 ▸ hr) (h1.2.2 hr hs)⟩

theorem commitArtW_rel {cfg : Cfg κ} (hg : Good cfg.ctx) {strat : Strat} {a a' : Art} {w w' : World κ}
    (h : commitArtW cfg strat a w = .ok (a', w')) : CommitRel cfg.ctx w w' := by
  unfold commitArtW at h
  dsimp only at h
  split at h
  · cases h
  rename_i hc
  split at h
  · cases h
  simp only [Except.ok.injEq, Prod.mk.injEq] at h
  obtain ⟨_, rfl⟩ := h
  exact ⟨rfl, commitArt_step hg _ _ _ _ hc⟩

theorem commitArts_rel {cfg : Cfg κ} (hg : Good cfg.ctx) {strat : Strat} :
    ∀ (as : List Art) {as' : List Art} {w w' : World κ},
      commitArts cfg strat as w = .ok (as', w') → CommitRel cfg.ctx w w'
  | [], as', w, w', h => by
    simp only [commitArts, Except.ok.injEq, Prod.mk.injEq] at h
    obtain ⟨_, rfl⟩ := h
    exact .refl _ _
  | a :: r, as', w, w', h => by
    rw [commitArts] at h
    split at h
    · cases h
    rename_i h1
    split at h
    · cases h
    rename_i h2
    simp only [Except.ok.injEq, Prod.mk.injEq] at h
    obtain ⟨_, rfl⟩ := h
    exact (commitArtW_rel hg h1).trans (commitArts_rel hg r h2)

theorem commitAct_store {cfg : Cfg κ} (hg : Good cfg.ctx) (strat : Strat) (sp : Bytes) (w w' : World κ)
    (h : commitAct cfg strat sp w = .ok w') : CommitRel cfg.ctx w w' := by
  unfold commitAct at h
  split at h
  · cases h
  dsimp only at h
  split at h
  · cases h
  rename_i h1
  split at h
  · cases h
  rename_i h2
  simp only [Except.ok.injEq] at h
  subst h
  have h12 := (commitArts_rel hg _ h1).trans (commitArts_rel hg _ h2)
  exact h12

theorem checkoutArtW_same {cfg : Cfg κ} {strat : Strat} {a : Art} {w w' : World κ}
    (h : checkoutArtW cfg strat a w = .ok w') : SameCache w w' := by
  unfold checkoutArtW at h
  dsimp only at h
  repeat' split at h
  all_goals first | (cases h; done) | (simp only [Except.ok.injEq] at h; subst h; exact ⟨rfl, rfl⟩)

theorem checkoutArts_same {cfg : Cfg κ} {strat : Strat} : ∀ (as : List Art) {w w' : World κ},
    checkoutArts cfg strat as w = .ok w' → SameCache w w'
  | [], w, w', h => by simp only [checkoutArts, Except.ok.injEq] at h; subst h; exact .refl _
  | a :: r, w, w', h => by
    rw [checkoutArts] at h
    split at h
    · cases h
    rename_i h1
    exact (checkoutArtW_same h1).trans (checkoutArts_same r h)

/-- checkout reads the cache only -/
theorem checkoutAct_store (cfg : Cfg κ) (strat : Strat) (sp : Bytes) (w w' : World κ)
    (h : checkoutAct cfg strat sp w = .ok w') : w'.store = w.store ∧ w'.remote = w.remote := by
  unfold checkoutAct at h
  split at h
  · cases h
  split at h
  · cases h
  rename_i h1
  simp only [Except.ok.injEq] at h
  subst h
  have h2 := checkoutArts_same _ h1
  exact h2

/-- status reads the cache only -/
theorem statusAct_store [DecidableEq κ] (cfg : Cfg κ) (sp : Bytes) (w w' : World κ)
    (h : statusAct cfg sp w = .ok w') : w'.store = w.store ∧ w'.remote = w.remote := by
  unfold statusAct at h
  split at h
  · cases h
  dsimp only at h
  split at h
  · cases h
  simp only [Except.ok.injEq] at h
  subst h
  exact ⟨rfl, rfl⟩

/-- the stage command leaves both caches alone (hypothesis on the interpretation of commands) -/
def ExecFrame (exec : Exec κ) : Prop :=
  ∀ stg w w', exec stg w = .ok w' → w'.store = w.store ∧ w'.remote = w.remote

/-- run itself never writes the cache -/
theorem runAct_store [DecidableEq κ] (cfg : Cfg κ) (exec : Exec κ) (hexec : ExecFrame exec) (r : Bool)
    (sp : Bytes) (w w' : World κ) (h : runAct cfg exec r sp w = .ok w') :
    w'.store = w.store ∧ w'.remote = w.remote := by
  unfold runAct at h
  split at h
  · cases h
  dsimp only at h
  split at h
  · cases h
  split at h
  · cases h
  split at h
  · split at h
    · cases h
    rename_i he
    simp only [Except.ok.injEq] at h
    subst h
    have h2 := hexec _ _ _ he
    exact h2
  · simp only [Except.ok.injEq] at h
    subst h
    exact ⟨rfl, rfl⟩

theorem pushAct_store (cfg : Cfg κ) (sp : Bytes) (w w' : World κ) (h : pushAct cfg sp w = .ok w') :
    PushRel cfg.ctx w w' := by
  unfold pushAct at h
  split at h
  · cases h
  split at h
  · cases h
  split at h
  · cases h
  rename_i rem hc
  simp only [Except.ok.injEq] at h
  subst h
  exact ⟨rfl, (copyObjs_post _ _ _ _ hc).1, fun hs hr => copyObjs_consistent hc hs hr⟩

theorem fetchFix_consistent {ctx : Ctx κ} {remote loc loc' : Store κ} {fuel : Nat} {arts : List Child}
    (h : fetchFix ctx remote fuel loc arts = .ok loc') (hr : Consistent ctx remote) (hl : Consistent ctx loc) :
    Consistent ctx loc' := by
  intro d o ho
  rcases (fetchFix_ext ctx remote fuel loc arts loc' h).2 d o ho with h | h
  · exact hl d o h
  · exact hr d o h

theorem fetchAct_store (cfg : Cfg κ) (sp : Bytes) (w w' : World κ) (h : fetchAct cfg sp w = .ok w') :
    FetchRel cfg.ctx w w' := by
  unfold fetchAct at h
  split at h
  · cases h
  dsimp only at h
  split at h
  · cases h
  rename_i loc hf
  simp only [Except.ok.injEq] at h
  subst h
  exact ⟨rfl, (fetchFix_ext _ _ _ _ _ _ hf).1, fun hr hl => fetchFix_consistent hf hr hl⟩

/-! ## 3. lifting through the traversal -/

theorem visitAll_keeps {σ : Type} (P : σ → Prop) {f : Bytes → σ → Except Err σ}
    (hf : ∀ o st st', P st → f o st = .ok st' → P st') :
    ∀ (os : List Bytes) (st st' : σ), P st → visitAll f os st = .ok st' → P st'
  | [], st, st', hp, h => by
    simp only [visitAll, Except.ok.injEq] at h
    exact h ▸ hp
  | o :: os, st, st', hp, h => by
    rw [visitAll] at h
    split at h
    · cases h
    · rename_i st1 h1
      exact visitAll_keeps P hf os st1 st' (hf o st st1 hp h1) h

/-- an invariant of the stage action is an invariant of the whole traversal -/
theorem visit_keeps {σ : Type} (T : Trav σ) (r : Bool) (P : σ → Prop)
    (hact : ∀ sp st st', P st → T.act sp st = .ok st' → P st') :
    ∀ (fuel : Nat) (avail : List Bytes) (sp : Bytes) (st st' : σ),
      P st → visit T r fuel avail sp st = .ok st' → P st' := by
  intro fuel
  induction fuel with
  | zero => intro _ _ _ _ _ h; simp [visit] at h
  | succ fuel ih =>
    intro avail sp st st' hp h
    rw [visit] at h
    split at h
    · simp only [Except.ok.injEq] at h; exact h ▸ hp
    split at h
    · cases h
    split at h
    · cases h
    rename_i os ho
    dsimp only at h
    split at h
    · cases h
    rename_i st1 h1
    refine hact sp st1 st' ?_ h
    split at h1
    · exact visitAll_keeps P (fun o a b => ih _ o a b) os st st1 hp h1
    · simp only [Except.ok.injEq] at h1; exact h1 ▸ hp

/-- relational version: a preorder containing every successful stage action contains the traversal -/
theorem visit_rel {σ : Type} (T : Trav σ) (r : Bool) (R : σ → σ → Prop) (hrefl : ∀ a, R a a)
    (htrans : ∀ a b c, R a b → R b c → R a c) (hact : ∀ sp st st', T.act sp st = .ok st' → R st st')
    (fuel : Nat) (avail : List Bytes) (sp : Bytes) (st st' : σ)
    (h : visit T r fuel avail sp st = .ok st') : R st st' :=
  visit_keeps T r (R st) (fun sp a b ha hb => htrans _ _ _ ha (hact sp a b hb)) fuel avail sp st st' (hrefl st) h

theorem perTarget_keeps (P : World κ → Prop) {f : Bytes → World κ → Except Err (World κ)}
    (hf : ∀ t w w', P w → f t w = .ok w' → P w') :
    ∀ (ts : List Bytes) (w w' : World κ), P w → perTarget f ts w = .ok w' → P w'
  | [], w, w', hp, h => by
    simp only [perTarget, Except.ok.injEq] at h
    exact h ▸ hp
  | t :: r, w, w', hp, h => by
    rw [perTarget] at h
    split at h
    · cases h
    split at h
    · cases h
    rename_i w1 h1
    exact perTarget_keeps P hf r w1 w' (hf t w w1 hp h1) h

theorem perTarget_rel (R : World κ → World κ → Prop) (hrefl : ∀ a, R a a)
    (htrans : ∀ a b c, R a b → R b c → R a c) {f : Bytes → World κ → Except Err (World κ)}
    (hf : ∀ t w w', f t w = .ok w' → R w w') (ts : List Bytes) (w w' : World κ)
    (h : perTarget f ts w = .ok w') : R w w' :=
  perTarget_keeps (R w) (fun t a b ha hb => htrans _ _ _ ha (hf t a b hb)) ts w w' (hrefl w) h

/-- one traversal per target, each with its own fuel and `avail` computed from the current world -/
theorem perTarget_visit_rel (R : World κ → World κ → Prop) (hrefl : ∀ a, R a a)
    (htrans : ∀ a b c, R a b → R b c → R a c) (T : Trav (World κ))
    (hact : ∀ sp st st', T.act sp st = .ok st' → R st st') (r : Bool)
    (fuelOf : World κ → Nat) (availOf : World κ → List Bytes) (ts : List Bytes) (w w' : World κ)
    (h : perTarget (fun t w => visit T r (fuelOf w) (availOf w) t w) ts w = .ok w') : R w w' :=
  perTarget_rel R hrefl htrans (fun t a b hb => visit_rel T r R hrefl htrans hact _ _ t a b hb) ts w w' h

/-! ### the six commands -/

theorem cmdCommit_rel {cfg : Cfg κ} (hg : Good cfg.ctx) (strat : Strat) (targets : List Bytes) (w w' : World κ)
    (h : cmdCommit cfg strat targets w = .ok w') : CommitRel cfg.ctx w w' := by
  have key : ∀ ts : List Bytes,
      (if ts.isEmpty then (.error .invalid : Except Err (World κ))
       else perTarget (fun t w => visit (commitTrav cfg strat) true (w.idx.length + 1) (allStages w) t w) ts (fresh w))
        = .ok w' → CommitRel cfg.ctx w w' := by
    intro ts h
    split at h
    · cases h
    exact perTarget_visit_rel (CommitRel cfg.ctx) (.refl _) (fun _ _ _ => .trans) (commitTrav cfg strat)
      (commitAct_store hg strat) true _ _ _ (fresh w) w' h
  exact key _ h

theorem cmdCheckout_rel (cfg : Cfg κ) (strat : Strat) (single : Bool) (targets : List Bytes) (w w' : World κ)
    (h : cmdCheckout cfg strat single targets w = .ok w') : SameCache w w' := by
  unfold cmdCheckout at h
  split at h
  · cases h
  exact perTarget_visit_rel SameCache .refl (fun _ _ _ => .trans) (checkoutTrav cfg strat)
    (checkoutAct_store cfg strat) _ _ _ _ (fresh w) w' h

theorem cmdStatus_rel [DecidableEq κ] (cfg : Cfg κ) (targets : List Bytes) (w w' : World κ)
    (h : cmdStatus cfg targets w = .ok w') : SameCache w w' := by
  unfold cmdStatus at h
  split at h
  · cases h
  exact perTarget_visit_rel SameCache .refl (fun _ _ _ => .trans) (statusTrav cfg)
    (statusAct_store cfg) _ _ _ _ (fresh w) w' h

theorem cmdRun_rel [DecidableEq κ] (cfg : Cfg κ) (exec : Exec κ) (hexec : ExecFrame exec) (single : Bool)
    (targets : List Bytes) (w w' : World κ) (h : cmdRun cfg exec single targets w = .ok w') : SameCache w w' := by
  unfold cmdRun at h
  split at h
  · cases h
  exact perTarget_visit_rel SameCache .refl (fun _ _ _ => .trans) (runTrav cfg exec (!single))
    (runAct_store cfg exec hexec (!single)) _ _ _ _ (fresh w) w' h

theorem cmdPush_rel (cfg : Cfg κ) (single : Bool) (targets : List Bytes) (w w' : World κ)
    (h : cmdPush cfg single targets w = .ok w') : PushRel cfg.ctx w w' := by
  unfold cmdPush at h
  split at h
  · cases h
  exact perTarget_visit_rel (PushRel cfg.ctx) (.refl _) (fun _ _ _ => .trans) (simpleTrav cfg (pushAct cfg))
    (pushAct_store cfg) _ _ _ _ (fresh w) w' h

theorem cmdFetch_rel (cfg : Cfg κ) (single : Bool) (targets : List Bytes) (w w' : World κ)
    (h : cmdFetch cfg single targets w = .ok w') : FetchRel cfg.ctx w w' := by
  unfold cmdFetch at h
  exact perTarget_visit_rel (FetchRel cfg.ctx) (.refl _) (fun _ _ _ => .trans) (simpleTrav cfg (fetchAct cfg))
    (fetchAct_store cfg) _ _ _ _ (fresh w) w' h

/-- both caches are content-addressed -/
def CacheWF (ctx : Ctx κ) (w : World κ) : Prop := Consistent ctx w.store ∧ Consistent ctx w.remote

/-- nothing was lost from either cache -/
def CacheLe (ctx : Ctx κ) (w w' : World κ) : Prop :=
  Store.le ctx w.store w'.store ∧ Store.le ctx w.remote w'.remote

theorem CacheLe.refl (ctx : Ctx κ) (w : World κ) : CacheLe ctx w w := ⟨.refl _ _, .refl _ _⟩
theorem CacheLe.trans {ctx : Ctx κ} {a b c : World κ} (h1 : CacheLe ctx a b) (h2 : CacheLe ctx b c) :
    CacheLe ctx a c := ⟨h1.1.trans h2.1, h1.2.trans h2.2⟩

theorem SameCache.cache {ctx : Ctx κ} {w w' : World κ} (h : SameCache w w') (hw : CacheWF ctx w) :
    CacheWF ctx w' ∧ CacheLe ctx w w' := by
  obtain ⟨h1, h2⟩ := h
  refine ⟨⟨h1 ▸ hw.1, h2 ▸ hw.2⟩, ?_, ?_⟩
  · rw [h1]; exact .refl _ _
  · rw [h2]; exact .refl _ _

/-- `dud commit`: local cache stays content-addressed and only grows; the remote is not touched -/
theorem cmdCommit_cache {cfg : Cfg κ} (hg : Good cfg.ctx) (strat : Strat) (targets : List Bytes) (w w' : World κ)
    (h : cmdCommit cfg strat targets w = .ok w') (hw : CacheWF cfg.ctx w) :
    CacheWF cfg.ctx w' ∧ CacheLe cfg.ctx w w' ∧ w'.remote = w.remote := by
  obtain ⟨h1, h2⟩ := cmdCommit_rel hg strat targets w w' h
  obtain ⟨c, l⟩ := h2 hw.1
  refine ⟨⟨c, h1 ▸ hw.2⟩, ⟨l, ?_⟩, h1⟩
  rw [h1]; exact .refl _ _

theorem cmdCheckout_cache (cfg : Cfg κ) (strat : Strat) (single : Bool) (targets : List Bytes) (w w' : World κ)
    (h : cmdCheckout cfg strat single targets w = .ok w') (hw : CacheWF cfg.ctx w) :
    CacheWF cfg.ctx w' ∧ CacheLe cfg.ctx w w' ∧ w'.store = w.store ∧ w'.remote = w.remote :=
  have hs := cmdCheckout_rel cfg strat single targets w w' h
  ⟨(hs.cache hw).1, (hs.cache hw).2, hs⟩

theorem cmdStatus_cache [DecidableEq κ] (cfg : Cfg κ) (targets : List Bytes) (w w' : World κ)
    (h : cmdStatus cfg targets w = .ok w') (hw : CacheWF cfg.ctx w) :
    CacheWF cfg.ctx w' ∧ CacheLe cfg.ctx w w' ∧ w'.store = w.store ∧ w'.remote = w.remote :=
  have hs := cmdStatus_rel cfg targets w w' h
  ⟨(hs.cache hw).1, (hs.cache hw).2, hs⟩

theorem cmdRun_cache [DecidableEq κ] (cfg : Cfg κ) (exec : Exec κ) (hexec : ExecFrame exec) (single : Bool)
    (targets : List Bytes) (w w' : World κ) (h : cmdRun cfg exec single targets w = .ok w')
    (hw : CacheWF cfg.ctx w) :
    CacheWF cfg.ctx w' ∧ CacheLe cfg.ctx w w' ∧ w'.store = w.store ∧ w'.remote = w.remote :=
  have hs := cmdRun_rel cfg exec hexec single targets w w' h
  ⟨(hs.cache hw).1, (hs.cache hw).2, hs⟩

/-- `dud push`: the local cache is not touched; the remote keeps every object verbatim -/
theorem cmdPush_cache (cfg : Cfg κ) (single : Bool) (targets : List Bytes) (w w' : World κ)
    (h : cmdPush cfg single targets w = .ok w') (hw : CacheWF cfg.ctx w) :
    CacheWF cfg.ctx w' ∧ CacheLe cfg.ctx w w' ∧ w'.store = w.store ∧
      (∀ d o, w.remote.get d = some o → w'.remote.get d = some o) := by
  obtain ⟨h1, h2, h3⟩ := cmdPush_rel cfg single targets w w' h
  refine ⟨⟨h1 ▸ hw.1, h3 hw.1 hw.2⟩, ⟨?_, h2.le _⟩, h1, h2⟩
  rw [h1]; exact .refl _ _

/-- `dud fetch`: the remote is not touched; the local cache keeps every object verbatim -/
theorem cmdFetch_cache (cfg : Cfg κ) (single : Bool) (targets : List Bytes) (w w' : World κ)
    (h : cmdFetch cfg single targets w = .ok w') (hw : CacheWF cfg.ctx w) :
    CacheWF cfg.ctx w' ∧ CacheLe cfg.ctx w w' ∧ w'.remote = w.remote ∧
      (∀ d o, w.store.get d = some o → w'.store.get d = some o) := by
  obtain ⟨h1, h2, h3⟩ := cmdFetch_rel cfg single targets w w' h
  refine ⟨⟨h3 hw.2 hw.1, h1 ▸ hw.2⟩, ⟨h2.le _, ?_⟩, h1, h2⟩
  rw [h1]; exact .refl _ _

/-! ## 4. histories -/

inductive Cmd where
  | commit (strat : Strat) (targets : List Bytes)
  | checkout (strat : Strat) (single : Bool) (targets : List Bytes)
  | status (targets : List Bytes)
  | run (single : Bool) (targets : List Bytes)
  | push (single : Bool) (targets : List Bytes)
  | fetch (single : Bool) (targets : List Bytes)
deriving Repr

def Cmd.apply [DecidableEq κ] (cfg : Cfg κ) (exec : Exec κ) : Cmd → World κ → Except Err (World κ)
  | .commit strat ts, w => cmdCommit cfg strat ts w
  | .checkout strat single ts, w => cmdCheckout cfg strat single ts w
  | .status ts, w => cmdStatus cfg ts w
  | .run single ts, w => cmdRun cfg exec single ts w
  | .push single ts, w => cmdPush cfg single ts w
  | .fetch single ts, w => cmdFetch cfg single ts w

/-- a history: every command must succeed -/
def Cmd.applyAll [DecidableEq κ] (cfg : Cfg κ) (exec : Exec κ) : List Cmd → World κ → Except Err (World κ)
  | [], w => .ok w
  | c :: r, w => match c.apply cfg exec w with
    | .error e => .error e
    | .ok w' => Cmd.applyAll cfg exec r w'

theorem Cmd.apply_cache [DecidableEq κ] {cfg : Cfg κ} (hg : Good cfg.ctx) (exec : Exec κ) (hexec : ExecFrame exec)
    (c : Cmd) (w w' : World κ) (h : c.apply cfg exec w = .ok w') (hw : CacheWF cfg.ctx w) :
    CacheWF cfg.ctx w' ∧ CacheLe cfg.ctx w w' := by
  cases c with
  | commit strat ts => exact ⟨(cmdCommit_cache hg strat ts w w' h hw).1, (cmdCommit_cache hg strat ts w w' h hw).2.1⟩
  | checkout strat single ts =>
    exact ⟨(cmdCheckout_cache cfg strat single ts w w' h hw).1, (cmdCheckout_cache cfg strat single ts w w' h hw).2.1⟩
  | status ts => exact ⟨(cmdStatus_cache cfg ts w w' h hw).1, (cmdStatus_cache cfg ts w w' h hw).2.1⟩
  | run single ts =>
    exact ⟨(cmdRun_cache cfg exec hexec single ts w w' h hw).1, (cmdRun_cache cfg exec hexec single ts w w' h hw).2.1⟩
  | push single ts => exact ⟨(cmdPush_cache cfg single ts w w' h hw).1, (cmdPush_cache cfg single ts w w' h hw).2.1⟩
  | fetch single ts => exact ⟨(cmdFetch_cache cfg single ts w w' h hw).1, (cmdFetch_cache cfg single ts w w' h hw).2.1⟩

/-- **append-only over whole histories**: after any sequence of successful commands both caches are
still content-addressed and hold, under every name they ever held, the same bytes -/
theorem history_preserves_cacheWF [DecidableEq κ] {cfg : Cfg κ} (hg : Good cfg.ctx) (exec : Exec κ)
    (hexec : ExecFrame exec) : ∀ (cs : List Cmd) (w w' : World κ),
      Cmd.applyAll cfg exec cs w = .ok w' → CacheWF cfg.ctx w → CacheWF cfg.ctx w' ∧ CacheLe cfg.ctx w w' := by
  intro cs
  induction cs with
  | nil =>
    intro w w' h hw
    simp only [Cmd.applyAll, Except.ok.injEq] at h
    subst h
    exact ⟨hw, .refl _ _⟩
  | cons c r ih =>
    intro w w' h hw
    rw [Cmd.applyAll] at h
    split at h
    · cases h
    rename_i w1 h1
    obtain ⟨a1, a2⟩ := Cmd.apply_cache hg exec hexec c w w1 h1 hw
    obtain ⟨b1, b2⟩ := ih w1 w' h a1
    exact ⟨b1, a2.trans b2⟩

/-- in particular a freshly initialised project (both caches empty) never leaves the invariant -/
theorem history_from_empty [DecidableEq κ] {cfg : Cfg κ} (hg : Good cfg.ctx) (exec : Exec κ)
    (hexec : ExecFrame exec) (cs : List Cmd) (w w' : World κ) (hs : w.store = []) (hr : w.remote = [])
    (h : Cmd.applyAll cfg exec cs w = .ok w') : CacheWF cfg.ctx w' :=
  (history_preserves_cacheWF hg exec hexec cs w w' h ⟨hs ▸ Consistent.nil _, hr ▸ Consistent.nil _⟩).1

/-! ## 5. regenerated facts -/

theorem cache_layout_facts :
    Dud.Facts.cacheFilePerms = 0o444 ∧ Dud.Facts.pathSplitHead = 2 ∧ Dud.Facts.pathSplitTail = 2 ∧
    Dud.Facts.minChecksumLen = 3 ∧
    Dud.Facts.commitBytesOrder =
      ["os.CreateTemp", "os.Remove", "checksum.Checksum", "os.MkdirAll", "os.Rename", "os.Chmod"] ∧
    -- the temp file is created in the cache's own directory; what is renamed is the caller's file or that temp file, the
    -- target (and what is made read-only) derives from PathForChecksum applied to the result of checksum.Checksum
    -- ("derives from": flow-insensitive, looking through same-package helpers; tools/factgen/deep.go)
    Dud.Facts.commitTempDir = "$recv,field:dir" ∧
    Dud.Facts.commitRenameArgs =
      "src:$param1,$recv,call:os.CreateTemp;dst:$recv,call:PathForChecksum,call:checksum.Checksum,call:os.CreateTemp" ∧
    Dud.Facts.commitChmodArgs = "$recv,call:PathForChecksum,call:checksum.Checksum,call:os.CreateTemp;cacheFilePerms" := by decide

/-! ## non-vacuity -/

/-! A context satisfying `Good` (so the theorems above are not vacuous): hash = `"abc" ++ bytes`
(injective, length ≥ 3); the toy codec keeps only the number of entries of a manifest (`reload`
forgets everything else), which is all `Good.dec` asks for. -/
namespace ToyGood

def ctx : Ctx String :=
  { H := fun c => "abc" ++ c
    encMan := fun _ _ cs => String.ofList (List.replicate cs.length 'm')
    decBlob := fun c => some (List.replicate c.length default)
    reload := fun _ _ => default
    nameOK := fun _ => true }

theorem good : Good ctx where
  inj a b h := (String.append_right_inj "abc").1 h
  len a := by
    show 3 ≤ ("abc" ++ a).length
    rw [String.length_append]
    exact Nat.le_add_right 3 _
  dec sch p cs := by
    show some (List.replicate (String.ofList (List.replicate cs.length 'm')).length default)
      = some (cs.map fun _ => default)
    rw [String.length_ofList, List.length_replicate, List.map_const']

def cfg : Cfg String :=
  { ctx := ctx, ofBytes := fun _ => "", toBytes := fun _ => [], walkAccumulates := false, fuel := 5 }
def exec : Exec String := fun _ w => .ok w
theorem exec_frame : ExecFrame exec := by
  intro stg w w' h
  simp only [exec, Except.ok.injEq] at h
  subst h
  exact ⟨rfl, rfl⟩

def w0 : World String :=
  { ws := .dir [([100], .file "data")], idx := [([1], { cmd := [1], outputs := [{ path := [100] }] })] }

def hist : List Cmd :=
  [.commit .copy [], .push false [], .status [], .run false [], .fetch false [], .commit .link [],
   .checkout .link false []]

/-- a history using all six commands succeeds from the empty caches and ends content-addressed -/
example : ∃ w', Cmd.applyAll cfg exec hist w0 = .ok w' ∧ CacheWF ctx w' ∧ w'.store.has "abcdata" = true ∧
    w'.remote.has "abcdata" = true := by
  obtain ⟨w', hw, h1, h2⟩ : ∃ w', Cmd.applyAll cfg exec hist w0 = .ok w' ∧ w'.store.has "abcdata" = true ∧
      w'.remote.has "abcdata" = true := ⟨_, rfl, rfl, rfl⟩
  exact ⟨w', hw, history_from_empty (cfg := cfg) good exec exec_frame hist w0 w' rfl rfl hw, h1, h2⟩

def s0 : Store String := [("abcx", .blob "x")]
def tree : Node String := .dir [([2], .file "x"), ([3], .dir [([4], .file "x")])]

/-- a directory commit over a cache that already holds one of the objects (the `put` replaces an
existing binding): the premises of `commitArt_store` are satisfiable and the conclusion applies -/
example : ∃ n d s', commitArt ctx .link { path := [1], isDir := true } (some tree) s0 = .ok (n, d, s') ∧
      Consistent ctx s' ∧ Store.le ctx s0 s' := by
  obtain ⟨r, hr⟩ : ∃ r, commitArt ctx .link { path := [1], isDir := true } (some tree) s0 = .ok r := ⟨_, rfl⟩
  obtain ⟨n, d, s'⟩ := r
  have hc : Consistent ctx s0 := (Consistent.nil ctx).put (d := "abcx") (o := .blob "x") rfl
  exact ⟨n, d, s', hr, commitArt_store good .link _ _ _ hr hc⟩

end ToyGood

/-- `Good.inj` is needed: with a colliding hash a commit replaces the bytes stored under a name -/
example : ∃ (ctx : Ctx String) (s s' : Store String) (n : Node String) (d : Digest),
    Consistent ctx s ∧ commitFile ctx .copy false (some (.file "y")) "" s = .ok (n, d, s') ∧ ¬ Store.le ctx s s' := by
  refine ⟨{ ToyGood.ctx with H := fun _ => "abc" }, [("abc", .blob "x")], _, _, _, ?_, rfl, ?_⟩
  · exact (Consistent.nil _).put (d := "abc") (o := .blob "x") rfl
  · intro h
    obtain ⟨o', h1, h2⟩ := h "abc" (.blob "x") rfl
    have : o' = .blob "y" := by
      have h3 : some (Obj.blob "y") = some o' := h1
      injection h3 with h3
      exact h3.symm
    subst this
    exact absurd h2 (by decide)

/-- the hypothesis `Consistent ctx w.remote` of `fetchAct_store` / `cmdFetch_cache` is needed: fetch
does not hash what it downloads, so a remote holding other bytes under a name puts them, under that
name, into a (previously consistent, here empty) local cache -/
example : ∃ loc', fetchFix ToyGood.ctx [("abcx", .blob "y")] 5 [] [⟨[], "abcx", false⟩] = .ok loc' ∧
    ¬ Consistent ToyGood.ctx loc' := by
  refine ⟨[("abcx", .blob "y")], rfl, ?_⟩
  intro h
  exact absurd (h "abcx" (.blob "y") rfl) (by decide)

/-! ## axioms -/

#print axioms commitFile_cases
#print axioms commitFile_store
#print axioms commitNode_step
#print axioms commitEntries_step
#print axioms commitNode_store
#print axioms commitEntries_store
#print axioms commitArt_step
#print axioms commitArt_store
#print axioms commitArtW_rel
#print axioms commitArts_rel
#print axioms commitAct_store
#print axioms checkoutAct_store
#print axioms statusAct_store
#print axioms runAct_store
#print axioms pushAct_store
#print axioms fetchFix_consistent
#print axioms fetchAct_store
#print axioms visitAll_keeps
#print axioms visit_keeps
#print axioms visit_rel
#print axioms perTarget_keeps
#print axioms perTarget_rel
#print axioms perTarget_visit_rel
#print axioms cmdCommit_rel
#print axioms cmdCheckout_rel
#print axioms cmdStatus_rel
#print axioms cmdRun_rel
#print axioms cmdPush_rel
#print axioms cmdFetch_rel
#print axioms cmdCommit_cache
#print axioms cmdCheckout_cache
#print axioms cmdStatus_cache
#print axioms cmdRun_cache
#print axioms cmdPush_cache
#print axioms cmdFetch_cache
#print axioms Cmd.apply_cache
#print axioms history_preserves_cacheWF
#print axioms history_from_empty
#print axioms ToyGood.good
#print axioms cache_layout_facts

end Dud
