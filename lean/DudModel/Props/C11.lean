import DudModel.Lemmas.Remote
import DudModel.Generated.Facts
/-!
# C11 — push then fetch transfers everything checkout needs

* `gather` (Go `gatherFilesToPush`) returns exactly the reachable closure (`Reaches`) of the artifact
  on top of the accumulator, and fails when any reachable object is absent (insufficient fuel is an
  error too, so no fuel hypothesis is needed);
* `copyObjs` (the `rclone copy --files-from` stand-in) makes every listed object present, keeps every
  binding of the destination and takes new ones from the source;
* `pushAct`: after a successful push the remote holds the closure of every non-skipped output;
* `fetchFix` (Go `LocalCache.Fetch`, whose next level is keyed by **checksum**): the closure of every
  requested entry is present afterwards **provided no checksum is listed both as a file and as a
  directory** (`KindsAgree`); `fetch_skips_children` shows the hypothesis cannot be dropped.
-/
namespace Dud

variable {κ : Type}

/-! ## 1. gather -/

theorem gather_closure (ctx : Ctx κ) (s : Store κ) (fuel : Nat) (c : Child) (acc acc' : List Digest)
    (h : gather ctx s fuel c acc = .ok acc') :
    (∀ d, d ∈ acc → d ∈ acc') ∧ (∀ d, Reaches ctx s c d → d ∈ acc') ∧
      (∀ d, d ∈ acc' → d ∈ acc ∨ (Reaches ctx s c d ∧ s.has d = true)) := by
  obtain ⟨a1, a2, a3⟩ := gather_post ctx s fuel c acc acc' h
  exact ⟨a1, fun d hr => (a2 d hr).1, a3⟩

/-- a successful gather has seen every reachable object in the store -/
theorem gather_present (ctx : Ctx κ) (s : Store κ) (fuel : Nat) (c : Child) (acc acc' : List Digest)
    (h : gather ctx s fuel c acc = .ok acc') : ∀ d, Reaches ctx s c d → s.has d = true :=
  fun d hr => ((gather_post ctx s fuel c acc acc' h).2.1 d hr).2

/-- push fails rather than succeed when a reachable object is missing locally -/
theorem gather_missing_fails (ctx : Ctx κ) (s : Store κ) (fuel : Nat) (c : Child) (acc : List Digest)
    (d : Digest) (hr : Reaches ctx s c d) (hm : s.has d = false) :
    ∀ acc', gather ctx s fuel c acc ≠ .ok acc' := by
  intro acc' h
  rw [gather_present ctx s fuel c acc acc' h d hr] at hm
  cases hm

/-- from an empty accumulator: the result is exactly the closure, all of it present -/
theorem gather_exact (ctx : Ctx κ) (s : Store κ) (fuel : Nat) (c : Child) (acc' : List Digest)
    (h : gather ctx s fuel c [] = .ok acc') : ∀ d, d ∈ acc' ↔ Reaches ctx s c d := by
  obtain ⟨_, a2, a3⟩ := gather_post ctx s fuel c [] acc' h
  intro d
  constructor
  · intro hd
    rcases a3 d hd with h | h
    · cases h
    · exact h.1
  · exact fun hr => (a2 d hr).1

/-! ## 2. copyObjs -/

theorem copyObjs_spec (src dst dst' : Store κ) (ds : List Digest) (h : copyObjs src dst ds = .ok dst') :
    (∀ d, d ∈ ds → dst'.has d = true) ∧
    (∀ d o, dst.get d = some o → dst'.get d = some o) ∧
    (∀ d o, dst'.get d = some o → dst.get d = some o ∨ src.get d = some o) := by
  obtain ⟨a1, a2, a3⟩ := copyObjs_post src ds dst dst' h
  refine ⟨fun d hd => (a2 d hd).1, a1, ?_⟩
  intro d o ho
  rcases a3 d o ho with h | ⟨_, _, h⟩
  · exact .inl h
  · exact .inr h

/-- sharper provenance: a new binding is for a listed digest the destination lacked -/
theorem copyObjs_new (src dst dst' : Store κ) (ds : List Digest) (h : copyObjs src dst ds = .ok dst') :
    ∀ d o, dst'.get d = some o → dst.get d = some o ∨ (d ∈ ds ∧ dst.has d = false ∧ src.get d = some o) :=
  (copyObjs_post src ds dst dst' h).2.2

/-! ## 3. push -/

theorem mem_insertArt_self (a : Art) : ∀ l : List Art, a ∈ insertArt a l
  | [] => by simp [insertArt]
  | x :: xs => by
    rw [insertArt]
    split
    · exact List.mem_cons_self
    · split
      · exact List.mem_cons_self
      · exact List.mem_cons_of_mem _ (mem_insertArt_self a xs)

theorem mem_insertArt_of_mem {a b : Art} (hne : b.path ≠ a.path) : ∀ l : List Art, a ∈ l → a ∈ insertArt b l
  | [], h => by cases h
  | x :: xs, h => by
    rw [insertArt]
    split
    · rename_i he
      have he : b.path = x.path := by simpa using he
      rcases List.mem_cons.1 h with rfl | h
      · exact absurd he hne
      · exact List.mem_cons_of_mem _ h
    · split
      · exact List.mem_cons_of_mem _ h
      · rcases List.mem_cons.1 h with rfl | h
        · exact List.mem_cons_self
        · exact List.mem_cons_of_mem _ (mem_insertArt_of_mem hne xs h)

/-- an artifact whose path is unique in the list survives `sortArts` (Go: the outputs are a map
keyed by path, so paths are unique) -/
theorem mem_sortArts {a : Art} : ∀ l : List Art, a ∈ l → (∀ b, b ∈ l → b.path = a.path → b = a) → a ∈ sortArts l
  | [], h, _ => by cases h
  | x :: xs, h, hu => by
    show a ∈ insertArt x (sortArts xs)
    by_cases hp : x.path = a.path
    · rw [hu x List.mem_cons_self hp]; exact mem_insertArt_self _ _
    · rcases List.mem_cons.1 h with rfl | h
      · exact absurd rfl hp
      · exact mem_insertArt_of_mem hp _ (mem_sortArts xs h (fun b hb => hu b (List.mem_cons_of_mem _ hb)))

theorem push_closure (cfg : Cfg κ) (sp : Bytes) (w w' : World κ) (stg : Stage)
    (hs : w.stage sp = .ok stg) (h : pushAct cfg sp w = .ok w') :
    w'.store = w.store ∧
    ∀ a, a ∈ sortArts stg.outputs → a.skip = false → ∀ d, Reaches cfg.ctx w.store a.child d →
      w'.remote.has d = true ∧ w.store.has d = true := by
  unfold pushAct at h
  rw [hs] at h
  dsimp only at h
  split at h
  · cases h
  rename_i ds hg
  split at h
  · cases h
  rename_i rem hc
  simp only [Except.ok.injEq] at h
  subst h
  refine ⟨rfl, ?_⟩
  intro a ha hsk d hr
  obtain ⟨_, g2, _⟩ := gatherArts_post cfg w.store _ [] ds hg
  obtain ⟨hmem, hhas⟩ := g2 d ⟨a, ha, hsk, hr⟩
  exact ⟨((copyObjs_post w.store ds w.remote rem hc).2.1 d hmem).1, hhas⟩

/-- the same for the outputs as listed in the stage, when their paths are pairwise distinct -/
theorem push_closure_outputs (cfg : Cfg κ) (sp : Bytes) (w w' : World κ) (stg : Stage)
    (hs : w.stage sp = .ok stg) (h : pushAct cfg sp w = .ok w')
    (huniq : ∀ a b, a ∈ stg.outputs → b ∈ stg.outputs → b.path = a.path → b = a) :
    ∀ a, a ∈ stg.outputs → a.skip = false → ∀ d, Reaches cfg.ctx w.store a.child d → w'.remote.has d = true :=
  fun a ha hsk d hr =>
    ((push_closure cfg sp w w' stg hs h).2 a (mem_sortArts _ ha (fun b hb => huniq a b ha hb)) hsk d hr).1

/-- what the remote holds for a pushed digest has the bytes of the local object (consistent caches,
injective hash): push does not overwrite, so an object already on the remote stays -/
theorem push_closure_bytes {cfg : Cfg κ} (hg : Good cfg.ctx) (sp : Bytes) (w w' : World κ) (stg : Stage)
    (hs : w.stage sp = .ok stg) (h : pushAct cfg sp w = .ok w')
    (hcs : Consistent cfg.ctx w.store) (hcr : Consistent cfg.ctx w.remote) :
    ∀ a, a ∈ sortArts stg.outputs → a.skip = false → ∀ d, Reaches cfg.ctx w.store a.child d →
      ∃ o o', w.store.get d = some o ∧ w'.remote.get d = some o' ∧ o'.bytes cfg.ctx = o.bytes cfg.ctx := by
  intro a ha hsk d hr
  obtain ⟨h1, h2⟩ := (push_closure cfg sp w w' stg hs h).2 a ha hsk d hr
  obtain ⟨o, ho⟩ := Store.has_eq_true.1 h2
  obtain ⟨o', ho'⟩ := Store.has_eq_true.1 h1
  refine ⟨o, o', ho, ho', ?_⟩
  have hcr' : Consistent cfg.ctx w'.remote := by
    unfold pushAct at h
    rw [hs] at h
    dsimp only at h
    split at h
    · cases h
    split at h
    · cases h
    rename_i rem hc
    simp only [Except.ok.injEq] at h
    subst h
    exact copyObjs_consistent hc hcs hcr
  exact hg.inj _ _ ((hcr' d o' ho').trans (hcs d o ho).symm)

/-! ## 4. fetch -/

/-- **Closure of fetch, partial**: needs `KindsAgree` on the entries of the manifests readable from
the resulting cache (the weakest formulation: every level's next-level map is built from such
entries). -/
theorem fetch_closure_partial (ctx : Ctx κ) (remote : Store κ) (fuel : Nat) (loc loc' : Store κ)
    (arts : List Child) (h : fetchFix ctx remote fuel loc arts = .ok loc')
    (hk : KindsAgree (Occurs ctx loc')) :
    ∀ a, a ∈ arts → ∀ d, Reaches ctx loc' a d → loc'.has d = true :=
  fetchFix_closed ctx remote fuel loc arts loc' h hk

/-- the same under a hypothesis on the inputs only: among the entries of all manifests readable from
the remote or from the cache before the fetch, equal checksums have equal kinds -/
theorem fetch_closure_global_partial (ctx : Ctx κ) (remote : Store κ) (fuel : Nat) (loc loc' : Store κ)
    (arts : List Child) (h : fetchFix ctx remote fuel loc arts = .ok loc')
    (hk : KindsAgree (fun c => Occurs ctx loc c ∨ Occurs ctx remote c)) :
    ∀ a, a ∈ arts → ∀ d, Reaches ctx loc' a d → loc'.has d = true := by
  refine fetchFix_closed ctx remote fuel loc arts loc' h ?_
  have hp := (fetchFix_ext ctx remote fuel loc arts loc' h).2
  intro c1 c2 h1 h2
  exact hk c1 c2 (Occurs.of_prov hp h1) (Occurs.of_prov hp h2)

/-- fetch only adds bindings, each taken verbatim from the remote -/
theorem fetch_mono (ctx : Ctx κ) (remote : Store κ) (fuel : Nat) (loc loc' : Store κ)
    (arts : List Child) (h : fetchFix ctx remote fuel loc arts = .ok loc') :
    (∀ d o, loc.get d = some o → loc'.get d = some o) ∧
      ∀ d o, loc'.get d = some o → loc.get d = some o ∨ remote.get d = some o :=
  fetchFix_ext ctx remote fuel loc arts loc' h

/-- stage level: after a successful `fetchAct` the closure of every non-skipped output is in the
local cache, under `KindsAgree` -/
theorem fetchAct_closure_partial (cfg : Cfg κ) (sp : Bytes) (w w' : World κ) (stg : Stage)
    (hs : w.stage sp = .ok stg) (h : fetchAct cfg sp w = .ok w')
    (hk : KindsAgree (Occurs cfg.ctx w'.store)) :
    w'.remote = w.remote ∧
    ∀ a, a ∈ sortArts stg.outputs → a.skip = false → ∀ d, Reaches cfg.ctx w'.store a.child d →
      w'.store.has d = true := by
  unfold fetchAct at h
  rw [hs] at h
  dsimp only at h
  split at h
  · cases h
  rename_i loc hf
  simp only [Except.ok.injEq] at h
  subst h
  refine ⟨rfl, ?_⟩
  intro a ha hsk d hr
  refine fetchFix_closed cfg.ctx w.remote cfg.fuel w.store _ loc hf hk a.child ?_ d hr
  exact List.mem_map.2 ⟨a, List.mem_filter.2 ⟨ha, by simp [hsk]⟩, rfl⟩

/-! ### the negative witness

Hash = identity on strings.  The object `"root"` decodes as a manifest listing the checksum `"xxx"`
twice, once as a directory and once as a file; `"xxx"` decodes as a manifest listing `"leaf"`.  The
next-level map keyed by checksum keeps one of the two `"xxx"` entries; when the file entry survives,
the manifest `"xxx"` is never read and `"leaf"` is never fetched — yet fetch reports success. -/
namespace Toy

def ctx : Ctx String :=
  { H := id, encMan := fun _ _ _ => "", reload := fun _ c => c, nameOK := fun _ => true,
    decBlob := fun c =>
      if c = "root" then some [⟨[97], "xxx", true⟩, ⟨[98], "xxx", false⟩]
      else if c = "xxx" then some [⟨[99], "leaf", false⟩] else none }

def remote : Store String := [("root", .blob "root"), ("xxx", .blob "xxx"), ("leaf", .blob "leaf")]
def top : Child := ⟨[], "root", true⟩
def fetched : Store String := [("xxx", .blob "xxx"), ("root", .blob "root")]

theorem remote_consistent : Consistent ctx remote := by
  intro d o h
  simp only [Store.get, remote, alookup] at h
  repeat' split at h
  all_goals first | (cases h; done) | (cases h; rename_i hb; exact (eq_of_beq hb) ▸ rfl)

theorem top_reaches_leaf (s : Store String) (h1 : s.get "root" = some (.blob "root"))
    (h2 : s.get "xxx" = some (.blob "xxx")) : Reaches ctx s top "leaf" := by
  refine .child top [⟨[97], "xxx", true⟩, ⟨[98], "xxx", false⟩] ⟨[97], "xxx", true⟩ "leaf" rfl ?_ (by simp) ?_
  · simp [readManifest, top, h1, ctx]; decide
  · refine .child _ [⟨[99], "leaf", false⟩] ⟨[99], "leaf", false⟩ "leaf" rfl ?_ (by simp) (.self _)
    simp [readManifest, h2, ctx]; decide

end Toy

/-- **fetch can succeed without transferring the closure**: a directory and a file share a checksum
at one level, the fetch of `top` from `Toy.remote` into an empty cache succeeds, `"leaf"` is
reachable from `top` in the result but absent from it. -/
theorem fetch_skips_children :
    ∃ loc', fetchFix Toy.ctx Toy.remote 5 [] [Toy.top] = .ok loc' ∧
      Reaches Toy.ctx loc' Toy.top "leaf" ∧ loc'.has "leaf" = false ∧ Toy.remote.has "leaf" = true ∧
      Consistent Toy.ctx Toy.remote :=
  ⟨Toy.fetched, rfl, Toy.top_reaches_leaf _ rfl rfl, rfl, rfl, Toy.remote_consistent⟩

/-- consequently `KindsAgree` fails there (sanity check of the hypothesis) -/
theorem toy_kinds_disagree : ¬ KindsAgree (Occurs Toy.ctx Toy.fetched) := by
  intro hk
  have hm : readManifest Toy.ctx Toy.fetched "root" = .ok [⟨[97], "xxx", true⟩, ⟨[98], "xxx", false⟩] := rfl
  have := hk ⟨[97], "xxx", true⟩ ⟨[98], "xxx", false⟩ ⟨"root", _, hm, by simp⟩ ⟨"root", _, hm, by simp⟩ rfl
  cases this

/-! ## 5. fetch then checkout -/

/-- checkout of an entry whose closure is present never reports a missing object -/
theorem checkout_closure_suffices (ctx : Ctx κ) (strat : Strat) (s : Store κ) (fuel : Nat) (cur : Option (Node κ))
    (c : Child) (h : ∀ d, Reaches ctx s c d → s.has d = true) :
    checkoutNode ctx strat s fuel cur c ≠ .error .missingFromCache :=
  checkoutNode_not_missing ctx strat s fuel cur c h

/-- after a successful `fetchAct`, checkout of the stage's outputs cannot fail for want of a cache
object — under `KindsAgree` -/
theorem fetch_then_checkout_partial (cfg : Cfg κ) (strat : Strat) (sp : Bytes) (w w' : World κ) (stg : Stage)
    (hs : w.stage sp = .ok stg) (h : fetchAct cfg sp w = .ok w')
    (hk : KindsAgree (Occurs cfg.ctx w'.store)) :
    ∀ a, a ∈ sortArts stg.outputs → ∀ cur,
      checkoutArt cfg.ctx strat cfg.fuel a cur w'.store ≠ .error .missingFromCache := by
  intro a ha cur hc
  unfold checkoutArt at hc
  split at hc
  · cases hc
  rename_i hsk
  split at hc
  · rename_i e he
    injection hc with hc
    subst hc
    exact checkoutNode_not_missing cfg.ctx strat w'.store cfg.fuel cur a.child
      ((fetchAct_closure_partial cfg sp w w' stg hs h hk).2 a ha (by simpa using hsk)) he
  · cases hc

/-- … and in the negative witness the successful fetch is followed by a failing checkout -/
theorem fetch_skips_children_checkout :
    fetchFix Toy.ctx Toy.remote 5 [] [Toy.top] = .ok Toy.fetched ∧
      checkoutNode Toy.ctx .copy Toy.fetched 5 none Toy.top = .error .missingFromCache := ⟨rfl, rfl⟩

/-! ## 6. regenerated facts -/

theorem fetch_key_fact : Dud.Facts.fetchChildKey = "manifest-entry.Checksum" := by decide
theorem push_perms_fact : Dud.Facts.pushSetsPerms = true ∧ Dud.Facts.cacheFilePerms = 0o444 := by decide

/-! ## non-vacuity -/

section Examples
open Toy

/-- gather succeeds on the toy store and returns the whole closure -/
example : gather ctx remote 5 top [] = .ok ["root", "xxx", "leaf"] := by rfl
/-- … and fails when an object is missing or fuel is short -/
example : gather ctx fetched 5 top [] = .error .missingFromCache := by rfl
example : gather ctx remote 2 top [] = .error .other := by rfl
example : copyObjs remote [] ["root", "leaf"] = .ok [("leaf", .blob "leaf"), ("root", .blob "root")] := by rfl

def cfg : Cfg String := { ctx := ctx, ofBytes := fun _ => "", toBytes := fun _ => [], walkAccumulates := false, fuel := 5 }
def w0 : World String :=
  { store := remote, idx := [([1], { cmd := [1], outputs := [{ path := [2], sum := "root", isDir := true }] })] }

/-- push succeeds on the toy world and the remote then holds the closure -/
example : ∃ w', pushAct cfg [1] w0 = .ok w' ∧ w'.remote.has "leaf" = true ∧ w'.remote.has "xxx" = true :=
  ⟨_, rfl, rfl, rfl⟩

/-- with kinds agreeing (the file entry removed) fetch does bring `"leaf"` -/
def ctxOK : Ctx String :=
  { ctx with decBlob := fun c =>
      if c = "root" then some [⟨[97], "xxx", true⟩]
      else if c = "xxx" then some [⟨[99], "leaf", false⟩] else none }
example : ∃ loc', fetchFix ctxOK remote 5 [] [top] = .ok loc' ∧ loc'.has "leaf" = true := ⟨_, rfl, rfl⟩

end Examples

/-! ## axioms -/

#print axioms gather_closure
#print axioms gather_present
#print axioms gather_missing_fails
#print axioms gather_exact
#print axioms copyObjs_spec
#print axioms copyObjs_new
#print axioms mem_sortArts
#print axioms push_closure
#print axioms push_closure_outputs
#print axioms push_closure_bytes
#print axioms fetch_closure_partial
#print axioms fetch_closure_global_partial
#print axioms fetch_mono
#print axioms fetchAct_closure_partial
#print axioms Toy.remote_consistent
#print axioms fetch_skips_children
#print axioms toy_kinds_disagree
#print axioms checkout_closure_suffices
#print axioms fetch_then_checkout_partial
#print axioms fetch_skips_children_checkout
#print axioms fetch_key_fact
#print axioms push_perms_fact

end Dud
