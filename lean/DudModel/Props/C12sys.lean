import DudModel.Lemmas.SysConc
import DudModel.Lemmas.SysConcCmd
import DudModel.Props.C03cmdGo
import DudModel.Props.C06cmd
import DudModel.Lock
/-!
# C12 at the level of the system-call model: any interleaving of any number of dud commands is serial

`Props/C12.lean` proves mutual exclusion for an ABSTRACT model (program counters and a Boolean).  This file
proves it for the concurrent small-step semantics of `SysConc.lean` over the real `FS` / `Call` / `apply`,
and adds what the abstract model cannot say: **the shared file system after ANY schedule is the one the
winners of the lock produce when run one after the other** (`serializable`).

Setting, for all theorems: any number `n` of processes; process `i` has the plan `planOf plans i` (an
arbitrary function from the file system it sees right after locking to the calls of its body; processes
beyond `plans.length` have the empty body); every plan is `BodyOK` (no call of the body writes the lock
path — hypothesis `hb`; proved for the real traces of `dud commit` and `dud checkout`, for every
configuration and every world, in section (e)); the initial file system has no lock (`h0`); `evs` is ANY
list of events: `step i` (one system call of process `i`) or `retry i` (the user starts the command of an
exited process again).  No fairness: a process that is never scheduled again is a killed (or stuck)
process.  `run` is the special case of steps only.

* (a) `mutex_sys`, `mutex_sys_index`, `lock_iff_holder_sys`
* (b) `refused_changes_nothing`, `refused_never_acts`, `refused_stays`, `step_idle_fs`
* (c) `serializable`, `serializable_quiescent`, `history_sound`
* (d) `all_exited_unlocked`, `retry_acquires`, `lock_busy_refuses`
* (e) `commit_plan_bodyOK`, `checkout_plan_bodyOK`, `dudPlan_bodyOK`, `concurrent_dud_commands`,
  `commit_block_is_command`, `checkout_block_is_command`
* (f) `mutex_sys_fails_without_excl`, `serializable_fails_without_excl`, `no_serial_run_has_both`
* (g) `step_refines_lock`, `run_refines_lock`: the abstract model of `Lock.lean` is an abstraction of this one
* non-vacuity: `Demo` (three toy processes whose plans read the file system), `DemoCmd` (a real `dud
  commit`, a real `dud checkout`, a failing commit), `NoExcl`

NOT covered: liveness (nobody is promised the lock); commands that do not take the lock (`dud init`,
`--version`); a process killed while holding leaves the lock file behind for ever (`lock_busy_refuses`:
everybody is refused until it is removed by hand) — the theorems still hold for such runs, the killed
process simply stays `holding`; `dud config` run from a sub-directory unlocks a wrong path
(`Lock.config_subdir_leaves_lock`, a defect at the level of path resolution that this model, whose `P.lock`
is one canonical path, does not see); processes other than dud writing the project; a body is planned in
one go from the file system at lock time (sound because nobody else writes until the unlock: that is the
theorem) and each call is atomic; a command that fails at the LOGICAL level has the empty body in section
(e) (`commitBody`: such a run has no trace in `cmdCommitGoT`) — `failing plan k` covers failures after `k`
calls of a successful plan.
-/
namespace Dud.Sys.Conc

open Dud Dud.Sys

variable {κ : Type}

/-- the state reached from `n` idle processes on `fs0` -/
def reach (emp : κ) (plans : List (Plan κ)) (fs0 : FS κ) (n : Nat) (evs : List Ev) : State κ :=
  runE emp plans (init fs0 n) evs

theorem reach_run (emp : κ) (plans : List (Plan κ)) (fs0 : FS κ) (n : Nat) (sched : List Nat) :
    reach emp plans fs0 n (sched.map .step) = run emp plans (init fs0 n) sched :=
  (run_eq_runE emp plans _ sched).symm

theorem reach_inv {emp : κ} {plans : List (Plan κ)} (hb : ∀ pl ∈ plans, BodyOK pl) {fs0 : FS κ}
    (h0 : fs0.get .lock = none) (n : Nat) (evs : List Ev) :
    Inv emp plans fs0 (reach emp plans fs0 n evs) (serialOf emp plans fs0 n evs) := by
  have := runH_inv (planOf_bodyOK hb) evs (init fs0 n, Hist.empty) (inv_init emp plans fs0 h0 n)
  rw [runH_fst] at this
  exact this

theorem reach_length (emp : κ) (plans : List (Plan κ)) (fs0 : FS κ) (n : Nat) (evs : List Ev) :
    (reach emp plans fs0 n evs).procs.length = n := by
  unfold reach; rw [runE_length]; simp [init]

/-! ## (a) mutual exclusion -/

/-- **Two processes never hold at once** (index form). -/
theorem mutex_sys_index {emp : κ} {plans : List (Plan κ)} (hb : ∀ pl ∈ plans, BodyOK pl) {fs0 : FS κ}
    (h0 : fs0.get .lock = none) (n : Nat) (evs : List Ev) {i j : Nat} {r r' : List (Call κ)}
    (hi : (reach emp plans fs0 n evs).procs[i]? = some (.holding r))
    (hj : (reach emp plans fs0 n evs).procs[j]? = some (.holding r')) : i = j := by
  have inv := reach_inv (emp := emp) hb h0 n evs
  cases hc : (serialOf emp plans fs0 n evs).cur with
  | none => exact absurd hi ((inv.idleH hc).2 i r)
  | some b =>
    obtain ⟨k, cs⟩ := b
    obtain ⟨-, hu, -⟩ := inv.busyH k cs hc
    rw [hu i r hi, hu j r' hj]

/-- **Mutual exclusion**: for every number of processes, all plans, every schedule, at most one process is
`holding`. -/
theorem mutex_sys {emp : κ} {plans : List (Plan κ)} (hb : ∀ pl ∈ plans, BodyOK pl) {fs0 : FS κ}
    (h0 : fs0.get .lock = none) (n : Nat) (evs : List Ev) :
    (reach emp plans fs0 n evs).holdingCount ≤ 1 := by
  have inv := reach_inv (emp := emp) hb h0 n evs
  unfold State.holdingCount
  cases hc : (serialOf emp plans fs0 n evs).cur with
  | none =>
    refine countP_le_one_of_unique _ _ 0 (fun j a hj ha => ?_)
    cases a <;> simp [PSt.isHolding] at ha
    exact absurd hj ((inv.idleH hc).2 j _)
  | some b =>
    obtain ⟨k, cs⟩ := b
    obtain ⟨-, hu, -⟩ := inv.busyH k cs hc
    refine countP_le_one_of_unique _ _ k (fun j a hj ha => ?_)
    cases a <;> simp [PSt.isHolding] at ha
    exact hu j _ hj

/-- **The lock file exists iff some process is holding**; and then exactly one is, and the file is the
empty 0600 file `createExcl` made. -/
theorem lock_iff_holder_sys {emp : κ} {plans : List (Plan κ)} (hb : ∀ pl ∈ plans, BodyOK pl) {fs0 : FS κ}
    (h0 : fs0.get .lock = none) (n : Nat) (evs : List Ev) :
    (((reach emp plans fs0 n evs).fs.get .lock).isSome = true ↔
      ∃ (i : Nat) (r : List (Call κ)), (reach emp plans fs0 n evs).procs[i]? = some (.holding r)) ∧
    (((reach emp plans fs0 n evs).fs.get .lock).isSome = true ↔
      (reach emp plans fs0 n evs).holdingCount = 1) ∧
    ((reach emp plans fs0 n evs).fs.get .lock = none ∨
      (reach emp plans fs0 n evs).fs.get .lock = some (.file emp 0o600)) := by
  have inv := reach_inv (emp := emp) hb h0 n evs
  have hle := mutex_sys (emp := emp) hb h0 n evs
  cases hc : (serialOf emp plans fs0 n evs).cur with
  | none =>
    obtain ⟨hl, hn⟩ := inv.idleH hc
    refine ⟨?_, ?_, .inl hl⟩
    · rw [hl]; simp only [Option.isSome_none, Bool.false_eq_true, false_iff]
      rintro ⟨i, r, h⟩; exact hn i r h
    · rw [hl]; simp only [Option.isSome_none, Bool.false_eq_true, false_iff]
      intro h1
      have hpos : 0 < (reach emp plans fs0 n evs).procs.countP PSt.isHolding := by
        unfold State.holdingCount at h1; omega
      obtain ⟨a, ha, hp⟩ := List.countP_pos_iff.1 hpos
      obtain ⟨j, hj⟩ := List.mem_iff_getElem?.1 ha
      cases a <;> simp [PSt.isHolding] at hp
      exact hn j _ hj
  | some b =>
    obtain ⟨k, cs⟩ := b
    obtain ⟨hl, -, pre, rest, hp, -, -⟩ := inv.busyH k cs hc
    refine ⟨?_, ?_, .inr hl⟩
    · rw [hl]; simp only [Option.isSome_some, true_iff]
      exact ⟨k, rest, hp⟩
    · rw [hl]; simp only [Option.isSome_some, true_iff]
      have hpos : 0 < (reach emp plans fs0 n evs).procs.countP PSt.isHolding :=
        List.countP_pos_iff.2 ⟨_, List.mem_of_getElem? hp, rfl⟩
      unfold State.holdingCount at hle ⊢; omega

/-- nobody holds iff the count is zero (a decidable test for the hypothesis of the quiescent theorems) -/
theorem no_holder_iff (st : State κ) :
    st.holdingCount = 0 ↔ ∀ (j : Nat) (r : List (Call κ)), st.procs[j]? ≠ some (PSt.holding r) := by
  unfold State.holdingCount
  rw [List.countP_eq_zero]
  constructor
  · intro h j r hj
    exact h _ (List.mem_of_getElem? hj) rfl
  · intro h a ha hp
    obtain ⟨j, hj⟩ := List.mem_iff_getElem?.1 ha
    cases a <;> simp [PSt.isHolding] at hp
    exact h j _ hj

/-! ## (b) a refused process changes nothing -/

/-- Whatever the outcome, the file system after the `lockProject` step of an idle process is
`apply … (createExcl lock)`: the model's success test agrees with `apply`. -/
theorem step_idle_fs (emp : κ) (plans : List (Plan κ)) (st : State κ) (i : Nat)
    (hi : st.procs[i]? = some .idle) :
    (step emp plans st i).fs = apply emp st.fs (.createExcl .lock) ∧
    ((step emp plans st i).procs[i]? = some .refused ↔ lockFree st.fs = false) := by
  unfold step stepX
  simp only [hi, Bool.true_and]
  cases hf : lockFree st.fs with
  | true =>
    simp only [Bool.not_true, Bool.false_eq_true, if_false, lockCall, if_true, true_and]
    rw [get_set_self hi]; simp
  | false =>
    simp only [Bool.not_false, if_true]
    rw [get_set_self hi, createExcl_lock_busy emp _ hf]; simp

/-- A process that has been refused never issues another call: its steps are no-ops (for both variants of
the lock call). -/
theorem refused_never_acts (excl : Bool) (emp : κ) (plans : List (Plan κ)) (st : State κ) (i : Nat)
    (hi : st.procs[i]? = some .refused) : stepX excl emp plans st i = st := by
  unfold stepX; simp only [hi]

/-- **The step that gets a process refused changes nothing but that process's own state**: the file system
is unchanged (in particular the holder's lock is still there), every other process is as before, and the
refused process never acts again.  No hypothesis on the state. -/
theorem refused_changes_nothing (emp : κ) (plans : List (Plan κ)) (st : State κ) (i : Nat)
    (hi : st.procs[i]? = some .idle) (hbusy : lockFree st.fs = false) :
    (step emp plans st i).fs = st.fs ∧
    (step emp plans st i).fs.get .lock = st.fs.get .lock ∧
    (step emp plans st i).procs = st.procs.set i .refused ∧
    (∀ j, j ≠ i → (step emp plans st i).procs[j]? = st.procs[j]?) ∧
    (∀ k, run emp plans (step emp plans st i) (List.replicate k i) = step emp plans st i) := by
  have hst : step emp plans st i = { st with procs := st.procs.set i .refused } := by
    unfold step stepX; simp only [hi, Bool.true_and, hbusy, Bool.not_false, if_true]
  rw [hst]
  refine ⟨rfl, rfl, rfl, fun j hj => List.getElem?_set_ne (fun e => hj e.symm), fun k => ?_⟩
  induction k with
  | zero => rfl
  | succ k ih =>
    simp only [run, List.replicate_succ, List.foldl_cons] at ih ⊢
    have : step emp plans { st with procs := st.procs.set i .refused } i
        = { st with procs := st.procs.set i .refused } :=
      refused_never_acts true emp plans _ i (get_set_self hi _)
    rw [this]; exact ih

/-- a step of `j` changes the state of no other process -/
theorem stepX_other (excl : Bool) (emp : κ) (plans : List (Plan κ)) (st : State κ) (j i : Nat) (h : j ≠ i) :
    (stepX excl emp plans st j).procs[i]? = st.procs[i]? := by
  unfold stepX
  split
  · rfl
  · split <;> simp only <;> rw [List.getElem?_set_ne h]
  · simp only; rw [List.getElem?_set_ne h]
  · simp only; rw [List.getElem?_set_ne h]
  · rfl
  · rfl

/-- Once refused, a process stays refused whatever the others do (until the user retries). -/
theorem refused_stays (emp : κ) (plans : List (Plan κ)) (i : Nat) :
    ∀ (sched : List Nat) (st : State κ), st.procs[i]? = some .refused →
      (run emp plans st sched).procs[i]? = some .refused
  | [], _, h => h
  | j :: sched, st, h => by
    simp only [run, List.foldl_cons]
    refine refused_stays emp plans i sched _ ?_
    by_cases hj : j = i
    · subst hj; rw [show step emp plans st j = st from refused_never_acts true emp plans st j h]; exact h
    · rw [show step emp plans st j = stepX true emp plans st j from rfl, stepX_other _ _ _ _ _ _ hj]; exact h

/-! ## (c) serializability -/

/-- **Any interleaving is a serial execution.**  After ANY list of events, with `h` the history (the blocks
of calls executed under the lock, in the order the lock was acquired):
1. the shared file system is the replay, from the initial one, of the calls of the history in order;
2. every completed block is a complete command — `createExcl lock`, the body planned on the file system
   with the lock THAT THE SERIAL EXECUTION OF THE EARLIER BLOCKS PRODUCES, `unlink lock` (`Complete`) —, so
   the replay of the completed blocks is `serialRun` of their owners in acquisition order;
3. if nobody holds, the file system IS that serial result;
4. if process `i` holds, the block in progress is `createExcl lock` plus the prefix `pre` of its body executed
   so far, the body being planned on the serial result with the lock, `rest` being what `i` still has to do;
   the file system is the serial result plus that prefix. -/
theorem serializable {emp : κ} {plans : List (Plan κ)} (hb : ∀ pl ∈ plans, BodyOK pl) {fs0 : FS κ}
    (h0 : fs0.get .lock = none) (n : Nat) (evs : List Ev) :
    (reach emp plans fs0 n evs).fs = replay emp fs0 (serialOf emp plans fs0 n evs).calls ∧
    Complete emp plans fs0 (serialOf emp plans fs0 n evs).done ∧
    replay emp fs0 (flatBlocks (serialOf emp plans fs0 n evs).done)
      = serialRun emp plans fs0 (serialOf emp plans fs0 n evs).order ∧
    ((serialOf emp plans fs0 n evs).cur = none →
      (∀ (j : Nat) (r : List (Call κ)), (reach emp plans fs0 n evs).procs[j]? ≠ some (.holding r)) ∧
      (reach emp plans fs0 n evs).fs = serialRun emp plans fs0 (serialOf emp plans fs0 n evs).order) ∧
    (∀ (i : Nat) (cs : List (Call κ)), (serialOf emp plans fs0 n evs).cur = some (i, cs) →
      ∃ (pre rest : List (Call κ)), (reach emp plans fs0 n evs).procs[i]? = some (.holding rest) ∧
        cs = .createExcl .lock :: pre ∧
        pre ++ rest = planOf plans i
          (apply emp (serialRun emp plans fs0 (serialOf emp plans fs0 n evs).order) (.createExcl .lock)) ∧
        (reach emp plans fs0 n evs).fs
          = replay emp (serialRun emp plans fs0 (serialOf emp plans fs0 n evs).order) cs) := by
  have inv := reach_inv (emp := emp) hb h0 n evs
  have hser := complete_serial emp plans _ fs0 inv.complete
  refine ⟨inv.fsEq, inv.complete, hser, fun hc => ⟨(inv.idleH hc).2, ?_⟩, fun i cs hc => ?_⟩
  · rw [inv.fsEq, Hist.calls, Hist.curCalls, hc, List.append_nil]; exact hser
  · obtain ⟨-, -, pre, rest, hp, hcs, hpl⟩ := inv.busyH i cs hc
    refine ⟨pre, rest, hp, hcs, ?_, ?_⟩
    · rw [hpl, hser]; rfl
    · rw [inv.fsEq, Hist.calls, Hist.curCalls, hc, replay_append, hser]; rfl

/-- **Quiescent form**: whenever nobody holds the lock, the file system is exactly what the commands that
got the lock produce when run one after the other, each to completion, in the order they got it. -/
theorem serializable_quiescent {emp : κ} {plans : List (Plan κ)} (hb : ∀ pl ∈ plans, BodyOK pl) {fs0 : FS κ}
    (h0 : fs0.get .lock = none) (n : Nat) (evs : List Ev)
    (hq : ∀ (j : Nat) (r : List (Call κ)), (reach emp plans fs0 n evs).procs[j]? ≠ some (.holding r)) :
    (reach emp plans fs0 n evs).fs = serialRun emp plans fs0 (serialOf emp plans fs0 n evs).order := by
  obtain ⟨-, -, -, hnone, hsome⟩ := serializable (emp := emp) hb h0 n evs
  cases hc : (serialOf emp plans fs0 n evs).cur with
  | none => exact (hnone hc).2
  | some b =>
    obtain ⟨i, cs⟩ := b
    obtain ⟨pre, rest, hp, -⟩ := hsome i cs hc
    exact absurd hp (hq i rest)

/-! ### the history names the right processes (schedules without retries) -/

/-- invariant tying the ghost history to the process states, for steps only -/
structure HistOK (st : State κ) (h : Hist κ) : Prop where
  doneIff : ∀ i : Nat, st.procs[i]? = some PSt.done ↔ i ∈ h.order
  nodup : h.order.Nodup

theorem histOK_step {emp : κ} {plans : List (Plan κ)} {fs0 : FS κ} {st : State κ} {h : Hist κ}
    (inv : Inv emp plans fs0 st h) (hk : HistOK st h) (i : Nat) :
    HistOK (step emp plans st i) (histStep st h i) := by
  have hset : ∀ (a : PSt κ), a ≠ PSt.done → st.procs[i]? ≠ some PSt.done →
      ∀ j : Nat, (st.procs.set i a)[j]? = some PSt.done ↔ st.procs[j]? = some PSt.done := by
    intro a ha hnd j
    by_cases hij : i = j
    · subst hij
      rw [List.getElem?_set]
      simp only [if_true]
      constructor
      · intro h; split at h
        · cases h; exact absurd rfl ha
        · cases h
      · intro h; exact absurd h hnd
    · rw [List.getElem?_set_ne hij]
  unfold step stepX histStep
  cases hp : st.procs[i]? with
  | none => exact hk
  | some b =>
    have hnd : st.procs[i]? = some .done → b = .done := fun h => by rw [hp] at h; cases h; rfl
    cases b with
    | refused => exact hk
    | done => exact hk
    | idle =>
      simp only [Bool.true_and]
      cases hf : lockFree st.fs with
      | true =>
        simp only [Bool.not_true, Bool.false_eq_true, if_false, if_true]
        exact ⟨fun j => (hset _ (by simp) (fun h => by cases hnd h) j).trans (hk.doneIff j), hk.nodup⟩
      | false =>
        simp only [Bool.not_false, if_true]
        exact ⟨fun j => (hset _ (by simp) (fun h => by cases hnd h) j).trans (hk.doneIff j), hk.nodup⟩
    | holding rest =>
      have hcur : ∃ cs, h.cur = some (i, cs) := by
        cases hc : h.cur with
        | none => exact absurd hp ((inv.idleH hc).2 i rest)
        | some b =>
          obtain ⟨i0, cs⟩ := b
          have := (inv.busyH i0 cs hc).2.1 i rest hp
          subst this; exact ⟨cs, rfl⟩
      obtain ⟨cs, hc⟩ := hcur
      cases rest with
      | cons c r =>
        simp only
        exact ⟨fun j => (hset _ (by simp) (fun h => by cases hnd h) j).trans (hk.doneIff j), hk.nodup⟩
      | nil =>
        simp only [hc, Option.map_some, Option.toList_some]
        have hni : i ∉ h.order := fun hin => by cases hnd ((hk.doneIff i).2 hin)
        refine ⟨fun j => ?_, ?_⟩
        · simp only [Hist.order, List.map_append, List.map_cons, List.map_nil, List.mem_append,
            List.mem_singleton]
          by_cases hij : i = j
          · subst hij
            rw [get_set_self hp]; simp
          · rw [List.getElem?_set_ne hij]
            have := hk.doneIff j
            simp only [Hist.order] at this
            rw [this]
            constructor
            · exact .inl
            · rintro (h | h)
              · exact h
              · exact absurd h.symm hij
        · simp only [Hist.order, List.map_append, List.map_cons, List.map_nil]
          simp only [Hist.order] at hni
          exact List.nodup_append.2 ⟨hk.nodup, by simp, fun a ha b hb => by
            simp at hb; subst hb; intro e; subst e; exact hni ha⟩

/-- **The history names exactly the processes that completed**: for a schedule of steps (no retries), a
process is `done` iff it owns a completed block, it owns at most one, and the refused ones own none. -/
theorem history_sound {emp : κ} {plans : List (Plan κ)} (hb : ∀ pl ∈ plans, BodyOK pl) {fs0 : FS κ}
    (h0 : fs0.get .lock = none) (n : Nat) (sched : List Nat) :
    (∀ i, (run emp plans (init fs0 n) sched).procs[i]? = some .done ↔
      i ∈ (serialOf emp plans fs0 n (sched.map .step)).order) ∧
    (serialOf emp plans fs0 n (sched.map .step)).order.Nodup := by
  suffices H : ∀ (sched : List Nat) (p : State κ × Hist κ), Inv emp plans fs0 p.1 p.2 → HistOK p.1 p.2 →
      HistOK (runH emp plans p (sched.map .step)).1 (runH emp plans p (sched.map .step)).2 by
    have hk0 : HistOK (init fs0 n) (Hist.empty : Hist κ) :=
      ⟨fun i => (by
        simp only [init, List.getElem?_replicate, Hist.order, Hist.empty, List.map_nil, List.not_mem_nil,
          iff_false]
        intro h
        split at h <;> cases h),
       by simp [Hist.order, Hist.empty]⟩
    have := H sched (init fs0 n, Hist.empty) (inv_init emp plans fs0 h0 n) hk0
    rw [runH_fst, ← run_eq_runE] at this
    exact ⟨this.doneIff, this.nodup⟩
  intro sched
  induction sched with
  | nil => intro p _ hk; exact hk
  | cons i sched ih =>
    intro p inv hk
    simp only [List.map_cons, runH, List.foldl_cons]
    exact ih _ (execH_inv (planOf_bodyOK hb) inv (.step i)) (histOK_step inv hk i)

/-! ## (d) when everybody has exited the project is unlocked -/

/-- **Every command that exits on its own leaves the project unlocked**: when every process is `done` or
`refused`, the lock file does not exist — and the file system is the serial result. -/
theorem all_exited_unlocked {emp : κ} {plans : List (Plan κ)} (hb : ∀ pl ∈ plans, BodyOK pl) {fs0 : FS κ}
    (h0 : fs0.get .lock = none) (n : Nat) (evs : List Ev)
    (hex : ∀ i, i < n → ∃ b, (reach emp plans fs0 n evs).procs[i]? = some b ∧ b.exited = true) :
    (reach emp plans fs0 n evs).fs.get .lock = none ∧
    (reach emp plans fs0 n evs).fs = serialRun emp plans fs0 (serialOf emp plans fs0 n evs).order := by
  have hq : ∀ (j : Nat) (r : List (Call κ)), (reach emp plans fs0 n evs).procs[j]? ≠ some (.holding r) := by
    intro j r hj
    have hlt : j < n := by
      have := (List.getElem?_eq_some_iff.1 hj).1
      rwa [reach_length] at this
    obtain ⟨b, hb1, hb2⟩ := hex j hlt
    rw [hj] at hb1; cases hb1; simp [PSt.exited] at hb2
  refine ⟨?_, serializable_quiescent hb h0 n evs hq⟩
  have inv := reach_inv (emp := emp) hb h0 n evs
  cases hc : (serialOf emp plans fs0 n evs).cur with
  | none => exact (inv.idleH hc).1
  | some b =>
    obtain ⟨i, cs⟩ := b
    obtain ⟨-, -, pre, rest, hp, -⟩ := inv.busyH i cs hc
    exact absurd hp (hq i rest)

/-- **A refused (or finished) command can be run again, and gets the lock if nobody holds it**: in any
reachable state without a holder, after `retry i` the next step of `i` takes the lock and plans its body on
the file system with the lock.  (Liveness is NOT claimed: if somebody holds, it is refused again.) -/
theorem retry_acquires {emp : κ} {plans : List (Plan κ)} (hb : ∀ pl ∈ plans, BodyOK pl) {fs0 : FS κ}
    (h0 : fs0.get .lock = none) (n : Nat) (evs : List Ev) (i : Nat)
    (hq : ∀ (j : Nat) (r : List (Call κ)), (reach emp plans fs0 n evs).procs[j]? ≠ some (.holding r))
    {b : PSt κ} (hi : (reach emp plans fs0 n evs).procs[i]? = some b) (hex : b.exited = true) :
    (reach emp plans fs0 n (evs ++ [.retry i, .step i])).procs[i]? =
      some (.holding (planOf plans i (apply emp (reach emp plans fs0 n evs).fs (.createExcl .lock)))) ∧
    (reach emp plans fs0 n (evs ++ [.retry i, .step i])).fs
      = apply emp (reach emp plans fs0 n evs).fs (.createExcl .lock) ∧
    (reach emp plans fs0 n (evs ++ [.retry i, .step i])).fs.get .lock = some (.file emp 0o600) := by
  have inv := reach_inv (emp := emp) hb h0 n evs
  have hfree : lockFree (reach emp plans fs0 n evs).fs = true := by
    rw [lockFree_iff]
    cases hc : (serialOf emp plans fs0 n evs).cur with
    | none => exact (inv.idleH hc).1
    | some b =>
      obtain ⟨k, cs⟩ := b
      obtain ⟨-, -, pre, rest, hp, -⟩ := inv.busyH k cs hc
      exact absurd hp (hq k rest)
  have hsplit : reach emp plans fs0 n (evs ++ [.retry i, .step i])
      = step emp plans (retry (reach emp plans fs0 n evs) i) i := by
    simp only [reach, runE, List.foldl_append, List.foldl_cons, List.foldl_nil, exec]
  generalize reach emp plans fs0 n evs = st at hi hfree hsplit
  have hr : retry st i = { st with procs := st.procs.set i .idle } := by
    unfold retry
    cases b <;> simp [PSt.exited] at hex <;> simp only [hi]
  have hidle : (retry st i).procs[i]? = some .idle := by rw [hr]; exact get_set_self hi _
  have hfs : (retry st i).fs = st.fs := by rw [hr]
  rw [hsplit]
  have hst : step emp plans (retry st i) i =
      { fs := apply emp st.fs (.createExcl .lock),
        procs := (retry st i).procs.set i (.holding (planOf plans i (apply emp st.fs (.createExcl .lock)))) } := by
    unfold step stepX
    simp only [hidle, Bool.true_and, hfs, hfree, Bool.not_true, Bool.false_eq_true, if_false, lockCall,
      if_true]
  rw [hst]
  exact ⟨get_set_self hidle _, rfl, createExcl_lock_get emp _ hfree⟩

/-- While the lock file exists — in particular for ever after its holder was killed — every command that
starts is refused. -/
theorem lock_busy_refuses (emp : κ) (plans : List (Plan κ)) (st : State κ) (j : Nat)
    (hj : st.procs[j]? = some .idle) (hbusy : lockFree st.fs = false) :
    (step emp plans st j).procs[j]? = some .refused :=
  (step_idle_fs emp plans st j hj).2.2 hbusy


/-! ## (e) instantiation: concurrent `dud commit` / `dud checkout` -/

/-- the plan of a `dud commit`: `worldOf` is what the process reads — the logical world (workspace tree,
cache, index) as a function of the file system it sees right after locking; the body is the body of the
trace of `cmdCommitGoT` on that world -/
def commitPlan (c : CmdCfg κ) (strat : Strat) (targets : List Bytes) (worldOf : FS κ → World κ) : Plan κ :=
  fun fs => commitBody c strat targets (worldOf fs)

/-- the plan of a `dud checkout` -/
def checkoutPlan (c : CmdCfg κ) (strat : Strat) (single : Bool) (targets : List Bytes)
    (worldOf : FS κ → World κ) : Plan κ :=
  fun fs => checkoutBody c strat single targets (worldOf fs)

/-- **The body of `dud commit` satisfies `BodyOK`** — for every configuration, strategy, target list and
every `worldOf` (NO hypothesis on the worlds: the fact is syntactic, `commitBody_noLock`). -/
theorem commit_plan_bodyOK (c : CmdCfg κ) (strat : Strat) (targets : List Bytes) (worldOf : FS κ → World κ) :
    BodyOK (commitPlan c strat targets worldOf) :=
  fun fs => commitBody_noLock c strat targets (worldOf fs)

/-- **The body of `dud checkout` satisfies `BodyOK`**, likewise without hypotheses. -/
theorem checkout_plan_bodyOK (c : CmdCfg κ) (strat : Strat) (single : Bool) (targets : List Bytes)
    (worldOf : FS κ → World κ) : BodyOK (checkoutPlan c strat single targets worldOf) :=
  fun fs => checkoutBody_noLock c strat single targets (worldOf fs)

/-- a dud command: a commit, a checkout (any configuration, any way of reading the world), or one of them
failing after `k` calls of its body -/
inductive DudPlan : Plan κ → Prop
  | commit (c : CmdCfg κ) (strat : Strat) (targets : List Bytes) (worldOf : FS κ → World κ) :
      DudPlan (commitPlan c strat targets worldOf)
  | checkout (c : CmdCfg κ) (strat : Strat) (single : Bool) (targets : List Bytes)
      (worldOf : FS κ → World κ) : DudPlan (checkoutPlan c strat single targets worldOf)
  | failing {pl : Plan κ} (k : Nat) : DudPlan pl → DudPlan (failing pl k)

theorem dudPlan_bodyOK {pl : Plan κ} (h : DudPlan pl) : BodyOK pl := by
  induction h with
  | commit c strat targets worldOf => exact commit_plan_bodyOK c strat targets worldOf
  | checkout c strat single targets worldOf => exact checkout_plan_bodyOK c strat single targets worldOf
  | failing k _ ih => exact failing_bodyOK ih k

/-- **Any mix of concurrent `dud commit` and `dud checkout` commands** (complete or failing in the middle),
any number of them, any schedule with retries: at most one holds; the lock exists iff one holds; the file
system is the replay of the history, whose completed blocks are complete commands planned on the serial
file system; whenever nobody holds — in particular when all have exited — the project is unlocked and the
file system is the serial execution, in lock order, of the commands that got the lock. -/
theorem concurrent_dud_commands {emp : κ} {plans : List (Plan κ)} (hd : ∀ pl ∈ plans, DudPlan pl)
    {fs0 : FS κ} (h0 : fs0.get .lock = none) (n : Nat) (evs : List Ev) :
    (reach emp plans fs0 n evs).holdingCount ≤ 1 ∧
    (((reach emp plans fs0 n evs).fs.get .lock).isSome = true ↔
      ∃ (i : Nat) (r : List (Call κ)), (reach emp plans fs0 n evs).procs[i]? = some (.holding r)) ∧
    (reach emp plans fs0 n evs).fs = replay emp fs0 (serialOf emp plans fs0 n evs).calls ∧
    Complete emp plans fs0 (serialOf emp plans fs0 n evs).done ∧
    ((reach emp plans fs0 n evs).holdingCount = 0 →
      (reach emp plans fs0 n evs).fs.get .lock = none ∧
      (reach emp plans fs0 n evs).fs = serialRun emp plans fs0 (serialOf emp plans fs0 n evs).order) := by
  have hb : ∀ pl ∈ plans, BodyOK pl := fun pl h => dudPlan_bodyOK (hd pl h)
  obtain ⟨h1, h2, -⟩ := serializable (emp := emp) hb h0 n evs
  refine ⟨mutex_sys hb h0 n evs, (lock_iff_holder_sys hb h0 n evs).1, h1, h2, fun hz => ?_⟩
  have hq := (no_holder_iff _).1 hz
  refine ⟨?_, serializable_quiescent hb h0 n evs hq⟩
  cases hl : (reach emp plans fs0 n evs).fs.get .lock with
  | none => rfl
  | some e =>
    obtain ⟨i, r, hi⟩ := ((lock_iff_holder_sys (emp := emp) hb h0 n evs).1).1 (by rw [hl]; rfl)
    exact absurd hi (hq i r)

/-- **A completed block of a commit process IS the call trace of the command**: if the process, started on
`fs`, read the world `w` and `cmdCommitGoT` succeeds on it with trace `calls`, its block is `calls`. -/
theorem commit_block_is_command {c : CmdCfg κ} {strat : Strat} {targets : List Bytes}
    {worldOf : FS κ → World κ} {emp : κ} {fs : FS κ} {w' : World κ} {calls : List (Call κ)}
    (h : cmdCommitGoT c strat targets (worldOf (apply emp fs (.createExcl .lock))) = .ok (w', calls)) :
    fullBlock emp (commitPlan c strat targets worldOf) fs = calls := by
  rw [commitBody_trace h]; rfl

theorem checkout_block_is_command {c : CmdCfg κ} {strat : Strat} {single : Bool} {targets : List Bytes}
    {worldOf : FS κ → World κ} {emp : κ} {fs : FS κ} {w' : World κ} {calls : List (Call κ)}
    (h : cmdCheckoutT c strat single targets (worldOf (apply emp fs (.createExcl .lock))) = .ok (w', calls)) :
    fullBlock emp (checkoutPlan c strat single targets worldOf) fs = calls := by
  rw [checkoutBody_trace h]; rfl

/-- … so every single-command theorem applies to the block inside any concurrent run.  Example: when the
world the process read describes the file system it started on (`hworld`), the block leaves the logical
result of `dud commit` in place and the project unlocked (`cmdCommitGoT_final`). -/
theorem commit_block_final {c : CmdCfg κ} {strat : Strat} (g : Good c.cfg.ctx) {emp : κ}
    (hemp : ∀ x, c.isEmp x = true → x = emp) {targets : List Bytes} {worldOf : FS κ → World κ}
    {fs : FS κ} {w' : World κ} {calls : List (Call κ)}
    (hworld : fsOfWorld c (worldOf (apply emp fs (.createExcl .lock))) = fs)
    (hu : uniqNode (worldOf (apply emp fs (.createExcl .lock))).ws)
    (hc : Consistent c.cfg.ctx (worldOf (apply emp fs (.createExcl .lock))).store)
    (h : cmdCommitGoT c strat targets (worldOf (apply emp fs (.createExcl .lock))) = .ok (w', calls)) :
    Rel w'.ws (replay emp fs (fullBlock emp (commitPlan c strat targets worldOf) fs)) ∧
    (replay emp fs (fullBlock emp (commitPlan c strat targets worldOf) fs)).get .lock = none := by
  rw [commit_block_is_command h]
  have := cmdCommitGoT_final g hemp hu hc h
  rw [hworld] at this
  exact ⟨this.1, this.2.2⟩

/-- the same for `dud checkout` (`cmdCheckoutT_final`): the file system after the block is the abstraction
of the logical result at every path -/
theorem checkout_block_final {c : CmdCfg κ} {strat : Strat} {emp : κ}
    (hemp : ∀ x, c.isEmp x = true → x = emp) {single : Bool} {targets : List Bytes}
    {worldOf : FS κ → World κ} {fs : FS κ} {w' : World κ} {calls : List (Call κ)}
    (hworld : fsOfWorld c (worldOf (apply emp fs (.createExcl .lock))) = fs)
    (hu : uniqNode (worldOf (apply emp fs (.createExcl .lock))).ws)
    (h : cmdCheckoutT c strat single targets (worldOf (apply emp fs (.createExcl .lock))) = .ok (w', calls)) :
    AbsAt [] (some w'.ws) (replay emp fs (fullBlock emp (checkoutPlan c strat single targets worldOf) fs)) ∧
    (replay emp fs (fullBlock emp (checkoutPlan c strat single targets worldOf) fs)).get .lock = none := by
  rw [checkout_block_is_command h]
  have := cmdCheckoutT_final hemp hu h
  rw [hworld] at this
  exact ⟨this.2.1, this.2.2.2.1⟩

/-! ### non-vacuity of (e): a real `dud commit`, a real `dud checkout` and a failing commit side by side -/

namespace DemoCmd
open Dud.Sys.ExampleCmd Dud.Sys.ExampleCheckout

/-- process 0: `dud commit` (link strategy, no target) reading the two-stage world `w2` of
`Props/C03cmdGo.lean`; process 1: `dud checkout` reading the fresh clone `wfresh` of `Props/C06cmd.lean`;
process 2: a commit that fails after 3 calls of its body -/
def plans : List (Plan Example.K) :=
  [commitPlan (cc true) .link [] (fun _ => w2),
   checkoutPlan ccS .link false [] (fun _ => wfresh),
   failing (commitPlan (cc true) .link [] (fun _ => w2)) 3]

theorem plans_dud : ∀ pl ∈ plans, DudPlan pl := by
  intro pl hpl
  simp only [plans, List.mem_cons, List.not_mem_nil, or_false] at hpl
  rcases hpl with rfl | rfl | rfl
  · exact .commit _ _ _ _
  · exact .checkout _ _ _ _ _
  · exact .failing 3 (.commit _ _ _ _)

/-- the bodies are the real ones: 28 calls for the commit (30 with lock and unlock), 6 for the checkout -/
example : (planOf plans 0 []).length = 28 := by decide +kernel
example : (planOf plans 1 []).length = 6 := by decide +kernel
example : (planOf plans 2 []).length = 3 := by decide +kernel

/-- the first block of process 0 is the trace of `cmdCommitGoT` on `w2`, which describes the initial file
system `fsOfWorld (cc true) w2` -/
example : ∃ w' calls, cmdCommitGoT (cc true) .link [] w2 = .ok (w', calls) ∧
    fullBlock Example.emp (planOf plans 0) (fsOfWorld (cc true) w2) = calls := by
  have hne := goCallsOf_ne_nil
  unfold goCallsOf at hne
  cases hT : cmdCommitGoT (cc true) .link [] w2 with
  | error e => rw [hT] at hne; exact absurd rfl hne
  | ok v =>
    obtain ⟨w', calls⟩ := v
    exact ⟨w', calls, rfl, commit_block_is_command (worldOf := fun _ => w2) hT⟩

/-- the theorems apply to every schedule of the three -/
example (evs : List Ev) :
    (reach Example.emp plans (fsOfWorld (cc true) w2) 3 evs).holdingCount ≤ 1 :=
  (concurrent_dud_commands plans_dud (fsOfWorld_get_lock _ _) 3 evs).1

/-- a concrete schedule: 0 locks, 1 is refused, 0 issues its 28 body calls and unlocks; then 2 locks, makes 3
calls, fails and unlocks (1, having exited, does nothing in between) -/
def sched : List Nat := [0, 1, 0] ++ List.replicate 28 0 ++ [2, 1, 2, 2, 2, 2]

example : (serialOf Example.emp plans (fsOfWorld (cc true) w2) 3 (sched.map .step)).order = [0, 2] := by
  decide +kernel
/-- the block of 0 is the whole `dud commit` (30 calls), the block of 2 is lock + 3 calls + unlock -/
example : (serialOf Example.emp plans (fsOfWorld (cc true) w2) 3 (sched.map .step)).done.map (·.2.length)
    = [30, 5] := by decide +kernel
example : (run Example.emp plans (init (fsOfWorld (cc true) w2) 3) sched).procs.map PSt.exited
    = [true, true, true] := by decide +kernel
/-- hence (by `serializable_quiescent`) the file system is: the commit, then the failing commit -/
example : (run Example.emp plans (init (fsOfWorld (cc true) w2) 3) sched).fs
    = serialRun Example.emp plans (fsOfWorld (cc true) w2) [0, 2] := by
  have h := serializable_quiescent (emp := Example.emp) (fun pl hpl => dudPlan_bodyOK (plans_dud pl hpl))
    (fsOfWorld_get_lock (cc true) w2) 3 (sched.map .step)
  rw [reach_run] at h
  have ho : (serialOf Example.emp plans (fsOfWorld (cc true) w2) 3 (sched.map .step)).order = [0, 2] := by
    decide +kernel
  rw [ho] at h
  exact h ((no_holder_iff _).1 (by decide +kernel))

end DemoCmd


/-! ## (g) the abstract model of `Lock.lean` / `Props/C12.lean` is an abstraction of this one -/

def PSt.toPC : PSt κ → Dud.Lock.PC
  | .idle => .idle
  | .holding _ => .holding
  | .refused => .refused
  | .done => .finished

/-- forget the file system except "the lock file exists", and the remaining calls of the holder -/
def State.abs (st : State κ) : Dud.Lock.State :=
  { pcs := st.procs.map PSt.toPC, lockExists := !lockFree st.fs }

theorem map_set_same {α β : Type} (f : α → β) :
    ∀ (l : List α) (i : Nat) (a b : α), l[i]? = some b → f a = f b → (l.set i a).map f = l.map f
  | [], _, _, _, h, _ => by simp at h
  | x :: l, 0, a, b, h, hf => by
    simp only [List.getElem?_cons_zero, Option.some.injEq] at h
    subst h; simp [hf]
  | x :: l, i + 1, a, b, h, hf => by
    simp only [List.getElem?_cons_succ] at h
    simp only [List.set_cons_succ, List.map_cons, map_set_same f l i a b h hf]

/-- **Every step of the system-call model is a step of the abstract lock model, or a stutter** (a body call
of the holder: the abstract model does not see the body). -/
theorem step_refines_lock {emp : κ} {plans : List (Plan κ)} (hb : ∀ pl ∈ plans, BodyOK pl) {fs0 : FS κ}
    {st : State κ} {h : Hist κ} (inv : Inv emp plans fs0 st h) (i : Nat) :
    (step emp plans st i).abs = Dud.Lock.step st.abs i ∨
    ((∃ c r, st.procs[i]? = some (.holding (c :: r))) ∧ (step emp plans st i).abs = st.abs) := by
  have hget : st.abs.pcs[i]? = (st.procs[i]?).map PSt.toPC := by simp [State.abs]
  cases hp : st.procs[i]? with
  | none =>
    left
    have h1 : step emp plans st i = st := by unfold step stepX; simp only [hp]
    have h2 : Dud.Lock.step st.abs i = st.abs := by
      unfold Dud.Lock.step Dud.Lock.stepX; simp only [hget, hp, Option.map_none]
    rw [h1, h2]
  | some b =>
    cases b with
    | refused =>
      left
      have h1 : step emp plans st i = st := by unfold step stepX; simp only [hp]
      have h2 : Dud.Lock.step st.abs i = st.abs := by
        unfold Dud.Lock.step Dud.Lock.stepX; simp only [hget, hp, Option.map_some, PSt.toPC]
      rw [h1, h2]
    | done =>
      left
      have h1 : step emp plans st i = st := by unfold step stepX; simp only [hp]
      have h2 : Dud.Lock.step st.abs i = st.abs := by
        unfold Dud.Lock.step Dud.Lock.stepX; simp only [hget, hp, Option.map_some, PSt.toPC]
      rw [h1, h2]
    | idle =>
      left
      cases hf : lockFree st.fs with
      | true =>
        have h1 : step emp plans st i =
            { fs := apply emp st.fs (.createExcl .lock),
              procs := st.procs.set i (.holding (planOf plans i (apply emp st.fs (.createExcl .lock)))) } := by
          unfold step stepX
          simp only [hp, Bool.true_and, hf, Bool.not_true, Bool.false_eq_true, if_false, lockCall, if_true]
        have h2 : Dud.Lock.step st.abs i = { pcs := st.abs.pcs.set i .holding, lockExists := true } := by
          unfold Dud.Lock.step Dud.Lock.stepX
          simp only [hget, hp, Option.map_some, PSt.toPC]
          simp [State.abs, hf]
        rw [h1, h2]
        have hl : lockFree (apply emp st.fs (.createExcl .lock)) = false := by
          unfold lockFree; rw [createExcl_lock_get emp _ hf]; rfl
        simp only [State.abs, List.map_set, PSt.toPC, hl, Bool.not_false]
      | false =>
        have h1 : step emp plans st i = { st with procs := st.procs.set i .refused } := by
          unfold step stepX; simp only [hp, Bool.true_and, hf, Bool.not_false, if_true]
        have h2 : Dud.Lock.step st.abs i = { st.abs with pcs := st.abs.pcs.set i .refused } := by
          unfold Dud.Lock.step Dud.Lock.stepX
          simp only [hget, hp, Option.map_some, PSt.toPC]
          simp [State.abs, hf]
        rw [h1, h2]
        simp only [State.abs, List.map_set, PSt.toPC]
    | holding rest =>
      cases rest with
      | nil =>
        left
        have h1 : step emp plans st i =
            { fs := apply emp st.fs (.unlink .lock), procs := st.procs.set i .done } := by
          unfold step stepX; simp only [hp]
        have h2 : Dud.Lock.step st.abs i = { pcs := st.abs.pcs.set i .finished, lockExists := false } := by
          unfold Dud.Lock.step Dud.Lock.stepX; simp only [hget, hp, Option.map_some, PSt.toPC]
        rw [h1, h2]
        have hl : lockFree (apply emp st.fs (.unlink .lock)) = true := by
          unfold lockFree; simp only [apply, FS.get_del, if_true]; rfl
        simp only [State.abs, List.map_set, PSt.toPC, hl, Bool.not_true]
      | cons c r =>
        right
        refine ⟨⟨c, r, rfl⟩, ?_⟩
        have h1 : step emp plans st i = { fs := apply emp st.fs c, procs := st.procs.set i (.holding r) } := by
          unfold step stepX; simp only [hp]
        rw [h1]
        -- `c` is a body call: it does not write the lock
        have hnl : P.lock ∉ callWrites c := by
          cases hc : h.cur with
          | none => exact absurd hp ((inv.idleH hc).2 i _)
          | some b =>
            obtain ⟨i0, cs⟩ := b
            obtain ⟨-, hu, pre, rest', hp0, -, hpl⟩ := inv.busyH i0 cs hc
            have := hu i _ hp
            subst this
            rw [hp] at hp0
            simp only [Option.some.injEq, PSt.holding.injEq] at hp0
            subst hp0
            exact planOf_bodyOK hb i _ c (by rw [← hpl]; simp)
        have hl : lockFree (apply emp st.fs c) = lockFree st.fs := by
          unfold lockFree; rw [apply_get_frame emp _ c _ hnl]
        simp only [State.abs, hl]
        rw [map_set_same PSt.toPC st.procs i (.holding r) (.holding (c :: r)) hp rfl]

theorem abs_init (fs0 : FS κ) (h0 : fs0.get .lock = none) (n : Nat) :
    (init fs0 n).abs = Dud.Lock.init n := by
  simp [State.abs, init, Dud.Lock.init, PSt.toPC, lockFree, h0]

/-- **Every run of the system-call model projects to a run of the abstract model** over a sub-schedule (the
body steps dropped): everything `Props/C12.lean` proves about all abstract runs holds of the projection of
all concrete runs. -/
theorem run_refines_lock {emp : κ} {plans : List (Plan κ)} (hb : ∀ pl ∈ plans, BodyOK pl) {fs0 : FS κ}
    (h0 : fs0.get .lock = none) (n : Nat) (sched : List Nat) :
    ∃ sched', sched'.Sublist sched ∧
      (run emp plans (init fs0 n) sched).abs = Dud.Lock.run (Dud.Lock.init n) sched' := by
  suffices H : ∀ (sched : List Nat) (st : State κ) (h : Hist κ), Inv emp plans fs0 st h →
      ∃ sched', sched'.Sublist sched ∧ (run emp plans st sched).abs = Dud.Lock.run st.abs sched' by
    obtain ⟨s', hs, he⟩ := H sched (init fs0 n) Hist.empty (inv_init emp plans fs0 h0 n)
    exact ⟨s', hs, by rw [he, abs_init fs0 h0]⟩
  intro sched
  induction sched with
  | nil => intro st h _; exact ⟨[], List.Sublist.refl _, rfl⟩
  | cons i sched ih =>
    intro st h inv
    obtain ⟨s', hs, he⟩ := ih _ _ (step_inv (planOf_bodyOK hb) inv i)
    simp only [run, List.foldl_cons] at he ⊢
    rcases step_refines_lock hb inv i with h1 | ⟨-, h1⟩
    · exact ⟨i :: s', hs.cons_cons i, by rw [he, h1]; rfl⟩
    · exact ⟨s', hs.cons i, by rw [he, h1]⟩

/-! ## (f) negative witness: without `O_EXCL` -/

namespace NoExcl

def x : P := .ws [[120]]
def y : P := .ws [[121]]

/-- "create `x` unless `y` is there" / "create `y` unless `x` is there": serially, at most one of the two
files ever exists -/
def planX : Plan Nat := fun fs => if (fs.get y).isNone then [.createExcl x] else []
def planY : Plan Nat := fun fs => if (fs.get x).isNone then [.createExcl y] else []
def plans : List (Plan Nat) := [planX, planY]

theorem plans_bodyOK : ∀ pl ∈ plans, BodyOK pl := by
  intro pl hpl fs c hc
  simp only [plans, List.mem_cons, List.not_mem_nil, or_false] at hpl
  rcases hpl with rfl | rfl
  · simp only [planX] at hc; split at hc <;> simp at hc; subst hc; simp [callWrites, callPaths, x]
  · simp only [planY] at hc; split at hc <;> simp at hc; subst hc; simp [callWrites, callPaths, y]

/-- both lock, both plan (neither file exists yet), both act, both unlock -/
def sched : List Nat := [0, 1, 0, 1, 0, 1]

end NoExcl

/-- **Without `O_EXCL` mutual exclusion fails**: two processes hold at once, mirroring
`Lock.mutex_fails_without_excl`. -/
theorem mutex_sys_fails_without_excl :
    (runX false 0 NoExcl.plans (init [] 2) [0, 1]).holdingCount = 2 := by decide

/-- … the first unlock removes the lock under the second holder … -/
theorem lock_iff_holder_sys_fails_without_excl :
    (runX false 0 NoExcl.plans (init [] 2) [0, 1, 0, 0]).holdingCount = 1 ∧
    ((runX false 0 NoExcl.plans (init [] 2) [0, 1, 0, 0]).fs.get .lock).isSome = false := by decide

/-- **… and serializability fails**: the schedule ends with BOTH files, which no serial execution of these
two commands — in either order, of both or of one — produces. -/
theorem serializable_fails_without_excl :
    let fin := (runX false 0 NoExcl.plans (init [] 2) NoExcl.sched).fs
    ((fin.get NoExcl.x).isSome = true ∧ (fin.get NoExcl.y).isSome = true) ∧
    ∀ order ∈ [[], [0], [1], [0, 1], [1, 0]],
      ¬ (((serialRun 0 NoExcl.plans [] order).get NoExcl.x).isSome = true ∧
         ((serialRun 0 NoExcl.plans [] order).get NoExcl.y).isSome = true) := by decide


/-- **… and NO serial execution whatsoever** — any sequence of these commands, with repetitions, of any
length — ever has both files. -/
theorem no_serial_run_has_both (order : List Nat) :
    (serialRun 0 NoExcl.plans [] order).get NoExcl.x = none ∨
    (serialRun 0 NoExcl.plans [] order).get NoExcl.y = none := by
  suffices H : ∀ (order : List Nat) (fs : FS Nat), (fs.get NoExcl.x = none ∨ fs.get NoExcl.y = none) →
      ((serialRun 0 NoExcl.plans fs order).get NoExcl.x = none ∨
       (serialRun 0 NoExcl.plans fs order).get NoExcl.y = none) from H order [] (.inl rfl)
  intro order
  induction order with
  | nil => intro fs h; exact h
  | cons i order ih =>
    intro fs hq
    simp only [serialRun, List.foldl_cons]
    refine ih _ ?_
    -- one complete block keeps "not both"
    have hx : (apply 0 fs (.createExcl .lock)).get NoExcl.x = fs.get NoExcl.x :=
      apply_get_frame 0 fs _ _ (by simp [callWrites, callPaths, NoExcl.x])
    have hy : (apply 0 fs (.createExcl .lock)).get NoExcl.y = fs.get NoExcl.y :=
      apply_get_frame 0 fs _ _ (by simp [callWrites, callPaths, NoExcl.y])
    have hun : ∀ (g : FS Nat) (q : P), q ≠ .lock → (apply 0 g (Call.unlink P.lock)).get q = g.get q :=
      fun g q hq' => apply_get_frame 0 g _ _ (by simp [callWrites, callPaths, hq'])
    simp only [fullBlock, replay_cons, replay_append, replay_nil]
    generalize apply 0 fs (.createExcl .lock) = fs' at hx hy ⊢
    rw [hun _ NoExcl.x (by simp [NoExcl.x]), hun _ NoExcl.y (by simp [NoExcl.y])]
    match i with
    | 0 =>
      show (replay 0 fs' (NoExcl.planX fs')).get NoExcl.x = none ∨ (replay 0 fs' (NoExcl.planX fs')).get NoExcl.y = none
      unfold NoExcl.planX
      by_cases hyy : (fs'.get NoExcl.y).isNone = true
      · right
        rw [if_pos hyy, replay_get_frame 0 _ _ _ (by
          intro c hc; simp at hc; subst hc; simp [callWrites, callPaths, NoExcl.x, NoExcl.y])]
        exact Option.isNone_iff_eq_none.1 hyy
      · rw [if_neg hyy, replay_nil, hx, hy]; exact hq
    | 1 =>
      show (replay 0 fs' (NoExcl.planY fs')).get NoExcl.x = none ∨ (replay 0 fs' (NoExcl.planY fs')).get NoExcl.y = none
      unfold NoExcl.planY
      by_cases hxx : (fs'.get NoExcl.x).isNone = true
      · left
        rw [if_pos hxx, replay_get_frame 0 _ _ _ (by
          intro c hc; simp at hc; subst hc; simp [callWrites, callPaths, NoExcl.x, NoExcl.y])]
        exact Option.isNone_iff_eq_none.1 hxx
      · rw [if_neg hxx, replay_nil, hx, hy]; exact hq
    | k + 2 =>
      show (replay 0 fs' []).get NoExcl.x = none ∨ (replay 0 fs' []).get NoExcl.y = none
      simp only [replay_nil, hx, hy]; exact hq

/-- with `O_EXCL` the same schedule is serial: process 1 is refused, only `x` is created -/
example :
    ((run 0 NoExcl.plans (init [] 2) NoExcl.sched).fs.get NoExcl.x).isSome = true ∧
    ((run 0 NoExcl.plans (init [] 2) NoExcl.sched).fs.get NoExcl.y).isSome = false ∧
    (run 0 NoExcl.plans (init [] 2) NoExcl.sched).fs = serialRun 0 NoExcl.plans [] [0] :=
  ⟨by decide, by decide, rfl⟩

/-! ## non-vacuity: three processes, plans that read the file system, an interleaved schedule -/

namespace Demo

def a : P := .ws [[97]]
def b : P := .ws [[98]]
def d : P := .ws [[100]]

/-- READS `a`: writes 7 into a new file `a`; if `a` is already there, only makes it read-only -/
def planA : Plan Nat := fun fs =>
  if (fs.get a).isNone then [.createExcl a, .writePart a, .write a 7] else [.chmod a 0o444]
/-- READS `a`: writes its content plus one into a new file `b` (an empty `b` if `a` is not a file) -/
def planB : Plan Nat := fun fs =>
  match fs.get a with
  | some (.file c _) => [.createExcl b, .write b (c + 1)]
  | _ => [.createExcl b]
/-- makes a directory -/
def planD : Plan Nat := fun _ => [.mkdir d]

def plans : List (Plan Nat) := [planA, planB, planD]

theorem plans_bodyOK : ∀ pl ∈ plans, BodyOK pl := by
  intro pl hpl fs c hc
  simp only [plans, List.mem_cons, List.not_mem_nil, or_false] at hpl
  rcases hpl with rfl | rfl | rfl
  · simp only [planA] at hc
    split at hc <;> simp only [List.mem_cons, List.not_mem_nil, or_false] at hc
    · rcases hc with rfl | rfl | rfl <;> simp [callWrites, callPaths, a]
    · subst hc; simp [callWrites, callPaths, a]
  · simp only [planB] at hc
    split at hc <;> simp only [List.mem_cons, List.not_mem_nil, or_false] at hc
    · rcases hc with rfl | rfl <;> simp [callWrites, callPaths, b]
    · subst hc; simp [callWrites, callPaths, b]
  · simp only [planD, List.mem_singleton] at hc
    subst hc; simp [callWrites, callPaths, d]

/-- 0 locks; 2 is refused; 0 makes two calls; 2 is scheduled again (nothing: it has exited); 0 finishes and
unlocks; 1 locks (and SEES the `a` that 0 wrote); 2 again (nothing); 1 works and unlocks -/
def sched : List Nat := [0, 2, 0, 0, 2, 0, 0, 1, 2, 1, 1, 1]

def fin : State Nat := run 0 plans (init [] 3) sched

/-- the final state: both completed, the third refused; `b` holds 8 = (what 0 wrote) + 1 -/
example : fin.fs = [(b, .file 8 0o600), (a, .file 7 0o600)] := rfl
example : fin.procs.map PSt.exited = [true, true, true] := rfl
example : fin.procs.map PSt.isHolding = [false, false, false] := rfl
example : (fin.fs.get .lock).isNone = true := rfl

/-- the history: two completed blocks, 0 then 1; the refused process owns none -/
example : (serialOf 0 plans [] 3 (sched.map .step)).order = [0, 1] := rfl
example : (serialOf 0 plans [] 3 (sched.map .step)).cur.isNone = true := rfl

/-- **the final file system is the serial execution 0 then 1 …** -/
example : fin.fs = serialRun 0 plans [] [0, 1] := rfl
/-- … as `serializable_quiescent` says … -/
example : fin.fs = serialRun 0 plans [] (serialOf 0 plans [] 3 (sched.map .step)).order := by
  have := serializable_quiescent (emp := 0) plans_bodyOK (fs0 := []) rfl 3 (sched.map .step)
  rw [reach_run] at this
  exact this ((no_holder_iff _).1 rfl)
/-- **… and differs from the other order** (1 first does not see `a`: `b` stays empty) -/
example : serialRun 0 plans [] [1, 0] = [(a, .file 7 0o600), (b, .file 0 0o600)] := rfl
example : fin.fs ≠ serialRun 0 plans [] [1, 0] := by
  intro h
  have h2 : (fin.fs.get b) = (serialRun 0 plans [] [1, 0]).get b := by rw [h]
  revert h2
  show (some (Entry.file 8 0o600) : Option (Entry Nat)) = some (Entry.file 0 0o600) → False
  intro h2; cases h2

/-- in the middle of the run: 0 holds, has created `a` and still has to write it; the lock exists; exactly
one holder; the history has the block in progress -/
example : (run 0 plans (init [] 3) [0, 2, 0]).procs.map PSt.isHolding = [true, false, false] := rfl
example : (run 0 plans (init [] 3) [0, 2, 0]).holdingCount = 1 := rfl
example : ((run 0 plans (init [] 3) [0, 2, 0]).fs.get .lock).isSome = true := rfl
example : ((serialOf 0 plans [] 3 ([0, 2, 0].map .step)).cur.map (·.1)) = some 0 := rfl
example : ((serialOf 0 plans [] 3 ([0, 2, 0].map .step)).curCalls.length) = 2 := rfl

/-- the refused process retries after everybody is done, gets the lock, works, unlocks: three serial blocks -/
def evs : List Ev := sched.map .step ++ [.retry 2, .step 2, .step 2, .step 2]
example : (reach 0 plans [] 3 evs).fs = serialRun 0 plans [] [0, 1, 2] := rfl
example : (serialOf 0 plans [] 3 evs).order = [0, 1, 2] := rfl
example : ((reach 0 plans [] 3 evs).fs.get d).isSome = true := rfl

/-- a command that fails after its first call still unlocks: `failing planA 1` -/
example : (run 0 [failing planA 1] (init [] 1) [0, 0, 0]).fs = [(a, .file 0 0o600)] := rfl
example : (run 0 [failing planA 1] (init [] 1) [0, 0, 0]).procs.map PSt.exited = [true] := rfl

end Demo

#print axioms mutex_sys
#print axioms mutex_sys_index
#print axioms lock_iff_holder_sys
#print axioms step_idle_fs
#print axioms refused_never_acts
#print axioms refused_changes_nothing
#print axioms refused_stays
#print axioms serializable
#print axioms serializable_quiescent
#print axioms history_sound
#print axioms all_exited_unlocked
#print axioms retry_acquires
#print axioms lock_busy_refuses
#print axioms commit_plan_bodyOK
#print axioms checkout_plan_bodyOK
#print axioms dudPlan_bodyOK
#print axioms concurrent_dud_commands
#print axioms commit_block_is_command
#print axioms checkout_block_is_command
#print axioms commit_block_final
#print axioms checkout_block_final
#print axioms step_refines_lock
#print axioms run_refines_lock
#print axioms mutex_sys_fails_without_excl
#print axioms lock_iff_holder_sys_fails_without_excl
#print axioms serializable_fails_without_excl
#print axioms no_serial_run_has_both

end Dud.Sys.Conc
