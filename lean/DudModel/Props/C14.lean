import DudModel.Hasher
import DudModel.Generated.Facts
/-!
# C14 (reader): `checksum.ChecksumBuffer` hashes exactly the reader's content

Whatever the prior state of the pooled hasher, however the reader cuts its content into `Read`
results (empty reads with a nil error included) and whatever the (positive) buffer size, the digest
is the spec hash of the concatenated content; with a `TeeReader` in front, the sink receives exactly
the hashed bytes.  Without the `h.Reset()` the statement is false (`no_reset_breaks`).
-/
namespace Dud.Hasher

variable {σ : Type}

theorem splitChunk_flatten {n : Nat} (hn : 0 < n) :
    ∀ (fuel : Nat) (c : Bytes), c.length < fuel → (splitChunk n fuel c).flatten = c := by
  intro fuel
  induction fuel with
  | zero => intro c h; omega
  | succ fuel ih =>
    intro c h
    simp only [splitChunk]
    split
    · simp
    · rw [List.flatten_cons, ih (c.drop n) (by simp only [List.length_drop]; omega),
        List.take_append_drop]

theorem splitChunk_le (n : Nat) :
    ∀ (fuel : Nat) (c : Bytes), ∀ r ∈ splitChunk n fuel c, r.length ≤ n := by
  intro fuel
  induction fuel with
  | zero => intro c r h; simp [splitChunk] at h
  | succ fuel ih =>
    intro c r h
    simp only [splitChunk] at h
    split at h
    · simp only [List.mem_singleton] at h; subst h; assumption
    · rcases List.mem_cons.mp h with h | h
      · subst h; simp only [List.length_take]; omega
      · exact ih _ _ h

/-- Every `Read` result fits the buffer. -/
theorem readResults_le (n : Nat) (reads : List Bytes) : ∀ r ∈ readResults n reads, r.length ≤ n := by
  induction reads with
  | nil => intro r h; simp [readResults] at h
  | cons c rest ih =>
    intro r h
    simp only [readResults, List.mem_append] at h
    rcases h with h | h
    · exact splitChunk_le n _ c r h
    · exact ih r h

/-- The `Read` results concatenate to the reader's content. -/
theorem readResults_flatten {n : Nat} (hn : 0 < n) (reads : List Bytes) :
    (readResults n reads).flatten = reads.flatten := by
  induction reads with
  | nil => rfl
  | cons c rest ih =>
    simp only [readResults, List.flatten_append, List.flatten_cons, ih,
      splitChunk_flatten hn (c.length + 1) c (Nat.lt_succ_self _)]

/-- If the source never has more than a bufferful ready, `Read` returns it as is. -/
theorem readResults_id {n : Nat} {reads : List Bytes} (h : ∀ r ∈ reads, r.length ≤ n) :
    readResults n reads = reads := by
  induction reads with
  | nil => rfl
  | cons c rest ih =>
    have hc : c.length ≤ n := h c (List.mem_cons_self ..)
    simp only [readResults, splitChunk, hc, if_true,
      ih (fun r hr => h r (List.mem_cons_of_mem _ hr)), List.singleton_append]

/-- `io.CopyBuffer` writes the non-empty read results, in order. -/
theorem copyLoop_eq (hs : HasherSpec σ) (cs : List Bytes) (s : σ) :
    copyLoop hs cs s = (cs.filter (fun c => decide (c.length > 0))).foldl hs.write s := by
  induction cs generalizing s with
  | nil => rfl
  | cons c rest ih =>
    simp only [copyLoop, ih, List.filter_cons]
    by_cases h : c.length > 0 <;> simp [h]

theorem flatten_filter_nonempty (cs : List Bytes) :
    (cs.filter (fun c => decide (c.length > 0))).flatten = cs.flatten := by
  induction cs with
  | nil => rfl
  | cons c rest ih =>
    simp only [List.filter_cons]
    by_cases h : c.length > 0
    · simp [h, ih]
    · have : c = [] := List.eq_nil_of_length_eq_zero (by omega)
      subst this; simp [ih]

theorem teeCopyLoop_eq (hs : HasherSpec σ) (cs : List Bytes) (s : σ) (sink : Bytes) :
    teeCopyLoop hs cs (s, sink) = (copyLoop hs cs s, sink ++ cs.flatten) := by
  induction cs generalizing s sink with
  | nil => simp [teeCopyLoop, copyLoop]
  | cons c rest ih =>
    simp only [teeCopyLoop, copyLoop, ih, List.flatten_cons]
    by_cases h : c.length > 0
    · simp [h]
    · have : c = [] := List.eq_nil_of_length_eq_zero (by omega)
      subst this; simp

/-- **C14 reader.**  For every list of reads (empty ones included), every dirty pooled hasher
state `s0` and every positive buffer size, `ChecksumBuffer` returns the hash of the content. -/
theorem checksum_reader {hs : HasherSpec σ} {Hh : Bytes → Bytes} (hc : Contract hs Hh)
    {bufSize : Nat} (hb : 0 < bufSize) (reads : List Bytes) (s0 : σ) :
    checksumBuffer hs true bufSize reads s0 = Hh reads.flatten := by
  simp only [checksumBuffer, if_true, copyLoop_eq, hc s0, flatten_filter_nonempty,
    readResults_flatten hb]

/-- Same, phrased with the content and any chunking of it. -/
theorem checksum_chunking {hs : HasherSpec σ} {Hh : Bytes → Bytes} (hc : Contract hs Hh)
    {bufSize : Nat} (hb : 0 < bufSize) {c : Bytes} {reads : List Bytes}
    (hch : Chunking bufSize c reads) (s0 : σ) :
    checksumBuffer hs true bufSize reads s0 = Hh c := by
  rw [checksum_reader hc hb, hch.1]

/-- The digest does not depend on how the content is chunked, nor on the two buffer sizes. -/
theorem checksum_chunking_irrelevant {hs : HasherSpec σ} {Hh : Bytes → Bytes} (hc : Contract hs Hh)
    {b1 b2 : Nat} (h1 : 0 < b1) (h2 : 0 < b2) {c : Bytes} {r1 r2 : List Bytes}
    (hc1 : Chunking b1 c r1) (hc2 : Chunking b2 c r2) (s1 s2 : σ) :
    checksumBuffer hs true b1 r1 s1 = checksumBuffer hs true b2 r2 s2 := by
  rw [checksum_chunking hc h1 hc1, checksum_chunking hc h2 hc2]

/-- **Tee.**  With `io.TeeReader(reader, sink)` the digest is the hash of the content and the sink
receives exactly the hashed bytes (appended to what it held). -/
theorem tee_copy {hs : HasherSpec σ} {Hh : Bytes → Bytes} (hc : Contract hs Hh)
    {bufSize : Nat} (hb : 0 < bufSize) (reads : List Bytes) (s0 : σ) (sink0 : Bytes) :
    checksumBufferTee hs true bufSize reads s0 sink0
      = (Hh reads.flatten, sink0 ++ reads.flatten) := by
  simp only [checksumBufferTee, if_true, teeCopyLoop_eq, copyLoop_eq, hc s0,
    flatten_filter_nonempty, readResults_flatten hb]

/-- The tee does not disturb the digest. -/
theorem tee_digest {hs : HasherSpec σ} (resetFirst : Bool) (bufSize : Nat) (reads : List Bytes)
    (s0 : σ) (sink0 : Bytes) :
    (checksumBufferTee hs resetFirst bufSize reads s0 sink0).1
      = checksumBuffer hs resetFirst bufSize reads s0 := by
  simp only [checksumBufferTee, checksumBuffer, teeCopyLoop_eq]

theorem toy_foldl (cs : List Bytes) (acc : Bytes) :
    cs.foldl (fun (s c : Bytes) => s ++ c) acc = acc ++ cs.flatten := by
  induction cs generalizing acc with
  | nil => simp
  | cons c rest ih => rw [List.foldl_cons, ih, List.flatten_cons, List.append_assoc]

theorem toy_contract : Contract toy id := by
  intro s chunks
  show List.foldl (fun (s c : Bytes) => s ++ c) [] chunks = chunks.flatten
  rw [toy_foldl, List.nil_append]

/-- **Negative witness.**  Without `Reset` a dirty pooled hasher yields a wrong digest, although the
hasher satisfies the contract: the `resetFirst = true` obligation is not vacuous. -/
theorem no_reset_breaks :
    ∃ (hs : HasherSpec Bytes) (Hh : Bytes → Bytes) (s0 : Bytes) (reads : List Bytes),
      Contract hs Hh ∧ checksumBuffer hs false 4 reads s0 ≠ Hh reads.flatten :=
  ⟨toy, id, [7], [[1, 2], [], [3]], toy_contract, by decide⟩

/-- **Regenerated-fact obligation.**  In the Go source `h.Reset()` precedes `io.CopyBuffer`. -/
theorem reset_fact_obligation : Dud.Facts.hasherResetBeforeCopy = true := by decide

/-- The model instantiated with the extracted fact. -/
theorem checksum_reader_fact {hs : HasherSpec σ} {Hh : Bytes → Bytes} (hc : Contract hs Hh)
    {bufSize : Nat} (hb : 0 < bufSize) (reads : List Bytes) (s0 : σ) :
    checksumBuffer hs Dud.Facts.hasherResetBeforeCopy bufSize reads s0 = Hh reads.flatten := by
  rw [reset_fact_obligation]; exact checksum_reader hc hb reads s0

/-! ## Non-vacuity -/

-- `Contract` is satisfiable (toy hasher), with a dirty state, empty reads and an over-long burst
example : Contract toy id ∧ (0 : Nat) < 4 ∧
    checksumBuffer toy true 4 [[1, 2], [], [3, 4, 5, 6, 7, 8, 9], []] [42, 42]
      = id ([[1, 2], [], [3, 4, 5, 6, 7, 8, 9], []] : List Bytes).flatten :=
  ⟨toy_contract, by decide, checksum_reader toy_contract (by decide) _ _⟩
-- the over-long burst really is re-cut by the 4-byte buffer
example : readResults 4 [[1, 2], [], [3, 4, 5, 6, 7, 8, 9, 10, 11], []]
    = [[1, 2], [], [3, 4, 5, 6], [7, 8, 9, 10], [11], []] := by decide
example : Chunking 4 [1, 2, 3, 4, 5] [[1, 2], [], [3, 4, 5]] := by
  constructor
  · decide
  · intro r hr; simp only [List.mem_cons, List.not_mem_nil, or_false] at hr
    rcases hr with rfl | rfl | rfl <;> decide
example : Chunking 2 [1, 2, 3, 4, 5] [[1, 2], [3], [4, 5], []] := by
  constructor
  · decide
  · intro r hr; simp only [List.mem_cons, List.not_mem_nil, or_false] at hr
    rcases hr with rfl | rfl | rfl | rfl <;> decide
example : checksumBufferTee toy true 4 [[1, 2], [], [3, 4, 5, 6, 7]] [42] [9]
    = ([1, 2, 3, 4, 5, 6, 7], [9, 1, 2, 3, 4, 5, 6, 7]) := by decide
-- `bufSize > 0` is needed by the model (Go panics instead): a zero-length buffer loses data
example : checksumBuffer toy true 0 [[1, 2]] [] ≠ [1, 2] := by decide

end Dud.Hasher

#print axioms Dud.Hasher.readResults_le
#print axioms Dud.Hasher.readResults_flatten
#print axioms Dud.Hasher.readResults_id
#print axioms Dud.Hasher.checksum_reader
#print axioms Dud.Hasher.checksum_chunking
#print axioms Dud.Hasher.checksum_chunking_irrelevant
#print axioms Dud.Hasher.tee_copy
#print axioms Dud.Hasher.tee_digest
#print axioms Dud.Hasher.toy_contract
#print axioms Dud.Hasher.no_reset_breaks
#print axioms Dud.Hasher.reset_fact_obligation
#print axioms Dud.Hasher.checksum_reader_fact
