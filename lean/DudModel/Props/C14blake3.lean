import DudModel.Lemmas.Blake3Block
import DudModel.Props.C14
/-!
# C14 (hasher): the incremental BLAKE3 hasher equals the recursive tree specification

`Props/C14.lean` proves that `checksum.ChecksumBuffer` hashes exactly the reader's content, for every
way the reader cuts it into `Read` results, every buffer size and every dirty pooled hasher — but
ASSUMING `Dud.Hasher.Contract hs Hh`: "after `Reset` the digest depends only on the concatenation of
the written pieces and equals `Hh` of it".  This file DISCHARGES that contract for a faithful model
of an incremental BLAKE3 hasher (`DudModel/Blake3Incr.lean`, in the style of the BLAKE3 reference
implementation: open chunk, chunk counter, stack of subtree chaining values with the push-and-merge
discipline, lazy finalisation with ROOT only on the last compression), against the total recursive
specification of the BLAKE3 paper (`DudModel/Blake3Spec.lean`: `hashSpec`).

Main statements (all for inputs of ANY length, no bound anywhere):

* `incr_write_append`     `write (write s a) b = write s (a ++ b)`, for every state.
* `incr_correct`          `sum (chunks.foldl write (reset s0)) = hashSpec chunks.flatten` for every list
                          of pieces (empty ones included) and every prior state `s0`.
* `incr_contract`         hence `Contract (incrHasher P) (hashSpec P)`.
* `chunk_state_correct`, `block_correct`, `block_contract`: the same for the second machine, in which
  the open chunk is not kept as bytes but as chaining value + 64-byte block buffer + block count,
  over an abstract block compression.
* `real_contract`         the instance with the real compression function `Blake3.compress`.
* `blake3_checksum_reader`, `blake3_checksum_chunking_irrelevant`, `blake3_tee_copy` (and the
  `…_real` versions): the theorems of `Props/C14.lean` with the contract hypothesis removed.

What is NOT covered.
* The compression function is abstract in every theorem (`Params` / `BlockParams`): the theorems say
  that the streaming machine computes the SAME tree of compressions as the specification, whatever
  the compression is.  That the real instance `hashSpecReal` is BLAKE3 is checked on official test
  vectors (kernel-evaluated `example`s below) and against the driver's `Blake3.hash` (`#eval` tests,
  NOT theorems); no theorem relates `hashSpecReal` to `Blake3.hash`, which is a `partial def`.
* The model is of the reference-style algorithm, not a line-by-line model of `zeebo/blake3`'s Go/asm
  code.  That library buffers 8 KiB, compresses 8 chunks at a time with SIMD, keeps its stack indexed
  by tree level with an occupancy bit set, and batches parent compressions; its finalisation walks
  the occupied levels from the lowest up.  The occupancy bit set is the binary-counter structure of
  `Stk` below, but that code is not modelled here.  Keyed hashing / key derivation and extended output
  (more than 32 bytes) are out of scope (dud uses neither).
* Machine integers: counters are `Nat`; the 2^64-chunk limit of the real counter is ignored.
-/
namespace Dud.Blake3Incr
open Dud.Blake3Spec Dud.Hasher

variable {CV Digest : Type}

/-! ## Tree layer -/

/-- **Writes compose.**  Writing `a` and then `b` leaves the hasher in exactly the state that writing
`a ++ b` at once does — for EVERY state `s` (for states that are not well-formed, i.e. hold more than
1024 bytes in the open chunk, both sides are `s`: such states are unreachable and stuck). -/
theorem incr_write_append (P : Params CV Digest) (s : State CV) (a b : Bytes) :
    write P (write P s a) b = write P s (a ++ b) :=
  write_append_all P s a b

/-- Every state reachable from a reset by writes is well-formed. -/
theorem incr_reachable_wf (P : Params CV Digest) (s0 : State CV) (chunks : List Bytes) :
    WF (chunks.foldl (write P) (reset s0)) :=
  foldl_write_wf P chunks (reset_wf s0)

/-- Any sequence of writes is one write of the concatenation. -/
theorem incr_writes_flatten (P : Params CV Digest) (s0 : State CV) (chunks : List Bytes) :
    chunks.foldl (write P) (reset s0) = write P (reset s0) chunks.flatten := by
  rw [foldl_write_eq P chunks (reset_wf s0), write_eq_foldl P (reset_wf s0)]

/-- **Correctness of the incremental hasher.**  Reset (from ANY prior state `s0`), write the pieces
`chunks` one after the other (any number, any sizes, empty ones included), and finalise: the result
is the recursive tree hash of the concatenation. -/
theorem incr_correct (P : Params CV Digest) (s0 : State CV) (chunks : List Bytes) :
    sum P (chunks.foldl (write P) (reset s0)) = hashSpec P chunks.flatten := by
  rw [foldl_write_eq P chunks (reset_wf s0)]
  have := inv_foldl P chunks.flatten (inv_reset P s0)
  rw [List.nil_append] at this
  exact inv_sum P this

/-- The digest depends only on the concatenation of the pieces: not on how it was cut, and not on
what the two hashers had computed before their resets. -/
theorem incr_chunking_irrelevant (P : Params CV Digest) (s1 s2 : State CV) (c1 c2 : List Bytes)
    (h : c1.flatten = c2.flatten) :
    sum P (c1.foldl (write P) (reset s1)) = sum P (c2.foldl (write P) (reset s2)) := by
  rw [incr_correct, incr_correct, h]

/-- `Sum` may be called at any time and does not disturb the stream (`sum` is a function of the state
and returns no new state): after further writes the digest is that of everything written. -/
theorem incr_sum_then_more (P : Params CV Digest) (s0 : State CV) (chunks more : List Bytes) :
    sum P (more.foldl (write P) (chunks.foldl (write P) (reset s0)))
      = hashSpec P (chunks.flatten ++ more.flatten) := by
  rw [← List.foldl_append, incr_correct, List.flatten_append]

/-- The stack never holds more entries than the chunk count has binary digits: if fewer than `2^k`
chunks have been completed, the stack depth is at most `k` (so 64 entries suffice for a 64-bit
chunk counter — the reference implementation's fixed-size stack cannot overflow). -/
theorem stk_depth (P : Params CV Digest) {j t : Nat} {pre : List Bytes} {st : List CV}
    (h : Stk P j t pre st) : ∀ k, t < 2 ^ k → st.length ≤ k := by
  induction h with
  | zero => intro k _; simp
  | even h' ih =>
    rename_i j u pre st
    intro k hk
    cases k with
    | zero =>
      have := h'.stack_length_le
      simp only [Nat.pow_zero] at hk; omega
    | succ k => rw [Nat.pow_succ] at hk; exact Nat.le_succ_of_le (ih k (by omega))
  | odd h' _ ih =>
    rename_i j u pre st seg
    intro k hk
    cases k with
    | zero => simp only [Nat.pow_zero] at hk; omega
    | succ k =>
      rw [Nat.pow_succ] at hk
      simp only [List.length_cons]
      exact Nat.succ_le_succ (ih k (by omega))

theorem incr_stack_depth (P : Params CV Digest) (s0 : State CV) (chunks : List Bytes) (k : Nat)
    (h : (chunks.foldl (write P) (reset s0)).n < 2 ^ k) :
    (chunks.foldl (write P) (reset s0)).stack.length ≤ k := by
  rw [foldl_write_eq P chunks (reset_wf s0)] at h ⊢
  obtain ⟨done, _, _, _, _, _, hstk⟩ := inv_foldl P chunks.flatten (inv_reset P s0)
  exact stk_depth P hstk k h

/-- **The contract assumed in `Props/C14.lean` holds** for the incremental hasher, with the recursive
tree specification as the hash function — for every compression interface `P`. -/
theorem incr_contract (P : Params CV Bytes) : Contract (incrHasher P) (hashSpec P) :=
  fun s chunks => incr_correct P s chunks

/-! ## Block layer -/

/-- **The chunk state is correct**: absorbing the bytes of a chunk in ANY pieces (empty ones included)
and asking for the chaining value / the root output gives the one-shot blockwise `chunkCVOf` /
`chunkRootOf` of the concatenation, and `len` is the number of bytes absorbed. -/
theorem chunk_state_correct (B : BlockParams CV Digest) (ctr : Nat) (pieces : List Bytes) :
    (pieces.foldl (ChunkState.update B ctr) (ChunkState.init B)).outCV B ctr
        = chunkCVOf B pieces.flatten ctr ∧
    (pieces.foldl (ChunkState.update B ctr) (ChunkState.init B)).outRoot B ctr
        = chunkRootOf B pieces.flatten ctr ∧
    (pieces.foldl (ChunkState.update B ctr) (ChunkState.init B)).len = pieces.flatten.length := by
  have hrel := chunkRel_foldl B ctr pieces.flatten (chunkRel_init B ctr)
  rw [List.nil_append] at hrel
  rw [foldl_update_eq B ctr pieces (c := ChunkState.init B) (by simp [CWF, ChunkState.init])]
  exact ⟨chunkRel_outCV B ctr hrel, chunkRel_outRoot B ctr hrel, hrel.2.1⟩

/-- Writes compose, for every well-formed state of the block-buffering hasher (block buffer at most
64 bytes, at most 1024 bytes absorbed by the open chunk: `breset_wf`, `bwrite_wf` — every reachable
state). -/
theorem block_write_append (B : BlockParams CV Digest) {s : BState CV} (h : BWF s) (a b : Bytes) :
    bwrite B (bwrite B s a) b = bwrite B s (a ++ b) :=
  bwrite_append B h a b

theorem block_reachable_wf (B : BlockParams CV Digest) (s0 : BState CV) (chunks : List Bytes) :
    BWF (chunks.foldl (bwrite B) (breset B s0)) := by
  rw [foldl_bwrite_eq B chunks (breset_wf B s0)]
  exact foldl_bpushByte_wf B _ (breset_wf B s0)

/-- The block-buffering hasher and the tree-layer hasher, fed the same pieces, stay in corresponding
states (same counter, same stack, chunk state = the open chunk's bytes absorbed). -/
theorem block_simulates (B : BlockParams CV Digest) (sb : BState CV) (s : State CV)
    (chunks : List Bytes) :
    Sim B (chunks.foldl (bwrite B) (breset B sb)) (chunks.foldl (write B.toParams) (reset s)) := by
  rw [foldl_bwrite_eq B chunks (breset_wf B sb), foldl_write_eq B.toParams chunks (reset_wf s)]
  exact sim_foldl B chunks.flatten (sim_reset B sb s)

/-- **Correctness of the block-buffering incremental hasher**, against the specification whose chunk
functions are the one-shot blockwise `chunkCVOf` / `chunkRootOf`. -/
theorem block_correct (B : BlockParams CV Digest) (s0 : BState CV) (chunks : List Bytes) :
    bsum B (chunks.foldl (bwrite B) (breset B s0)) = hashSpec B.toParams chunks.flatten := by
  rw [sim_sum B (block_simulates B s0 (reset ⟨[], 0, []⟩) chunks), incr_correct]

theorem block_contract (B : BlockParams CV Bytes) :
    Contract (blockHasher B) (hashSpec B.toParams) :=
  fun s chunks => block_correct B s chunks

/-! ### The hypotheses `WF` / `BWF` are decidable and satisfiable on non-trivial states -/

instance (s : State CV) : Decidable (WF s) := inferInstanceAs (Decidable (s.cur.length ≤ 1024))
instance (s : BState CV) : Decidable (BWF s) :=
  inferInstanceAs (Decidable (s.chunk.buf.length ≤ 64 ∧ s.chunk.len ≤ 1024))

/-- A symbolic block compression interface: a chaining value records how many block compressions
produced it and the flags/counter of the last one. -/
def countBlockParams : BlockParams (List Nat) (List Nat) where
  iv := []
  compressBlock := fun cv b ctr start => cv ++ [1000 * ctr + 10 * b.length + (if start then 1 else 0)]
  finalCV := fun cv b ctr start => cv ++ [1000 * ctr + 10 * b.length + (if start then 1 else 0), 2]
  finalRoot := fun cv b ctr start => cv ++ [1000 * ctr + 10 * b.length + (if start then 1 else 0), 2, 8]
  parentCV := fun l r => l ++ r ++ [4]
  parentRoot := fun l r => l ++ r ++ [4, 8]

-- after 1100 bytes in three writes: one completed chunk on the stack, 76 bytes in the open chunk, of
-- which one block has been compressed and 12 bytes are buffered — a well-formed state
example :
    let s := [List.replicate 1000 (0 : UInt8), [], List.replicate 100 0].foldl
      (bwrite countBlockParams) (breset countBlockParams ⟨⟨[7], [1, 2, 3], 9⟩, 5, [[1]]⟩)
    BWF s ∧ s.n = 1 ∧ s.stack.length = 1 ∧ s.chunk.blocks = 1 ∧ s.chunk.buf.length = 12 := by
  decide +kernel
-- a full block buffer is NOT compressed until more input arrives (the last block needs CHUNK_END)
example :
    let s := bwrite countBlockParams (breset countBlockParams ⟨⟨[], [], 0⟩, 0, []⟩)
      (List.replicate 128 (0 : UInt8))
    s.chunk.blocks = 1 ∧ s.chunk.buf.length = 64 := by decide +kernel
-- `block_correct` on that stream, by evaluation of both sides (an instance of the theorem)
example :
    bsum countBlockParams ([List.replicate 1000 (0 : UInt8), [], List.replicate 100 0].foldl
      (bwrite countBlockParams) (breset countBlockParams ⟨⟨[7], [1, 2, 3], 9⟩, 5, [[1]]⟩))
    = hashSpec countBlockParams.toParams (List.replicate 1100 0) := by decide +kernel
-- `WF` on a non-trivial tree-layer state, and an instance of `incr_write_append` by evaluation
example : WF (write countBlockParams.toParams (reset ⟨[], 0, []⟩) (List.replicate 3000 0)) := by
  decide +kernel
example :
    write countBlockParams.toParams (write countBlockParams.toParams ⟨List.replicate 1024 1, 0, []⟩
      (List.replicate 1500 2)) (List.replicate 700 3)
    = write countBlockParams.toParams ⟨List.replicate 1024 1, 0, []⟩
      (List.replicate 1500 2 ++ List.replicate 700 3) := incr_write_append _ _ _ _

/-! ## The real compression function -/

/-- The incremental BLAKE3 hasher over `Blake3.compress`. -/
def realHasher : HasherSpec (BState (Array UInt32)) := blockHasher realBlockParams

/-- **`Contract` for the real hasher**: streaming BLAKE3 = `hashSpecReal`. -/
theorem real_contract : Contract realHasher hashSpecReal :=
  block_contract realBlockParams

/-! ## `Props/C14.lean` without the contract hypothesis -/

/-- **C14 reader, unconditional** (tree-layer hasher, any compression interface). -/
theorem blake3_checksum_reader (P : Params CV Bytes) {bufSize : Nat} (hb : 0 < bufSize)
    (reads : List Bytes) (s0 : State CV) :
    checksumBuffer (incrHasher P) true bufSize reads s0 = hashSpec P reads.flatten :=
  checksum_reader (incr_contract P) hb reads s0

/-- **C14: independent of read chunking, buffer size and earlier checksum computations.** -/
theorem blake3_checksum_chunking_irrelevant (P : Params CV Bytes) {b1 b2 : Nat} (h1 : 0 < b1)
    (h2 : 0 < b2) {c : Bytes} {r1 r2 : List Bytes} (hc1 : Chunking b1 c r1) (hc2 : Chunking b2 c r2)
    (s1 s2 : State CV) :
    checksumBuffer (incrHasher P) true b1 r1 s1 = checksumBuffer (incrHasher P) true b2 r2 s2 :=
  checksum_chunking_irrelevant (incr_contract P) h1 h2 hc1 hc2 s1 s2

/-- **Tee, unconditional.** -/
theorem blake3_tee_copy (P : Params CV Bytes) {bufSize : Nat} (hb : 0 < bufSize)
    (reads : List Bytes) (s0 : State CV) (sink0 : Bytes) :
    checksumBufferTee (incrHasher P) true bufSize reads s0 sink0
      = (hashSpec P reads.flatten, sink0 ++ reads.flatten) :=
  tee_copy (incr_contract P) hb reads s0 sink0

/-- C14 reader for the block-buffering hasher over the real compression function. -/
theorem blake3_checksum_reader_real {bufSize : Nat} (hb : 0 < bufSize) (reads : List Bytes)
    (s0 : BState (Array UInt32)) :
    checksumBuffer realHasher true bufSize reads s0 = hashSpecReal reads.flatten :=
  checksum_reader real_contract hb reads s0

theorem blake3_checksum_chunking_irrelevant_real {b1 b2 : Nat} (h1 : 0 < b1) (h2 : 0 < b2)
    {c : Bytes} {r1 r2 : List Bytes} (hc1 : Chunking b1 c r1) (hc2 : Chunking b2 c r2)
    (s1 s2 : BState (Array UInt32)) :
    checksumBuffer realHasher true b1 r1 s1 = checksumBuffer realHasher true b2 r2 s2 :=
  checksum_chunking_irrelevant real_contract h1 h2 hc1 hc2 s1 s2

theorem blake3_tee_copy_real {bufSize : Nat} (hb : 0 < bufSize) (reads : List Bytes)
    (s0 : BState (Array UInt32)) (sink0 : Bytes) :
    checksumBufferTee realHasher true bufSize reads s0 sink0
      = (hashSpecReal reads.flatten, sink0 ++ reads.flatten) :=
  tee_copy real_contract hb reads s0 sink0

/-- The extracted fact "`h.Reset()` precedes `io.CopyBuffer`" plugged in. -/
theorem blake3_checksum_reader_fact_real {bufSize : Nat} (hb : 0 < bufSize) (reads : List Bytes)
    (s0 : BState (Array UInt32)) :
    checksumBuffer realHasher Dud.Facts.hasherResetBeforeCopy bufSize reads s0
      = hashSpecReal reads.flatten :=
  checksum_reader_fact real_contract hb reads s0

-- the hypotheses of the chunking theorem are satisfiable: two different cuts of the same content,
-- two buffer sizes, two different dirty hashers
example (s1 s2 : BState (Array UInt32)) :
    checksumBuffer realHasher true 4 [[1, 2], [], [3, 4, 5]] s1
      = checksumBuffer realHasher true 2 [[1, 2], [3], [4, 5], []] s2 :=
  blake3_checksum_chunking_irrelevant_real (c := [1, 2, 3, 4, 5]) (by decide) (by decide)
    (by unfold Chunking; decide) (by unfold Chunking; decide) s1 s2

/-! ## Sanity of the specification: the tree shape

A free ("symbolic") compression interface: chaining values are the trees themselves, so equal
outputs mean the same tree of compressions with the same counters and the same root flag. -/

inductive Shape where
  | chunk (len counter : Nat) (root : Bool)
  | parent (l r : Shape) (root : Bool)
deriving DecidableEq, Repr

def shapeParams : Params Shape Shape where
  chunkCV := fun b c => .chunk b.length c false
  chunkRoot := fun b c => .chunk b.length c true
  parentCV := fun l r => .parent l r false
  parentRoot := fun l r => .parent l r true

-- 4100 bytes = 5 chunks: left subtree = 4 chunks (largest power of two below 5), right = the rest
example : hashSpec shapeParams (List.replicate 4100 0) =
    .parent
      (.parent (.parent (.chunk 1024 0 false) (.chunk 1024 1 false) false)
               (.parent (.chunk 1024 2 false) (.chunk 1024 3 false) false) false)
      (.chunk 4 4 false) true := by decide +kernel
-- exactly 3 full chunks: 2 + 1, and the last chunk is a full one
example : hashSpec shapeParams (List.replicate 3072 0) =
    .parent (.parent (.chunk 1024 0 false) (.chunk 1024 1 false) false) (.chunk 1024 2 false) true := by
  decide +kernel
-- at most one chunk: the chunk is the root; the empty input is one empty chunk
example : hashSpec shapeParams (List.replicate 1024 0) = .chunk 1024 0 true := by decide +kernel
example : hashSpec shapeParams [] = .chunk 0 0 true := by decide +kernel
example : (List.range 12).map leftLen = [1, 1, 1, 2, 2, 4, 4, 4, 4, 8, 8, 8] := by decide +kernel

-- the streaming machine on a dirty state, with pieces straddling chunk boundaries and empty pieces,
-- evaluated: same symbolic tree (an instance of `incr_correct`, here by evaluation)
example :
    sum shapeParams
      ([List.replicate 1000 0, [], List.replicate 2073 0, List.replicate 1027 0].foldl
        (write shapeParams) (reset ⟨List.replicate 7 1, 5, [.chunk 9 9 false]⟩))
    = hashSpec shapeParams (List.replicate 4100 0) := by decide +kernel
-- the state in between: 4 completed chunks merged into ONE stack entry, 4 bytes in the open chunk
example :
    let s := [List.replicate 1000 (0 : UInt8), List.replicate 3100 0].foldl (write shapeParams)
      (reset ⟨[], 0, []⟩)
    s.n = 4 ∧ s.cur.length = 4 ∧ s.stack.length = 1 := by decide +kernel
-- 7 completed chunks: three stack entries (4 + 2 + 1), top = the single last chunk
example :
    let s := write shapeParams (reset ⟨[], 0, []⟩) (List.replicate 7169 (0 : UInt8))
    s.n = 7 ∧ s.stack.length = 3 ∧ s.stack.head? = some (.chunk 1024 6 false) := by decide +kernel
-- a full open chunk is NOT closed until more input arrives
example :
    let s := write shapeParams (reset ⟨[], 0, []⟩) (List.replicate 2048 (0 : UInt8))
    s.n = 1 ∧ s.cur.length = 1024 := by decide +kernel

/-! ## The real instance against the official test vectors

Kernel evaluation (`decide +kernel`: no `native_decide`, no extra axioms) of the SPECIFICATION with
the real compression function on official BLAKE3 test vectors (input = bytes 0,1,…,250 repeated;
digests from `corpus/blake3_vectors.json` = the first 32 bytes of the official `hash` outputs).
Kernel evaluation of `Blake3.compress` takes about two seconds per compression, so only the two
one-compression vectors are checked here in one go; the vectors of 1024, 1025, 2048, 2049 and 3073
bytes (up to 52 compressions) are kernel-checked one compression per theorem in
`Props/C14blake3Vectors.lean` (`Dud.Blake3Spec.Vectors.V1025.digest` etc.); the end-to-end
corollaries for the streaming hasher (`real_streaming_vector_3073`, …) are in
`Props/C14blake3EndToEnd.lean`. -/

theorem vector_0 : toHex (hashSpecReal (testInput 0))
    = "af1349b9f5f9a1a6a0404dea36dcc9499bcb25c9adc112b7cc9a93cae41f3262" := by decide +kernel
theorem vector_1 : toHex (hashSpecReal (testInput 1))
    = "2d3adedff11b61f14c886e35afa036736dcd87a74d27b5c1510225d0f592e213" := by decide +kernel

/-- The real streaming hasher on the empty stream, from any dirty state, returns the official digest
of the empty input. -/
theorem real_streaming_vector_0 (s0 : BState (Array UInt32)) :
    toHex (realHasher.sum ([[], []].foldl realHasher.write (realHasher.reset s0)))
    = "af1349b9f5f9a1a6a0404dea36dcc9499bcb25c9adc112b7cc9a93cae41f3262" := by
  rw [real_contract s0]; exact vector_0

end Dud.Blake3Incr

/-! ## TESTS (executable evidence, NOT theorems)

`hashSpecReal` (the list-based total specification) against the driver's `Blake3.hash` (the
`partial def` / `ByteArray` implementation validated against all official vectors), and the
streaming machine `realHasher` run on odd piece sizes.  Each line must print `true`. -/
section Tests
open Dud.Blake3Spec Dud.Blake3Incr

def specVsDriver (n : Nat) : Bool :=
  toHex (hashSpecReal (testInput n)) == Blake3.toHex (Blake3.hash ⟨(testInput n).toArray⟩)

/-- cut `xs` into pieces of sizes `sizes` cyclically (a 0 size yields an empty piece) -/
def cutLike (sizes : List Nat) : Nat → Nat → Dud.Bytes → List Dud.Bytes
  | 0, _, xs => [xs]
  | fuel + 1, i, xs =>
    if xs.length = 0 then []
    else
      let k := sizes.getD (i % sizes.length) 1
      xs.take k :: cutLike sizes fuel (i + 1) (xs.drop k)

def streamVsDriver (sizes : List Nat) (n : Nat) : Bool :=
  let pieces := cutLike sizes (2 * n + 2) 0 (testInput n)
  let dirty : BState (Array UInt32) := ⟨⟨Blake3.IV, [1, 2, 3], 7⟩, 11, [Blake3.IV]⟩
  pieces.flatten == testInput n &&
  toHex (realHasher.sum (pieces.foldl realHasher.write (realHasher.reset dirty)))
    == Blake3.toHex (Blake3.hash ⟨(testInput n).toArray⟩)

-- TEST: specification = driver implementation, 16 lengths up to 70 001 bytes
#eval [0, 1, 63, 64, 65, 1023, 1024, 1025, 2048, 2049, 3072, 3073, 4096, 8193, 31744, 70001].map
  specVsDriver
-- TEST: streaming machine (dirty state, pieces of 1, 0, 63, 65, 1024, 7, 3000 bytes cyclically) = driver
#eval [0, 1, 64, 1024, 1025, 2049, 3073, 8193, 16384, 70001].map
  (streamVsDriver [1, 0, 63, 65, 1024, 7, 3000])
-- TEST: one byte at a time
#eval [1, 65, 1025, 5000].map (streamVsDriver [1])

end Tests

#print axioms Dud.Blake3Incr.incr_write_append
#print axioms Dud.Blake3Incr.incr_reachable_wf
#print axioms Dud.Blake3Incr.incr_writes_flatten
#print axioms Dud.Blake3Incr.incr_correct
#print axioms Dud.Blake3Incr.incr_chunking_irrelevant
#print axioms Dud.Blake3Incr.incr_sum_then_more
#print axioms Dud.Blake3Incr.incr_stack_depth
#print axioms Dud.Blake3Incr.incr_contract
#print axioms Dud.Blake3Incr.chunk_state_correct
#print axioms Dud.Blake3Incr.block_write_append
#print axioms Dud.Blake3Incr.block_reachable_wf
#print axioms Dud.Blake3Incr.block_simulates
#print axioms Dud.Blake3Incr.block_correct
#print axioms Dud.Blake3Incr.block_contract
#print axioms Dud.Blake3Incr.real_contract
#print axioms Dud.Blake3Incr.blake3_checksum_reader
#print axioms Dud.Blake3Incr.blake3_checksum_chunking_irrelevant
#print axioms Dud.Blake3Incr.blake3_tee_copy
#print axioms Dud.Blake3Incr.blake3_checksum_reader_real
#print axioms Dud.Blake3Incr.blake3_checksum_chunking_irrelevant_real
#print axioms Dud.Blake3Incr.blake3_tee_copy_real
#print axioms Dud.Blake3Incr.blake3_checksum_reader_fact_real
#print axioms Dud.Blake3Incr.vector_0
#print axioms Dud.Blake3Incr.vector_1
#print axioms Dud.Blake3Incr.real_streaming_vector_0
#print axioms Dud.Blake3Spec.treeNode_eq
#print axioms Dud.Blake3Spec.leftLen_eq
#print axioms Dud.Blake3Spec.splitChunks_eq
