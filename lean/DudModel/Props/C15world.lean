import DudModel.Lemmas.CheckoutIdem
import DudModel.Lemmas.CheckoutAfterCommit
import DudModel.Props.C05world
/-!
# C15 at the world level — `dud checkout` is idempotent

`Props/C15.lean` proves, for ONE artifact whose tree the cache *holds* (plain, sorted tree,
`HoldsNode`), that a second checkout over the result of the first leaves it alone.  This file proves
the statement for the whole command, and without any of these hypotheses:

  `cmdCheckout cfg strat single targets w = .ok w'  →  cmdCheckout cfg strat single targets w' = .ok w'`

for EVERY world `w` — any index (overlapping or shared output paths, nested outputs, unknown
owners; cyclic indices make the first command fail), any cache (inconsistent, manifests with
duplicate or hostile entries, old or new schema), any pre-existing workspace, both strategies,
`--single-stage` or not, any target list.  The only premise is that the first command succeeded.
The second command returns the very same world: same workspace, same cache, same index.

The mixed form `checkout --copy` then `checkout` (link) holds as well (`cmdCheckout_idem_gen`): the
regular copies are up to date (`upToDateCopy`) and are left in place.  The reverse order (link then
`--copy`) is NOT a no-op — links to cache objects are replaced by copies (C06: `Keeps`) — and is not
claimed.

The proof does not go through `checkout_idem` of `Props/C15.lean` (which needs the store to hold a
plain sorted tree): `Lemmas/CheckoutIdem.lean` characterises the fixed points of `checkoutNode`
recursively (`CI.Conf`), shows that every successful checkout returns one (`CI.conf_of_checkout`)
and that a successful checkout written at ANY path keeps every other checked-out entry checked
out (`CI.confAt_write`).  The traversal part is a simulation (`CI.visit_sim`): the second command
visits the same stages in the same order.

`cmdCheckout_checkedOut` states what the idempotence rests on and is useful by itself: after a
successful checkout every output of every visited stage is `CheckedOut` in the final workspace —
also the outputs of stages visited early, whatever later stages wrote over or into them
(`cmdCheckout_targets_done`: the visited stages include all targets).

The other mixed form, `checkout_after_commit_world`: right after a successful `dud commit` (under
the hypotheses of `commit_idem_world`, `Props/C05world.lean`) `dud checkout` with the same strategy
(or the link strategy after `commit --copy`) succeeds and changes nothing; on the way,
`CI.cmdCommit_copy_ws`: `dud commit --copy` never changes the workspace (no hypothesis).

Non-vacuity: `Example2` (the two-stage pipeline of `Props/C01world.lean`: checkout twice in the
clone, link after copy, checkout after commit) and `C15Nested` (a world outside every artifact-level
hypothesis: nested outputs, a manifest with a duplicate entry, a non-empty workspace, where the
premise is checked by evaluation).

What is NOT covered: the state after a FAILED first checkout (the model returns no world); a
second checkout with OTHER flags or targets than the first (except link-after-copy); `dud checkout
--copy` after a link checkout (not a no-op); and for `checkout_after_commit_world`:
`--single-stage`, non-recursive directory outputs, pipelines outside `PipelineOK`.
-/
namespace Dud

open CI

variable {κ : Type}

/-- The artifact `a` is checked out in the world `w` for the strategy `strat`: it is `skip-cache`
(checkout ignores it), or the entry found at its path is a fixed point of
`checkoutNode … a.child` — see `checkedOut_iff`.  For a file artifact: the object is in the cache
and the entry is a regular file with the recorded checksum or (link strategy only) the link to the
object; for a directory artifact: the manifest is readable and every entry it lists is found in
the directory, checked out (entries the manifest does not list are allowed). -/
def CheckedOut (cfg : Cfg κ) (strat : Strat) (w : World κ) (a : Art) : Prop :=
  ArtConf cfg strat w.store w.ws a

/-- `CheckedOut` = "checkout of this artifact alone succeeds and changes nothing" -/
theorem checkedOut_iff (cfg : Cfg κ) (strat : Strat) (w : World κ) (a : Art) :
    CheckedOut cfg strat w a ↔ checkoutArtW cfg strat a w = .ok w := by
  constructor
  · exact checkoutArtW_noop
  · intro h
    obtain ⟨_, hc, _⟩ := checkoutArtW_conf h
    exact hc

/-- a file artifact that is checked out with copies is an up-to-date regular file -/
theorem CheckedOut.upToDateCopy {cfg : Cfg κ} {w : World κ} {a : Art} (h : CheckedOut cfg .copy w a)
    (hskip : a.skip = false) (hfile : a.isDir = false) :
    upToDateCopy cfg.ctx (getPath w.ws (Path.comps a.path)) a.sum = true := by
  rcases h with h | ⟨m, hm, hc⟩
  · rw [hskip] at h; cases h
  · cases hf : cfg.fuel with
    | zero => rw [hf] at hc; simp [Conf] at hc
    | succ f =>
      rw [hf, conf_succ_file (c := a.child) hfile] at hc
      obtain ⟨_, _, h3⟩ := hc
      rcases h3 with h3 | ⟨h3, _⟩
      · rw [hm]; exact h3
      · cases h3

/-- what is checked out with copies is checked out for the link strategy too -/
theorem CheckedOut.of_copy {cfg : Cfg κ} {w : World κ} {a : Art} (h : CheckedOut cfg .copy w a)
    (strat : Strat) : CheckedOut cfg strat w a := ArtConf.of_copy h strat

/-! ## phase 1: what a successful checkout establishes -/

/-- invariant of the checkout traversal started in `w0`: only the workspace and the memo change,
and every stage that is done has all its outputs checked out -/
def CheckoutInv1 (cfg : Cfg κ) (strat : Strat) (w0 a : World κ) : Prop :=
  (∃ ws d, a = { w0 with ws := ws, done := d }) ∧
    ∀ sp, sp ∈ a.done → StageConf cfg strat a.idx a.store a.ws sp

theorem checkoutInv1_step {cfg : Cfg κ} {strat : Strat} {w0 a a' : World κ} {sp : Bytes}
    (h : CheckoutInv1 cfg strat w0 a) (hact : checkoutAct cfg strat sp a = .ok a') :
    CheckoutInv1 cfg strat w0 a' := by
  obtain ⟨stg, a1, hl, harts, rfl⟩ := checkoutAct_inv hact
  obtain ⟨e1, c1, k1⟩ := checkoutArts_conf _ harts
  obtain ⟨⟨ws0, d0, rfl⟩, hconf⟩ := h
  generalize a1.ws = ws1 at e1 c1 k1
  subst e1
  refine ⟨⟨ws1, sp :: d0, rfl⟩, ?_⟩
  intro sp' hsp' stg' hl' x hx
  rcases List.mem_cons.1 hsp' with rfl | hsp'
  · have : stg' = stg := by
      have := hl'.symm.trans hl
      simpa using this
    subst this
    exact c1 x hx
  · exact k1 x (hconf sp' hsp' stg' hl' x hx)

/-- **After a successful `dud checkout`, every output of every visited stage is checked out** in
the final workspace; the command changed the workspace and the memo only. -/
theorem cmdCheckout_checkedOut (cfg : Cfg κ) (strat : Strat) (single : Bool) (targets : List Bytes)
    (w w' : World κ) (h : cmdCheckout cfg strat single targets w = .ok w') :
    w'.idx = w.idx ∧ w'.store = w.store ∧
      ∀ sp stg, sp ∈ w'.done → alookup w.idx sp = some stg →
        ∀ a, a ∈ sortArts stg.outputs → CheckedOut cfg strat w' a := by
  unfold cmdCheckout at h
  split at h
  · cases h
  have hinv := perTarget_keeps (CheckoutInv1 cfg strat (fresh w))
    (fun t a b ha hv => visit_keeps (checkoutTrav cfg strat) _ _
      (fun sp x y hx hxy => checkoutInv1_step hx hxy) _ _ t a b ha hv) _ (fresh w) w'
    ⟨⟨_, _, rfl⟩, fun sp hsp => by cases hsp⟩ h
  obtain ⟨⟨ws1, d1, rfl⟩, hconf⟩ := hinv
  exact ⟨rfl, rfl, fun sp stg hsp hl a ha => hconf sp hsp stg hl a ha⟩

/-- … and the stages visited include every target (every stage, if no target is given). -/
theorem cmdCheckout_targets_done (cfg : Cfg κ) (strat : Strat) (single : Bool) (targets : List Bytes)
    (w w' : World κ) (h : cmdCheckout cfg strat single targets w = .ok w') :
    ∀ t, t ∈ (if targets.isEmpty then allStages w else targets) → t ∈ w'.done := by
  unfold cmdCheckout at h
  split at h
  · cases h
  exact perTarget_checkout_done _ _ _ h

/-! ## phase 2: the second command -/

/-- backward invariant of the FIRST traversal used in the simulation: every stage it has finished
has its outputs checked out in the FINAL workspace `W` -/
def DoneConf (cfg : Cfg κ) (strat : Strat) (W : Node κ) (a : World κ) : Prop :=
  ∀ sp, sp ∈ a.done → StageConf cfg strat a.idx a.store W sp

theorem doneConf_anti {cfg : Cfg κ} {strat strat2 : Strat} {W : Node κ} {sp : Bytes} {a a' : World κ}
    (hact : checkoutAct cfg strat sp a = .ok a') (h : DoneConf cfg strat2 W a') :
    DoneConf cfg strat2 W a := by
  obtain ⟨stg, a1, _, harts, rfl⟩ := checkoutAct_inv hact
  obtain ⟨e1, _, _⟩ := checkoutArts_conf _ harts
  generalize a1.ws = ws1 at e1
  subst e1
  intro sp' hsp'
  exact h sp' (List.mem_cons_of_mem _ hsp')

/-- one stage action of the second command: it finds everything checked out -/
theorem checkoutAct_sim {cfg : Cfg κ} {strat strat2 : Strat} {W : Node κ} {sp : Bytes}
    {a a' b : World κ} (hr : b = { a with ws := W }) (hact : checkoutAct cfg strat sp a = .ok a')
    (h : DoneConf cfg strat2 W a') :
    ∃ b', checkoutAct cfg strat2 sp b = .ok b' ∧ b' = { a' with ws := W } := by
  obtain ⟨stg, a1, hl, harts, rfl⟩ := checkoutAct_inv hact
  obtain ⟨e1, _, _⟩ := checkoutArts_conf _ harts
  generalize a1.ws = ws1 at e1
  subst e1
  subst hr
  have hc := h sp List.mem_cons_self stg hl
  have hnoop : checkoutArts cfg strat2 (sortArts stg.outputs) { a with ws := W } =
      .ok { a with ws := W } := checkoutArts_noop _ hc
  exact ⟨_, checkoutAct_of (w := { a with ws := W }) hl hnoop, rfl⟩

/-- **C15, command level: `dud checkout` twice** (general form: the second command may use the
link strategy after a copy checkout).  If `dud checkout` succeeded, repeating it right away —
same flags, same targets; with the same strategy, or without `--copy` after a `--copy` checkout —
succeeds and returns the very same world.  No hypothesis on the index, the cache or the workspace
the first command started from. -/
theorem cmdCheckout_idem_gen (cfg : Cfg κ) (strat strat2 : Strat)
    (hs : strat2 = strat ∨ strat = .copy) (single : Bool) (targets : List Bytes) (w w' : World κ)
    (h : cmdCheckout cfg strat single targets w = .ok w') :
    cmdCheckout cfg strat2 single targets w' = .ok w' := by
  obtain ⟨_, _, hco⟩ := cmdCheckout_checkedOut cfg strat single targets w w' h
  unfold cmdCheckout at h ⊢
  split at h
  · cases h
  rename_i hne
  have hinv := perTarget_keeps (CheckoutInv1 cfg strat (fresh w))
    (fun t a b ha hv => visit_keeps (checkoutTrav cfg strat) _ _
      (fun sp x y hx hxy => checkoutInv1_step hx hxy) _ _ t a b ha hv) _ (fresh w) w'
    ⟨⟨_, _, rfl⟩, fun sp hsp => by cases hsp⟩ h
  obtain ⟨⟨ws1, d1, rfl⟩, -⟩ := hinv
  -- the final workspace has every finished stage checked out, for the second strategy too
  have hA : DoneConf cfg strat2 ws1 { fresh w with ws := ws1, done := d1 } := by
    intro sp hsp stg hl a ha
    have := hco sp stg hsp hl a ha
    rcases hs with rfl | rfl
    · exact this
    · exact ArtConf.of_copy this strat2
  obtain ⟨b', hb', hr'⟩ := perTarget_sim (fun a b : World κ => b = { a with ws := ws1 })
    (DoneConf cfg strat2 ws1) (fun a b t hr => by rw [hr])
    (f2 := fun t w => visit (checkoutTrav cfg strat2) (targets.isEmpty || !single)
      (w.idx.length + 1) (allStages w) t w)
    (fun t a b hv hb => visit_anti (checkoutTrav cfg strat) _ (DoneConf cfg strat2 ws1)
      (fun sp x y hxy hy => doneConf_anti hxy hy) _ _ t a b hv hb)
    (fun t a a' b hv ha' hr => by
      have := visit_sim (checkoutTrav cfg strat) (checkoutTrav cfg strat2) (targets.isEmpty || !single)
        (fun a b : World κ => b = { a with ws := ws1 }) (DoneConf cfg strat2 ws1)
        (fun a b sp hr => by rw [hr]; rfl) (fun a b sp hr => by rw [hr]; rfl)
        (fun sp x y hxy hy => doneConf_anti hxy hy)
        (fun sp x x' y hr hxx' hx' => checkoutAct_sim hr hxx' hx')
        (a.idx.length + 1) (allStages a) t a a' b hv ha' hr
      subst hr
      exact this)
    _ (fresh w) _ (fresh { fresh w with ws := ws1, done := d1 }) h hA rfl
  subst hr'
  have hne' : ({ fresh w with ws := ws1, done := d1 } : World κ).idx.isEmpty = false := by
    show w.idx.isEmpty = false
    simpa using hne
  rw [if_neg (by rw [hne']; simp)]
  exact hb'

/-- **C15, command level: `dud checkout` twice.**  If `dud checkout [--copy] [--single-stage]
[targets]` succeeded, repeating the very same command right away succeeds again and changes
nothing: the result is the same world (`cmdCheckout_idem_ws_store` spells out workspace and
cache). -/
theorem cmdCheckout_idem (cfg : Cfg κ) (strat : Strat) (single : Bool) (targets : List Bytes)
    (w w' : World κ) (h : cmdCheckout cfg strat single targets w = .ok w') :
    cmdCheckout cfg strat single targets w' = .ok w' :=
  cmdCheckout_idem_gen cfg strat strat (.inl rfl) single targets w w' h

/-- the statement in the form of the property: a second world exists, with the same workspace and
the same cache -/
theorem cmdCheckout_idem_ws_store (cfg : Cfg κ) (strat : Strat) (single : Bool) (targets : List Bytes)
    (w w' : World κ) (h : cmdCheckout cfg strat single targets w = .ok w') :
    ∃ w'', cmdCheckout cfg strat single targets w' = .ok w'' ∧ w''.ws = w'.ws ∧
      w''.store = w'.store ∧ w''.idx = w'.idx :=
  ⟨w', cmdCheckout_idem cfg strat single targets w w' h, rfl, rfl, rfl⟩

/-- **`dud checkout` (links) after `dud checkout --copy`** leaves the regular copies in place: the
command succeeds and returns the same world … -/
theorem cmdCheckout_link_after_copy (cfg : Cfg κ) (single : Bool) (targets : List Bytes)
    (w w' : World κ) (h : cmdCheckout cfg .copy single targets w = .ok w') :
    cmdCheckout cfg .link single targets w' = .ok w' :=
  cmdCheckout_idem_gen cfg .copy .link (.inr rfl) single targets w w' h

/-- … because every file output of every visited stage is an up-to-date regular copy. -/
theorem cmdCheckout_copy_upToDate (cfg : Cfg κ) (single : Bool) (targets : List Bytes)
    (w w' : World κ) (h : cmdCheckout cfg .copy single targets w = .ok w') (sp : Bytes) (stg : Stage)
    (hsp : sp ∈ w'.done) (hl : alookup w.idx sp = some stg) (a : Art)
    (ha : a ∈ sortArts stg.outputs) (hskip : a.skip = false) (hfile : a.isDir = false) :
    upToDateCopy cfg.ctx (getPath w'.ws (Path.comps a.path)) a.sum = true :=
  ((cmdCheckout_checkedOut cfg .copy single targets w w' h).2.2 sp stg hsp hl a ha).upToDateCopy
    hskip hfile

/-! ## checkout right after commit -/

open WT WStat in
/-- **C15, command level: `dud checkout` right after `dud commit` is a no-op.**  Under the
hypotheses of `commit_idem_world` (`Props/C05world.lean`: `PipelineOK` for the stages in scope —
pairwise non-overlapping outputs, each present as a plain sorted tree satisfying `ArtPre`; un-owned
inputs are file artifacts; directory outputs are recursive), after a successful
`dud commit [--copy] [targets]` the command `dud checkout [targets]` with the SAME strategy — or
without `--copy` after a `--copy` commit — succeeds and leaves workspace, cache and index exactly as
the commit left them.  (`dud checkout --copy` after a link commit is not a no-op: it replaces the
links by copies.)

Not covered: `--single-stage` (the statement is for `single = false`), non-recursive directory
outputs, and pipelines outside `PipelineOK` (e.g. overlapping outputs); `cmdCommit_copy_ws`
(`dud commit --copy` never changes the workspace) needs no hypothesis at all. -/
theorem checkout_after_commit_world (cfg : Cfg κ) (g : Good cfg.ctx) (strat strat2 : Strat)
    (hs : strat2 = .link ∨ strat = .copy)
    (targets : List Bytes) (w0 w' : World κ) (hc : Consistent cfg.ctx w0.store)
    (hok : PipelineOK cfg (InScope cfg w0 targets) w0)
    (hfiles : PlainInputsFiles cfg (InScope cfg w0 targets) w0)
    (hrec : ∀ sp stg, InScope cfg w0 targets sp → alookup w0.idx sp = some stg →
      ∀ a, a ∈ stg.outputs → Recursive a)
    (h : cmdCommit cfg strat targets w0 = .ok w') :
    ∃ w2, cmdCheckout cfg strat2 false targets w' = .ok w2 ∧ w2.ws = w'.ws ∧
      w2.store = w'.store ∧ w2.idx = w'.idx ∧
      ∀ sp stg', InScope cfg w0 targets sp → alookup w'.idx sp = some stg' →
        ∀ a, a ∈ sortArts stg'.outputs → CheckedOut cfg strat2 w' a := by
  obtain ⟨hci0, hsh, l', hnd, hiff, hdone, htop, hts, ⟨t0, ht0⟩⟩ :=
    cmdCommit_inv cfg g strat targets w0 w' hc hok h
  have hci := cmdCommit_inv2 (heldEst cfg g) g strat targets w0 w' hc hok hfiles hrec h
  have hall : ∀ sp, InScope cfg w0 targets sp → w'.done.contains sp = true := by
    intro sp hsp
    rw [hdone]
    simpa using (hiff sp).2 hsp
  -- every output of every stage in scope is checked out in the committed world
  have hco : ∀ sp, InScope cfg w0 targets sp → ∃ stg', alookup w'.idx sp = some stg' ∧
      ∀ x, x ∈ sortArts stg'.outputs → ArtConf cfg strat2 w'.store w'.ws x := by
    intro sp hsp
    obtain ⟨stg, stg', e0, e1, e2, _⟩ := hci0.finished sp hsp (hall sp hsp)
    refine ⟨stg', e1, fun x hx => ?_⟩
    have hx' := mem_of_mem_sortArts hx
    rw [e2] at hx'
    obtain ⟨a, ha, rfl⟩ := List.mem_map.1 hx'
    have ha := mem_of_mem_sortArts ha
    obtain ⟨n, hn, hpre⟩ := hok.pre sp stg hsp e0 a ha
    obtain ⟨t', gt, pt⟩ := hci.outs sp stg hsp (hall sp hsp) e0 a ha
    rw [origAt_of_getPath hn] at pt
    have htr : trackedOf a n = n := by
      cases n with
      | dir es =>
        have hd : a.isDir = true := by rw [← hpre.kind]; rfl
        simp [trackedOf, hrec sp stg hsp e0 a ha hd]
      | file _ => rfl
      | link _ => rfl
      | other => rfl
    have hfu : depth n ≤ cfg.fuel := by have := hpre.fuel; rwa [htr] at this
    have hca : committedArt cfg.ctx w0.ws a = { a with sum := treeDigest cfg.ctx a.path n } := by
      simp only [committedArt, origAt_of_getPath hn, htr]
    rw [hca] at pt ⊢
    rcases pt with hskip | ⟨hh, σ, rfl⟩
    · exact .inl hskip
    · right
      have hchild : ({ a with sum := treeDigest cfg.ctx a.path n } : Art).child =
          ⟨a.path, treeDigest cfg.ctx a.path n, n.isDir⟩ := by
        simp only [Art.child, hpre.kind]
      refine ⟨_, gt, ?_⟩
      rw [hchild]
      rcases hs with rfl | rfl
      · exact held_conf g _ n a.path cfg.fuel hpre.plain hpre.sorted hpre.names hh hfu σ .link
          (by cases σ <;> rfl)
      · -- `commit --copy` left the original tree
        have hws := cmdCommit_copy_ws cfg targets w0 w' h
        rw [hws, hn] at gt
        simp only [Option.some.injEq] at gt
        rw [← gt]
        exact held_conf g _ n a.path cfg.fuel hpre.plain hpre.sorted hpre.names hh hfu .copy strat2 rfl
  -- the traversal laws, w.r.t. the owner function of the original index
  have hown : ∀ sp x, x ∈ ownIdx cfg w'.idx sp ↔ x ∈ ownIdx cfg w0.idx sp :=
    fun sp x => ownIdx_sim cfg hsh sp x
  have hT : (checkoutTrav cfg strat2).LawfulOn (ownIdx cfg w0.idx) (fun u => u.idx = w'.idx) :=
    lawfulOn_congr_own (checkoutTrav_lawfulOn cfg strat2 w'.idx) hown
  have hts' : (if targets.isEmpty then allStages w' else targets) =
      (if targets.isEmpty then allStages w0 else targets) := by
    have : allStages w' = allStages w0 := by
      simp only [allStages]
      exact hsh.keys
    rw [this]
  obtain ⟨v', hrun, _, ⟨d, hv'⟩⟩ := WT.perTarget_progress (T := checkoutTrav cfg strat2)
    (Q := fun u => ∃ d, u = { fresh w' with done := d }) (S := (· ∈ l')) (rank := l'.idxOf) hT
    (fun x hx o ho => ⟨(htop x hx o ho).mem_left, WT.idxOf_lt_of_before hnd (htop x hx o ho)⟩)
    (fun st sp hi hsp => by
      obtain ⟨stg', e1, _⟩ := hco sp ((hiff sp).1 hsp)
      have hi : st.idx = w'.idx := hi
      show ∃ os, ownersOf cfg st sp = .ok os
      simp only [ownersOf, World.stage, hi, e1]
      exact ⟨_, rfl⟩)
    (fun st sp _ hq hsp _ _ => by
      obtain ⟨d, rfl⟩ := hq
      obtain ⟨stg', e1, hconf⟩ := hco sp ((hiff sp).1 hsp)
      have hnoop : checkoutArts cfg strat2 (sortArts stg'.outputs) { fresh w' with done := d } =
          .ok { fresh w' with done := d } := checkoutArts_noop _ hconf
      exact ⟨_, checkoutAct_of (w := { fresh w' with done := d }) e1 hnoop, sp :: d, rfl⟩)
    (fun u => l'.length + u.idx.length + 1) allStages
    (fun u hi x hx => by
      have hi : u.idx = w'.idx := hi
      obtain ⟨stg', e1, _⟩ := hco x ((hiff x).1 hx)
      have hl : alookup u.idx x = some stg' := by rw [hi]; exact e1
      refine ⟨?_, WT.mem_keys_of_alookup hl, by rw [hl]; rfl⟩
      have := List.idxOf_le_length (l := l') (a := x)
      omega)
    (if targets.isEmpty then allStages w' else targets) (fresh w')
    (fun t ht => hts t (hts' ▸ ht)) rfl ⟨[], rfl⟩
  have hcmd : cmdCheckout cfg strat2 false targets w' = .ok v' := by
    have hne : w'.idx.isEmpty = false := by
      obtain ⟨stg', e1, _⟩ := hco t0 ((hiff t0).1 ht0)
      cases hw : w'.idx with
      | nil => rw [hw] at e1; simp [alookup] at e1
      | cons _ _ => rfl
    simp only [cmdCheckout, hne, Bool.false_eq_true, if_false, Bool.not_false, Bool.or_true]
    rw [← hrun]
    refine WT.perTarget_congr (fun t u => ?_) _ _
    refine visit_fuel_irrelevant _ true _ _ (allStages u) t u ?_ ?_
    · simp [allStages]
    · simp only [allStages, List.length_map]; omega
  subst hv'
  refine ⟨_, hcmd, rfl, rfl, rfl, ?_⟩
  intro sp stg' hsp hl a ha
  obtain ⟨stg'', e1, hconf⟩ := hco sp hsp
  rw [hl] at e1
  cases e1
  exact hconf a ha

/-! ## non-vacuity: the two-stage pipeline of `Props/C01world.lean` -/

namespace Example2
open Dud.Example WStat


/-- **`cmdCheckout_idem` instantiated**: in the fresh clone (empty workspace) `dud checkout` (either
strategy) succeeds, rebuilds `a/` and `b`, and the same command again returns the same world. -/
theorem checkout_twice (strat : Strat) :
    ∃ v, cmdCheckout cfg strat false [] clone = .ok v ∧ cmdCheckout cfg strat false [] v = .ok v ∧
      (∃ r, getPath v.ws [[97]] = some r ∧ deref ctx v.store r = treeA) ∧
      (∃ r, getPath v.ws [[98]] = some r ∧ deref ctx v.store r = .file (.raw "out")) := by
  obtain ⟨v, h1, h2, h3⟩ := two_stage_roundtrip strat
  exact ⟨v, h1, cmdCheckout_idem cfg strat false [] clone v h1, h2, h3⟩

/-- **`cmdCheckout_link_after_copy` instantiated**: `dud checkout` after `dud checkout --copy` in
the clone leaves the copies; `b` is an up-to-date regular file. -/
theorem link_after_copy :
    ∃ v, cmdCheckout cfg .copy false [] clone = .ok v ∧ cmdCheckout cfg .link false [] v = .ok v ∧
      upToDateCopy ctx (getPath v.ws [[98]]) (ctx.H (.raw "out")) = true := by
  obtain ⟨v, h1, _, _⟩ := two_stage_roundtrip .copy
  refine ⟨v, h1, cmdCheckout_link_after_copy cfg false [] clone v h1, ?_⟩
  have hd : [2] ∈ v.done := cmdCheckout_targets_done cfg .copy false [] clone v h1 [2] (by decide)
  obtain ⟨stgB, hB, hout⟩ : ∃ stgB, alookup clone.idx [2] = some stgB ∧
      stgB.outputs = [{ outB with sum := ctx.H (.raw "out") }] := ⟨_, rfl, rfl⟩
  exact cmdCheckout_copy_upToDate cfg false [] clone v h1 [2] stgB hd hB
    { outB with sum := ctx.H (.raw "out") } (by rw [hout]; simp [sortArts, insertArt]) rfl rfl

/-- **`checkout_after_commit_world` instantiated**: right after `dud commit` of the two-stage
pipeline (link strategy), `dud checkout` succeeds and changes neither workspace nor cache nor
index. -/
theorem checkout_after_commit :
    ∃ w2, cmdCheckout cfg .link false [] w1 = .ok w2 ∧ w2.ws = w1.ws ∧ w2.store = w1.store ∧
      w2.idx = w1.idx := by
  obtain ⟨w2, h1, h2, h3, h4, _⟩ := checkout_after_commit_world cfg good .link .link (.inl rfl) [] w0 w1
    (by intro d o h; simp [w0, Store.get, alookup] at h) (pipelineOK _) (plainInputsFiles _)
    (fun sp stg _ hs => outputsRecursive hs) commit_ok
  exact ⟨w2, h1, h2, h3, h4⟩

/-- the workspace the commit left really is all links below `a/` -/
example : getPath w1.ws [[98]] = some (.link (.obj (ctx.H (.raw "out")))) := rfl

end Example2

/-! ## non-vacuity of the unconditional statement: a world no artifact-level hypothesis covers -/

namespace C15Nested

/-- a toy context (no `Good` needed): `H c = "h-" ++ c` -/
def ctx : Ctx String :=
  { H := fun c => "h-" ++ c, encMan := fun _ _ _ => "", decBlob := fun _ => none,
    reload := fun _ c => c, nameOK := fun _ => true }

def cfg : Cfg String :=
  { ctx := ctx, ofBytes := fun _ => "", toBytes := fun _ => [], walkAccumulates := true, fuel := 5 }

def stage1 : Stage := { cmd := [1], outputs := [{ path := [97], sum := "manA", isDir := true }] }
def stage3 : Stage := { cmd := [3], outputs := [{ path := [97, 47, 120], sum := "h-x" }] }
def stage2 : Stage :=
  { cmd := [2], inputs := [{ path := [97], isDir := true }], outputs := [{ path := [98], sum := "h-o" }] }

/-- Stage 1 owns the directory `a/`, whose (old-schema) manifest lists the entry `x` TWICE;
stage 3 owns the file `a/x` INSIDE `a/` (overlapping outputs, excluded by `PipelineOK`); stage 2
reads `a/` and owns `b`.  The workspace already holds an unrelated file `k` and `a/x` as a link to
its cache object. -/
def w : World String :=
  { ws := .dir [([107], .file "keep"), ([97], .dir [([120], .link (.obj "h-x"))])]
    store := [("h-x", .blob "x"), ("h-z", .blob "z"), ("h-o", .blob "o"),
      ("manA", .man .old [97] [⟨[120], "h-x", false⟩, ⟨[121], "manY", true⟩, ⟨[120], "h-x", false⟩]),
      ("manY", .man .new [121] [⟨[122], "h-z", false⟩])]
    idx := [([1], stage1), ([3], stage3), ([2], stage2)] }

/-- the result of `dud checkout [--copy]`, computed by the model -/
def v (strat : Strat) : World String :=
  match cmdCheckout cfg strat false [] w with
  | .ok x => x
  | .error _ => default

/-- the premise of `cmdCheckout_idem` holds in this world, for both strategies … -/
theorem checkout_ok (strat : Strat) : cmdCheckout cfg strat false [] w = .ok (v strat) := by
  cases strat <;> rfl

/-- … so the second checkout returns the same world -/
theorem checkout_twice (strat : Strat) : cmdCheckout cfg strat false [] (v strat) = .ok (v strat) :=
  cmdCheckout_idem cfg strat false [] w (v strat) (checkout_ok strat)

/-- the same with `--single-stage` and an explicit target -/
example : ∃ u, cmdCheckout cfg .link true [[2]] w = .ok u ∧ cmdCheckout cfg .link true [[2]] u = .ok u :=
  ⟨_, rfl, cmdCheckout_idem cfg .link true [[2]] w _ rfl⟩

/-- what the link checkout built: the unrelated file and the link are kept, `a/y/z` and `b` are new -/
example : getPath (v .link).ws [[107]] = some (.file "keep") ∧
    getPath (v .link).ws [[97], [120]] = some (.link (.obj "h-x")) ∧
    getPath (v .link).ws [[97], [121], [122]] = some (.link (.obj "h-z")) ∧
    getPath (v .link).ws [[98]] = some (.link (.obj "h-o")) := ⟨rfl, rfl, rfl, rfl⟩

/-- `dud checkout` (links) after `dud checkout --copy` -/
example : cmdCheckout cfg .link false [] (v .copy) = .ok (v .copy) :=
  cmdCheckout_link_after_copy cfg false [] w (v .copy) (checkout_ok .copy)

/-- the output `a/x` of stage 3, inside the output `a/` of stage 1, is `CheckedOut` at the end -/
example : CheckedOut cfg .link (v .link) { path := [97, 47, 120], sum := "h-x" } :=
  (cmdCheckout_checkedOut cfg .link false [] w (v .link) (checkout_ok .link)).2.2 [3] stage3
    (cmdCheckout_targets_done cfg .link false [] w _ (checkout_ok .link) [3] (by decide)) rfl _
    (by simp [stage3, sortArts, insertArt])

/-- a first checkout that FAILS is not covered (a file with other bytes in the way) -/
example : ∃ e, cmdCheckout cfg .link false []
    { w with ws := .dir [([98], .file "other")] } = .error e := ⟨_, rfl⟩

end C15Nested

end Dud

#print axioms Dud.checkedOut_iff
#print axioms Dud.cmdCheckout_checkedOut
#print axioms Dud.cmdCheckout_idem_gen
#print axioms Dud.cmdCheckout_idem
#print axioms Dud.cmdCheckout_idem_ws_store
#print axioms Dud.cmdCheckout_link_after_copy
#print axioms Dud.cmdCheckout_copy_upToDate
#print axioms Dud.checkout_after_commit_world
#print axioms Dud.CI.cmdCommit_copy_ws
#print axioms Dud.cmdCheckout_targets_done
#print axioms Dud.Example2.checkout_twice
#print axioms Dud.Example2.link_after_copy
#print axioms Dud.Example2.checkout_after_commit
#print axioms Dud.C15Nested.checkout_twice
