import DudModel.Lemmas.FaultCmd
import DudModel.Lemmas.FaultWorld
import DudModel.Lemmas.FaultFrame
/-!
# C04 at the level of the whole command — a failed `dud commit` loses nothing and can simply be retried

Fault model (`DudModel/SysFault.lean`): the call at position `k` of the trace of `cmdCommitGoT` (lock, per
target the artifacts of the committed stages then their stage files, unlock) FAILS; dud removes the temp
files of the operation under way that still exist (`cleanupCalls`), releases the lock (`unlockCalls`) and
exits non-zero.  `runFaultCleanup emp fs calls k` is the file system after such a run, started in `fs`.

## (a) nothing is lost

For EVERY index, target list, strategy, rename capability and EVERY position `k`:

* `cmdCommit_fault_safe` — the file system after the faulted run is `Safe` for ALL regular files the
  workspace held before the command: every recorded byte sequence is retrievable (at its path, through a
  link at its path, or as the cache object named by its digest) and nothing incomplete or foreign sits
  under a digest name;
* `cmdCommit_fault_stage_files` — every stage file holds what it held before the command or the COMPLETE
  encoding of a stage; `cmdCommit_fault_stage_files_atomic`: … of the stage the final index of the
  unfailed run holds (distinct stage paths);
* `cmdCommit_fault_unlocked` — the lock file is gone, for every position except the very last call (the
  final `unlink <lock>` itself: `cmdCommit_fault_at_unlock_keeps_lock` — it cannot be otherwise, and the Go
  code does not retry);
* `cmdCommit_fault_tmp_free` — no private temp file is left: neither in the cache root (`ctmp`, in
  particular `CtmpFree 0`), nor in the workspace (`wtmp`), nor next to a stage file (`stageTmp`) — unless
  the failing call is itself the removal of a temp file (the two `os.Remove` calls that end the rename
  probe: the Go code returns that error at once; `ExampleFault.probe_unlink_leaves_tmp` is the witness);
* `cmdCommit_fault_exit` — the exit status is non-zero exactly when a call failed;
* `cmdCommit_fault_keeps_objects`, `cmdCommit_fault_intact` — the objects of the original cache are still on
  disk, and every regular file outside the outputs in scope is still in place.

Hypotheses: those of `cmdCommitGoT_crash_safe` (`Good`, sound emptiness test, duplicate-free entry
names, consistent cache, a run that succeeds when nothing fails) — none on the index except `hk` in the
`…_atomic` variant (and `PipelineOK` in `cmdCommit_fault_intact`).

## (b) the retry

`faultWorld c w w' fs` (`Lemmas/FaultWorld.lean`) is the LOGICAL world read back from the faulted file
system: the original tree with a link wherever the file system shows one in place of a regular file (a file
already moved into the cache whose checksum no stage file records yet), the objects of the cache that are
on disk, and per stage the final record if its stage file was rewritten, the original one otherwise.

* `faultWorld_abstraction` — the file system IS the abstraction of that world (`Rel`, stage files, objects,
  lock);
* `cmdCommit_fault_retry` — **`dud commit` in that world succeeds and ends in the state of the commit that
  never failed**: same index (every recorded checksum), same cache as a map, same logical content of every
  output, everything else untouched — for every fault position outside the move-then-link window (`NoGap`),
  every index satisfying the world-level hypotheses `Retry.Std`, every target list, both strategies.

The proof: `commitArt_ahead` (`Lemmas/RetryArt.lean`) — committing a partly committed tree records the
checksum of the untouched tree (`retry_after_fault_accepts_link` of `Props/C04.lean`, for whole trees and for
any mixture of moved and unmoved files); `commit_from_resume` / `commit_retry_world`
(`Lemmas/RetryWorld.lean`) — `dud commit` from every "resumption point" (index entries original or final,
outputs partly committed) records the canonical stage records `canonStage`, of which the unfailed run is the
special case `wk := w`; `faultWorld_resume` (`Lemmas/FaultWorld.lean`) — the world read back is a
resumption point, by `Safe`, stage-file atomicity, persistence of cache objects and the frame
`cmdCommit_fault_intact` (`Lemmas/FaultFrame.lean`).

## the known finding (negative witnesses, `ExampleFault`)

With the link strategy a file is moved into the cache (`rename file → object`, or copy + `unlink file`) and
only then linked back (`symlink object ← file`).  A fault in between (`chmod`/`symlink` after the rename;
the `symlink` after the `unlink`) leaves the bytes ONLY in the cache, with no link and no recorded
checksum.  Nothing is lost (`Safe` holds: `cmdCommit_fault_safe` covers these positions too), but the retry
does not reproduce the unfailed commit: for a file artifact `dud commit` reports the output missing
(`known_finding_file`); inside a directory artifact the retry silently commits the directory WITHOUT the
entry (`known_finding_dir`).  In the example these are exactly the positions where the retry differs
(`badPositions = gapPositions`, evaluated); with `--copy` there is no such window.

What is NOT covered: two or more failing calls; faults of non-mutating calls (reads, `stat`); the negative
answer of the rename probe (see `SysFault.lean`); a retry with OTHER targets than the failed command; worlds
outside `Retry.Std` for part (b) (overlapping outputs, directory outputs committed before or with
`DisableRecursion`, un-owned inputs that are directories, links or lie inside an output); that the real
`dud commit` refuses to start while `.dud/lock` exists (relevant only for a failing final `unlink`).
-/
namespace Dud.Sys
open Dud
variable {κ : Type}

/-! ## (a) nothing lost, stage files well-formed, unlocked, no temp file left, exit status -/

/-- the command-level function of `SysFault.lean` in terms of the trace of the unfailed run -/
theorem cmdCommitFaultT_eq {c : CmdCfg κ} {strat : Strat} {targets : List Bytes} {w w' : World κ}
    {calls : List (Call κ)} (h : cmdCommitGoT c strat targets w = .ok (w', calls)) (emp : κ) (k : Nat)
    (fs : FS κ) :
    cmdCommitFaultT c emp strat targets w k fs = runFaultCleanup emp fs calls k ∧
      cmdCommitFaultExitOk c strat targets w k = faultExitOk calls k := by
  simp only [cmdCommitFaultT, cmdCommitFaultCalls, cmdCommitFaultExitOk, h, runFaultCleanup, and_self]

/-- **A failed `dud commit` loses no tracked data.** -/
theorem cmdCommit_fault_safe {c : CmdCfg κ} {strat : Strat} (g : Good c.cfg.ctx) {emp : κ}
    (hemp : ∀ x, c.isEmp x = true → x = emp) {targets : List Bytes} {w w' : World κ}
    {calls : List (Call κ)} (hu : uniqNode w.ws) (hc : Consistent c.cfg.ctx w.store)
    (h : cmdCommitGoT c strat targets w = .ok (w', calls)) (k : Nat) :
    Safe c.cfg.ctx (trackedOf [] w.ws) (runFaultCleanup emp (fsOfWorld c w) calls k) := by
  have hpre := cmdCommitGoT_crash_safe g hemp hu hc h
  by_cases hk : k < calls.length
  · rw [runFaultCleanup_eq emp _ hk, runFault_eq_prefix]
    exact (allowedTrace_of_harmless (trackedOf_ws [] w.ws) emp _
      (afterFault_harmless _ _) _).safe_final g (hpre k)
  · unfold runFaultCleanup
    rw [faultTrace_of_ge (by omega)]
    have := hpre calls.length
    rwa [List.take_length] at this

/-- … stated for `cmdCommitFaultT`: **whichever call of `dud commit` fails, the file system the command
leaves is `Safe` for all regular files of the workspace, and the exit status is non-zero** -/
theorem cmdCommitFaultT_safe {c : CmdCfg κ} {strat : Strat} (g : Good c.cfg.ctx) {emp : κ}
    (hemp : ∀ x, c.isEmp x = true → x = emp) {targets : List Bytes} {w w' : World κ}
    {calls : List (Call κ)} (hu : uniqNode w.ws) (hc : Consistent c.cfg.ctx w.store)
    (h : cmdCommitGoT c strat targets w = .ok (w', calls)) (k : Nat) (hk : k < calls.length) :
    Safe c.cfg.ctx (trackedOf [] w.ws) (cmdCommitFaultT c emp strat targets w k (fsOfWorld c w)) ∧
      cmdCommitFaultExitOk c strat targets w k = false := by
  obtain ⟨h1, h2⟩ := cmdCommitFaultT_eq h emp k (fsOfWorld c w)
  rw [h1, h2]
  exact ⟨cmdCommit_fault_safe g hemp hu hc h k, by simp [faultExitOk, hk]⟩

/-- the same for the regular files below any list of artifacts (e.g. the outputs of the stages in scope) -/
theorem cmdCommit_fault_safe_below {c : CmdCfg κ} {strat : Strat} (g : Good c.cfg.ctx) {emp : κ}
    (hemp : ∀ x, c.isEmp x = true → x = emp) {targets : List Bytes} {w w' : World κ}
    {calls : List (Call κ)} (hu : uniqNode w.ws) (hc : Consistent c.cfg.ctx w.store)
    (h : cmdCommitGoT c strat targets w = .ok (w', calls)) (arts : List Art) (k : Nat) :
    Safe c.cfg.ctx (trackedBelow w.ws arts) (runFaultCleanup emp (fsOfWorld c w) calls k) := by
  refine (cmdCommit_fault_safe g hemp hu hc h k).mono (fun p hp => ?_)
  simp only [trackedBelow, List.mem_flatMap] at hp
  obtain ⟨a, -, hpa⟩ := hp
  exact trackedOpt_sub_tracked hu _ p hpa

/-- **Stage files stay well-formed**: after the faulted run every stage file holds what it held before the
command or the complete encoding of a stage. -/
theorem cmdCommit_fault_stage_files {c : CmdCfg κ} {strat : Strat} (g : Good c.cfg.ctx) {emp : κ}
    (hemp : ∀ x, c.isEmp x = true → x = emp) {targets : List Bytes} {w w' : World κ}
    {calls : List (Call κ)} (hu : uniqNode w.ws) (hc : Consistent c.cfg.ctx w.store)
    (h : cmdCommitGoT c strat targets w = .ok (w', calls)) (sp : Bytes) (k : Nat) :
    (runFaultCleanup emp (fsOfWorld c w) calls k).get (.stageFile sp)
        = (fsOfWorld c w).get (.stageFile sp) ∨
      ∃ stg m, (runFaultCleanup emp (fsOfWorld c w) calls k).get (.stageFile sp)
        = some (.file (c.encStage stg) m) := by
  rw [runFaultCleanup_get_frame emp _ calls k (q := .stageFile sp) rfl (by simp)]
  exact cmdCommitGoT_stage_files_never_torn g hemp hu hc h sp k

/-- … full strength, with pairwise distinct stage paths: old content, or the complete encoding of the
stage the FINAL index of the unfailed run holds. -/
theorem cmdCommit_fault_stage_files_atomic {c : CmdCfg κ} {strat : Strat} (g : Good c.cfg.ctx) {emp : κ}
    (hemp : ∀ x, c.isEmp x = true → x = emp) {targets : List Bytes} {w w' : World κ}
    {calls : List (Call κ)} (hu : uniqNode w.ws) (hc : Consistent c.cfg.ctx w.store)
    (hk : (w.idx.map (·.1)).Nodup)
    (h : cmdCommitGoT c strat targets w = .ok (w', calls)) (sp : Bytes) (k : Nat) :
    (runFaultCleanup emp (fsOfWorld c w) calls k).get (.stageFile sp)
        = (fsOfWorld c w).get (.stageFile sp) ∨
      ∃ stg m, alookup w'.idx sp = some stg ∧
        (runFaultCleanup emp (fsOfWorld c w) calls k).get (.stageFile sp)
          = some (.file (c.encStage stg) m) := by
  rw [runFaultCleanup_get_frame emp _ calls k (q := .stageFile sp) rfl (by simp)]
  exact cmdCommitGoT_stage_files_atomic g hemp hu hc hk h sp k

/-- the failing call and what follows it, by position: the trace is `lock :: mid ++ [unlock]` -/
theorem fault_unlock_by_position {lockC unlockC : Call κ} (mid : List (Call κ))
    (hmid : ∀ x ∈ mid, P.lock ∉ callWrites x) {k : Nat} (hk1 : 0 < k) (hk2 : k ≤ mid.length) :
    ∃ x, (lockC :: (mid ++ [unlockC]))[k]? = some x ∧ unlockCalls x = [Call.unlink P.lock] := by
  obtain ⟨j, rfl⟩ : ∃ j, k = j + 1 := ⟨k - 1, by omega⟩
  have hj : j < mid.length := by omega
  refine ⟨mid[j], ?_, unlockCalls_of_not_lock (hmid _ (List.getElem_mem hj))⟩
  rw [List.getElem?_cons_succ, List.getElem?_append_left hj, List.getElem?_eq_getElem hj]

/-- **The project is left unlocked**: whichever call fails — except the final `unlink <lock>` itself — the
lock file does not exist after the faulted run (nor after the run without fault). -/
theorem cmdCommit_fault_unlocked {c : CmdCfg κ} {strat : Strat} (g : Good c.cfg.ctx) {emp : κ}
    (hemp : ∀ x, c.isEmp x = true → x = emp) {targets : List Bytes} {w w' : World κ}
    {calls : List (Call κ)} (hu : uniqNode w.ws) (hc : Consistent c.cfg.ctx w.store)
    (h : cmdCommitGoT c strat targets w = .ok (w', calls)) (k : Nat) (hk : k + 1 ≠ calls.length) :
    (runFaultCleanup emp (fsOfWorld c w) calls k).get .lock = none := by
  have hwin := (cmdCommitGoT_lock_window g hemp hu hc h).2.2.2
  obtain ⟨segs, rfl, hinv, -⟩ := cmdCommitGoT_run g hemp hu hc h
  have hshape : [Call.createExcl P.lock] ++ flatSegs segs ++ [Call.unlink P.lock] =
      Call.createExcl P.lock :: (flatSegs segs ++ [Call.unlink P.lock]) := by simp
  rw [hshape] at hwin hk ⊢
  have hlen : (Call.createExcl P.lock :: (flatSegs segs ++ [Call.unlink P.lock])).length
      = (flatSegs segs).length + 2 := by simp
  rw [hlen] at hk
  by_cases hge : (flatSegs segs).length + 2 ≤ k
  · -- no call fails
    unfold runFaultCleanup
    rw [faultTrace_of_ge (by rw [hlen]; exact hge)]
    have := hwin (flatSegs segs).length.succ.succ
    rw [List.take_of_length_le (by rw [hlen]; omega)] at this
    rw [this, hlen]
    simp
  · cases k with
    | zero =>
      -- the lock could not be created: nothing happened
      unfold runFaultCleanup faultTrace
      simp only [List.getElem?_cons_zero, List.take_zero, cleanupCalls, unlockCalls,
        liveTmps, List.foldl_nil, List.map_nil, List.append_nil, replay_nil]
      exact fsOfWorld_get_lock c w
    | succ j =>
      obtain ⟨x, hx, hux⟩ := fault_unlock_by_position (lockC := Call.createExcl P.lock)
        (unlockC := Call.unlink P.lock) (flatSegs segs) hinv.noLock (k := j + 1) (by omega) (by omega)
      unfold runFaultCleanup faultTrace
      rw [hx]
      simp only [hux]
      rw [replay_append]
      exact get_unlink_self (emp := emp)

/-- … and when the call that fails is that final `unlink <lock>`, the lock file necessarily stays: the
only position at which a failed `dud commit` leaves the project locked. -/
theorem cmdCommit_fault_at_unlock_keeps_lock {c : CmdCfg κ} {strat : Strat} (g : Good c.cfg.ctx) {emp : κ}
    (hemp : ∀ x, c.isEmp x = true → x = emp) {targets : List Bytes} {w w' : World κ}
    {calls : List (Call κ)} (hu : uniqNode w.ws) (hc : Consistent c.cfg.ctx w.store)
    (h : cmdCommitGoT c strat targets w = .ok (w', calls)) :
    (runFaultCleanup emp (fsOfWorld c w) calls (calls.length - 1)).get .lock = some (.file emp 0o600) := by
  obtain ⟨hlen2, -, hlast, hwin⟩ := cmdCommitGoT_lock_window g hemp hu hc h
  have hk : calls.length - 1 < calls.length := by omega
  have hx : calls[calls.length - 1] = Call.unlink P.lock := by
    rw [List.getLast?_eq_getElem?, List.getElem?_eq_getElem hk] at hlast
    exact Option.some.inj hlast
  rw [runFaultCleanup_eq emp _ hk, runFault_eq_prefix, faultAt, hx]
  have hcl : cleanupCalls (calls.take (calls.length - 1)) (Call.unlink P.lock : Call κ) =
      (liveTmps (calls.take (calls.length - 1))).map Call.unlink := by
    simp [cleanupCalls, P.isTemp]
  have hul : unlockCalls (Call.unlink P.lock : Call κ) = [] := rfl
  rw [hul, List.append_nil, hcl, replay_unlinks_get]
  have hnot : P.lock ∉ liveTmps (calls.take (calls.length - 1)) := fun hm => by
    have := liveTmps_isTemp _ _ hm
    simp [P.isTemp] at this
  rw [if_neg hnot, hwin]
  have : 0 < calls.length - 1 ∧ calls.length - 1 < calls.length := by omega
  simp [this]

/-- **No temp file is left.**  Whichever call fails — except the removal of a temp file itself — after
the faulted run no private temp path exists: neither a cache temp file (`ctmp`), nor a workspace temp file
of the rename probe (`wtmp`), nor a stage temp file (`stageTmp`). -/
theorem cmdCommit_fault_tmp_free {c : CmdCfg κ} {emp : κ} {w : World κ} (calls : List (Call κ)) (k : Nat) (hk : k < calls.length)
    (hnp : ∀ p, calls[k] = Call.unlink p → p.isTemp = false) :
    ∀ p, p.isTemp = true → (runFaultCleanup emp (fsOfWorld c w) calls k).get p = none := by
  intro p hp
  rw [runFaultCleanup_eq emp _ hk, runFault_eq_prefix, faultAt, replay_append,
    cleanupCalls_eq _ _ hnp]
  have hfree := cleanup_tmp_free (emp := emp)
    (liveTmps_sound (emp := emp) (fun q hq => fsOfWorld_get_tmp c w hq) (calls.take k)) p hp
  rw [replay_get_frame emp _ _ _ (fun x hx => ?_)]
  · exact hfree
  · rcases unlockCalls_cases calls[k] with hu | hu <;> rw [hu] at hx
    · cases hx
    · simp at hx; subst hx
      simp [callWrites, callPaths]
      intro e; subst e; simp [P.isTemp] at hp

/-- in particular: the cache temp names are all free (`CtmpFree 0`) and so are the stage temp names -/
theorem cmdCommit_fault_ctmp_free {c : CmdCfg κ} {emp : κ} {w : World κ} (calls : List (Call κ)) (k : Nat) (hk : k < calls.length)
    (hnp : ∀ p, calls[k] = Call.unlink p → p.isTemp = false) :
    CtmpFree 0 (runFaultCleanup emp (fsOfWorld c w) calls k) ∧
      StageTmpFree (runFaultCleanup emp (fsOfWorld c w) calls k) :=
  ⟨fun _ _ => cmdCommit_fault_tmp_free calls k hk hnp _ rfl,
   fun _ => cmdCommit_fault_tmp_free calls k hk hnp _ rfl⟩

/-- **The exit status is non-zero exactly when a call failed.** -/
theorem cmdCommit_fault_exit (calls : List (Call κ)) (k : Nat) :
    faultExitOk calls k = false ↔ k < calls.length := by
  unfold faultExitOk
  by_cases hk : k < calls.length
  · simp [hk]
  · simp [hk]

/-- the five guarantees of a failed run in one statement -/
theorem cmdCommit_fault_summary {c : CmdCfg κ} {strat : Strat} (g : Good c.cfg.ctx) {emp : κ}
    (hemp : ∀ x, c.isEmp x = true → x = emp) {targets : List Bytes} {w w' : World κ}
    {calls : List (Call κ)} (hu : uniqNode w.ws) (hc : Consistent c.cfg.ctx w.store)
    (h : cmdCommitGoT c strat targets w = .ok (w', calls)) (k : Nat) (hk : k < calls.length) :
    let fs := runFaultCleanup emp (fsOfWorld c w) calls k
    Safe c.cfg.ctx (trackedOf [] w.ws) fs ∧
    (∀ sp, fs.get (.stageFile sp) = (fsOfWorld c w).get (.stageFile sp) ∨
      ∃ stg m, fs.get (.stageFile sp) = some (.file (c.encStage stg) m)) ∧
    (k + 1 ≠ calls.length → fs.get .lock = none) ∧
    ((∀ p, calls[k] = Call.unlink p → p.isTemp = false) → ∀ p, p.isTemp = true → fs.get p = none) ∧
    faultExitOk calls k = false :=
  ⟨cmdCommit_fault_safe g hemp hu hc h k,
   fun sp => cmdCommit_fault_stage_files g hemp hu hc h sp k,
   cmdCommit_fault_unlocked g hemp hu hc h k,
   fun hnp => cmdCommit_fault_tmp_free calls k hk hnp,
   (cmdCommit_fault_exit calls k).2 hk⟩

/-! ## (b) the retry -/


/-- the objects of the original cache are still on disk after the faulted run -/
theorem cmdCommit_fault_keeps_objects {c : CmdCfg κ} {strat : Strat} (g : Good c.cfg.ctx) {emp : κ}
    (hemp : ∀ x, c.isEmp x = true → x = emp) {targets : List Bytes} {w w' : World κ}
    {calls : List (Call κ)} (hu : uniqNode w.ws) (hc : Consistent c.cfg.ctx w.store)
    (h : cmdCommitGoT c strat targets w = .ok (w', calls)) (k : Nat) (d : Digest)
    (hd : w.store.has d = true) :
    (runFaultCleanup emp (fsOfWorld c w) calls k).get (.obj d) ≠ none := by
  rw [runFaultCleanup_get_frame emp _ calls k (q := .obj d) rfl (by simp)]
  obtain ⟨segs, -, -, hall⟩ := cmdCommitGoT_run g hemp hu hc h
  refine obj_persists emp d calls _ hall ?_ k
  rw [fsOfWorld_get c w (by simp), fsOf_get_obj]
  cases hg : w.store.get d with
  | none => simp [Store.has, hg] at hd
  | some o => simp

/-- the logical command succeeds when the traced one does -/
theorem cmdCommitGoT_ok {c : CmdCfg κ} {strat : Strat} {targets : List Bytes} {w w' : World κ}
    {calls : List (Call κ)} (h : cmdCommitGoT c strat targets w = .ok (w', calls)) :
    cmdCommit c.cfg strat targets w = .ok w' :=
  (map_fst_eq (cmdCommitGoT_refines c strat targets w)).2 _ _ h

section retry
variable [DecidableEq κ]
open Dud.Retry

/-- **The file system after the faulted run is the abstraction of the logical world `faultWorld`**:
* `Rel`: every regular file of the logical workspace is in place, names are duplicate-free, the cache temp
  names are free (here under the proviso of `cmdCommit_fault_tmp_free`);
* every stage file on disk holds the complete encoding of the stage the logical index holds;
* every object of the logical cache is on disk, complete, with its bytes;
* the lock is gone (`cmdCommit_fault_unlocked`).
The logical workspace shows a link exactly where the file system shows one in place of a regular file
(`readBack`); the index holds the final record of exactly the stages whose stage file was rewritten.
Hypothesis `NoGap`: the fault does not fall into the move-then-link window (see the known finding below). -/
theorem faultWorld_abstraction {c : CmdCfg κ} {strat : Strat} {emp : κ}
    (hemp : ∀ x, c.isEmp x = true → x = emp) {targets : List Bytes} {w w' : World κ}
    {calls : List (Call κ)} (hstd : Std c.cfg (InScope c.cfg w targets) w) (hu : uniqNode w.ws)
    (h : cmdCommitGoT c strat targets w = .ok (w', calls)) (k : Nat) (hk : k < calls.length)
    (hnp : ∀ p, calls[k] = Call.unlink p → p.isTemp = false)
    (hgap : NoGap c.cfg.ctx w.ws (runFaultCleanup emp (fsOfWorld c w) calls k)) :
    let fs := runFaultCleanup emp (fsOfWorld c w) calls k
    let wk := faultWorld c w w' fs
    Rel wk.ws fs ∧
    (∀ sp stg, alookup wk.idx sp = some stg → ∃ m, fs.get (.stageFile sp) = some (.file (c.encStage stg) m)) ∧
    (∀ d o, wk.store.get d = some o → ∃ m, fs.get (.obj d) = some (.file (o.bytes c.cfg.ctx) m)) ∧
    (k + 1 ≠ calls.length → fs.get .lock = none) := by
  intro fs wk
  have g := hstd.good
  have hlog := cmdCommitGoT_ok h
  obtain ⟨hq1, -⟩ := commit_canon c.cfg strat targets w w' hstd hlog
  refine ⟨faultWorld_rel c w w' hu fs hgap ((cmdCommit_fault_ctmp_free calls k hk hnp).1.mono (by omega)), ?_, ?_,
    cmdCommit_fault_unlocked g hemp hu hstd.cons h k⟩
  · exact faultWorld_stage_files c w w' fs
      (fun sp => cmdCommit_fault_stage_files_atomic g hemp hu hstd.cons hstd.ok.keys h sp k)
  · exact faultWorld_objects c g w w' fs hq1.cons (cmdCommit_fault_safe g hemp hu hstd.cons h k).2

/-- **Once the cause is removed, `dud commit` again succeeds and ends in the state of a commit that never
failed.**  `w` is the world before the command, `w'` the world its unfailed run ends in, `calls` its trace
(Go's order); the call at position `k` fails; `fs` is the file system after the faulted run (prefix,
clean-up, unlock) and `wk = faultWorld c w w' fs` the logical world read back from it
(`faultWorld_abstraction`).  If the fault does not fall into the move-then-link window (`NoGap`), then
`dud commit [targets]` in `wk`, with either strategy, SUCCEEDS in a world `w2` with
* the same index as `w'` (every recorded stage, input and output checksum),
* the same cache as a map (the same digests bound to objects with the same bytes), consistent,
* the same logical content (`deref`) of every output in scope — that of the original workspace — and the same
  node at every path apart from the outputs.

Hypotheses on the original world (`Retry.Std`): those of `commit_idem_world` (`Props/C05world.lean`) —
`Good`, consistent cache, `PipelineOK` (distinct stage paths, non-overlapping outputs that are plain sorted
trees with acceptable names, a directory output never committed before), un-owned inputs are file artifacts
apart from the outputs, directory outputs recursive — plus: the un-owned inputs are regular files.
For EVERY fault position `k`, every index within these hypotheses, every target list, both strategies and
both rename capabilities.  That the files outside the outputs are untouched is proved
(`cmdCommit_fault_intact`), that nothing is lost likewise (`cmdCommit_fault_safe`); `NoGap` is the one
hypothesis on the position of the fault, and it is necessary (`ExampleFault`, the known finding). -/
theorem cmdCommit_fault_retry {c : CmdCfg κ} {strat : Strat} {emp : κ}
    (hemp : ∀ x, c.isEmp x = true → x = emp) {targets : List Bytes} {w w' : World κ}
    {calls : List (Call κ)} (hstd : Std c.cfg (InScope c.cfg w targets) w) (hu : uniqNode w.ws)
    (h : cmdCommitGoT c strat targets w = .ok (w', calls)) (k : Nat)
    (hgap : NoGap c.cfg.ctx w.ws (runFaultCleanup emp (fsOfWorld c w) calls k))
    (strat2 : Strat) :
    let wk := faultWorld c w w' (runFaultCleanup emp (fsOfWorld c w) calls k)
    ∃ w2, cmdCommit c.cfg strat2 targets wk = .ok w2 ∧ w2.idx = w'.idx ∧
      Consistent c.cfg.ctx w2.store ∧ Store.le c.cfg.ctx w'.store w2.store ∧
      Store.le c.cfg.ctx w2.store w'.store ∧
      (∀ sp stg, InScope c.cfg w targets sp → alookup w.idx sp = some stg →
        ∀ a, a ∈ stg.outputs → ∃ t1 t2, getPath w'.ws (Path.comps a.path) = some t1 ∧
          getPath w2.ws (Path.comps a.path) = some t2 ∧
          deref c.cfg.ctx w'.store t1 = origAt w.ws a ∧ deref c.cfg.ctx w2.store t2 = origAt w.ws a) ∧
      (∀ q, (∀ sp stg, InScope c.cfg w targets sp → alookup w.idx sp = some stg →
          ∀ a, a ∈ stg.outputs → WT.Apart (Path.comps a.path) q) →
        getPath w2.ws q = getPath w'.ws q) := by
  intro wk
  have g := hstd.good
  have hlog := cmdCommitGoT_ok h
  obtain ⟨hres, hle0, hsub⟩ := faultWorld_resume c strat targets w w' hstd hu hlog _
    (cmdCommit_fault_safe g hemp hu hstd.cons h k) hgap
    (cmdCommit_fault_intact g hstd.ok hstd.files hu hstd.cons h k)
    (fun d hd => cmdCommit_fault_keeps_objects g hemp hu hstd.cons h k d hd)
  exact commit_retry_world c.cfg strat strat2 targets w w' wk hstd hlog hres hle0 hsub

end retry

/-! ## non-vacuity and negative witnesses: a two-stage world, faults inside the second artifact -/

namespace ExampleFault
open Dud Dud.Sys Dud.Example Dud.Retry Dud.WT Dud.WStat

abbrev cfg : Cfg K := Example2.cfg

def cc (cr : Bool) : CmdCfg K :=
  { cfg := cfg, isEmp := Sys.Example.isEmp, canRename := cr, encStage := ExampleCmd.encStage }

/-- output of stage 2: a directory `d/` with two regular files -/
def treeD : Node K := .dir [([117], .file (.raw "u")), ([118], .file (.raw "v"))]
def outF : Art := { path := [102] }
def outD : Art := { path := [100], isDir := true }
def stage1 : Stage := { cmd := [1], outputs := [outF] }
def stage2 : Stage := { cmd := [2], outputs := [outD] }

/-- two independent stages: `f` (a file) and `d/` (a directory) -/
def W : World K :=
  { ws := .dir [([100], treeD), ([102], .file (.raw "x"))],
    idx := [([1], stage1), ([2], stage2)] }

def run (strat : Strat) (cr : Bool) : World K × List (Call K) :=
  match cmdCommitGoT (cc cr) strat [] W with
  | .ok r => r
  | .error _ => (default, [])

theorem run_ok (strat : Strat) (cr : Bool) : cmdCommitGoT (cc cr) strat [] W = .ok (run strat cr) := by
  cases strat <;> cases cr <;> rfl

theorem idx_cases {sp : Bytes} {stg : Stage} (h : alookup W.idx sp = some stg) :
    (sp = [1] ∧ stg = stage1) ∨ (sp = [2] ∧ stg = stage2) := by
  simp only [W, alookup] at h
  split at h
  · rename_i h1
    cases h
    exact .inl ⟨(by simpa using h1 : [1] = sp).symm, rfl⟩
  · split at h
    · rename_i h2
      cases h
      exact .inr ⟨(by simpa using h2 : [2] = sp).symm, rfl⟩
    · cases h

theorem apartFD : Apart (Path.comps outF.path) (Path.comps outD.path) :=
  WT.apart_iff_diverge.2 ⟨[], [102], [100], [], [], by decide, rfl, rfl⟩

theorem preF : ArtPre cfg.ctx cfg.fuel outF (.file (.raw "x")) where
  kind := rfl
  plain := rfl
  sorted := rfl
  names := by intro nm h; simp [allNames] at h
  fresh := fun h => by cases h
  fuel := by simp [Dud.trackedOf, depth, cfg, Example2.cfg]

theorem preD : ArtPre cfg.ctx cfg.fuel outD treeD where
  kind := rfl
  plain := by simp [treeD, Node.plain, plainList]
  sorted := by simp [treeD, Node.sorted, sortedList, headName]; decide
  names := by
    intro nm h
    refine ⟨rfl, fun _ _ _ => rfl, ?_⟩
    simp only [treeD, allNames, allNamesList, List.mem_cons, List.not_mem_nil,
      List.append_nil, or_false, List.nil_append] at h
    rcases h with rfl | rfl <;> decide
  fresh := fun _ => ⟨rfl, rfl⟩
  fuel := by simp [Dud.trackedOf, outD, treeD, depth, depthList, cfg, Example2.cfg]

theorem pipelineOK (Sc : Bytes → Prop) : PipelineOK cfg Sc W where
  keys := by decide
  apart_in := by
    intro sp stg _ hs
    rcases idx_cases hs with ⟨_, rfl⟩ | ⟨_, rfl⟩ <;> exact List.pairwise_singleton _ _
  apart_across := by
    intro sp1 sp2 stg1 stg2 _ _ hne h1 h2 a ha b hb
    rcases idx_cases h1 with ⟨rfl, rfl⟩ | ⟨rfl, rfl⟩ <;> rcases idx_cases h2 with ⟨rfl, rfl⟩ | ⟨rfl, rfl⟩
    · exact absurd rfl hne
    · simp only [stage1, stage2, List.mem_singleton] at ha hb
      subst ha; subst hb; exact apartFD
    · simp only [stage1, stage2, List.mem_singleton] at ha hb
      subst ha; subst hb; exact apartFD.symm
    · exact absurd rfl hne
  pre := by
    intro sp stg _ hs a ha
    rcases idx_cases hs with ⟨_, rfl⟩ | ⟨_, rfl⟩
    · simp only [stage1, List.mem_singleton] at ha
      subst ha
      exact ⟨_, rfl, preF⟩
    · simp only [stage2, List.mem_singleton] at ha
      subst ha
      exact ⟨treeD, rfl, preD⟩
  inputs := by
    intro sp stg _ hs sp' stg' _ _ a _ b hb hn
    rcases idx_cases hs with ⟨_, rfl⟩ | ⟨_, rfl⟩
    · simp [stage1] at hb
    · simp [stage2] at hb

theorem no_inputs {sp : Bytes} {stg : Stage} (hs : alookup W.idx sp = some stg) : stg.inputs = [] := by
  rcases idx_cases hs with ⟨_, rfl⟩ | ⟨_, rfl⟩ <;> rfl

/-- the standing hypotheses of the retry theorem hold of the example, for every scope -/
theorem std (Sc : Bytes → Prop) : Std cfg Sc W where
  good := good
  cons := by intro d o h; simp [W, Store.get, alookup] at h
  ok := pipelineOK Sc
  files := by intro sp stg _ hs b hb; rw [no_inputs hs] at hb; cases hb
  apart := by intro sp stg _ hs b hb; rw [no_inputs hs] at hb; cases hb
  recur := by
    intro sp stg _ hs a ha
    rcases idx_cases hs with ⟨_, rfl⟩ | ⟨_, rfl⟩
    · simp only [stage1, List.mem_singleton] at ha
      subst ha
      intro hd; cases hd
    · simp only [stage2, List.mem_singleton] at ha
      subst ha
      intro _; rfl
  regular := by intro sp stg _ hs b hb; rw [no_inputs hs] at hb; cases hb

theorem W_uniq : uniqNode W.ws := by
  simp [W, treeD, uniqNode, uniqList]


/-! ### the faulted file system and the world read back from it -/

/-- the file system after the run in which call `k` fails -/
def fsAt (strat : Strat) (cr : Bool) (k : Nat) : FS K :=
  runFaultCleanup Sys.Example.emp (fsOfWorld (cc cr) W) (run strat cr).2 k

/-- the logical world read back from it -/
def wkAt (strat : Strat) (cr : Bool) (k : Nat) : World K :=
  faultWorld (cc cr) W (run strat cr).1 (fsAt strat cr k)

def linkAt (fs : FS K) (q : List Name) (d : Digest) : Bool :=
  match fs.get (.ws q) with
  | some (.link (.obj d')) => d' == d
  | _ => false

def absent (fs : FS K) (p : P) : Bool := (fs.get p).isNone

/-- the calls dud issues after the failing one -/
def showTail' (calls : List (Call K)) (k : Nat) : List String :=
  ((faultTrace calls k).drop k).map Sys.Example.showCall

def showTail (strat : Strat) (cr : Bool) (k : Nat) : List String := showTail' (run strat cr).2 k

/-- recorded output checksums of a stage -/
def sums (idx : Index) (sp : Bytes) : Option (List Digest) :=
  (alookup idx sp).map (fun s => s.outputs.map (·.sum))

set_option maxRecDepth 100000

/-- the command issues 40 calls; the second artifact (`d/`) is calls 15–34 -/
theorem run_length : (run .link true).2.length = 40 := by decide +kernel

/-! **Position 26: `rename d/v → <object>` fails** — inside the second artifact, after the stage file of
stage 1 was rewritten and `d/u` was moved into the cache and linked.  dud unlocks and exits. -/

theorem tail_26 : showTail .link true 26 = ["unlink lock"] := by decide +kernel

/-- what the faulted file system looks like: `f` and `d/u` are links to their objects, `d/v` is still the
regular file, the stage file of stage 1 holds the new checksum, that of stage 2 the old (empty) one, no lock,
no temp file -/
theorem fs_26 :
    linkAt (fsAt .link true 26) [[102]] (ctx.H (.raw "x")) = true ∧
    linkAt (fsAt .link true 26) [[100], [117]] (ctx.H (.raw "u")) = true ∧
    Sys.Example.fileAt (fsAt .link true 26) (.ws [[100], [118]]) (.raw "v") = true ∧
    Sys.Example.fileAt (fsAt .link true 26) (.stageFile [1]) (.raw (ctx.H (.raw "x"))) = true ∧
    Sys.Example.fileAt (fsAt .link true 26) (.stageFile [2]) (.raw "") = true ∧
    absent (fsAt .link true 26) .lock = true ∧ absent (fsAt .link true 26) (.ctmp 0) = true ∧
    absent (fsAt .link true 26) (.ctmp 1) = true ∧ absent (fsAt .link true 26) (.wtmp 0) = true := by
  decide +kernel

/-- the world read back: stage 1 carries its final record, stage 2 its original one; `d/` is partly
committed -/
theorem wk_26 :
    sums (wkAt .link true 26).idx [1] = some [ctx.H (.raw "x")] ∧
    sums (wkAt .link true 26).idx [2] = some [""] ∧
    Sys.Example.safeB (trackedOf [] W.ws) (fsAt .link true 26) = true := by
  decide +kernel

theorem noGap_26 : noGapB ctx W.ws (fsAt .link true 26) = true := by decide +kernel

/-- the failing call is not the removal of a file -/
def isUnlinkAt (calls : List (Call K)) (k : Nat) : Bool :=
  match calls[k]? with
  | some (.unlink _) => true
  | _ => false

theorem isUnlinkAt_false {calls : List (Call K)} {k : Nat} (h : isUnlinkAt calls k = false)
    (hk : k < calls.length) : ∀ p, calls[k] = Call.unlink p → p.isTemp = false := by
  intro p hp
  unfold isUnlinkAt at h
  rw [List.getElem?_eq_getElem hk, hp] at h
  cases h

theorem not_unlink_26 : isUnlinkAt (run .link true).2 26 = false := by decide +kernel

/-- **the theorems of part (a) instantiated at position 26** -/
theorem fault_26_safe :
    Safe ctx (trackedOf [] W.ws) (fsAt .link true 26) ∧ (fsAt .link true 26).get .lock = none ∧
      (∀ p, p.isTemp = true → (fsAt .link true 26).get p = none) ∧
      faultExitOk (run .link true).2 26 = false := by
  have hk : 26 < (run .link true).2.length := Nat.lt_of_lt_of_eq (by decide : 26 < 40) run_length.symm
  have hne : 26 + 1 ≠ (run .link true).2.length := by rw [run_length]; decide
  obtain ⟨h1, -, h3, h4, h5⟩ := cmdCommit_fault_summary (c := cc true) good Sys.Example.hemp W_uniq
    (std (fun _ => True)).cons (run_ok .link true) 26 hk
  exact ⟨h1, h3 hne, h4 (isUnlinkAt_false not_unlink_26 hk), h5⟩

/-- **the retry theorem instantiated at position 26**: `dud commit` again (either strategy) succeeds and
ends with the index of the commit that never failed, the same cache as a map, and `f`, `d/` with their
original logical content -/
theorem retry_26 (strat2 : Strat) :
    ∃ w2, cmdCommit cfg strat2 [] (wkAt .link true 26) = .ok w2 ∧ w2.idx = (run .link true).1.idx ∧
      Store.le ctx (run .link true).1.store w2.store ∧ Store.le ctx w2.store (run .link true).1.store ∧
      (∃ t2, getPath w2.ws [[102]] = some t2 ∧ deref ctx w2.store t2 = .file (.raw "x")) ∧
      (∃ t2, getPath w2.ws [[100]] = some t2 ∧ deref ctx w2.store t2 = treeD) := by
  obtain ⟨w2, h1, h2, -, h4, h5, h6, -⟩ := cmdCommit_fault_retry (c := cc true) Sys.Example.hemp (std _)
    W_uniq (run_ok .link true) 26 (noGapB_sound noGap_26) strat2
  have hsc : ∀ sp, sp = [1] ∨ sp = [2] → InScope cfg W [] sp := by
    intro sp h
    refine ⟨sp, ?_, .refl _⟩
    rcases h with rfl | rfl <;> decide
  refine ⟨w2, h1, h2, h4, h5, ?_, ?_⟩
  · obtain ⟨_, t2, _, g2, _, d2⟩ := h6 [1] stage1 (hsc _ (.inl rfl)) rfl outF (by simp [stage1])
    exact ⟨t2, g2, d2⟩
  · obtain ⟨_, t2, _, g2, _, d2⟩ := h6 [2] stage2 (hsc _ (.inr rfl)) rfl outD (by simp [stage2])
    exact ⟨t2, g2, d2⟩

/-! ### negative witnesses -/

mutual
/-- the workspace read back FAITHFULLY also in the move-then-link window: an entry whose path is absent on
disk is absent (`readBack` shows the original file there; the two coincide under `NoGap`) -/
def readBackF (fs : FS K) : List Name → Node K → Node K
  | pre, .file c => match fs.get (.ws pre) with
    | some (.link (.obj d)) => .link (.obj d)
    | _ => .file c
  | pre, .dir es => .dir (readBackFList fs pre es)
  | _, .link l => .link l
  | _, .other => .other
def readBackFList (fs : FS K) : List Name → List (Name × Node K) → List (Name × Node K)
  | _, [] => []
  | pre, (nm, n) :: r =>
    if (match n with | .file _ => true | _ => false) && (fs.get (.ws (pre ++ [nm]))).isNone then
      readBackFList fs pre r
    else (nm, readBackF fs (pre ++ [nm]) n) :: readBackFList fs pre r
end

/-- the world read back faithfully -/
def gapWorld (strat : Strat) (cr : Bool) (k : Nat) : World K :=
  { wkAt strat cr k with ws := readBackF (fsAt strat cr k) [] W.ws }

/-- every regular file of the logical workspace is in place on disk -/
def filesInPlace (w : World K) (fs : FS K) : Bool :=
  (trackedOf [] w.ws).all (fun p => Sys.Example.fileAt fs p.1 p.2)

def isMissing (r : Except Err (World K)) : Bool :=
  match r with
  | .error .missing => true
  | _ => false

/-- **THE KNOWN FINDING (C04), file artifact.**  Position 10: the `symlink <object> ← f` of the link
strategy fails, after `rename f → <object>` succeeded.  Nothing is lost — the file system is `Safe`, the bytes
of `f` are in the cache under their digest (`cmdCommit_fault_safe`) — but the workspace path is gone and no
checksum is recorded: `NoGap` fails, and in the world read back faithfully the retry does NOT succeed:
`dud commit` reports the output missing.  (`dud checkout` cannot bring it back either: the stage file
records no checksum.) -/
theorem known_finding_file :
    showTail .link true 10 = ["unlink lock"] ∧
    Sys.Example.safeB (trackedOf [] W.ws) (fsAt .link true 10) = true ∧
    noGapB ctx W.ws (fsAt .link true 10) = false ∧
    absent (fsAt .link true 10) (.ws [[102]]) = true ∧
    Sys.Example.fileAt (fsAt .link true 10) (.obj (ctx.H (.raw "x"))) (.raw "x") = true ∧
    sums (gapWorld .link true 10).idx [1] = some [""] ∧
    filesInPlace (gapWorld .link true 10) (fsAt .link true 10) = true ∧
    isMissing (cmdCommit cfg .link [] (gapWorld .link true 10)) = true := by
  decide +kernel

/-- the same one call earlier (the `chmod` of the moved object fails) -/
theorem known_finding_file_chmod :
    noGapB ctx W.ws (fsAt .link true 9) = false ∧
    isMissing (cmdCommit cfg .link [] (gapWorld .link true 9)) = true := by
  decide +kernel

/-- number of entries of `d/` after a commit of the world -/
def entriesAfter (w : World K) : Option Nat :=
  match cmdCommit cfg .link [] w with
  | .ok w2 => (match getPath w2.ws [[100]] with
    | some (.dir es) => some es.length
    | _ => none)
  | .error _ => none

/-- **The same window inside a DIRECTORY artifact is silent.**  Position 24: `symlink <object> ← d/u`
fails.  `d/u` is gone from the workspace (its bytes are in the cache); in the world read back faithfully the
retry SUCCEEDS — and commits a directory `d/` with ONE entry instead of two: the stage file then records a
checksum of `d/` without `u`, while the commit that never failed records both entries. -/
theorem known_finding_dir :
    noGapB ctx W.ws (fsAt .link true 24) = false ∧
    absent (fsAt .link true 24) (.ws [[100], [117]]) = true ∧
    Sys.Example.fileAt (fsAt .link true 24) (.obj (ctx.H (.raw "u"))) (.raw "u") = true ∧
    filesInPlace (gapWorld .link true 24) (fsAt .link true 24) = true ∧
    entriesAfter (gapWorld .link true 24) = some 1 ∧ entriesAfter W = some 2 := by
  decide +kernel

/-- **A failing removal of a probe temp file leaves a temp file behind.**  Position 19: the
`os.Remove(<workspace temp>)` that ends the rename probe fails; `canRenameFileBetweenDirs` returns at once
and the cache temp file of the probe stays (an empty file in the cache root) — the one case
`cmdCommit_fault_tmp_free` excludes.  The lock is released and nothing is lost. -/
theorem probe_unlink_leaves_tmp :
    showTail .link true 19 = ["unlink lock"] ∧
    absent (fsAt .link true 19) (.ctmp 0) = false ∧ absent (fsAt .link true 19) .lock = true ∧
    Sys.Example.safeB (trackedOf [] W.ws) (fsAt .link true 19) = true := by
  decide +kernel

/-- … whereas a failing call in the middle of `commitBytes` has its temp file removed: position 31, the
write of the manifest of `d/` -/
theorem tail_31 : showTail .link true 31 = ["unlink ctmp1", "unlink lock"] := by decide +kernel

/-- **When the final `unlink <lock>` fails the project stays locked** (`cmdCommit_fault_at_unlock_keeps_lock`
instantiated): the next dud command refuses to run until the user removes `.dud/lock`. -/
theorem last_call_keeps_lock :
    (fsAt .link true ((run .link true).2.length - 1)).get .lock = some (.file Sys.Example.emp 0o600) :=
  cmdCommit_fault_at_unlock_keeps_lock (c := cc true) good Sys.Example.hemp W_uniq
    (std (fun _ => True)).cons (run_ok .link true)

/-! ### executable evidence: every fault position, three configurations -/

def storeSame (s1 s2 : Store K) : Bool :=
  s1.all (fun e => match s2.get e.1 with | some o => o.bytes ctx == e.2.bytes ctx | none => false) &&
  s2.all (fun e => match s1.get e.1 with | some o => o.bytes ctx == e.2.bytes ctx | none => false)

/-- per position: the calls after the failing one; `Safe`; `NoGap`; the retry in the world read back
(faithfully): success with the index and the cache of the unfailed run, or the error -/
def retryReport (strat : Strat) (cr : Bool) (k : Nat) : String :=
  let w' := (run strat cr).1
  let fs := fsAt strat cr k
  let pre := s!"k={k} after={showTail strat cr k} safe={Sys.Example.safeB (trackedOf [] W.ws) fs} noGap={noGapB ctx W.ws fs} lock gone={absent fs .lock}"
  match cmdCommit cfg strat [] (gapWorld strat cr k) with
  | .error e => pre ++ s!" retry: error {repr e}"
  | .ok w2 => pre ++ s!" retry ok: same index={decide (w2.idx = w'.idx)} same cache={storeSame w2.store w'.store}"

/-- positions at which the retry does not reproduce the state of the unfailed commit -/
def badPositions (strat : Strat) (cr : Bool) : List Nat :=
  (List.range ((run strat cr).2.length + 1)).filter fun k =>
    match cmdCommit cfg strat [] (gapWorld strat cr k) with
    | .error _ => true
    | .ok w2 => !(decide (w2.idx = (run strat cr).1.idx) && storeSame w2.store (run strat cr).1.store)

/-- positions at which `NoGap` fails -/
def gapPositions (strat : Strat) (cr : Bool) : List Nat :=
  (List.range ((run strat cr).2.length + 1)).filter fun k => !noGapB ctx W.ws (fsAt strat cr k)

-- link strategy, rename-able cache: the retry fails exactly in the windows [9,10] (f), [23,24] (d/u), [27,28] (d/v)
#eval (badPositions .link true, gapPositions .link true)
-- link strategy, cache on another device: exactly at the final `symlink` of each file
#eval (badPositions .link false, gapPositions .link false)
-- copy strategy: never
#eval (badPositions .copy true, gapPositions .copy true)
#eval (List.range 41).map (retryReport .link true)

end ExampleFault

/-! ## non-vacuity, second world: the two-stage pipeline of `Props/C01world.lean`

Stage B consumes the output directory `a/` of stage A (an OWNED input); `a/` contains a sub-directory.  The
fault (position 12: `rename a/y/z → <object>`) falls inside the first artifact: `a/x` is already a link. -/

namespace Example2Fault
open Dud Dud.Sys Dud.Example Dud.Retry Dud.WT Dud.WStat

def cc (cr : Bool) : CmdCfg K :=
  { cfg := Example2.cfg, isEmp := Sys.Example.isEmp, canRename := cr, encStage := ExampleCmd.encStage }

def run (strat : Strat) (cr : Bool) : World K × List (Call K) :=
  match cmdCommitGoT (cc cr) strat [] Example2.w0 with
  | .ok r => r
  | .error _ => (default, [])

theorem run_ok : cmdCommitGoT (cc true) .link [] Example2.w0 = .ok (run .link true) := rfl

theorem std (Sc : Bytes → Prop) : Std Example2.cfg Sc Example2.w0 where
  good := good
  cons := by intro d o h; simp [Example2.w0, Store.get, alookup] at h
  ok := Example2.pipelineOK Sc
  files := Example2.plainInputsFiles Sc
  apart := Example2.plainInputsApartAll Sc
  recur := fun _ _ _ hs => Example2.outputsRecursive hs
  regular := by
    intro sp stg _ hs b hb hn
    rcases Example2.idx_cases hs with ⟨_, rfl⟩ | ⟨_, rfl⟩
    · simp [Example2.stageA] at hb
    · simp only [Example2.stageB, List.mem_singleton] at hb
      subst hb
      have : (findOwner Example2.cfg.walkAccumulates Example2.w0.idx [97]).isNone = false := rfl
      rw [this] at hn
      cases hn

theorem w0_uniq : uniqNode Example2.w0.ws := by
  simp [Example2.w0, Example2.treeA, uniqNode, uniqList]

def fsAt (k : Nat) : FS K :=
  runFaultCleanup Sys.Example.emp (fsOfWorld (cc true) Example2.w0) (run .link true).2 k

set_option maxRecDepth 100000 in
theorem state_12 :
    ExampleFault.showTail' (run .link true).2 12 = ["unlink lock"] ∧
    ExampleFault.linkAt (fsAt 12) [[97], [120]] (ctx.H (.raw "x")) = true ∧
    Sys.Example.fileAt (fsAt 12) (.ws [[97], [121], [122]]) (.raw "z") = true ∧
    noGapB ctx Example2.w0.ws (fsAt 12) = true := by
  decide +kernel

/-- **the retry theorem instantiated**: after the fault at position 12, `dud commit` again ends with the
index of the commit that never failed and the same cache as a map -/
theorem retry_12 (strat2 : Strat) :
    ∃ w2, cmdCommit Example2.cfg strat2 []
        (faultWorld (cc true) Example2.w0 (run .link true).1 (fsAt 12)) = .ok w2 ∧
      w2.idx = (run .link true).1.idx ∧ Store.le ctx (run .link true).1.store w2.store ∧
      Store.le ctx w2.store (run .link true).1.store := by
  obtain ⟨w2, h1, h2, -, h4, h5, -⟩ := cmdCommit_fault_retry (c := cc true) Sys.Example.hemp (std _)
    w0_uniq run_ok 12 (noGapB_sound state_12.2.2.2) strat2
  exact ⟨w2, h1, h2, h4, h5⟩

end Example2Fault

#print axioms cmdCommit_fault_safe
#print axioms cmdCommitFaultT_safe
#print axioms cmdCommit_fault_safe_below
#print axioms cmdCommit_fault_stage_files
#print axioms cmdCommit_fault_stage_files_atomic
#print axioms cmdCommit_fault_unlocked
#print axioms cmdCommit_fault_at_unlock_keeps_lock
#print axioms cmdCommit_fault_tmp_free
#print axioms cmdCommit_fault_ctmp_free
#print axioms cmdCommit_fault_exit
#print axioms cmdCommit_fault_summary
#print axioms cmdCommit_fault_keeps_objects
#print axioms cmdCommit_fault_intact
#print axioms faultWorld_abstraction
#print axioms cmdCommit_fault_retry
#print axioms Dud.commitArt_ahead
#print axioms Dud.Retry.commit_from_resume
#print axioms Dud.Retry.commit_retry_world
#print axioms ExampleFault.fault_26_safe
#print axioms ExampleFault.retry_26
#print axioms ExampleFault.known_finding_file
#print axioms ExampleFault.known_finding_dir
#print axioms ExampleFault.probe_unlink_leaves_tmp
#print axioms ExampleFault.last_call_keeps_lock
#print axioms Example2Fault.retry_12

end Dud.Sys
