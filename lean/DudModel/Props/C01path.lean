import DudModel.Lemmas.PathSpec
import DudModel.OwnerSpec
/-!
# C01 / C08 / C12 — "from whichever directory dud is invoked": re-basing of command-line arguments

`src/cmd/root.go`, `prepare(paths)`: before the process changes directory to the project root,
every stage-file argument is replaced by `pathAbsThenRel(rootDir, path)`:

    absPath, err := filepath.Abs(path)        // Clean(path) if IsAbs(path) else Join(cwd, path)
    return filepath.Rel(base, absPath)

and the result is what is looked up in the index (whose keys are root-relative clean paths).  In
the model (`World.lean`) stage paths *are* root-relative clean paths, so the claim "an argument
spelled relative to any invocation directory inside the project denotes the same root-relative
stage path" used to be tested only (streams S1/S6, harness hook `PathAbsThenRel`).  Here it is
proved about the byte-level model of Go's `path/filepath` in `DudModel/Path.lean`, for all paths:
no bound on the length of names, on the depth of the root, of the invocation directory or of the
stage path.  The model is byte-level, so names that are not valid UTF-8 are covered as well.

Vocabulary (`DudModel/PathSpec.lean`): `absOf cs` is the absolute clean path with the components
`cs`, `relOf cs` the relative one (`"."` for `[]`), `Good cs` says that every component is one that
`Clean` keeps (not empty, not ".", not "..", no '/'), `denote cwd arg` is the absolute location an
argument denotes lexically for a process in `absOf cwd` (the walk along the raw segments of `arg`,
starting at "/" for an absolute argument), `segsOf arg` are the segments of `arg` other than "" and
".".

Main statements
* `absPath_eq`, `pathAbsThenRel_eq`: what the two Go calls compute, for EVERY argument string;
* `rebase_iff`: the re-based argument is the stage path `p` iff the argument denotes `root/p`;
* `rebase_relative` (a): every spelling in `Spelling r d p` — the `..`-spelling from the invocation
  directory, the shortest one when `d` and `p` share a prefix, whatever `filepath.Rel(cwd, root/p)`
  yields, the absolute one, and each of these with a trailing slash, a leading "./", doubled
  slashes, "/./" or any other rearrangement of noise segments — is re-based to `p`;
* `rebase_total`, `rebase_outside`, `rebase_outside_not_stage`, `rebase_inside` (b): with an
  absolute root and working directory `Rel` never fails; an argument outside the root is re-based
  to a path whose first component is ".." and that therefore equals no root-relative stage path;
  `rel_abs_eq_none_iff` (Lemmas) says exactly when `Rel` fails: absolute base, relative target;
* `rebase_injective` (c): two arguments have the same re-based form iff they denote the same
  absolute path — inside the root or not;
* `rebase_lexical_respelling` (d): a different *lexical* spelling of the root or of the working
  directory ("/home//u/./proj/") changes nothing.

What is NOT covered
* (d) Everything here is lexical, exactly like `filepath.Abs` / `filepath.Rel`.  If the root is
  reached through a symbolic link (`os.Getwd()` returns the logical `$PWD`, an absolute argument
  spells the physical path, or the other way round) the two are different component lists and the
  argument is treated as outside the root (`rebase_outside`): the statements are NOT expected to
  hold across such spellings and nothing is claimed about them.  Likewise `a/../b` is identified
  with `b` although with a symbolic link `a` the kernel would resolve it differently (Go does the
  same).
* `getProjectRootDir` itself (which directory contains `.dud`) needs the file system; only its
  purely lexical step is covered: `walk_up` (`filepath.Dir` applied `d.length` times leads from
  `root/d` to `root`, through the prefixes).  `os.Getwd()` is assumed to return an absolute clean
  path (`absOf cwd` with `Good cwd`), as the kernel / `$PWD` check guarantee.
* `filepath.Abs` fails only when `os.Getwd()` fails; that error path is not modelled.
-/
namespace Dud.C01path
open Dud.Path Dud.PathSpec

/- `absPath` and `pathAbsThenRel` (the model of the two Go calls) are defined in `DudModel/PathSpec.lean`,
where the driver executes them against the real `pathAbsThenRel` (stream S7-path of the C01 check). -/

/-! ## what the two calls compute, for every argument -/

/-- `filepath.Abs` returns the absolute clean path of what the argument denotes -/
theorem absPath_eq {cwd : Comps} (hc : Good cwd) (arg : Bytes) :
    absPath (absOf cwd) arg = absOf (denote cwd arg) := by
  unfold absPath
  cases h : isAbs arg with
  | true => rw [if_pos rfl]; exact clean_abs_denote cwd h
  | false => rw [if_neg Bool.false_ne_true, join_absOf hc, denote_rel h]

theorem pathAbsThenRel_eq {r cwd : Comps} (hc : Good cwd) (arg : Bytes) :
    pathAbsThenRel (absOf r) (absOf cwd) arg = rel (absOf r) (absOf (denote cwd arg)) := by
  rw [pathAbsThenRel, absPath_eq hc]

/-- The re-based argument is the root-relative path `p` exactly when the argument denotes
`root/p`.  (`p = []`, i.e. the root itself, gives ".") -/
theorem rebase_iff {r cwd p : Comps} (hr : Good r) (hc : Good cwd) (hp : Good p) (arg : Bytes) :
    pathAbsThenRel (absOf r) (absOf cwd) arg = some (relOf p) ↔ denote cwd arg = r ++ p := by
  rw [pathAbsThenRel_eq hc]
  constructor
  · intro h
    rw [← rel_absOf' hr hp] at h
    exact rel_absOf_inj hr (denote_isGood hc arg) (hr.append hp) h
  · intro h
    rw [h, rel_absOf' hr hp]

/-! ## (a) every spelling of a stage path is re-based to the stage path -/

/-- Spellings of the stage path `p` (root-relative components) for a process in `root/d`.
The first four are what users, `filepath.Rel` and shell completion produce; the others close the
set under the noise that shells and scripts add. -/
inductive Spelling (r d p : Comps) : Bytes → Prop
  /-- up to the root, then down: `../` once per component of `d`, then `p` -/
  | updown : Spelling r d p (intercalate (ups d.length ++ p))
  /-- `d` and `p` share the prefix `q`: up out of the rest of `d`, down the rest of `p`
  (the shortest spelling when `q` is the longest common prefix; "." when nothing remains) -/
  | shortest (q d' p' : Comps) (hd : d = q ++ d') (hp : p = q ++ p') :
      Spelling r d p (relOf (ups d'.length ++ p'))
  /-- whatever `filepath.Rel(cwd, root/p)` returns -/
  | rel (arg : Bytes) (h : Path.rel (absOf (r ++ d)) (absOf (r ++ p)) = some arg) :
      Spelling r d p arg
  /-- the absolute spelling -/
  | absolute : Spelling r d p (absOf (r ++ p))
  /-- a trailing slash -/
  | trailingSlash (a : Bytes) (h : Spelling r d p a) (hne : a ≠ []) : Spelling r d p (a ++ [slash])
  /-- a leading "./" on a relative spelling -/
  | dotSlash (a : Bytes) (h : Spelling r d p a) (hrel : isAbs a = false) :
      Spelling r d p (dot :: slash :: a)
  /-- a doubled slash anywhere -/
  | doubleSlash (a b : Bytes) (h : Spelling r d p (a ++ slash :: b)) :
      Spelling r d p (a ++ slash :: slash :: b)
  /-- a "/./" anywhere -/
  | dotSegment (a b : Bytes) (h : Spelling r d p (a ++ slash :: b)) :
      Spelling r d p (a ++ slash :: dot :: slash :: b)
  /-- any string that is absolute / relative like `a` and has the same segments apart from
  "" and "." -/
  | sameSegs (a b : Bytes) (h : Spelling r d p a) (habs : isAbs b = isAbs a)
      (hseg : segsOf b = segsOf a) : Spelling r d p b

theorem isAbs_insert_slash (a b c : Bytes) :
    isAbs (a ++ slash :: c) = isAbs (a ++ slash :: b) := by
  cases a with
  | nil => rfl
  | cons x a => rfl

/-- every spelling denotes `root/p` -/
theorem Spelling.denote {r d p : Comps} (hr : Good r) (hd : Good d) (hp : Good p) (hne : p ≠ [])
    {arg : Bytes} (h : Spelling r d p arg) : denote (r ++ d) arg = r ++ p := by
  have hrd : Good (r ++ d) := hr.append hd
  induction h with
  | updown =>
    rw [← relOf_eq_intercalate (by simp [hne]), denote_updown hrd _ hp,
      dropLastN_append (Nat.le_refl _), dropLastN_length, List.append_nil]
  | shortest q d' p' hd' hp' =>
    subst hd' hp'
    rw [denote_updown hrd _ hp.right, ← List.append_assoc r q d',
      dropLastN_append (Nat.le_refl _), dropLastN_length, List.append_nil, List.append_assoc]
  | rel arg h =>
    obtain ⟨h1, h2⟩ := rel_roundtrip hrd (hr.append hp) h
    rw [denote_rel h1, h2]
  | absolute => exact denote_absOf _ (hr.append hp)
  | trailingSlash a _ hne' ih =>
    rw [← ih]
    exact denote_congr _ (isAbs_append hne' _) (segsOf_trailing_slash a)
  | dotSlash a _ hrel ih =>
    rw [← ih]
    exact denote_congr _ (by rw [isAbs_dot_slash, hrel]) (segsOf_dot_slash a)
  | doubleSlash a b _ ih =>
    rw [← ih]
    exact denote_congr _ (isAbs_insert_slash a b _) (segsOf_double_slash a b)
  | dotSegment a b _ ih =>
    rw [← ih]
    exact denote_congr _ (isAbs_insert_slash a b _) (segsOf_dot_segment a b)
  | sameSegs a b _ habs hseg ih =>
    rw [← ih]
    exact denote_congr _ habs hseg

/-- **(a)** For a project root `absOf r`, an invocation directory `absOf (r ++ d)` inside it (any
depth, `d = []` included) and a stage path with root-relative components `p`, every spelling of the
argument is re-based to the stage path `intercalate p`. -/
theorem rebase_relative {r d p : Comps} (hr : Good r) (hd : Good d) (hp : Good p) (hne : p ≠ [])
    {arg : Bytes} (h : Spelling r d p arg) :
    pathAbsThenRel (absOf r) (absOf (r ++ d)) arg = some (intercalate p) := by
  rw [← relOf_eq_intercalate hne]
  exact (rebase_iff hr (hr.append hd) hp arg).2 (h.denote hr hd hp hne)

/-- (a), first spelling, as `filepath.Rel(cwd, root/p)` yields it when `d` and `p` have no common
first component: `../` for every component of `d`, then `p` -/
theorem rebase_updown {r d p : Comps} (hr : Good r) (hd : Good d) (hp : Good p) (hne : p ≠ []) :
    pathAbsThenRel (absOf r) (absOf (r ++ d))
      (intercalate (List.replicate d.length dotdot ++ p)) = some (intercalate p) :=
  rebase_relative hr hd hp hne .updown

/-- (a), the shortest spelling: invocation directory `root/q/d'`, stage path `q/p'` -/
theorem rebase_shortest {r q d' p' : Comps} (hr : Good r) (hq : Good q) (hd : Good d')
    (hp : Good p') (hne : q ++ p' ≠ []) :
    pathAbsThenRel (absOf r) (absOf (r ++ (q ++ d')))
      (relOf (List.replicate d'.length dotdot ++ p')) = some (intercalate (q ++ p')) :=
  rebase_relative hr (hq.append hd) (hq.append hp) hne (.shortest q d' p' rfl rfl)

/-- (a), round trip with `filepath.Rel`: whatever `Rel(cwd, root/p)` returns is re-based to `p` -/
theorem rebase_of_rel {r d p : Comps} (hr : Good r) (hd : Good d) (hp : Good p) (hne : p ≠ [])
    {arg : Bytes} (h : rel (absOf (r ++ d)) (absOf (r ++ p)) = some arg) :
    pathAbsThenRel (absOf r) (absOf (r ++ d)) arg = some (intercalate p) :=
  rebase_relative hr hd hp hne (.rel arg h)

/-- (a), the absolute spelling -/
theorem rebase_absolute {r d p : Comps} (hr : Good r) (hd : Good d) (hp : Good p) (hne : p ≠ []) :
    pathAbsThenRel (absOf r) (absOf (r ++ d)) (absOf (r ++ p)) = some (intercalate p) :=
  rebase_relative hr hd hp hne .absolute

/-- noise is invisible, for every argument and every (absolute clean) root and working directory:
two arguments that are both absolute or both relative and have the same segments apart from ""
and "." are re-based to the same result -/
theorem rebase_same_segments {r cwd : Comps} (hc : Good cwd) {a b : Bytes}
    (habs : isAbs a = isAbs b) (hseg : segsOf a = segsOf b) :
    pathAbsThenRel (absOf r) (absOf cwd) a = pathAbsThenRel (absOf r) (absOf cwd) b := by
  rw [pathAbsThenRel_eq hc, pathAbsThenRel_eq hc, denote_congr cwd habs hseg]

/-! ## (b) arguments outside the root; `Rel` never fails -/

/-- **(b)** with an absolute clean root and working directory `pathAbsThenRel` never fails,
whatever the argument -/
theorem rebase_total {r cwd : Comps} (hr : Good r) (hc : Good cwd) (arg : Bytes) :
    ∃ out, pathAbsThenRel (absOf r) (absOf cwd) arg = some out := by
  rw [pathAbsThenRel_eq hc, rel_absOf_absOf hr (denote_isGood hc arg)]
  exact ⟨_, rfl⟩

/-- the same for ANY absolute strings as root and working directory -/
theorem rebase_total_abs {root cwd : Bytes} (hr : isAbs root = true) (hc : isAbs cwd = true)
    (arg : Bytes) : pathAbsThenRel root cwd arg ≠ none := by
  intro h
  have habs : isAbs (absPath cwd arg) = true := by
    unfold absPath
    cases ha : isAbs arg with
    | true => rw [if_pos rfl, clean_abs ha]; exact isAbs_absOf _
    | false => rw [if_neg Bool.false_ne_true, join_abs hc]; exact isAbs_absOf _
  rw [pathAbsThenRel, rel_abs_eq_none_iff hr, habs] at h
  exact absurd h (by decide)

/-- an argument inside the root (or the root itself) is re-based to its root-relative path -/
theorem rebase_inside {r cwd : Comps} (hr : Good r) (hc : Good cwd) {arg : Bytes}
    (h : r <+: denote cwd arg) :
    ∃ c, Good c ∧ denote cwd arg = r ++ c ∧
      pathAbsThenRel (absOf r) (absOf cwd) arg = some (relOf c) := by
  obtain ⟨c, e⟩ := h
  have hg : Good c := by
    have := denote_isGood hc arg
    rw [← e] at this
    exact this.right
  exact ⟨c, hg, e.symm, (rebase_iff hr hc hg arg).2 e.symm⟩

/-- **(b)** an argument that denotes a path outside the root is re-based to a path whose first
component is ".." -/
theorem rebase_outside {r cwd : Comps} (hr : Good r) (hc : Good cwd) {arg : Bytes}
    (h : ¬ r <+: denote cwd arg) :
    ∃ rest, RelSeg rest ∧
      pathAbsThenRel (absOf r) (absOf cwd) arg = some (intercalate (dotdot :: rest)) := by
  rw [pathAbsThenRel_eq hc]
  exact rel_absOf_outside hr (denote_isGood hc arg) h

/-- (b), in bytes: the result is ".." or begins with "../" -/
theorem rebase_outside_bytes {r cwd : Comps} (hr : Good r) (hc : Good cwd) {arg : Bytes}
    (h : ¬ r <+: denote cwd arg) :
    ∃ tail, pathAbsThenRel (absOf r) (absOf cwd) arg = some (dot :: dot :: tail) ∧
      (tail = [] ∨ ∃ t, tail = slash :: t) := by
  obtain ⟨rest, -, e⟩ := rebase_outside hr hc h
  cases rest with
  | nil => exact ⟨[], e, .inl rfl⟩
  | cons y rest =>
    refine ⟨slash :: intercalate (y :: rest), ?_, .inr ⟨_, rfl⟩⟩
    rw [e, intercalate_cons_cons]; rfl

/-- (b) … and so it is not the path of any stage of the index (root-relative clean paths): dud
answers `unknown stage`, it cannot pick a stage by accident -/
theorem rebase_outside_not_stage {r cwd : Comps} (hr : Good r) (hc : Good cwd) {arg : Bytes}
    (h : ¬ r <+: denote cwd arg) {q : Comps} (hq : Good q) :
    pathAbsThenRel (absOf r) (absOf cwd) arg ≠ some (relOf q) := by
  intro e
  have := (rebase_iff hr hc hq arg).1 e
  exact h ⟨q, this.symm⟩

/-- the re-based form is a root-relative stage path exactly for arguments inside the root -/
theorem rebase_stage_iff_inside {r cwd : Comps} (hr : Good r) (hc : Good cwd) (arg : Bytes) :
    (∃ q, Good q ∧ pathAbsThenRel (absOf r) (absOf cwd) arg = some (relOf q)) ↔
      r <+: denote cwd arg := by
  constructor
  · rintro ⟨q, hq, e⟩
    exact ⟨q, ((rebase_iff hr hc hq arg).1 e).symm⟩
  · intro h
    obtain ⟨c, hg, -, e⟩ := rebase_inside hr hc h
    exact ⟨c, hg, e⟩

/-! ## (c) injectivity -/

/-- **(c)** two arguments are re-based to the same result iff they denote the same absolute
path (`filepath.Abs` agrees on them) — whether inside the root or not -/
theorem rebase_injective {r cwd : Comps} (hr : Good r) (hc : Good cwd) (a b : Bytes) :
    pathAbsThenRel (absOf r) (absOf cwd) a = pathAbsThenRel (absOf r) (absOf cwd) b ↔
      absPath (absOf cwd) a = absPath (absOf cwd) b := by
  constructor
  · intro h
    rw [pathAbsThenRel_eq hc, pathAbsThenRel_eq hc] at h
    rw [absPath_eq hc, absPath_eq hc,
      rel_absOf_inj hr (denote_isGood hc a) (denote_isGood hc b) h]
  · intro h
    rw [pathAbsThenRel, pathAbsThenRel, h]

/-- (c) for stage paths: two arguments inside the root denote the same stage iff their re-based
forms are equal; the re-based forms are the stage paths -/
theorem rebase_injective_inside {r cwd p q : Comps} (hr : Good r) (hc : Good cwd) (hp : Good p)
    (hq : Good q) {a b : Bytes} (ha : denote cwd a = r ++ p) (hb : denote cwd b = r ++ q) :
    pathAbsThenRel (absOf r) (absOf cwd) a = pathAbsThenRel (absOf r) (absOf cwd) b ↔ p = q := by
  rw [(rebase_iff hr hc hp a).2 ha, (rebase_iff hr hc hq b).2 hb]
  constructor
  · intro h
    exact relOf_inj (updown_relSeg 0 hp) (updown_relSeg 0 hq) (Option.some.inj h)
  · intro h; rw [h]

/-! ## (d) lexical re-spellings of the root and of the working directory -/

/-- **(d)** any *lexical* re-spelling of the (absolute) root and working directory — doubled
slashes, "/./", a trailing slash, "x/.." detours — is invisible: only the clean paths matter.
Spellings that differ by symbolic links are different clean paths and are NOT identified. -/
theorem rebase_lexical_respelling {root cwd : Bytes} (hc : isAbs cwd = true) (arg : Bytes) :
    pathAbsThenRel root cwd arg = pathAbsThenRel (clean root) (clean cwd) arg := by
  unfold pathAbsThenRel
  rw [rel_clean_left]
  congr 1
  unfold absPath
  cases ha : isAbs arg with
  | true => rfl
  | false =>
    rw [if_neg Bool.false_ne_true, if_neg Bool.false_ne_true, join_abs hc, clean_abs hc,
      join_absOf (resolve_isGood good_nil (splitSlash_slashFree cwd))]

/-! ## the lexical step of `getProjectRootDir` -/

/-- `filepath.Dir` applied `n` times -/
def dirN : Nat → Bytes → Bytes
  | 0, s => s
  | n + 1, s => dirN n (dir s)

/-- walking up from `root/d` with `filepath.Dir` passes through the prefixes and reaches `root`
after `d.length` steps -/
theorem walk_up {r : Comps} (hr : Good r) : ∀ {drev : Comps}, Good drev →
    dirN drev.length (absOf (r ++ drev.reverse)) = absOf r
  | [], _ => by simp [dirN]
  | c :: drev, h => by
    have h1 : Good drev := fun x hx => h x (List.mem_cons_of_mem _ hx)
    have h2 : Good ((r ++ drev.reverse) ++ [c]) :=
      (hr.append h1.reverse).append (fun x hx => h x (by simp at hx; simp [hx]))
    rw [List.length_cons, dirN, List.reverse_cons, ← List.append_assoc, dir_absOf_snoc h2]
    exact walk_up hr h1

/-! ## stage paths of the model: `CleanRel` -/

/-- the component predicate of this development is the one of `OwnerSpec.lean` -/
theorem goodComp_iff (c : Bytes) : PathSpec.GoodComp c ↔ Dud.GoodComp c := Iff.rfl

/-- the result of (a) is a `CleanRel` path in the sense of `OwnerSpec.lean` (the shape of the
stage and artifact paths of the model) -/
theorem cleanRel_intercalate {p : Comps} (hp : Good p) (hne : p ≠ []) :
    Dud.CleanRel (intercalate p) :=
  ⟨p, hne, hp, rfl⟩

/-! ## non-vacuity: concrete instances, checked by `decide` -/

namespace Example

/-- "/home/jo doe/proj" (a blank in a name) -/
def r : Comps := [[0x68, 0x6F, 0x6D, 0x65], [0x6A, 0x6F, 0x20, 0x64, 0x6F, 0x65], [0x70, 0x72, 0x6F, 0x6A]]
/-- invocation directory "data/raw" below the root -/
def d : Comps := [[0x64, 0x61, 0x74, 0x61], [0x72, 0x61, 0x77]]
/-- stage path "data/..hidden/a..b.yaml": dots that are not ".." -/
def p : Comps := [[0x64, 0x61, 0x74, 0x61], [0x2E, 0x2E, 0x68, 0x69, 0x64, 0x64, 0x65, 0x6E],
  [0x61, 0x2E, 0x2E, 0x62, 0x2E, 0x79, 0x61, 0x6D, 0x6C]]
/-- "data/..hidden/a..b.yaml" -/
def pStr : Bytes := [0x64, 0x61, 0x74, 0x61, 0x2F, 0x2E, 0x2E, 0x68, 0x69, 0x64, 0x64, 0x65, 0x6E, 0x2F,
  0x61, 0x2E, 0x2E, 0x62, 0x2E, 0x79, 0x61, 0x6D, 0x6C]
/-- "/home/jo doe/proj" -/
def rootStr : Bytes := [0x2F, 0x68, 0x6F, 0x6D, 0x65, 0x2F, 0x6A, 0x6F, 0x20, 0x64, 0x6F, 0x65, 0x2F,
  0x70, 0x72, 0x6F, 0x6A]
/-- "/home/jo doe/proj/data/raw" -/
def cwdStr : Bytes := [0x2F, 0x68, 0x6F, 0x6D, 0x65, 0x2F, 0x6A, 0x6F, 0x20, 0x64, 0x6F, 0x65, 0x2F,
  0x70, 0x72, 0x6F, 0x6A, 0x2F, 0x64, 0x61, 0x74, 0x61, 0x2F, 0x72, 0x61, 0x77]

/-- the hypotheses of the theorems hold for these data -/
theorem hyps : Good r ∧ Good d ∧ Good p ∧ p ≠ [] := by decide

theorem strings : absOf r = rootStr ∧ absOf (r ++ d) = cwdStr ∧ intercalate p = pStr := by decide

/-- "../../data/..hidden/a..b.yaml" -/
theorem updown : pathAbsThenRel rootStr cwdStr
    [0x2E, 0x2E, 0x2F, 0x2E, 0x2E, 0x2F, 0x64, 0x61, 0x74, 0x61, 0x2F, 0x2E, 0x2E, 0x68, 0x69, 0x64,
     0x64, 0x65, 0x6E, 0x2F, 0x61, 0x2E, 0x2E, 0x62, 0x2E, 0x79, 0x61, 0x6D, 0x6C] = some pStr := by
  decide

/-- the shortest spelling "../..hidden/a..b.yaml" (common prefix "data") is what `Rel` yields -/
theorem shortest : rel cwdStr (absOf (r ++ p)) =
      some [0x2E, 0x2E, 0x2F, 0x2E, 0x2E, 0x68, 0x69, 0x64, 0x64, 0x65, 0x6E, 0x2F, 0x61, 0x2E, 0x2E,
        0x62, 0x2E, 0x79, 0x61, 0x6D, 0x6C] ∧
    pathAbsThenRel rootStr cwdStr
      [0x2E, 0x2E, 0x2F, 0x2E, 0x2E, 0x68, 0x69, 0x64, 0x64, 0x65, 0x6E, 0x2F, 0x61, 0x2E, 0x2E,
        0x62, 0x2E, 0x79, 0x61, 0x6D, 0x6C] = some pStr := by
  decide

/-- the absolute spelling "/home/jo doe/proj/data/..hidden/a..b.yaml" -/
theorem absolute : pathAbsThenRel rootStr cwdStr
    [0x2F, 0x68, 0x6F, 0x6D, 0x65, 0x2F, 0x6A, 0x6F, 0x20, 0x64, 0x6F, 0x65, 0x2F, 0x70, 0x72, 0x6F,
     0x6A, 0x2F, 0x64, 0x61, 0x74, 0x61, 0x2F, 0x2E, 0x2E, 0x68, 0x69, 0x64, 0x64, 0x65, 0x6E, 0x2F,
     0x61, 0x2E, 0x2E, 0x62, 0x2E, 0x79, 0x61, 0x6D, 0x6C] = some pStr := by
  decide

/-- noise: ".//..//..hidden/./a..b.yaml/" -/
theorem noisy : pathAbsThenRel rootStr cwdStr
    [0x2E, 0x2F, 0x2F, 0x2E, 0x2E, 0x2F, 0x2F, 0x2E, 0x2E, 0x68, 0x69, 0x64, 0x64, 0x65, 0x6E, 0x2F,
     0x2E, 0x2F, 0x61, 0x2E, 0x2E, 0x62, 0x2E, 0x79, 0x61, 0x6D, 0x6C, 0x2F] = some pStr := by
  decide

/-- a detour through the directory above the root and back:
"../../../proj/data/raw/../..hidden/a..b.yaml" (covered by `rebase_iff`) -/
theorem detour : pathAbsThenRel rootStr cwdStr
    [0x2E, 0x2E, 0x2F, 0x2E, 0x2E, 0x2F, 0x2E, 0x2E, 0x2F, 0x70, 0x72, 0x6F, 0x6A, 0x2F, 0x64, 0x61,
     0x74, 0x61, 0x2F, 0x72, 0x61, 0x77, 0x2F, 0x2E, 0x2E, 0x2F, 0x2E, 0x2E, 0x68, 0x69, 0x64, 0x64,
     0x65, 0x6E, 0x2F, 0x61, 0x2E, 0x2E, 0x62, 0x2E, 0x79, 0x61, 0x6D, 0x6C] = some pStr := by
  decide

/-- outside the root: "../../../other/x" ↦ "../other/x", "/etc" ↦ "../../../etc" -/
theorem outside :
    pathAbsThenRel rootStr cwdStr
      [0x2E, 0x2E, 0x2F, 0x2E, 0x2E, 0x2F, 0x2E, 0x2E, 0x2F, 0x6F, 0x74, 0x68, 0x65, 0x72, 0x2F, 0x78]
      = some [0x2E, 0x2E, 0x2F, 0x6F, 0x74, 0x68, 0x65, 0x72, 0x2F, 0x78] ∧
    pathAbsThenRel rootStr cwdStr [0x2F, 0x65, 0x74, 0x63]
      = some [0x2E, 0x2E, 0x2F, 0x2E, 0x2E, 0x2F, 0x2E, 0x2E, 0x2F, 0x65, 0x74, 0x63] ∧
    ¬ r <+: denote (r ++ d) [0x2F, 0x65, 0x74, 0x63] := by
  decide

/-- the root itself: "../.." ↦ "." ; the empty argument denotes the working directory -/
theorem root_and_empty :
    pathAbsThenRel rootStr cwdStr [0x2E, 0x2E, 0x2F, 0x2E, 0x2E] = some [0x2E] ∧
    pathAbsThenRel rootStr cwdStr [] = some [0x64, 0x61, 0x74, 0x61, 0x2F, 0x72, 0x61, 0x77] := by
  decide

/-- names that are not valid UTF-8 (0xFF 0xFE) are ordinary components: "../\xFF\xFE" from
"root/data/raw" is "data/\xFF\xFE" -/
theorem non_utf8 :
    Good [[0x64, 0x61, 0x74, 0x61], [0xFF, 0xFE]] ∧
    pathAbsThenRel rootStr cwdStr [0x2E, 0x2E, 0x2F, 0xFF, 0xFE]
      = some [0x64, 0x61, 0x74, 0x61, 0x2F, 0xFF, 0xFE] := by
  decide

/-- a lexically re-spelt root "/home//jo doe/./proj/" gives the same answers -/
theorem respelt_root : pathAbsThenRel
    [0x2F, 0x68, 0x6F, 0x6D, 0x65, 0x2F, 0x2F, 0x6A, 0x6F, 0x20, 0x64, 0x6F, 0x65, 0x2F, 0x2E, 0x2F,
     0x70, 0x72, 0x6F, 0x6A, 0x2F] cwdStr
    [0x2E, 0x2E, 0x2F, 0x2E, 0x2E, 0x68, 0x69, 0x64, 0x64, 0x65, 0x6E, 0x2F, 0x61, 0x2E, 0x2E,
     0x62, 0x2E, 0x79, 0x61, 0x6D, 0x6C] = some pStr := by
  decide

/-- the Go quirk of `Rel` — `Rel("a", ".") = "../."`, not ".." — is in the model; it needs a
relative target and so never shows in `pathAbsThenRel` (the target is absolute: `rebase_iff`,
`root_and_empty`) -/
theorem go_quirk : rel [0x61] [0x2E] = some [0x2E, 0x2E, 0x2F, 0x2E] ∧
    rel [0x2F, 0x61] [0x2F] = some [0x2E, 0x2E] := by
  decide

/-- `Rel` fails: absolute base, relative target (`rel_abs_eq_none_iff`); relative base whose
remaining part begins with ".." -/
theorem rel_fails : rel rootStr [0x61] = none ∧ rel [0x2E, 0x2E] [0x61] = none := by
  decide

/-- `Clean` is idempotent also where it changes its argument: "a/../../b//" ↦ "../b" -/
theorem clean_example :
    clean [0x61, 0x2F, 0x2E, 0x2E, 0x2F, 0x2E, 0x2E, 0x2F, 0x62, 0x2F, 0x2F] = [0x2E, 0x2E, 0x2F, 0x62] ∧
    clean [0x2E, 0x2E, 0x2F, 0x62] = [0x2E, 0x2E, 0x2F, 0x62] := by
  decide

/-- the walk of `getProjectRootDir`: two `Dir` steps from the working directory reach the root -/
theorem walk : dirN 2 cwdStr = rootStr := by decide

/-- the general theorems instantiated at these data (so the hypotheses are satisfiable on a
non-trivial input) -/
example : pathAbsThenRel (absOf r) (absOf (r ++ d))
    (intercalate (List.replicate d.length dotdot ++ p)) = some (intercalate p) :=
  rebase_updown hyps.1 hyps.2.1 hyps.2.2.1 hyps.2.2.2

example : Spelling r d p
    [0x2E, 0x2F, 0x2F, 0x2E, 0x2E, 0x2F, 0x2F, 0x2E, 0x2E, 0x68, 0x69, 0x64, 0x64, 0x65, 0x6E, 0x2F,
     0x2E, 0x2F, 0x61, 0x2E, 0x2E, 0x62, 0x2E, 0x79, 0x61, 0x6D, 0x6C, 0x2F] :=
  .sameSegs _ _ (.shortest [[0x64, 0x61, 0x74, 0x61]] [[0x72, 0x61, 0x77]]
    [[0x2E, 0x2E, 0x68, 0x69, 0x64, 0x64, 0x65, 0x6E], [0x61, 0x2E, 0x2E, 0x62, 0x2E, 0x79, 0x61, 0x6D, 0x6C]]
    rfl rfl) (by decide) (by decide)

end Example

#print axioms absPath_eq
#print axioms pathAbsThenRel_eq
#print axioms rebase_iff
#print axioms Spelling.denote
#print axioms rebase_relative
#print axioms rebase_updown
#print axioms rebase_shortest
#print axioms rebase_of_rel
#print axioms rebase_absolute
#print axioms rebase_same_segments
#print axioms rebase_total
#print axioms rebase_total_abs
#print axioms rebase_inside
#print axioms rebase_outside
#print axioms rebase_outside_bytes
#print axioms rebase_outside_not_stage
#print axioms rebase_stage_iff_inside
#print axioms rebase_injective
#print axioms rebase_injective_inside
#print axioms rebase_lexical_respelling
#print axioms walk_up
#print axioms cleanRel_intercalate
#print axioms Dud.PathSpec.clean_idem
#print axioms Dud.PathSpec.clean_absOf
#print axioms Dud.PathSpec.join_absOf_rel
#print axioms Dud.PathSpec.rel_absOf
#print axioms Dud.PathSpec.rel_absOf_self
#print axioms Dud.PathSpec.join_absOf_updown
#print axioms Dud.PathSpec.join_rel
#print axioms Dud.PathSpec.rel_abs_eq_none_iff
#print axioms Example.updown
#print axioms Example.noisy
#print axioms Example.go_quirk

end Dud.C01path
