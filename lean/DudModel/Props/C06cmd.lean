import DudModel.Lemmas.CrashCheckoutCmd
import DudModel.Props.C03cmd
/-!
# C03 / C06 at the level of the whole command: killing `dud checkout` at any instant

`DudModel/SysCheckout.lean` defines `cmdCheckoutT`: the logical `cmdCheckout` TOGETHER WITH the list of
file-system mutating calls of the whole command (lock; for every stage in traversal order, for every
output that is not `SkipCache`, the `mkdir`s of `os.MkdirAll` on the ancestors and the trace of
`checkoutDir` / `checkoutFile`; unlock).  This file proves, for EVERY prefix of that list (the process is
killed after the k-th call, for every k):

* `cmdCheckoutT_refines` — erasing the trace gives exactly `cmdCheckout` (so every theorem about
  `cmdCheckout` applies, e.g. `cmdCheckout_keeps_workspace` of `Props/C06world.lean`);
* `cmdCheckoutT_keeps` — **every workspace entry that existed before the command is still there,
  unchanged** (regular files with their bytes AND mode, directories, links) — with ONE exception, under
  the copy strategy only: a link to a cache object, when that very object is being checked out, may be
  gone (unlinked), or replaced by an empty / incomplete / complete copy of the bytes of that object
  (`KeptP`); with the link strategy nothing that existed is ever touched (`cmdCheckoutT_keeps_link`);
* `cmdCheckoutT_untouched` — nothing outside the workspace is ever written except the lock: every cache
  object, shard directory, temp name, stage file holds after every prefix what it held before;
* `cmdCheckoutT_crash_safe` — hence **no data is lost and no object is torn**: the state after every prefix
  is `Safe` for ALL regular files the workspace held before the command (each byte sequence retrievable at
  its path, through a link at its path, or as the cache object named by its digest; whatever sits under a
  digest name is a complete file with exactly those bytes); `cmdCheckoutT_crash_safe_from` — the same from
  ANY state that agrees with the logical workspace and for ANY recorded list that was safe before, in
  particular for contents recorded THROUGH A LINK: when the link is removed and the copy is incomplete, the
  bytes are still in the cache under their digest;
* `cmdCheckoutT_lock_window` — the lock file exists exactly strictly between the first and the last call;
* `cmdCheckoutT_final` — after the complete trace the file system is the abstraction of the logical
  result: it agrees with the final logical workspace at EVERY path (`AbsAt`: absent where the tree has
  nothing, the bytes of every regular file — including every copy just made —, every link into the cache,
  every directory), in particular `Rel w'.ws …`, every pre-existing entry is kept or is a link replaced by
  a COMPLETE copy of the object it pointed to (`KeptB`), the lock is gone, the cache is unchanged.

Hypotheses (all explicit):
* `hemp` — the trace generator's "is empty" test is sound (an empty file gets no `write` call);
* `uniqNode w.ws` — entry names are pairwise distinct in every directory of the workspace (true of any
  real directory tree; follows from `Node.sorted`, `uniqNode_of_sorted`);
* `Consistent c.cfg.ctx w.store` — every object of the cache sits under the digest of its bytes (only for
  `Safe` of the initial state: "no torn object");
* a successful run (`cmdCheckoutT … = .ok …`): a run that fails at the logical level has no trace in this
  model (its real trace is a prefix of the calls before the failing check; C06's "a blocked checkout
  changes nothing" is about those runs).
`Good` (collision-free hash) is NOT needed: checkout never moves anything onto a digest name.  NO hypothesis
on the index, the manifests or the artifacts is needed: outputs may overlap, a manifest may list a name
twice, an artifact may be checked out twice — the argument re-establishes after every artifact the
agreement between the CURRENT logical workspace and the file system.

Not covered: one worker (the calls of one artifact are sequential, entries in manifest order); failing
runs — in particular a copy from a corrupted cache object (checksum mismatch after the copy) leaves the bad
copy behind in the real code; permission bits of the files checkout creates (`Call.createExcl` carries no
mode); `fsync`-level durability; foreign links and special files of the workspace are not represented in
the file system of the model (nothing is claimed about them, and no call ever names their paths: a
checkout over them fails).
-/
namespace Dud.Sys
open Dud
variable {κ : Type}

/-! ## refinement -/

/-- **Erasing the trace of `cmdCheckoutT` gives exactly `cmdCheckout`.** -/
theorem cmdCheckoutT_refines (c : CmdCfg κ) (strat : Strat) (single : Bool) (targets : List Bytes)
    (w : World κ) :
    (cmdCheckoutT c strat single targets w).map (·.1) = cmdCheckout c.cfg strat single targets w :=
  cmdCheckoutT_erase c strat single targets w

/-- in particular: same success, same final world -/
theorem cmdCheckoutT_ok {c : CmdCfg κ} {strat : Strat} {single : Bool} {targets : List Bytes}
    {w w' : World κ} {calls : List (Call κ)}
    (h : cmdCheckoutT c strat single targets w = .ok (w', calls)) :
    cmdCheckout c.cfg strat single targets w = .ok w' :=
  (map_fst_eq (cmdCheckoutT_refines c strat single targets w)).2 _ _ h

/-- … and conversely a successful logical command has a trace -/
theorem cmdCheckoutT_of_ok {c : CmdCfg κ} {strat : Strat} {single : Bool} {targets : List Bytes}
    {w w' : World κ} (h : cmdCheckout c.cfg strat single targets w = .ok w') :
    ∃ calls, cmdCheckoutT c strat single targets w = .ok (w', calls) := by
  have hr := cmdCheckoutT_refines c strat single targets w
  rw [h] at hr
  cases hT : cmdCheckoutT c strat single targets w with
  | error e => rw [hT] at hr; cases hr
  | ok v =>
    obtain ⟨w1, calls⟩ := v
    rw [hT] at hr
    simp only [Except.map, Except.ok.injEq] at hr
    subst hr
    exact ⟨calls, rfl⟩

/-! ## the structure of a successful run -/

/-- a call that writes no workspace path keeps all workspace entries -/
theorem pref_single_nonws {strat : Strat} {emp : κ} {fs0 fs : FS κ} (hk : KeptB strat fs0 fs) (x : Call κ)
    (hx : ∀ p ∈ callWrites x, ∀ q, p ≠ .ws q) :
    Pref (KeptP strat emp fs0) emp fs [x] ∧ KeptB strat fs0 (replay emp fs [x]) := by
  have hk' : KeptB strat fs0 (replay emp fs [x]) :=
    hk.frame (fun q _ => replay_get_frame emp _ _ fs (fun y hy hmem => by
      simp only [List.mem_singleton] at hy; subst hy; exact hx _ hmem q rfl))
  exact ⟨Pref.cons (hk.toP emp) (Pref.nil (hk'.toP emp)), hk'⟩

/-- Everything the command-level theorems need about a successful run, in one place, FROM ANY state `fs0`
that agrees with the logical workspace and holds the objects of the cache. -/
theorem cmdCheckoutT_run_from {c : CmdCfg κ} {strat : Strat} {emp : κ}
    (hemp : ∀ x, c.isEmp x = true → x = emp) {single : Bool} {targets : List Bytes} {w w' : World κ}
    {calls : List (Call κ)} {fs0 : FS κ} (ha0 : AbsAt [] (some w.ws) fs0)
    (hobj : ObjIn c.cfg.ctx w.store fs0) (hu : uniqNode w.ws)
    (h : cmdCheckoutT c strat single targets w = .ok (w', calls)) :
    ∃ segs : List (List (Call κ)),
      calls = [.createExcl .lock] ++ segs.flatten ++ [.unlink .lock] ∧
      CInv strat emp fs0 (replay emp fs0 [.createExcl .lock]) w.store w.idx (w', segs) ∧
      Pref (KeptP strat emp fs0) emp fs0 calls ∧ KeptB strat fs0 (replay emp fs0 calls) := by
  obtain ⟨segs, hpt, rfl⟩ := cmdCheckoutT_ok_inv h
  obtain ⟨p1, k1⟩ := pref_single_nonws (emp := emp) (KeptB.refl strat fs0) (Call.createExcl (κ := κ) .lock)
    (by intro p hp q; simp [callWrites, callPaths] at hp; subst hp; simp)
  have habs : AbsAt [] (some (fresh w).ws) (replay emp fs0 [.createExcl .lock]) :=
    ha0.frame (fun r => replay_get_frame emp _ _ fs0 (fun y hy hmem => by
      simp only [List.mem_singleton] at hy; subst hy
      simp [callWrites, callPaths] at hmem))
  have hinit : CInv strat emp fs0 (replay emp fs0 [.createExcl .lock]) w.store w.idx (fresh w, []) :=
    ⟨Pref.nil (k1.toP emp), k1, habs, hu, (by intro x hx; cases hx), rfl, rfl⟩
  have hinv := checkout_traversal_inv hemp hobj _ _ _ _ hinit hpt
  have hk2 : KeptB strat fs0 (replay emp fs0 ([.createExcl .lock] ++ segs.flatten)) := by
    rw [replay_append]; exact hinv.kept
  obtain ⟨p3, k3⟩ := pref_single_nonws (emp := emp) hk2 (Call.unlink (κ := κ) .lock)
    (by intro p hp q; simp [callWrites, callPaths] at hp; subst hp; simp)
  refine ⟨segs, rfl, hinv, Pref.append (Pref.append p1 hinv.pref) p3, ?_⟩
  rw [replay_append]; exact k3

/-- `fsOfWorld` agrees with the world -/
theorem cmdCheckoutT_run {c : CmdCfg κ} {strat : Strat} {emp : κ}
    (hemp : ∀ x, c.isEmp x = true → x = emp) {single : Bool} {targets : List Bytes} {w w' : World κ}
    {calls : List (Call κ)} (hu : uniqNode w.ws)
    (h : cmdCheckoutT c strat single targets w = .ok (w', calls)) :
    ∃ segs : List (List (Call κ)),
      calls = [.createExcl .lock] ++ segs.flatten ++ [.unlink .lock] ∧
      CInv strat emp (fsOfWorld c w) (replay emp (fsOfWorld c w) [.createExcl .lock]) w.store w.idx (w', segs) ∧
      Pref (KeptP strat emp (fsOfWorld c w)) emp (fsOfWorld c w) calls ∧
      KeptB strat (fsOfWorld c w) (replay emp (fsOfWorld c w) calls) :=
  cmdCheckoutT_run_from hemp (absAt_init c w hu) (objIn_init c w) hu h

/-! ## every pre-existing entry is kept -/

/-- **`dud checkout` never removes or changes a workspace entry — except a link to the object it is
copying.**  After EVERY prefix of the calls, every workspace path that held something before the command
(a regular file with bytes and mode, a directory, a link) holds exactly the same — or (copy strategy only)
it held a link to a cache object `d` with bytes `x`, and now holds nothing (the link was removed to make room for the copy), an
empty or incomplete regular file (the copy is being written), or a regular file with bytes `x` (`KeptP`).
In every case the bytes `x` are still in the cache (`cmdCheckoutT_untouched`). -/
theorem cmdCheckoutT_keeps {c : CmdCfg κ} {strat : Strat} {emp : κ}
    (hemp : ∀ x, c.isEmp x = true → x = emp) {single : Bool} {targets : List Bytes} {w w' : World κ}
    {calls : List (Call κ)} (hu : uniqNode w.ws)
    (h : cmdCheckoutT c strat single targets w = .ok (w', calls)) :
    ∀ k, KeptP strat emp (fsOfWorld c w) (replay emp (fsOfWorld c w) (calls.take k)) := by
  obtain ⟨segs, -, -, hp, -⟩ := cmdCheckoutT_run hemp hu h
  exact hp

/-- in particular: a regular file of the workspace is never touched, not even its mode -/
theorem cmdCheckoutT_keeps_files {c : CmdCfg κ} {strat : Strat} {emp : κ}
    (hemp : ∀ x, c.isEmp x = true → x = emp) {single : Bool} {targets : List Bytes} {w w' : World κ}
    {calls : List (Call κ)} (hu : uniqNode w.ws)
    (h : cmdCheckoutT c strat single targets w = .ok (w', calls)) {q : List Name} {x : κ}
    (hq : getPath w.ws q = some (.file x)) :
    ∀ k, (replay emp (fsOfWorld c w) (calls.take k)).get (.ws q) = some (.file x 0o644) := by
  intro k
  have h0 : (fsOfWorld c w).get (.ws q) = some (.file x 0o644) := by
    rw [fsOfWorld_get c w (by simp)]
    exact fsOf_get_tracked c.cfg.ctx [] w.ws w.store hu _ (tracked_of_getPath q w.ws [] x hq)
  rcases cmdCheckoutT_keeps hemp hu h k q _ h0 with h1 | ⟨-, d, y, m0, he, -, -⟩
  · exact h1
  · cases he

/-- **with the link strategy NOTHING that existed is ever touched**: after every prefix every workspace
path that held something before the command holds exactly the same -/
theorem cmdCheckoutT_keeps_link {c : CmdCfg κ} {emp : κ}
    (hemp : ∀ x, c.isEmp x = true → x = emp) {single : Bool} {targets : List Bytes} {w w' : World κ}
    {calls : List (Call κ)} (hu : uniqNode w.ws)
    (h : cmdCheckoutT c .link single targets w = .ok (w', calls)) {q : List Name} {e : Entry κ}
    (hq : (fsOfWorld c w).get (.ws q) = some e) :
    ∀ k, (replay emp (fsOfWorld c w) (calls.take k)).get (.ws q) = some e := by
  intro k
  rcases cmdCheckoutT_keeps hemp hu h k q e hq with h1 | ⟨hc, -⟩
  · exact h1
  · cases hc

/-- the calls of the command write workspace paths and the lock, nothing else -/
theorem cmdCheckoutT_writes {c : CmdCfg κ} {strat : Strat} {emp : κ}
    (hemp : ∀ x, c.isEmp x = true → x = emp) {single : Bool} {targets : List Bytes} {w w' : World κ}
    {calls : List (Call κ)} (hu : uniqNode w.ws)
    (h : cmdCheckoutT c strat single targets w = .ok (w', calls)) :
    ∀ x ∈ calls, ∀ p ∈ callWrites x, p = .lock ∨ ∃ q, p = .ws q := by
  obtain ⟨segs, rfl, hinv, -, -⟩ := cmdCheckoutT_run hemp hu h
  intro x hx p hp
  simp only [List.mem_append, List.mem_singleton] at hx
  rcases hx with (rfl | hx) | rfl
  · left; simpa [callWrites, callPaths] using hp
  · obtain ⟨rel, hrel⟩ := hinv.wsOnly x hx p hp
    exact .inr ⟨rel, by simpa using hrel⟩
  · left; simpa [callWrites, callPaths] using hp

/-- **Nothing outside the workspace is written, except the lock**: every cache object, shard directory,
temp name and stage file holds after every prefix what it held before the command. -/
theorem cmdCheckoutT_untouched {c : CmdCfg κ} {strat : Strat} {emp : κ}
    (hemp : ∀ x, c.isEmp x = true → x = emp) {single : Bool} {targets : List Bytes} {w w' : World κ}
    {calls : List (Call κ)} (hu : uniqNode w.ws)
    (h : cmdCheckoutT c strat single targets w = .ok (w', calls)) {p : P} (hp : ∀ q, p ≠ .ws q)
    (hl : p ≠ .lock) :
    ∀ k, (replay emp (fsOfWorld c w) (calls.take k)).get p = (fsOfWorld c w).get p := by
  intro k
  refine replay_take_get_frame emp calls p _ (fun x hx hmem => ?_) k
  rcases cmdCheckoutT_writes hemp hu h x hx p hmem with h1 | ⟨q, h1⟩
  · exact hl h1
  · exact hp q h1

/-! ## no data lost, no object torn -/

/-- whatever was `Safe` before is `Safe` in every state that keeps the workspace entries up to links
replaced by (possibly incomplete) copies of their objects and leaves the cache alone -/
theorem safe_of_keptP {ctx : Ctx κ} {strat : Strat} {tracked : List (P × κ)} (htw : TrackedWs tracked)
    {emp : κ} {fs0 fs : FS κ} (hs : Safe ctx tracked fs0) (hk : KeptP strat emp fs0 fs)
    (hobj : ∀ d, fs.get (.obj d) = fs0.get (.obj d)) : Safe ctx tracked fs := by
  refine ⟨fun p hp => ?_, fun d e he => hs.2 d e (by rw [← hobj]; exact he)⟩
  obtain ⟨q, hq⟩ := htw p hp
  rw [hq]
  rcases hs.1 p hp with ⟨m, h1⟩ | ⟨d, m, h1, h2⟩ | ⟨m, h1⟩
  · rw [hq] at h1
    rcases hk q _ h1 with h | ⟨-, d, y, m0, he, -, -⟩
    · exact .inl ⟨m, h⟩
    · cases he
  · rw [hq] at h1
    rcases hk q _ h1 with h | ⟨-, d', y, m0, he, hy, -⟩
    · exact .inr (.inl ⟨d, m, h, by rw [hobj]; exact h2⟩)
    · injection he with he
      injection he with he
      subst he
      rw [h2] at hy
      injection hy with hy
      injection hy with hy1 hy2
      obtain ⟨c2, m2, he2, hH⟩ := hs.2 d _ h2
      injection he2 with he2 _
      subst he2
      exact .inr (.inr ⟨m, by rw [hobj, hH]; exact h2⟩)
  · exact .inr (.inr ⟨m, by rw [hobj]; exact h1⟩)

/-- **Command-level crash safety of `dud checkout` from ANY state** that agrees with the logical workspace
(`AbsAt`) and holds the objects of the cache (`ObjIn`), for ANY recorded list `tracked` of (workspace path,
bytes) for which that state is `Safe` — e.g. bytes recorded for a path that holds a LINK into the cache:
when the link is removed and the copy is still incomplete, the bytes are in the cache under their digest. -/
theorem cmdCheckoutT_crash_safe_from {c : CmdCfg κ} {strat : Strat} {emp : κ}
    (hemp : ∀ x, c.isEmp x = true → x = emp) {single : Bool} {targets : List Bytes} {w w' : World κ}
    {calls : List (Call κ)} {fs0 : FS κ} (ha0 : AbsAt [] (some w.ws) fs0)
    (hobj : ObjIn c.cfg.ctx w.store fs0) (hu : uniqNode w.ws) {tracked : List (P × κ)}
    (htw : TrackedWs tracked) (hs0 : Safe c.cfg.ctx tracked fs0)
    (h : cmdCheckoutT c strat single targets w = .ok (w', calls)) :
    ∀ k, Safe c.cfg.ctx tracked (replay emp fs0 (calls.take k)) := by
  obtain ⟨segs, rfl, hinv, hp, -⟩ := cmdCheckoutT_run_from hemp ha0 hobj hu h
  intro k
  refine safe_of_keptP htw hs0 (hp k) (fun d => ?_)
  refine replay_take_get_frame emp _ _ fs0 (fun x hx hmem => ?_) k
  simp only [List.mem_append, List.mem_singleton] at hx
  rcases hx with (rfl | hx) | rfl
  · simp [callWrites, callPaths] at hmem
  · obtain ⟨rel, hrel⟩ := hinv.wsOnly x hx _ hmem
    cases hrel
  · simp [callWrites, callPaths] at hmem

/-- **Command-level crash safety of `dud checkout`.**  For every world with duplicate-free entry names and
a consistent cache, if the traced command succeeds with the call list `calls`, then after EVERY prefix of
`calls` (kill after the k-th call) the file system — starting from the abstraction `fsOfWorld` of the world
— is `Safe` for ALL regular files the workspace held before the command: each recorded byte sequence is
retrievable at its path, through a link at its path, or as the cache object named by its digest, and
nothing incomplete or foreign sits under a digest name.  (In fact every such file is still in place,
`cmdCheckoutT_keeps_files`.) -/
theorem cmdCheckoutT_crash_safe {c : CmdCfg κ} {strat : Strat} {emp : κ}
    (hemp : ∀ x, c.isEmp x = true → x = emp) {single : Bool} {targets : List Bytes} {w w' : World κ}
    {calls : List (Call κ)} (hu : uniqNode w.ws) (hc : Consistent c.cfg.ctx w.store)
    (h : cmdCheckoutT c strat single targets w = .ok (w', calls)) :
    ∀ k, Safe c.cfg.ctx (trackedOf [] w.ws) (replay emp (fsOfWorld c w) (calls.take k)) :=
  cmdCheckoutT_crash_safe_from hemp (absAt_init c w hu) (objIn_init c w) hu (trackedOf_ws [] w.ws)
    (fsOfWorld_safe c w hu hc) h

/-- the recorded contents of the links of the workspace into the cache: (path, bytes of the object) -/
def linkedOf (ctx : Ctx κ) (s : Store κ) (ws : Node κ) (qs : List (List Name)) : List (P × κ) :=
  qs.filterMap fun q =>
    match getPath ws q with
    | some (.link (.obj d)) => (s.get d).map (fun o => (P.ws q, o.bytes ctx))
    | _ => none

/-- **… also for what the workspace holds THROUGH LINKS**: for any list `qs` of workspace paths, the bytes
of the cache objects the links at those paths point to stay retrievable after every prefix — through the
link while it is there, at the path once the copy is complete, and in the cache under their digest in
between. -/
theorem cmdCheckoutT_crash_safe_links {c : CmdCfg κ} {strat : Strat} {emp : κ}
    (hemp : ∀ x, c.isEmp x = true → x = emp) {single : Bool} {targets : List Bytes} {w w' : World κ}
    {calls : List (Call κ)} (hu : uniqNode w.ws) (hc : Consistent c.cfg.ctx w.store)
    (h : cmdCheckoutT c strat single targets w = .ok (w', calls)) (qs : List (List Name)) :
    ∀ k, Safe c.cfg.ctx (trackedOf [] w.ws ++ linkedOf c.cfg.ctx w.store w.ws qs)
      (replay emp (fsOfWorld c w) (calls.take k)) := by
  have hlinked : ∀ p ∈ linkedOf c.cfg.ctx w.store w.ws qs, ∃ q d o, p = (P.ws q, o.bytes c.cfg.ctx) ∧
      getPath w.ws q = some (.link (.obj d)) ∧ w.store.get d = some o := by
    intro p hp
    simp only [linkedOf, List.mem_filterMap] at hp
    obtain ⟨q, -, hq⟩ := hp
    split at hq
    · rename_i d hg
      cases ho : w.store.get d with
      | none => rw [ho] at hq; cases hq
      | some o =>
        rw [ho] at hq
        simp only [Option.map_some, Option.some.injEq] at hq
        exact ⟨q, d, o, hq.symm, hg, ho⟩
    · cases hq
  refine cmdCheckoutT_crash_safe_from hemp (absAt_init c w hu) (objIn_init c w) hu ?_ ?_ h
  · intro p hp
    rcases List.mem_append.1 hp with hp | hp
    · exact trackedOf_ws [] w.ws p hp
    · obtain ⟨q, d, o, rfl, -, -⟩ := hlinked p hp
      exact ⟨q, rfl⟩
  · have hs := fsOfWorld_safe c w hu hc
    refine ⟨fun p hp => ?_, hs.2⟩
    rcases List.mem_append.1 hp with hp | hp
    · exact hs.1 p hp
    · obtain ⟨q, d, o, rfl, hg, ho⟩ := hlinked p hp
      obtain ⟨m, hm⟩ := objIn_init c w d o ho
      have := absAt_init c w hu q
      rw [getOpt_some, hg] at this
      exact .inr (.inl ⟨d, m, by simpa [EntOK] using this, hm⟩)

/-! ## the lock -/

/-- **The lock file exists exactly strictly between the first and the last call**: absent before the
command and after its last call, present (a regular file created exclusively) after every other prefix. -/
theorem cmdCheckoutT_lock_window {c : CmdCfg κ} {strat : Strat} {emp : κ}
    (hemp : ∀ x, c.isEmp x = true → x = emp) {single : Bool} {targets : List Bytes} {w w' : World κ}
    {calls : List (Call κ)} (hu : uniqNode w.ws)
    (h : cmdCheckoutT c strat single targets w = .ok (w', calls)) :
    2 ≤ calls.length ∧ calls.head? = some (.createExcl .lock) ∧ calls.getLast? = some (.unlink .lock) ∧
    ∀ k, (replay emp (fsOfWorld c w) (calls.take k)).get .lock =
      if 0 < k ∧ k < calls.length then some (.file emp 0o600) else none := by
  obtain ⟨segs, rfl, hinv, -, -⟩ := cmdCheckoutT_run hemp hu h
  have hassoc : [Call.createExcl P.lock] ++ segs.flatten ++ [Call.unlink P.lock] =
      Call.createExcl P.lock :: (segs.flatten ++ [Call.unlink P.lock]) := by simp
  refine ⟨by simp, by simp, List.getLast?_concat, fun k => ?_⟩
  rw [hassoc]
  have hmid : ∀ x ∈ segs.flatten, P.lock ∉ callWrites x := by
    intro x hx hmem
    obtain ⟨rel, hrel⟩ := hinv.wsOnly x hx _ hmem
    cases hrel
  rw [lock_window emp _ _ (fsOfWorld_get_lock c w) hmid k]
  have : (Call.createExcl P.lock :: (segs.flatten ++ [Call.unlink P.lock])).length =
      segs.flatten.length + 2 := by simp
  rw [this]

/-! ## the state after the complete trace -/

/-- **After the last call the file system is the abstraction of the logical result**: it agrees with the
final logical workspace at every path (`AbsAt`: nothing where the tree has nothing, the bytes of every
regular file — including every copy the command made —, every link into the cache, every directory), hence
`Rel w'.ws …` (what the next `dud commit` starts from); every entry that existed before is kept or is a
link replaced by a complete copy of the object it pointed to (`KeptB`); the lock is gone; the cache of the
world is unchanged. -/
theorem cmdCheckoutT_final {c : CmdCfg κ} {strat : Strat} {emp : κ}
    (hemp : ∀ x, c.isEmp x = true → x = emp) {single : Bool} {targets : List Bytes} {w w' : World κ}
    {calls : List (Call κ)} (hu : uniqNode w.ws)
    (h : cmdCheckoutT c strat single targets w = .ok (w', calls)) :
    Rel w'.ws (replay emp (fsOfWorld c w) calls) ∧
      AbsAt [] (some w'.ws) (replay emp (fsOfWorld c w) calls) ∧
      KeptB strat (fsOfWorld c w) (replay emp (fsOfWorld c w) calls) ∧
      (replay emp (fsOfWorld c w) calls).get .lock = none ∧ w'.store = w.store ∧ w'.idx = w.idx := by
  have hlock := (cmdCheckoutT_lock_window hemp hu h).2.2.2 calls.length
  rw [List.take_length] at hlock
  simp only [Nat.lt_irrefl, and_false, if_false] at hlock
  have hfree : ∀ k, (replay emp (fsOfWorld c w) calls).get (.ctmp k) = none := by
    intro k
    have := cmdCheckoutT_untouched hemp hu h (p := .ctmp k) (by simp) (by simp) calls.length
    rw [List.take_length] at this
    rw [this]; exact fsOfWorld_get_ctmp c w k
  obtain ⟨segs, rfl, hinv, -, hkb⟩ := cmdCheckoutT_run hemp hu h
  have habs : AbsAt [] (some w'.ws)
      (replay emp (fsOfWorld c w) ([.createExcl .lock] ++ segs.flatten ++ [.unlink .lock])) := by
    rw [replay_append, replay_append]
    exact hinv.abs.frame (fun r => replay_get_frame emp _ _ _ (fun y hy hmem => by
      simp only [List.mem_singleton] at hy; subst hy
      simp [callWrites, callPaths] at hmem))
  refine ⟨⟨fun q x hg => ?_, fun k _ => hfree k, hinv.uniq⟩, habs, hkb, hlock, hinv.store, hinv.idx⟩
  have := habs q
  rw [getOpt_some, hg] at this
  simpa [EntOK] using this

/-! ## non-vacuity: a two-stage pipeline, checked out into a fresh clone and by copy over links -/

namespace ExampleCheckout
open Dud Dud.Sys Dud.Example ExampleCmd

/-- the example context of `Lemmas/Codec.lean` with SHORT digests (cheap to compare by kernel evaluation);
the theorems of this file need no injectivity of the hash -/
def ctxS : Ctx K :=
  { ctx with H := fun k => match k with
      | .raw s => "raw-" ++ s
      | .man _ _ cs => "man-" ++ String.join (cs.map (·.sum)) }

def cfgS : Cfg K := { cfg with ctx := ctxS }
def ccS : CmdCfg K := { cc true with cfg := cfgS }

/-- a store in which every object sits under the digest of its bytes -/
def mkStore (os : List (Obj K)) : Store K := os.map (fun o => (o.digest ctxS, o))

theorem mkStore_consistent (os : List (Obj K)) : Consistent ctxS (mkStore os) :=
  consistent_of_consistentB (by simp [consistentB, mkStore])

/-- `p/q/f` -/
def pqf : Bytes := [112, 47, 113, 47, 102]
def dx : Digest := ctxS.H (.raw "x")
def dy : Digest := ctxS.H (.raw "")
def df : Digest := ctxS.H (.raw "deep")
/-- the manifest of directory `a/`: a regular and an empty file -/
def manA : Obj K := .man .new [97] [⟨[120], dx, false⟩, ⟨[121], dy, false⟩]
def da : Digest := manA.digest ctxS

/-- stage B reads `a/` (owned by stage A) and the plain file `c`, writes the file `p/q/f` two directories
down -/
def stageB2 : Stage :=
  { cmd := [2], inputs := [{ path := [97], isDir := true }, { path := [99] }], outputs := [{ path := pqf }] }

/-- the two-stage project after `dud commit` (link strategy): the outputs `a/x`, `a/y`, `p/q/f` are links
into the cache, which holds the three blobs and the manifest of `a/` -/
def wc : World K :=
  { ws := .dir [([97], .dir [([120], .link (.obj dx)), ([121], .link (.obj dy))]),
                ([112], .dir [([113], .dir [([102], .link (.obj df))])]), ([99], .file (.raw "i"))],
    store := mkStore [.blob (.raw "x"), .blob (.raw ""), manA, .blob (.raw "deep")],
    idx := [([1], { stageA with outputs := [{ path := [97], isDir := true, sum := da }] }),
            ([2], { stageB2 with outputs := [{ path := pqf, sum := df }] })] }

/-- a fresh clone: cache and index as committed, only the plain input `c` in the workspace -/
def wfresh : World K := { wc with ws := .dir [([99], .file (.raw "i"))] }

theorem wc_uniq : uniqNode wc.ws := uniqNode_of_B _ (by decide +kernel)
theorem wfresh_uniq : uniqNode wfresh.ws := uniqNode_of_B _ (by decide +kernel)
theorem wc_consistent : Consistent ccS.cfg.ctx wc.store := mkStore_consistent _

/-- the calls of the whole command (empty on failure) -/
def callsOf (strat : Strat) (w : World K) (ts : List Bytes) : List (Call K) :=
  match cmdCheckoutT ccS strat false ts w with
  | .ok (_, calls) => calls
  | .error _ => []

theorem callsOf_ok {strat : Strat} {w : World K} {ts : List Bytes} (h : callsOf strat w ts ≠ []) :
    ∃ w', cmdCheckoutT ccS strat false ts w = .ok (w', callsOf strat w ts) := by
  unfold callsOf at h ⊢
  cases hT : cmdCheckoutT ccS strat false ts w with
  | error e => rw [hT] at h; exact absurd rfl h
  | ok v => exact ⟨v.1, rfl⟩

/-- checkout (link) into the fresh clone: lock; `mkdir a`, the two links; the `MkdirAll` of `p` and `p/q`
(`parentMkdirs`), the link `p/q/f`; unlock -/
example : (callsOf .link wfresh []).map callWrites =
    [[.lock], [.ws [[97]]], [.ws [[97], [120]]], [.ws [[97], [121]]], [.ws [[112]]], [.ws [[112], [113]]],
     [.ws [[112], [113], [102]]], [.lock]] := by decide +kernel

/-- checkout by copy over the links of the committed workspace: 12 calls (`unlink`, `create_excl`,
`write` for `a/x` and `p/q/f`; `unlink`, `create_excl` for the empty `a/y`) -/
example : (callsOf .copy wc []).length = 12 := by decide +kernel
/-- copy into the fresh clone, downstream stage as target (stage A is checked out first) -/
example : (callsOf .copy wfresh [[2]]).length = 12 := by decide +kernel

theorem callsOf_copy_ne_nil : callsOf .copy wc [] ≠ [] := by decide +kernel
theorem callsOf_link_ne_nil : callsOf .link wfresh [] ≠ [] := by decide +kernel

/-- **All hypotheses of the command-level theorems are satisfiable together** on the two-stage world, the
traced command (copy over links) succeeds with 12 calls, and the conclusions hold for it. -/
example :
    ∃ w' calls, cmdCheckoutT ccS .copy false [] wc = .ok (w', calls) ∧ calls.length = 12 ∧
      cmdCheckout cfgS .copy false [] wc = .ok w' ∧
      (∀ k, Safe ctxS (trackedOf [] wc.ws) (replay Example.emp (fsOfWorld ccS wc) (calls.take k))) ∧
      (∀ k, KeptP .copy Example.emp (fsOfWorld ccS wc) (replay Example.emp (fsOfWorld ccS wc) (calls.take k))) ∧
      (∀ k, (replay Example.emp (fsOfWorld ccS wc) (calls.take k)).get .lock =
        if 0 < k ∧ k < calls.length then some (.file Example.emp 0o600) else none) ∧
      Rel w'.ws (replay Example.emp (fsOfWorld ccS wc) calls) := by
  obtain ⟨w', h⟩ := callsOf_ok callsOf_copy_ne_nil
  exact ⟨w', _, h, by decide +kernel, cmdCheckoutT_ok h,
    cmdCheckoutT_crash_safe (c := ccS) Example.hemp wc_uniq wc_consistent h,
    cmdCheckoutT_keeps (c := ccS) Example.hemp wc_uniq h,
    (cmdCheckoutT_lock_window (c := ccS) Example.hemp wc_uniq h).2.2.2,
    (cmdCheckoutT_final (c := ccS) Example.hemp wc_uniq h).1⟩

/-- … and for the link checkout into the fresh clone -/
example :
    ∃ w' calls, cmdCheckoutT ccS .link false [] wfresh = .ok (w', calls) ∧ calls.length = 8 ∧
      (∀ k, Safe ctxS (trackedOf [] wfresh.ws) (replay Example.emp (fsOfWorld ccS wfresh) (calls.take k))) ∧
      AbsAt [] (some w'.ws) (replay Example.emp (fsOfWorld ccS wfresh) calls) := by
  obtain ⟨w', h⟩ := callsOf_ok callsOf_link_ne_nil
  exact ⟨w', _, h, by decide +kernel,
    cmdCheckoutT_crash_safe (c := ccS) Example.hemp wfresh_uniq wc_consistent h,
    (cmdCheckoutT_final (c := ccS) Example.hemp wfresh_uniq h).2.1⟩

/-- **The exception in `KeptP` does occur** (the statement cannot be strengthened to "every entry is
kept"): before the command `a/x` is a link to the object `dx`; killed after the second call (`unlink a/x`)
the path holds nothing; killed after the fourth it holds an incomplete file; the object is in the cache all
along. -/
example :
    (match (fsOfWorld ccS wc).get (.ws [[97], [120]]) with
      | some (.link (.obj d)) => d == dx
      | _ => false) = true ∧
    ((replay Example.emp (fsOfWorld ccS wc) ((callsOf .copy wc []).take 2)).get (.ws [[97], [120]])).isNone
      = true ∧
    (match (replay Example.emp (fsOfWorld ccS wc) ((callsOf .copy wc []).take 4)).get (.ws [[97], [120]]) with
      | some (.torn _) => true
      | _ => false) = true ∧
    (match (replay Example.emp (fsOfWorld ccS wc) ((callsOf .copy wc []).take 4)).get (.obj dx) with
      | some (.file x _) => x == .raw "x"
      | _ => false) = true := by decide +kernel

/-! executable evidence: Boolean checkers run on every prefix -/

def safeS (tracked : List (P × K)) (fs : FS K) : Bool :=
  tracked.all (fun p =>
    Example.fileAt fs p.1 p.2 ||
    (match fs.get p.1 with
     | some (.link (.obj d)) => Example.fileAt fs (.obj d) p.2
     | _ => false) ||
    Example.fileAt fs (.obj (ctxS.H p.2)) p.2) &&
  fs.all (fun e => match e.1 with
    | .obj d => (match fs.get (.obj d) with
      | some (.file c _) => ctxS.H c == d
      | some _ => false
      | none => true)
    | _ => true)

/-- number of calls; whether every crash prefix is `Safe` (for the regular files AND for the contents held
through the links `a/x`, `p/q/f`) and shows the lock exactly inside the window; the calls -/
def report (strat : Strat) (w : World K) (ts : List Bytes) : String :=
  match cmdCheckoutT ccS strat false ts w with
  | .error e => s!"error {e}"
  | .ok (_, calls) =>
    let fs0 := fsOfWorld ccS w
    let tracked := trackedOf [] w.ws ++ linkedOf ctxS w.store w.ws [[[97], [120]], [[112], [113], [102]]]
    let ok := (List.range (calls.length + 1)).all fun k =>
      let fs := replay Example.emp fs0 (calls.take k)
      safeS tracked fs && lockOk fs k calls.length
    s!"{calls.length} calls, every prefix ok: {ok}; " ++ "; ".intercalate (calls.map Example.showCall)

#eval report .link wfresh []
#eval report .copy wc []
#eval report .copy wfresh [[2]]
#eval report .link wc [[1]]

end ExampleCheckout

#print axioms cmdCheckoutT_refines
#print axioms cmdCheckoutT_ok
#print axioms cmdCheckoutT_of_ok
#print axioms cmdCheckoutT_run_from
#print axioms cmdCheckoutT_run
#print axioms cmdCheckoutT_keeps
#print axioms cmdCheckoutT_keeps_files
#print axioms cmdCheckoutT_keeps_link
#print axioms cmdCheckoutT_writes
#print axioms cmdCheckoutT_untouched
#print axioms safe_of_keptP
#print axioms cmdCheckoutT_crash_safe_from
#print axioms cmdCheckoutT_crash_safe
#print axioms cmdCheckoutT_crash_safe_links
#print axioms cmdCheckoutT_lock_window
#print axioms cmdCheckoutT_final
#print axioms ExampleCheckout.wc_uniq
#print axioms ExampleCheckout.wc_consistent
#print axioms ExampleCheckout.callsOf_copy_ne_nil

end Dud.Sys
