import DudModel.Lemmas.InterleaveTree
import DudModel.Props.C03inter
/-!
# C03 + C13 — crash safety of CONCURRENT workers: every schedule is safe at every prefix

In the Go code (`src/cache/commit.go`) the entries of a directory are committed by concurrent workers
(`startCommitWorkers` / `commitWorker`): worker i issues the calls of `commitFileArtifact` /
`commitDirArtifact` for ITS entries.  Different workers touch different workspace paths and use
different cache temp files (`os.CreateTemp`), but they may target the SAME cache object (two files with
identical bytes both `rename` onto `<cache>/<hh>/<rest>`: "we don't care who wins the race") and the
same shard directory (`mkdir`).  A worker that meets a sub-directory calls `commitDirArtifact` again,
which starts workers of its own: the concurrency is nested.  The manifest of a directory is written
after all its workers have returned (`errGroup.Wait`).

`Props/C03inter.lean` ENUMERATED the interleavings of two concrete two-file examples.  Here:

## Vocabulary (`Lemmas/Interleave2.lean`, `Lemmas/InterleaveTree.lean`)

* `Interleaving t1 t2 t`, `InterleavingN [t₁, …, tₙ] t`: `t` is a shuffle of the lists; equivalently
  (`sched_iff_interleavingN`) a run of a scheduler that lets, at every step, any worker with calls left
  issue its next call.  A worker that processes several entries one after the other, or the whole
  sequential loop of the model (`commitEntriesT_is_schedule`), are particular schedules.
* the independence conditions (`Disciplined`): each worker's trace is an `AllowedTrace` when it runs
  ALONE from the common start, and each of its calls is `Owned A` for a set `A` of private paths
  (workspace paths of its regular files, its temp names; no object, no shard directory): it acts on
  private paths only, except `mkdir <shard>`, `rename <private> <object>`, `chmod <object>`.  The
  private sets of different workers are disjoint (`DisjointAll`): different entry names, disjoint
  temp-number ranges (`DisjointRanges`; models the uniqueness of `os.CreateTemp` names).
  Rely/guarantee reading (`AllowedTraceUnder`, `Disciplined.under`): every call of a worker is allowed in
  EVERY state that agrees with the worker's solo state on its private paths and holds at least the
  objects of its solo state with the same bytes — whatever objects and shard directories the other
  workers made appear early.  A rename onto an existing object carries the same bytes because the
  hash is collision-free (`Good ctx`), `mkdir` of an existing directory changes nothing.
* `EntryWorkers t pre es rs ts`: worker i commits entry i; `tsᵢ` is the `commitNodeT` trace of the entry.
* `ParTrace t pre nd lo hi calls`: the traces of the fully (nested) concurrent commit of a tree.

## Results

* generic: `interleaving_sim` (two workers), `interleavingN_disciplined` (n workers, nestable),
  `Merged.agree` (the final state does not depend on the schedule).
* `commit_workers_prefixSafe(_fsOf)`: directory with pairwise distinct entry names, one worker per
  entry, temp numbers from disjoint ranges: EVERY `InterleavingN` of the workers' traces is safe after
  EVERY prefix (no tracked bytes lost, nothing torn under a digest name).
* `commit_workers_final(_fsOf)`: the final state of every schedule: every regular file's bytes are in
  the cache under their digest, the workspace path is a link to it (link strategy) / still the file (copy
  strategy), no temp file is left, other workspace paths are untouched.
* `commit_workers_schedules_agree`: two schedules of the same workers end in states that agree on every
  path that is not an object, and hold the same objects with the same bytes.
* `commit_workers_objects_readOnly`, `commit_workers_schedules_same(_fsOf)`: no object is left writable
  (an object is 0600 only between a `rename` and the `chmod` of the same worker), hence two schedules end
  in file systems that agree at EVERY path.
* `parCommit_prefixSafe(_fsOf)`, `parCommit_final(_fsOf)`, `parCommit_objects_readOnly`: the same for
  the nested concurrent commit of a whole tree (`ParTrace`), which contains the sequential trace of the
  model (`commitNodeT_parTrace`).
* `parCommitArt_prefixSafe(_fsOf)`, `parCommitArt_final`: the whole `LocalCache.Commit` of a directory
  artifact (`MkdirAll`, rename probe, nested concurrent workers, `DisableRecursion`, manifest);
  `commitArtT_is_parArtTrace`: the sequential trace `commitArtT` of the model is one of its traces.
* `two_files_interleaving_prefixSafe`: the two-worker statement for two regular files, all three
  strategy variants, identical or different contents, stated directly on `commitFileCalls`.
* the enumerated examples of `C03inter.lean` as instances (`mem_interleavings`: the enumeration is
  exactly `Interleaving`), one with a sub-directory, one nested schedule that is not sequential.

## Hypotheses

* `Good ctx`: the hash is collision-free — used exactly where a `rename` lands on an object that is
  already there (put by another worker or by an earlier commit): same digest, hence same bytes.
* `hemp`: the "is empty" test of the trace generator is sound (as in `C03.lean`).
* `uniqList es` / `uniqNode nd`: entry names pairwise distinct in every directory — different workers
  own different workspace paths.
* `DisjointRanges rs`: the workers' temp numbers come from pairwise disjoint ranges (`os.CreateTemp`
  never hands the same name to two workers).
* `StartOK`: the start state is safe for the recorded contents, the regular files of the directory are
  in place, no cache temp file exists; `startOK_fsOf`: true of `fsOf ctx pre nd s` for a consistent store.
* every worker's commit succeeds (`commitNodeT … = .ok …`).

## Not covered

* runs in which a worker fails (the model has traces of successful commits only; a failing run's real
  trace is a prefix of worker traces only up to the failing check), the `errgroup` cancellation;
* the lock and the metadata files around `LocalCache.Commit` (sequential; `C03cmd.lean`);
* system calls are atomic steps of the interleaving (a non-empty `write` is two steps: torn, then
  complete); two workers never share a temp name (hypothesis `DisjointRanges`).
-/
namespace Dud.Sys

open Dud

variable {κ : Type}

/-! ## the start state -/

/-- the start state of a commit of the regular files `tr`: safe for the recorded contents, the files in
place, no cache temp file -/
structure StartOK (ctx : Ctx κ) (tracked : List (P × κ)) (tr : List (P × κ)) (fs : FS κ) : Prop where
  safe : Safe ctx tracked fs
  inPlace : ∀ p ∈ tr, ∃ m, fs.get p.1 = some (.file p.2 m)
  noTemp : ∀ k, fs.get (.ctmp k) = none

/-- the abstraction of a workspace tree with duplicate-free names next to a consistent cache -/
theorem startOK_fsOf (ctx : Ctx κ) (pre : List Name) (nd : Node κ) (s : Store κ) (hu : uniqNode nd)
    (hc : Consistent ctx s) : StartOK ctx (trackedOf pre nd) (trackedOf pre nd) (fsOf ctx pre nd s) :=
  ⟨fsOf_safe ctx pre nd s hu hc, fun p hp => ⟨_, fsOf_get_tracked ctx pre nd s hu p hp⟩,
   fun k => fsOf_get_ctmp ctx pre nd s k⟩

/-! ## (b) the single traces satisfy the interference-tolerant discipline -/

/-- **Rely/guarantee form of the file commit**: every call of `commitFileArtifact` (all three variants)
is allowed in EVERY state `f` that agrees with the worker's own expected state on the worker's private
paths (its workspace file, its temp file) and holds at least the expected objects — whatever other
workers have done to objects and shard directories in the meantime. -/
theorem commitFileT_allowed_under {t : TCfg κ} (g : Good t.ctx) {tracked : List (P × κ)}
    (htw : TrackedWs tracked) {emp : κ} (hemp : ∀ c, t.isEmp c = true → c = emp)
    {skip : Bool} {q : List Name} {nd : Option (Node κ)} {sum : Digest} {s : Store κ} {n : Nat}
    {res : Node κ × Digest × Store κ} {calls : List (Call κ)} {k : Nat}
    (h : commitFileT t skip (.ws q) nd sum s n = .ok (res, calls, k))
    {fs : FS κ} (hs : Safe t.ctx tracked fs)
    (hin : ∀ p ∈ trackedOpt q nd, ∃ m, fs.get p.1 = some (.file p.2 m))
    (hfr : fs.get (.ctmp n) = none) :
    AllowedTraceUnder t.ctx emp tracked (PrivOf (paths (trackedOpt q nd)) n k) fs calls :=
  (commitFileT_disciplined g htw hemp h hs hin hfr).under

/-- **Rely/guarantee form of the tree commit** (`commitNodeT`, any tree with duplicate-free names). -/
theorem commitNodeT_allowed_under {t : TCfg κ} (g : Good t.ctx) {tracked : List (P × κ)}
    (htw : TrackedWs tracked) {emp : κ} (hemp : ∀ c, t.isEmp c = true → c = emp)
    {nd : Node κ} {pre : List Name} {c : Child} {s : Store κ} {n : Nat}
    {res : Node κ × Child × Store κ} {calls : List (Call κ)} {n' : Nat}
    (hu : uniqNode nd) (h : commitNodeT t pre nd c s n = .ok (res, calls, n'))
    {fs : FS κ} (hs : Safe t.ctx tracked fs)
    (hin : ∀ p ∈ trackedOf pre nd, ∃ m, fs.get p.1 = some (.file p.2 m))
    (hfr : ∀ k, n ≤ k → fs.get (.ctmp k) = none) :
    AllowedTraceUnder t.ctx emp tracked (PrivOf (paths (trackedOf pre nd)) n n') fs calls :=
  (commitNodeT_disciplined g htw hemp hu h hs hin hfr).under

/-- **(b)** the generic statement: workers that are each disciplined when run alone from the safe state
`fs0` (`Disciplined`: allowed + owned, private paths pairwise disjoint) — EVERY `InterleavingN` of their
traces is an `AllowedTrace` from `fs0`, hence safe after every prefix. -/
theorem disciplined_interleavingN_prefixSafe {ctx : Ctx κ} (g : Good ctx) {tracked : List (P × κ)}
    {emp : κ} {fs0 : FS κ} (hs0 : Safe ctx tracked fs0) {As : List (P → Prop)}
    {ts : List (List (Call κ))} (hw : Forall2 (Disciplined ctx emp tracked fs0) As ts)
    (hd : DisjointAll As) {l : List (Call κ)} (hi : InterleavingN ts l) :
    AllowedTrace ctx emp tracked fs0 l ∧ PrefixSafe ctx emp tracked fs0 l :=
  have h := (interleavingN_disciplined g emp hs0 hw hd hi).1.allowed
  ⟨h, h.prefixSafe g hs0⟩

/-! ## (c) one worker per entry of a directory -/

/-- **Every schedule of the entry workers is safe after every prefix.**
Directory `pre` with pairwise distinct entry names (`uniqList es`); worker i commits entry i, its
trace `tsᵢ` is the `commitNodeT` trace of that entry (`EntryWorkers`; all three strategy variants, files
with identical or different contents, sub-directories, links); temp numbers from pairwise disjoint
ranges.  From any start state that is safe for the recorded contents `tracked` (any list of workspace
paths with contents), has the directory's regular files in place and no temp file: for EVERY
`InterleavingN ts l` and every `k`, the state after the first `k` calls of `l` is `Safe` — every
recorded content is retrievable and whatever sits under a digest name is complete with the right bytes. -/
theorem commit_workers_prefixSafe {t : TCfg κ} (g : Good t.ctx) {tracked : List (P × κ)}
    (htw : TrackedWs tracked) {emp : κ} (hemp : ∀ c, t.isEmp c = true → c = emp)
    {pre : List Name} {es : List (Name × Node κ)} {rs : List (Nat × Nat)} {ts : List (List (Call κ))}
    (hu : uniqList es) (hw : EntryWorkers t pre es rs ts) (hdr : DisjointRanges rs)
    {fs : FS κ} (h0 : StartOK t.ctx tracked (trackedList pre es) fs)
    {l : List (Call κ)} (hi : InterleavingN ts l) : PrefixSafe t.ctx emp tracked fs l :=
  (parTraces_interleavingN g htw hemp hu hw.parTraces hdr h0.safe h0.inPlace h0.noTemp hi).1.allowed.prefixSafe
    g h0.safe

/-- the same in the rely/guarantee form: the schedule is an `AllowedTrace` (every call allowed in the
state it meets), and it is again `Disciplined` for the union of the workers' private paths -/
theorem commit_workers_disciplined {t : TCfg κ} (g : Good t.ctx) {tracked : List (P × κ)}
    (htw : TrackedWs tracked) {emp : κ} (hemp : ∀ c, t.isEmp c = true → c = emp)
    {pre : List Name} {es : List (Name × Node κ)} {rs : List (Nat × Nat)} {ts : List (List (Call κ))}
    (hu : uniqList es) (hw : EntryWorkers t pre es rs ts) (hdr : DisjointRanges rs)
    {fs : FS κ} (h0 : StartOK t.ctx tracked (trackedList pre es) fs)
    {l : List (Call κ)} (hi : InterleavingN ts l) :
    Disciplined t.ctx emp tracked fs (UnionOf (privsOf pre es rs)) l :=
  (parTraces_interleavingN g htw hemp hu hw.parTraces hdr h0.safe h0.inPlace h0.noTemp hi).1

/-- **The final state of every schedule.**  Same hypotheses.  After the last call of ANY schedule:
the state is safe; for every regular file `(p, c)` of the directory the cache object `H c` holds exactly
`c`, and `p` is a link to that object (link strategy) or what it was (copy strategy); no temp file is
left; a workspace path that is not the path of a regular file of the directory is what it was. -/
theorem commit_workers_final {t : TCfg κ} (g : Good t.ctx) {tracked : List (P × κ)}
    (htw : TrackedWs tracked) {emp : κ} (hemp : ∀ c, t.isEmp c = true → c = emp)
    {pre : List Name} {es : List (Name × Node κ)} {rs : List (Nat × Nat)} {ts : List (List (Call κ))}
    (hu : uniqList es) (hw : EntryWorkers t pre es rs ts) (hdr : DisjointRanges rs)
    {fs : FS κ} (h0 : StartOK t.ctx tracked (trackedList pre es) fs)
    {l : List (Call κ)} (hi : InterleavingN ts l) :
    Safe t.ctx tracked (replay emp fs l) ∧
      Post t fs (replay emp fs l) (trackedList pre es) ∧
      (∀ k, (replay emp fs l).get (.ctmp k) = none) ∧
      (∀ q, P.ws q ∉ paths (trackedList pre es) → (replay emp fs l).get (.ws q) = fs.get (.ws q)) := by
  obtain ⟨dl, -, -, hpost, hct⟩ :=
    parTraces_interleavingN g htw hemp hu hw.parTraces hdr h0.safe h0.inPlace h0.noTemp hi
  exact ⟨dl.safe_final g h0.safe, hpost, hct,
    fun q hq => dl.owned.replay_frame (fun h => hq (privsOf_ws pre h)) rfl emp fs⟩

/-- **All schedules end in the same state** as far as workspace paths, temp files, shard directories
(every path that is not an object) and the bytes of cache objects are concerned: who created an object
or a shard directory first does not matter.  (Permission bits of objects are not compared.) -/
theorem commit_workers_schedules_agree {t : TCfg κ} (g : Good t.ctx) {tracked : List (P × κ)}
    (htw : TrackedWs tracked) {emp : κ} (hemp : ∀ c, t.isEmp c = true → c = emp)
    {pre : List Name} {es : List (Name × Node κ)} {rs : List (Nat × Nat)} {ts : List (List (Call κ))}
    (hu : uniqList es) (hw : EntryWorkers t pre es rs ts) (hdr : DisjointRanges rs)
    {fs : FS κ} (h0 : StartOK t.ctx tracked (trackedList pre es) fs)
    {l l' : List (Call κ)} (hi : InterleavingN ts l) (hi' : InterleavingN ts l') :
    (∀ p, p.isObj = false → (replay emp fs l).get p = (replay emp fs l').get p) ∧
      ObjLe (replay emp fs l) (replay emp fs l') ∧ ObjLe (replay emp fs l') (replay emp fs l) := by
  obtain ⟨dl, m, hsols, -, -⟩ :=
    parTraces_interleavingN g htw hemp hu hw.parTraces hdr h0.safe h0.inPlace h0.noTemp hi
  obtain ⟨dl', m', -, -, -⟩ :=
    parTraces_interleavingN g htw hemp hu hw.parTraces hdr h0.safe h0.inPlace h0.noTemp hi'
  have hnt : ∀ s ∈ ts.map (replay emp fs), NoTorn t.ctx s := by
    intro s hs
    simp only [List.mem_map] at hs
    obtain ⟨tr, htr, rfl⟩ := hs
    exact (hsols tr htr).2
  have a := Merged.agree g h0.safe.2 hnt (dl.safe_final g h0.safe).2 m m'
  have a' := Merged.agree g h0.safe.2 hnt (dl'.safe_final g h0.safe).2 m' m
  exact ⟨a.1, a.2, a'.2⟩

/-- **No object is left writable**: if every complete object is read-only (0444) at the start, so it is
at the end of every schedule — each `rename` onto an object name is followed by the `chmod` of the same
worker, and nobody else changes the mode to anything but 0444. -/
theorem commit_workers_objects_readOnly {t : TCfg κ} (g : Good t.ctx) {tracked : List (P × κ)}
    (htw : TrackedWs tracked) {emp : κ} (hemp : ∀ c, t.isEmp c = true → c = emp)
    {pre : List Name} {es : List (Name × Node κ)} {rs : List (Nat × Nat)} {ts : List (List (Call κ))}
    (hu : uniqList es) (hw : EntryWorkers t pre es rs ts) (hdr : DisjointRanges rs)
    {fs : FS κ} (h0 : StartOK t.ctx tracked (trackedList pre es) fs) (hro : ObjsReadOnly fs)
    {l : List (Call κ)} (hi : InterleavingN ts l) : ObjsReadOnly (replay emp fs l) := by
  have dl := commit_workers_disciplined g htw hemp hu hw hdr h0 hi
  exact (ModeOK.interleavingN hi (parTraces_modeOK t es pre rs ts hw.parTraces)).objsReadOnly dl.priv emp
    dl.owned hro

/-- **All schedules end in the same file system**: from a start whose objects are read-only, the
final states of any two schedules of the same workers agree at EVERY path (as finite maps: same
entries, same bytes, same permission bits). -/
theorem commit_workers_schedules_same {t : TCfg κ} (g : Good t.ctx) {tracked : List (P × κ)}
    (htw : TrackedWs tracked) {emp : κ} (hemp : ∀ c, t.isEmp c = true → c = emp)
    {pre : List Name} {es : List (Name × Node κ)} {rs : List (Nat × Nat)} {ts : List (List (Call κ))}
    (hu : uniqList es) (hw : EntryWorkers t pre es rs ts) (hdr : DisjointRanges rs)
    {fs : FS κ} (h0 : StartOK t.ctx tracked (trackedList pre es) fs) (hro : ObjsReadOnly fs)
    {l l' : List (Call κ)} (hi : InterleavingN ts l) (hi' : InterleavingN ts l') :
    ∀ p, (replay emp fs l).get p = (replay emp fs l').get p := by
  obtain ⟨hno, h1, h2⟩ := commit_workers_schedules_agree g htw hemp hu hw hdr h0 hi hi'
  have s1 := (commit_workers_final g htw hemp hu hw hdr h0 hi).1
  have s2 := (commit_workers_final g htw hemp hu hw hdr h0 hi').1
  have r1 := commit_workers_objects_readOnly g htw hemp hu hw hdr h0 hro hi
  have r2 := commit_workers_objects_readOnly g htw hemp hu hw hdr h0 hro hi'
  intro p
  cases hp : p.isObj with
  | false => exact hno p hp
  | true =>
    obtain ⟨d, rfl⟩ := P.isObj_true hp
    exact objs_eq_of_objLe s1.2 s2.2 r1 r2 h1 h2 d

/-- the sequential loop of the model is one of the schedules: the trace of `commitEntriesT` (no entry
skipped) is the concatenation of the traces of entry workers with disjoint temp ranges -/
theorem commitEntriesT_is_schedule (t : TCfg κ) {es : List (Name × Node κ)} {pre : List Name}
    {old : List Child} {s : Store κ} {n : Nat} {res : List (Name × Node κ) × List Child × Store κ}
    {calls : List (Call κ)} {n' : Nat} (h : commitEntriesT t pre false es old s n = .ok (res, calls, n')) :
    ∃ rs ts, EntryWorkers t pre es rs ts ∧ DisjointRanges rs ∧ InterleavingN ts calls := by
  obtain ⟨rs, ts, hw, rfl, -, -, hdr⟩ := commitEntriesT_entryWorkers t es pre old s n res calls n' h
  exact ⟨rs, ts, hw, hdr, InterleavingN.flatten ts⟩

/-! ### instances: the state is the abstraction of the workspace directory next to a consistent cache -/

/-- **(c)** as stated in the task: directory `.dir es` with pairwise distinct entry names, every entry
committed by its own worker, temp numbers from disjoint ranges — every interleaving of the workers'
traces is prefix-safe from `fsOf ctx pre (.dir es) s` for the tracked contents `trackedOf pre (.dir es)`. -/
theorem commit_workers_prefixSafe_fsOf {t : TCfg κ} (g : Good t.ctx) {emp : κ}
    (hemp : ∀ c, t.isEmp c = true → c = emp)
    {pre : List Name} {es : List (Name × Node κ)} {s : Store κ} {rs : List (Nat × Nat)}
    {ts : List (List (Call κ))} (hu : uniqList es) (hc : Consistent t.ctx s)
    (hw : EntryWorkers t pre es rs ts) (hdr : DisjointRanges rs)
    {l : List (Call κ)} (hi : InterleavingN ts l) :
    PrefixSafe t.ctx emp (trackedOf pre (.dir es)) (fsOf t.ctx pre (.dir es) s) l :=
  commit_workers_prefixSafe g (trackedOf_ws pre (.dir es)) hemp hu hw hdr
    (startOK_fsOf t.ctx pre (.dir es) s (by simpa [uniqNode] using hu) hc) hi

/-- the final state of every schedule, from `fsOf` -/
theorem commit_workers_final_fsOf {t : TCfg κ} (g : Good t.ctx) {emp : κ}
    (hemp : ∀ c, t.isEmp c = true → c = emp)
    {pre : List Name} {es : List (Name × Node κ)} {s : Store κ} {rs : List (Nat × Nat)}
    {ts : List (List (Call κ))} (hu : uniqList es) (hc : Consistent t.ctx s)
    (hw : EntryWorkers t pre es rs ts) (hdr : DisjointRanges rs)
    {l : List (Call κ)} (hi : InterleavingN ts l) :
    (∀ p ∈ trackedOf pre (.dir es),
      (∃ m, (replay emp (fsOf t.ctx pre (.dir es) s) l).get (.obj (t.ctx.H p.2)) = some (.file p.2 m)) ∧
      (t.strat = .link →
        (replay emp (fsOf t.ctx pre (.dir es) s) l).get p.1 = some (.link (.obj (t.ctx.H p.2)))) ∧
      (t.strat = .copy →
        (replay emp (fsOf t.ctx pre (.dir es) s) l).get p.1 = some (.file p.2 0o644))) ∧
    (∀ k, (replay emp (fsOf t.ctx pre (.dir es) s) l).get (.ctmp k) = none) ∧
    (∀ q, P.ws q ∉ paths (trackedOf pre (.dir es)) →
      (replay emp (fsOf t.ctx pre (.dir es) s) l).get (.ws q) = (fsOf t.ctx pre (.dir es) s).get (.ws q)) := by
  have hu' : uniqNode (.dir es) := by simpa [uniqNode] using hu
  obtain ⟨-, hpost, hct, hfr⟩ := commit_workers_final g (trackedOf_ws pre (.dir es)) hemp hu hw hdr
    (startOK_fsOf t.ctx pre (.dir es) s hu' hc) hi
  refine ⟨fun p hp => ⟨hpost.stored p hp, fun hl => hpost.wsLink hl p hp, fun hl => ?_⟩, hct, hfr⟩
  rw [hpost.wsCopy hl p hp]
  exact fsOf_get_tracked t.ctx pre (.dir es) s hu' p hp

theorem commit_workers_schedules_agree_fsOf {t : TCfg κ} (g : Good t.ctx) {emp : κ}
    (hemp : ∀ c, t.isEmp c = true → c = emp)
    {pre : List Name} {es : List (Name × Node κ)} {s : Store κ} {rs : List (Nat × Nat)}
    {ts : List (List (Call κ))} (hu : uniqList es) (hc : Consistent t.ctx s)
    (hw : EntryWorkers t pre es rs ts) (hdr : DisjointRanges rs)
    {l l' : List (Call κ)} (hi : InterleavingN ts l) (hi' : InterleavingN ts l') :
    (∀ p, p.isObj = false → (replay emp (fsOf t.ctx pre (.dir es) s) l).get p
        = (replay emp (fsOf t.ctx pre (.dir es) s) l').get p) ∧
      ObjLe (replay emp (fsOf t.ctx pre (.dir es) s) l) (replay emp (fsOf t.ctx pre (.dir es) s) l') ∧
      ObjLe (replay emp (fsOf t.ctx pre (.dir es) s) l') (replay emp (fsOf t.ctx pre (.dir es) s) l) :=
  commit_workers_schedules_agree g (trackedOf_ws pre (.dir es)) hemp hu hw hdr
    (startOK_fsOf t.ctx pre (.dir es) s (by simpa [uniqNode] using hu) hc) hi hi'

/-- the objects of `fsOf` are read-only -/
theorem fsOf_objsReadOnly (ctx : Ctx κ) (pre : List Name) (nd : Node κ) (s : Store κ) :
    ObjsReadOnly (fsOf ctx pre nd s) := by
  intro d c m h
  rw [fsOf_get_obj] at h
  cases hg : s.get d with
  | none => simp [hg] at h
  | some o => simp [hg] at h; exact h.2.symm

/-- from `fsOf`: all schedules end in the same file system, all of whose objects are read-only -/
theorem commit_workers_schedules_same_fsOf {t : TCfg κ} (g : Good t.ctx) {emp : κ}
    (hemp : ∀ c, t.isEmp c = true → c = emp)
    {pre : List Name} {es : List (Name × Node κ)} {s : Store κ} {rs : List (Nat × Nat)}
    {ts : List (List (Call κ))} (hu : uniqList es) (hc : Consistent t.ctx s)
    (hw : EntryWorkers t pre es rs ts) (hdr : DisjointRanges rs)
    {l l' : List (Call κ)} (hi : InterleavingN ts l) (hi' : InterleavingN ts l') :
    (∀ p, (replay emp (fsOf t.ctx pre (.dir es) s) l).get p
        = (replay emp (fsOf t.ctx pre (.dir es) s) l').get p) ∧
      ObjsReadOnly (replay emp (fsOf t.ctx pre (.dir es) s) l) :=
  have h0 := startOK_fsOf t.ctx pre (.dir es) s (by simpa [uniqNode] using hu) hc
  ⟨commit_workers_schedules_same g (trackedOf_ws pre (.dir es)) hemp hu hw hdr h0
      (fsOf_objsReadOnly _ _ _ _) hi hi',
   commit_workers_objects_readOnly g (trackedOf_ws pre (.dir es)) hemp hu hw hdr h0
      (fsOf_objsReadOnly _ _ _ _) hi⟩

/-! ## nested concurrency: the workers of every directory of the tree run concurrently -/

/-- **Every trace of the fully concurrent commit of a tree is safe after every prefix.**
`ParTrace t pre nd lo hi calls`: in every directory of the tree, at every depth, the entries are
committed by concurrent workers (any `InterleavingN` of their traces, themselves concurrent commits),
then the directory's manifest is stored; temp numbers within `[lo, hi)`, disjoint between workers. -/
theorem parCommit_prefixSafe {t : TCfg κ} (g : Good t.ctx) {tracked : List (P × κ)}
    (htw : TrackedWs tracked) {emp : κ} (hemp : ∀ c, t.isEmp c = true → c = emp)
    {nd : Node κ} {pre : List Name} {lo hi : Nat} {calls : List (Call κ)}
    (hu : uniqNode nd) (h : ParTrace t pre nd lo hi calls)
    {fs : FS κ} (h0 : StartOK t.ctx tracked (trackedOf pre nd) fs) :
    PrefixSafe t.ctx emp tracked fs calls :=
  (parTrace_spec g htw hemp nd pre lo hi calls hu h fs h0.safe h0.inPlace h0.noTemp).1.allowed.prefixSafe
    g h0.safe

/-- the final state of every trace of the concurrent commit of a tree -/
theorem parCommit_final {t : TCfg κ} (g : Good t.ctx) {tracked : List (P × κ)}
    (htw : TrackedWs tracked) {emp : κ} (hemp : ∀ c, t.isEmp c = true → c = emp)
    {nd : Node κ} {pre : List Name} {lo hi : Nat} {calls : List (Call κ)}
    (hu : uniqNode nd) (h : ParTrace t pre nd lo hi calls)
    {fs : FS κ} (h0 : StartOK t.ctx tracked (trackedOf pre nd) fs) :
    Safe t.ctx tracked (replay emp fs calls) ∧
      Post t fs (replay emp fs calls) (trackedOf pre nd) ∧
      (∀ k, (replay emp fs calls).get (.ctmp k) = none) ∧
      (∀ q, P.ws q ∉ paths (trackedOf pre nd) → (replay emp fs calls).get (.ws q) = fs.get (.ws q)) := by
  obtain ⟨d, hpost, hct⟩ := parTrace_spec g htw hemp nd pre lo hi calls hu h fs h0.safe h0.inPlace h0.noTemp
  exact ⟨d.safe_final g h0.safe, hpost, hct,
    fun q hq => d.owned.replay_frame (fun h => hq (privOf_ws h)) rfl emp fs⟩

/-- no object is left writable by any trace of the concurrent commit of a tree -/
theorem parCommit_objects_readOnly {t : TCfg κ} (g : Good t.ctx) {tracked : List (P × κ)}
    (htw : TrackedWs tracked) {emp : κ} (hemp : ∀ c, t.isEmp c = true → c = emp)
    {nd : Node κ} {pre : List Name} {lo hi : Nat} {calls : List (Call κ)}
    (hu : uniqNode nd) (h : ParTrace t pre nd lo hi calls)
    {fs : FS κ} (h0 : StartOK t.ctx tracked (trackedOf pre nd) fs) (hro : ObjsReadOnly fs) :
    ObjsReadOnly (replay emp fs calls) := by
  have d := (parTrace_spec g htw hemp nd pre lo hi calls hu h fs h0.safe h0.inPlace h0.noTemp).1
  exact (parTrace_modeOK t nd pre lo hi calls h).objsReadOnly d.priv emp d.owned hro

theorem parCommit_prefixSafe_fsOf {t : TCfg κ} (g : Good t.ctx) {emp : κ}
    (hemp : ∀ c, t.isEmp c = true → c = emp)
    {nd : Node κ} {pre : List Name} {s : Store κ} {lo hi : Nat} {calls : List (Call κ)}
    (hu : uniqNode nd) (hc : Consistent t.ctx s) (h : ParTrace t pre nd lo hi calls) :
    PrefixSafe t.ctx emp (trackedOf pre nd) (fsOf t.ctx pre nd s) calls :=
  parCommit_prefixSafe g (trackedOf_ws pre nd) hemp hu h (startOK_fsOf t.ctx pre nd s hu hc)

theorem parCommit_final_fsOf {t : TCfg κ} (g : Good t.ctx) {emp : κ}
    (hemp : ∀ c, t.isEmp c = true → c = emp)
    {nd : Node κ} {pre : List Name} {s : Store κ} {lo hi : Nat} {calls : List (Call κ)}
    (hu : uniqNode nd) (hc : Consistent t.ctx s) (h : ParTrace t pre nd lo hi calls) :
    (∀ p ∈ trackedOf pre nd,
      (∃ m, (replay emp (fsOf t.ctx pre nd s) calls).get (.obj (t.ctx.H p.2)) = some (.file p.2 m)) ∧
      (t.strat = .link →
        (replay emp (fsOf t.ctx pre nd s) calls).get p.1 = some (.link (.obj (t.ctx.H p.2)))) ∧
      (t.strat = .copy → (replay emp (fsOf t.ctx pre nd s) calls).get p.1 = some (.file p.2 0o644))) ∧
    (∀ k, (replay emp (fsOf t.ctx pre nd s) calls).get (.ctmp k) = none) ∧
    (∀ q, P.ws q ∉ paths (trackedOf pre nd) →
      (replay emp (fsOf t.ctx pre nd s) calls).get (.ws q) = (fsOf t.ctx pre nd s).get (.ws q)) := by
  obtain ⟨-, hpost, hct, hfr⟩ := parCommit_final g (trackedOf_ws pre nd) hemp hu h
    (startOK_fsOf t.ctx pre nd s hu hc)
  refine ⟨fun p hp => ⟨hpost.stored p hp, fun hl => hpost.wsLink hl p hp, fun hl => ?_⟩, hct, hfr⟩
  rw [hpost.wsCopy hl p hp]
  exact fsOf_get_tracked t.ctx pre nd s hu p hp

/-- one level of concurrency followed by the manifest is a trace of the concurrent commit of the directory -/
theorem entryWorkers_parTrace {t : TCfg κ} {pre : List Name} {es : List (Name × Node κ)}
    {rs : List (Nat × Nat)} {ts : List (List (Call κ))} (hw : EntryWorkers t pre es rs ts)
    (hdr : DisjointRanges rs) {lo hi : Nat} (hrng : ∀ r ∈ rs, lo ≤ r.1 ∧ r.2 ≤ hi)
    {l : List (Call κ)} (hi' : InterleavingN ts l) {n : Nat} (hlo : lo ≤ n) (hhi : n < hi) (mb : κ) :
    ParTrace t pre (.dir es) lo hi (l ++ copyIntoCache t.isEmp n mb (t.ctx.H mb)) := by
  simp only [ParTrace]
  exact ⟨rs, ts, l, n, mb, hw.parTraces, hdr, hrng, hlo, hhi, hi', rfl⟩

/-! ## the whole `LocalCache.Commit` of a directory artifact, workers concurrent at every depth -/

/-- **`LocalCache.Commit` on a directory with concurrent workers is safe after every prefix.**
`ParArtTrace t a pre es calls`: `MkdirAll(cache)`, the rename probe, ANY schedule of the (nested
concurrent) workers of the entries — sub-directories left out under `DisableRecursion` — and the
manifest.  The recorded contents `tracked` may be those of the whole tree (including the
sub-directories that are left out). -/
theorem parCommitArt_prefixSafe {t : TCfg κ} (g : Good t.ctx) {tracked : List (P × κ)}
    (htw : TrackedWs tracked) {emp : κ} (hemp : ∀ c, t.isEmp c = true → c = emp)
    {a : Art} {pre : List Name} {es : List (Name × Node κ)} {calls : List (Call κ)}
    (hu : uniqList es) (h : ParArtTrace t a pre es calls)
    {fs : FS κ} (h0 : StartOK t.ctx tracked (trackedList pre es) fs) :
    PrefixSafe t.ctx emp tracked fs calls :=
  (parArtTrace_spec g htw hemp hu h h0.safe h0.inPlace h0.noTemp).1.prefixSafe g h0.safe

/-- its final state: the committed entries' files are stored and linked / kept, no temp file is left,
objects stay read-only -/
theorem parCommitArt_final {t : TCfg κ} (g : Good t.ctx) {tracked : List (P × κ)}
    (htw : TrackedWs tracked) {emp : κ} (hemp : ∀ c, t.isEmp c = true → c = emp)
    {a : Art} {pre : List Name} {es : List (Name × Node κ)} {calls : List (Call κ)}
    (hu : uniqList es) (h : ParArtTrace t a pre es calls)
    {fs : FS κ} (h0 : StartOK t.ctx tracked (trackedList pre es) fs) :
    Post t fs (replay emp fs calls) (trackedList pre (skipFilter a.noRec es)) ∧
      (∀ k, (replay emp fs calls).get (.ctmp k) = none) ∧
      (ObjsReadOnly fs → ObjsReadOnly (replay emp fs calls)) :=
  (parArtTrace_spec g htw hemp hu h h0.safe h0.inPlace h0.noTemp).2

theorem parCommitArt_prefixSafe_fsOf {t : TCfg κ} (g : Good t.ctx) {emp : κ}
    (hemp : ∀ c, t.isEmp c = true → c = emp)
    {a : Art} {pre : List Name} {es : List (Name × Node κ)} {s : Store κ} {calls : List (Call κ)}
    (hu : uniqList es) (hc : Consistent t.ctx s) (h : ParArtTrace t a pre es calls) :
    PrefixSafe t.ctx emp (trackedOf pre (.dir es)) (fsOf t.ctx pre (.dir es) s) calls :=
  parCommitArt_prefixSafe g (trackedOf_ws pre (.dir es)) hemp hu h
    (startOK_fsOf t.ctx pre (.dir es) s (by simpa [uniqNode] using hu) hc)

/-- the sequential trace of the model's `LocalCache.Commit` (`commitArtT`) is one of these traces -/
theorem commitArtT_is_parArtTrace {t : TCfg κ} {a : Art} {pre : List Name} {es : List (Name × Node κ)}
    {s : Store κ} {res : Node κ × Digest × Store κ} {calls : List (Call κ)}
    (h : commitArtT t a pre (some (.dir es)) s = .ok (res, calls)) : ParArtTrace t a pre es calls :=
  commitArtT_parArtTrace h

/-! ## two workers, two regular files, stated directly on `commitFileCalls` -/

/-- **Two workers committing two regular files** (`commitFileArtifact`, all three variants: link +
rename, link + copy, copy), contents identical (`c1 = c2`: both rename onto the same object) or
different, different workspace paths, different temp names: every interleaving of the two call
sequences is safe after every prefix. -/
theorem two_files_interleaving_prefixSafe {ctx : Ctx κ} (g : Good ctx) {tracked : List (P × κ)}
    (htw : TrackedWs tracked) {emp : κ} {isEmp : κ → Bool} (hemp : ∀ c, isEmp c = true → c = emp)
    {fs : FS κ} (hs : Safe ctx tracked fs) {q1 q2 : List Name} (hq : q1 ≠ q2) {c1 c2 : κ} {m1 m2 : Nat}
    (h1 : fs.get (.ws q1) = some (.file c1 m1)) (h2 : fs.get (.ws q2) = some (.file c2 m2))
    {n1 n2 : Nat} (hn : n1 ≠ n2) (hf1 : fs.get (.ctmp n1) = none) (hf2 : fs.get (.ctmp n2) = none)
    (strat : Strat) (canRename : Bool) {l : List (Call κ)}
    (hi : Interleaving (commitFileCalls isEmp strat canRename (.ws q1) n1 c1 (ctx.H c1))
      (commitFileCalls isEmp strat canRename (.ws q2) n2 c2 (ctx.H c2)) l) :
    PrefixSafe ctx emp tracked fs l := by
  have o1 : OwnedAll (PrivOf [.ws q1] n1 (n1 + 1)) _ :=
    (commitFileCalls_owned isEmp strat canRename q1 n1 c1 (ctx.H c1)).mono
      (fun p hp => hp.mono (fun _ h => h) (Nat.le_refl _) (by split <;> omega))
  have o2 : OwnedAll (PrivOf [.ws q2] n2 (n2 + 1)) _ :=
    (commitFileCalls_owned isEmp strat canRename q2 n2 c2 (ctx.H c2)).mono
      (fun p hp => hp.mono (fun _ h => h) (Nat.le_refl _) (by split <;> omega))
  have hdisj : ∀ p, PrivOf [.ws q1] n1 (n1 + 1) p → ¬ PrivOf [.ws q2] n2 (n2 + 1) p := by
    rintro p (⟨q, rfl, hq1⟩ | ⟨k, rfl, hk1, hk2⟩) (⟨q', heq, hq2⟩ | ⟨k', heq, hk1', hk2'⟩)
    · simp only [List.mem_singleton, P.ws.injEq] at hq1 hq2
      exact hq (hq1.symm.trans hq2)
    · cases heq
    · cases heq
    · cases heq; omega
  exact (interleaving_sim g emp (privOf_priv _ _ _) (privOf_priv _ _ _) hdisj hi fs fs fs hs
    (Sim.refl _ _ _) (commitFileCalls_spec g htw hemp hs h1 hf1 strat canRename).1
    (commitFileCalls_spec g htw hemp hs h2 hf2 strat canRename).1 o1 o2).1.prefixSafe g hs

/-! ## non-vacuity: the enumerated examples of `C03inter.lean` as instances, a sub-directory, a nested schedule -/

namespace Example
open Dud.Example

/-- the enumeration of `C03inter.lean` lists exactly the interleavings -/
theorem mem_interleavings {α : Type} : ∀ (l1 l2 l : List α), l ∈ interleavings l1 l2 ↔ Interleaving l1 l2 l := by
  intro l1 l2 l
  constructor
  · induction l1 generalizing l l2 with
    | nil =>
      intro h
      have : l = l2 := by cases l2 <;> simpa [interleavings] using h
      subst this; exact Interleaving.nil_left _
    | cons a l1 ih1 =>
      induction l2 generalizing l with
      | nil =>
        intro h
        have : l = a :: l1 := by simpa [interleavings] using h
        subst this; exact Interleaving.nil_right _
      | cons b l2 ih2 =>
        intro h
        simp only [interleavings, List.mem_append, List.mem_map] at h
        rcases h with ⟨l', hl', rfl⟩ | ⟨l', hl', rfl⟩
        · exact .left (ih1 _ _ hl')
        · exact .right (ih2 _ hl')
  · intro h
    induction h with
    | nil => simp [interleavings]
    | @left a t1 t2 t h ih =>
      cases t2 with
      | nil => rw [h.eq_of_nil_right]; simp [interleavings]
      | cons b t2 =>
        simp only [interleavings, List.mem_append, List.mem_map]
        exact .inl ⟨t, ih, rfl⟩
    | @right a t1 t2 t h ih =>
      cases t1 with
      | nil => rw [h.eq_of_nil_left]; simp [interleavings]
      | cons b t1 =>
        simp only [interleavings, List.mem_append, List.mem_map]
        exact .inr ⟨t, ih, rfl⟩

theorem twoFiles_uniq : uniqList [(([97] : Name), (Node.file (K.raw "alpha"))), ([98], .file (.raw "alpha"))] := by
  simp [uniqNode, uniqList]

/-- the two workers of `interReport`: entries `a` and `b` of `twoFiles`, same content — they race for
the same object name and the same shard directory -/
theorem twoFiles_workers (strat : Strat) (canRename : Bool) :
    EntryWorkers (tc strat canRename) [[116]]
      [([97], .file (.raw "alpha")), ([98], .file (.raw "alpha"))]
      [(1, if strat == .link && canRename then 1 else 2), (2, if strat == .link && canRename then 2 else 3)]
      [trace1 strat canRename, trace2 strat canRename] := by
  have hc1 : commitNodeT (tc strat canRename) ([[116]] ++ [[97]]) (.file (.raw "alpha")) ⟨[97], "", false⟩ [] 1
      = .ok ((if strat = .link then .link (.obj (ctx.H (.raw "alpha"))) else .file (.raw "alpha"),
              ⟨[97], ctx.H (.raw "alpha"), false⟩, [(ctx.H (.raw "alpha"), .blob (.raw "alpha"))]),
             trace1 strat canRename, if strat == .link && canRename then 1 else 2) := by
    cases strat <;> cases canRename <;> rfl
  have hc2 : commitNodeT (tc strat canRename) ([[116]] ++ [[98]]) (.file (.raw "alpha")) ⟨[98], "", false⟩ [] 2
      = .ok ((if strat = .link then .link (.obj (ctx.H (.raw "alpha"))) else .file (.raw "alpha"),
              ⟨[98], ctx.H (.raw "alpha"), false⟩, [(ctx.H (.raw "alpha"), .blob (.raw "alpha"))]),
             trace2 strat canRename, if strat == .link && canRename then 2 else 3) := by
    cases strat <;> cases canRename <;> rfl
  exact .cons hc1 (.cons hc2 .nil)

theorem twoFiles_ranges (strat : Strat) (canRename : Bool) :
    DisjointRanges [(1, if strat == .link && canRename then 1 else 2),
      (2, if strat == .link && canRename then 2 else 3)] := by
  cases strat <;> cases canRename <;> simp [DisjointRanges]

/-- **`interReport strat canRename` as a theorem** (first enumerated example, all strategy variants):
every prefix of every enumerated interleaving of the two workers' traces is safe. -/
theorem interReport_proved (strat : Strat) (canRename : Bool) :
    ∀ l ∈ interleavings (trace1 strat canRename) (trace2 strat canRename), ∀ k,
      Safe ctx (trackedOf [[116]] twoFiles) (replay emp (fsOf ctx [[116]] twoFiles []) (l.take k)) := by
  intro l hl
  exact commit_workers_prefixSafe_fsOf (t := tc strat canRename) good hemp twoFiles_uniq empty_consistent
    (twoFiles_workers strat canRename) (twoFiles_ranges strat canRename)
    (InterleavingN.two.2 ((mem_interleavings _ _ _).1 hl))

/-- … and all of them end in the expected state: the object holds "alpha", both workspace paths are
links to it (link strategy), no temp file is left -/
example (canRename : Bool) (l : List (Call K))
    (hl : l ∈ interleavings (trace1 .link canRename) (trace2 .link canRename)) :
    (∃ m, (replay emp (fsOf ctx [[116]] twoFiles []) l).get (.obj (ctx.H (.raw "alpha")))
        = some (.file (.raw "alpha") m)) ∧
    (replay emp (fsOf ctx [[116]] twoFiles []) l).get (.ws [[116], [97]])
        = some (.link (.obj (ctx.H (.raw "alpha")))) ∧
    (replay emp (fsOf ctx [[116]] twoFiles []) l).get (.ws [[116], [98]])
        = some (.link (.obj (ctx.H (.raw "alpha")))) ∧
    ∀ k, (replay emp (fsOf ctx [[116]] twoFiles []) l).get (.ctmp k) = none := by
  obtain ⟨h1, h2, -⟩ := commit_workers_final_fsOf (t := tc .link canRename) good hemp twoFiles_uniq
    empty_consistent (twoFiles_workers .link canRename) (twoFiles_ranges .link canRename)
    (InterleavingN.two.2 ((mem_interleavings _ _ _).1 hl))
  have ha := h1 (.ws [[116], [97]], K.raw "alpha") (by simp [trackedOf, trackedList])
  have hb := h1 (.ws [[116], [98]], K.raw "alpha") (by simp [trackedOf, trackedList])
  exact ⟨ha.1, ha.2.1 rfl, hb.2.1 rfl, h2⟩

theorem twoEmpty_uniq : uniqList [(([97] : Name), (Node.file (K.raw ""))), ([98], .file (.raw ""))] := by
  simp [uniqNode, uniqList]

/-- the two workers of `interReportE`: two empty files, link strategy without rename -/
theorem twoEmpty_workers :
    EntryWorkers (tc .link false) [[116]] [([97], .file (.raw "")), ([98], .file (.raw ""))]
      [(1, 2), (2, 3)] [traceE [97] 1, traceE [98] 2] := by
  have hc1 : commitNodeT (tc .link false) ([[116]] ++ [[97]]) (.file (.raw "")) ⟨[97], "", false⟩ [] 1
      = .ok ((.link (.obj (ctx.H (.raw ""))), ⟨[97], ctx.H (.raw ""), false⟩,
              [(ctx.H (.raw ""), .blob (.raw ""))]), traceE [97] 1, 2) := rfl
  have hc2 : commitNodeT (tc .link false) ([[116]] ++ [[98]]) (.file (.raw "")) ⟨[98], "", false⟩ [] 2
      = .ok ((.link (.obj (ctx.H (.raw ""))), ⟨[98], ctx.H (.raw ""), false⟩,
              [(ctx.H (.raw ""), .blob (.raw ""))]), traceE [98] 2, 3) := rfl
  exact .cons hc1 (.cons hc2 .nil)

/-- **`interReportE` as a theorem** (second enumerated example) -/
theorem interReportE_proved :
    ∀ l ∈ interleavings (traceE [97] 1) (traceE [98] 2), ∀ k,
      Safe ctx (trackedOf [[116]] twoEmpty) (replay emp (fsOf ctx [[116]] twoEmpty []) (l.take k)) := by
  intro l hl
  exact commit_workers_prefixSafe_fsOf (t := tc .link false) good hemp twoEmpty_uniq empty_consistent
    twoEmpty_workers (by simp [DisjointRanges]) (InterleavingN.two.2 ((mem_interleavings _ _ _).1 hl))

/-- the direct two-file statement on the same instance, different contents, different temp names -/
example (strat : Strat) (canRename : Bool) (l : List (Call K))
    (hi : Interleaving
      (commitFileCalls isEmp strat canRename (.ws [[102]]) 7 (.raw "data") (ctx.H (.raw "data")))
      (commitFileCalls isEmp strat canRename (.ws [[103]]) 9 (.raw "") (ctx.H (.raw ""))) l) (k : Nat) :
    Safe ctx [(.ws [[102]], .raw "data"), (.ws [[103]], .raw "")]
      (replay emp [(.ws [[102]], .file (.raw "data") 0o644), (.ws [[103]], .file (.raw "") 0o600)]
        (l.take k)) := by
  have hs : Safe ctx [(.ws [[102]], K.raw "data"), (.ws [[103]], K.raw "")]
      [(.ws [[102]], .file (.raw "data") 0o644), (.ws [[103]], .file (.raw "") 0o600)] := by
    refine ⟨fun p hp => ?_, fun d e he => ?_⟩
    · simp at hp
      rcases hp with rfl | rfl
      · exact Or.inl ⟨0o644, by simp [FS.get, alookup]⟩
      · exact Or.inl ⟨0o600, by simp [FS.get, alookup]⟩
    · simp [FS.get, alookup] at he
  exact two_files_interleaving_prefixSafe good
    (fun p hp => by simp at hp; rcases hp with rfl | rfl <;> exact ⟨_, rfl⟩) hemp hs
    (by decide) (m1 := 0o644) (m2 := 0o600) (by simp [FS.get, alookup]) (by simp [FS.get, alookup])
    (by decide) (by simp [FS.get, alookup]) (by simp [FS.get, alookup]) strat canRename hi k

/-! ### a directory with a sub-directory -/

/-- file `a`, sub-directory `d` with files `b` (same bytes as `a`) and `c` -/
def subDir : Node K := .dir [([98], .file (.raw "alpha")), ([99], .file (.raw "beta"))]
def withSub : Node K := .dir [([97], .file (.raw "alpha")), ([100], subDir)]

theorem withSub_uniq : uniqList [(([97] : Name), (Node.file (K.raw "alpha"))), ([100], subDir)] := by
  simp [subDir, uniqNode, uniqList]

/-- worker 1 commits the file `a` (temp 1), worker 2 commits the sub-directory `d` sequentially (temps
from 2 on: its two files, then its manifest) -/
theorem withSub_workers (strat : Strat) (canRename : Bool) :
    ∃ calls2, EntryWorkers (tc strat canRename) [[116]] [([97], .file (.raw "alpha")), ([100], subDir)]
      [(1, if strat == .link && canRename then 1 else 2), (2, if strat == .link && canRename then 3 else 5)]
      [trace1 strat canRename, calls2] ∧ calls2.length = (if strat == .link && canRename then 14 else
        if strat == .link then 22 else 18) := by
  have hc1 : commitNodeT (tc strat canRename) ([[116]] ++ [[97]]) (.file (.raw "alpha")) ⟨[97], "", false⟩ [] 1
      = .ok ((if strat = .link then .link (.obj (ctx.H (.raw "alpha"))) else .file (.raw "alpha"),
              ⟨[97], ctx.H (.raw "alpha"), false⟩, [(ctx.H (.raw "alpha"), .blob (.raw "alpha"))]),
             trace1 strat canRename, if strat == .link && canRename then 1 else 2) := by
    cases strat <;> cases canRename <;> rfl
  have hc2 : ∃ r calls2, commitNodeT (tc strat canRename) ([[116]] ++ [[100]]) subDir ⟨[100], "", true⟩ [] 2
      = .ok (r, calls2, if strat == .link && canRename then 3 else 5) ∧
      calls2.length = (if strat == .link && canRename then 14 else if strat == .link then 22 else 18) := by
    cases strat <;> cases canRename <;> exact ⟨_, _, rfl, rfl⟩
  obtain ⟨r, calls2, hc2, hlen⟩ := hc2
  exact ⟨calls2, .cons hc1 (.cons hc2 .nil), hlen⟩

/-- **Sub-directory example**: every schedule of the two workers (a file against a whole
sub-directory commit, including its manifest) is safe after every prefix, for every strategy variant. -/
example (strat : Strat) (canRename : Bool) :
    ∃ calls2, calls2 ≠ [] ∧ ∀ l, Interleaving (trace1 strat canRename) calls2 l → ∀ k,
      Safe ctx (trackedOf [[116]] withSub) (replay emp (fsOf ctx [[116]] withSub []) (l.take k)) := by
  obtain ⟨calls2, hw, hlen⟩ := withSub_workers strat canRename
  refine ⟨calls2, ?_, fun l hi => ?_⟩
  · intro h; rw [h] at hlen; cases strat <;> cases canRename <;> simp at hlen
  · exact commit_workers_prefixSafe_fsOf (t := tc strat canRename) good hemp withSub_uniq empty_consistent
      hw (by cases strat <;> cases canRename <;> simp [DisjointRanges]) (InterleavingN.two.2 hi)

/-! ### a nested schedule that is not sequential -/

/-- traces of the three file workers of `withSub` (copy strategy): `a` with temp 1, `b` with temp 2,
`c` with temp 3 -/
def trA : List (Call K) :=
  commitFileCalls isEmp .copy false (.ws [[116], [97]]) 1 (.raw "alpha") (ctx.H (.raw "alpha"))
def trB : List (Call K) :=
  commitFileCalls isEmp .copy false (.ws [[116], [100], [98]]) 2 (.raw "alpha") (ctx.H (.raw "alpha"))
def trC : List (Call K) :=
  commitFileCalls isEmp .copy false (.ws [[116], [100], [99]]) 3 (.raw "beta") (ctx.H (.raw "beta"))

/-- a nested concurrent trace: in `d`, worker `c` runs BEFORE worker `b`; at the top, the first call of
`a` comes first, then the whole commit of `d` (with its manifest, temp 4), then the rest of `a`; finally
the top manifest (temp 5).  It is a `ParTrace`, it is not the sequential trace, and it is safe after
every prefix. -/
example (mbD mbTop : K) :
    let inner := trC ++ trB ++ copyIntoCache isEmp 4 mbD (ctx.H mbD)
    let calls := (trA.take 1 ++ inner ++ trA.drop 1) ++ copyIntoCache isEmp 5 mbTop (ctx.H mbTop)
    ParTrace (tc .copy false) [[116]] withSub 1 6 calls ∧
      ∀ k, Safe ctx (trackedOf [[116]] withSub) (replay emp (fsOf ctx [[116]] withSub []) (calls.take k)) := by
  intro inner calls
  have hA : LeafTrace (tc .copy false) ([[116]] ++ [[97]]) (.file (.raw "alpha")) 1 2 trA :=
    ⟨⟨[97], "", false⟩, [], 1, _, 2, Nat.le_refl _, Nat.le_refl _, rfl⟩
  have hB : LeafTrace (tc .copy false) ([[116]] ++ [[100]] ++ [[98]]) (.file (.raw "alpha")) 2 3 trB :=
    ⟨⟨[98], "", false⟩, [], 2, _, 3, Nat.le_refl _, Nat.le_refl _, rfl⟩
  have hC : LeafTrace (tc .copy false) ([[116]] ++ [[100]] ++ [[99]]) (.file (.raw "beta")) 3 4 trC :=
    ⟨⟨[99], "", false⟩, [], 3, _, 4, Nat.le_refl _, Nat.le_refl _, rfl⟩
  have hinner : ParTrace (tc .copy false) ([[116]] ++ [[100]]) subDir 2 5 inner := by
    simp only [subDir, ParTrace, ParTraces]
    refine ⟨[(2, 3), (3, 4)], [trB, trC], trC ++ trB, 4, mbD,
      ⟨2, 3, trB, [(3, 4)], [trC], rfl, rfl, hB, 3, 4, trC, [], [], rfl, rfl, hC, rfl, rfl⟩,
      by simp [DisjointRanges], by simp, by omega, by omega,
      InterleavingN.two.2 (Interleaving.append trC trB).symm, rfl⟩
  have hsplit : Interleaving trA inner (trA.take 1 ++ inner ++ trA.drop 1) := by
    have h1 : Interleaving (trA.take 1) [] (trA.take 1) := Interleaving.nil_right _
    have h2 : Interleaving (trA.drop 1) inner (inner ++ trA.drop 1) := (Interleaving.append _ _).symm
    have := Interleaving.append_both h1 h2
    rw [List.take_append_drop 1 trA] at this
    simp only [List.nil_append, List.append_assoc] at this ⊢
    exact this
  have hpt : ParTrace (tc .copy false) [[116]] withSub 1 6 calls := by
    simp only [withSub, ParTrace, ParTraces]
    exact ⟨[(1, 2), (2, 5)], [trA, inner], _, 5, mbTop,
      ⟨1, 2, trA, [(2, 5)], [inner], rfl, rfl, hA, 2, 5, inner, [], [], rfl, rfl, hinner, rfl, rfl⟩,
      by simp [DisjointRanges], by simp, by omega, by omega, InterleavingN.two.2 hsplit, rfl⟩
  exact ⟨hpt, parCommit_prefixSafe_fsOf (t := tc .copy false) good hemp
    (by simp [withSub, subDir, uniqNode, uniqList]) empty_consistent hpt⟩

/-! ### the whole `LocalCache.Commit` on the example tree of `C03.lean` -/

/-- the concurrent `LocalCache.Commit` has traces on a non-trivial tree (two levels, an empty file, an
empty directory, equal contents), and each of them is safe after every prefix -/
example (strat : Strat) (canRename : Bool) :
    ∃ calls, calls ≠ [] ∧
      ParArtTrace (tc strat canRename) art [[116]]
        [([97], .file (.raw "alpha")), ([98], .dir [([99], .file (.raw "")), ([100], .dir [])]),
         ([101], .file (.raw "alpha"))] calls := by
  have h : ∃ res calls, commitArtT (tc strat canRename) art [[116]] (some tree) [] = .ok (res, calls) ∧
      calls ≠ [] := by
    cases strat <;> cases canRename <;> exact ⟨_, _, rfl, by simp⟩
  obtain ⟨res, calls, h, hne⟩ := h
  exact ⟨calls, hne, commitArtT_is_parArtTrace h⟩

example (strat : Strat) (canRename : Bool) (calls : List (Call K))
    (h : ParArtTrace (tc strat canRename) art [[116]]
        [([97], .file (.raw "alpha")), ([98], .dir [([99], .file (.raw "")), ([100], .dir [])]),
         ([101], .file (.raw "alpha"))] calls) (k : Nat) :
    Safe ctx (trackedOf [[116]] tree) (replay emp (fsOf ctx [[116]] tree []) (calls.take k)) :=
  parCommitArt_prefixSafe_fsOf (t := tc strat canRename) good hemp
    (by simpa [tree, uniqNode] using tree_uniq) empty_consistent h k

end Example

#print axioms sched_iff_interleavingN
#print axioms interleaving_sim
#print axioms interleavingN_disciplined
#print axioms Merged.agree
#print axioms Disciplined.under
#print axioms commitNodeT_parTrace
#print axioms parTrace_spec
#print axioms commitFileT_allowed_under
#print axioms commitNodeT_allowed_under
#print axioms disciplined_interleavingN_prefixSafe
#print axioms commit_workers_prefixSafe
#print axioms commit_workers_disciplined
#print axioms commit_workers_final
#print axioms commit_workers_schedules_agree
#print axioms commit_workers_objects_readOnly
#print axioms commit_workers_schedules_same
#print axioms commit_workers_schedules_same_fsOf
#print axioms parCommit_objects_readOnly
#print axioms commitEntriesT_is_schedule
#print axioms commit_workers_prefixSafe_fsOf
#print axioms commit_workers_final_fsOf
#print axioms commit_workers_schedules_agree_fsOf
#print axioms parCommit_prefixSafe
#print axioms parCommit_final
#print axioms parCommit_prefixSafe_fsOf
#print axioms parCommit_final_fsOf
#print axioms parCommitArt_prefixSafe
#print axioms parCommitArt_final
#print axioms parCommitArt_prefixSafe_fsOf
#print axioms commitArtT_is_parArtTrace
#print axioms entryWorkers_parTrace
#print axioms two_files_interleaving_prefixSafe
#print axioms Example.mem_interleavings
#print axioms Example.interReport_proved
#print axioms Example.interReportE_proved
#print axioms Example.withSub_workers

end Dud.Sys
