import DudModel.Lemmas.OrderCommit
import DudModel.Lemmas.OrderCheckout
import DudModel.Lemmas.OrderStatus
import DudModel.Lemmas.OrderPool
import DudModel.Lemmas.Codec
import DudModel.Props.C13
/-!
# C13 (result half) — directory operations give the sequential result whatever the order in which
the entries are processed

`Props/C13.lean` proves that the worker pools terminate, hand every entry to exactly one worker
and leave no goroutine behind; the results of the workers are abstract there.  This file proves
that the *results* — child records and checksums, cache objects, restored tree, status — do not
depend on the order in which the entries of a directory are processed.  The abstraction (argued in
DESIGN): a worker processes one entry completely (recursively for a sub-directory), so a schedule
amounts to an order in which the effects of the entries are applied to the shared state.

* §1 commit: `commit_entry_frame` (the result for one entry is the same whatever the other
  workers have already put into the cache), `commitEntries_order_independent` (any permutation of
  the listing), `commitNode_tree_order_independent` / `commitArt_order_independent` (listings
  reordered at every level), `commit_fresh_order_independent` (first commit: the only hypothesis
  left is "no dangling link into the cache"), `commit_closed_cache_order_independent` (recommit
  on a cache that is closed under the references of its manifests), and two concrete
  counter-examples showing that the
  hypotheses cannot be dropped: **without them the outcome of a commit does depend on the order**.
* §2 checkout: `checkoutChildren_order_independent`, `checkoutNode_order_independent`.
* §3 status: `childStatuses_order_independent`, `dirStatus_listing_order_independent`,
  `dirStatus_order_independent`.
* §4 errors: an operation fails in one order iff it fails in every order, and it fails iff some
  entry fails *on the initial state*; the error *value* may differ between orders (example).
* §5 the protocol: for every run of the worker-pool protocol that returns without error the
  completion order is a permutation of the entries (`Pool.terminal_done_perm`), every permutation
  does occur (`Pool.every_order_occurs`), and the result for that order is the sequential result.
* §6 non-vacuity, §7 axioms.

Store equality is `Store.eqv`: the same digests are present and hold the same *bytes* (the typed
model distinguishes a blob that happens to hold the bytes of a manifest from the manifest; the
cache on disk does not, and no operation of the model does — `Store.eqv.readManifest`).

## Hypotheses, and what is NOT covered

* `Good ctx` (collision-free hash, honest manifest decoder), `Consistent ctx s` (objects sit under
  the digest of their bytes): needed for "two puts commute".
* entry names pairwise distinct in a listing / a manifest (`Nodup`, `Node.nodupNames`,
  `ManifestsNodup`): true of every directory listing and of every Go map; needed because the
  manifest is built as a map keyed by name.
* commit only: `closedNode` / `closedList` / `closedArt` (decidable): the reads of a commit are
  stable.  (i) a workspace link that points into the cache resolves there; (ii) a directory
  checksum recovered from the old manifest is either unusable or present in the cache.  For a first
  commit (ii) is void.  Both are necessary: see `order_matters_dangling_link` and
  `order_matters_missing_manifest`.
* Not covered: interleavings *inside* the processing of one entry (entry-level atomicity is the
  abstraction), `shortCircuit = true` in status (the model has the full status only), progress
  bars and logs, the error value reported (any failing entry may be the one reported).
-/
namespace Dud

variable {κ : Type}

/-! ## 1. commit -/

/-- **Frame property.**  If the reads are stable (`closedNode`), committing one entry has the same
outcome in the initial cache `s` and in every larger consistent cache `t` (whatever the other
workers have added meanwhile): the same error, or the same workspace node, the same child record
(name, checksum, kind) and the same block `Δ` of new objects. -/
theorem commit_entry_frame {ctx : Ctx κ} (g : Good ctx) (strat : Strat) (n : Node κ) (c : Child)
    {s t : Store κ} (hs : Consistent ctx s) (ht : Consistent ctx t) (hle : Store.le ctx s t)
    (hcl : closedNode ctx s n c = true) :
    (∀ e, commitNode ctx strat n c s = .error e → commitNode ctx strat n c t = .error e) ∧
    (∀ n' c' s1, commitNode ctx strat n c s = .ok (n', c', s1) →
      ∃ Δ, s1 = Δ ++ s ∧ DeltaOK ctx Δ ∧ commitNode ctx strat n c t = .ok (n', c', Δ ++ t)) :=
  commitNode_frame g strat n c s t hs ht hle hcl

/-- **C13 (a), one directory.**  For every permutation `es'` of the listing `es` (names pairwise
distinct), `commitEntries` fails for `es'` iff it fails for `es`; when it succeeds

* the workspace entries returned are a permutation of each other, and each list keeps the names of
  its input in place (so they are "the same up to that permutation");
* the child records are a permutation of each other, hence `sortChildren` — the manifest — is
  *equal*, and so is the manifest digest under every path;
* the resulting caches are the same (`Store.eqv`). -/
theorem commitEntries_order_independent {ctx : Ctx κ} (g : Good ctx) (strat : Strat)
    (skipDirs : Bool) {es es' : List (Name × Node κ)} (hp : es.Perm es')
    (hnd : (es.map (·.1)).Nodup) (old : List Child) {s : Store κ} (hs : Consistent ctx s)
    (hcl : closedList ctx s skipDirs es old = true) :
    (∀ e, commitEntries ctx strat skipDirs es old s = .error e →
      ∃ e', commitEntries ctx strat skipDirs es' old s = .error e') ∧
    (∀ o1 cs1 s1, commitEntries ctx strat skipDirs es old s = .ok (o1, cs1, s1) →
      ∃ o2 cs2 s2, commitEntries ctx strat skipDirs es' old s = .ok (o2, cs2, s2) ∧
        o1.Perm o2 ∧ o1.map (·.1) = es.map (·.1) ∧ o2.map (·.1) = es'.map (·.1) ∧
        cs1.Perm cs2 ∧ sortChildren cs1 = sortChildren cs2 ∧
        (∀ p : Bytes, (Obj.man .new p (sortChildren cs1) : Obj κ).digest ctx =
          (Obj.man .new p (sortChildren cs2) : Obj κ).digest ctx) ∧
        Store.eqv ctx s1 s2) := by
  have h := commitEntries_perm g strat skipDirs hp old hs hcl
  refine ⟨fun e he => h.error_left he, fun o1 cs1 s1 h1 => ?_⟩
  obtain ⟨o2, cs2, s2, h2, hpo, hpc, hes⟩ := h.ok_left h1
  have hndc : (cs1.map (·.name)).Nodup := by
    rw [(commitEntries_names h1).2]
    exact List.Nodup.sublist (List.filter_sublist.map _) hnd
  have hsc : sortChildren cs1 = sortChildren cs2 := sortChildren_perm hpc hndc
  exact ⟨o2, cs2, s2, h2, hpo, (commitEntries_names h1).1, (commitEntries_names h2).1, hpc, hsc,
    fun p => by rw [hsc], hes⟩

/-- the same statement as a relation, symmetric in the two orders -/
theorem commitEntries_order_independent' {ctx : Ctx κ} (g : Good ctx) (strat : Strat)
    (skipDirs : Bool) {es es' : List (Name × Node κ)} (hp : es.Perm es') (old : List Child)
    {s : Store κ} (hs : Consistent ctx s) (hcl : closedList ctx s skipDirs es old = true) :
    CommitEq ctx (commitEntries ctx strat skipDirs es old s)
      (commitEntries ctx strat skipDirs es' old s) ∧
    CommitEq ctx (commitEntries ctx strat skipDirs es' old s)
      (commitEntries ctx strat skipDirs es old s) :=
  ⟨commitEntries_perm g strat skipDirs hp old hs hcl,
   (commitEntries_perm g strat skipDirs hp old hs hcl).symm⟩

/-- **C13 (a), lifted to `commitNode` on a directory**: `.dir es` and `.dir es'` get the same
child record — the same checksum — and the same cache. -/
theorem commitNode_dir_order_independent {ctx : Ctx κ} (g : Good ctx) (strat : Strat)
    {es es' : List (Name × Node κ)} (hp : es.Perm es') (hnd : (Node.dir es).nodupNames = true)
    (c : Child) {s : Store κ} (hs : Consistent ctx s)
    (hcl : closedNode ctx s (.dir es) c = true) :
    (∀ e, commitNode ctx strat (.dir es) c s = .error e →
      ∃ e', commitNode ctx strat (.dir es') c s = .error e') ∧
    (∀ n1 c1 s1, commitNode ctx strat (.dir es) c s = .ok (n1, c1, s1) →
      ∃ n2 s2, commitNode ctx strat (.dir es') c s = .ok (n2, c1, s2) ∧ TreePerm n1 n2 ∧
        Store.eqv ctx s1 s2) := by
  have h := commitNode_treePerm g strat (.dir es) (.dir es') c s s (TreePerm.of_perm hp) hnd hs hs
    (Store.eqv.refl ctx s) hcl
  exact ⟨fun e he => h.error_left he, fun n1 c1 s1 h1 => h.ok_left h1⟩

/-- **C13 (a), recursively.**  Two workspace trees that differ only in the order of the listings,
at any depth (`TreePerm`), committed in two caches that are the same cache (`Store.eqv`): same
failure status; on success the same child record (checksum), the same cache, and the workspace
trees left behind again differ only in the order of the listings. -/
theorem commitNode_tree_order_independent {ctx : Ctx κ} (g : Good ctx) (strat : Strat)
    {n n' : Node κ} (hp : TreePerm n n') (hnd : n.nodupNames = true) (c : Child) {s t : Store κ}
    (hs : Consistent ctx s) (ht : Consistent ctx t) (he : Store.eqv ctx s t)
    (hcl : closedNode ctx s n c = true) :
    (∀ e, commitNode ctx strat n c s = .error e → ∃ e', commitNode ctx strat n' c t = .error e') ∧
    (∀ e, commitNode ctx strat n' c t = .error e → ∃ e', commitNode ctx strat n c s = .error e') ∧
    (∀ n1 c1 s1, commitNode ctx strat n c s = .ok (n1, c1, s1) →
      ∃ n2 s2, commitNode ctx strat n' c t = .ok (n2, c1, s2) ∧ TreePerm n1 n2 ∧
        Store.eqv ctx s1 s2) := by
  have h := commitNode_treePerm g strat n n' c s t hp hnd hs ht he hcl
  refine ⟨fun e he => h.error_left he, fun e he' => ?_, fun n1 c1 s1 h1 => h.ok_left h1⟩
  cases hx : commitNode ctx strat n c s with
  | error e' => exact ⟨e', rfl⟩
  | ok v =>
    obtain ⟨n1, c1, s1⟩ := v
    obtain ⟨n2, s2, h2, _⟩ := h.ok_left hx
    rw [he'] at h2; cases h2

/-- **C13 (a) for `LocalCache.Commit`** (`commitArt`, including `DisableRecursion` and file
artifacts). -/
theorem commitArt_order_independent {ctx : Ctx κ} (g : Good ctx) (strat : Strat) (a : Art)
    {n n' : Node κ} (hp : TreePerm n n') (hnd : n.nodupNames = true) {s t : Store κ}
    (hs : Consistent ctx s) (ht : Consistent ctx t) (he : Store.eqv ctx s t)
    (hcl : closedArt ctx s a n = true) :
    (∀ e, commitArt ctx strat a (some n) s = .error e →
      ∃ e', commitArt ctx strat a (some n') t = .error e') ∧
    (∀ n1 d s1, commitArt ctx strat a (some n) s = .ok (n1, d, s1) →
      ∃ n2 s2, commitArt ctx strat a (some n') t = .ok (n2, d, s2) ∧ TreePerm n1 n2 ∧
        Store.eqv ctx s1 s2) := by
  have h := commitArt_treePerm g strat a hp hnd hs ht he hcl
  exact ⟨fun e he => h.error_left he, fun n1 d s1 h1 => h.ok_left h1⟩

/-- **First commit** (no checksum recorded yet): the only hypothesis on the workspace is that no
link into the cache dangles (`Node.linksResolve`, in particular: a tree of regular files and
directories). -/
theorem commit_fresh_order_independent {ctx : Ctx κ} (g : Good ctx) (strat : Strat)
    {n n' : Node κ} (hp : TreePerm n n') (hnd : n.nodupNames = true) (nm : Name) (isDir : Bool)
    {s : Store κ} (hs : Consistent ctx s) (hl : n.linksResolve s = true) :
    (∀ e, commitNode ctx strat n ⟨nm, "", isDir⟩ s = .error e →
      ∃ e', commitNode ctx strat n' ⟨nm, "", isDir⟩ s = .error e') ∧
    (∀ n1 c1 s1, commitNode ctx strat n ⟨nm, "", isDir⟩ s = .ok (n1, c1, s1) →
      ∃ n2 s2, commitNode ctx strat n' ⟨nm, "", isDir⟩ s = .ok (n2, c1, s2) ∧ TreePerm n1 n2 ∧
        Store.eqv ctx s1 s2) := by
  have h := commitNode_tree_order_independent g strat hp hnd ⟨nm, "", isDir⟩ hs hs
    (Store.eqv.refl ctx s) (closedNode_fresh ctx s n nm isDir hl)
  exact ⟨h.1, h.2.2⟩

/-- **Recommit on a reference-closed cache.**  If every sub-directory checksum recorded in a
manifest of the cache is itself in the cache (`StoreClosed`: nothing was fetched partially or
removed), the hypotheses on the workspace reduce to: no link into the cache dangles, and the
checksum recorded for the artifact is present (or unusable).  Edits of the workspace since the last
commit (new or changed regular files, new directories, removed entries) do not matter. -/
theorem commit_closed_cache_order_independent {ctx : Ctx κ} (g : Good ctx) (strat : Strat)
    {n n' : Node κ} (hp : TreePerm n n') (hnd : n.nodupNames = true) (c : Child) {s : Store κ}
    (hs : Consistent ctx s) (hsc : StoreClosed ctx s) (hl : n.linksResolve s = true)
    (hc : c.isDir = true → hasSum c.sum = true → s.has c.sum = true) :
    (∀ e, commitNode ctx strat n c s = .error e → ∃ e', commitNode ctx strat n' c s = .error e') ∧
    (∀ n1 c1 s1, commitNode ctx strat n c s = .ok (n1, c1, s1) →
      ∃ n2 s2, commitNode ctx strat n' c s = .ok (n2, c1, s2) ∧ TreePerm n1 n2 ∧
        Store.eqv ctx s1 s2) := by
  have h := commitNode_tree_order_independent g strat hp hnd c hs hs (Store.eqv.refl ctx s)
    (closedNode_of_storeClosed hsc n c hl hc)
  exact ⟨h.1, h.2.2⟩

/-! ## 2. checkout -/

/-- **C13 (b), one directory.**  For every permutation `cs'` of the manifest entries `cs` (names
pairwise distinct) `checkoutChildren` succeeds for `cs'` iff it does for `cs`, and the resulting
listings are equal as finite maps. -/
theorem checkoutChildren_order_independent (f : Option (Node κ) → Child → Except Err (Node κ))
    {cs cs' : List Child} (hp : cs.Perm cs') (hnd : (cs.map (·.name)).Nodup)
    (es : List (Name × Node κ)) :
    (∀ e, checkoutChildren f es cs = .error e → ∃ e', checkoutChildren f es cs' = .error e') ∧
    (∀ e, checkoutChildren f es cs' = .error e → ∃ e', checkoutChildren f es cs = .error e') ∧
    (∀ es1, checkoutChildren f es cs = .ok es1 →
      ∃ es2, checkoutChildren f es cs' = .ok es2 ∧ ∀ nm, alookup es1 nm = alookup es2 nm) := by
  have h := checkoutChildren_perm f hp hnd es
  exact ⟨fun e he => h.error_left he, fun e he => h.error_right he, fun es1 h1 => h.ok_left h1⟩

/-- **C13 (b), recursively.**  `checkoutNodeS … σ` is `checkoutNode` with the manifest entries of
every directory processed in the order `σ` chooses (any family of permutations: the choice may
depend on the nesting level, the directory and its manifest).  It succeeds iff `checkoutNode`
does, and the restored trees are equal as finite maps at every level (`MapEq`).  Assumed:
manifests list each name once (in Go the manifest is a map). -/
theorem checkoutNode_order_independent (ctx : Ctx κ) (strat : Strat) (s : Store κ)
    (σ : Nat → Child → List Child → List Child) (hσ : ∀ k c cs, (σ k c cs).Perm cs)
    (hm : ManifestsNodup ctx s) (fuel : Nat) (cur : Option (Node κ)) (c : Child) :
    (∀ e, checkoutNode ctx strat s fuel cur c = .error e →
      ∃ e', checkoutNodeS ctx strat s σ fuel cur c = .error e') ∧
    (∀ e, checkoutNodeS ctx strat s σ fuel cur c = .error e →
      ∃ e', checkoutNode ctx strat s fuel cur c = .error e') ∧
    (∀ n, checkoutNode ctx strat s fuel cur c = .ok n →
      ∃ n', checkoutNodeS ctx strat s σ fuel cur c = .ok n' ∧ MapEq n' n) := by
  have h := checkoutNodeS_mapEq ctx strat s σ hσ hm fuel cur c
  exact ⟨fun e he => h.error_right he, fun e he => h.error_left he, fun n hn => h.ok_right hn⟩

/-- … in particular the logical contents of the restored trees (links into the cache followed,
`deref`) are equal as finite maps at every level -/
theorem checkoutNode_order_independent_deref (ctx : Ctx κ) (strat : Strat) (s : Store κ)
    (σ : Nat → Child → List Child → List Child) (hσ : ∀ k c cs, (σ k c cs).Perm cs)
    (hm : ManifestsNodup ctx s) (fuel : Nat) (cur : Option (Node κ)) (c : Child) (n : Node κ)
    (hn : checkoutNode ctx strat s fuel cur c = .ok n) :
    ∃ n', checkoutNodeS ctx strat s σ fuel cur c = .ok n' ∧
      MapEq (deref ctx s n') (deref ctx s n) := by
  obtain ⟨n', h1, h2⟩ := (checkoutNode_order_independent ctx strat s σ hσ hm fuel cur c).2.2 n hn
  exact ⟨n', h1, h2.deref ctx s⟩

/-- the sequential order is one of the orders: `checkoutNodeS` with the identity is `checkoutNode`
up to `MapEq` (sanity check of the definition) -/
theorem checkoutNodeS_id (ctx : Ctx κ) (strat : Strat) (s : Store κ) (hm : ManifestsNodup ctx s)
    (fuel : Nat) (cur : Option (Node κ)) (c : Child) :
    ExRel MapEq (checkoutNodeS ctx strat s (fun _ _ cs => cs) fuel cur c)
      (checkoutNode ctx strat s fuel cur c) :=
  checkoutNodeS_mapEq ctx strat s _ (fun _ _ cs => List.Perm.refl cs) hm fuel cur c

/-! ## 3. status -/

section
variable [DecidableEq κ]

/-- **C13 (c), the two loops.**  The statuses of the manifest entries (resp. of the untracked
listing entries) for a permuted manifest and a permuted listing (names pairwise distinct) are a
permutation of the sequential ones, and an error occurs in one order iff in the other. -/
theorem childStatuses_order_independent (ctx : Ctx κ) (s : Store κ)
    (fd : Bytes → Digest → Option (Node κ) → Except Err Status) {es es' : List (Name × Node κ)}
    (hes : es.Perm es') (hnd : (es.map (·.1)).Nodup) {cs cs' : List Child} (hp : cs.Perm cs') :
    ExRel List.Perm (childStatuses ctx s fd es cs) (childStatuses ctx s fd es' cs') ∧
    ExRel List.Perm (untrackedStatuses ctx s fd es) (untrackedStatuses ctx s fd es') :=
  ⟨childStatuses_perm ctx s fd (alookup_perm hes hnd) hp, untrackedStatuses_perm ctx s fd hes⟩

/-- **C13 (c), `dirStatus` of a permuted listing.**  Same failure status; on success the same
`name`, `isDir`, `skip`, `ws`, `has`, `inCache`, `cm`, and children statuses that are a
permutation of each other. -/
theorem dirStatus_listing_order_independent (ctx : Ctx κ) (s : Store κ)
    {es es' : List (Name × Node κ)} (hes : es.Perm es') (hnd : (es.map (·.1)).Nodup) (fuel : Nat)
    (name : Bytes) (noRec : Bool) (sum : Digest) :
    (∀ e, dirStatus ctx s fuel name noRec sum (some (.dir es)) = .error e →
      ∃ e', dirStatus ctx s fuel name noRec sum (some (.dir es')) = .error e') ∧
    (∀ st, dirStatus ctx s fuel name noRec sum (some (.dir es)) = .ok st →
      ∃ st', dirStatus ctx s fuel name noRec sum (some (.dir es')) = .ok st' ∧
        st.name = st'.name ∧ st.isDir = st'.isDir ∧ st.skip = st'.skip ∧ st.ws = st'.ws ∧
        st.has = st'.has ∧ st.inCache = st'.inCache ∧ st.cm = st'.cm ∧
        st.children.Perm st'.children) := by
  have h := dirStatus_listing_perm ctx s hes hnd fuel name noRec sum
  refine ⟨fun e he => h.error_left he, fun st hst => ?_⟩
  obtain ⟨st', h', hr⟩ := h.ok_left hst
  have hc := hr.children_perm
  obtain ⟨h1, h2, h3, h4, h5, h6, h7, _⟩ := hr
  exact ⟨st', h', h1, h2, h3, h4, h5, h6, h7, hc⟩

/-- **C13 (c), recursively.**  `dirStatusS … σ τ` is `dirStatus` with the manifest entries of every
directory processed in the order `σ` chooses and the untracked entries in the order `τ` chooses.
It fails iff `dirStatus` fails, and otherwise the two statuses agree on every field, the children
up to order, recursively (`StatusPerm`; in Go `ChildrenStatus` is a map keyed by name). -/
theorem dirStatus_order_independent (ctx : Ctx κ) (s : Store κ)
    (σ : Nat → Bytes → List Child → List Child)
    (τ : Nat → Bytes → List (Name × Node κ) → List (Name × Node κ))
    (hσ : ∀ k nm l, (σ k nm l).Perm l) (hτ : ∀ k nm l, (τ k nm l).Perm l)
    (fuel : Nat) (name : Bytes) (noRec : Bool) (sum : Digest) (cur : Option (Node κ)) :
    (∀ e, dirStatus ctx s fuel name noRec sum cur = .error e →
      ∃ e', dirStatusS ctx s σ τ fuel name noRec sum cur = .error e') ∧
    (∀ e, dirStatusS ctx s σ τ fuel name noRec sum cur = .error e →
      ∃ e', dirStatus ctx s fuel name noRec sum cur = .error e') ∧
    (∀ st, dirStatus ctx s fuel name noRec sum cur = .ok st →
      ∃ st', dirStatusS ctx s σ τ fuel name noRec sum cur = .ok st' ∧ StatusPerm st' st) := by
  have h := dirStatusS_perm ctx s σ τ hσ hτ fuel name noRec sum cur
  exact ⟨fun e he => h.error_right he, fun e he => h.error_left he, fun st hst => h.ok_right hst⟩

/-- what `StatusPerm` says at the top level: every field agrees, in particular `cm`
(`ContentsMatch`), `has`, `inCache` -/
theorem StatusPerm.fields {a b : Status} (h : StatusPerm a b) :
    a.name = b.name ∧ a.isDir = b.isDir ∧ a.skip = b.skip ∧ a.ws = b.ws ∧ a.has = b.has ∧
      a.inCache = b.inCache ∧ a.cm = b.cm ∧ a.children.length = b.children.length := by
  obtain ⟨h1, h2, h3, h4, h5, h6, h7, mid, h8, h9⟩ := h.rel
  exact ⟨h1, h2, h3, h4, h5, h6, h7, h8.length_eq.trans h9.length_eq⟩

end

/-! ## 4. errors -/

/-- **C13 (d), commit.**  `commitEntries` fails in one order iff it fails in every order, and it
fails iff the processing of some entry fails *on the initial cache* — whichever entries were
processed before.  (The error value reported may differ: see `error_value_depends_on_order`.) -/
theorem commitEntries_error_order_independent {ctx : Ctx κ} (g : Good ctx) (strat : Strat)
    (skipDirs : Bool) {es es' : List (Name × Node κ)} (hp : es.Perm es') (old : List Child)
    {s : Store κ} (hs : Consistent ctx s) (hcl : closedList ctx s skipDirs es old = true) :
    ((∃ e, commitEntries ctx strat skipDirs es old s = .error e) ↔
      (∃ e', commitEntries ctx strat skipDirs es' old s = .error e')) ∧
    ((∃ e, commitEntries ctx strat skipDirs es old s = .error e) ↔
      ∃ x ∈ es, ∃ e, commitHead ctx strat skipDirs old x s = .error e) := by
  have h := commitEntries_order_independent' g strat skipDirs hp old hs hcl
  refine ⟨⟨fun ⟨e, he⟩ => h.1.error_left he, fun ⟨e, he⟩ => h.2.error_left he⟩, ?_⟩
  have hiff := commitEntries_ok_iff g strat skipDirs es old hs hcl
  constructor
  · rintro ⟨e, he⟩
    apply Classical.byContradiction
    intro hno
    have : ∀ x ∈ es, ∃ v, commitHead ctx strat skipDirs old x s = .ok v := by
      intro x hx
      cases hh : commitHead ctx strat skipDirs old x s with
      | ok v => exact ⟨v, rfl⟩
      | error e' => exact absurd ⟨x, hx, e', hh⟩ hno
    obtain ⟨v, hv⟩ := hiff.2 this
    rw [he] at hv; cases hv
  · rintro ⟨x, hx, e, he⟩
    cases hr : commitEntries ctx strat skipDirs es old s with
    | error e' => exact ⟨e', rfl⟩
    | ok v =>
      obtain ⟨w, hw⟩ := hiff.1 ⟨v, hr⟩ x hx
      rw [he] at hw; cases hw

/-- **C13 (d), checkout.**  `checkoutChildren` fails iff the processing of some manifest entry
fails on the node the *initial* listing has at its name — so it fails in every order or in none. -/
theorem checkoutChildren_error_order_independent
    (f : Option (Node κ) → Child → Except Err (Node κ)) (cs : List Child)
    (es : List (Name × Node κ)) (hnd : (cs.map (·.name)).Nodup) :
    (∃ e, checkoutChildren f es cs = .error e) ↔
      ∃ c ∈ cs, ∃ e, f (alookup es c.name) c = .error e := by
  have hiff := checkoutChildren_ok_iff f cs es hnd
  constructor
  · rintro ⟨e, he⟩
    obtain ⟨c, hc, hce⟩ := (checkoutChildren_char f cs es hnd).2 e he
    exact ⟨c, hc, e, hce⟩
  · rintro ⟨c, hc, e, he⟩
    cases hr : checkoutChildren f es cs with
    | error e' => exact ⟨e', rfl⟩
    | ok v =>
      obtain ⟨n, hn⟩ := hiff.1 ⟨v, hr⟩ c hc
      rw [he] at hn; cases hn

/-! ## 5. the protocol -/

open Pool in
/-- **Tie to the worker-pool protocol, commit.**  Take any run of the protocol of
`DudModel/Pool.lean` for a directory with listing `es` (`Pool.TSteps`: the counters of `Pool.P`
plus the entries themselves; every `TStep` is a `Pool.Step`, `TStep.step`), ending in a terminal
state without error.  By `Pool.terminal_done_perm` (which rests on `terminal_complete`) every entry
was processed exactly once, in the completion order `st.done`.  Committing the entries in that
order has the same outcome as committing them one at a time in listing order. -/
theorem commit_schedule_independent {ctx : Ctx κ} (g : Good ctx) (strat : Strat) (skipDirs : Bool)
    {D k : Nat} {es : List (Name × Node κ)} {st : TState (Name × Node κ)}
    (hrun : TSteps D (tinit es true) k st) (hterm : Terminal st.p) (hok : st.p.failed = false)
    (old : List Child) {s : Store κ} (hs : Consistent ctx s)
    (hcl : closedList ctx s skipDirs es old = true) :
    CommitEq ctx (commitEntries ctx strat skipDirs st.done old s)
      (commitEntries ctx strat skipDirs es old s) := by
  have hp := (terminal_done_perm hrun hterm hok).1
  exact commitEntries_perm g strat skipDirs hp old hs ((closedList_perm hp).2 hcl)

open Pool in
/-- … and the manifest written, hence the checksum of the directory, is the sequential one. -/
theorem commit_schedule_manifest {ctx : Ctx κ} (g : Good ctx) (strat : Strat) (skipDirs : Bool)
    {D k : Nat} {es : List (Name × Node κ)} {st : TState (Name × Node κ)}
    (hrun : TSteps D (tinit es true) k st) (hterm : Terminal st.p) (hok : st.p.failed = false)
    (hnd : (es.map (·.1)).Nodup) (old : List Child) {s : Store κ} (hs : Consistent ctx s)
    (hcl : closedList ctx s skipDirs es old = true) {o1 : List (Name × Node κ)}
    {cs1 : List Child} {s1 : Store κ}
    (h1 : commitEntries ctx strat skipDirs es old s = .ok (o1, cs1, s1)) :
    ∃ o2 cs2 s2, commitEntries ctx strat skipDirs st.done old s = .ok (o2, cs2, s2) ∧
      o1.Perm o2 ∧ sortChildren cs1 = sortChildren cs2 ∧ Store.eqv ctx s1 s2 := by
  have hp := (terminal_done_perm hrun hterm hok).1
  obtain ⟨o2, cs2, s2, h2, hpo, _, _, _, hsc, _, hes⟩ :=
    (commitEntries_order_independent g strat skipDirs hp.symm hnd old hs hcl).2 o1 cs1 s1 h1
  exact ⟨o2, cs2, s2, h2, hpo, hsc, hes⟩

open Pool in
/-- **Tie to the protocol, checkout** (variant without collector). -/
theorem checkout_schedule_independent (f : Option (Node κ) → Child → Except Err (Node κ))
    {D k : Nat} {cs : List Child} {st : TState Child}
    (hrun : TSteps D (tinit cs false) k st) (hterm : Terminal st.p) (hok : st.p.failed = false)
    (hnd : (cs.map (·.name)).Nodup) (es : List (Name × Node κ)) :
    ExRel (fun es1 es2 => ∀ nm, alookup es1 nm = alookup es2 nm)
      (checkoutChildren f es st.done) (checkoutChildren f es cs) := by
  have hp := (terminal_done_perm hrun hterm hok).1
  exact checkoutChildren_perm f hp ((hp.map _).nodup_iff.2 hnd) es

open Pool in
/-- **Tie to the protocol, status**: one run for the manifest entries, one for the untracked
entries of the listing (`dirArtifactStatus` calls `concurrentStatus` twice). -/
theorem status_schedule_independent [DecidableEq κ] (ctx : Ctx κ) (s : Store κ)
    (fd : Bytes → Digest → Option (Node κ) → Except Err Status) (base : Status) (q : Quick)
    (noRec : Bool) (es : List (Name × Node κ)) (cs : List Child) {D k1 k2 : Nat}
    {st1 : TState Child} {st2 : TState (Name × Node κ)}
    (hrun1 : TSteps D (tinit cs true) k1 st1) (hterm1 : Terminal st1.p)
    (hok1 : st1.p.failed = false)
    (hrun2 : TSteps D (tinit (untrackedOf noRec es cs) true) k2 st2) (hterm2 : Terminal st2.p)
    (hok2 : st2.p.failed = false) :
    ExRel (StatusRel (fun x y => x = y))
      (dirBody ctx s fd (fun _ => st1.done) (fun _ => st2.done) base q noRec es cs)
      (dirBody ctx s fd id id base q noRec es cs) := by
  have hp1 := (terminal_done_perm hrun1 hterm1 hok1).1
  have hp2 := (terminal_done_perm hrun2 hterm2 hok2).1
  exact dirBody_rel ctx s (fun x y => x = y) (fun _ _ => rfl) (fun a b h => by rw [h])
    (fun nm sm cu => ExRel.refl (fun _ => rfl) _) base q noRec (List.Perm.refl es)
    (fun _ => rfl) cs hp1 (List.Perm.refl _) hp2 (List.Perm.refl _)

/-- … and conversely every permutation of the entries is the completion order of some run that
returns without error: quantifying over schedules is quantifying over *all* permutations. -/
theorem every_order_is_a_schedule (D : Nat) {ι : Type} (es σ : List ι) (coll : Bool)
    (hp : σ.Perm es) :
    ∃ k st, Pool.TSteps D (Pool.tinit es coll) k st ∧ Pool.Terminal st.p ∧
      st.p.failed = false ∧ st.done = σ :=
  Pool.every_order_occurs D es σ coll hp

/-! ## 6. non-vacuity -/

namespace ExampleOrder
open Dud.Example

def X : K := .raw "a"

/-- the sub-directory, and the same with its listing reversed -/
def sub1 : Node K := .dir [([3], .file (.raw "g")), ([4], .dir [])]
def sub2 : Node K := .dir [([4], .dir []), ([3], .file (.raw "g"))]

/-- four entries: two files with identical bytes, a sub-directory (with an empty directory in
it), another file -/
def dirA : List (Name × Node K) :=
  [([1], .file X), ([2], sub1), ([5], .file X), ([6], .file (.raw "b"))]

/-- the same entries in the opposite order -/
def dirB : List (Name × Node K) :=
  [([6], .file (.raw "b")), ([5], .file X), ([2], sub1), ([1], .file X)]

/-- … and with the listing of the sub-directory reversed as well -/
def dirC : List (Name × Node K) :=
  [([6], .file (.raw "b")), ([5], .file X), ([2], sub2), ([1], .file X)]

theorem dirA_perm_dirB : dirA.Perm dirB := (List.reverse_perm dirA).symm

theorem treeA_perm_treeC : TreePerm (.dir dirA) (.dir dirC) := by
  refine TreePerm.dir (mid := [([1], .file X), ([2], sub2), ([5], .file X), ([6], .file (.raw "b"))])
    ?_ (List.reverse_perm _).symm
  refine EntriesRel.cons (TreePerm.refl _) (EntriesRel.cons ?_ (EntriesRel.refl _))
  exact TreePerm.of_perm (List.Perm.swap _ _ _)

/-- the hypotheses of the commit theorems hold for the example (empty cache, first commit) -/
theorem dirA_hyps :
    Good ctx ∧ Consistent ctx ([] : Store K) ∧ (dirA.map (·.1)).Nodup ∧
      (Node.dir dirA).nodupNames = true ∧ closedList ctx [] false dirA [] = true ∧
      closedNode ctx [] (.dir dirA) ⟨[7], "", true⟩ = true ∧
      (Node.dir dirA).linksResolve ([] : Store K) = true :=
  ⟨good, Consistent.of_le_nil ctx, by decide +kernel, by decide +kernel, by decide +kernel,
    by decide +kernel, by decide +kernel⟩

def isOk {α : Type} : Except Err α → Bool
  | .ok _ => true
  | .error _ => false

theorem dirA_entries_ok (strat : Strat) :
    isOk (commitEntries ctx strat false dirA [] []) = true := by
  cases strat <;> decide +kernel

theorem dirA_node_ok (strat : Strat) :
    isOk (commitNode ctx strat (.dir dirA) ⟨[7], "", true⟩ []) = true := by
  cases strat <;> decide +kernel

/-- the theorem applied to the two orders: both commits succeed, same manifest, same cache -/
example (strat : Strat) :
    ∃ o1 cs1 s1 o2 cs2 s2, commitEntries ctx strat false dirA [] [] = .ok (o1, cs1, s1) ∧
      commitEntries ctx strat false dirB [] [] = .ok (o2, cs2, s2) ∧ o1.Perm o2 ∧
      sortChildren cs1 = sortChildren cs2 ∧ Store.eqv ctx s1 s2 := by
  cases h : commitEntries ctx strat false dirA [] [] with
  | error e => have := dirA_entries_ok strat; rw [h] at this; cases this
  | ok v =>
    obtain ⟨o1, cs1, s1⟩ := v
    obtain ⟨o2, cs2, s2, h2, hp, _, _, _, hsc, _, he⟩ :=
      (commitEntries_order_independent good strat false dirA_perm_dirB dirA_hyps.2.2.1 []
        dirA_hyps.2.1 dirA_hyps.2.2.2.2.1).2 o1 cs1 s1 h
    exact ⟨o1, cs1, s1, o2, cs2, s2, rfl, h2, hp, hsc, he⟩

/-- the recorded child records of a commit outcome (the manifest), for evaluation -/
def manifestOf (r : Except Err (List (Name × Node K) × List Child × Store K)) :
    Option (List Child) :=
  match r with
  | .error _ => none
  | .ok (_, cs, _) => some (sortChildren cs)

/-- the same by evaluation (kernel): identical manifests, the two equal files share one checksum -/
example : manifestOf (commitEntries ctx .link false dirA [] []) =
    manifestOf (commitEntries ctx .link false dirB [] []) := by decide +kernel

example : manifestOf (commitEntries ctx .copy false dirA [] []) =
    manifestOf (commitEntries ctx .link false dirB [] []) := by decide +kernel

example : (manifestOf (commitEntries ctx .link false dirA [] [])).map
    (fun cs => cs.map (fun c => (c.name, c.isDir))) =
    some [([1], false), ([2], true), ([5], false), ([6], false)] := by decide +kernel

/-- listings reversed at both levels: the same checksum, by the theorem … -/
example (strat : Strat) :
    ∃ n1 c1 s1 n2 s2, commitNode ctx strat (.dir dirA) ⟨[7], "", true⟩ [] = .ok (n1, c1, s1) ∧
      commitNode ctx strat (.dir dirC) ⟨[7], "", true⟩ [] = .ok (n2, c1, s2) ∧
      TreePerm n1 n2 ∧ Store.eqv ctx s1 s2 := by
  cases h : commitNode ctx strat (.dir dirA) ⟨[7], "", true⟩ [] with
  | error e => have := dirA_node_ok strat; rw [h] at this; cases this
  | ok v =>
    obtain ⟨n1, c1, s1⟩ := v
    obtain ⟨n2, s2, h2, hp, he⟩ :=
      (commit_fresh_order_independent good strat treeA_perm_treeC dirA_hyps.2.2.2.1 [7] true
        dirA_hyps.2.1 dirA_hyps.2.2.2.2.2.2).2 n1 c1 s1 h
    exact ⟨n1, c1, s1, n2, s2, rfl, h2, hp, he⟩

/-- … and by evaluation: the child records (with the checksum of the sub-directory) agree -/
example : manifestOf (commitEntries ctx .link false dirA [] []) =
    manifestOf (commitEntries ctx .copy false dirC [] []) := by decide +kernel

/-- a small tree for the recommit example -/
def small : Node K := .dir [([1], .file X), ([2], .dir [])]

/-- a recommit on top of the manifest of the first commit: the stability hypothesis holds there
too (every recorded checksum is present), for the tree left by the commit and for the original -/
example :
    (match commitNode ctx .link small ⟨[7], "", true⟩ [] with
      | .ok (n', c', s') => closedNode ctx s' n' c' && closedNode ctx s' small c'
      | .error _ => false) = true := by decide +kernel

/-- the cache left by the commit of the example is reference-closed, and the workspace left
behind has no dangling link: the hypotheses of `commit_closed_cache_order_independent` hold for the
next commit, whatever is edited in between (as long as no link is left dangling) -/
example :
    (match commitNode ctx .link (.dir dirA) ⟨[7], "", true⟩ [] with
      | .ok (n', c', s') => storeClosedB ctx s' && n'.linksResolve s' && s'.has c'.sum
      | .error _ => false) = true := by decide +kernel

/-! ### the hypotheses cannot be dropped: order-dependent outcomes -/

/-- **Order matters (1): a dangling link into the cache.**  `l` is a link to the cache path of the
bytes of `f`, which are not in the cache (yet).  If `f` is committed first the object exists when
`l` is looked at, and the commit succeeds; if `l` comes first the commit fails ("expected regular
file, got link").  In Go: `checksumOfCacheLink` stats the link target while a sibling worker may or
may not have moved the file there. -/
theorem order_matters_dangling_link :
    isOk (commitEntries ctx .copy false
      [([1], .file X), ([2], .link (.obj (ctx.H X)))] [] []) = true ∧
    isOk (commitEntries ctx .copy false
      [([2], .link (.obj (ctx.H X))), ([1], .file X)] [] []) = false ∧
    closedList ctx [] false [([1], .file X), ([2], .link (.obj (ctx.H X)))] [] = false := by
  decide +kernel

/-- **Order matters (2): a recorded directory checksum that is missing from the cache.**  The old
manifest records for the sub-directory `d` a checksum that is not in the cache but happens to be the
checksum of the file `f` (not a manifest).  `d` first: no old manifest is found, the commit
succeeds.  `f` first: the object is there when `d` is looked at, is read as a manifest, and the
commit fails with `badManifest`. -/
theorem order_matters_missing_manifest :
    isOk (commitEntries ctx .copy false
      [([2], .dir []), ([1], .file X)] [⟨[2], ctx.H X, true⟩] []) = true ∧
    isOk (commitEntries ctx .copy false
      [([1], .file X), ([2], .dir [])] [⟨[2], ctx.H X, true⟩] []) = false ∧
    closedList ctx [] false [([2], .dir []), ([1], .file X)] [⟨[2], ctx.H X, true⟩] = false := by
  decide +kernel

/-- a context that rejects the name `9` -/
def ctxBad : Ctx K := { ctx with nameOK := fun nm => nm != [9] }

/-- **The error value depends on the order** (both orders fail, as they must): the entry with the
rejected name gives `invalid`, the FIFO gives `notRegular`; the first failing entry in processing
order is the one reported. -/
theorem error_value_depends_on_order :
    commitEntries ctxBad .link false [([9], .file X), ([1], .other)] [] [] = .error .invalid ∧
    commitEntries ctxBad .link false [([1], .other), ([9], .file X)] [] [] = .error .notRegular := by
  constructor <;> rfl

/-! ### checkout and status of the committed example, entries processed in reverse order -/

/-- reverse order in every directory -/
def revσ : Nat → Child → List Child → List Child := fun _ _ cs => cs.reverse
def revσ' : Nat → Bytes → List Child → List Child := fun _ _ cs => cs.reverse
def revτ : Nat → Bytes → List (Name × Node K) → List (Name × Node K) := fun _ _ es => es.reverse

/-- the cache after committing the example lists every name once per manifest, both checkouts
succeed, and (by the theorem) restore trees that are equal as maps at every level -/
example :
    ∃ n c s', commitNode ctx .link (.dir dirA) ⟨[7], "", true⟩ [] = .ok (n, c, s') ∧
      ManifestsNodup ctx s' ∧
      ∀ cur, ExRel MapEq (checkoutNodeS ctx .copy s' revσ 3 cur c)
        (checkoutNode ctx .copy s' 3 cur c) := by
  have hm : (match commitNode ctx .link (.dir dirA) ⟨[7], "", true⟩ [] with
      | .ok (_, _, s') => manifestsNodupB ctx s'
      | .error _ => false) = true := by decide +kernel
  cases h : commitNode ctx .link (.dir dirA) ⟨[7], "", true⟩ [] with
  | error e => rw [h] at hm; cases hm
  | ok v =>
    obtain ⟨n, c, s'⟩ := v
    rw [h] at hm
    have hm' := manifestsNodup_of_check hm
    exact ⟨n, c, s', rfl, hm', fun cur =>
      checkoutNodeS_mapEq ctx .copy s' revσ (fun _ _ cs => List.reverse_perm cs) hm' 3 cur c⟩

/-- by evaluation on the small tree: both orders succeed -/
example :
    (match commitNode ctx .link small ⟨[7], "", true⟩ [] with
      | .ok (_, c, s') =>
        isOk (checkoutNodeS ctx .copy s' revσ 2 none c) && isOk (checkoutNode ctx .copy s' 2 none c)
      | .error _ => false) = true := by decide +kernel

/-- status of the committed small tree: up to date in both orders (evaluation), and related by
`StatusPerm` for every tree and cache (theorem) -/
example :
    (match commitNode ctx .link small ⟨[7], "", true⟩ [] with
      | .ok (n, c, s') =>
        (match dirStatusS ctx s' revσ' revτ 2 [7] false c.sum (some n),
               dirStatus ctx s' 2 [7] false c.sum (some n) with
         | .ok a, .ok b => a.cm && b.cm && a.children.length == 2 && b.children.length == 2
         | _, _ => false)
      | .error _ => false) = true := by decide +kernel

example (s : Store K) (fuel : Nat) (name : Bytes) (noRec : Bool) (sum : Digest)
    (cur : Option (Node K)) :
    ExRel StatusPerm (dirStatusS ctx s revσ' revτ fuel name noRec sum cur)
      (dirStatus ctx s fuel name noRec sum cur) :=
  dirStatusS_perm ctx s revσ' revτ (fun _ _ l => List.reverse_perm l)
    (fun _ _ l => List.reverse_perm l) fuel name noRec sum cur

/-! ### the protocol -/

/-- counters at the end of the run below -/
def endP : Pool.P :=
  { n := 2, coll := true, fed := 2, got := 2, idle := 0, busy := 0, spawned := 2, ded := 0,
    exited := 2, loopDone := true, failed := false, feedStop := false, collStop := false }

open Pool in
/-- two entries, two dedicated workers; the worker holding the *second* entry finishes first:
an explicit run of 9 steps ending in a terminal state with `done = [20, 10]` -/
example :
    ∃ st : TState Nat, TSteps 2 (tinit [10, 20] true) 9 st ∧ Terminal st.p ∧
      st.p.failed = false ∧ st.done = [20, 10] := by
  refine ⟨⟨endP, [], [], [20, 10], []⟩, ?_, ?_, ?_, rfl⟩
  · refine .cons (TStep.loc .spawnD (by decide) rfl (by decide)) ?_
    refine .cons (TStep.loc .spawnD (by decide) rfl (by decide)) ?_
    refine .cons (TStep.take 10 [20] (by decide) rfl) ?_
    refine .cons (TStep.take 20 [] (by decide) rfl) ?_
    refine .cons (TStep.finish .deliver [] 20 [10] (by decide) rfl rfl) ?_
    refine .cons (TStep.finish .deliver [] 10 [] (by decide) rfl rfl) ?_
    refine .cons (TStep.loc .loopEndReady (by decide) rfl (by decide)) ?_
    refine .cons (TStep.loc .exitD (by decide) rfl (by decide)) ?_
    refine .cons (TStep.loc .exitD (by decide) rfl (by decide)) ?_
    exact .refl
  · decide
  · rfl

open Pool in
/-- the example directory: there is a run of the protocol whose completion order is `dirB` (the
reverse of the listing), and for every such run the commit has the sequential outcome -/
example (strat : Strat) :
    ∃ k st, TSteps 1 (tinit dirA true) k st ∧ Terminal st.p ∧ st.p.failed = false ∧
      st.done = dirB ∧
      CommitEq ctx (commitEntries ctx strat false st.done [] [])
        (commitEntries ctx strat false dirA [] []) := by
  obtain ⟨k, st, hrun, hterm, hok, hdone⟩ :=
    every_order_is_a_schedule 1 dirA dirB true dirA_perm_dirB.symm
  exact ⟨k, st, hrun, hterm, hok, hdone,
    commit_schedule_independent good strat false hrun hterm hok [] dirA_hyps.2.1
      dirA_hyps.2.2.2.2.1⟩

end ExampleOrder
/-! ## 7. axioms -/

#print axioms commit_entry_frame
#print axioms commitEntries_order_independent
#print axioms commitEntries_order_independent'
#print axioms commitNode_dir_order_independent
#print axioms commitNode_tree_order_independent
#print axioms commitArt_order_independent
#print axioms commit_fresh_order_independent
#print axioms commit_closed_cache_order_independent
#print axioms storeClosed_of_check
#print axioms checkoutChildren_order_independent
#print axioms checkoutNode_order_independent
#print axioms checkoutNode_order_independent_deref
#print axioms checkoutNodeS_id
#print axioms childStatuses_order_independent
#print axioms dirStatus_listing_order_independent
#print axioms dirStatus_order_independent
#print axioms StatusPerm.fields
#print axioms commitEntries_error_order_independent
#print axioms checkoutChildren_error_order_independent
#print axioms commit_schedule_independent
#print axioms commit_schedule_manifest
#print axioms checkout_schedule_independent
#print axioms status_schedule_independent
#print axioms every_order_is_a_schedule
#print axioms Pool.terminal_done_perm
#print axioms Pool.every_order_occurs
#print axioms Pool.tstep_of_step
#print axioms commitNode_frame
#print axioms commitEntries_frame
#print axioms foldE_perm
#print axioms foldE_ok_iff
#print axioms commitEntries_perm
#print axioms commitNode_treePerm
#print axioms commitArt_treePerm
#print axioms checkoutChildren_perm_rel
#print axioms checkoutNodeS_mapEq
#print axioms dirBody_rel
#print axioms dirStatusS_perm
#print axioms dirStatus_listing_perm
#print axioms manifestsNodup_of_check
#print axioms ExampleOrder.dirA_hyps
#print axioms ExampleOrder.order_matters_dangling_link
#print axioms ExampleOrder.order_matters_missing_manifest
#print axioms ExampleOrder.error_value_depends_on_order

end Dud
