import DudModel.Lemmas.CrashCmd
import DudModel.Props.C03meta
/-!
# C03 at the level of the whole command: killing `dud commit` at any instant

`DudModel/SysCmd.lean` defines `cmdCommitT`: the logical `cmdCommit` TOGETHER WITH the list of
file-system mutating calls of the whole command (lock, one `LocalCache.Commit` trace per plain input and
per output of every stage in traversal order, the stage-file rewrites, unlock).  This file proves, for
EVERY prefix of that list (the process is killed after the k-th call, for every k):

* `cmdCommitT_refines` — erasing the trace gives exactly `cmdCommit` (nothing about the logical result
  changes, so every theorem about `cmdCommit` applies);
* `cmdCommitT_crash_safe` — **no data is lost and no object is torn**: every byte sequence that was in
  a regular file of the workspace before the command (ALL of them, in particular those below the
  outputs of the stages in scope: `cmdCommitT_crash_safe_below`) is still retrievable — at its path,
  through a link at its path, or as the cache object named by its digest — and whatever sits under a
  digest name is a complete file with exactly those bytes;
* `cmdCommitT_crash_safe_from` — the same from ANY safe state related to the logical workspace (not only
  the canonical abstraction `fsOfWorld`); `commitActT_crash_safe` — the artifact phase of ONE stage;
* `cmdCommitT_stage_files_atomic` — **stage files are never torn**: every stage file holds either what
  it held before the command or the complete encoding of the stage in the final index;
* `cmdCommitT_lock_window` — the lock file exists exactly strictly between the first and the last call;
* `cmdCommitT_final`, `cmdCommitT_stage_files_final` — after the complete trace the regular files of the
  final logical workspace are in place, no temp file is left (cache temp names, stage temp names), the lock
  is gone, and the stage file of every committed stage holds the complete new encoding.

Hypotheses (all explicit):
* `Good c.cfg.ctx` — collision-free hash (used where a rename lands on an existing object);
* `hemp` — the trace generator's "is empty" test is sound;
* `uniqNode w.ws` — entry names are pairwise distinct in every directory of the workspace (true of any
  real directory tree; follows from `Node.sorted`, `uniqNode_of_sorted`);
* `Consistent c.cfg.ctx w.store` — every object of the cache sits under the digest of its bytes;
* the regenerated fact `stage_write_fact` (`stage.ToFile` = temp file + rename) for the stage files;
* a successful run (`cmdCommitT … = .ok …`): a run that fails at the logical level has no trace in this
  model (its real trace is a prefix of the calls before the failing check).
NO hypothesis on the index is needed: outputs may overlap, a path may be committed twice, the same
plain input may belong to several stages — the argument re-establishes after every artifact the relation
`Rel` between the CURRENT logical workspace and the file system, whatever was committed before.

Not covered: the position of the stage-file writes with several targets (see `SysCmd.lean`; the
theorems hold for any position, the proofs use only that these calls touch metadata paths); stage files
and `.dud` live in path classes of their own (`P.stageFile`, `P.lock` …), i.e. no artifact contains a
stage file; one worker (calls of one artifact are sequential; `C03inter.lean` treats interleavings
inside one artifact); failing runs; `fsync`-level durability.
-/
namespace Dud.Sys
open Dud
variable {κ : Type}

/-! ## refinement -/

/-- **Erasing the trace of the traced command gives the logical command**, segmented form. -/
theorem cmdCommitSegs_refines (c : CmdCfg κ) (strat : Strat) (targets : List Bytes) (w : World κ) :
    (cmdCommitSegs c strat targets w).map (·.1) = cmdCommit c.cfg strat targets w :=
  cmdCommitSegs_erase c strat targets w

/-- **Erasing the trace of `cmdCommitT` gives exactly `cmdCommit`.** -/
theorem cmdCommitT_refines (c : CmdCfg κ) (strat : Strat) (targets : List Bytes) (w : World κ) :
    (cmdCommitT c strat targets w).map (·.1) = cmdCommit c.cfg strat targets w :=
  cmdCommitT_erase c strat targets w

/-- in particular: same success, same final world -/
theorem cmdCommitT_ok {c : CmdCfg κ} {strat : Strat} {targets : List Bytes} {w w' : World κ}
    {calls : List (Call κ)} (h : cmdCommitT c strat targets w = .ok (w', calls)) :
    cmdCommit c.cfg strat targets w = .ok w' :=
  (map_fst_eq (cmdCommitT_refines c strat targets w)).2 _ _ h

/-- … and conversely a successful logical command has a trace -/
theorem cmdCommitT_of_ok {c : CmdCfg κ} {strat : Strat} {targets : List Bytes} {w w' : World κ}
    (h : cmdCommit c.cfg strat targets w = .ok w') :
    ∃ calls, cmdCommitT c strat targets w = .ok (w', calls) := by
  have hr := cmdCommitT_refines c strat targets w
  rw [h] at hr
  cases hT : cmdCommitT c strat targets w with
  | error e => rw [hT] at hr; cases hr
  | ok v =>
    obtain ⟨w1, calls⟩ := v
    rw [hT] at hr
    simp only [Except.map, Except.ok.injEq] at hr
    subst hr
    exact ⟨calls, rfl⟩

/-- the flat trace is the segmented one, flattened -/
theorem cmdCommitT_eq_segs (c : CmdCfg κ) (strat : Strat) (targets : List Bytes) (w : World κ) :
    cmdCommitT c strat targets w = (cmdCommitSegs c strat targets w).map (fun p => (p.1, p.2.calls)) := by
  unfold cmdCommitT
  cases cmdCommitSegs c strat targets w with
  | error e => rfl
  | ok v => rfl

/-! ## the regenerated fact about stage files -/

/-- the obligation on the Go code: `stage.ToFile` goes through a temp file and `os.Rename`
(the same fact as `meta_write_fact` of `C03meta.lean`) -/
theorem stage_write_fact : stageAtomic = true := meta_write_fact.1

/-! ## the structure of a successful run -/

/-- lock and unlock are harmless for the cache discipline -/
theorem lockCalls_harmless : Harmless (Call.createExcl (κ := κ) .lock) ∧ Harmless (Call.unlink (κ := κ) .lock) := by
  constructor <;> simp [Harmless, callWrites, callPaths, P.isObj]

/-- Everything the command-level theorems need about a successful run, in one place, FROM ANY safe
state `fs0` related to the logical workspace (regular files in place, cache temp names free): `tracked` is
any list of recorded (workspace path, bytes) for which `fs0` is safe. -/
theorem cmdCommitT_run_from {c : CmdCfg κ} {strat : Strat} (g : Good c.cfg.ctx) {emp : κ}
    (hemp : ∀ x, c.isEmp x = true → x = emp) {targets : List Bytes} {w w' : World κ}
    {calls : List (Call κ)} {tracked : List (P × κ)} (htw : TrackedWs tracked) {fs0 : FS κ}
    (hs0 : Safe c.cfg.ctx tracked fs0) (hr0 : Rel w.ws fs0)
    (h : cmdCommitT c strat targets w = .ok (w', calls)) :
    ∃ arts : List (List (Call κ)),
      calls = [.createExcl .lock] ++ arts.flatten ++
        (w'.done.reverse.map (stageWriteCalls c w'.idx)).flatten ++ [.unlink .lock] ∧
      TInv c emp tracked (replay emp fs0 [.createExcl .lock]) (w', arts) ∧
      AllowedTrace c.cfg.ctx emp tracked fs0 calls := by
  obtain ⟨arts, hpt, rfl⟩ := cmdCommitT_ok_inv h
  have hlock : AllowedTrace c.cfg.ctx emp tracked fs0 [.createExcl .lock] :=
    allowedTrace_of_harmless htw emp _ (by intro x hx; simp at hx; subst hx; exact lockCalls_harmless.1) _
  have hsb := hlock.safe_final g hs0
  have hrel : Rel (fresh w).ws (replay emp fs0 [.createExcl .lock]) :=
    hr0.frame emp _ (by
      intro x hx p hp
      simp at hx; subst hx
      simp [callWrites, callPaths] at hp; subst hp
      simp)
  have hinit : TInv c emp tracked (replay emp fs0 [.createExcl .lock])
      (fresh w, []) := ⟨trivial, hrel, by simp⟩
  have hinv := cmd_traversal_inv g htw hemp hsb _ _ _ hinit hpt
  refine ⟨arts, rfl, hinv, ?_⟩
  refine AllowedTrace.append (AllowedTrace.append (AllowedTrace.append hlock hinv.allowed) ?_) ?_
  · exact allowedTrace_of_harmless htw emp _
      (fun x hx => harmless_of_metaOnly (metaPhase_metaOnly c w'.idx _ x hx)) _
  · exact allowedTrace_of_harmless htw emp _
      (by intro x hx; simp at hx; subst hx; exact lockCalls_harmless.2) _

/-- … from the abstraction `fsOfWorld` of the world, recording ALL regular files of the workspace -/
theorem cmdCommitT_run {c : CmdCfg κ} {strat : Strat} (g : Good c.cfg.ctx) {emp : κ}
    (hemp : ∀ x, c.isEmp x = true → x = emp) {targets : List Bytes} {w w' : World κ}
    {calls : List (Call κ)} (hu : uniqNode w.ws) (hc : Consistent c.cfg.ctx w.store)
    (h : cmdCommitT c strat targets w = .ok (w', calls)) :
    ∃ arts : List (List (Call κ)),
      calls = [.createExcl .lock] ++ arts.flatten ++
        (w'.done.reverse.map (stageWriteCalls c w'.idx)).flatten ++ [.unlink .lock] ∧
      TInv c emp (trackedOf [] w.ws) (replay emp (fsOfWorld c w) [.createExcl .lock]) (w', arts) ∧
      AllowedTrace c.cfg.ctx emp (trackedOf [] w.ws) (fsOfWorld c w) calls :=
  cmdCommitT_run_from g hemp (trackedOf_ws [] w.ws) (fsOfWorld_safe c w hu hc) (Rel.init c w hu) h

/-! ## no data lost, no object torn -/

/-- **Command-level crash safety from ANY safe state.**  `fs0` is any file system that is `Safe` for the
recorded list `tracked` (workspace paths) and in which the regular files of the logical workspace are in
place and the cache temp names free (`Rel`) — stale temp files elsewhere, foreign objects, an existing lock
… are all allowed.  After every prefix of the calls the state is `Safe` for `tracked`. -/
theorem cmdCommitT_crash_safe_from {c : CmdCfg κ} {strat : Strat} (g : Good c.cfg.ctx) {emp : κ}
    (hemp : ∀ x, c.isEmp x = true → x = emp) {targets : List Bytes} {w w' : World κ}
    {calls : List (Call κ)} {tracked : List (P × κ)} (htw : TrackedWs tracked) {fs0 : FS κ}
    (hs0 : Safe c.cfg.ctx tracked fs0) (hr0 : Rel w.ws fs0)
    (h : cmdCommitT c strat targets w = .ok (w', calls)) :
    ∀ k, Safe c.cfg.ctx tracked (replay emp fs0 (calls.take k)) := by
  obtain ⟨arts, -, -, hall⟩ := cmdCommitT_run_from g hemp htw hs0 hr0 h
  exact hall.prefixSafe g hs0

/-- **The artifacts of ONE stage** (plain inputs with `skip`, then all outputs — overlapping or not), from
any safe state related to the logical workspace: every prefix is safe, and afterwards the state is related
to the new logical workspace, so the next stage can go on. -/
theorem commitActT_crash_safe {c : CmdCfg κ} {strat : Strat} (g : Good c.cfg.ctx) {emp : κ}
    (hemp : ∀ x, c.isEmp x = true → x = emp) {tracked : List (P × κ)} (htw : TrackedWs tracked)
    {sp : Bytes} {w w' : World κ} {segs : List (List (Call κ))}
    (h : commitActT c strat sp w = .ok (w', segs))
    {fs : FS κ} (hs : Safe c.cfg.ctx tracked fs) (hr : Rel w.ws fs) :
    (∀ k, Safe c.cfg.ctx tracked (replay emp fs (segs.flatten.take k))) ∧
      Rel w'.ws (replay emp fs segs.flatten) := by
  obtain ⟨ha, hr', -⟩ := commitActT_step g htw hemp h hs hr
  exact ⟨ha.prefixSafe g hs, hr'⟩

/-- **Command-level crash safety of `dud commit`.**  For every world with duplicate-free entry names and
a consistent cache, if the traced command succeeds with the call list `calls`, then after EVERY prefix
of `calls` (kill after the k-th call) the file system — starting from the abstraction `fsOfWorld` of the
world — is `Safe` for ALL regular files the workspace held before the command: each recorded byte
sequence is retrievable at its path, through a link at its path, or as the cache object named by its
digest, and nothing incomplete or foreign sits under a digest name. -/
theorem cmdCommitT_crash_safe {c : CmdCfg κ} {strat : Strat} (g : Good c.cfg.ctx) {emp : κ}
    (hemp : ∀ x, c.isEmp x = true → x = emp) {targets : List Bytes} {w w' : World κ}
    {calls : List (Call κ)} (hu : uniqNode w.ws) (hc : Consistent c.cfg.ctx w.store)
    (h : cmdCommitT c strat targets w = .ok (w', calls)) :
    ∀ k, Safe c.cfg.ctx (trackedOf [] w.ws) (replay emp (fsOfWorld c w) (calls.take k)) := by
  obtain ⟨arts, -, -, hall⟩ := cmdCommitT_run g hemp hu hc h
  exact hall.prefixSafe g (fsOfWorld_safe c w hu hc)

/-- fewer recorded files, same guarantee -/
theorem Safe.mono {ctx : Ctx κ} {t t' : List (P × κ)} {fs : FS κ} (h : Safe ctx t fs)
    (hsub : ∀ p ∈ t', p ∈ t) : Safe ctx t' fs :=
  ⟨fun p hp => h.1 p (hsub p hp), h.2⟩

/-- the regular files below a path of the workspace are regular files of the workspace -/
theorem trackedOpt_sub_tracked {ws : Node κ} (hu : uniqNode ws) (pre : List Name) :
    ∀ p ∈ trackedOpt pre (getPath ws pre), p ∈ trackedOf [] ws := by
  intro p hp
  cases hg : getPath ws pre with
  | none => rw [hg] at hp; simp [trackedOpt] at hp
  | some nd =>
    rw [hg] at hp
    obtain ⟨r, hpr, hgr⟩ := getPath_of_tracked nd pre p (uniqNode_getPath pre ws nd hu hg) hp
    have : getPath ws (pre ++ r) = some (.file p.2) := by rw [getPath_append, hg]; exact hgr
    have := tracked_of_getPath (pre ++ r) ws [] p.2 this
    simp only [List.nil_append] at this
    rw [← hpr] at this
    exact this

/-- the recorded files of the brief: (path, bytes) of the regular files below the given artifact paths
(e.g. the outputs of the stages in scope) -/
def trackedBelow (ws : Node κ) (arts : List Art) : List (P × κ) :=
  arts.flatMap (fun a => trackedOpt (Path.comps a.path) (getPath ws (Path.comps a.path)))

/-- **… in the form of the brief**: `tracked` = the regular files below any list of artifacts, e.g. the
outputs of the stages in scope. -/
theorem cmdCommitT_crash_safe_below {c : CmdCfg κ} {strat : Strat} (g : Good c.cfg.ctx) {emp : κ}
    (hemp : ∀ x, c.isEmp x = true → x = emp) {targets : List Bytes} {w w' : World κ}
    {calls : List (Call κ)} (hu : uniqNode w.ws) (hc : Consistent c.cfg.ctx w.store)
    (h : cmdCommitT c strat targets w = .ok (w', calls)) (arts : List Art) :
    ∀ k, Safe c.cfg.ctx (trackedBelow w.ws arts) (replay emp (fsOfWorld c w) (calls.take k)) := by
  intro k
  refine (cmdCommitT_crash_safe g hemp hu hc h k).mono (fun p hp => ?_)
  simp only [trackedBelow, List.mem_flatMap] at hp
  obtain ⟨a, -, hpa⟩ := hp
  exact trackedOpt_sub_tracked hu _ p hpa

/-! ## stage files -/

theorem replay_take_append (emp : κ) (fs : FS κ) (l1 l2 : List (Call κ)) (k : Nat) :
    replay emp fs ((l1 ++ l2).take k) =
      if k ≤ l1.length then replay emp fs (l1.take k)
      else replay emp (replay emp fs l1) (l2.take (k - l1.length)) := by
  split
  · rename_i hk; rw [take_append_le _ _ hk]
  · rename_i hk; rw [take_append_ge _ _ (by omega), replay_append]

/-- **Stage files are never torn.**  After every prefix of the calls of a successful `dud commit`, every
stage file holds either exactly what it held before the command (for a stage `sp` of the index: the
encoding of the stage the index held, `fsOfWorld_get_stageFile`; nothing for a path outside the index) or
the complete encoding of the stage the FINAL index holds. -/
theorem cmdCommitT_stage_files_atomic {c : CmdCfg κ} {strat : Strat} (g : Good c.cfg.ctx) {emp : κ}
    (hemp : ∀ x, c.isEmp x = true → x = emp) {targets : List Bytes} {w w' : World κ}
    {calls : List (Call κ)} (hu : uniqNode w.ws) (hc : Consistent c.cfg.ctx w.store)
    (h : cmdCommitT c strat targets w = .ok (w', calls)) (sp : Bytes) :
    ∀ k, (replay emp (fsOfWorld c w) (calls.take k)).get (.stageFile sp)
          = (fsOfWorld c w).get (.stageFile sp) ∨
      ∃ stg m, alookup w'.idx sp = some stg ∧
        (replay emp (fsOfWorld c w) (calls.take k)).get (.stageFile sp)
          = some (.file (c.encStage stg) m) := by
  obtain ⟨arts, rfl, hinv, -⟩ := cmdCommitT_run g hemp hu hc h
  intro k
  -- the calls before the metadata phase write no metadata path except the lock
  have hpre : ∀ x ∈ ([Call.createExcl P.lock] ++ arts.flatten : List (Call κ)), ∀ p : P,
      p.isMeta = true → p ≠ .lock → p ∉ callWrites x := by
    intro x hx p hp hpl
    rcases List.mem_append.1 hx with hx | hx
    · simp at hx; subst hx
      simp [callWrites, callPaths]; exact hpl
    · exact cacheOnly_not_writes (hinv.cacheOnly x hx) hp
  have hassoc : [Call.createExcl P.lock] ++ arts.flatten ++
      (w'.done.reverse.map (stageWriteCalls c w'.idx)).flatten ++ [Call.unlink P.lock] =
      ([Call.createExcl P.lock] ++ arts.flatten) ++
        ((w'.done.reverse.map (stageWriteCalls c w'.idx)).flatten ++ [Call.unlink P.lock]) := by
    simp [List.append_assoc]
  rw [hassoc, replay_take_append]
  split
  · left
    exact replay_get_frame emp _ _ _
      (fun x hx => hpre x (List.mem_of_mem_take hx) _ rfl (by simp))
  · -- state at the beginning of the metadata phase
    have h1 : (replay emp (fsOfWorld c w) ([Call.createExcl P.lock] ++ arts.flatten)).get (.stageFile sp)
        = (fsOfWorld c w).get (.stageFile sp) :=
      replay_get_frame emp _ _ _ (fun x hx => hpre x hx _ rfl (by simp))
    have htf : StageTmpFree (replay emp (fsOfWorld c w) ([Call.createExcl P.lock] ++ arts.flatten)) := by
      intro sp'
      rw [replay_get_frame emp _ _ _ (fun x hx => hpre x hx _ rfl (by simp))]
      exact fsOfWorld_get_stageTmp c w sp'
    generalize replay emp (fsOfWorld c w) ([Call.createExcl P.lock] ++ arts.flatten) = fs1 at h1 htf
    generalize k - ([Call.createExcl P.lock] ++ arts.flatten).length = j
    have hmeta := metaPhase_atomic c stage_write_fact hemp w'.idx sp w'.done.reverse fs1
      ((fsOfWorld c w).get (.stageFile sp)) htf (.inl h1)
    rw [replay_take_append]
    split
    · exact hmeta j
    · have hfin := hmeta (w'.done.reverse.map (stageWriteCalls c w'.idx)).flatten.length
      rw [List.take_length] at hfin
      have hfr : ∀ fs2 : FS κ, (replay emp fs2 (([Call.unlink P.lock] : List (Call κ)).take
          (j - (w'.done.reverse.map (stageWriteCalls c w'.idx)).flatten.length))).get (.stageFile sp)
          = fs2.get (.stageFile sp) := by
        intro fs2
        refine replay_get_frame emp _ _ _ (fun x hx => ?_)
        have := List.mem_of_mem_take hx
        simp at this; subst this
        simp [callWrites, callPaths]
      rw [hfr]
      exact hfin

/-! ## the lock -/

/-- the lock file between `create_excl` and `unlink` -/
theorem lock_window (emp : κ) (fs : FS κ) (mid : List (Call κ)) (hfs : fs.get .lock = none)
    (hmid : ∀ x ∈ mid, P.lock ∉ callWrites x) :
    ∀ k, (replay emp fs ((Call.createExcl P.lock :: (mid ++ [Call.unlink P.lock])).take k)).get .lock =
      if 0 < k ∧ k < mid.length + 2 then some (.file emp 0o600) else none := by
  intro k
  cases k with
  | zero => simpa [replay] using hfs
  | succ k =>
    have h1 : (apply emp fs (.createExcl .lock)).get .lock = some (.file emp 0o600) :=
      get_createExcl_self hfs
    simp only [List.take_succ_cons, replay_cons]
    by_cases hk : k ≤ mid.length
    · rw [take_append_le _ _ hk, replay_get_frame emp _ _ _
        (fun x hx => hmid x (List.mem_of_mem_take hx)), h1]
      have : 0 < k + 1 ∧ k + 1 < mid.length + 2 := by omega
      simp [this]
    · rw [List.take_of_length_le (by simp; omega), replay_append]
      have : ¬ (0 < k + 1 ∧ k + 1 < mid.length + 2) := by omega
      simp only [this, if_false]
      exact get_unlink_self (emp := emp)

/-- **The lock file exists exactly strictly between the first and the last call**: absent before the
command and after its last call, present (a regular file created exclusively) after every other
prefix. -/
theorem cmdCommitT_lock_window {c : CmdCfg κ} {strat : Strat} (g : Good c.cfg.ctx) {emp : κ}
    (hemp : ∀ x, c.isEmp x = true → x = emp) {targets : List Bytes} {w w' : World κ}
    {calls : List (Call κ)} (hu : uniqNode w.ws) (hc : Consistent c.cfg.ctx w.store)
    (h : cmdCommitT c strat targets w = .ok (w', calls)) :
    2 ≤ calls.length ∧ calls.head? = some (.createExcl .lock) ∧ calls.getLast? = some (.unlink .lock) ∧
    ∀ k, (replay emp (fsOfWorld c w) (calls.take k)).get .lock =
      if 0 < k ∧ k < calls.length then some (.file emp 0o600) else none := by
  obtain ⟨arts, rfl, hinv, -⟩ := cmdCommitT_run g hemp hu hc h
  have hassoc : [Call.createExcl P.lock] ++ arts.flatten ++
      (w'.done.reverse.map (stageWriteCalls c w'.idx)).flatten ++ [Call.unlink P.lock] =
      Call.createExcl P.lock ::
        ((arts.flatten ++ (w'.done.reverse.map (stageWriteCalls c w'.idx)).flatten) ++
        [Call.unlink P.lock]) := by
    simp [List.append_assoc]
  refine ⟨by simp; omega, by simp, List.getLast?_concat, fun k => ?_⟩
  rw [hassoc]
  have hmid : ∀ x ∈ arts.flatten ++ (w'.done.reverse.map (stageWriteCalls c w'.idx)).flatten,
      P.lock ∉ callWrites x := by
    intro x hx
    rcases List.mem_append.1 hx with hx | hx
    · exact cacheOnly_not_writes (hinv.cacheOnly x hx) rfl
    · simp only [List.mem_flatten, List.mem_map] at hx
      obtain ⟨seg, ⟨sp, -, rfl⟩, hxs⟩ := hx
      intro hmem
      rcases stageWriteCalls_paths c w'.idx sp x hxs _ (callWrites_sub _ _ hmem) with h | h <;> cases h
  rw [lock_window emp _ _ (fsOfWorld_get_lock c w) hmid k]
  have : (Call.createExcl P.lock ::
      ((arts.flatten ++ (w'.done.reverse.map (stageWriteCalls c w'.idx)).flatten) ++
      [Call.unlink P.lock])).length =
      (arts.flatten ++ (w'.done.reverse.map (stageWriteCalls c w'.idx)).flatten).length + 2 := by
    simp; omega
  rw [this]

/-! ## the state after the complete trace -/

/-- **After the last call**: every regular file of the final logical workspace is in place (with its
bytes), the cache temp names and the stage temp names are free, the lock is gone — the file system is
again related to the (new) world as `fsOfWorld` relates them, as far as the next command is concerned. -/
theorem cmdCommitT_final {c : CmdCfg κ} {strat : Strat} (g : Good c.cfg.ctx) {emp : κ}
    (hemp : ∀ x, c.isEmp x = true → x = emp) {targets : List Bytes} {w w' : World κ}
    {calls : List (Call κ)} (hu : uniqNode w.ws) (hc : Consistent c.cfg.ctx w.store)
    (h : cmdCommitT c strat targets w = .ok (w', calls)) :
    Rel w'.ws (replay emp (fsOfWorld c w) calls) ∧
      StageTmpFree (replay emp (fsOfWorld c w) calls) ∧
      (replay emp (fsOfWorld c w) calls).get .lock = none := by
  have hlock := (cmdCommitT_lock_window g hemp hu hc h).2.2.2 calls.length
  rw [List.take_length] at hlock
  simp only [Nat.lt_irrefl, and_false, if_false] at hlock
  obtain ⟨arts, rfl, hinv, -⟩ := cmdCommitT_run g hemp hu hc h
  refine ⟨?_, ?_, hlock⟩
  · have hrel := hinv.rel
    simp only at hrel
    rw [← replay_append] at hrel
    rw [replay_append, replay_append]
    refine Rel.frame (Rel.frame hrel emp _ (fun x hx => metaOnly_frame (metaPhase_metaOnly c w'.idx _ x hx)))
      emp _ ?_
    intro x hx p hp
    simp at hx; subst hx
    simp [callWrites, callPaths] at hp; subst hp
    simp
  · -- stage temp files: free before the metadata phase, each rewrite frees its own again
    have hpre : StageTmpFree (replay emp (fsOfWorld c w) ([Call.createExcl P.lock] ++ arts.flatten)) := by
      intro sp'
      rw [replay_get_frame emp _ _ _ (fun x hx => ?_)]
      · exact fsOfWorld_get_stageTmp c w sp'
      · rcases List.mem_append.1 hx with hx | hx
        · simp at hx; subst hx; simp [callWrites, callPaths]
        · exact cacheOnly_not_writes (hinv.cacheOnly x hx) rfl
    have hphase : ∀ (l : List Bytes) (fs : FS κ), StageTmpFree fs →
        StageTmpFree (replay emp fs (l.map (stageWriteCalls c w'.idx)).flatten) := by
      intro l
      induction l with
      | nil => intro fs hfs; simpa [replay] using hfs
      | cons x l ih =>
        intro fs hfs
        simp only [List.map_cons, List.flatten_cons, replay_append]
        exact ih _ (stageWriteCalls_tmp_free c stage_write_fact emp w'.idx x hfs)
    rw [replay_append, replay_append]
    intro sp'
    rw [replay_get_frame emp _ _ _ (by
      intro x hx; simp at hx; subst hx; simp [callWrites, callPaths])]
    exact hphase _ _ hpre sp'

/-- **After the last call the stage file of every committed stage holds the complete encoding of the
stage in the final index** (`cmdCommitT_stage_files_atomic` says that before that it held the old or this
new version, never anything else). -/
theorem cmdCommitT_stage_files_final {c : CmdCfg κ} {strat : Strat} (g : Good c.cfg.ctx) {emp : κ}
    (hemp : ∀ x, c.isEmp x = true → x = emp) {targets : List Bytes} {w w' : World κ}
    {calls : List (Call κ)} (hu : uniqNode w.ws) (hc : Consistent c.cfg.ctx w.store)
    (h : cmdCommitT c strat targets w = .ok (w', calls)) {sp : Bytes} {stg : Stage}
    (hd : sp ∈ w'.done) (hst : alookup w'.idx sp = some stg) :
    ∃ m, (replay emp (fsOfWorld c w) calls).get (.stageFile sp) = some (.file (c.encStage stg) m) := by
  obtain ⟨arts, rfl, hinv, -⟩ := cmdCommitT_run g hemp hu hc h
  have hpre : StageTmpFree (replay emp (fsOfWorld c w) ([Call.createExcl P.lock] ++ arts.flatten)) := by
    intro sp'
    rw [replay_get_frame emp _ _ _ (fun x hx => ?_)]
    · exact fsOfWorld_get_stageTmp c w sp'
    · rcases List.mem_append.1 hx with hx | hx
      · simp at hx; subst hx; simp [callWrites, callPaths]
      · exact cacheOnly_not_writes (hinv.cacheOnly x hx) rfl
  obtain ⟨m, hm⟩ := metaPhase_written c stage_write_fact hemp w'.idx sp stg hst w'.done.reverse _ hpre
    (.inl (List.mem_reverse.2 hd))
  refine ⟨m, ?_⟩
  rw [replay_append, replay_append, replay_get_frame emp _ _ _ (by
    intro x hx; simp at hx; subst hx; simp [callWrites, callPaths])]
  exact hm

/-! ## non-vacuity: a two-stage pipeline -/

namespace ExampleCmd
open Dud Dud.Sys Dud.Example

def cfg : Cfg K :=
  { ctx := ctx, ofBytes := fun _ => .raw "", toBytes := fun _ => [], walkAccumulates := true, fuel := 8 }

/-- stand-in for the YAML encoder: the recorded output checksums -/
def encStage (stg : Stage) : K := .raw (String.join (stg.outputs.map (·.sum)))

def cc (canRename : Bool) : CmdCfg K :=
  { cfg := cfg, isEmp := Example.isEmp, canRename := canRename, encStage := encStage }

/-- output of stage A: a directory `a/` with a regular and an empty file -/
def treeA : Node K := .dir [([120], .file (.raw "x")), ([121], .file (.raw ""))]
def stageA : Stage := { cmd := [1], outputs := [{ path := [97], isDir := true }] }
/-- stage B reads `a/` (owned by stage A) and the plain file `c`, writes the file `b` -/
def stageB : Stage :=
  { cmd := [2], inputs := [{ path := [97], isDir := true }, { path := [99] }], outputs := [{ path := [98] }] }
def w0 : World K :=
  { ws := .dir [([97], treeA), ([98], .file (.raw "o")), ([99], .file (.raw "i"))],
    idx := [([1], stageA), ([2], stageB)] }

theorem w0_uniq : uniqNode w0.ws := by
  simp [w0, treeA, uniqNode, uniqList]

theorem w0_consistent (cr : Bool) : Consistent (cc cr).cfg.ctx w0.store := by
  intro d o h; simp [w0, Store.get, alookup] at h

/-- the calls of the whole command (empty on failure) -/
def callsOf (strat : Strat) (cr : Bool) (ts : List Bytes) : List (Call K) :=
  match cmdCommitT (cc cr) strat ts w0 with
  | .ok (_, calls) => calls
  | .error _ => []

theorem callsOf_ok {strat : Strat} {cr : Bool} {ts : List Bytes} (h : callsOf strat cr ts ≠ []) :
    ∃ w', cmdCommitT (cc cr) strat ts w0 = .ok (w', callsOf strat cr ts) := by
  unfold callsOf at h ⊢
  cases hT : cmdCommitT (cc cr) strat ts w0 with
  | error e => rw [hT] at h; exact absurd rfl h
  | ok v => exact ⟨v.1, rfl⟩

/-- the traced command succeeds on the two-stage world and issues well over 10 calls: all stages, link
strategy, rename-able cache; the same on another device; copy strategy with the downstream stage as
target (kernel evaluation) -/
example : (callsOf .link true []).length = 46 := by decide +kernel
example : (callsOf .link false []).length = 56 := by decide +kernel
example : (callsOf .copy false [[2]]).length = 50 := by decide +kernel

theorem callsOf_ne_nil : callsOf .link true [] ≠ [] := by decide +kernel

/-- **All hypotheses of the command-level theorems are satisfiable together** on a two-stage world
(stage B consumes the output directory of stage A and a plain input), the traced command succeeds with
46 calls, and the four conclusions hold for it. -/
example :
    ∃ w' calls, cmdCommitT (cc true) .link [] w0 = .ok (w', calls) ∧ calls.length = 46 ∧
      cmdCommit cfg .link [] w0 = .ok w' ∧
      (∀ k, Safe ctx (trackedOf [] w0.ws) (replay Example.emp (fsOfWorld (cc true) w0) (calls.take k))) ∧
      (∀ sp k, (replay Example.emp (fsOfWorld (cc true) w0) (calls.take k)).get (.stageFile sp)
            = (fsOfWorld (cc true) w0).get (.stageFile sp) ∨
          ∃ stg m, alookup w'.idx sp = some stg ∧
            (replay Example.emp (fsOfWorld (cc true) w0) (calls.take k)).get (.stageFile sp)
              = some (.file (encStage stg) m)) ∧
      (∀ k, (replay Example.emp (fsOfWorld (cc true) w0) (calls.take k)).get .lock =
        if 0 < k ∧ k < calls.length then some (.file Example.emp 0o600) else none) := by
  obtain ⟨w', h⟩ := callsOf_ok callsOf_ne_nil
  exact ⟨w', _, h, by decide +kernel, cmdCommitT_ok h,
    cmdCommitT_crash_safe (c := cc true) good Example.hemp w0_uniq (w0_consistent true) h,
    fun sp => cmdCommitT_stage_files_atomic (c := cc true) good Example.hemp w0_uniq (w0_consistent true) h sp,
    (cmdCommitT_lock_window (c := cc true) good Example.hemp w0_uniq (w0_consistent true) h).2.2.2⟩

/-! executable evidence on a deeper world: Boolean checkers run on every prefix -/

def treeA' : Node K :=
  .dir [([120], .file (.raw "x")), ([121], .dir [([122], .file (.raw "z")), ([119], .file (.raw ""))])]
def w0' : World K := { w0 with ws := .dir [([97], treeA'), ([98], .file (.raw "out")), ([99], .file (.raw "in"))] }

def stageOk (fs0 fs : FS K) (idx' : Index) (sp : Bytes) : Bool :=
  match fs.get (.stageFile sp), fs0.get (.stageFile sp) with
  | some (.file a _), some (.file b _) => a == b || (match alookup idx' sp with
      | some stg => a == encStage stg
      | none => false)
  | _, _ => false

def lockOk (fs : FS K) (k n : Nat) : Bool :=
  match fs.get .lock with
  | some (.file _ _) => decide (0 < k ∧ k < n)
  | none => !decide (0 < k ∧ k < n)
  | _ => false

/-- number of calls; whether every crash prefix is `Safe`, shows both stage files old-or-new and the lock
exactly inside the window; the calls -/
def report (strat : Strat) (cr : Bool) (ts : List Bytes) : String :=
  match cmdCommitT (cc cr) strat ts w0' with
  | .error e => s!"error {e}"
  | .ok (w', calls) =>
    let fs0 := fsOfWorld (cc cr) w0'
    let tracked := trackedOf [] w0'.ws
    let ok := (List.range (calls.length + 1)).all fun k =>
      let fs := replay Example.emp fs0 (calls.take k)
      Example.safeB tracked fs && stageOk fs0 fs w'.idx [1] && stageOk fs0 fs w'.idx [2] &&
        lockOk fs k calls.length
    s!"{calls.length} calls, every prefix ok: {ok}; " ++ "; ".intercalate (calls.map Example.showCall)

#eval report .link true []
#eval report .link false []
#eval report .copy false [[2]]

end ExampleCmd

#print axioms cmdCommitSegs_refines
#print axioms cmdCommitT_refines
#print axioms cmdCommitT_ok
#print axioms cmdCommitT_of_ok
#print axioms stage_write_fact
#print axioms cmdCommitT_run_from
#print axioms cmdCommitT_run
#print axioms cmdCommitT_crash_safe_from
#print axioms commitActT_crash_safe
#print axioms cmdCommitT_crash_safe
#print axioms cmdCommitT_crash_safe_below
#print axioms cmdCommitT_stage_files_atomic
#print axioms cmdCommitT_lock_window
#print axioms cmdCommitT_final
#print axioms cmdCommitT_stage_files_final
#print axioms ExampleCmd.callsOf_ne_nil

end Dud.Sys
