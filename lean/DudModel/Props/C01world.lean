import DudModel.Props.C01
import DudModel.Props.C08
import DudModel.Lemmas.WorldTrip
/-!
# C01 at the world level — `dud commit` then `dud checkout` in a fresh workspace

`Props/C01.lean` proves the round trip for one artifact (`commitArt` / `checkoutArt`).  This file
lifts it

1. through the workspace addressing (`getPath` / `setPath` on paths that do not overlap),
2. through a stage (`commitAct`, then `checkoutAct` in any world that has the committed index, a
   cache that extends the committed one and nothing at the output paths),
3. through the index traversals of `cmdCommit` and `cmdCheckout` (every stage upstream of a target).

Vocabulary: `WT.Apart p q` (neither path is a prefix of the other), `WT.Writable ws p` (`setPath`
at `p` succeeds), `trackedOf a n` (the part of the subtree `n` the artifact `a` tracks: everything,
or, with `DisableRecursion`, the listing without sub-directories), `committedArt` (the artifact with
`sum := treeDigest …` of the tracked tree), `RoundTrip` (checkout of the committed artifact into an
absent place, from any later cache, rebuilds the tracked tree).

Main statements: `stage_commit_checkout_roundtrip` (stage), `commit_checkout_world_roundtrip` and
`commit_checkout_empty_workspace` (commands), `Example2.two_stage_roundtrip` (non-vacuity).

What the statements do NOT cover (inherited from the artifact-level theorems they lift):
* "reproduces" means equality of the logical content (`deref`: a link into the cache counts as a
  regular file with the object's bytes), as in `Props/C01.lean`;
* a directory output must be fresh (no recorded checksum; re-commits are C15/C16) and not
  `skip-cache`; a file output may carry any checksum;
* an input that no stage owns is committed by `commitAct` itself: it has to be a file, or a
  directory that overlaps no output (otherwise commit rewrites files inside it, cf. C07);
* `commit` success is a hypothesis (it is the first command of the property); `checkout` success
  is proved; `--single-stage` is not considered (`single = false`).
-/
namespace Dud

open WT

variable {κ : Type}

/-! ## 1. path algebra (proved in `Lemmas/WorldTrip.lean`) -/

/-- what was written at `p` is found at `p` -/
theorem getPath_setPath_same (p : List Name) (ws ws' n : Node κ) (h : setPath ws p n = some ws') :
    getPath ws' p = some n :=
  WT.getPath_setPath_self p ws ws' n h

/-- writing at `p` does not change what is found at a path `q` that does not overlap `p` -/
theorem getPath_setPath_other (p q : List Name) (ws ws' n : Node κ) (hpq : ¬ p <+: q) (hqp : ¬ q <+: p)
    (h : setPath ws p n = some ws') : getPath ws' q = getPath ws q :=
  WT.getPath_setPath_apart ⟨hpq, hqp⟩ h

/-- `setPath` succeeds in an empty workspace, and wherever the parent directory exists or something
is already there -/
theorem setPath_succeeds (ws : Node κ) (p : List Name) (n : Node κ)
    (h : ws = .dir [] ∨ (∃ m, getPath ws p = some m) ∨
      ∃ pre x es, p = pre ++ [x] ∧ getPath ws pre = some (.dir es)) :
    ∃ ws', setPath ws p n = some ws' := by
  rcases h with rfl | ⟨m, hm⟩ | ⟨pre, x, es, rfl, hpre⟩
  · exact WT.writable_empty p n
  · exact WT.writable_of_getPath p ws m hm n
  · exact WT.writable_of_parent pre x ws es hpre n

/-- writing at `p` keeps a non-overlapping path `q` writable -/
theorem setPath_keeps_writable (p q : List Name) (ws ws' n : Node κ) (hpq : ¬ p <+: q) (hqp : ¬ q <+: p)
    (h : setPath ws p n = some ws') (hq : ∀ v, ∃ w1, setPath ws q v = some w1) :
    ∀ v, ∃ w1, setPath ws' q v = some w1 :=
  WT.writable_setPath_apart ⟨hpq, hqp⟩ h hq

/-! ## 2. one artifact, uniformly -/

/-- the part of the subtree found at the artifact's path that the artifact tracks -/
def trackedOf (a : Art) : Node κ → Node κ
  | .dir es => if a.noRec then .dir (dropSubdirs es) else .dir es
  | n => n

/-- the node found at the artifact's path (`.other` if there is none) -/
def origAt (ws : Node κ) (a : Art) : Node κ := (getPath ws (Path.comps a.path)).getD .other

/-- the artifact as a commit of the workspace `ws` records it -/
def committedArt (ctx : Ctx κ) (ws : Node κ) (a : Art) : Art :=
  { a with sum := treeDigest ctx a.path (trackedOf a (origAt ws a)) }

theorem trackedOf_sum (a : Art) (d : Digest) (n : Node κ) :
    trackedOf { a with sum := d } n = trackedOf a n := by
  cases n <;> rfl

/-- the hypotheses of C01 on an output artifact `a` and the subtree `n` found at its path: the kinds
agree, the tree is plain and sorted with acceptable names; a directory artifact has never been
committed (no recorded checksum) and is not `skip-cache`; the fuel covers the tracked tree -/
structure ArtPre (ctx : Ctx κ) (fuel : Nat) (a : Art) (n : Node κ) : Prop where
  kind : n.isDir = a.isDir
  plain : n.plain = true
  sorted : n.sorted = true
  names : NamesOK ctx n
  fresh : a.isDir = true → a.sum = "" ∧ a.skip = false
  fuel : depth (trackedOf a n) ≤ fuel

/-- checkout of the committed artifact into an absent place, from any later cache and with either
strategy, yields a node whose logical content is the tracked tree `t` -/
def RoundTrip (cfg : Cfg κ) (a : Art) (t : Node κ) (s : Store κ) : Prop :=
  ∀ s'', Store.le cfg.ctx s s'' → ∀ strat2 : Strat,
    ∃ r, checkoutArt cfg.ctx strat2 cfg.fuel { a with sum := treeDigest cfg.ctx a.path t } none s''
        = .ok (some r) ∧ deref cfg.ctx s'' r = t

theorem RoundTrip.mono {cfg : Cfg κ} {a : Art} {t : Node κ} {s s' : Store κ}
    (h : RoundTrip cfg a t s) (hle : Store.le cfg.ctx s s') : RoundTrip cfg a t s' :=
  fun s'' hle' strat2 => h s'' (Store.le_trans hle hle') strat2

/-- the four artifact-level theorems of `Props/C01.lean` (`commitArt_dir_roundtrip`,
`commitArt_noRec_roundtrip`, `commitArt_file_roundtrip`, `commitArt_file_skip`) in one statement -/
theorem commitArt_roundtrip (cfg : Cfg κ) (g : Good cfg.ctx) (a : Art) (n : Node κ)
    (hpre : ArtPre cfg.ctx cfg.fuel a n) (s : Store κ) (hc : Consistent cfg.ctx s) (strat : Strat) :
    ∃ t' s', commitArt cfg.ctx strat a (some n) s
        = .ok (t', treeDigest cfg.ctx a.path (trackedOf a n), s') ∧
      Consistent cfg.ctx s' ∧ Store.le cfg.ctx s s' ∧ deref cfg.ctx s' t' = n ∧
      (a.skip = false → RoundTrip cfg a (trackedOf a n) s') := by
  obtain ⟨hk, hp, hs, hn, hf, hfu⟩ := hpre
  cases hd : a.isDir with
  | true =>
    obtain ⟨hsum, hskip⟩ := hf hd
    rw [hd] at hk
    cases n with
    | dir es =>
      cases hnr : a.noRec with
      | false =>
        have ht : trackedOf a (Node.dir es) = .dir es := by simp [trackedOf, hnr]
        rw [ht] at hfu ⊢
        obtain ⟨t', d, s', h1, rfl, h2, h3, h4, h5⟩ :=
          commitArt_dir_roundtrip cfg.ctx g a es hd hsum hskip hnr hp hs hn s hc strat
        exact ⟨t', s', h1, h2, h3, h4, fun _ s'' hle strat2 => h5 s'' hle strat2 cfg.fuel hfu⟩
      | true =>
        have ht : trackedOf a (Node.dir es) = .dir (dropSubdirs es) := by simp [trackedOf, hnr]
        rw [ht] at hfu ⊢
        obtain ⟨t', d, s', h1, rfl, h2, h3, h4, h5⟩ :=
          commitArt_noRec_roundtrip cfg.ctx g a es hd hsum hskip hnr hp hs hn s hc strat
        exact ⟨t', s', h1, h2, h3, h4, fun _ s'' hle strat2 => h5 s'' hle strat2 cfg.fuel hfu⟩
    | file _ => simp [Node.isDir] at hk
    | link _ => simp [Node.isDir] at hk
    | other => simp [Node.isDir] at hk
  | false =>
    rw [hd] at hk
    cases n with
    | file c =>
      have ht : trackedOf a (Node.file c) = .file c := rfl
      have hdg : treeDigest cfg.ctx a.path (Node.file c) = cfg.ctx.H c := by simp [treeDigest]
      have hfu1 : 1 ≤ cfg.fuel := by
        have h := hfu
        rw [ht] at h
        simpa [depth] using h
      rw [ht, hdg]
      cases hskip : a.skip with
      | false =>
        obtain ⟨t', s', h1, h2, h3, h4, h5⟩ :=
          commitArt_file_roundtrip cfg.ctx g a c hd hskip s hc strat
        refine ⟨t', s', h1, h2, h3, h4, fun _ s'' hle strat2 => ?_⟩
        exact h5 s'' hle strat2 cfg.fuel hfu1
      | true =>
        exact ⟨.file c, s, commitArt_file_skip cfg.ctx a c hd hskip s strat, hc,
          Store.le_refl _ _, by simp [deref], fun h => by cases h⟩
    | dir _ => simp [Node.isDir] at hk
    | link _ => simp [Node.plain] at hp
    | other => simp [Node.plain] at hp

/-! ## 2a. commit of one artifact / a list of artifacts in the world -/

theorem origAt_of_getPath {ws : Node κ} {a : Art} {n : Node κ}
    (h : getPath ws (Path.comps a.path) = some n) : origAt ws a = n := by
  simp [origAt, h]

theorem committedArt_congr (ctx : Ctx κ) {ws ws' : Node κ} {a : Art}
    (h : getPath ws' (Path.comps a.path) = getPath ws (Path.comps a.path)) :
    committedArt ctx ws' a = committedArt ctx ws a := by
  simp [committedArt, origAt, h]

/-- `commitArtW` on an artifact satisfying `ArtPre` -/
theorem commitArtW_post (cfg : Cfg κ) (g : Good cfg.ctx) (strat : Strat) (a a' : Art) (w w' : World κ)
    (n : Node κ) (hn : getPath w.ws (Path.comps a.path) = some n)
    (hpre : ArtPre cfg.ctx cfg.fuel a n) (hc : Consistent cfg.ctx w.store)
    (h : commitArtW cfg strat a w = .ok (a', w')) :
    a' = committedArt cfg.ctx w.ws a ∧ Consistent cfg.ctx w'.store ∧
      Store.le cfg.ctx w.store w'.store ∧ w'.idx = w.idx ∧ w'.done = w.done ∧
      (∃ t', getPath w'.ws (Path.comps a.path) = some t' ∧ deref cfg.ctx w'.store t' = n) ∧
      (a.skip = false → RoundTrip cfg a (trackedOf a n) w'.store) ∧
      (∀ q, Apart (Path.comps a.path) q → getPath w'.ws q = getPath w.ws q) := by
  obtain ⟨t, d, s, ws', hca, hsp, rfl, rfl⟩ := WT.commitArtW_inv h
  obtain ⟨t', s', hc', h2, h3, h4, h5⟩ := commitArt_roundtrip cfg g a n hpre w.store hc strat
  rw [hn, hc'] at hca
  simp only [Except.ok.injEq, Prod.mk.injEq] at hca
  obtain ⟨rfl, rfl, rfl⟩ := hca
  refine ⟨?_, h2, h3, rfl, rfl, ⟨t', WT.getPath_setPath_self _ _ _ _ hsp, h4⟩, h5,
    fun q hq => WT.getPath_setPath_apart hq hsp⟩
  simp [committedArt, origAt_of_getPath hn]

/-- `commitArts` on artifacts with pairwise non-overlapping paths, each satisfying `ArtPre` -/
theorem commitArts_post (cfg : Cfg κ) (g : Good cfg.ctx) (strat : Strat) :
    ∀ (as as' : List Art) (w w' : World κ), ApartArts as →
      (∀ a, a ∈ as → ∃ n, getPath w.ws (Path.comps a.path) = some n ∧ ArtPre cfg.ctx cfg.fuel a n) →
      Consistent cfg.ctx w.store → commitArts cfg strat as w = .ok (as', w') →
      as' = as.map (committedArt cfg.ctx w.ws) ∧ Consistent cfg.ctx w'.store ∧
        Store.le cfg.ctx w.store w'.store ∧ w'.idx = w.idx ∧ w'.done = w.done ∧
        (∀ a, a ∈ as → ∃ t', getPath w'.ws (Path.comps a.path) = some t' ∧
          deref cfg.ctx w'.store t' = origAt w.ws a) ∧
        (∀ a, a ∈ as → a.skip = false → RoundTrip cfg a (trackedOf a (origAt w.ws a)) w'.store) ∧
        (∀ q, (∀ a, a ∈ as → Apart (Path.comps a.path) q) → getPath w'.ws q = getPath w.ws q)
  | [], as', w, w', _, _, hc, h => by
    simp only [commitArts, Except.ok.injEq, Prod.mk.injEq] at h
    obtain ⟨rfl, rfl⟩ := h
    exact ⟨rfl, hc, Store.le_refl _ _, rfl, rfl, by simp, by simp, fun _ _ => rfl⟩
  | a :: r, as', w, w', hap, hpre, hc, h => by
    rw [commitArts] at h
    split at h
    · cases h
    rename_i a1 w1 h1
    split at h
    · cases h
    rename_i r2 w2 h2
    simp only [Except.ok.injEq, Prod.mk.injEq] at h
    obtain ⟨rfl, rfl⟩ := h
    have hap' := List.pairwise_cons.1 hap
    obtain ⟨n, hn, hpn⟩ := hpre a List.mem_cons_self
    obtain ⟨e1, c1, l1, i1, d1, ⟨t1, g1, dr1⟩, rt1, f1⟩ :=
      commitArtW_post cfg g strat a a1 w w1 n hn hpn hc h1
    have hsame : ∀ b, b ∈ r → getPath w1.ws (Path.comps b.path) = getPath w.ws (Path.comps b.path) :=
      fun b hb => f1 _ (hap'.1 b hb)
    have hpre1 : ∀ b, b ∈ r → ∃ m, getPath w1.ws (Path.comps b.path) = some m ∧
        ArtPre cfg.ctx cfg.fuel b m := by
      intro b hb
      obtain ⟨m, hm, hpm⟩ := hpre b (List.mem_cons_of_mem _ hb)
      exact ⟨m, by rw [hsame b hb]; exact hm, hpm⟩
    obtain ⟨e2, c2, l2, i2, d2, lg2, rt2, f2⟩ :=
      commitArts_post cfg g strat r r2 w1 w2 hap'.2 hpre1 c1 h2
    have horig : ∀ b, b ∈ r → origAt w1.ws b = origAt w.ws b := by
      intro b hb; simp [origAt, hsame b hb]
    refine ⟨?_, c2, Store.le_trans l1 l2, i2.trans i1, d2.trans d1, ?_, ?_, ?_⟩
    · rw [e1, e2, List.map_cons]
      congr 1
      exact List.map_congr_left (fun b hb => committedArt_congr cfg.ctx (hsame b hb))
    · intro b hb
      rcases List.mem_cons.1 hb with rfl | hb
      · refine ⟨t1, ?_, ?_⟩
        · rw [f2 _ (fun c hc' => (hap'.1 c hc').symm)]; exact g1
        · rw [origAt_of_getPath hn, ← dr1]
          exact deref_le cfg.ctx l2 t1 (by rw [dr1]; exact hpn.plain)
      · obtain ⟨t', gt, dt⟩ := lg2 b hb
        exact ⟨t', gt, by rw [dt, horig b hb]⟩
    · intro b hb hsk
      rcases List.mem_cons.1 hb with rfl | hb
      · rw [origAt_of_getPath hn]
        exact (rt1 hsk).mono l2
      · rw [← horig b hb]; exact rt2 b hb hsk
    · intro q hq
      rw [f2 q (fun b hb => hq b (List.mem_cons_of_mem _ hb)), f1 q (hq a List.mem_cons_self)]

/-! ## 2b. commit of a stage -/

/-- the inputs `commitAct` commits itself (those no stage owns; it commits them with
`skip := true`, which `commitArt` honours for files only) are files, or directories apart from `q` -/
def PlainInputsApart (cfg : Cfg κ) (idx : Index) (stg : Stage) (q : List Name) : Prop :=
  ∀ b, b ∈ stg.inputs → (findOwner cfg.walkAccumulates idx b.path).isNone = true →
    b.isDir = false ∨ Apart (Path.comps b.path) q

/-- **Stage level, commit.** `commitAct` on a stage whose outputs do not overlap and satisfy
`ArtPre`: the cache stays consistent and grows, the stage recorded in the index has the outputs
`committedArt …` (checksum `treeDigest` of the tracked tree), the logical content of the workspace
at the outputs is unchanged, every non-skip output has the `RoundTrip` property, and paths apart
from the outputs (and from the un-owned directory inputs) are untouched. -/
theorem commitAct_post (cfg : Cfg κ) (g : Good cfg.ctx) (strat : Strat) (sp : Bytes) (w w' : World κ)
    (stg : Stage) (hs : alookup w.idx sp = some stg) (hap : ApartArts stg.outputs)
    (hpre : ∀ a, a ∈ stg.outputs → ∃ n, getPath w.ws (Path.comps a.path) = some n ∧
      ArtPre cfg.ctx cfg.fuel a n)
    (hin : ∀ a, a ∈ stg.outputs → PlainInputsApart cfg w.idx stg (Path.comps a.path))
    (hc : Consistent cfg.ctx w.store) (h : commitAct cfg strat sp w = .ok w') :
    Consistent cfg.ctx w'.store ∧ Store.le cfg.ctx w.store w'.store ∧ w'.done = sp :: w.done ∧
      (∃ stg', w'.idx = setStage w.idx sp stg' ∧ alookup w'.idx sp = some stg' ∧
        stg'.outputs = (sortArts stg.outputs).map (committedArt cfg.ctx w.ws)) ∧
      (∀ a, a ∈ stg.outputs → ∃ t', getPath w'.ws (Path.comps a.path) = some t' ∧
        deref cfg.ctx w'.store t' = origAt w.ws a) ∧
      (∀ a, a ∈ stg.outputs → a.skip = false →
        RoundTrip cfg a (trackedOf a (origAt w.ws a)) w'.store) ∧
      (∀ q, (∀ a, a ∈ stg.outputs → Apart (Path.comps a.path) q) →
        PlainInputsApart cfg w.idx stg q → getPath w'.ws q = getPath w.ws q) := by
  unfold commitAct at h
  rw [World.stage_eq_ok.2 hs] at h
  dsimp only at h
  split at h
  · cases h
  rename_i pl w1 h1
  split at h
  · cases h
  rename_i outs w2 h2
  simp only [Except.ok.injEq] at h
  obtain ⟨S, hw', hS⟩ : ∃ S : Stage,
      w' = { w2 with idx := setStage w2.idx sp S, done := sp :: w2.done } ∧ S.outputs = outs :=
    ⟨_, h.symm, rfl⟩
  clear h
  subst hw'
  obtain ⟨st1, i1, d1, f1⟩ := WT.commitArts_elsewhere g strat _ h1
  have hpl : ∀ q, PlainInputsApart cfg w.idx stg q → ∀ b,
      b ∈ sortArts ((stg.inputs.filter
        (fun a => (findOwner cfg.walkAccumulates w.idx a.path).isNone)).map
          (fun a => { a with skip := true })) →
      (b.skip = true ∧ b.isDir = false) ∨ Apart (Path.comps b.path) q := by
    intro q hq b hb
    obtain ⟨b0, hb0, rfl⟩ := List.mem_map.1 (mem_of_mem_sortArts hb)
    obtain ⟨hin0, hown⟩ := List.mem_filter.1 hb0
    rcases hq b0 hin0 hown with hf | ha
    · exact .inl ⟨rfl, hf⟩
    · exact .inr ha
  have hsame : ∀ a, a ∈ stg.outputs →
      getPath w1.ws (Path.comps a.path) = getPath w.ws (Path.comps a.path) :=
    fun a ha => f1 _ (hpl _ (hin a ha))
  obtain ⟨c1, l1⟩ := st1 hc
  have hpre1 : ∀ a, a ∈ sortArts stg.outputs → ∃ n, getPath w1.ws (Path.comps a.path) = some n ∧
      ArtPre cfg.ctx cfg.fuel a n := by
    intro a ha
    have ha' := mem_of_mem_sortArts ha
    obtain ⟨n, hn, hp⟩ := hpre a ha'
    exact ⟨n, by rw [hsame a ha']; exact hn, hp⟩
  obtain ⟨e2, c2, l2, i2, d2, lg2, rt2, f2⟩ :=
    commitArts_post cfg g strat (sortArts stg.outputs) outs w1 w2 hap.sortArts hpre1 c1 h2
  have horig : ∀ a, a ∈ stg.outputs → origAt w1.ws a = origAt w.ws a := by
    intro a ha; simp [origAt, hsame a ha]
  have hmem : ∀ a, a ∈ stg.outputs → a ∈ sortArts stg.outputs :=
    fun a ha => mem_sortArts_of_mem hap.paths_ne ha
  have hidx : w2.idx = w.idx := i2.trans i1
  refine ⟨c2, Store.le_trans l1 l2, ?_, ⟨S, ?_, ?_, ?_⟩, ?_, ?_, ?_⟩
  · show sp :: w2.done = sp :: w.done
    rw [d2, d1]
  · show setStage w2.idx sp S = setStage w.idx sp S
    rw [hidx]
  · show alookup (setStage w2.idx sp S) sp = some S
    rw [hidx]
    exact WT.alookup_setStage_self _ _ hs
  · rw [hS, e2]
    exact List.map_congr_left
      (fun a ha => committedArt_congr cfg.ctx (hsame a (mem_of_mem_sortArts ha)))
  · intro a ha
    obtain ⟨t', gt, dt⟩ := lg2 a (hmem a ha)
    exact ⟨t', gt, by rw [dt, horig a ha]⟩
  · intro a ha hsk
    rw [← horig a ha]
    exact rt2 a (hmem a ha) hsk
  · intro q hq hpq
    show getPath w2.ws q = getPath w.ws q
    rw [f2 q (fun a ha => hq a (mem_of_mem_sortArts ha)), f1 q (hpl q hpq)]

/-! ## 2c. checkout of a stage into a place where nothing is yet -/

theorem checkoutArtW_skip (cfg : Cfg κ) (strat : Strat) (a : Art) (w : World κ) (hskip : a.skip = true) :
    checkoutArtW cfg strat a w = .ok w := by
  simp only [checkoutArtW, checkoutArt, hskip, if_true]
  cases getPath w.ws (Path.comps a.path) <;> rfl

/-- a non-skip artifact whose place is absent and writable -/
theorem checkoutArtW_absent (cfg : Cfg κ) (strat : Strat) (a : Art) (w : World κ) (r : Node κ)
    (hskip : a.skip = false) (habs : getPath w.ws (Path.comps a.path) = none)
    (hw : Writable w.ws (Path.comps a.path))
    (hco : checkoutArt cfg.ctx strat cfg.fuel a none w.store = .ok (some r)) :
    ∃ ws', setPath w.ws (Path.comps a.path) r = some ws' ∧
      checkoutArtW cfg strat a w = .ok { w with ws := ws' } := by
  obtain ⟨ws', hs⟩ := hw r
  refine ⟨ws', hs, ?_⟩
  simp [checkoutArtW, habs, hco, hskip, hs]

/-- `checkoutArts` on artifacts with pairwise non-overlapping paths, the non-skip ones absent and
writable, each of which `checkoutArt` can check out into an absent place with a result satisfying
`X`: it succeeds, every non-skip artifact is found at its path with `X`, the cache, the index and
the memo are untouched, and so is every path apart from the non-skip artifacts. -/
theorem checkoutArts_fresh (cfg : Cfg κ) (strat : Strat) (X : Art → Node κ → Prop) :
    ∀ (as : List Art) (v : World κ), ApartArts as →
      (∀ a, a ∈ as → a.skip = false →
        getPath v.ws (Path.comps a.path) = none ∧ Writable v.ws (Path.comps a.path)) →
      (∀ a, a ∈ as → a.skip = false →
        ∃ r, checkoutArt cfg.ctx strat cfg.fuel a none v.store = .ok (some r) ∧ X a r) →
      ∃ v', checkoutArts cfg strat as v = .ok v' ∧ v'.store = v.store ∧ v'.idx = v.idx ∧
        v'.done = v.done ∧
        (∀ a, a ∈ as → a.skip = false → ∃ r, getPath v'.ws (Path.comps a.path) = some r ∧ X a r) ∧
        (∀ q, (∀ a, a ∈ as → a.skip = false → Apart (Path.comps a.path) q) →
          getPath v'.ws q = getPath v.ws q ∧ (Writable v.ws q → Writable v'.ws q))
  | [], v, _, _, _ => ⟨v, rfl, rfl, rfl, rfl, by simp, fun _ _ => ⟨rfl, id⟩⟩
  | a :: r, v, hap, habs, hco => by
    have hap' := List.pairwise_cons.1 hap
    cases hskip : a.skip with
    | true =>
      obtain ⟨v', h1, h2, h3, h4, h5, h6⟩ := checkoutArts_fresh cfg strat X r v hap'.2
        (fun b hb => habs b (List.mem_cons_of_mem _ hb)) (fun b hb => hco b (List.mem_cons_of_mem _ hb))
      refine ⟨v', ?_, h2, h3, h4, ?_, ?_⟩
      · rw [checkoutArts, checkoutArtW_skip cfg strat a v hskip]
        exact h1
      · intro b hb hbs
        rcases List.mem_cons.1 hb with rfl | hb
        · rw [hskip] at hbs; cases hbs
        · exact h5 b hb hbs
      · intro q hq
        exact h6 q (fun b hb => hq b (List.mem_cons_of_mem _ hb))
    | false =>
      obtain ⟨ha1, ha2⟩ := habs a List.mem_cons_self hskip
      obtain ⟨n, hn, hx⟩ := hco a List.mem_cons_self hskip
      obtain ⟨ws', hs, hw1⟩ := checkoutArtW_absent cfg strat a v n hskip ha1 ha2 hn
      obtain ⟨v', h1, h2, h3, h4, h5, h6⟩ := checkoutArts_fresh cfg strat X r { v with ws := ws' } hap'.2
        (fun b hb hbs => by
          obtain ⟨hb1, hb2⟩ := habs b (List.mem_cons_of_mem _ hb) hbs
          have hab := hap'.1 b hb
          exact ⟨by rw [← hb1]; exact WT.getPath_setPath_apart hab hs,
            WT.writable_setPath_apart hab hs hb2⟩)
        (fun b hb => hco b (List.mem_cons_of_mem _ hb))
      refine ⟨v', ?_, h2, h3, h4, ?_, ?_⟩
      · rw [checkoutArts, hw1]
        exact h1
      · intro b hb hbs
        rcases List.mem_cons.1 hb with rfl | hb
        · refine ⟨n, ?_, hx⟩
          rw [(h6 _ (fun c hc _ => (hap'.1 c hc).symm)).1]
          exact WT.getPath_setPath_self _ _ _ _ hs
        · exact h5 b hb hbs
      · intro q hq
        obtain ⟨g1, g2⟩ := h6 q (fun b hb => hq b (List.mem_cons_of_mem _ hb))
        have haq := hq a List.mem_cons_self hskip
        exact ⟨by rw [g1]; exact WT.getPath_setPath_apart haq hs,
          fun hwq => g2 (WT.writable_setPath_apart haq hs hwq)⟩

/-- **Stage level, checkout.** The same for `checkoutAct` on the stage found in the index. -/
theorem checkoutAct_fresh (cfg : Cfg κ) (strat : Strat) (X : Art → Node κ → Prop) (sp : Bytes)
    (v : World κ) (stg : Stage) (hs : alookup v.idx sp = some stg) (hap : ApartArts stg.outputs)
    (habs : ∀ a, a ∈ stg.outputs → a.skip = false →
      getPath v.ws (Path.comps a.path) = none ∧ Writable v.ws (Path.comps a.path))
    (hco : ∀ a, a ∈ stg.outputs → a.skip = false →
      ∃ r, checkoutArt cfg.ctx strat cfg.fuel a none v.store = .ok (some r) ∧ X a r) :
    ∃ v', checkoutAct cfg strat sp v = .ok v' ∧ v'.store = v.store ∧ v'.idx = v.idx ∧
      v'.done = sp :: v.done ∧
      (∀ a, a ∈ stg.outputs → a.skip = false →
        ∃ r, getPath v'.ws (Path.comps a.path) = some r ∧ X a r) ∧
      (∀ q, (∀ a, a ∈ stg.outputs → a.skip = false → Apart (Path.comps a.path) q) →
        getPath v'.ws q = getPath v.ws q ∧ (Writable v.ws q → Writable v'.ws q)) := by
  obtain ⟨v1, h1, h2, h3, h4, h5, h6⟩ := checkoutArts_fresh cfg strat X (sortArts stg.outputs) v
    hap.sortArts (fun a ha => habs a (mem_of_mem_sortArts ha))
    (fun a ha => hco a (mem_of_mem_sortArts ha))
  refine ⟨{ v1 with done := sp :: v1.done }, ?_, h2, h3, by simp [h4], ?_, ?_⟩
  · simp [checkoutAct, World.stage_eq_ok.2 hs, h1]
  · intro a ha hsk
    exact h5 a (mem_sortArts_of_mem hap.paths_ne ha) hsk
  · intro q hq
    exact h6 q (fun a ha => hq a (mem_of_mem_sortArts ha))

/-! ## 2d. the stage-level round trip -/

theorem committedArt_paths (ctx : Ctx κ) (ws : Node κ) (l : List Art) :
    (l.map (committedArt ctx ws)).map (·.path) = l.map (·.path) := by
  rw [List.map_map]
  exact List.map_congr_left (fun _ _ => rfl)

theorem trackedOf_committedArt (ctx : Ctx κ) (ws ws' : Node κ) (a : Art) :
    trackedOf (committedArt ctx ws a) (origAt ws' (committedArt ctx ws a)) =
      trackedOf a (origAt ws' a) :=
  trackedOf_sum a _ _

/-- checkout of a stage whose recorded outputs are the `committedArt`s of `stg.outputs` (w.r.t. a
workspace `ws0`), in a world whose cache extends a cache `sC` with the `RoundTrip` property and in
which the non-skip outputs are absent and writable -/
theorem checkoutAct_committed (cfg : Cfg κ) (strat2 : Strat) (sp : Bytes) (ws0 : Node κ)
    (stg stg' : Stage) (v : World κ) (sC : Store κ)
    (hs' : alookup v.idx sp = some stg')
    (hout : stg'.outputs = (sortArts stg.outputs).map (committedArt cfg.ctx ws0))
    (hap : ApartArts stg.outputs)
    (hrt : ∀ a, a ∈ stg.outputs → a.skip = false → RoundTrip cfg a (trackedOf a (origAt ws0 a)) sC)
    (hle : Store.le cfg.ctx sC v.store)
    (habs : ∀ a, a ∈ stg.outputs → a.skip = false →
      getPath v.ws (Path.comps a.path) = none ∧ Writable v.ws (Path.comps a.path)) :
    ∃ v', checkoutAct cfg strat2 sp v = .ok v' ∧ v'.store = v.store ∧ v'.idx = v.idx ∧
      v'.done = sp :: v.done ∧
      (∀ a, a ∈ stg.outputs → a.skip = false → ∃ r, getPath v'.ws (Path.comps a.path) = some r ∧
        deref cfg.ctx v.store r = trackedOf a (origAt ws0 a)) ∧
      (∀ q, (∀ a, a ∈ stg.outputs → a.skip = false → Apart (Path.comps a.path) q) →
        getPath v'.ws q = getPath v.ws q ∧ (Writable v.ws q → Writable v'.ws q)) := by
  have hap' : ApartArts stg'.outputs := by
    rw [hout]
    exact hap.sortArts.of_paths (committedArt_paths cfg.ctx ws0 _)
  have hback : ∀ a', a' ∈ stg'.outputs → ∃ a, a ∈ stg.outputs ∧ a' = committedArt cfg.ctx ws0 a := by
    intro a' ha'
    rw [hout] at ha'
    obtain ⟨a, ha, rfl⟩ := List.mem_map.1 ha'
    exact ⟨a, mem_of_mem_sortArts ha, rfl⟩
  obtain ⟨v', h1, h2, h3, h4, h5, h6⟩ := checkoutAct_fresh cfg strat2
    (fun a' r => deref cfg.ctx v.store r = trackedOf a' (origAt ws0 a')) sp v stg' hs' hap'
    (fun a' ha' hsk => by
      obtain ⟨a, ha, rfl⟩ := hback a' ha'
      exact habs a ha hsk)
    (fun a' ha' hsk => by
      obtain ⟨a, ha, rfl⟩ := hback a' ha'
      obtain ⟨r, hr, hd⟩ := hrt a ha hsk v.store hle strat2
      exact ⟨r, hr, by rw [trackedOf_committedArt]; exact hd⟩)
  refine ⟨v', h1, h2, h3, h4, ?_, ?_⟩
  · intro a ha hsk
    have hm : committedArt cfg.ctx ws0 a ∈ stg'.outputs := by
      rw [hout]
      exact List.mem_map.2 ⟨a, mem_sortArts_of_mem hap.paths_ne ha, rfl⟩
    obtain ⟨r, hr, hd⟩ := h5 _ hm hsk
    exact ⟨r, hr, by rw [← trackedOf_committedArt cfg.ctx ws0 ws0 a]; exact hd⟩
  · intro q hq
    refine h6 q (fun a' ha' hsk => ?_)
    obtain ⟨a, ha, rfl⟩ := hback a' ha'
    exact hq a ha hsk

/-- **C01, stage level.** Let `commitAct` succeed on a stage whose outputs have pairwise
non-overlapping paths and satisfy the hypotheses of the artifact-level theorems (`ArtPre`; the
un-owned inputs, which `commitAct` commits too, are files or directories apart from the outputs).
Then (a) the cache stays consistent and only grows; (b) the stage recorded in the index lists, for
each output `a`, the artifact `committedArt … a`, whose checksum is `treeDigest` of the tracked
subtree; (c) in ANY world `v` with the same index and a cache extending the committed one, in which
the non-skip outputs are absent and writable (e.g. their parent directories exist, or the workspace
is empty: `setPath_succeeds`), `checkoutAct` with either strategy succeeds and puts at every non-skip
output path a node whose logical content (`deref`) is the tracked subtree of the original. -/
theorem stage_commit_checkout_roundtrip (cfg : Cfg κ) (g : Good cfg.ctx) (strat : Strat) (sp : Bytes)
    (w w' : World κ) (stg : Stage) (hs : alookup w.idx sp = some stg) (hap : ApartArts stg.outputs)
    (hpre : ∀ a, a ∈ stg.outputs → ∃ n, getPath w.ws (Path.comps a.path) = some n ∧
      ArtPre cfg.ctx cfg.fuel a n)
    (hin : ∀ a, a ∈ stg.outputs → PlainInputsApart cfg w.idx stg (Path.comps a.path))
    (hc : Consistent cfg.ctx w.store) (h : commitAct cfg strat sp w = .ok w') :
    (Consistent cfg.ctx w'.store ∧ Store.le cfg.ctx w.store w'.store) ∧
    (∃ stg', alookup w'.idx sp = some stg' ∧
      stg'.outputs = (sortArts stg.outputs).map (committedArt cfg.ctx w.ws) ∧
      ∀ a, a ∈ stg.outputs → ∃ a', a' ∈ stg'.outputs ∧ a'.path = a.path ∧
        a'.sum = treeDigest cfg.ctx a.path (trackedOf a (origAt w.ws a))) ∧
    (∀ a, a ∈ stg.outputs → ∃ t', getPath w'.ws (Path.comps a.path) = some t' ∧
      deref cfg.ctx w'.store t' = origAt w.ws a) ∧
    ∀ (v : World κ) (strat2 : Strat), v.idx = w'.idx → Store.le cfg.ctx w'.store v.store →
      (∀ a, a ∈ stg.outputs → a.skip = false →
        getPath v.ws (Path.comps a.path) = none ∧ Writable v.ws (Path.comps a.path)) →
      ∃ v', checkoutAct cfg strat2 sp v = .ok v' ∧ v'.store = v.store ∧
        ∀ a, a ∈ stg.outputs → a.skip = false → ∃ r, getPath v'.ws (Path.comps a.path) = some r ∧
          deref cfg.ctx v'.store r = trackedOf a (origAt w.ws a) := by
  obtain ⟨c', l', _, ⟨stg', _, hl', hout⟩, hlog, hrt, _⟩ :=
    commitAct_post cfg g strat sp w w' stg hs hap hpre hin hc h
  refine ⟨⟨c', l'⟩, ⟨stg', hl', hout, ?_⟩, hlog, ?_⟩
  · intro a ha
    refine ⟨committedArt cfg.ctx w.ws a, ?_, rfl, rfl⟩
    rw [hout]
    exact List.mem_map.2 ⟨a, mem_sortArts_of_mem hap.paths_ne ha, rfl⟩
  · intro v strat2 hidx hle habs
    obtain ⟨v', h1, h2, _, _, h5, _⟩ := checkoutAct_committed cfg strat2 sp w.ws stg stg' v w'.store
      (by rw [hidx]; exact hl') hout hap hrt hle habs
    exact ⟨v', h1, h2, fun a ha hsk => by rw [h2]; exact h5 a ha hsk⟩

/-! ## 3. the commands

### 3a. `dud commit` -/

/-- the stages a recursive command with these targets acts on: the targets (all stages if none is
given) and everything upstream of them -/
def InScope (cfg : Cfg κ) (w : World κ) (targets : List Bytes) (sp : Bytes) : Prop :=
  ∃ t, t ∈ (if targets.isEmpty then allStages w else targets) ∧ Reach (ownIdx cfg w.idx) t sp

/-- hypotheses on the pipeline, for the stages in the scope `Sc`: distinct stage paths; all outputs
(within a stage and across stages) have pairwise non-overlapping paths; every output is present
and satisfies the artifact-level hypotheses `ArtPre`; every input that no stage owns is a file,
or a directory apart from every output (owned inputs are not committed: no hypothesis). -/
structure PipelineOK (cfg : Cfg κ) (Sc : Bytes → Prop) (w0 : World κ) : Prop where
  keys : (w0.idx.map (·.1)).Nodup
  apart_in : ∀ sp stg, Sc sp → alookup w0.idx sp = some stg → ApartArts stg.outputs
  apart_across : ∀ sp1 sp2 stg1 stg2, Sc sp1 → Sc sp2 → sp1 ≠ sp2 →
    alookup w0.idx sp1 = some stg1 → alookup w0.idx sp2 = some stg2 →
    ∀ a, a ∈ stg1.outputs → ∀ b, b ∈ stg2.outputs → Apart (Path.comps a.path) (Path.comps b.path)
  pre : ∀ sp stg, Sc sp → alookup w0.idx sp = some stg → ∀ a, a ∈ stg.outputs →
    ∃ n, getPath w0.ws (Path.comps a.path) = some n ∧ ArtPre cfg.ctx cfg.fuel a n
  inputs : ∀ sp stg, Sc sp → alookup w0.idx sp = some stg → ∀ sp' stg', Sc sp' →
    alookup w0.idx sp' = some stg' → ∀ a, a ∈ stg'.outputs →
    PlainInputsApart cfg w0.idx stg (Path.comps a.path)

/-- invariant of the commit traversal started in `w0`: the cache is consistent and extends the
initial one; a stage that is not done has its original entry in the index and its outputs are as
in `w0`; a stage that is done satisfies the stage-level post-condition -/
structure CommitInv (cfg : Cfg κ) (Sc : Bytes → Prop) (w0 w : World κ) : Prop where
  cons : Consistent cfg.ctx w.store
  le : Store.le cfg.ctx w0.store w.store
  pending_idx : ∀ sp, w.done.contains sp = false → alookup w.idx sp = alookup w0.idx sp
  pending_ws : ∀ sp stg, Sc sp → w.done.contains sp = false → alookup w0.idx sp = some stg →
    ∀ a, a ∈ stg.outputs →
      getPath w.ws (Path.comps a.path) = getPath w0.ws (Path.comps a.path)
  finished : ∀ sp, Sc sp → w.done.contains sp = true → ∃ stg stg', alookup w0.idx sp = some stg ∧
    alookup w.idx sp = some stg' ∧
    stg'.outputs = (sortArts stg.outputs).map (committedArt cfg.ctx w0.ws) ∧
    ∀ a, a ∈ stg.outputs → a.skip = false → RoundTrip cfg a (trackedOf a (origAt w0.ws a)) w.store

theorem findOwner_isNone_sim (wa : Bool) {idx idx0 : Index} (h : SameShape idx idx0) (p : Bytes) :
    (findOwner wa idx p).isNone = (findOwner wa idx0 p).isNone := by
  have := congrArg Option.isNone (findOwner_sim wa h p)
  simpa using this

theorem PlainInputsApart.sim {cfg : Cfg κ} {idx idx0 : Index} (h : SameShape idx idx0) {stg : Stage}
    {q : List Name} (hp : PlainInputsApart cfg idx0 stg q) : PlainInputsApart cfg idx stg q := by
  intro b hb hn
  rw [findOwner_isNone_sim _ h] at hn
  exact hp b hb hn

theorem CommitInv.init (cfg : Cfg κ) (Sc : Bytes → Prop) (w0 : World κ)
    (hc : Consistent cfg.ctx w0.store) : CommitInv cfg Sc w0 (fresh w0) where
  cons := hc
  le := Store.le_refl _ _
  pending_idx := fun _ _ => rfl
  pending_ws := fun _ _ _ _ _ _ _ => rfl
  finished := fun sp _ h => by simp [fresh] at h

/-- one stage action of the commit traversal keeps the invariant -/
theorem commitInv_step (cfg : Cfg κ) (g : Good cfg.ctx) (strat : Strat) (Sc : Bytes → Prop)
    (w0 : World κ) (hok : PipelineOK cfg Sc w0) (sp : Bytes) (w w1 : World κ) (hsc : Sc sp)
    (hsh : SameShape w.idx w0.idx) (hinv : CommitInv cfg Sc w0 w)
    (hnd : w.done.contains sp = false) (h : commitAct cfg strat sp w = .ok w1) :
    CommitInv cfg Sc w0 w1 := by
  obtain ⟨stg, hs⟩ : ∃ stg, alookup w.idx sp = some stg := by
    cases hl : alookup w.idx sp with
    | some stg => exact ⟨stg, rfl⟩
    | none => simp [commitAct, World.stage, hl] at h
  have hs0 : alookup w0.idx sp = some stg := by rw [← hinv.pending_idx sp hnd]; exact hs
  have hws := hinv.pending_ws sp stg hsc hnd hs0
  have hap := hok.apart_in sp stg hsc hs0
  obtain ⟨c1, l1, d1, ⟨stg', hi1, hl1, ho1⟩, _, rt1, f1⟩ := commitAct_post cfg g strat sp w w1 stg hs hap
    (fun a ha => by
      obtain ⟨n, hn, hp⟩ := hok.pre sp stg hsc hs0 a ha
      exact ⟨n, by rw [hws a ha]; exact hn, hp⟩)
    (fun a ha => (hok.inputs sp stg hsc hs0 sp stg hsc hs0 a ha).sim hsh) hinv.cons h
  have horig : ∀ a, a ∈ stg.outputs → origAt w.ws a = origAt w0.ws a := by
    intro a ha; simp [origAt, hws a ha]
  have hdone : ∀ x, w1.done.contains x = (x == sp || w.done.contains x) := by
    intro x; rw [d1, List.contains_cons]
  refine ⟨c1, Store.le_trans hinv.le l1, ?_, ?_, ?_⟩
  · intro x hx
    rw [hdone, Bool.or_eq_false_iff] at hx
    have hne : x ≠ sp := by simpa using hx.1
    rw [hi1, WT.alookup_setStage_ne _ _ hne]
    exact hinv.pending_idx x hx.2
  · intro x stgx hscx hx hsx a ha
    rw [hdone, Bool.or_eq_false_iff] at hx
    have hne : x ≠ sp := by simpa using hx.1
    rw [← hinv.pending_ws x stgx hscx hx.2 hsx a ha]
    refine f1 _ (fun b hb => hok.apart_across sp x stg stgx hsc hscx (Ne.symm hne) hs0 hsx b hb a ha) ?_
    exact (hok.inputs sp stg hsc hs0 x stgx hscx hsx a ha).sim hsh
  · intro x hscx hx
    by_cases hxs : x = sp
    · subst hxs
      refine ⟨stg, stg', hs0, hl1, ?_, ?_⟩
      · rw [ho1]
        exact List.map_congr_left (fun a ha =>
          committedArt_congr cfg.ctx (hws a (mem_of_mem_sortArts ha)))
      · intro a ha hsk
        rw [← horig a ha]
        exact rt1 a ha hsk
    · have hx' : w.done.contains x = true := by
        rw [hdone] at hx
        have : (x == sp) = false := by simpa using hxs
        simpa [this] using hx
      obtain ⟨s0, s1, e0, e1, e2, e3⟩ := hinv.finished x hscx hx'
      refine ⟨s0, s1, e0, ?_, e2, fun a ha hsk => (e3 a ha hsk).mono l1⟩
      rw [hi1, WT.alookup_setStage_ne _ _ hxs]
      exact e1

/-- **`dud commit`.** After a successful `cmdCommit` on a pipeline satisfying `PipelineOK` the
invariant holds, and the stages done are exactly those in scope (the log `l'` of the traversal lists
them, owners first). -/
theorem cmdCommit_inv (cfg : Cfg κ) (g : Good cfg.ctx) (strat : Strat) (targets : List Bytes)
    (w0 w' : World κ) (hc : Consistent cfg.ctx w0.store)
    (hok : PipelineOK cfg (InScope cfg w0 targets) w0)
    (h : cmdCommit cfg strat targets w0 = .ok w') :
    CommitInv cfg (InScope cfg w0 targets) w0 w' ∧ SameShape w'.idx w0.idx ∧
      ∃ l' : List Bytes, l'.Nodup ∧ (∀ x, x ∈ l' ↔ InScope cfg w0 targets x) ∧
        (∀ x, w'.done.contains x = l'.contains x) ∧
        (∀ x, x ∈ l' → ∀ o, o ∈ ownIdx cfg w0.idx x → Before l' o x) ∧
        (∀ t, t ∈ (if targets.isEmpty then allStages w0 else targets) → t ∈ l') ∧ (∃ t, t ∈ l') := by
  obtain ⟨l', hl, hsh, hnd, hsub, hts, hdone, htop⟩ := cmdCommit_spec cfg strat targets w0 w' hok.keys h
  have hne : ∃ t, t ∈ (if targets.isEmpty then allStages w0 else targets) := by
    cases hts' : (if targets.isEmpty then allStages w0 else targets) with
    | nil =>
      simp only [cmdCommit, hts', List.isEmpty_nil, if_true] at h
      cases h
    | cons t _ => exact ⟨t, List.mem_cons_self⟩
  have hinv := perTarget_preserves (r := true)
    (commitTrav_lawfulOn cfg strat w0.idx hok.keys) (fun w => w.idx.length + 1) allStages
    (if targets.isEmpty then allStages w0 else targets)
    (Q := fun p => CommitInv cfg (InScope cfg w0 targets) w0 p.1)
    (fun sp p p' hsc hi hq hndone _ hact => by
      obtain ⟨s, hs, rfl⟩ := logged_act_inv hact
      exact commitInv_step cfg g strat _ w0 hok sp p.1 s hsc hi hq hndone hs)
    (fresh w0, []) (w', l') (SameShape.refl _) (CommitInv.init cfg _ w0 hc) hl
  obtain ⟨t0, ht0⟩ := hne
  refine ⟨hinv, hsh, l', hnd, fun x => ⟨hsub x, ?_⟩, hdone, htop, hts, ⟨t0, hts t0 ht0⟩⟩
  rintro ⟨t, ht, hr⟩
  exact reach_mem_log hnd htop hr (hts t ht)

/-! ### 3b. `dud checkout` in a clone -/

/-- invariant of the checkout traversal in a clone with cache `sC`: a stage in scope that is not
done has its non-skip outputs absent and writable; one that is done has them checked out -/
structure CheckoutInv (cfg : Cfg κ) (Sc : Bytes → Prop) (w0 : World κ) (sC : Store κ) (v : World κ) :
    Prop where
  store : v.store = sC
  pending : ∀ sp stg, Sc sp → v.done.contains sp = false → alookup w0.idx sp = some stg →
    ∀ a, a ∈ stg.outputs → a.skip = false →
      getPath v.ws (Path.comps a.path) = none ∧ Writable v.ws (Path.comps a.path)
  finished : ∀ sp stg, Sc sp → v.done.contains sp = true → alookup w0.idx sp = some stg →
    ∀ a, a ∈ stg.outputs → a.skip = false → ∃ r, getPath v.ws (Path.comps a.path) = some r ∧
      deref cfg.ctx sC r = trackedOf a (origAt w0.ws a)

/-- one stage action of the checkout traversal succeeds and keeps the invariant -/
theorem checkoutInv_step (cfg : Cfg κ) (strat2 : Strat) (Sc : Bytes → Prop) (w0 w' : World κ)
    (hok : PipelineOK cfg Sc w0) (hci : CommitInv cfg Sc w0 w')
    (hall : ∀ sp, Sc sp → w'.done.contains sp = true) (sC : Store κ)
    (hle : Store.le cfg.ctx w'.store sC) (sp : Bytes) (v : World κ) (hsc : Sc sp)
    (hidx : v.idx = w'.idx) (hinv : CheckoutInv cfg Sc w0 sC v) (hnd : v.done.contains sp = false) :
    ∃ v1, checkoutAct cfg strat2 sp v = .ok v1 ∧ CheckoutInv cfg Sc w0 sC v1 := by
  obtain ⟨stg, stg', e0, e1, e2, e3⟩ := hci.finished sp hsc (hall sp hsc)
  obtain ⟨v1, h1, h2, _, h4, h5, h6⟩ := checkoutAct_committed cfg strat2 sp w0.ws stg stg' v w'.store
    (by rw [hidx]; exact e1) e2 (hok.apart_in sp stg hsc e0) e3 (by rw [hinv.store]; exact hle)
    (hinv.pending sp stg hsc hnd e0)
  have hdone : ∀ x, v1.done.contains x = (x == sp || v.done.contains x) := by
    intro x; rw [h4, List.contains_cons]
  refine ⟨v1, h1, h2.trans hinv.store, ?_, ?_⟩
  · intro x stgx hscx hx hsx a ha hsk
    rw [hdone, Bool.or_eq_false_iff] at hx
    have hne : x ≠ sp := by simpa using hx.1
    obtain ⟨p1, p2⟩ := hinv.pending x stgx hscx hx.2 hsx a ha hsk
    obtain ⟨g1, g2⟩ := h6 (Path.comps a.path)
      (fun b hb _ => hok.apart_across sp x stg stgx hsc hscx (Ne.symm hne) e0 hsx b hb a ha)
    exact ⟨by rw [g1]; exact p1, g2 p2⟩
  · intro x stgx hscx hx hsx a ha hsk
    by_cases hxs : x = sp
    · subst hxs
      rw [e0] at hsx
      cases hsx
      obtain ⟨r, hr, hd⟩ := h5 a ha hsk
      exact ⟨r, hr, by rw [← hinv.store]; exact hd⟩
    · have hx' : v.done.contains x = true := by
        rw [hdone] at hx
        have : (x == sp) = false := by simpa using hxs
        simpa [this] using hx
      obtain ⟨r, hr, hd⟩ := hinv.finished x stgx hscx hx' hsx a ha hsk
      obtain ⟨g1, _⟩ := h6 (Path.comps a.path)
        (fun b hb _ => hok.apart_across sp x stg stgx hsc hscx (Ne.symm hxs) e0 hsx b hb a ha)
      exact ⟨r, by rw [g1]; exact hr, hd⟩

theorem lawfulOn_congr_own {σ : Type} {T : Trav σ} {own own' : Bytes → List Bytes} {Inv : σ → Prop}
    (h : T.LawfulOn own Inv) (he : ∀ sp x, x ∈ own sp ↔ x ∈ own' sp) : T.LawfulOn own' Inv :=
  ⟨fun st sp os hi ho x => (h.owners_eq st sp os hi ho x).trans (he sp x), h.act_done, h.act_inv⟩

theorem reach_congr_own {own own' : Bytes → List Bytes} (he : ∀ sp x, x ∈ own sp → x ∈ own' sp)
    {a b : Bytes} (h : Reach own a b) : Reach own' a b := by
  induction h with
  | refl => exact .refl _
  | step hb _ ih => exact .step (he _ _ hb) ih

/-- **C01, command level.** `dud commit [targets]` on a pipeline satisfying `PipelineOK` (for the
stages in scope: the targets and everything upstream), followed by `dud checkout [targets]` (either
strategy) in ANY world `v` that has the committed index, a cache extending the committed cache,
and in which the non-skip outputs of the stages in scope are absent and writable: the checkout
succeeds, and at the path of every non-skip output of every stage in scope there is a node whose
logical content (`deref`) is the tracked subtree of the original workspace.  Moreover (a) the
committed cache is consistent and extends the initial one, and (b) every stage in scope is recorded
with the outputs `committedArt …`, i.e. with `sum = treeDigest` of the tracked subtree. -/
theorem commit_checkout_world_roundtrip (cfg : Cfg κ) (g : Good cfg.ctx) (strat strat2 : Strat)
    (targets : List Bytes) (w0 w' : World κ) (hc : Consistent cfg.ctx w0.store)
    (hok : PipelineOK cfg (InScope cfg w0 targets) w0)
    (h : cmdCommit cfg strat targets w0 = .ok w') :
    (Consistent cfg.ctx w'.store ∧ Store.le cfg.ctx w0.store w'.store) ∧
    (∀ sp stg, InScope cfg w0 targets sp → alookup w0.idx sp = some stg →
      ∃ stg', alookup w'.idx sp = some stg' ∧
        stg'.outputs = (sortArts stg.outputs).map (committedArt cfg.ctx w0.ws)) ∧
    ∀ v : World κ, v.idx = w'.idx → Store.le cfg.ctx w'.store v.store →
      (∀ sp stg, InScope cfg w0 targets sp → alookup w0.idx sp = some stg →
        ∀ a, a ∈ stg.outputs → a.skip = false →
          getPath v.ws (Path.comps a.path) = none ∧ Writable v.ws (Path.comps a.path)) →
      ∃ v', cmdCheckout cfg strat2 false targets v = .ok v' ∧ v'.store = v.store ∧ v'.idx = v.idx ∧
        ∀ sp stg, InScope cfg w0 targets sp → alookup w0.idx sp = some stg →
          ∀ a, a ∈ stg.outputs → a.skip = false →
            ∃ r, getPath v'.ws (Path.comps a.path) = some r ∧
              deref cfg.ctx v'.store r = trackedOf a (origAt w0.ws a) := by
  obtain ⟨hci, hsh, l', hnd, hiff, hdone, htop, hts, ⟨t0, ht0⟩⟩ :=
    cmdCommit_inv cfg g strat targets w0 w' hc hok h
  have hall : ∀ sp, InScope cfg w0 targets sp → w'.done.contains sp = true := by
    intro sp hsp
    rw [hdone]
    simpa using (hiff sp).2 hsp
  have hstage : ∀ sp, InScope cfg w0 targets sp → ∃ stg stg', alookup w0.idx sp = some stg ∧
      alookup w'.idx sp = some stg' ∧
      stg'.outputs = (sortArts stg.outputs).map (committedArt cfg.ctx w0.ws) := by
    intro sp hsp
    obtain ⟨stg, stg', e0, e1, e2, _⟩ := hci.finished sp hsp (hall sp hsp)
    exact ⟨stg, stg', e0, e1, e2⟩
  refine ⟨⟨hci.cons, hci.le⟩, ?_, ?_⟩
  · intro sp stg hsp hs
    obtain ⟨stg0, stg', e0, e1, e2⟩ := hstage sp hsp
    rw [hs] at e0
    cases e0
    exact ⟨stg', e1, e2⟩
  intro v hv hle hfresh
  -- the traversal laws, w.r.t. the owner function of the original index
  have hown : ∀ sp x, x ∈ ownIdx cfg w'.idx sp ↔ x ∈ ownIdx cfg w0.idx sp :=
    fun sp x => ownIdx_sim cfg hsh sp x
  have hT : (checkoutTrav cfg strat2).LawfulOn (ownIdx cfg w0.idx) (fun u => u.idx = w'.idx) :=
    lawfulOn_congr_own (checkoutTrav_lawfulOn cfg strat2 w'.idx) hown
  have hts' : (if targets.isEmpty then allStages v else targets) =
      (if targets.isEmpty then allStages w0 else targets) := by
    have : allStages v = allStages w0 := by
      simp only [allStages, hv]
      exact hsh.keys
    rw [this]
  -- progress, with a fuel large enough for the rank
  obtain ⟨v', hrun, hi', hq'⟩ := WT.perTarget_progress (T := checkoutTrav cfg strat2)
    (Q := CheckoutInv cfg (InScope cfg w0 targets) w0 v.store) (S := (· ∈ l')) (rank := l'.idxOf) hT
    (fun x hx o ho => ⟨(htop x hx o ho).mem_left, WT.idxOf_lt_of_before hnd (htop x hx o ho)⟩)
    (fun st sp hi hsp => by
      obtain ⟨_, stg', _, e1, _⟩ := hstage sp ((hiff sp).1 hsp)
      have hi : st.idx = w'.idx := hi
      show ∃ os, ownersOf cfg st sp = .ok os
      simp only [ownersOf, World.stage, hi, e1]
      exact ⟨_, rfl⟩)
    (fun st sp hi hq hsp hndone _ =>
      checkoutInv_step cfg strat2 _ w0 w' hok hci hall v.store hle sp st ((hiff sp).1 hsp) hi hq hndone)
    (fun u => l'.length + u.idx.length + 1) allStages
    (fun u hi x hx => by
      have hi : u.idx = w'.idx := hi
      obtain ⟨_, stg', _, e1, _⟩ := hstage x ((hiff x).1 hx)
      have hl : alookup u.idx x = some stg' := by rw [hi]; exact e1
      refine ⟨?_, WT.mem_keys_of_alookup hl, by rw [hl]; rfl⟩
      have := List.idxOf_le_length (l := l') (a := x)
      omega)
    (if targets.isEmpty then allStages v else targets) (fresh v)
    (fun t ht => hts t (hts' ▸ ht)) hv
    { store := rfl
      pending := fun sp stg hsp _ hs a ha hsk => hfresh sp stg hsp hs a ha hsk
      finished := fun sp stg _ hd => by simp [fresh] at hd }
  -- the same run with the fuel `cmdCheckout` uses
  have hcmd : cmdCheckout cfg strat2 false targets v = .ok v' := by
    have hne : v.idx.isEmpty = false := by
      obtain ⟨_, stg', _, e1, _⟩ := hstage t0 ((hiff t0).1 ht0)
      rw [hv]
      cases hw : w'.idx with
      | nil => rw [hw] at e1; simp [alookup] at e1
      | cons _ _ => rfl
    simp only [cmdCheckout, hne, Bool.false_eq_true, if_false, Bool.not_false, Bool.or_true]
    rw [← hrun]
    refine WT.perTarget_congr (fun t u => ?_) _ _
    refine visit_fuel_irrelevant _ true _ _ (allStages u) t u ?_ ?_
    · simp [allStages]
    · simp only [allStages, List.length_map]; omega
  refine ⟨v', hcmd, hq'.store, hi'.trans hv.symm, ?_⟩
  -- every stage in scope has been acted on
  obtain ⟨l'', _, _, hnd'', _, hts'', hdone'', htop''⟩ := cmdCheckout_spec cfg strat2 false targets v v' hcmd
  have htop2 := htop'' (by simp)
  intro sp stg hsp hs a ha hsk
  have hdn : v'.done.contains sp = true := by
    obtain ⟨t, ht, hr⟩ := hsp
    have hr' : Reach (ownIdx cfg v.idx) t sp :=
      reach_congr_own (fun s x hx => by rw [hv]; exact (hown s x).2 hx) hr
    have := reach_mem_log hnd'' htop2 hr' (hts'' t (hts' ▸ ht))
    rw [hdone'']
    simpa using this
  obtain ⟨r, hr, hd⟩ := hq'.finished sp stg hsp hdn hs a ha hsk
  exact ⟨r, hr, by rw [hq'.store]; exact hd⟩

/-- **C01, command level, empty workspace.** The clone has the committed index, a cache extending
the committed one and an EMPTY workspace (no output path is "." itself): `dud checkout` succeeds
and reproduces every tracked tree in scope. -/
theorem commit_checkout_empty_workspace (cfg : Cfg κ) (g : Good cfg.ctx) (strat strat2 : Strat)
    (targets : List Bytes) (w0 w' : World κ) (hc : Consistent cfg.ctx w0.store)
    (hok : PipelineOK cfg (InScope cfg w0 targets) w0)
    (hdot : ∀ sp stg, InScope cfg w0 targets sp → alookup w0.idx sp = some stg →
      ∀ a, a ∈ stg.outputs → a.skip = false → Path.comps a.path ≠ [])
    (h : cmdCommit cfg strat targets w0 = .ok w')
    (v : World κ) (hidx : v.idx = w'.idx) (hws : v.ws = .dir [])
    (hle : Store.le cfg.ctx w'.store v.store) :
    ∃ v', cmdCheckout cfg strat2 false targets v = .ok v' ∧ v'.store = v.store ∧
      ∀ sp stg, InScope cfg w0 targets sp → alookup w0.idx sp = some stg →
        ∀ a, a ∈ stg.outputs → a.skip = false →
          ∃ r, getPath v'.ws (Path.comps a.path) = some r ∧
            deref cfg.ctx v'.store r = trackedOf a (origAt w0.ws a) := by
  obtain ⟨_, _, hco⟩ := commit_checkout_world_roundtrip cfg g strat strat2 targets w0 w' hc hok h
  obtain ⟨v', h1, h2, _, h4⟩ := hco v hidx hle (fun sp stg hsp hs a ha hsk => by
    rw [hws]
    refine ⟨?_, WT.writable_empty _⟩
    cases hp : Path.comps a.path with
    | nil => exact absurd hp (hdot sp stg hsp hs a ha hsk)
    | cons c r => exact WT.getPath_nil_dir r c)
  exact ⟨v', h1, h2, h4⟩

/-! ## non-vacuity: a two-stage pipeline (stage B consumes the output directory of stage A) -/

namespace Example2
open Dud.Example

def cfg : Cfg K :=
  { ctx := ctx, ofBytes := fun _ => .raw "", toBytes := fun _ => [], walkAccumulates := true, fuel := 8 }

/-- output of stage A: a directory `a/` with a file and a sub-directory -/
def treeA : Node K := .dir [([120], .file (.raw "x")), ([121], .dir [([122], .file (.raw "z"))])]

def outA : Art := { path := [97], isDir := true }
def outB : Art := { path := [98] }
def stageA : Stage := { cmd := [1], outputs := [outA] }
/-- stage B reads `a/` (owned by stage A) and writes the file `b` -/
def stageB : Stage := { cmd := [2], inputs := [{ path := [97], isDir := true }], outputs := [outB] }

def w0 : World K :=
  { ws := .dir [([97], treeA), ([98], .file (.raw "out"))],
    idx := [([1], stageA), ([2], stageB)] }

/-- the world after `dud commit` (link strategy), computed by the model -/
def w1 : World K :=
  match cmdCommit cfg .link [] w0 with
  | .ok w => w
  | .error _ => default

theorem commit_ok : cmdCommit cfg .link [] w0 = .ok w1 := rfl

/-- a fresh clone: committed index and cache, empty workspace -/
def clone : World K := { idx := w1.idx, store := w1.store }

theorem idx_cases {sp : Bytes} {stg : Stage} (h : alookup w0.idx sp = some stg) :
    (sp = [1] ∧ stg = stageA) ∨ (sp = [2] ∧ stg = stageB) := by
  simp only [w0, alookup] at h
  split at h
  · rename_i h1
    cases h
    exact .inl ⟨(by simpa using h1 : [1] = sp).symm, rfl⟩
  · split at h
    · rename_i h2
      cases h
      exact .inr ⟨(by simpa using h2 : [2] = sp).symm, rfl⟩
    · cases h

theorem compsA : Path.comps outA.path = [[97]] := rfl
theorem compsB : Path.comps outB.path = [[98]] := rfl

theorem apartAB : Apart (Path.comps outA.path) (Path.comps outB.path) := by
  rw [compsA, compsB]
  exact WT.apart_iff_diverge.2 ⟨[], [97], [98], [], [], by decide, rfl, rfl⟩

theorem preA : ArtPre cfg.ctx cfg.fuel outA treeA where
  kind := rfl
  plain := by simp [treeA, Node.plain, plainList]
  sorted := by simp [treeA, Node.sorted, sortedList, headName]; decide
  names := by
    intro nm h
    refine ⟨rfl, fun _ _ _ => rfl, ?_⟩
    simp only [treeA, allNames, allNamesList, List.mem_cons, List.not_mem_nil,
      List.append_nil, or_false, List.nil_append] at h
    rcases h with rfl | rfl | rfl <;> decide
  fresh := fun _ => ⟨rfl, rfl⟩
  fuel := by simp [trackedOf, outA, treeA, depth, depthList, cfg]

theorem preB : ArtPre cfg.ctx cfg.fuel outB (.file (.raw "out")) where
  kind := rfl
  plain := rfl
  sorted := rfl
  names := by intro nm h; simp [allNames] at h
  fresh := fun h => by cases h
  fuel := by simp [trackedOf, depth, cfg]

/-- every hypothesis of the command-level theorem holds for the example (for ALL stages, hence for
those in scope) -/
theorem pipelineOK (Sc : Bytes → Prop) : PipelineOK cfg Sc w0 where
  keys := by decide
  apart_in := by
    intro sp stg _ hs
    rcases idx_cases hs with ⟨_, rfl⟩ | ⟨_, rfl⟩ <;> exact List.pairwise_singleton _ _
  apart_across := by
    intro sp1 sp2 stg1 stg2 _ _ hne h1 h2 a ha b hb
    rcases idx_cases h1 with ⟨rfl, rfl⟩ | ⟨rfl, rfl⟩ <;> rcases idx_cases h2 with ⟨rfl, rfl⟩ | ⟨rfl, rfl⟩
    · exact absurd rfl hne
    · simp only [stageA, stageB, List.mem_singleton] at ha hb
      subst ha; subst hb; exact apartAB
    · simp only [stageA, stageB, List.mem_singleton] at ha hb
      subst ha; subst hb; exact apartAB.symm
    · exact absurd rfl hne
  pre := by
    intro sp stg _ hs a ha
    rcases idx_cases hs with ⟨_, rfl⟩ | ⟨_, rfl⟩
    · simp only [stageA, List.mem_singleton] at ha
      subst ha
      exact ⟨treeA, rfl, preA⟩
    · simp only [stageB, List.mem_singleton] at ha
      subst ha
      exact ⟨_, rfl, preB⟩
  inputs := by
    intro sp stg _ hs sp' stg' _ _ a _ b hb hn
    rcases idx_cases hs with ⟨_, rfl⟩ | ⟨_, rfl⟩
    · simp [stageA] at hb
    · simp only [stageB, List.mem_singleton] at hb
      subst hb
      have : (findOwner cfg.walkAccumulates w0.idx [97]).isNone = false := rfl
      rw [this] at hn
      cases hn

theorem scope_all (sp : Bytes) (h : sp = [1] ∨ sp = [2]) : InScope cfg w0 [] sp := by
  refine ⟨sp, ?_, .refl _⟩
  rcases h with rfl | rfl <;> decide

/-- **The command-level theorem instantiated**: `dud commit` of the two-stage pipeline, then
`dud checkout` (either strategy) in the fresh clone with an empty workspace, rebuilds the directory
`a/` of stage A and the file `b` of stage B. -/
theorem two_stage_roundtrip (strat2 : Strat) :
    ∃ v', cmdCheckout cfg strat2 false [] clone = .ok v' ∧
      (∃ r, getPath v'.ws [[97]] = some r ∧ deref ctx v'.store r = treeA) ∧
      (∃ r, getPath v'.ws [[98]] = some r ∧ deref ctx v'.store r = .file (.raw "out")) := by
  obtain ⟨v', h1, _, h3⟩ := commit_checkout_empty_workspace cfg good .link strat2 [] w0 w1
    (by intro d o h; simp [w0, Store.get, alookup] at h) (pipelineOK _)
    (by
      intro sp stg _ hs a ha _
      rcases idx_cases hs with ⟨_, rfl⟩ | ⟨_, rfl⟩
      · simp only [stageA, List.mem_singleton] at ha
        subst ha; rw [compsA]; simp
      · simp only [stageB, List.mem_singleton] at ha
        subst ha; rw [compsB]; simp)
    commit_ok clone rfl rfl (Store.le_refl _ _)
  refine ⟨v', h1, ?_, ?_⟩
  · exact h3 [1] stageA (scope_all _ (.inl rfl)) rfl outA (by simp [stageA]) rfl
  · exact h3 [2] stageB (scope_all _ (.inr rfl)) rfl outB (by simp [stageB]) rfl

/-- the same by running the model: with the copy strategy the clone's workspace IS the original -/
def copyExact : Bool :=
  match cmdCheckout cfg .copy false [] clone with
  | .ok v => nodeBEq v.ws w0.ws
  | .error _ => false

#eval copyExact

/-- the recorded checksum of `a/` is `treeDigest` of the tree (clause (b), evaluated) -/
theorem two_stage_sum : (alookup w1.idx [1]).map (fun s => s.outputs.map (·.sum)) =
    some [treeDigest ctx [97] treeA] := rfl

end Example2

/-! ## axioms -/

#print axioms getPath_setPath_same
#print axioms getPath_setPath_other
#print axioms setPath_succeeds
#print axioms setPath_keeps_writable
#print axioms trackedOf_sum
#print axioms RoundTrip.mono
#print axioms commitArt_roundtrip
#print axioms origAt_of_getPath
#print axioms committedArt_congr
#print axioms commitArtW_post
#print axioms commitArts_post
#print axioms commitAct_post
#print axioms checkoutArtW_skip
#print axioms checkoutArtW_absent
#print axioms checkoutArts_fresh
#print axioms checkoutAct_fresh
#print axioms committedArt_paths
#print axioms trackedOf_committedArt
#print axioms checkoutAct_committed
#print axioms stage_commit_checkout_roundtrip
#print axioms findOwner_isNone_sim
#print axioms PlainInputsApart.sim
#print axioms CommitInv.init
#print axioms commitInv_step
#print axioms cmdCommit_inv
#print axioms checkoutInv_step
#print axioms lawfulOn_congr_own
#print axioms reach_congr_own
#print axioms commit_checkout_world_roundtrip
#print axioms commit_checkout_empty_workspace
#print axioms Example2.commit_ok
#print axioms Example2.idx_cases
#print axioms Example2.compsA
#print axioms Example2.compsB
#print axioms Example2.apartAB
#print axioms Example2.preA
#print axioms Example2.preB
#print axioms Example2.pipelineOK
#print axioms Example2.scope_all
#print axioms Example2.two_stage_roundtrip
#print axioms Example2.two_stage_sum

end Dud
