import DudModel.Lemmas.Checkout
import DudModel.Generated.Facts
/-!
# C19: a copy checkout never succeeds with corrupted bytes

`Verified ctx s fuel c n`: the node `n` is a faithful materialisation of the manifest entry `c`:
a file entry is a regular file whose bytes hash to `c.sum` (created from the cache object, or
pre-existing and accepted by the skip branch `upToDateCopy`); a directory entry is a directory in which every entry of the manifest stored under
`c.sum` is present and (recursively) verified.  A successful copy checkout always returns a verified
node, whatever was in the workspace before (`checkoutNode_copy_verified`).  Together with
`checkoutNode_copy_position` (every position of the result is either named by the manifest, hence
verified, or untouched) this is the "every file created by this call hashes to the checksum its
manifest entry records" statement.  With the link strategy nothing is verified
(`link_checkout_does_not_verify`).
-/
namespace Dud

variable {κ : Type}

def Verified (ctx : Ctx κ) (s : Store κ) : Nat → Child → Node κ → Prop
  | 0, _, _ => False
  | fuel + 1, c, n =>
    if c.isDir then
      ∃ es cs, n = .dir es ∧ readManifest ctx s c.sum = .ok cs ∧
        ∀ k ∈ cs, ∃ nk, alookup es k.name = some nk ∧ Verified ctx s fuel k nk
    else ∃ b, n = .file b ∧ ctx.H b = c.sum

/-- a verified node stays verified under anything a later checkout step may do to it -/
theorem Verified_keeps {ctx : Ctx κ} {s : Store κ} {strat : Strat} :
    ∀ (fuel : Nat) (c : Child) (n n' : Node κ),
      Verified ctx s fuel c n → Keeps ctx s strat n n' → Verified ctx s fuel c n' := by
  intro fuel
  induction fuel with
  | zero => intro c n n' h _; exact h.elim
  | succ fuel ih =>
    intro c n n' h hk
    unfold Verified at h ⊢
    split
    · rename_i hc
      simp only [hc, if_true] at h
      obtain ⟨es, cs, rfl, hm, hall⟩ := h
      unfold Keeps at hk
      obtain ⟨es', rfl, hl⟩ := hk
      refine ⟨es', cs, rfl, hm, ?_⟩
      intro k hkm
      obtain ⟨nk, hnk, hv⟩ := hall k hkm
      obtain ⟨nk', hnk', hkk⟩ := KeepsList_alookup hl hnk
      exact ⟨nk', hnk', ih k nk nk' hv hkk⟩
    · rename_i hc
      simp only [hc] at h
      obtain ⟨b, rfl, hH⟩ := h
      unfold Keeps at hk
      exact ⟨b, hk, hH⟩

/-- **checkoutFile, copy: files created by the call.**  When the path is absent, or holds the
matching link, or anything the skip branch does not accept, a successful copy leaves a regular file
with the bytes of the object under `sum`, and these bytes hash to `sum`. -/
theorem checkoutFile_copy_ok {ctx : Ctx κ} {cur : Option (Node κ)} {sum : Digest} {s : Store κ}
    {n' : Node κ} (hup : upToDateCopy ctx cur sum = false)
    (h : checkoutFile ctx .copy cur sum s = .ok n') :
    ∃ o, s.get sum = some o ∧ n' = .file (o.bytes ctx) ∧ ctx.H (o.bytes ctx) = sum := by
  cases cur with
  | some n =>
    rcases checkoutFile_some_ok h with ⟨h1, _⟩ | ⟨_, _, _, h⟩
    · rw [hup] at h1; cases h1
    · rcases h with ⟨h, _⟩ | ⟨_, h⟩
      · cases h
      · exact h
  | none =>
    unfold checkoutFile at h
    simp only at h
    split at h; · cases h
    split at h; · cases h
    split at h; · cases h
    rename_i o ho
    have hq : (quick s sum (none : Option (Node κ))).cm = false := rfl
    simp only [upToDateCopy_none, hq, Bool.false_eq_true, if_false] at h
    split at h
    · rename_i hH
      simp only [Except.ok.injEq] at h
      exact ⟨o, ho, h.symm, by simpa using hH⟩
    · cases h

/-- **the skip branch.**  A pre-existing regular file that `checkoutFile` accepts (either strategy)
is kept as is and hashes to the recorded checksum. -/
theorem uptodate_copy_is_verified {ctx : Ctx κ} {strat : Strat} {n n' : Node κ} {sum : Digest}
    {s : Store κ} (hup : upToDateCopy ctx (some n) sum = true)
    (h : checkoutFile ctx strat (some n) sum s = .ok n') :
    ∃ c, n = .file c ∧ n' = .file c ∧ ctx.H c = sum := by
  obtain ⟨c, rfl, hH⟩ := upToDateCopy_some hup
  rcases checkoutFile_some_ok h with ⟨_, rfl⟩ | ⟨h1, _⟩
  · exact ⟨c, rfl, rfl, hH⟩
  · rw [hup] at h1; cases h1

/-- **checkoutFile, copy.**  Whatever was at the path, a successful copy checkout leaves a regular
file hashing to the recorded checksum — created from the cache object or pre-existing and accepted. -/
theorem checkoutFile_copy_verified {ctx : Ctx κ} {cur : Option (Node κ)} {sum : Digest}
    {s : Store κ} {n' : Node κ} (h : checkoutFile ctx .copy cur sum s = .ok n') :
    ∃ b, n' = .file b ∧ ctx.H b = sum := by
  cases hup : upToDateCopy ctx cur sum with
  | false =>
    obtain ⟨o, _, hn, hH⟩ := checkoutFile_copy_ok hup h
    exact ⟨_, hn, hH⟩
  | true =>
    cases cur with
    | none => cases hup
    | some n =>
      obtain ⟨c, _, hn', hH⟩ := uptodate_copy_is_verified hup h
      exact ⟨c, hn', hH⟩

theorem checkoutChildren_verified {ctx : Ctx κ} {s : Store κ} {fuel : Nat}
    {f : Option (Node κ) → Child → Except Err (Node κ)}
    (hv : ∀ cur c n, f cur c = .ok n → Verified ctx s fuel c n)
    (hk : ∀ n c n', f (some n) c = .ok n' → Keeps ctx s .copy n n') :
    ∀ (cs : List Child) (es es' : List (Name × Node κ)),
      checkoutChildren f es cs = .ok es' →
      ∀ k ∈ cs, ∃ nk, alookup es' k.name = some nk ∧ Verified ctx s fuel k nk := by
  intro cs
  induction cs with
  | nil => intro _ _ _ k hk; cases hk
  | cons c cs ih =>
    intro es es' h k hkm
    simp only [checkoutChildren] at h
    split at h
    · cases h
    · rename_i n hn
      rcases List.mem_cons.mp hkm with rfl | hkm
      · have hl := checkoutChildren_keeps hk cs _ _ h
        obtain ⟨n', hn', hkk⟩ := KeepsList_alookup hl (alookup_setEntry_self es k.name n)
        exact ⟨n', hn', Verified_keeps fuel k n n' (hv _ _ _ hn) hkk⟩
      · exact ih _ _ h k hkm

/-- **checkoutNode, copy.**  For every fuel, every workspace state and every manifest nesting. -/
theorem checkoutNode_copy_verified {ctx : Ctx κ} {s : Store κ} :
    ∀ (fuel : Nat) (cur : Option (Node κ)) (c : Child) (n' : Node κ),
      checkoutNode ctx .copy s fuel cur c = .ok n' → Verified ctx s fuel c n' := by
  intro fuel
  induction fuel with
  | zero => intro cur c n' h; simp [checkoutNode] at h
  | succ fuel ih =>
    intro cur c n' h
    have key : ∀ (es : List (Name × Node κ)) (cs : List Child) (es' : List (Name × Node κ)),
        c.isDir = true → readManifest ctx s c.sum = .ok cs →
        checkoutChildren (checkoutNode ctx .copy s fuel) es cs = .ok es' →
        Verified ctx s (fuel + 1) c (.dir es') := by
      intro es cs es' hc hm hes
      unfold Verified
      simp only [hc, if_true]
      exact ⟨es', cs, rfl, hm,
        checkoutChildren_verified ih (checkoutNode_keeps ctx .copy s fuel) cs es es' hes⟩
    simp only [checkoutNode] at h
    split at h
    · rename_i hc
      split at h; · cases h
      split at h; · cases h
      split at h
      · split at h; · cases h
        rename_i cs hm
        split at h; · cases h
        rename_i es' hes
        simp only [Except.ok.injEq] at h; subst h
        exact key _ cs es' hc hm hes
      · split at h; · cases h
        rename_i cs hm
        split at h; · cases h
        rename_i es' hes
        simp only [Except.ok.injEq] at h; subst h
        exact key _ cs es' hc hm hes
      · cases h
    · rename_i hc
      unfold Verified
      simp only [hc]
      exact checkoutFile_copy_verified h

/-- every position of the resulting directory is either named by the manifest (then verified) or
exactly what it was before: the files this call created are precisely verified ones -/
theorem checkoutNode_copy_position {ctx : Ctx κ} {s : Store κ} {fuel : Nat}
    {es es' : List (Name × Node κ)} {c : Child} {cs : List Child}
    (hm : readManifest ctx s c.sum = .ok cs) (hc : c.isDir = true)
    (h : checkoutNode ctx .copy s (fuel + 1) (some (.dir es)) c = .ok (.dir es')) (nm : Name) :
    (∃ k ∈ cs, k.name = nm ∧ ∃ nk, alookup es' nm = some nk ∧ Verified ctx s fuel k nk) ∨
      alookup es' nm = alookup es nm := by
  have hv := checkoutNode_copy_verified _ _ _ _ h
  unfold Verified at hv
  simp only [hc, if_true, hm, Except.ok.injEq, Node.dir.injEq] at hv
  obtain ⟨es2, cs2, rfl, rfl, hall⟩ := hv
  by_cases hex : ∃ k ∈ cs, k.name = nm
  · obtain ⟨k, hk, rfl⟩ := hex
    exact Or.inl ⟨k, hk, rfl, hall k hk⟩
  · right
    simp only [checkoutNode, hc, if_true, hm] at h
    split at h; · cases h
    split at h; · cases h
    split at h
    · cases h
    · rename_i es'' hes
      simp only [Except.ok.injEq, Node.dir.injEq] at h; subst h
      exact checkoutChildren_untracked cs es es'' nm hes
        (fun k hk hn => hex ⟨k, hk, hn⟩)

/-! ## corrupted objects are detected -/

/-- **corrupt object, file.**  No injectivity of the hash is assumed. -/
theorem corrupt_object_detected {ctx : Ctx κ} {s : Store κ} {sum : Digest} {o : Obj κ}
    (hs : hasSum sum = true) (ho : s.get sum = some o) (hbad : ctx.H (o.bytes ctx) ≠ sum) :
    checkoutFile ctx .copy none sum s = .error .sumMismatch := by
  have hhas : s.has sum = true := by simp [Store.has, ho]
  have hne : (ctx.H (o.bytes ctx) == sum) = false := by simpa using hbad
  simp [checkoutFile, upToDateCopy, quick, hs, hhas, ho, hne]

/-- whenever the object has to be copied (the path does not already hold a regular file hashing to
`sum`) and whether or not the checksum is well formed: never a success -/
theorem corrupt_object_never_ok {ctx : Ctx κ} {s : Store κ} {sum : Digest} {o : Obj κ}
    {cur : Option (Node κ)} {n' : Node κ} (hup : upToDateCopy ctx cur sum = false)
    (ho : s.get sum = some o) (hbad : ctx.H (o.bytes ctx) ≠ sum)
    (h : checkoutFile ctx .copy cur sum s = .ok n') : False := by
  obtain ⟨o', ho', _, hH⟩ := checkoutFile_copy_ok hup h
  rw [ho] at ho'; cases ho'; exact hbad hH

/-- `f` is a file entry reachable from `c` through the manifests of the store -/
inductive ReachFile (ctx : Ctx κ) (s : Store κ) : Child → Child → Prop
  | here {c : Child} : c.isDir = false → ReachFile ctx s c c
  | step {c k f : Child} {cs : List Child} : c.isDir = true → readManifest ctx s c.sum = .ok cs →
      k ∈ cs → ReachFile ctx s k f → ReachFile ctx s c f

/-- **corrupt object, tree.**  If ANY file entry reachable through the manifests has a corrupted
object, a copy checkout into an absent workspace fails, for every fuel. -/
theorem corrupt_reachable_never_ok {ctx : Ctx κ} {s : Store κ} (hnd : ManifestsNodup ctx s)
    {c f : Child} {o : Obj κ}
    (hr : ReachFile ctx s c f) (ho : s.get f.sum = some o) (hbad : ctx.H (o.bytes ctx) ≠ f.sum) :
    ∀ (fuel : Nat) (n' : Node κ), checkoutNode ctx .copy s fuel none c = .ok n' → False := by
  induction hr with
  | here hc =>
    intro fuel n' h
    cases fuel with
    | zero => simp [checkoutNode] at h
    | succ fuel =>
      simp only [checkoutNode, hc] at h
      exact corrupt_object_never_ok (upToDateCopy_none ctx _) ho hbad h
  | step hc hm hk _ ih =>
    intro fuel n' h
    cases fuel with
    | zero => simp [checkoutNode] at h
    | succ fuel =>
      simp only [checkoutNode, hc, if_true, hm] at h
      split at h; · cases h
      split at h; · cases h
      split at h; · cases h
      rename_i es' hes
      obtain ⟨n, hn⟩ := checkoutChildren_fresh_each _ [] es' (hnd _ _ hm) (fun _ _ => rfl) hes _ hk
      exact ih ho hbad fuel n hn

theorem corrupt_reachable_detected {ctx : Ctx κ} {s : Store κ} (hnd : ManifestsNodup ctx s)
    {c f : Child} {o : Obj κ}
    (hr : ReachFile ctx s c f) (ho : s.get f.sum = some o) (hbad : ctx.H (o.bytes ctx) ≠ f.sum)
    (fuel : Nat) : ∃ e, checkoutNode ctx .copy s fuel none c = .error e := by
  cases h : checkoutNode ctx .copy s fuel none c with
  | error e => exact ⟨e, rfl⟩
  | ok n' => exact (corrupt_reachable_never_ok hnd hr ho hbad fuel n' h).elim

/-- **Regenerated-fact obligation.**  `checkoutFile`'s copy branch compares the checksum computed
while copying with `art.Checksum`. -/
theorem copy_verifies_fact : Dud.Facts.copyVerifies = true := by decide

/-- **Regenerated-fact obligation: what is verified is what is written.**  In the copy branch of `checkoutFile` (helpers of the
package looked through) every value compared with the recorded checksum derives from `checksum.Checksum` applied to a reader
that tees the opened cache object into the exclusively created destination (`io.TeeReader` … `os.OpenFile`; or a copy into an
`io.MultiWriter` over hasher and destination), and no other copy writes into the destination: the bytes that reach the workspace
file are the bytes that were hashed, in ONE pass over the object — the model's `copyOut` hashes the very byte string it places.
A verification pass followed by a separate copy pass (the object can change in between) does not satisfy this. -/
def singlePass (l : List String) : Bool :=
  l.contains "call:os.OpenFile" && (l.contains "call:io.TeeReader" || l.contains "call:io.MultiWriter")

theorem copy_single_pass_fact :
    Dud.Facts.copyHashedSources ≠ [] ∧ Dud.Facts.copyHashedSources.all singlePass = true ∧
      Dud.Facts.copyUnhashedWriters = 0 := by decide

/-! ## Negative witness and non-vacuity -/

def C19.ctx : Ctx Nat :=
  { H := fun n => if n = 0 then "aaa" else if n = 1 then "bbb" else "ccc"
    encMan := fun _ _ _ => 99, decBlob := fun _ => none, reload := fun _ c => c
    nameOK := fun _ => true }
/-- `aaa` is fine, the object under `bbb` is corrupted (bytes 7 hash to `ccc`);
`mmm` = {x ↦ aaa, sub/ ↦ nnn}, `nnn` = {z ↦ bbb}; `ggg` = {x ↦ aaa} is entirely good -/
def C19.store : Store Nat :=
  [("aaa", .blob 0), ("bbb", .blob 7),
   ("mmm", .man .new [] [⟨[120], "aaa", false⟩, ⟨[115], "nnn", true⟩]),
   ("nnn", .man .new [115] [⟨[122], "bbb", false⟩]),
   ("ggg", .man .new [] [⟨[120], "aaa", false⟩])]

open C19 in
/-- **Negative witness.**  The link strategy happily links to a corrupted object. -/
theorem link_checkout_does_not_verify :
    ∃ o, store.get "bbb" = some o ∧ ctx.H (o.bytes ctx) ≠ "bbb" ∧
      checkoutFile ctx .link none "bbb" store = .ok (.link (.obj "bbb")) :=
  ⟨.blob 7, rfl, by decide, rfl⟩

open C19 in
example : checkoutFile ctx .copy none "bbb" store = .error .sumMismatch :=
  corrupt_object_detected (by decide) (o := .blob 7) rfl (by decide)
open C19 in
-- the skip branch: a workspace file hashing to `bbb` is accepted although the OBJECT under `bbb` is
-- corrupted (it is never read); the kept file does hash to the recorded checksum
example : checkoutFile ctx .copy (some (.file 1)) "bbb" store = .ok (.file 1) ∧ ctx.H 1 = "bbb" :=
  ⟨rfl, rfl⟩
open C19 in
example : upToDateCopy ctx (some (.file 1)) "bbb" = true := rfl
open C19 in
theorem C19.store_nodup : ManifestsNodup ctx store := by
  intro d cs h
  unfold readManifest at h
  cases hg : store.get d with
  | none => rw [hg] at h; cases h
  | some o =>
    have hmem := alookup_mem hg
    rw [hg] at h
    simp only [store, List.mem_cons, Prod.mk.injEq, List.not_mem_nil, or_false] at hmem
    rcases hmem with ⟨rfl, rfl⟩ | ⟨rfl, rfl⟩ | ⟨rfl, rfl⟩ | ⟨rfl, rfl⟩ | ⟨rfl, rfl⟩
    · cases h
    · cases h
    · obtain ⟨rfl, -⟩ := checkedChildren_eq_ok h; decide
    · obtain ⟨rfl, -⟩ := checkedChildren_eq_ok h; decide
    · obtain ⟨rfl, -⟩ := checkedChildren_eq_ok h; decide
open C19 in
-- the corrupted object sits two manifests deep
theorem C19.reach : ReachFile ctx store ⟨[], "mmm", true⟩ ⟨[122], "bbb", false⟩ :=
  .step (k := ⟨[115], "nnn", true⟩) (cs := [⟨[120], "aaa", false⟩, ⟨[115], "nnn", true⟩])
    rfl rfl (by decide)
    (.step (k := ⟨[122], "bbb", false⟩) (cs := [⟨[122], "bbb", false⟩]) rfl rfl (by decide)
      (.here rfl))
open C19 in
-- all hypotheses of `corrupt_reachable_detected` hold together
example : ∃ e, checkoutNode ctx .copy store 3 none ⟨[], "mmm", true⟩ = .error e :=
  corrupt_reachable_detected store_nodup reach (o := .blob 7) rfl (by decide) 3
open C19 in
example : checkoutNode ctx .copy store 3 none ⟨[], "mmm", true⟩ = .error .sumMismatch := by rfl
open C19 in
example : checkoutNode ctx .link store 3 none ⟨[], "mmm", true⟩
    = .ok (.dir [([120], .link (.obj "aaa")), ([115], .dir [([122], .link (.obj "bbb"))])]) := by rfl
open C19 in
-- a successful copy checkout (hypothesis of `checkoutNode_copy_verified` satisfiable)
example : checkoutNode ctx .copy store 3 (some (.dir [([121], .file 5)])) ⟨[], "ggg", true⟩
    = .ok (.dir [([121], .file 5), ([120], .file 0)]) := by rfl
open C19 in
example : Verified ctx store 3 ⟨[], "ggg", true⟩ (.dir [([121], .file 5), ([120], .file 0)]) :=
  checkoutNode_copy_verified 3 (some (.dir [([121], .file 5)])) _ _ rfl

end Dud

#print axioms Dud.Verified_keeps
#print axioms Dud.checkoutFile_copy_ok
#print axioms Dud.uptodate_copy_is_verified
#print axioms Dud.checkoutFile_copy_verified
#print axioms Dud.checkoutNode_copy_verified
#print axioms Dud.checkoutNode_copy_position
#print axioms Dud.corrupt_object_detected
#print axioms Dud.corrupt_object_never_ok
#print axioms Dud.corrupt_reachable_never_ok
#print axioms Dud.corrupt_reachable_detected
#print axioms Dud.copy_verifies_fact
#print axioms Dud.link_checkout_does_not_verify
