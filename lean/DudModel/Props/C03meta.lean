import DudModel.Props.C03
import DudModel.Generated.Facts
/-!
# C03 (metadata part) — the obligation on the Go code

`meta_atomic` (in `C03.lean`) shows that rewriting a stage file / the index by temp file + rename is
atomic, `meta_torn_in_place` that create-truncate is not.  Which variant the Go code uses is a
regenerated fact (`tools/factgen` → `DudModel/Generated/Facts.lean`: `stageWrite`, `indexWrite`).

**This file does NOT build while the facts say `"createTrunc"`** (current Go code: `stage.ToFile`
and `index.ToFile` call `os.Create` on the final path) — that is the defect.  It builds once both
writers go through a temp file and `os.Rename`.
-/
namespace Dud.Sys

def stageWriteAtomic : Bool := Dud.Facts.stageWrite == "tempRename"
def indexWriteAtomic : Bool := Dud.Facts.indexWrite == "tempRename"

/-- the obligation: both metadata writers use the atomic variant -/
theorem meta_write_fact : stageWriteAtomic = true ∧ indexWriteAtomic = true := by decide

/-- hence every crash prefix of a stage-file / index rewrite shows the complete old or the complete
new version -/
theorem stage_write_atomic {κ : Type} (emp : κ) (isEmp : κ → Bool) (hemp : ∀ c, isEmp c = true → c = emp)
    (fs : FS κ) (rel : Bytes) (habs : fs.get (.stageTmp rel) = none) (new : κ) :
    ∀ k, (replay emp fs ((metaWriteCalls stageWriteAtomic (.stageFile rel) (.stageTmp rel) isEmp new).take k)).get
        (.stageFile rel) = fs.get (.stageFile rel) ∨
      ∃ m, (replay emp fs ((metaWriteCalls stageWriteAtomic (.stageFile rel) (.stageTmp rel) isEmp new).take k)).get
        (.stageFile rel) = some (.file new m) := by
  rw [meta_write_fact.1]
  exact meta_atomic emp isEmp hemp fs _ _ (by simp) habs new

theorem index_write_atomic {κ : Type} (emp : κ) (isEmp : κ → Bool) (hemp : ∀ c, isEmp c = true → c = emp)
    (fs : FS κ) (habs : fs.get .indexTmp = none) (new : κ) :
    ∀ k, (replay emp fs ((metaWriteCalls indexWriteAtomic .index .indexTmp isEmp new).take k)).get .index
        = fs.get .index ∨
      ∃ m, (replay emp fs ((metaWriteCalls indexWriteAtomic .index .indexTmp isEmp new).take k)).get .index
        = some (.file new m) := by
  rw [meta_write_fact.2]
  exact meta_atomic emp isEmp hemp fs _ _ (by simp) habs new

#print axioms meta_write_fact
#print axioms stage_write_atomic
#print axioms index_write_atomic

end Dud.Sys
