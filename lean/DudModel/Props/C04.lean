import DudModel.Props.C03
import DudModel.Lock
/-!
# C04 — a failed commit loses nothing

Fault model: the j-th mutating call of the operation fails with an errno.  A failing call has NO
effect on the file system (a short write is the pair `writePart`/`write`: the fault is then at the
`write`), the Go code returns the error up the stack and issues no further mutating call except the
removal of its own private temp files (`commitBytes`, the rename probe, `Stage.ToFile`,
`Index.ToFile` unlink the temp file they created; the deferred `Close` calls do not mutate).
`runFault` executes a trace under this model; `runFault_eq_prefix` shows that the state left behind
is exactly a crash prefix `replay emp fs (calls.take k)` — which is why C04 is a corollary of C03:
`∀ k, Safe … (replay … (calls.take k))` covers every fault position — and `cleanup_safe` /
`commit_fault_cleanup_safe` show that unlinking any set of temp paths afterwards keeps it safe.

Second part (`DudModel/Lock.lean`): a command built on `prepare` whose body fails still removes the
lock file and exits non-zero.
-/
namespace Dud.Sys

open Dud

variable {κ : Type}

/-- run a trace in which the call at (0-based) position `k` fails: the calls before it take effect,
the failing call has no effect, nothing after it is issued.  (`k ≥ length`: no fault.) -/
def runFault (emp : κ) : FS κ → List (Call κ) → Nat → FS κ
  | fs, [], _ => fs
  | fs, _ :: _, 0 => fs
  | fs, c :: cs, k+1 => runFault emp (apply emp fs c) cs k

/-- the calls that took effect when the call at position `k` failed -/
def faultAt (k : Nat) (calls : List (Call κ)) : List (Call κ) := calls.take k

/-- **A fault leaves a crash prefix.** -/
theorem runFault_eq_prefix (emp : κ) : ∀ (calls : List (Call κ)) (fs : FS κ) (k : Nat),
    runFault emp fs calls k = replay emp fs (faultAt k calls)
  | [], fs, k => by simp [runFault, faultAt, replay]
  | c :: cs, fs, 0 => by simp [runFault, faultAt, replay]
  | c :: cs, fs, k+1 => by
    simp only [runFault, faultAt, List.take_succ_cons, replay_cons]
    exact runFault_eq_prefix emp cs (apply emp fs c) k

/-- 1-based numbering as in the fault-injection harness: "the k-th call fails" leaves the first
`k-1` calls -/
theorem runFault_kth (emp : κ) (calls : List (Call κ)) (fs : FS κ) (k : Nat) :
    runFault emp fs calls (k - 1) = replay emp fs (calls.take (k - 1)) := by
  have := runFault_eq_prefix emp calls fs (k - 1)
  simpa [faultAt] using this

/-- **A failed `LocalCache.Commit` loses nothing** (general form): whatever call fails, every
recorded byte sequence is still retrievable and no object is torn. -/
theorem commit_fault_safe {t : TCfg κ} (g : Good t.ctx) {tracked : List (P × κ)}
    (htw : TrackedWs tracked) {emp : κ} (hemp : ∀ c, t.isEmp c = true → c = emp)
    {a : Art} {pre : List Name} {nd : Option (Node κ)} {s : Store κ}
    {res : Node κ × Digest × Store κ} {calls : List (Call κ)}
    (hu : uniqOpt nd) (h : commitArtT t a pre nd s = .ok (res, calls))
    {fs : FS κ} (hs : Safe t.ctx tracked fs)
    (hin : ∀ p ∈ trackedOpt pre nd, ∃ m, fs.get p.1 = some (.file p.2 m))
    (hfr : ∀ k, 1 ≤ k → fs.get (.ctmp k) = none) :
    ∀ k, Safe t.ctx tracked (runFault emp fs calls k) := by
  intro k
  rw [runFault_eq_prefix]
  exact commitArtT_crash_safe g htw hemp hu h hs hin hfr k

/-- a private temp path: never a workspace path, never a cache object -/
def P.isTemp : P → Bool
  | .ctmp _ | .wtmp _ | .stageTmp _ | .indexTmp => true
  | _ => false

/-- **Cleanup after a fault is harmless.**  Unlinking any list of private temp paths (whether they
exist or not) keeps every recorded byte sequence retrievable and no object torn. -/
theorem cleanup_safe {ctx : Ctx κ} (g : Good ctx) {tracked : List (P × κ)} (htw : TrackedWs tracked)
    (emp : κ) : ∀ (tmps : List P) {fs : FS κ}, Safe ctx tracked fs → (∀ p ∈ tmps, p.isTemp = true) →
    Safe ctx tracked (replay emp fs (tmps.map Call.unlink))
  | [], fs, hs, _ => by simpa [replay] using hs
  | p :: ps, fs, hs, h => by
    simp only [List.map_cons, replay_cons]
    have hp : p.isTemp = true := h p (by simp)
    have ha : Allowed ctx tracked fs (Call.unlink p) := by
      refine ⟨?_, backed_of_notWs htw fs ?_⟩
      · cases p <;> simp_all [P.isTemp, P.isObj]
      · intro q e; subst e; simp [P.isTemp] at hp
    exact cleanup_safe g htw emp ps (hs.apply g emp ha) (fun q hq => h q (by simp [hq]))

/-- **A failed commit with cleanup loses nothing**: whatever call fails and whichever of its temp
files the code removes afterwards. -/
theorem commit_fault_cleanup_safe {t : TCfg κ} (g : Good t.ctx) {tracked : List (P × κ)}
    (htw : TrackedWs tracked) {emp : κ} (hemp : ∀ c, t.isEmp c = true → c = emp)
    {a : Art} {pre : List Name} {nd : Option (Node κ)} {s : Store κ}
    {res : Node κ × Digest × Store κ} {calls : List (Call κ)}
    (hu : uniqOpt nd) (h : commitArtT t a pre nd s = .ok (res, calls))
    {fs : FS κ} (hs : Safe t.ctx tracked fs)
    (hin : ∀ p ∈ trackedOpt pre nd, ∃ m, fs.get p.1 = some (.file p.2 m))
    (hfr : ∀ k, 1 ≤ k → fs.get (.ctmp k) = none)
    (tmps : List P) (htm : ∀ p ∈ tmps, p.isTemp = true) :
    ∀ k, Safe t.ctx tracked (replay emp (runFault emp fs calls k) (tmps.map Call.unlink)) := fun k =>
  cleanup_safe g htw emp tmps (commit_fault_safe g htw hemp hu h hs hin hfr k) htm

/-- the cleanup really removes the temp file: after it the path is absent -/
theorem cleanup_removes {emp : κ} (fs : FS κ) (p : P) :
    (replay emp fs [Call.unlink p]).get p = none := by
  simpa [replay] using get_unlink_self (emp := emp) (fs := fs) (p := p)

/-- … on the abstraction of a workspace tree next to a consistent cache -/
theorem commit_fault_safe_fsOf {t : TCfg κ} (g : Good t.ctx) {emp : κ}
    (hemp : ∀ c, t.isEmp c = true → c = emp)
    {a : Art} {nd : Node κ} {pre : List Name} {s : Store κ}
    {res : Node κ × Digest × Store κ} {calls : List (Call κ)}
    (hu : uniqNode nd) (hc : Consistent t.ctx s)
    (h : commitArtT t a pre (some nd) s = .ok (res, calls)) :
    ∀ k, Safe t.ctx (trackedOf pre nd) (runFault emp (fsOf t.ctx pre nd s) calls k) := by
  intro k
  rw [runFault_eq_prefix]
  exact commitArtT_crash_safe_fsOf g hemp hu hc h k

/-- the same for one file (`commitFileArtifact`), all three variants -/
theorem commitFile_fault_safe {ctx : Ctx κ} (g : Good ctx) {tracked : List (P × κ)}
    (htw : TrackedWs tracked) {emp : κ} {isEmp : κ → Bool} (hemp : ∀ c, isEmp c = true → c = emp)
    {fs : FS κ} (hs : Safe ctx tracked fs) {q : List Name} {c : κ} {m : Nat}
    (hw : fs.get (.ws q) = some (.file c m)) {n : Nat} (hfresh : fs.get (.ctmp n) = none)
    (strat : Strat) (canRename : Bool) :
    ∀ k, Safe ctx tracked
      (runFault emp fs (commitFileCalls isEmp strat canRename (.ws q) n c (ctx.H c)) k) := by
  intro k
  rw [runFault_eq_prefix]
  exact commitFile_crash_safe g htw hemp hs hw hfresh strat canRename k

/-- and for checkout of one file -/
theorem checkoutFile_fault_safe {ctx : Ctx κ} (g : Good ctx) {tracked : List (P × κ)} {emp : κ}
    (isEmp : κ → Bool) {fs : FS κ} (hs : Safe ctx tracked fs) (strat : Strat) {w : P}
    (hwo : w.isObj = false) (wasExactLink : Bool) (c : κ) (d : Digest)
    (hpre : if wasExactLink then fs.get w = some (.link (.obj d)) else fs.get w = none) :
    ∀ k, Safe ctx tracked (runFault emp fs (checkoutFileCalls isEmp strat w wasExactLink c d) k) := by
  intro k
  rw [runFault_eq_prefix]
  exact checkoutFileCalls_crash_safe g isEmp hs strat hwo wasExactLink c d hpre k

/-- what is NOT promised: the workspace file need not be at its path any more.  With the link
strategy and no rename capability a fault at the final `symlink` leaves the path absent — the bytes
are in the cache (third disjunct of `Retr`), `dud checkout` brings the file back. -/
theorem fault_may_leave_path_absent {ctx : Ctx κ} {emp : κ} {isEmp : κ → Bool} (fs : FS κ)
    (q : List Name) (n : Nat) (c : κ) :
    let calls := commitFileCalls isEmp .link false (.ws q) n c (ctx.H c)
    (runFault emp fs calls (calls.length - 1)).get (.ws q) = none := by
  intro calls
  rw [runFault_eq_prefix]
  have hcalls : calls = (copyIntoCache isEmp n c (ctx.H c) ++ [Call.unlink (.ws q)]) ++
      [Call.symlink (.obj (ctx.H c)) (.ws q)] := by simp [calls, commitFileCalls]
  have hlen : calls.length - 1 = (copyIntoCache isEmp n c (ctx.H c) ++ [Call.unlink (.ws q)]).length := by
    rw [hcalls]; simp
  rw [faultAt, hlen, hcalls, take_append_singleton_le _ _ (Nat.le_refl _), List.take_length,
    replay_append]
  simpa [replay] using get_unlink_self (emp := emp) (fs := replay emp fs (copyIntoCache isEmp n c (ctx.H c)))
    (p := .ws q)

/-- **The retry is possible.**  After a fault past the rename the workspace entry is a link into
the cache while the stage still records no checksum. `commitFileArtifact` accepts such a link (it
resolves to an object of this cache, so the file is committed already) and records the checksum
the object is stored under; nothing is rewritten. (Before the repair of the Go code this was
`.error .notRegular`: "expected regular file, got link" for ever.) -/
theorem retry_after_fault_accepts_link (ctx : Ctx κ) (strat : Strat) (d : Digest) (s : Store κ)
    (hd : s.has d = true) :
    commitFile ctx strat false (some (.link (.obj d))) "" s = .ok (.link (.obj d), d, s) := by
  simp [commitFile, quick, hasSum_empty, hd]

/-- a link to an object that is NOT in the cache is still refused -/
theorem retry_dangling_link_refused (ctx : Ctx κ) (strat : Strat) (d : Digest) (s : Store κ)
    (hd : s.has d = false) :
    commitFile ctx strat false (some (.link (.obj d))) "" s = .error .notRegular := by
  simp [commitFile, quick, hasSum_empty, hd]

end Dud.Sys

namespace Dud.Lock

/-- **A failing command still unlocks.**  For every command built on `prepare` (it changes to the
project root before locking), from every starting directory: if the body fails, `fatal` removes the
lock file and the exit status is non-zero. -/
theorem failed_command_unlocks (root cwd : List String) :
    runCommand true root cwd false false = (false, false) := by
  simp [runCommand, lockProject, unlockProject, fatal]

/-- the successful case for comparison: exit 0, lock removed -/
theorem successful_command_unlocks (root cwd : List String) :
    runCommand true root cwd true false = (true, false) := by
  simp [runCommand, lockProject, unlockProject]

/-- which commands this covers: `cmdChdirs true` (`usesPrepare`) -/
theorem failed_prepare_command_unlocks (root cwd : List String) :
    runCommand (cmdChdirs true) root cwd false false = (false, false) := by
  have : cmdChdirs true = true := by decide
  rw [this]; exact failed_command_unlocks root cwd

end Dud.Lock

namespace Dud.Sys.Example
open Dud Dud.Sys Dud.Example

/-- non-vacuity: on the concrete tree of C03 every fault position of the whole commit is safe -/
example (strat : Strat) (canRename : Bool) :
    ∃ res calls, commitArtT (tc strat canRename) art [[116]] (some tree) [] = .ok (res, calls) ∧
      ∀ k, Safe ctx (trackedOf [[116]] tree) (runFault emp (fsOf ctx [[116]] tree []) calls k) := by
  have h : ∃ res calls, commitArtT (tc strat canRename) art [[116]] (some tree) [] = .ok (res, calls) := by
    cases strat <;> cases canRename <;> exact ⟨_, _, rfl⟩
  obtain ⟨res, calls, h⟩ := h
  exact ⟨res, calls, h, commit_fault_safe_fsOf (t := tc strat canRename) good hemp tree_uniq
    empty_consistent h⟩

/-- executable: fault at every position, Boolean checker -/
def faultReport (strat : Strat) (canRename : Bool) : String :=
  match commitArtT (tc strat canRename) art [[116]] (some tree) [] with
  | .error e => s!"error {e}"
  | .ok (_, calls) =>
    let fs0 := fsOf ctx [[116]] tree []
    let tracked := trackedOf [[116]] tree
    let ok := (List.range (calls.length + 1)).all (fun k => safeB tracked (runFault emp fs0 calls k))
    s!"{calls.length} fault positions, all safe: {ok}"

#eval faultReport .link true
#eval faultReport .link false
#eval faultReport .copy true

example : Dud.Lock.runCommand true ["p"] ["p", "sub"] false false = (false, false) :=
  Dud.Lock.failed_command_unlocks _ _

end Dud.Sys.Example

#print axioms Dud.Sys.runFault_eq_prefix
#print axioms Dud.Sys.runFault_kth
#print axioms Dud.Sys.commit_fault_safe
#print axioms Dud.Sys.cleanup_safe
#print axioms Dud.Sys.commit_fault_cleanup_safe
#print axioms Dud.Sys.cleanup_removes
#print axioms Dud.Sys.commit_fault_safe_fsOf
#print axioms Dud.Sys.commitFile_fault_safe
#print axioms Dud.Sys.checkoutFile_fault_safe
#print axioms Dud.Sys.fault_may_leave_path_absent
#print axioms Dud.Sys.retry_after_fault_accepts_link
#print axioms Dud.Sys.retry_dangling_link_refused
#print axioms Dud.Lock.failed_command_unlocks
#print axioms Dud.Lock.successful_command_unlocks
#print axioms Dud.Lock.failed_prepare_command_unlocks
