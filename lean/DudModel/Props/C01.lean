import DudModel.Spec
/-!
# C01 — commit then checkout reproduces the tracked tree (property theorems)
-/
namespace Dud
variable {κ : Type}

/-- File case, both strategies: committing a regular file leaves its logical content in place and
stores exactly its bytes under the recorded checksum. -/
theorem commitFile_regular (ctx : Ctx κ) (strat : Strat) (c : κ) (sum : Digest) (s : Store κ) :
    ∃ n' s', commitFile ctx strat false (some (.file c)) sum s = .ok (n', ctx.H c, s') ∧
      s'.get (ctx.H c) = some (.blob c) ∧ deref ctx s' n' = .file c := by
  cases strat
  · refine ⟨.link (.obj (ctx.H c)), (ctx.H c, .blob c) :: s, ?_, ?_, ?_⟩
    · simp [commitFile, quick, Store.put]
    · simp [Store.get, alookup]
    · simp [deref, Store.get, alookup, Obj.bytes]
  · refine ⟨.file c, (ctx.H c, .blob c) :: s, ?_, ?_, ?_⟩
    · simp [commitFile, quick, Store.put]
    · simp [Store.get, alookup]
    · simp [deref]

end Dud
