import DudModel.Spec
import DudModel.Lemmas.Tree
import DudModel.Lemmas.Codec
/-!
# C01 — committing a fresh tree and checking it out again is the identity

`commit_fresh_roundtrip`: for a plain, sorted tree with safe names, `commitNode` with a fresh child
artifact (no recorded checksum) succeeds, records `treeDigest`, keeps the store consistent and
growing, leaves the logical content of the workspace unchanged, and from every later
store `checkoutNode` into an empty place rebuilds the tree.
-/
namespace Dud

variable {κ : Type}

/-- Post-condition of `commitNode` on a fresh child artifact (the conclusion of C01). -/
def NodePost (ctx : Ctx κ) (t : Node κ) : Prop :=
  ∀ (nm : Bytes) (s : Store κ) (strat : Strat), Consistent ctx s →
    ∃ t' c' s', commitNode ctx strat t ⟨nm, "", t.isDir⟩ s = .ok (t', c', s') ∧
      c'.name = nm ∧ c'.isDir = t.isDir ∧ c'.sum = treeDigest ctx nm t ∧
      Consistent ctx s' ∧ Store.le ctx s s' ∧ deref ctx s' t' = t ∧
      ∀ s'', Store.le ctx s' s'' → ∀ (strat2 : Strat) (k : Nat),
        ∃ r, checkoutNode ctx strat2 s'' (depth t + k) none c' = .ok r ∧ deref ctx s'' r = t

/-- Post-condition of `commitEntries` with an empty old manifest. -/
def EntriesPost (ctx : Ctx κ) (es : List (Name × Node κ)) : Prop :=
  ∀ (s : Store κ) (strat : Strat), Consistent ctx s →
    ∃ es' s', commitEntries ctx strat false es [] s = .ok (es', childrenOf ctx es, s') ∧
      Consistent ctx s' ∧ Store.le ctx s s' ∧ derefList ctx s' es' = es ∧
      ∀ s'', Store.le ctx s' s'' → ∀ (strat2 : Strat) (fuel : Nat),
        depthList es ≤ fuel → ∀ acc : List (Name × Node κ), (∀ p ∈ acc, ∀ e ∈ es, p.1 ≠ e.1) →
          ∃ res, checkoutChildren (checkoutNode ctx strat2 s'' fuel) acc (childrenOf ctx es)
              = .ok (acc ++ res) ∧ derefList ctx s'' res = es

theorem file_post {ctx : Ctx κ} (g : Good ctx) (x : κ) : NodePost ctx (.file x) := by
  intro nm s strat hc
  have hq : (quick s "" (some (Node.file x))).cm = false := by simp [quick]
  have hput : Consistent ctx (s.put (ctx.H x) (.blob x)) := hc.put (.blob x)
  have hle : Store.le ctx s (s.put (ctx.H x) (.blob x)) := Store.le_put g hc (.blob x)
  have hco : ∀ s'', Store.le ctx (s.put (ctx.H x) (.blob x)) s'' →
      ∀ (strat2 : Strat) (k : Nat), ∃ r,
        checkoutNode ctx strat2 s'' (depth (Node.file x) + k) none ⟨nm, ctx.H x, false⟩ = .ok r ∧
          deref ctx s'' r = .file x := by
    intro s'' hle'' strat2 k
    obtain ⟨o, ho, hb⟩ := hle'' (ctx.H x) (.blob x) (Store.get_put_self _ _ _)
    have hfuel : depth (Node.file x) + k = k + 1 := by simp [depth]; omega
    rw [hfuel]
    simp only [checkoutNode, Bool.false_eq_true, if_false]
    exact checkoutFile_fresh g ho hb strat2
  cases strat with
  | link =>
    refine ⟨.link (.obj (ctx.H x)), ⟨nm, ctx.H x, false⟩, s.put (ctx.H x) (.blob x),
      ?_, rfl, rfl, ?_, hput, hle, ?_, hco⟩
    · simp [commitNode, commitFile, hq, Node.isDir]
    · simp [treeDigest]
    · simp [deref, Store.get_put_self, Obj.bytes]
  | copy =>
    refine ⟨.file x, ⟨nm, ctx.H x, false⟩, s.put (ctx.H x) (.blob x),
      ?_, rfl, rfl, ?_, hput, hle, ?_, hco⟩
    · simp [commitNode, commitFile, hq, Node.isDir]
    · simp [treeDigest]
    · simp [deref]

theorem nil_post (ctx : Ctx κ) : EntriesPost ctx [] := by
  intro s strat hc
  refine ⟨[], s, by simp [commitEntries, childrenOf], hc, Store.le_refl _ _, by simp [derefList], ?_⟩
  intro s'' _ strat2 fuel _ acc _
  exact ⟨[], by simp [childrenOf, checkoutChildren], by simp [derefList]⟩

theorem cons_post {ctx : Ctx κ} {nm : Name} {n : Node κ} {r : List (Name × Node κ)}
    (hpn : n.plain = true) (hnm : ctx.nameOK nm = true)
    (hs : sortedList ((nm, n) :: r) = true)
    (hn : NodePost ctx n) (hr : EntriesPost ctx r) : EntriesPost ctx ((nm, n) :: r) := by
  intro s strat hc
  obtain ⟨n', c', s1, hcn, hname, hisDir, hsum, hc1, hle1, hd1, hco1⟩ := hn nm s strat hc
  obtain ⟨r', s2, hcr, hc2, hle2, hd2, hco2⟩ := hr s1 strat hc1
  have hc'eq : c' = ⟨nm, treeDigest ctx nm n, n.isDir⟩ := by
    cases c'; simp_all
  refine ⟨(nm, n') :: r', s2, ?_, hc2, Store.le_trans hle1 hle2, ?_, ?_⟩
  · simp [commitEntries, findChild, hnm, hcn, hcr, childrenOf, hc'eq]
  · have : deref ctx s2 n' = deref ctx s1 n' := deref_le ctx hle2 n' (by rw [hd1]; exact hpn)
    simp [derefList, this, hd1, hd2]
  · intro s'' hle'' strat2 fuel hfuel acc hacc
    have hdn : depth n ≤ fuel := by
      simp only [depthList] at hfuel; omega
    have hdr : depthList r ≤ fuel := by
      simp only [depthList] at hfuel; omega
    obtain ⟨r0, hr0, hdr0⟩ := hco1 s'' (Store.le_trans hle2 hle'') strat2 (fuel - depth n)
    have hfe : depth n + (fuel - depth n) = fuel := by omega
    rw [hfe, hc'eq] at hr0
    have hfresh : ∀ p ∈ acc, p.1 ≠ nm := fun p hp => hacc p hp (nm, n) (by simp)
    have hacc' : ∀ p ∈ acc ++ [(nm, r0)], ∀ e ∈ r, p.1 ≠ e.1 := by
      intro p hp e he
      rcases List.mem_append.1 hp with hp | hp
      · exact hacc p hp e (by simp [he])
      · simp only [List.mem_singleton] at hp
        subst hp
        exact sortedList_head_ne hs e he
    obtain ⟨res, hres, hdres⟩ := hco2 s'' hle'' strat2 fuel hdr _ hacc'
    refine ⟨(nm, r0) :: res, ?_, by simp [derefList, hdr0, hdres]⟩
    simp only [childrenOf]
    rw [checkoutChildren_cons_fresh _ acc _ _ r0 hfresh hr0, hres]
    simp

theorem dir_post {ctx : Ctx κ} (g : Good ctx) {es : List (Name × Node κ)}
    (hp : plainList es = true) (hs : sortedList es = true) (hn : NamesOKList ctx es)
    (he : EntriesPost ctx es) : NodePost ctx (.dir es) := by
  intro nm s strat hc
  obtain ⟨es', s2, hce, hc2, hle2, hd2, hco2⟩ := he s strat hc
  have hsort := sortChildren_childrenOf ctx es hs
  let m : Obj κ := .man .new nm (childrenOf ctx es)
  have hput : Consistent ctx (s2.put (m.digest ctx) m) := hc2.put m
  have hlep : Store.le ctx s2 (s2.put (m.digest ctx) m) := Store.le_put g hc2 m
  refine ⟨.dir es', ⟨nm, m.digest ctx, true⟩, s2.put (m.digest ctx) m, ?_, rfl, rfl, ?_, hput,
    Store.le_trans hle2 hlep, ?_, ?_⟩
  · simp [commitNode, oldManifest, hasSum_empty, hce, hsort, Node.isDir, m]
  · simp [treeDigest, hsort, m]
  · have : derefList ctx (s2.put (m.digest ctx) m) es' = derefList ctx s2 es' :=
      derefList_le ctx hlep es' (by rw [hd2]; exact hp)
    simp [deref, this, hd2]
  · intro s'' hle'' strat2 k
    obtain ⟨o, ho, hb⟩ := hle'' (m.digest ctx) m (Store.get_put_self _ _ _)
    have hread : readManifest ctx s'' (m.digest ctx) = .ok (childrenOf ctx es) := by
      have hmap := map_reload_childrenOf ctx .new es
        (fun e he sum isDir => (hn e.1 (mem_allNamesList_of_mem he)).2.1 .new sum isDir)
      rw [readManifest_of_bytes g ho (sch := .new) (p := nm) (cs := childrenOf ctx es) hb
        (by rw [hmap]; exact childrenOK_childrenOf hn), hmap]
    have hfuel : depth (Node.dir es) + k = (depthList es + k) + 1 := by
      simp only [depth]; omega
    obtain ⟨res, hres, hdres⟩ := hco2 s'' (Store.le_trans hlep hle'') strat2
      (depthList es + k) (by omega) [] (by simp)
    refine ⟨.dir res, ?_, by simp [deref, hdres]⟩
    rw [hfuel]
    have hh : hasSum (m.digest ctx) = true := hasSum_H g _
    simp [checkoutNode, hh, Store.has_of_get ho, hread, hres]

mutual
theorem commitNode_post {ctx : Ctx κ} (g : Good ctx) : ∀ (t : Node κ),
    t.plain = true → t.sorted = true → NamesOK ctx t → NodePost ctx t
  | .file x, _, _, _ => file_post g x
  | .dir es, hp, hs, hn =>
    have hp' : plainList es = true := by simpa [Node.plain] using hp
    have hs' : sortedList es = true := by simpa [Node.sorted] using hs
    have hn' : NamesOKList ctx es := fun x hx => hn x (by simpa [allNames] using hx)
    dir_post g hp' hs' hn' (commitEntries_post g es hp' hs' hn')
  | .link _, hp, _, _ => by simp [Node.plain] at hp
  | .other, hp, _, _ => by simp [Node.plain] at hp
theorem commitEntries_post {ctx : Ctx κ} (g : Good ctx) : ∀ (es : List (Name × Node κ)),
    plainList es = true → sortedList es = true → NamesOKList ctx es → EntriesPost ctx es
  | [], _, _, _ => nil_post ctx
  | (_, n) :: r, hp, hs, hn =>
    cons_post (plainList_cons hp).1 (hn _ mem_allNamesList_head).1 hs
      (commitNode_post g n (plainList_cons hp).1 (sortedList_cons hs).1 (namesOK_node hn))
      (commitEntries_post g r (plainList_cons hp).2 (sortedList_cons hs).2 (namesOK_tail hn))
end

/-- **C01.** Commit of a fresh plain tree, then checkout anywhere later, is the identity. -/
theorem commit_fresh_roundtrip (ctx : Ctx κ) (g : Good ctx) (t : Node κ) (nm : Bytes)
    (hp : t.plain = true) (hs : t.sorted = true) (hn : NamesOK ctx t)
    (s : Store κ) (hc : Consistent ctx s) (strat : Strat) :
    ∃ t' c' s', commitNode ctx strat t ⟨nm, "", t.isDir⟩ s = .ok (t', c', s') ∧
      c'.name = nm ∧ c'.isDir = t.isDir ∧ c'.sum = treeDigest ctx nm t ∧
      Consistent ctx s' ∧ Store.le ctx s s' ∧ deref ctx s' t' = t ∧
      ∀ s'', Store.le ctx s' s'' → ∀ (strat2 : Strat) (k : Nat),
        ∃ r, checkoutNode ctx strat2 s'' (depth t + k) none c' = .ok r ∧ deref ctx s'' r = t :=
  commitNode_post g t hp hs hn nm s strat hc

/-- Commit leaves the logical content of the workspace unchanged. -/
theorem commit_preserves_logical (ctx : Ctx κ) (g : Good ctx) (t : Node κ) (nm : Bytes)
    (hp : t.plain = true) (hs : t.sorted = true) (hn : NamesOK ctx t)
    (s : Store κ) (hc : Consistent ctx s) (strat : Strat) :
    ∃ t' c' s', commitNode ctx strat t ⟨nm, "", t.isDir⟩ s = .ok (t', c', s') ∧
      deref ctx s' t' = t := by
  obtain ⟨t', c', s', h, _, _, _, _, _, hd, _⟩ := commit_fresh_roundtrip ctx g t nm hp hs hn s hc strat
  exact ⟨t', c', s', h, hd⟩

/-- The recorded checksum is `treeDigest ctx nm t`: a function of the name and the tree only,
whatever the store and the checkout strategy. -/
theorem commit_digest_is_treeDigest (ctx : Ctx κ) (g : Good ctx) (t : Node κ) (nm : Bytes)
    (hp : t.plain = true) (hs : t.sorted = true) (hn : NamesOK ctx t)
    (s : Store κ) (hc : Consistent ctx s) (strat : Strat)
    {t' : Node κ} {c' : Child} {s' : Store κ}
    (h : commitNode ctx strat t ⟨nm, "", t.isDir⟩ s = .ok (t', c', s')) :
    c'.sum = treeDigest ctx nm t := by
  obtain ⟨t₁, c₁, s₁, h₁, _, _, hsum, _⟩ := commit_fresh_roundtrip ctx g t nm hp hs hn s hc strat
  rw [h₁] at h
  cases h
  exact hsum

/-- Two fresh commits of the same tree under the same name record the same checksum. -/
theorem commit_digest_independent (ctx : Ctx κ) (g : Good ctx) (t : Node κ) (nm : Bytes)
    (hp : t.plain = true) (hs : t.sorted = true) (hn : NamesOK ctx t)
    (s₁ s₂ : Store κ) (hc₁ : Consistent ctx s₁) (hc₂ : Consistent ctx s₂) (strat₁ strat₂ : Strat)
    {t₁ t₂ : Node κ} {c₁ c₂ : Child} {s₁' s₂' : Store κ}
    (h₁ : commitNode ctx strat₁ t ⟨nm, "", t.isDir⟩ s₁ = .ok (t₁, c₁, s₁'))
    (h₂ : commitNode ctx strat₂ t ⟨nm, "", t.isDir⟩ s₂ = .ok (t₂, c₂, s₂')) :
    c₁.sum = c₂.sum := by
  rw [commit_digest_is_treeDigest ctx g t nm hp hs hn s₁ hc₁ strat₁ h₁,
    commit_digest_is_treeDigest ctx g t nm hp hs hn s₂ hc₂ strat₂ h₂]


/-! ## Top-level artifacts: `commitArt` / `checkoutArt` -/

/-- the listing a non-recursive directory artifact tracks: sub-directories are left out -/
def dropSubdirs (es : List (Name × Node κ)) : List (Name × Node κ) :=
  es.filter (fun e => !e.2.isDir)

/-- reading off the directory branch of `commitNode` -/
theorem commitNode_dir_inv {ctx : Ctx κ} {strat : Strat} {es : List (Name × Node κ)} {nm : Bytes}
    {s : Store κ} {t' : Node κ} {c' : Child} {s' : Store κ}
    (h : commitNode ctx strat (.dir es) ⟨nm, "", true⟩ s = .ok (t', c', s')) :
    ∃ es' cs s2, commitEntries ctx strat false es [] s = .ok (es', cs, s2) ∧ t' = .dir es' ∧
      c' = ⟨nm, (Obj.man .new nm (sortChildren cs) : Obj κ).digest ctx, true⟩ ∧
      s' = s2.put ((Obj.man .new nm (sortChildren cs) : Obj κ).digest ctx)
        (.man .new nm (sortChildren cs)) := by
  cases hce : commitEntries ctx strat false es [] s with
  | error e => simp [commitNode, oldManifest, hasSum_empty, hce] at h
  | ok v =>
    obtain ⟨es', cs, s2⟩ := v
    simp only [commitNode, oldManifest, hasSum_empty, hce, Bool.false_and, if_true,
      Bool.false_eq_true, if_false, Except.ok.injEq, Prod.mk.injEq] at h
    obtain ⟨rfl, rfl, rfl⟩ := h
    exact ⟨es', cs, s2, rfl, rfl, rfl, rfl⟩

/-- the directory branch of `commitArt` for a fresh artifact, given the result of the entries -/
theorem commitArt_dir_of_entries {ctx : Ctx κ} {strat : Strat} {a : Art}
    {es es' : List (Name × Node κ)} {cs : List Child} {s s2 : Store κ}
    (hd : a.isDir = true) (hsum : a.sum = "")
    (hce : commitEntries ctx strat a.noRec es [] s = .ok (es', cs, s2)) :
    commitArt ctx strat a (some (.dir es)) s =
      .ok (.dir es', (Obj.man .new a.path (sortChildren cs) : Obj κ).digest ctx,
        s2.put ((Obj.man .new a.path (sortChildren cs) : Obj κ).digest ctx)
          (.man .new a.path (sortChildren cs))) := by
  simp [commitArt, hd, hsum, oldManifest, hasSum_empty, hce]

theorem checkoutArt_noskip {ctx : Ctx κ} {strat : Strat} {fuel : Nat} {a : Art} {d : Digest}
    {s : Store κ} {r : Node κ} (hskip : a.skip = false)
    (h : checkoutNode ctx strat s fuel none ⟨a.path, d, a.isDir⟩ = .ok r) :
    checkoutArt ctx strat fuel { a with sum := d } none s = .ok (some r) := by
  simp [checkoutArt, hskip, Art.child, h]

/-- **C01, directory artifact (c1).** `LocalCache.Commit` of a fresh recursive directory artifact
records `treeDigest`, and `LocalCache.Checkout` of the committed artifact into an absent
workspace, from any later store, rebuilds the tree. -/
theorem commitArt_dir_roundtrip (ctx : Ctx κ) (g : Good ctx) (a : Art)
    (es : List (Name × Node κ))
    (hd : a.isDir = true) (hsum : a.sum = "") (hskip : a.skip = false) (hnr : a.noRec = false)
    (hp : (Node.dir es).plain = true) (hs : (Node.dir es).sorted = true)
    (hn : NamesOK ctx (.dir es)) (s : Store κ) (hc : Consistent ctx s) (strat : Strat) :
    ∃ t' d s', commitArt ctx strat a (some (.dir es)) s = .ok (t', d, s') ∧
      d = treeDigest ctx a.path (.dir es) ∧
      Consistent ctx s' ∧ Store.le ctx s s' ∧ deref ctx s' t' = .dir es ∧
      ∀ s'', Store.le ctx s' s'' → ∀ (strat2 : Strat) (fuel : Nat), depth (Node.dir es) ≤ fuel →
        ∃ r, checkoutArt ctx strat2 fuel { a with sum := d } none s'' = .ok (some r) ∧
          deref ctx s'' r = .dir es := by
  obtain ⟨t', c', s', hcn, _, _, hdig, hc', hle, hder, hco⟩ :=
    commit_fresh_roundtrip ctx g (.dir es) a.path hp hs hn s hc strat
  obtain ⟨es', cs, s2, hce, rfl, rfl, rfl⟩ := commitNode_dir_inv hcn
  refine ⟨_, _, _, commitArt_dir_of_entries hd hsum (by rw [hnr]; exact hce), hdig, hc', hle,
    hder, ?_⟩
  intro s'' hle'' strat2 fuel hfuel
  obtain ⟨r, hr, hdr⟩ := hco s'' hle'' strat2 (fuel - depth (Node.dir es))
  have hfe : depth (Node.dir es) + (fuel - depth (Node.dir es)) = fuel := by omega
  rw [hfe] at hr
  exact ⟨r, checkoutArt_noskip hskip (by rw [hd]; exact hr), hdr⟩

/-- With `DisableRecursion`, `commitEntries` does on the whole listing exactly what it does on the
listing without sub-directories (same children, same store); the sub-directories stay in the
workspace as they are. -/
theorem commitEntries_noRec (ctx : Ctx κ) (strat : Strat) : ∀ (es : List (Name × Node κ))
    (old : List Child) (s : Store κ) (fs' : List (Name × Node κ)) (cs : List Child) (s' : Store κ),
    plainList es = true →
    commitEntries ctx strat false (dropSubdirs es) old s = .ok (fs', cs, s') →
    ∃ es', commitEntries ctx strat true es old s = .ok (es', cs, s') ∧
      ∀ s3, derefList ctx s3 fs' = dropSubdirs es → derefList ctx s3 es' = es
  | [], old, s, fs', cs, s', _, h => by
    simp only [dropSubdirs, List.filter_nil, commitEntries, Except.ok.injEq, Prod.mk.injEq] at h
    obtain ⟨rfl, rfl, rfl⟩ := h
    exact ⟨[], by simp [commitEntries], fun s3 _ => by simp [derefList]⟩
  | (nm, n) :: r, old, s, fs', cs, s', hp, h => by
    by_cases hdir : n.isDir = true
    · have hdrop : dropSubdirs ((nm, n) :: r) = dropSubdirs r := by
        simp [dropSubdirs, hdir]
      rw [hdrop] at h
      obtain ⟨r', hr', hder⟩ := commitEntries_noRec ctx strat r old s fs' cs s' (plainList_cons hp).2 h
      refine ⟨(nm, n) :: r', by simp [commitEntries, hdir, hr'], ?_⟩
      intro s3 h3
      rw [hdrop] at h3
      simp [derefList, deref_plain ctx s3 n (plainList_cons hp).1, hder s3 h3]
    · have hdir' : n.isDir = false := by simpa using hdir
      have hdrop : dropSubdirs ((nm, n) :: r) = (nm, n) :: dropSubdirs r := by
        simp [dropSubdirs, hdir']
      rw [hdrop] at h
      simp only [commitEntries, Bool.false_and, Bool.false_eq_true, if_false] at h
      split at h
      · simp at h
      · split at h
        · simp at h
        · next n' c' s1 hcn =>
          split at h
          · simp at h
          · next r0 cs0 s2 hcr =>
            simp only [Except.ok.injEq, Prod.mk.injEq] at h
            obtain ⟨rfl, rfl, rfl⟩ := h
            obtain ⟨r', hr', hder⟩ :=
              commitEntries_noRec ctx strat r old s1 r0 cs0 s2 (plainList_cons hp).2 hcr
            refine ⟨(nm, n') :: r', ?_, ?_⟩
            · simp_all [commitEntries]
            · intro s3 h3
              rw [hdrop] at h3
              simp only [derefList, List.cons.injEq, Prod.mk.injEq, true_and] at h3
              simp [derefList, h3.1, hder s3 h3.2]

/-- **C01, non-recursive directory artifact (c2), weakest hypotheses**: only the tracked part of
the listing has to be sorted and to have safe names. -/
theorem commitArt_noRec_roundtrip' (ctx : Ctx κ) (g : Good ctx) (a : Art)
    (es : List (Name × Node κ))
    (hd : a.isDir = true) (hsum : a.sum = "") (hskip : a.skip = false) (hnr : a.noRec = true)
    (hp : (Node.dir es).plain = true) (hs : (Node.dir (dropSubdirs es)).sorted = true)
    (hn : NamesOK ctx (.dir (dropSubdirs es))) (s : Store κ) (hc : Consistent ctx s)
    (strat : Strat) :
    ∃ t' d s', commitArt ctx strat a (some (.dir es)) s = .ok (t', d, s') ∧
      d = treeDigest ctx a.path (.dir (dropSubdirs es)) ∧
      Consistent ctx s' ∧ Store.le ctx s s' ∧ deref ctx s' t' = .dir es ∧
      ∀ s'', Store.le ctx s' s'' → ∀ (strat2 : Strat) (fuel : Nat),
        depth (Node.dir (dropSubdirs es)) ≤ fuel →
        ∃ r, checkoutArt ctx strat2 fuel { a with sum := d } none s'' = .ok (some r) ∧
          deref ctx s'' r = .dir (dropSubdirs es) := by
  have hpl : plainList es = true := by simpa [Node.plain] using hp
  have hp' : (Node.dir (dropSubdirs es)).plain = true := by
    simp only [Node.plain]
    exact plainList_filter _ es hpl
  obtain ⟨t', c', s', hcn, _, _, hdig, hc', hle, hder, hco⟩ :=
    commit_fresh_roundtrip ctx g (.dir (dropSubdirs es)) a.path hp' hs hn s hc strat
  obtain ⟨fs', cs, s2, hce, rfl, rfl, rfl⟩ := commitNode_dir_inv hcn
  obtain ⟨es', hce', hder'⟩ := commitEntries_noRec ctx strat es [] s fs' cs s2 hpl hce
  refine ⟨_, _, _, commitArt_dir_of_entries hd hsum (by rw [hnr]; exact hce'), hdig, hc', hle,
    ?_, ?_⟩
  · simp only [deref, Node.dir.injEq] at hder ⊢
    exact hder' _ hder
  · intro s'' hle'' strat2 fuel hfuel
    obtain ⟨r, hr, hdr⟩ := hco s'' hle'' strat2 (fuel - depth (Node.dir (dropSubdirs es)))
    have hfe : depth (Node.dir (dropSubdirs es)) + (fuel - depth (Node.dir (dropSubdirs es)))
        = fuel := by omega
    rw [hfe] at hr
    exact ⟨r, checkoutArt_noskip hskip (by rw [hd]; exact hr), hdr⟩

/-- **C01, non-recursive directory artifact (c2)**, hypotheses on the whole tree. -/
theorem commitArt_noRec_roundtrip (ctx : Ctx κ) (g : Good ctx) (a : Art)
    (es : List (Name × Node κ))
    (hd : a.isDir = true) (hsum : a.sum = "") (hskip : a.skip = false) (hnr : a.noRec = true)
    (hp : (Node.dir es).plain = true) (hs : (Node.dir es).sorted = true)
    (hn : NamesOK ctx (.dir es)) (s : Store κ) (hc : Consistent ctx s) (strat : Strat) :
    ∃ t' d s', commitArt ctx strat a (some (.dir es)) s = .ok (t', d, s') ∧
      d = treeDigest ctx a.path (.dir (dropSubdirs es)) ∧
      Consistent ctx s' ∧ Store.le ctx s s' ∧ deref ctx s' t' = .dir es ∧
      ∀ s'', Store.le ctx s' s'' → ∀ (strat2 : Strat) (fuel : Nat),
        depth (Node.dir (dropSubdirs es)) ≤ fuel →
        ∃ r, checkoutArt ctx strat2 fuel { a with sum := d } none s'' = .ok (some r) ∧
          deref ctx s'' r = .dir (dropSubdirs es) := by
  refine commitArt_noRec_roundtrip' ctx g a es hd hsum hskip hnr hp ?_ ?_ s hc strat
  · have : sortedList es = true := by simpa [Node.sorted] using hs
    simp only [Node.sorted]
    exact sortedList_filter _ es this
  · intro x hx
    refine hn x ?_
    simp only [allNames] at hx ⊢
    exact mem_allNamesList_filter _ es x hx

/-- **C01, file artifact (c3).** Commit of a regular file (whatever checksum the artifact
carried), then checkout into an absent workspace from any later store, both strategies. -/
theorem commitArt_file_roundtrip (ctx : Ctx κ) (g : Good ctx) (a : Art) (c : κ)
    (hd : a.isDir = false) (hskip : a.skip = false)
    (s : Store κ) (hc : Consistent ctx s) (strat : Strat) :
    ∃ t' s', commitArt ctx strat a (some (.file c)) s = .ok (t', ctx.H c, s') ∧
      Consistent ctx s' ∧ Store.le ctx s s' ∧ deref ctx s' t' = .file c ∧
      ∀ s'', Store.le ctx s' s'' → ∀ (strat2 : Strat) (fuel : Nat), 1 ≤ fuel →
        ∃ r, checkoutArt ctx strat2 fuel { a with sum := ctx.H c } none s'' = .ok (some r) ∧
          deref ctx s'' r = .file c := by
  have hq : (quick s a.sum (some (Node.file c))).cm = false := by simp [quick]
  have hput : Consistent ctx (s.put (ctx.H c) (.blob c)) := hc.put (.blob c)
  have hle : Store.le ctx s (s.put (ctx.H c) (.blob c)) := Store.le_put g hc (.blob c)
  have hco : ∀ s'', Store.le ctx (s.put (ctx.H c) (.blob c)) s'' →
      ∀ (strat2 : Strat) (fuel : Nat), 1 ≤ fuel →
        ∃ r, checkoutArt ctx strat2 fuel { a with sum := ctx.H c } none s'' = .ok (some r) ∧
          deref ctx s'' r = .file c := by
    intro s'' hle'' strat2 fuel hfuel
    obtain ⟨o, ho, hb⟩ := hle'' (ctx.H c) (.blob c) (Store.get_put_self _ _ _)
    obtain ⟨r, hr, hdr⟩ := checkoutFile_fresh g ho hb strat2
    refine ⟨r, checkoutArt_noskip hskip ?_, hdr⟩
    obtain ⟨k, rfl⟩ : ∃ k, fuel = k + 1 := ⟨fuel - 1, by omega⟩
    simp only [checkoutNode, hd, Bool.false_eq_true, if_false]
    exact hr
  cases strat with
  | link =>
    exact ⟨.link (.obj (ctx.H c)), s.put (ctx.H c) (.blob c),
      by simp [commitArt, hd, hskip, commitFile, hq], hput, hle,
      by simp [deref, Store.get_put_self, Obj.bytes], hco⟩
  | copy =>
    exact ⟨.file c, s.put (ctx.H c) (.blob c),
      by simp [commitArt, hd, hskip, commitFile, hq], hput, hle, by simp [deref], hco⟩

/-- **skip-cache file artifact (c3).** Commit only records the checksum: node and store are
unchanged; checkout does not touch the workspace. -/
theorem commitArt_file_skip (ctx : Ctx κ) (a : Art) (c : κ)
    (hd : a.isDir = false) (hskip : a.skip = true) (s : Store κ) (strat : Strat) :
    commitArt ctx strat a (some (.file c)) s = .ok (.file c, ctx.H c, s) := by
  have hq : (quick s a.sum (some (Node.file c))).cm = false := by simp [quick]
  simp [commitArt, hd, hskip, commitFile, hq]

theorem checkoutArt_skip (ctx : Ctx κ) (a : Art) (hskip : a.skip = true) (strat : Strat)
    (fuel : Nat) (cur : Option (Node κ)) (s : Store κ) :
    checkoutArt ctx strat fuel a cur s = .ok cur := by
  simp [checkoutArt, hskip]

/-! ## Invalid entry names make commit fail -/

/-- If a top-level entry has a name commit does not accept, `commitEntries` (recursive mode) fails:
it never records a manifest with a different name. -/
theorem commit_error_on_invalid_name (ctx : Ctx κ) (strat : Strat) :
    ∀ (es : List (Name × Node κ)), (∃ e ∈ es, ctx.nameOK e.1 = false) →
      ∀ (old : List Child) (s : Store κ), ∃ err, commitEntries ctx strat false es old s = .error err
  | [], h, _, _ => by simp at h
  | (nm, n) :: r, h, old, s => by
    by_cases hnm : ctx.nameOK nm = true
    · have hr : ∃ e ∈ r, ctx.nameOK e.1 = false := by
        obtain ⟨e, he, hbad⟩ := h
        rcases List.mem_cons.1 he with rfl | he'
        · simp [hnm] at hbad
        · exact ⟨e, he', hbad⟩
      simp only [commitEntries, Bool.false_and, Bool.false_eq_true, if_false, hnm, Bool.not_true]
      split
      · exact ⟨_, rfl⟩
      · next n' c' s1 _ =>
        obtain ⟨err, herr⟩ := commit_error_on_invalid_name ctx strat r hr old s1
        exact ⟨err, by simp [herr]⟩
    · exact ⟨.invalid, by simp [commitEntries, hnm]⟩

/-- the same for a whole directory artifact: `LocalCache.Commit` fails -/
theorem commitArt_error_on_invalid_name (ctx : Ctx κ) (strat : Strat) (a : Art)
    (es : List (Name × Node κ)) (hd : a.isDir = true) (hnr : a.noRec = false)
    (h : ∃ e ∈ es, ctx.nameOK e.1 = false) (s : Store κ) :
    ∃ err, commitArt ctx strat a (some (.dir es)) s = .error err := by
  simp only [commitArt, hd, if_true, hnr]
  cases hold : oldManifest ctx s a.sum with
  | error e => exact ⟨e, rfl⟩
  | ok old =>
    obtain ⟨err, herr⟩ := commit_error_on_invalid_name ctx strat es h old s
    exact ⟨err, by simp [herr]⟩

/-! ## Non-vacuity: a concrete context with `Good`, a concrete tree, and the round trip -/

namespace Example
open Dud.Example

/-- two levels of directories, an empty directory, the same file content twice -/
def tree : Node K :=
  .dir [([97], .file (.raw "alpha")),
        ([98], .dir [([99], .file (.raw "gamma")), ([100], .dir [])]),
        ([101], .file (.raw "alpha"))]

theorem tree_plain : tree.plain = true := by simp [tree, Node.plain, plainList]
theorem tree_sorted : tree.sorted = true := by
  simp [tree, Node.sorted, sortedList, headName]; decide
theorem tree_names : NamesOK ctx tree := by
  intro nm h
  refine ⟨rfl, fun _ _ _ => rfl, ?_⟩
  simp only [tree, allNames, allNamesList, List.mem_cons, List.mem_append, List.not_mem_nil,
    List.append_nil, or_false, List.nil_append] at h
  rcases h with rfl | rfl | (rfl | rfl) | rfl <;> decide
theorem tree_depth : depth tree = 3 := by simp [tree, depth, depthList]
theorem empty_consistent : Consistent ctx [] := by
  intro d o h; simp [Store.get, alookup] at h

/-- All hypotheses of C01 are satisfiable together (`good : Good ctx` is proved in
`Lemmas/Codec.lean`), and the conclusion specialises to the concrete round trip. -/
example (strat strat2 : Strat) :
    ∃ t' c' s', commitNode ctx strat tree ⟨[116], "", true⟩ [] = .ok (t', c', s') ∧
      c'.sum = treeDigest ctx [116] tree ∧ deref ctx s' t' = tree ∧
      ∃ r, checkoutNode ctx strat2 s' 3 none c' = .ok r ∧ deref ctx s' r = tree := by
  obtain ⟨t', c', s', h, _, _, hsum, _, _, hd, hco⟩ :=
    commit_fresh_roundtrip ctx good tree [116] tree_plain tree_sorted tree_names [] empty_consistent
      strat
  obtain ⟨r, hr, hdr⟩ := hco s' (Store.le_refl _ _) strat2 0
  rw [tree_depth] at hr
  exact ⟨t', c', s', h, hsum, hd, r, hr, hdr⟩

mutual
def nodeBEq : Node K → Node K → Bool
  | .file a, .file b => a == b
  | .dir a, .dir b => listBEq a b
  | .link a, .link b => a == b
  | .other, .other => true
  | _, _ => false
def listBEq : List (Name × Node K) → List (Name × Node K) → Bool
  | [], [] => true
  | (n, a) :: r, (m, b) :: r' => n == m && nodeBEq a b && listBEq r r'
  | _, _ => false
end

/-- executable evidence: commit with one strategy, check out with the other -/
def roundtrip (strat strat2 : Strat) : String :=
  match commitNode ctx strat tree ⟨[116], "", true⟩ [] with
  | .error e => s!"commit error {e}"
  | .ok (t', c', s') =>
    match checkoutNode ctx strat2 s' 3 none c' with
    | .error e => s!"checkout error {e}"
    | .ok r =>
      s!"checkout∘commit = id: {nodeBEq (deref ctx s' r) tree}; " ++
      s!"logical workspace unchanged: {nodeBEq (deref ctx s' t') tree}; " ++
      s!"sum = treeDigest: {c'.sum == treeDigest ctx [116] tree}; objects: {s'.length}"

#eval roundtrip .link .copy
#eval roundtrip .copy .link
#eval roundtrip .link .link
#eval roundtrip .copy .copy

/-- executable evidence for the artifact level: non-recursive directory artifact -/
def artNoRec (strat strat2 : Strat) : String :=
  let a : Art := { path := [116], isDir := true, noRec := true }
  match tree with
  | .dir es =>
    match commitArt ctx strat a (some tree) [] with
    | .error e => s!"commit error {e}"
    | .ok (t', d, s') =>
      match checkoutArt ctx strat2 2 { a with sum := d } none s' with
      | .error e => s!"checkout error {e}"
      | .ok none => "checkout gave nothing"
      | .ok (some r) =>
        s!"checkout = dropSubdirs: {nodeBEq (deref ctx s' r) (.dir (dropSubdirs es))}; " ++
        s!"workspace unchanged: {nodeBEq (deref ctx s' t') tree}; " ++
        s!"sum = treeDigest of dropSubdirs: {d == treeDigest ctx [116] (.dir (dropSubdirs es))}"
  | _ => "not a directory"

#eval artNoRec .link .copy
#eval artNoRec .copy .link

/-- a context rejecting the name `b`: commit of the example tree must fail -/
def ctxBad : Ctx K := { ctx with nameOK := fun nm => nm != [98] }

#eval match commitArt ctxBad .link { path := [116], isDir := true } (some tree) [] with
  | .error e => s!"error {e}"
  | .ok _ => "ok (unexpected)"

end Example

#print axioms file_post
#print axioms nil_post
#print axioms cons_post
#print axioms dir_post
#print axioms namesOK_node
#print axioms namesOK_tail
#print axioms namesOK_head_entry
#print axioms childrenOK_childrenOf
#print axioms checkedChildren_eq_ok
#print axioms readManifest_childrenOK
#print axioms readManifest_man
#print axioms readManifest_man_bad
#print axioms readManifest_of_bytes
#print axioms readManifest_eq_dec
#print axioms commitNode_post
#print axioms commitEntries_post
#print axioms commit_fresh_roundtrip
#print axioms commit_preserves_logical
#print axioms commit_digest_is_treeDigest
#print axioms commit_digest_independent
#print axioms commitNode_dir_inv
#print axioms commitArt_dir_of_entries
#print axioms checkoutArt_noskip
#print axioms commitArt_dir_roundtrip
#print axioms commitEntries_noRec
#print axioms commitArt_noRec_roundtrip'
#print axioms commitArt_noRec_roundtrip
#print axioms commitArt_file_roundtrip
#print axioms commitArt_file_skip
#print axioms checkoutArt_skip
#print axioms commit_error_on_invalid_name
#print axioms commitArt_error_on_invalid_name
#print axioms Dud.Example.good
#print axioms Example.tree_plain
#print axioms Example.tree_sorted
#print axioms Example.tree_names
#print axioms Example.tree_depth
#print axioms Example.empty_consistent

end Dud
