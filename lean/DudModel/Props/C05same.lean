import DudModel.Same
/-!
# C05 (same): `fsutil.SameContents` decides equality of contents

For every buffer size `B > 0` the loop of `same.go` answers `true` exactly when the two files have
the same bytes.  Stale buffer tails are harmless: whenever an iteration passes the `bytes.Equal`
test the two buffers are equal as a whole, so in the next iteration the tails beyond `n` are the
same on both sides and the comparison reduces to the freshly read prefixes.
-/
namespace Dud.Same

/-- One iteration with equal buffers compares exactly the freshly read prefixes. -/
theorem buf_eq_iff (buf a b : Bytes) (n : Nat) :
    (a.take n ++ buf.drop n = b.take n ++ buf.drop n) ↔ a.take n = b.take n := by
  constructor
  · intro h; exact List.append_cancel_right h
  · intro h; rw [h]

theorem eq_iff_take_drop (a b : Bytes) (n : Nat) :
    a = b ↔ a.take n = b.take n ∧ a.drop n = b.drop n := by
  constructor
  · rintro rfl; exact ⟨rfl, rfl⟩
  · rintro ⟨h1, h2⟩
    rw [← List.take_append_drop n a, ← List.take_append_drop n b, h1, h2]

/-- Loop invariant form: starting an iteration with EQUAL (arbitrary, possibly dirty) buffers and
enough fuel, the loop decides `a = b`. -/
theorem loop_eq (B : Nat) (hB : 0 < B) :
    ∀ (fuel : Nat) (bufA bufB a b : Bytes), bufA = bufB → a.length + b.length + 2 ≤ fuel →
      loop B fuel bufA bufB a b = decide (a = b) := by
  intro fuel
  induction fuel with
  | zero => intro _ _ a b _ h; omega
  | succ fuel ih =>
    intro bufA bufB a b hbuf hfuel
    subst hbuf
    simp only [loop, fileRead]
    by_cases hn : min B a.length = min B b.length
    · -- same number of bytes read on both sides
      simp only [hn]
      by_cases hpre : a.take (min B b.length) = b.take (min B b.length)
      · have hbufs : a.take (min B b.length) ++ bufA.drop (min B b.length)
            = b.take (min B b.length) ++ bufA.drop (min B b.length) := by rw [hpre]
        by_cases h0 : min B b.length = 0
        · -- both at EOF
          have hal : a.length = 0 := by omega
          have hbl : b.length = 0 := by omega
          have ha0 : a = [] := List.eq_nil_of_length_eq_zero hal
          have hb0 : b = [] := List.eq_nil_of_length_eq_zero hbl
          subst ha0; subst hb0
          simp [hB]
        · -- a full or partial chunk was read from both: go round again with equal buffers
          have hrec := ih _ _ (a.drop (min B b.length)) (b.drop (min B b.length)) hbufs
            (by simp only [List.length_drop]; omega)
          simp only [bne_self_eq_false, Bool.false_eq_true, if_false, hbufs]
          have hz : (min B b.length == 0) = false := by simp [h0]
          simp only [hz, Bool.false_and, Bool.false_eq_true, if_false]
          rw [hbufs] at hrec
          rw [hrec]
          have := eq_iff_take_drop a b (min B b.length)
          simp only [hpre, true_and] at this
          exact decide_eq_decide.mpr this.symm
      · -- the fresh prefixes differ
        have hne : a ≠ b := by
          intro h; subst h; exact hpre rfl
        have hbufs : ¬ (a.take (min B b.length) ++ bufA.drop (min B b.length)
            = b.take (min B b.length) ++ bufA.drop (min B b.length)) := by
          rw [buf_eq_iff bufA a b _]; exact hpre
        simp [hbufs, hne]
    · -- different read counts
      have hne : a ≠ b := by
        intro h; subst h; exact hn rfl
      simp [hn, hne]

/-- **C05 same.**  `SameContents` (with any positive buffer size) is equality of contents. -/
theorem sameContents_eq {B : Nat} (hB : 0 < B) (a b : Bytes) :
    sameContents B a b = decide (a = b) :=
  loop_eq B hB _ _ _ a b rfl (Nat.le_refl _)

/-- The buffers may even start dirty (e.g. if they came from a pool), provided they start equal. -/
theorem sameContents_dirty {B : Nat} (hB : 0 < B) (buf a b : Bytes) :
    loop B (a.length + b.length + 2) buf buf a b = decide (a = b) :=
  loop_eq B hB _ _ _ a b rfl (Nat.le_refl _)

/-- In this read model the third test `isEndOfFileA != isEndOfFileB` is dead: once the byte counts
agree, the EOF flags agree. -/
theorem eof_agree (B : Nat) (bufA bufB a b : Bytes)
    (h : (fileRead B bufA a).n = (fileRead B bufB b).n) :
    (fileRead B bufA a).eof = (fileRead B bufB b).eof := by
  simp only [fileRead] at h ⊢; rw [h]

/-! ## Non-vacuity -/

-- lengths differ by a multiple of B, one file a strict prefix of the other, stale tail present
example : sameContents 2 [1, 2, 3] [1, 2, 3, 0, 0] = false := by decide
example : sameContents 2 [1, 2, 3, 4, 5] [1, 2, 3] = false := by decide
-- stale byte `2` in bufA/bufB position 1 during the last iteration
example : sameContents 2 [1, 2, 3] [1, 2, 3] = true := by decide
example : sameContents 2 [1, 2, 3] [1, 2, 4] = false := by decide
example : (0 : Nat) < 2 ∧ sameContents 2 [1, 2, 3] [1, 2, 3] = decide (([1, 2, 3] : Bytes) = [1, 2, 3]) :=
  ⟨by decide, sameContents_eq (by decide) _ _⟩
-- `B > 0` is needed: with an empty buffer the loop never sees EOF (fuel runs out ⇒ `false`)
example : sameContents 0 [] [] = false := by decide
example : ∃ buf a b : Bytes, buf ≠ zeros 2 ∧ a ≠ b ∧ loop 2 (a.length + b.length + 2) buf buf a b = false :=
  ⟨[9, 9], [1, 2, 3], [1, 2, 3, 9], by decide, by decide, by decide⟩

end Dud.Same

#print axioms Dud.Same.loop_eq
#print axioms Dud.Same.sameContents_eq
#print axioms Dud.Same.sameContents_dirty
#print axioms Dud.Same.eof_agree
