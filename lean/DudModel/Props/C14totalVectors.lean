import DudModel.Props.C14total
import DudModel.Props.C14blake3
import DudModel.Props.C14blake3Vectors
/-!
# Official BLAKE3 test vectors for the EXECUTABLE hash, as theorems

Core-only.  `Props/C14blake3.lean` and `Props/C14blake3Vectors.lean` check the list specification
`hashSpecReal` against the official test vectors by kernel evaluation (0, 1, 1024, 1025, 2048, 2049 and
3073 bytes).  `Props/C14total.lean` proves `Blake3T.hash` equal to the specification for every input.
Hence the official digests hold for the executable, `ByteArray`-based function the driver runs — as
theorems, without evaluating `Blake3T.hash` in the kernel (and without `native_decide`).

Each theorem says: the hex string the driver computes (`Blake3.toHex (Blake3T.hash …)`) for the official
input of that length (the bytes 0,1,…,250 repeated) is the official digest.
-/
namespace Dud.Blake3Total.Vectors
open Dud Dud.Blake3Spec

theorem hashT_vector_0 : Blake3.toHex (Blake3T.hash ⟨(testInput 0).toArray⟩)
    = "af1349b9f5f9a1a6a0404dea36dcc9499bcb25c9adc112b7cc9a93cae41f3262" := by
  rw [hashT_hex_ofList]; exact Dud.Blake3Incr.vector_0

theorem hashT_vector_1 : Blake3.toHex (Blake3T.hash ⟨(testInput 1).toArray⟩)
    = "2d3adedff11b61f14c886e35afa036736dcd87a74d27b5c1510225d0f592e213" := by
  rw [hashT_hex_ofList]; exact Dud.Blake3Incr.vector_1

theorem hashT_vector_1024 : Blake3.toHex (Blake3T.hash ⟨(testInput 1024).toArray⟩)
    = "42214739f095a406f3fc83deb889744ac00df831c10daa55189b5d121c855af7" := by
  rw [hashT_hex_ofList]; exact Dud.Blake3Spec.Vectors.V1024.digest

theorem hashT_vector_1025 : Blake3.toHex (Blake3T.hash ⟨(testInput 1025).toArray⟩)
    = "d00278ae47eb27b34faecf67b4fe263f82d5412916c1ffd97c8cb7fb814b8444" := by
  rw [hashT_hex_ofList]; exact Dud.Blake3Spec.Vectors.V1025.digest

theorem hashT_vector_2048 : Blake3.toHex (Blake3T.hash ⟨(testInput 2048).toArray⟩)
    = "e776b6028c7cd22a4d0ba182a8bf62205d2ef576467e838ed6f2529b85fba24a" := by
  rw [hashT_hex_ofList]; exact Dud.Blake3Spec.Vectors.V2048.digest

theorem hashT_vector_2049 : Blake3.toHex (Blake3T.hash ⟨(testInput 2049).toArray⟩)
    = "5f4d72f40d7a5f82b15ca2b2e44b1de3c2ef86c426c95c1af0b6879522563030" := by
  rw [hashT_hex_ofList]; exact Dud.Blake3Spec.Vectors.V2049.digest

/-- Four chunks: chunk counters 0–3, two levels of parent nodes, ROOT at the top only. -/
theorem hashT_vector_3073 : Blake3.toHex (Blake3T.hash ⟨(testInput 3073).toArray⟩)
    = "7124b49501012f81cc7f11ca069ec9226cecb8a2c850cfe644e327d22d3e1cd3" := by
  rw [hashT_hex_ofList]; exact Dud.Blake3Spec.Vectors.V3073.digest

end Dud.Blake3Total.Vectors

#print axioms Dud.Blake3Total.Vectors.hashT_vector_0
#print axioms Dud.Blake3Total.Vectors.hashT_vector_1
#print axioms Dud.Blake3Total.Vectors.hashT_vector_1024
#print axioms Dud.Blake3Total.Vectors.hashT_vector_1025
#print axioms Dud.Blake3Total.Vectors.hashT_vector_2048
#print axioms Dud.Blake3Total.Vectors.hashT_vector_2049
#print axioms Dud.Blake3Total.Vectors.hashT_vector_3073
