import DudModel.Props.C15
/-!
# C15, full sequence theorem — commits, checkouts and workspace deletion

`Props/C15.lean` ends with `commit_checkout_sequence_partial`: any sequence of commits and
checkouts after a first commit succeeds and keeps the artifact.  It is "partial" because the
workspace entry is always present in its state.  Here the state is
`Option (Node κ) × Child × Store κ` and there is a third command, `wipe` (the user removes the
artifact, `rm -r data`, or works in a fresh clone).

* `runCmd3`: one command.  `commit` on an absent entry is the error `.missing` (dud: "file does not
  exist"), see `runCmd3_absent`.
* `runCmds3`: a sequence.  A commit on an absent entry is recorded as failed (`false` in the log),
  leaves the state alone and the run goes on; every other error aborts the run.  The result is
  the final state and a log with one record (succeeded?, state after) per command.
* `Cmd3.absStep`: the abstract machine the run simulates.  Its state is `Option Strat`: absent, or
  all-links (`some .link`), or all-copies (`some .copy`).
* `LogOK`: the log of a run, record by record: whether the command succeeded (a command fails iff
  it is a commit and the entry is absent at that moment), the state it left (unchanged on failure)
  and the invariant `SeqInvA` of that state for the abstract state after the command.
* `commit_checkout_wipe_sequence`: after a first commit, for every list of commands the run does
  not abort, and `LogOK` holds (hence the invariant `SeqInv3` at every point, `LogOK.inv`).
* `wipe_then_checkout_restores`, `commit_wipe_checkout_restores`: `wipe; checkout` always puts the
  tree back.
* `commit_checkout_sequence_of_wipe`: the old partial theorem as a corollary.
-/
namespace Dud

variable {κ : Type}

/-- the commands on the workspace entry and the recorded child artifact; `wipe`: the workspace
entry is removed -/
inductive Cmd3 where
  | commit (strat : Strat)
  | checkout (strat : Strat)
  | wipe
deriving DecidableEq, Repr

def Cmd3.isCommit : Cmd3 → Bool
  | .commit _ => true
  | _ => false

def Cmd3.isCheckout : Cmd3 → Bool
  | .checkout _ => true
  | _ => false

/-- (workspace entry or absent, recorded child, cache) -/
abbrev St3 (κ : Type) := Option (Node κ) × Child × Store κ

/-- one command.  Commit of an absent entry is an error (dud: "file does not exist"). -/
def runCmd3 (ctx : Ctx κ) (fuel : Nat) : Cmd3 → St3 κ → Except Err (St3 κ)
  | .wipe, (_, c, s) => .ok (none, c, s)
  | .checkout strat, (cur, c, s) =>
    match checkoutNode ctx strat s fuel cur c with
    | .error e => .error e
    | .ok r => .ok (some r, c, s)
  | .commit _, (none, _, _) => .error .missing
  | .commit strat, (some w, c, s) =>
    match commitNode ctx strat w c s with
    | .error e => .error e
    | .ok (w', c', s') => .ok (some w', c', s')

/-- the command is a commit and the entry is absent -/
def Cmd3.fails (cmd : Cmd3) (present : Bool) : Bool := cmd.isCommit && !present

/-- A sequence of commands.  A commit of an absent entry fails (`runCmd3_absent`): it is logged
as `false`, the state stays, the run goes on.  Any other error aborts.  Result: the final state
and the log (succeeded?, state after the command), one record per command. -/
def runCmds3 (ctx : Ctx κ) (fuel : Nat) : List Cmd3 → St3 κ →
    Except Err (St3 κ × List (Bool × St3 κ))
  | [], st => .ok (st, [])
  | cmd :: r, st =>
    if cmd.fails st.1.isSome then
      match runCmds3 ctx fuel r st with
      | .error e => .error e
      | .ok (fin, log) => .ok (fin, (false, st) :: log)
    else
      match runCmd3 ctx fuel cmd st with
      | .error e => .error e
      | .ok st' =>
        match runCmds3 ctx fuel r st' with
        | .error e => .error e
        | .ok (fin, log) => .ok (fin, (true, st') :: log)

/-- the commands `runCmds3` logs as failed and skips are exactly those on which `runCmd3` gives the
error `.missing` because the entry is absent -/
theorem runCmd3_absent (ctx : Ctx κ) (fuel : Nat) (cmd : Cmd3) (st : St3 κ)
    (h : cmd.fails st.1.isSome = true) : runCmd3 ctx fuel cmd st = .error .missing := by
  obtain ⟨o, c, s⟩ := st
  cases cmd <;> cases o <;> simp [Cmd3.fails, Cmd3.isCommit] at h
  rfl

theorem Cmd3.fails_iff (cmd : Cmd3) (o : Option (Node κ)) :
    cmd.fails o.isSome = true ↔ cmd.isCommit = true ∧ o = none := by
  cases cmd <;> cases o <;> simp [Cmd3.fails, Cmd3.isCommit]

/-- the state the last record of the log holds (the start state for an empty log) -/
def lastSt : St3 κ → List (Bool × St3 κ) → St3 κ
  | st, [] => st
  | _, (_, st') :: log => lastSt st' log

theorem runCmds3_fin (ctx : Ctx κ) (fuel : Nat) : ∀ (cmds : List Cmd3) (st fin : St3 κ)
    (log : List (Bool × St3 κ)), runCmds3 ctx fuel cmds st = .ok (fin, log) →
    fin = lastSt st log ∧ log.length = cmds.length
  | [], st, fin, log, h => by
    simp only [runCmds3, Except.ok.injEq, Prod.mk.injEq] at h
    obtain ⟨rfl, rfl⟩ := h
    exact ⟨rfl, rfl⟩
  | cmd :: r, st, fin, log, h => by
    simp only [runCmds3] at h
    split at h
    · cases hr : runCmds3 ctx fuel r st with
      | error e => simp [hr] at h
      | ok p =>
        obtain ⟨fin', log'⟩ := p
        simp only [hr, Except.ok.injEq, Prod.mk.injEq] at h
        obtain ⟨rfl, rfl⟩ := h
        obtain ⟨h1, h2⟩ := runCmds3_fin ctx fuel r st _ _ hr
        exact ⟨h1, by simp [h2]⟩
    · cases h1 : runCmd3 ctx fuel cmd st with
      | error e => simp [h1] at h
      | ok st' =>
        cases hr : runCmds3 ctx fuel r st' with
        | error e => simp [h1, hr] at h
        | ok p =>
          obtain ⟨fin', log'⟩ := p
          simp only [h1, hr, Except.ok.injEq, Prod.mk.injEq] at h
          obtain ⟨rfl, rfl⟩ := h
          obtain ⟨h1, h2⟩ := runCmds3_fin ctx fuel r st' _ _ hr
          exact ⟨h1, by simp [h2]⟩

theorem runCmds3_append (ctx : Ctx κ) (fuel : Nat) : ∀ (a b : List Cmd3) (st mid fin : St3 κ)
    (l1 l2 : List (Bool × St3 κ)), runCmds3 ctx fuel a st = .ok (mid, l1) →
    runCmds3 ctx fuel b mid = .ok (fin, l2) → runCmds3 ctx fuel (a ++ b) st = .ok (fin, l1 ++ l2)
  | [], b, st, mid, fin, l1, l2, h1, h2 => by
    simp only [runCmds3, Except.ok.injEq, Prod.mk.injEq] at h1
    obtain ⟨rfl, rfl⟩ := h1
    simpa using h2
  | cmd :: r, b, st, mid, fin, l1, l2, h1, h2 => by
    simp only [runCmds3, List.cons_append] at h1 ⊢
    split at h1
    · rename_i hf
      cases hr : runCmds3 ctx fuel r st with
      | error e => simp [hr] at h1
      | ok p =>
        obtain ⟨fin', log'⟩ := p
        simp only [hr, Except.ok.injEq, Prod.mk.injEq] at h1
        obtain ⟨rfl, rfl⟩ := h1
        simp [hf, runCmds3_append ctx fuel r b st _ _ _ _ hr h2]
    · rename_i hf
      cases hc : runCmd3 ctx fuel cmd st with
      | error e => simp [hc] at h1
      | ok st' =>
        cases hr : runCmds3 ctx fuel r st' with
        | error e => simp [hc, hr] at h1
        | ok p =>
          obtain ⟨fin', log'⟩ := p
          simp only [hc, hr, Except.ok.injEq, Prod.mk.injEq] at h1
          obtain ⟨rfl, rfl⟩ := h1
          simp [hf, runCmds3_append ctx fuel r b st' _ _ _ _ hr h2]

/-! ## the abstract machine -/

/-- abstract state: the entry is absent, all links, or all copies.  A checkout into an absent
entry produces its strategy's form; over an existing one copies stay copies; a commit keeps links
and turns copies into its strategy's form; a commit of an absent entry (fails and) changes
nothing. -/
def Cmd3.absStep : Cmd3 → Option Strat → Option Strat
  | .wipe, _ => none
  | .checkout strat, none => some strat
  | .checkout strat, some σ => some (coStrat σ strat)
  | .commit _, none => none
  | .commit _, some .link => some .link
  | .commit strat, some .copy => some strat

def absRun (cmds : List Cmd3) (a : Option Strat) : Option Strat :=
  cmds.foldl (fun a cmd => cmd.absStep a) a

/-- (succeeded?, abstract state after) per command -/
def absLog : List Cmd3 → Option Strat → List (Bool × Option Strat)
  | [], _ => []
  | cmd :: r, a => (!cmd.fails a.isSome, cmd.absStep a) :: absLog r (cmd.absStep a)

/-- is the entry present after the command: after a wipe no, after a checkout yes, a commit does
not change it -/
def Cmd3.presence : Cmd3 → Bool → Bool
  | .wipe, _ => false
  | .checkout _, _ => true
  | .commit _, b => b

theorem Cmd3.absStep_isSome (cmd : Cmd3) (a : Option Strat) :
    (cmd.absStep a).isSome = cmd.presence a.isSome := by
  cases cmd <;> cases a <;> try rfl
  rename_i strat σ; cases σ <;> rfl

/-! ## the invariant -/

/-- the workspace entry is the form `a` says (absent / all links / all copies), the child is the
one first recorded, the store is consistent and holds the tree -/
def SeqInvA (ctx : Ctx κ) (t : Node κ) (nm : Bytes) (a : Option Strat) (st : St3 κ) : Prop :=
  st.1 = a.map (fun σ => wsAfter ctx σ t) ∧ st.2.1 = ⟨nm, treeDigest ctx nm t, t.isDir⟩ ∧
    Consistent ctx st.2.2 ∧ HoldsNode ctx st.2.2 newChoice nm t

/-- the workspace entry is absent or all links or all copies, the child is the one first
recorded, the store is consistent and holds the tree -/
def SeqInv3 (ctx : Ctx κ) (t : Node κ) (nm : Bytes) (st : St3 κ) : Prop :=
  (st.1 = none ∨ ∃ σ, st.1 = some (wsAfter ctx σ t)) ∧
    st.2.1 = ⟨nm, treeDigest ctx nm t, t.isDir⟩ ∧
    Consistent ctx st.2.2 ∧ HoldsNode ctx st.2.2 newChoice nm t

theorem SeqInvA.inv3 {ctx : Ctx κ} {t : Node κ} {nm : Bytes} {a : Option Strat} {st : St3 κ}
    (h : SeqInvA ctx t nm a st) : SeqInv3 ctx t nm st := by
  obtain ⟨hw, hrest⟩ := h
  refine ⟨?_, hrest⟩
  cases a with
  | none => exact .inl hw
  | some σ => exact .inr ⟨σ, hw⟩

theorem SeqInv3.invA {ctx : Ctx κ} {t : Node κ} {nm : Bytes} {st : St3 κ}
    (h : SeqInv3 ctx t nm st) : ∃ a, SeqInvA ctx t nm a st := by
  obtain ⟨hw | ⟨σ, hw⟩, hrest⟩ := h
  · exact ⟨none, hw, hrest⟩
  · exact ⟨some σ, hw, hrest⟩

theorem SeqInvA.isSome {ctx : Ctx κ} {t : Node κ} {nm : Bytes} {a : Option Strat} {st : St3 κ}
    (h : SeqInvA ctx t nm a st) : st.1.isSome = a.isSome := by
  rw [h.1]; cases a <;> rfl

/-- under the invariant a present entry has the logical content `t` -/
theorem SeqInv3.deref {ctx : Ctx κ} {t : Node κ} {nm : Bytes} {st : St3 κ}
    (hp : t.plain = true) (h : SeqInv3 ctx t nm st) {w : Node κ} (hw : st.1 = some w) :
    deref ctx st.2.2 w = t := by
  obtain ⟨hw' | ⟨σ, hw'⟩, _, _, hh⟩ := h
  · rw [hw] at hw'; cases hw'
  · rw [hw] at hw'; cases hw'
    exact deref_wsAfter hp hh σ

/-! ## one command -/

/-- a failing command does not move the abstract state -/
theorem Cmd3.absStep_fails (cmd : Cmd3) (a : Option Strat) (h : cmd.fails a.isSome = true) :
    cmd.absStep a = a := by
  cases cmd <;> cases a <;> simp [Cmd3.fails, Cmd3.isCommit] at h
  rfl

/-- **One command under the invariant.**  Unless it is a commit of an absent entry the command
succeeds and the new state has the invariant for the abstract successor. -/
theorem runCmd3_inv (ctx : Ctx κ) (g : Good ctx) (t : Node κ) (nm : Bytes)
    (hp : t.plain = true) (hs : t.sorted = true) (hn : NamesOK ctx t) (fuel : Nat)
    (hf : depth t ≤ fuel) (cmd : Cmd3) (a : Option Strat) (st : St3 κ)
    (hinv : SeqInvA ctx t nm a st) (hok : cmd.fails st.1.isSome = false) :
    ∃ st', runCmd3 ctx fuel cmd st = .ok st' ∧ SeqInvA ctx t nm (cmd.absStep a) st' := by
  obtain ⟨o, c, s⟩ := st
  obtain ⟨hw, hc, hcons, hh⟩ := hinv
  simp only at hw hc hcons hh hok
  subst hw hc
  cases cmd with
  | wipe => exact ⟨(none, _, s), rfl, rfl, rfl, hcons, hh⟩
  | checkout strat =>
    cases a with
    | none =>
      have h := checkoutNode_holds g s strat t newChoice nm fuel hp hs hn hh hf
      rw [digestAs_new] at h
      exact ⟨(some (wsAfter ctx strat t), ⟨nm, treeDigest ctx nm t, t.isDir⟩, s),
        by simp [runCmd3, h], rfl, rfl, hcons, hh⟩
    | some σ =>
      have h := checkoutNode_over g s σ strat t newChoice nm fuel hp hs hn hh hf
      rw [digestAs_new] at h
      exact ⟨(some (wsAfter ctx (coStrat σ strat) t), ⟨nm, treeDigest ctx nm t, t.isDir⟩, s),
        by simp [runCmd3, h], rfl, rfl, hcons, hh⟩
  | commit strat =>
    cases a with
    | none => simp [Cmd3.fails, Cmd3.isCommit] at hok
    | some σ =>
      obtain ⟨s', h, hc', _, _, hh', _⟩ :=
        commit_idem_holding ctx g t nm hp hs hn s hcons hh σ strat
      refine ⟨(some (wsAfter2 ctx σ strat t), ⟨nm, treeDigest ctx nm t, t.isDir⟩, s'),
        by simp [runCmd3, h], ?_, rfl, hc', hh'⟩
      cases σ <;> rfl

/-! ## sequences -/

/-- **The log of a run, record by record.**  For the command `cmd` run in state `st` (abstractly
`a`) the record `(ok, st')` says: `ok` is false iff `cmd` is a commit and the entry is absent in
`st`; a failed command leaves the state alone; `st'` has the invariant for the abstract successor
`cmd.absStep a`; and the rest of the log is the log of the rest of the run from `st'`. -/
def LogOK (ctx : Ctx κ) (t : Node κ) (nm : Bytes) :
    Option Strat → St3 κ → List Cmd3 → List (Bool × St3 κ) → Prop
  | _, _, [], [] => True
  | a, st, cmd :: r, (ok, st') :: log =>
    (ok = false ↔ (cmd.isCommit = true ∧ st.1 = none)) ∧ (ok = false → st' = st) ∧
      SeqInvA ctx t nm (cmd.absStep a) st' ∧ LogOK ctx t nm (cmd.absStep a) st' r log
  | _, _, _, _ => False

theorem runCmds3_inv (ctx : Ctx κ) (g : Good ctx) (t : Node κ) (nm : Bytes)
    (hp : t.plain = true) (hs : t.sorted = true) (hn : NamesOK ctx t) (fuel : Nat)
    (hf : depth t ≤ fuel) : ∀ (cmds : List Cmd3) (a : Option Strat) (st : St3 κ),
    SeqInvA ctx t nm a st → ∃ fin log, runCmds3 ctx fuel cmds st = .ok (fin, log) ∧
      SeqInvA ctx t nm (absRun cmds a) fin ∧ LogOK ctx t nm a st cmds log
  | [], a, st, hinv => ⟨st, [], rfl, hinv, trivial⟩
  | cmd :: r, a, st, hinv => by
    cases hfail : cmd.fails st.1.isSome with
    | true =>
      have ha : cmd.absStep a = a := cmd.absStep_fails a (by rw [← hinv.isSome]; exact hfail)
      obtain ⟨fin, log, hrun, hfin, hlog⟩ := runCmds3_inv ctx g t nm hp hs hn fuel hf r a st hinv
      refine ⟨fin, (false, st) :: log, by simp [runCmds3, hfail, hrun], ?_, ?_⟩
      · simpa [absRun, ha] using hfin
      · refine ⟨⟨fun _ => (Cmd3.fails_iff cmd st.1).1 hfail, fun _ => rfl⟩, fun _ => rfl, ?_, ?_⟩
        · rw [ha]; exact hinv
        · rw [ha]; exact hlog
    | false =>
      obtain ⟨st', h1, hinv'⟩ := runCmd3_inv ctx g t nm hp hs hn fuel hf cmd a st hinv hfail
      obtain ⟨fin, log, hrun, hfin, hlog⟩ :=
        runCmds3_inv ctx g t nm hp hs hn fuel hf r (cmd.absStep a) st' hinv'
      refine ⟨fin, (true, st') :: log, by simp [runCmds3, hfail, h1, hrun], ?_, ?_⟩
      · simpa [absRun] using hfin
      · refine ⟨⟨fun h => (by cases h), fun h => ?_⟩, fun h => (by cases h), hinv', hlog⟩
        rw [(Cmd3.fails_iff cmd st.1).2 h] at hfail
        cases hfail

/-! ### what `LogOK` gives -/

theorem LogOK.length {ctx : Ctx κ} {t : Node κ} {nm : Bytes} : ∀ {a : Option Strat} {st : St3 κ}
    {cmds : List Cmd3} {log : List (Bool × St3 κ)}, LogOK ctx t nm a st cmds log →
    log.length = cmds.length
  | _, _, [], [], _ => rfl
  | _, _, _ :: _, (_, _) :: _, h => by simp [LogOK.length h.2.2.2]
  | _, _, [], _ :: _, h => by simp [LogOK] at h
  | _, _, _ :: _, [], h => by simp [LogOK] at h

/-- **the invariant holds at every point of the run** -/
theorem LogOK.inv {ctx : Ctx κ} {t : Node κ} {nm : Bytes} : ∀ {a : Option Strat} {st : St3 κ}
    {cmds : List Cmd3} {log : List (Bool × St3 κ)}, LogOK ctx t nm a st cmds log →
    ∀ e ∈ log, SeqInv3 ctx t nm e.2
  | _, _, [], [], _ => by simp
  | _, _, _ :: _, (_, _) :: _, h => by
    intro e he
    rcases List.mem_cons.1 he with rfl | he
    · exact h.2.2.1.inv3
    · exact LogOK.inv h.2.2.2 e he
  | _, _, [], _ :: _, h => by simp [LogOK] at h
  | _, _, _ :: _, [], h => by simp [LogOK] at h

/-- the run simulates the abstract machine: flags and workspace forms of the log are those of
`absLog` -/
theorem LogOK.abs {ctx : Ctx κ} {t : Node κ} {nm : Bytes} : ∀ {a : Option Strat} {st : St3 κ}
    {cmds : List Cmd3} {log : List (Bool × St3 κ)}, SeqInvA ctx t nm a st →
    LogOK ctx t nm a st cmds log →
    log.map (fun e => (e.1, e.2.1)) =
      (absLog cmds a).map (fun e => (e.1, e.2.map (fun σ => wsAfter ctx σ t)))
  | _, _, [], [], _, _ => rfl
  | a, st, cmd :: r, (ok, st') :: log, hinv, h => by
    obtain ⟨hok, _, hinv', hlog⟩ := h
    simp only [List.map, absLog, List.cons.injEq, Prod.mk.injEq]
    refine ⟨⟨?_, hinv'.1⟩, LogOK.abs hinv' hlog⟩
    rw [← hinv.isSome]
    cases ok with
    | false =>
      have := (Cmd3.fails_iff cmd st.1).2 (hok.1 rfl)
      simp [this]
    | true =>
      cases hf : cmd.fails st.1.isSome with
      | false => rfl
      | true => exact absurd (hok.2 ((Cmd3.fails_iff cmd st.1).1 hf)) (by simp)
  | _, _, [], _ :: _, _, h => by simp [LogOK] at h
  | _, _, _ :: _, [], _, h => by simp [LogOK] at h

/-- after a checkout the entry is present, after a wipe absent, a commit does not change that -/
theorem LogOK.present {ctx : Ctx κ} {t : Node κ} {nm : Bytes} {a : Option Strat} {st : St3 κ}
    {cmd : Cmd3} {r : List Cmd3} {ok : Bool} {st' : St3 κ} {log : List (Bool × St3 κ)}
    (hinv : SeqInvA ctx t nm a st) (h : LogOK ctx t nm a st (cmd :: r) ((ok, st') :: log)) :
    st'.1.isSome = cmd.presence st.1.isSome := by
  rw [h.2.2.1.isSome, cmd.absStep_isSome, hinv.isSome]

/-! ## the theorems -/

/-- **Any sequence of commits, checkouts (either strategy each) and deletions of the workspace
entry after a first commit** of a plain sorted tree.  The run never aborts.  At every point
(`LogOK`, `LogOK.inv`) and at the end the invariant `SeqInv3` holds: the entry is absent or
`wsAfter ctx σ t` for some `σ` (so its logical content is `t`), the recorded child is
`⟨nm, treeDigest ctx nm t, t.isDir⟩`, the store is consistent and holds the tree.  A command fails
iff it is a commit and the entry is absent at that moment, and then nothing changes; after any
checkout the entry is present. -/
theorem commit_checkout_wipe_sequence (ctx : Ctx κ) (g : Good ctx) (t : Node κ) (nm : Bytes)
    (hp : t.plain = true) (hs : t.sorted = true) (hn : NamesOK ctx t)
    (s : Store κ) (hc : Consistent ctx s) (strat : Strat) (fuel : Nat) (hf : depth t ≤ fuel) :
    ∃ t' c' s', commitNode ctx strat t ⟨nm, "", t.isDir⟩ s = .ok (t', c', s') ∧
      t' = wsAfter ctx strat t ∧ c' = ⟨nm, treeDigest ctx nm t, t.isDir⟩ ∧
      ∀ cmds : List Cmd3, ∃ fin log, runCmds3 ctx fuel cmds (some t', c', s') = .ok (fin, log) ∧
        -- at the end
        SeqInv3 ctx t nm fin ∧ SeqInvA ctx t nm (absRun cmds (some strat)) fin ∧
        (∀ w, fin.1 = some w → deref ctx fin.2.2 w = t) ∧
        -- at every point
        fin = lastSt (some t', c', s') log ∧ log.length = cmds.length ∧
        LogOK ctx t nm (some strat) (some t', c', s') cmds log ∧
        (∀ e ∈ log, SeqInv3 ctx t nm e.2 ∧ ∀ w, e.2.1 = some w → deref ctx e.2.2.2 w = t) ∧
        log.map (fun e => (e.1, e.2.1)) =
          (absLog cmds (some strat)).map (fun e => (e.1, e.2.map (fun σ => wsAfter ctx σ t))) := by
  obtain ⟨s', h, hc', _, hh, _⟩ := recommitNode_post g t hp hn ⟨nm, "", t.isDir⟩ s strat rfl
    (compatNode_empty ctx s t) hc
  refine ⟨_, _, s', h, rfl, rfl, ?_⟩
  intro cmds
  have hinv : SeqInvA ctx t nm (some strat)
      (some (wsAfter ctx strat t), ⟨nm, treeDigest ctx nm t, t.isDir⟩, s') := ⟨rfl, rfl, hc', hh⟩
  obtain ⟨fin, log, hrun, hfin, hlog⟩ := runCmds3_inv ctx g t nm hp hs hn fuel hf cmds _ _ hinv
  obtain ⟨hlast, hlen⟩ := runCmds3_fin ctx fuel cmds _ _ _ hrun
  exact ⟨fin, log, hrun, hfin.inv3, hfin, fun w hw => hfin.inv3.deref hp hw, hlast, hlen, hlog,
    fun e he => ⟨hlog.inv e he, fun w hw => (hlog.inv e he).deref hp hw⟩, hlog.abs hinv⟩

/-- **`wipe; checkout` restores the tree**, from any state with the invariant (so from any point
of any run of `commit_checkout_wipe_sequence`): both commands succeed and the entry is the
`strat`-form of `t`, whose logical content is `t`. -/
theorem wipe_then_checkout_restores (ctx : Ctx κ) (g : Good ctx) (t : Node κ) (nm : Bytes)
    (hp : t.plain = true) (hs : t.sorted = true) (hn : NamesOK ctx t) (fuel : Nat)
    (hf : depth t ≤ fuel) (st : St3 κ) (hinv : SeqInv3 ctx t nm st) (strat : Strat) :
    runCmds3 ctx fuel [.wipe, .checkout strat] st =
        .ok ((some (wsAfter ctx strat t), st.2.1, st.2.2),
          [(true, (none, st.2.1, st.2.2)), (true, (some (wsAfter ctx strat t), st.2.1, st.2.2))]) ∧
      deref ctx st.2.2 (wsAfter ctx strat t) = t ∧
      SeqInv3 ctx t nm (some (wsAfter ctx strat t), st.2.1, st.2.2) := by
  obtain ⟨o, c, s⟩ := st
  obtain ⟨_, hc, hcons, hh⟩ := hinv
  simp only at hc hcons hh
  subst hc
  have h := checkoutNode_holds g s strat t newChoice nm fuel hp hs hn hh hf
  rw [digestAs_new] at h
  refine ⟨?_, deref_wsAfter hp hh strat, .inr ⟨strat, rfl⟩, rfl, hcons, hh⟩
  simp [runCmds3, runCmd3, Cmd3.fails, Cmd3.isCommit, h]

/-- the same from the first commit: whatever was run in between, `wipe; checkout strat2` ends with
the `strat2`-form of the tree in the workspace -/
theorem commit_wipe_checkout_restores (ctx : Ctx κ) (g : Good ctx) (t : Node κ) (nm : Bytes)
    (hp : t.plain = true) (hs : t.sorted = true) (hn : NamesOK ctx t)
    (s : Store κ) (hc : Consistent ctx s) (strat : Strat) (fuel : Nat) (hf : depth t ≤ fuel) :
    ∃ t' c' s', commitNode ctx strat t ⟨nm, "", t.isDir⟩ s = .ok (t', c', s') ∧
      ∀ (cmds : List Cmd3) (strat2 : Strat), ∃ s'' log,
        runCmds3 ctx fuel (cmds ++ [.wipe, .checkout strat2]) (some t', c', s') =
          .ok ((some (wsAfter ctx strat2 t), c', s''), log) ∧
        deref ctx s'' (wsAfter ctx strat2 t) = t ∧ Consistent ctx s'' := by
  obtain ⟨t', c', s', h, _, hc', hall⟩ :=
    commit_checkout_wipe_sequence ctx g t nm hp hs hn s hc strat fuel hf
  refine ⟨t', c', s', h, ?_⟩
  intro cmds strat2
  obtain ⟨fin, log, hrun, hfin, _⟩ := hall cmds
  obtain ⟨h2, hd, _⟩ := wipe_then_checkout_restores ctx g t nm hp hs hn fuel hf fin hfin strat2
  have hchild : fin.2.1 = c' := by rw [hfin.2.1, hc']
  rw [hchild] at h2
  exact ⟨fin.2.2, _, runCmds3_append ctx fuel cmds _ _ _ _ _ _ hrun h2, hd, hfin.2.2.1⟩

/-! ## the old theorem as a corollary -/

def Cmd.to3 : Cmd → Cmd3
  | .commit strat => .commit strat
  | .checkout strat => .checkout strat

theorem runCmd3_to3 (ctx : Ctx κ) (fuel : Nat) (cmd : Cmd) (w : Node κ) (c : Child)
    (s : Store κ) :
    runCmd3 ctx fuel cmd.to3 (some w, c, s) =
      match runCmd ctx fuel cmd (w, c, s) with
      | .error e => .error e
      | .ok (w', c', s') => .ok (some w', c', s') := by
  cases cmd with
  | commit strat =>
    simp only [Cmd.to3, runCmd3, runCmd]
  | checkout strat =>
    simp only [Cmd.to3, runCmd3, runCmd]
    cases checkoutNode ctx strat s fuel (some w) c <;> rfl

theorem Cmd.to3_fails (cmd : Cmd) (w : Node κ) : cmd.to3.fails (some w).isSome = false := by
  cases cmd <;> rfl

/-- without `wipe` and from a present entry, `runCmds3` is `runCmds`: nothing fails, the entry
stays present -/
theorem runCmds3_to3 (ctx : Ctx κ) (fuel : Nat) : ∀ (cmds : List Cmd) (w : Node κ) (c : Child)
    (s : Store κ) (fin : St3 κ) (log : List (Bool × St3 κ)),
    runCmds3 ctx fuel (cmds.map Cmd.to3) (some w, c, s) = .ok (fin, log) →
    ∃ w' c' s', fin = (some w', c', s') ∧ runCmds ctx fuel cmds (w, c, s) = .ok (w', c', s') ∧
      ∀ e ∈ log, e.1 = true
  | [], w, c, s, fin, log, h => by
    simp only [List.map, runCmds3, Except.ok.injEq, Prod.mk.injEq] at h
    obtain ⟨rfl, rfl⟩ := h
    exact ⟨w, c, s, rfl, rfl, by simp⟩
  | cmd :: r, w, c, s, fin, log, h => by
    simp only [List.map, runCmds3, Cmd.to3_fails, Bool.false_eq_true, if_false,
      runCmd3_to3] at h
    cases h1 : runCmd ctx fuel cmd (w, c, s) with
    | error e => simp [h1] at h
    | ok st1 =>
      obtain ⟨w1, c1, s1⟩ := st1
      simp only [h1] at h
      cases hr : runCmds3 ctx fuel (r.map Cmd.to3) (some w1, c1, s1) with
      | error e => simp [hr] at h
      | ok p =>
        obtain ⟨fin', log'⟩ := p
        simp only [hr, Except.ok.injEq, Prod.mk.injEq] at h
        obtain ⟨rfl, rfl⟩ := h
        obtain ⟨w', c', s', hfin, hrun, hall⟩ := runCmds3_to3 ctx fuel r w1 c1 s1 _ _ hr
        refine ⟨w', c', s', hfin, by simp [runCmds, h1, hrun], ?_⟩
        intro e he
        rcases List.mem_cons.1 he with rfl | he
        · rfl
        · exact hall e he

/-- **`commit_checkout_sequence_partial` as a corollary** of `commit_checkout_wipe_sequence`
(sequences without `wipe`; same statement). -/
theorem commit_checkout_sequence_of_wipe (ctx : Ctx κ) (g : Good ctx) (t : Node κ) (nm : Bytes)
    (hp : t.plain = true) (hs : t.sorted = true) (hn : NamesOK ctx t)
    (s : Store κ) (hc : Consistent ctx s) (strat : Strat) (cmds : List Cmd) (fuel : Nat)
    (hf : depth t ≤ fuel) :
    ∃ t' c' s', commitNode ctx strat t ⟨nm, "", t.isDir⟩ s = .ok (t', c', s') ∧
      ∃ w s'', runCmds ctx fuel cmds (t', c', s') = .ok (w, c', s'') ∧
        deref ctx s'' w = t ∧ (∃ σ, w = wsAfter ctx σ t) ∧ Consistent ctx s'' ∧
        c'.sum = treeDigest ctx nm t := by
  obtain ⟨t', c', s', h, _, hc', hall⟩ :=
    commit_checkout_wipe_sequence ctx g t nm hp hs hn s hc strat fuel hf
  obtain ⟨fin, log, hrun, hfin, _, hd, _⟩ := hall (cmds.map Cmd.to3)
  obtain ⟨w, c2, s'', rfl, hrun', _⟩ := runCmds3_to3 ctx fuel cmds _ _ _ _ _ hrun
  obtain ⟨hw, hc2, hcons, _⟩ := hfin
  simp only at hw hc2 hcons
  have hc2' : c2 = c' := by rw [hc2, hc']
  subst hc2'
  refine ⟨t', c2, s', h, w, s'', hrun', hd w rfl, ?_, hcons, by rw [hc']⟩
  rcases hw with hw | ⟨σ, hw⟩
  · cases hw
  · exact ⟨σ, by cases hw; rfl⟩

/-! ## Non-vacuity over `Dud.Example.ctx` -/

namespace Example

/-- delete, commit (fails: nothing there), check out copies, commit them into links, delete,
check out links -/
def demoCmds : List Cmd3 :=
  [.wipe, .commit .link, .checkout .copy, .commit .link, .wipe, .checkout .link]

/-- the abstract run of `demoCmds`, by evaluation -/
example : absLog demoCmds (some .copy) =
    [(true, none), (false, none), (true, some .copy), (true, some .link), (true, none),
      (true, some .link)] := by decide

/-- All hypotheses of `commit_checkout_wipe_sequence` are satisfiable together; on the example
tree the run of `demoCmds` does not abort, exactly the second command fails, and the workspace
entries after the six commands are: absent, absent, the tree, its all-links form, absent, the
all-links form. -/
theorem demo_run :
    ∃ t' c' s', commitNode ctx .copy tree ⟨[116], "", true⟩ [] = .ok (t', c', s') ∧
      ∃ fin log, runCmds3 ctx 3 demoCmds (some t', c', s') = .ok (fin, log) ∧
        log.map (fun e => (e.1, e.2.1)) =
          [(true, none), (false, none), (true, some tree), (true, some (linked ctx tree)),
            (true, none), (true, some (linked ctx tree))] ∧
        fin.1 = some (linked ctx tree) ∧ fin.2.1 = c' ∧
        deref ctx fin.2.2 (linked ctx tree) = tree := by
  obtain ⟨t', c', s', h, _, hc', hall⟩ :=
    commit_checkout_wipe_sequence ctx good tree [116] tree_plain tree_sorted tree_names []
      empty_consistent .copy 3 (Nat.le_of_eq tree_depth)
  obtain ⟨fin, log, hrun, hfin, hfinA, hd, _, _, _, _, habs⟩ := hall demoCmds
  have hw : fin.1 = some (linked ctx tree) := hfinA.1
  exact ⟨t', c', s', h, fin, log, hrun, habs, hw, by rw [hfin.2.1, hc'], hd _ hw⟩

/-- executable evidence: the whole run evaluated -/
def seq3Demo (strat : Strat) (cmds : List Cmd3) : String :=
  match commitNode ctx strat tree ⟨[116], "", true⟩ [] with
  | .error e => s!"commit error {e}"
  | .ok (t', c', s') =>
    match runCmds3 ctx 3 cmds (some t', c', s') with
    | .error e => s!"aborted: {e}"
    | .ok (fin, log) =>
      let showSt : St3 K → String := fun st =>
        match st.1 with
        | none => "absent"
        | some w => s!"present, logical content = tree: {nodeBEq (deref ctx st.2.2 w) tree}, " ++
            s!"all links: {nodeBEq w (linked ctx tree)}"
      s!"flags {log.map (·.1)}; child kept at every point: {log.all (fun e => e.2.2.1 == c')}; " ++
      s!"entries: {log.map (fun e => showSt e.2)}; end: {showSt fin}"

#eval seq3Demo .copy demoCmds
#eval seq3Demo .link [.commit .copy, .wipe, .wipe, .commit .copy, .commit .link, .checkout .link,
  .checkout .copy, .commit .link, .wipe, .checkout .copy, .checkout .link, .commit .link]

end Example

#print axioms runCmd3_absent
#print axioms Cmd3.fails_iff
#print axioms runCmds3_fin
#print axioms runCmds3_append
#print axioms Cmd3.absStep_isSome
#print axioms SeqInvA.inv3
#print axioms SeqInv3.invA
#print axioms SeqInvA.isSome
#print axioms SeqInv3.deref
#print axioms Cmd3.absStep_fails
#print axioms runCmd3_inv
#print axioms runCmds3_inv
#print axioms LogOK.length
#print axioms LogOK.inv
#print axioms LogOK.abs
#print axioms LogOK.present
#print axioms commit_checkout_wipe_sequence
#print axioms wipe_then_checkout_restores
#print axioms commit_wipe_checkout_restores
#print axioms runCmd3_to3
#print axioms Cmd.to3_fails
#print axioms runCmds3_to3
#print axioms commit_checkout_sequence_of_wipe
#print axioms Example.demo_run

end Dud
