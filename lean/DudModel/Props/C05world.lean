import DudModel.Lemmas.WorldStatus
import DudModel.Lemmas.WorldRecommit
/-!
# C05 and C15 at the world level — `dud commit`, then `dud status` / `dud commit` again

Hypotheses are those of `commit_checkout_world_roundtrip` (`Props/C01world.lean`): `Good cfg.ctx`,
`Consistent cfg.ctx w0.store`, `PipelineOK cfg (InScope cfg w0 targets) w0`, a successful
`cmdCommit cfg strat targets w0 = .ok w'`, plus

* `PlainInputsFiles`: the inputs (of the stages in scope) that no stage owns are *file* artifacts.
  `commitAct` commits such inputs itself with `skip-cache`; for a directory the flag is ignored
  (C07), and nothing is assumed about such a directory in `PipelineOK`, so neither the success of
  `dud status` on it nor that of a second commit could be derived.

Main statements

1. `status_after_commit_world` (C05): `dud status [targets]` in the committed world succeeds, changes
   neither workspace, caches nor index, and reports, for every stage in scope, an entry
   `(stage, hasChecksum = true, checksumMatches = true, statuses)` in which the status of every
   OUTPUT has `ContentsMatch = true`, no status has an "incorrect file type", and — if the un-owned
   inputs of the stage overlap no output in scope — EVERY status has `ContentsMatch = true`.
2. `commit_idem_world` (C15): a second `dud commit [targets]` (either strategy) succeeds and leaves
   the index unchanged (`w2.idx = w'.idx`), the cache unchanged up to bytes (`Store.le` both ways),
   the logical content of every output, and every path apart from the outputs.  Additional
   hypotheses: the un-owned file inputs overlap no output (`PlainInputsApartAll`), and no directory
   output has `DisableRecursion` (`Recursive`; the artifact-level theory of recommits, `Props/C15.lean`
   and `Props/C16.lean`, is about `commitNode`, which has no such mode).
3. `Example2.status_after_commit`, `Example2.commit_twice`: the two-stage example of
   `Props/C01world.lean` satisfies all hypotheses, so both theorems apply to it.  (They are obtained
   by instantiation and not by `decide`: with the string "hash" of `Example.ctx` the kernel needs
   more than 200 s to evaluate `cmdStatus` / the second `cmdCommit`; the `#eval`s below run the same
   computations in compiled code.)  `Example3.status_after_commit`: the same for a stage with an
   un-owned file input, a non-recursive directory output and a skip-cache output (the branches the
   two-stage example does not reach).

What the statements do NOT cover: everything listed in `Props/C01world.lean`; for C15 moreover
non-recursive directory outputs, and un-owned inputs that are directories or lie inside an output.
The proofs live in `Lemmas/WorldStatus.lean` (C05; `Settled`, `CommitInv2`, `StatusInv`) and
`Lemmas/WorldRecommit.lean` (C15; `CommitInv3`, `RecommitInv`).
-/
namespace Dud

open WT WStat

variable {κ : Type} [DecidableEq κ]

/-- **C05, command level.** -/
theorem status_after_commit_world (cfg : Cfg κ) (g : Good cfg.ctx) (strat : Strat)
    (targets : List Bytes) (w0 w' : World κ) (hc : Consistent cfg.ctx w0.store)
    (hok : PipelineOK cfg (InScope cfg w0 targets) w0)
    (hfiles : PlainInputsFiles cfg (InScope cfg w0 targets) w0)
    (h : cmdCommit cfg strat targets w0 = .ok w') :
    ∃ w'', cmdStatus cfg targets w' = .ok w'' ∧
      w''.ws = w'.ws ∧ w''.store = w'.store ∧ w''.remote = w'.remote ∧ w''.idx = w'.idx ∧
      ∀ sp stg, InScope cfg w0 targets sp → alookup w0.idx sp = some stg →
        ∃ sts, (sp, true, true, sts) ∈ w''.stat ∧
          (∀ st, st ∈ sts → st.typed = true) ∧
          (∀ a, a ∈ stg.outputs → ∃ st, st ∈ sts ∧ st.name = a.path ∧ st.cm = true) ∧
          ((∀ b, b ∈ stg.inputs → (findOwner cfg.walkAccumulates w0.idx b.path).isNone = true →
              ApartFromOutputs (InScope cfg w0 targets) w0 b.path) →
            ∀ st, st ∈ sts → st.cm = true) := by
  obtain ⟨_, hsh, l', hnd, hiff, hdone, htop, hts, ⟨t0, ht0⟩⟩ :=
    cmdCommit_inv cfg g strat targets w0 w' hc hok h
  have hci := cmdCommit_inv2 (statusEst cfg g) g strat targets w0 w' hc hok hfiles
    (fun _ _ _ _ _ _ => trivial) h
  have hall : ∀ sp, InScope cfg w0 targets sp → w'.done.contains sp = true := by
    intro sp hsp
    rw [hdone]
    simpa using (hiff sp).2 hsp
  have hstage : ∀ sp, InScope cfg w0 targets sp → ∃ stg S, alookup w0.idx sp = some stg ∧
      alookup w'.idx sp = some S ∧
      S.outputs = (sortArts stg.outputs).map (committedArt cfg.ctx w0.ws) := by
    intro sp hsp
    obtain ⟨stg, S, e0, e1, e2, _⟩ := hci.base.finished sp hsp (hall sp hsp)
    exact ⟨stg, S, e0, e1, e2⟩
  have hown : ∀ sp x, x ∈ ownIdx cfg w'.idx sp ↔ x ∈ ownIdx cfg w0.idx sp :=
    fun sp x => ownIdx_sim cfg hsh sp x
  have hT : (statusTrav cfg).LawfulOn (ownIdx cfg w0.idx) (fun u => u.idx = w'.idx) :=
    lawfulOn_congr_own (statusTrav_lawfulOn cfg w'.idx) hown
  have hts' : (if targets.isEmpty then allStages w' else targets) =
      (if targets.isEmpty then allStages w0 else targets) := by
    have : allStages w' = allStages w0 := by
      simp only [allStages]
      exact hsh.keys
    rw [this]
  -- progress, with a fuel large enough for the rank
  obtain ⟨w'', hrun, hi', hq'⟩ := WT.perTarget_progress (T := statusTrav cfg)
    (Q := StatusInv cfg (InScope cfg w0 targets) w0 w') (S := (· ∈ l')) (rank := l'.idxOf) hT
    (fun x hx o ho => ⟨(htop x hx o ho).mem_left, WT.idxOf_lt_of_before hnd (htop x hx o ho)⟩)
    (fun st sp hi hsp => by
      obtain ⟨_, S, _, e1, _⟩ := hstage sp ((hiff sp).1 hsp)
      have hi : st.idx = w'.idx := hi
      show ∃ os, ownersOf cfg st sp = .ok os
      simp only [ownersOf, World.stage, hi, e1]
      exact ⟨_, rfl⟩)
    (fun st sp hi hq hsp _ _ =>
      statusInv_step cfg g _ w0 w' hsh hci hall sp st ((hiff sp).1 hsp) hi hq)
    (fun u => l'.length + u.idx.length + 1) allStages
    (fun u hi x hx => by
      have hi : u.idx = w'.idx := hi
      obtain ⟨_, S, _, e1, _⟩ := hstage x ((hiff x).1 hx)
      have hl : alookup u.idx x = some S := by rw [hi]; exact e1
      refine ⟨?_, WT.mem_keys_of_alookup hl, by rw [hl]; rfl⟩
      have := List.idxOf_le_length (l := l') (a := x)
      omega)
    (if targets.isEmpty then allStages w' else targets) (fresh w')
    (fun t ht => hts t (hts' ▸ ht)) rfl
    { ws := rfl, store := rfl, remote := rfl
      fin := fun sp _ hd => by simp [fresh] at hd }
  -- the same run with the fuel `cmdStatus` uses
  have hcmd : cmdStatus cfg targets w' = .ok w'' := by
    have hne : w'.idx.isEmpty = false := by
      obtain ⟨_, S, _, e1, _⟩ := hstage t0 ((hiff t0).1 ht0)
      cases hw : w'.idx with
      | nil => rw [hw] at e1; simp [alookup] at e1
      | cons _ _ => rfl
    simp only [cmdStatus, hne, Bool.false_eq_true, if_false]
    rw [← hrun]
    refine WT.perTarget_congr (fun t u => ?_) _ _
    refine visit_fuel_irrelevant _ true _ _ (allStages u) t u ?_ ?_
    · simp [allStages]
    · simp only [allStages, List.length_map]; omega
  refine ⟨w'', hcmd, hq'.ws, hq'.store, hq'.remote, hi', ?_⟩
  -- every stage in scope has been looked at
  obtain ⟨l'', _, hnd'', hts'', hdone'', htop''⟩ := cmdStatus_spec cfg targets w' w'' hcmd
  intro sp stg hsp hs
  have hdn : w''.done.contains sp = true := by
    obtain ⟨t, ht, hr⟩ := hsp
    have hr' : Reach (ownIdx cfg w'.idx) t sp :=
      reach_congr_own (fun s x hx => (hown s x).2 hx) hr
    have := reach_mem_log hnd'' htop'' hr' (hts'' t (hts' ▸ ht))
    rw [hdone'']
    simpa using this
  obtain ⟨S, sts, e1, hmem, hf⟩ := hq'.fin sp hsp hdn
  obtain ⟨stg0, S0, e0, e1', e2⟩ := hstage sp hsp
  rw [hs] at e0
  cases e0
  rw [e1] at e1'
  cases e1'
  have hap := hok.apart_in sp stg hsp hs
  have hapS : ApartArts S.outputs := by
    rw [e2]
    exact hap.sortArts.of_paths (committedArt_paths cfg.ctx w0.ws _)
  refine ⟨sts, hmem, ?_, ?_, ?_⟩
  · intro st hst
    obtain ⟨x, _, hg⟩ := forall₂_of_mem_right hf st hst
    exact hg.2.1
  · intro a ha
    have hx : committedArt cfg.ctx w0.ws a ∈ S.outputs := by
      rw [e2]
      exact List.mem_map.2 ⟨a, mem_sortArts_of_mem hap.paths_ne ha, rfl⟩
    have hx' : committedArt cfg.ctx w0.ws a ∈ artsOf cfg w'.idx S := by
      refine mem_sortArts_append_right _ (fun b hb hbp => ?_) hapS.paths_ne hx
      obtain ⟨_, hun⟩ := List.mem_filter.1 hb
      have := findOwner_isSome_of_output cfg.walkAccumulates w'.idx (WT.mem_of_alookup e1) hx
      rw [← hbp] at this
      rw [Option.isNone_iff_eq_none] at hun
      rw [hun] at this
      cases this
    obtain ⟨st, hst, hg⟩ := forall₂_of_mem_left hf _ hx'
    exact ⟨st, hst, hg.1, hg.2.2 (.inl hx)⟩
  · intro hapo st hst
    obtain ⟨x, hx, hg⟩ := forall₂_of_mem_right hf st hst
    refine hg.2.2 ?_
    rcases List.mem_append.1 (mem_of_mem_sortArts hx) with hp | ho
    · right
      obtain ⟨hxin, hun⟩ := List.mem_filter.1 hp
      have hun0 : (findOwner cfg.walkAccumulates w0.idx x.path).isNone = true := by
        rw [← findOwner_isNone_sim _ hsh]; exact hun
      have hsim : StageSim S stg := by
        rcases alookup_sim hsh sp with ⟨hn, _⟩ | ⟨s1, s0, h1, h0, hs10⟩
        · rw [e1] at hn; cases hn
        · rw [e1] at h1; rw [hs] at h0
          cases h1; cases h0
          exact hs10
      obtain ⟨b, hb, hbp⟩ := List.mem_map.1 ((hsim.1 x.path).1 (List.mem_map.2 ⟨x, hxin, rfl⟩))
      have := hapo b hb (by rw [hbp]; exact hun0)
      rw [hbp] at this
      exact this
    · exact .inl ho

/-- **C15, command level: `dud commit` twice.**  Under the hypotheses of
`commit_checkout_world_roundtrip`, and if moreover (for the stages in scope)
* the inputs no stage owns are file artifacts (`PlainInputsFiles`) whose paths overlap no output
  (`PlainInputsApartAll`), and
* every directory output is recursive (`Recursive`: no `DisableRecursion`),

a second `dud commit [targets]` in the committed world `w'`, with either strategy, succeeds in a
world `w2` such that
* the index is UNCHANGED (`w2.idx = w'.idx`: every recorded checksum — stage, inputs, outputs — is
  the same);
* the cache is unchanged up to bytes (`Store.le` both ways: the same digests are bound, to objects
  with the same bytes), and consistent;
* every output of every stage in scope has, before and after, the logical content (`deref`) of the
  original workspace;
* every path apart from all outputs in scope is untouched. -/
theorem commit_idem_world (cfg : Cfg κ) (g : Good cfg.ctx) (strat strat2 : Strat)
    (targets : List Bytes) (w0 w' : World κ) (hc : Consistent cfg.ctx w0.store)
    (hok : PipelineOK cfg (InScope cfg w0 targets) w0)
    (hfiles : PlainInputsFiles cfg (InScope cfg w0 targets) w0)
    (hapart : PlainInputsApartAll cfg (InScope cfg w0 targets) w0)
    (hrec : ∀ sp stg, InScope cfg w0 targets sp → alookup w0.idx sp = some stg →
      ∀ a, a ∈ stg.outputs → Recursive a)
    (h : cmdCommit cfg strat targets w0 = .ok w') :
    ∃ w2, cmdCommit cfg strat2 targets w' = .ok w2 ∧ w2.idx = w'.idx ∧
      Consistent cfg.ctx w2.store ∧ Store.le cfg.ctx w'.store w2.store ∧
      Store.le cfg.ctx w2.store w'.store ∧
      (∀ sp stg, InScope cfg w0 targets sp → alookup w0.idx sp = some stg →
        ∀ a, a ∈ stg.outputs → ∃ t1 t2, getPath w'.ws (Path.comps a.path) = some t1 ∧
          getPath w2.ws (Path.comps a.path) = some t2 ∧
          deref cfg.ctx w'.store t1 = origAt w0.ws a ∧ deref cfg.ctx w2.store t2 = origAt w0.ws a) ∧
      (∀ q, (∀ sp stg, InScope cfg w0 targets sp → alookup w0.idx sp = some stg →
          ∀ a, a ∈ stg.outputs → Apart (Path.comps a.path) q) →
        getPath w2.ws q = getPath w'.ws q) := by
  obtain ⟨hci0, hsh, l', hnd, hiff, hdone, htop, hts, ⟨t0, ht0⟩⟩ :=
    cmdCommit_inv cfg g strat targets w0 w' hc hok h
  have hci := cmdCommit_inv3 (settledEst cfg g) g strat targets w0 w' hc hok hfiles hrec h
  have hall : ∀ sp, InScope cfg w0 targets sp → w'.done.contains sp = true := by
    intro sp hsp
    rw [hdone]
    simpa using (hiff sp).2 hsp
  have hstage0 : ∀ sp, InScope cfg w0 targets sp → ∃ stg, alookup w0.idx sp = some stg := by
    intro sp hsp
    obtain ⟨stg, _, e0, _⟩ := hci0.finished sp hsp (hall sp hsp)
    exact ⟨stg, e0⟩
  have hlook : ∀ (u : World κ) sp, SameShape u.idx w0.idx → InScope cfg w0 targets sp →
      ∃ S, alookup u.idx sp = some S := by
    intro u sp hi hsp
    obtain ⟨stg, e0⟩ := hstage0 sp hsp
    rcases alookup_sim hi sp with ⟨_, h2⟩ | ⟨s, _, h1, _, _⟩
    · rw [e0] at h2; cases h2
    · exact ⟨s, h1⟩
  have hT := commitTrav_lawfulOn cfg strat2 w0.idx hok.keys
  have hts' : (if targets.isEmpty then allStages w' else targets) =
      (if targets.isEmpty then allStages w0 else targets) := by
    have : allStages w' = allStages w0 := by
      simp only [allStages]
      exact hsh.keys
    rw [this]
  obtain ⟨w2, hrun, hi', hq'⟩ := WT.perTarget_progress (T := commitTrav cfg strat2)
    (Q := RecommitInv cfg (InScope cfg w0 targets) w0 w') (S := (· ∈ l')) (rank := l'.idxOf) hT
    (fun x hx o ho => ⟨(htop x hx o ho).mem_left, WT.idxOf_lt_of_before hnd (htop x hx o ho)⟩)
    (fun st sp hi hsp => by
      obtain ⟨S, hS⟩ := hlook st sp hi ((hiff sp).1 hsp)
      show ∃ os, ownersOf cfg st sp = .ok os
      simp only [ownersOf, World.stage, hS]
      exact ⟨_, rfl⟩)
    (fun st sp _ hq hsp hndone _ =>
      recommit_step cfg strat2 _ w0 w' hok hapart hsh hci hall sp st ((hiff sp).1 hsp) hq hndone)
    (fun u => l'.length + u.idx.length + 1) allStages
    (fun u hi x hx => by
      obtain ⟨S, hl⟩ := hlook u x hi ((hiff x).1 hx)
      refine ⟨?_, WT.mem_keys_of_alookup hl, by rw [hl]; rfl⟩
      have := List.idxOf_le_length (l := l') (a := x)
      omega)
    (if targets.isEmpty then allStages w' else targets) (fresh w')
    (fun t ht => hts t (hts' ▸ ht)) hsh
    { cons := hci0.cons, le1 := Store.le_refl _ _, le2 := Store.le_refl _ _, idx := rfl
      frame := fun _ _ => rfl
      pending := fun _ _ _ _ _ _ _ => rfl
      finished := fun sp _ _ hd => by simp [fresh] at hd }
  have hcmd : cmdCommit cfg strat2 targets w' = .ok w2 := by
    have hne : (if targets.isEmpty then allStages w' else targets).isEmpty = false := by
      cases hl : (if targets.isEmpty then allStages w' else targets) with
      | nil =>
        rw [hts'] at hl
        simp only [cmdCommit, hl, List.isEmpty_nil, if_true] at h
        cases h
      | cons _ _ => rfl
    simp only [cmdCommit, hne, Bool.false_eq_true, if_false]
    rw [← hrun]
    refine WT.perTarget_congr (fun t u => ?_) _ _
    refine visit_fuel_irrelevant _ true _ _ (allStages u) t u ?_ ?_
    · simp [allStages]
    · simp only [allStages, List.length_map]; omega
  refine ⟨w2, hcmd, hq'.idx, hq'.cons, hq'.le1, hq'.le2, ?_, hq'.frame⟩
  have hkeys' : (w'.idx.map (·.1)).Nodup := by rw [hsh.keys]; exact hok.keys
  obtain ⟨l'', _, _, hnd'', _, hts'', hdone'', htop''⟩ :=
    cmdCommit_spec cfg strat2 targets w' w2 hkeys' hcmd
  intro sp stg hsp hs a ha
  have hdn : w2.done.contains sp = true := by
    obtain ⟨t, ht, hr⟩ := hsp
    have hr' : Reach (ownIdx cfg w'.idx) t sp :=
      reach_congr_own (fun s x hx => (ownIdx_sim cfg hsh s x).2 hx) hr
    have := reach_mem_log hnd'' htop'' hr' (hts'' t (hts' ▸ ht))
    rw [hdone'']
    simpa using this
  obtain ⟨t1, g1, st1⟩ := hci.inv2.outs sp stg hsp (hall sp hsp) hs a ha
  obtain ⟨t2, g2, d2⟩ := hq'.finished sp stg hsp hdn hs a ha
  exact ⟨t1, t2, g1, g2, (st1 w'.store (Store.le_refl _ _)).2.1, d2⟩

/-! ## non-vacuity: the two-stage pipeline of `Props/C01world.lean` -/

namespace Example2
open Dud.Example

theorem plainInputsFiles (Sc : Bytes → Prop) : PlainInputsFiles cfg Sc w0 := by
  intro sp stg _ hs b hb hn
  rcases idx_cases hs with ⟨_, rfl⟩ | ⟨_, rfl⟩
  · simp [stageA] at hb
  · simp only [stageB, List.mem_singleton] at hb
    subst hb
    have : (findOwner cfg.walkAccumulates w0.idx [97]).isNone = false := rfl
    rw [this] at hn
    cases hn

/-- **C05 instantiated**: after `dud commit` of the two-stage pipeline, `dud status` succeeds and
reports, for stage A and for stage B, a recorded and matching stage checksum and every artifact
(`a/`, resp. `b`; the input `a/` of stage B is owned by stage A and not reported) up to date. -/
theorem status_after_commit :
    ∃ w'', cmdStatus cfg [] w1 = .ok w'' ∧ w''.ws = w1.ws ∧ w''.store = w1.store ∧ w''.idx = w1.idx ∧
      (∃ sts, ([1], true, true, sts) ∈ w''.stat ∧ (∀ st, st ∈ sts → st.cm = true) ∧
        ∃ st, st ∈ sts ∧ st.name = [97] ∧ st.cm = true) ∧
      (∃ sts, ([2], true, true, sts) ∈ w''.stat ∧ (∀ st, st ∈ sts → st.cm = true) ∧
        ∃ st, st ∈ sts ∧ st.name = [98] ∧ st.cm = true) := by
  obtain ⟨w'', h1, h2, h3, _, h5, h6⟩ := status_after_commit_world cfg good .link [] w0 w1
    (by intro d o h; simp [w0, Store.get, alookup] at h) (pipelineOK _) (plainInputsFiles _) commit_ok
  refine ⟨w'', h1, h2, h3, h5, ?_, ?_⟩
  · obtain ⟨sts, m, _, o, i⟩ := h6 [1] stageA (scope_all _ (.inl rfl)) rfl
    refine ⟨sts, m, i (fun b hb => by simp [stageA] at hb), ?_⟩
    exact o outA (by simp [stageA])
  · obtain ⟨sts, m, _, o, i⟩ := h6 [2] stageB (scope_all _ (.inr rfl)) rfl
    refine ⟨sts, m, i (fun b hb hn => ?_), ?_⟩
    · simp only [stageB, List.mem_singleton] at hb
      subst hb
      have : (findOwner cfg.walkAccumulates w0.idx [97]).isNone = false := rfl
      rw [this] at hn
      cases hn
    · exact o outB (by simp [stageB])

theorem plainInputsApartAll (Sc : Bytes → Prop) : PlainInputsApartAll cfg Sc w0 := by
  intro sp stg _ hs b hb hn
  rcases idx_cases hs with ⟨_, rfl⟩ | ⟨_, rfl⟩
  · simp [stageA] at hb
  · simp only [stageB, List.mem_singleton] at hb
    subst hb
    have : (findOwner cfg.walkAccumulates w0.idx [97]).isNone = false := rfl
    rw [this] at hn
    cases hn

theorem outputsRecursive {sp : Bytes} {stg : Stage} (hs : alookup w0.idx sp = some stg) :
    ∀ a, a ∈ stg.outputs → Recursive a := by
  intro a ha
  rcases idx_cases hs with ⟨_, rfl⟩ | ⟨_, rfl⟩
  · simp only [stageA, List.mem_singleton] at ha
    subst ha
    intro _; rfl
  · simp only [stageB, List.mem_singleton] at ha
    subst ha
    intro hd; cases hd

/-- **C15 instantiated**: a second `dud commit` (either strategy) of the two-stage pipeline succeeds,
leaves the index — every recorded checksum — unchanged, the cache unchanged up to bytes, and the
directory `a/` and the file `b` with their original logical content. -/
theorem commit_twice (strat2 : Strat) :
    ∃ w2, cmdCommit cfg strat2 [] w1 = .ok w2 ∧ w2.idx = w1.idx ∧
      Store.le ctx w1.store w2.store ∧ Store.le ctx w2.store w1.store ∧
      (∃ t2, getPath w2.ws [[97]] = some t2 ∧ deref ctx w2.store t2 = treeA) ∧
      (∃ t2, getPath w2.ws [[98]] = some t2 ∧ deref ctx w2.store t2 = .file (.raw "out")) := by
  obtain ⟨w2, h1, h2, _, h4, h5, h6, _⟩ := commit_idem_world cfg good .link strat2 [] w0 w1
    (by intro d o h; simp [w0, Store.get, alookup] at h) (pipelineOK _) (plainInputsFiles _)
    (plainInputsApartAll _) (fun _ _ _ hs => outputsRecursive hs) commit_ok
  refine ⟨w2, h1, h2, h4, h5, ?_, ?_⟩
  · obtain ⟨_, t2, _, g2, _, d2⟩ := h6 [1] stageA (scope_all _ (.inl rfl)) rfl outA (by simp [stageA])
    exact ⟨t2, g2, d2⟩
  · obtain ⟨_, t2, _, g2, _, d2⟩ := h6 [2] stageB (scope_all _ (.inr rfl)) rfl outB (by simp [stageB])
    exact ⟨t2, g2, d2⟩

/-- the report of `dud status` after `dud commit`, computed by the model:
(stage, has checksum, checksum matches, [(artifact, ContentsMatch)]) -/
def statusSummary : List (Bytes × Bool × Bool × List (Bytes × Bool)) :=
  match cmdStatus cfg [] w1 with
  | .ok w => w.stat.map (fun e => (e.1, e.2.1, e.2.2.1, e.2.2.2.map (fun s => (s.name, s.cm))))
  | .error _ => []

/-- the second commit leaves the index as it is, computed by the model -/
def recommitSameIdx (strat2 : Strat) : Bool :=
  match cmdCommit cfg strat2 [] w1 with
  | .ok w => w.idx == w1.idx
  | .error _ => false

-- [([1], true, true, [([97], true)]), ([2], true, true, [([98], true)])]
#eval statusSummary
-- (true, true)
#eval (recommitSameIdx .link, recommitSameIdx .copy)

end Example2

/-! ## non-vacuity, second example: the branches the two-stage pipeline does not exercise

One stage with an un-owned file input `i`, a non-recursive directory output `d/` (which contains a
sub-directory) and a skip-cache file output `s`. -/

namespace Example3
open Dud.Example Dud.Example2

def treeD : Node K := .dir [([120], .file (.raw "x")), ([121], .dir [([122], .file (.raw "z"))])]
def inI : Art := { path := [105] }
def outD : Art := { path := [100], isDir := true, noRec := true }
def outS : Art := { path := [115], skip := true }
def stage : Stage := { cmd := [1], inputs := [inI], outputs := [outD, outS] }

def w0 : World K :=
  { ws := .dir [([100], treeD), ([105], .file (.raw "in")), ([115], .file (.raw "s"))],
    idx := [([1], stage)] }

def w1 : World K :=
  match cmdCommit cfg .copy [] w0 with
  | .ok w => w
  | .error _ => default

theorem commit_ok : cmdCommit cfg .copy [] w0 = .ok w1 := rfl

theorem idx_cases {sp : Bytes} {stg : Stage} (h : alookup w0.idx sp = some stg) :
    sp = [1] ∧ stg = stage := by
  simp only [w0, alookup] at h
  split at h
  · rename_i h1
    cases h
    exact ⟨(by simpa using h1 : [1] = sp).symm, rfl⟩
  · cases h

theorem apart1 {x y : UInt8} (h : x ≠ y) : Apart ([[x]] : List Name) [[y]] :=
  WT.apart_iff_diverge.2 ⟨[], [x], [y], [], [], by simpa using h, rfl, rfl⟩

theorem preD : ArtPre cfg.ctx cfg.fuel outD treeD where
  kind := rfl
  plain := by simp [treeD, Node.plain, plainList]
  sorted := by simp [treeD, Node.sorted, sortedList, headName]; decide
  names := by
    intro nm h
    refine ⟨rfl, fun _ _ _ => rfl, ?_⟩
    simp only [treeD, allNames, allNamesList, List.mem_cons, List.not_mem_nil,
      List.append_nil, or_false, List.nil_append] at h
    rcases h with rfl | rfl | rfl <;> decide
  fresh := fun _ => ⟨rfl, rfl⟩
  fuel := by simp [trackedOf, outD, treeD, depth, depthList, dropSubdirs, Node.isDir, cfg]

theorem preS : ArtPre cfg.ctx cfg.fuel outS (.file (.raw "s")) where
  kind := rfl
  plain := rfl
  sorted := rfl
  names := by intro nm h; simp [allNames] at h
  fresh := fun h => by cases h
  fuel := by simp [trackedOf, depth, cfg]

theorem pipelineOK (Sc : Bytes → Prop) : PipelineOK cfg Sc w0 where
  keys := by decide
  apart_in := by
    intro sp stg _ hs
    obtain ⟨_, rfl⟩ := idx_cases hs
    refine List.pairwise_cons.2 ⟨fun b hb => ?_, List.pairwise_singleton _ _⟩
    simp only [List.mem_singleton] at hb
    subst hb
    exact apart1 (by decide)
  apart_across := by
    intro sp1 sp2 stg1 stg2 _ _ hne h1 h2
    obtain ⟨rfl, _⟩ := idx_cases h1
    obtain ⟨rfl, _⟩ := idx_cases h2
    exact absurd rfl hne
  pre := by
    intro sp stg _ hs a ha
    obtain ⟨_, rfl⟩ := idx_cases hs
    simp only [stage, List.mem_cons, List.not_mem_nil, or_false] at ha
    rcases ha with rfl | rfl
    · exact ⟨treeD, rfl, preD⟩
    · exact ⟨_, rfl, preS⟩
  inputs := by
    intro sp stg _ hs sp' stg' _ _ a _ b hb _
    obtain ⟨_, rfl⟩ := idx_cases hs
    simp only [stage, List.mem_singleton] at hb
    subst hb
    exact .inl rfl

theorem plainInputsFiles (Sc : Bytes → Prop) : PlainInputsFiles cfg Sc w0 := by
  intro sp stg _ hs b hb _
  obtain ⟨_, rfl⟩ := idx_cases hs
  simp only [stage, List.mem_singleton] at hb
  subst hb
  rfl

theorem inputApart (Sc : Bytes → Prop) : ApartFromOutputs Sc w0 inI.path := by
  intro sp stg _ hs a ha
  obtain ⟨_, rfl⟩ := idx_cases hs
  simp only [stage, List.mem_cons, List.not_mem_nil, or_false] at ha
  rcases ha with rfl | rfl
  · exact apart1 (by decide)
  · exact apart1 (by decide)

theorem scope : InScope cfg w0 [] [1] := ⟨[1], by decide, .refl _⟩

/-- **C05 instantiated** on a stage with an un-owned file input, a non-recursive directory output
and a skip-cache output: `dud status` after `dud commit` reports all three up to date. -/
theorem status_after_commit :
    ∃ w'', cmdStatus cfg [] w1 = .ok w'' ∧
      ∃ sts, ([1], true, true, sts) ∈ w''.stat ∧ (∀ st, st ∈ sts → st.cm = true) ∧
        (∃ st, st ∈ sts ∧ st.name = [100] ∧ st.cm = true) ∧
        (∃ st, st ∈ sts ∧ st.name = [115] ∧ st.cm = true) := by
  obtain ⟨w'', h1, _, _, _, _, h6⟩ := status_after_commit_world cfg good .copy [] w0 w1
    (by intro d o h; simp [w0, Store.get, alookup] at h) (pipelineOK _) (plainInputsFiles _) commit_ok
  obtain ⟨sts, m, _, o, i⟩ := h6 [1] stage scope rfl
  refine ⟨w'', h1, sts, m, i (fun b hb _ => ?_), o outD (by simp [stage]), o outS (by simp [stage])⟩
  simp only [stage, List.mem_singleton] at hb
  subst hb
  exact inputApart _

end Example3

/-! ## axioms -/

#print axioms status_after_commit_world
#print axioms commit_idem_world
#print axioms Example2.plainInputsFiles
#print axioms Example2.status_after_commit
#print axioms Example2.plainInputsApartAll
#print axioms Example2.outputsRecursive
#print axioms Example2.commit_twice
#print axioms Example3.commit_ok
#print axioms Example3.idx_cases
#print axioms Example3.apart1
#print axioms Example3.preD
#print axioms Example3.preS
#print axioms Example3.pipelineOK
#print axioms Example3.plainInputsFiles
#print axioms Example3.inputApart
#print axioms Example3.scope
#print axioms Example3.status_after_commit

end Dud
