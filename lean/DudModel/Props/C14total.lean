import DudModel.Lemmas.Blake3Total
/-!
# C14 (hash, last link): the executable BLAKE3 equals the list specification, for every input

Core-only.  `DudModel/Blake3Total.lean` is the executable BLAKE3 (`ByteArray`, indexed access, the tree
recursion of the paper) written with TOTAL functions only; it differs from the driver's
`DudModel/Blake3.lean` only in how the three loops are expressed (`Blake3.leftLen`, `Blake3.subtree` are
`partial def`s there, and so opaque to the logic).  `DudModel/Blake3Spec.lean` is the list-based
specification `hashSpecReal`, which `Props/C14blake3.lean` proves equal to the incremental (streaming)
algorithm for every chunking of the input and checks against the official test vectors by kernel
evaluation.

This file closes the chain: **`Blake3T.hash b` is `hashSpecReal` of the bytes of `b`, for every `b`**
(no bound on the length), by induction over the block loop and the tree recursion.

What is proved (`Dud.Blake3Total` namespace):

* `leftLenT_eq_spec`     — `Blake3T.leftLen = Blake3Spec.leftLen` (so it IS the largest power of two
                           strictly below `n`: `leftLenT_pow`);
* `wordsT_eq_spec`       — the 16 message words read from the array by index are `wordsOfBytes` of the
                           corresponding sub-list;
* `chunkOutputT_eq_spec` — `Blake3T.chunkOutput` over a slice of the array = the spec's `chunkCVOf` /
                           `chunkRootOf` on the corresponding sub-list (any length, any counter);
* `subtreeT_eq_spec`     — `Blake3T.subtree` over the chunks `[c0, c0+n)` = `treeNode` on the
                           corresponding chunk list, as chaining value and as root;
* `hashT_eq_spec`        — `(Blake3T.hash b).toList = hashSpecReal b.toList`;
* `hashT_eq_spec_data`, `hashT_ofList`, `hashT_size`, `hashT_hex`, `hashT_hex_ofList` — the same
                           equation in the other shapes a client needs (on `b.data.toList`; on
                           `⟨l.toArray⟩`; the digest has 32 bytes; the hex string the driver prints).

The official test vectors for the EXECUTABLE function, as theorems (transported from the kernel-evaluated
spec vectors; no evaluation of `Blake3T.hash` in the kernel), are in `Props/C14totalVectors.lean`.

What is NOT covered: the equality of `Blake3T.hash` with the `partial def` version `Blake3.hash` cannot
be stated as a theorem (a `partial def` is opaque); it is TESTED below on 14 lengths up to 200 001 bytes
(and both are the same code line by line).  The driver should call `Blake3T.hash`, for which the
theorems hold.  The compression function `Blake3.compress` itself is shared by implementation and
specification (it is validated by the official vectors in `Props/C14blake3*.lean`, not specified
further).  Keyed / derive-key modes and digests longer than 32 bytes are not modelled (dud uses neither).  As for
every compiled Lean program, the theorems are about the reference definitions of `ByteArray.get!`,
`ByteArray.push`, `UInt32` arithmetic, …; that the runtime's native implementations of these agree with
them is the usual trust in the Lean compiler and runtime.
-/
namespace Dud.Blake3Total
open Dud Dud.Blake3Spec

/-- The executable `leftLen` (a fuelled `while` loop) is the spec's `leftLen`. -/
theorem leftLenT_eq_spec (n : Nat) : Blake3T.leftLen n = Blake3Spec.leftLen n :=
  leftLen_eq_spec n

/-- Hence it is the largest power of two strictly below `n`: `2^k < n ≤ 2^(k+1)` gives `2^k`. -/
theorem leftLenT_pow {n k : Nat} (hlo : 2 ^ k < n) (hhi : n ≤ 2 ^ (k + 1)) :
    Blake3T.leftLen n = 2 ^ k := by
  rw [leftLen_eq_spec]; exact Blake3Spec.leftLen_eq hlo hhi

/-- The message words the executable code reads by index from the array are the spec's words of the
sub-list `slice b off len = (b.data.toList.drop off).take len` — unconditionally. -/
theorem wordsT_eq_spec (b : ByteArray) (off len : Nat) :
    Blake3.wordsOfBlock b off len = wordsOfBytes ((b.data.toList.drop off).take len) :=
  wordsOfBlock_eq b off len

/-- **Chunk layer.**  For a slice `[off, off+len)` lying inside the array and any chunk counter `ctr`,
the executable chunk output, compressed as an inner node (`chaining`), is the spec's `chunkCVOf` of the
corresponding sub-list, and compressed as the root (`rootBytes`) it is the spec's `chunkRootOf`.
(No `len ≤ 1024` is needed: the block loop and the spec agree on every length.) -/
theorem chunkOutputT_eq_spec (b : ByteArray) (off len ctr : Nat) (h : off + len ≤ b.size) :
    (Blake3T.chunkOutput b off len ctr.toUInt64).chaining
        = chunkCVOf realBlockParams ((b.data.toList.drop off).take len) ctr ∧
    (Blake3T.chunkOutput b off len ctr.toUInt64).rootBytes.data.toList
        = chunkRootOf realBlockParams ((b.data.toList.drop off).take len) ctr :=
  chunkOutput_spec b off len ctr h

/-- **Tree layer.**  For `n ≥ 1` chunks `c0, …, c0+n-1` that all start inside the array, the executable
subtree is the spec's tree node over the chunk list `[chunkBytes b c0, …, chunkBytes b (c0+n-1)]` (where
`chunkBytes b c` is the sub-list of the bytes `[1024 c, 1024 c + min 1024 (size - 1024 c))`): same chaining
value and same root output. -/
theorem subtreeT_eq_spec (b : ByteArray) (n c0 : Nat) (h1 : 1 ≤ n)
    (hsz : 1024 * (c0 + n - 1) ≤ b.size) :
    (Blake3T.subtree b c0 n b.size).chaining
        = treeCV realParams c0 ((List.range' c0 n).map (chunkBytes b)) ∧
    (Blake3T.subtree b c0 n b.size).rootBytes.data.toList
        = (treeNode realParams c0 ((List.range' c0 n).map (chunkBytes b))).root realParams :=
  subtree_spec b n c0 h1 hsz

/-- The chunk list of the specification, read off the array: `chunkBytes b` over the chunk indices. -/
theorem splitChunksT (b : ByteArray) :
    splitChunks b.data.toList = (List.range' 0 (numChunks b.size)).map (chunkBytes b) :=
  splitChunks_eq_map b

/-- The main equation on the underlying array's list. -/
theorem hashT_eq_spec_data (b : ByteArray) :
    (Blake3T.hash b).data.toList = hashSpecReal b.data.toList := by
  unfold hashSpecReal hashSpec treeHash
  rw [splitChunks_eq_map]
  have hn : 1 ≤ numChunks b.size := by unfold numChunks; split <;> omega
  have hsz : 1024 * (0 + numChunks b.size - 1) ≤ b.size := by unfold numChunks; split <;> omega
  exact (subtree_spec b (numChunks b.size) 0 hn hsz).2

/-- **Main theorem.**  For EVERY byte array `b` (no bound on its size), the total executable BLAKE3
returns exactly the bytes the list specification prescribes for the bytes of `b`. -/
theorem hashT_eq_spec (b : ByteArray) : (Blake3T.hash b).toList = hashSpecReal b.toList := by
  rw [toList_eq, toList_eq]; exact hashT_eq_spec_data b

/-- The same, starting from a byte list (the way the model's `Bytes` are handed to the hasher). -/
theorem hashT_ofList (l : Bytes) : (Blake3T.hash ⟨l.toArray⟩).toList = hashSpecReal l := by
  rw [hashT_eq_spec, toList_eq]

/-- The digest has 32 bytes. -/
theorem hashT_size (b : ByteArray) : (Blake3T.hash b).size = 32 := by
  rw [size_eq_length]
  show (Blake3.Output.rootBytes _).data.toList.length = 32
  rw [rootBytes_toList, bytesOfWords_length]

/-- What the driver prints: the hex digest of the executable hash is the hex rendering of the spec's
digest. -/
theorem hashT_hex (b : ByteArray) :
    Blake3.toHex (Blake3T.hash b) = Blake3Spec.toHex (hashSpecReal b.toList) := by
  rw [toHex_eq_spec, hashT_eq_spec_data, toList_eq]

/-- The same for a byte list handed over as an array. -/
theorem hashT_hex_ofList (l : Bytes) :
    Blake3.toHex (Blake3T.hash ⟨l.toArray⟩) = Blake3Spec.toHex (hashSpecReal l) := by
  rw [hashT_hex, toList_eq]

end Dud.Blake3Total

/-! ## Non-vacuity and TESTS (executable evidence, NOT theorems)

`subtreeT_eq_spec` and `chunkOutputT_eq_spec` have side conditions ("the chunks / the slice lie inside
the array"); `hashT_eq_spec` has none.  The examples instantiate the side conditions on a three-chunk
input.  The `#eval`s compare the total `Blake3T.hash` with the driver's `partial def` `Blake3.hash` and
with the list specification; each line must print only `true`. -/
section Tests
open Dud Dud.Blake3Spec Dud.Blake3Total

/-- the official test input as a byte array, built without going through a list -/
def testArray (n : Nat) : ByteArray := Id.run do
  let mut b := ByteArray.emptyWithCapacity n
  for i in [0:n] do b := b.push (i % 251).toUInt8
  return b

theorem size_ofList (l : Bytes) : (ByteArray.mk l.toArray).size = l.length := by
  rw [size_eq_length]

/-- non-vacuity of the side conditions: the three chunks of any 2049-byte input (e.g. `testInput 2049`),
and its last, 1-byte chunk with chunk counter 2 -/
example (l : Bytes) (h : l.length = 2049) :
    (Blake3T.subtree ⟨l.toArray⟩ 0 3 (ByteArray.mk l.toArray).size).chaining
      = treeCV realParams 0 ((List.range' 0 3).map (chunkBytes ⟨l.toArray⟩)) :=
  (subtreeT_eq_spec ⟨l.toArray⟩ 3 0 (by decide) (by rw [size_ofList]; omega)).1

example (l : Bytes) (h : l.length = 2049) :
    (Blake3T.chunkOutput ⟨l.toArray⟩ 2048 1 (2 : Nat).toUInt64).chaining
      = chunkCVOf realBlockParams ((l.drop 2048).take 1) 2 :=
  (chunkOutputT_eq_spec ⟨l.toArray⟩ 2048 1 2 (by rw [size_ofList]; omega)).1

example : (testInput 2049).length = 2049 := by simp [testInput]

-- TEST: total version = the driver's partial version, 14 lengths up to 200 001 bytes
#eval [0, 1, 63, 64, 65, 1023, 1024, 1025, 2048, 2049, 3073, 31744, 70001, 200001].map fun n =>
  Blake3T.hash (testArray n) == Blake3.hash (testArray n)
-- TEST: total version = list specification (what `hashT_eq_spec` proves), evaluated on 8 lengths
#eval [0, 1, 64, 65, 1024, 1025, 3073, 8193].map fun n =>
  (Blake3T.hash (testArray n)).toList == hashSpecReal (testArray n).toList
-- TEST: official vectors through the total version (0, 1, 1024, 3073 bytes)
#eval [(0, "af1349b9f5f9a1a6a0404dea36dcc9499bcb25c9adc112b7cc9a93cae41f3262"),
       (1, "2d3adedff11b61f14c886e35afa036736dcd87a74d27b5c1510225d0f592e213"),
       (1024, "42214739f095a406f3fc83deb889744ac00df831c10daa55189b5d121c855af7"),
       (3073, "7124b49501012f81cc7f11ca069ec9226cecb8a2c850cfe644e327d22d3e1cd3")].map fun (n, d) =>
  Blake3.toHex (Blake3T.hash (testArray n)) == d

end Tests

#print axioms Dud.Blake3Total.leftLenT_eq_spec
#print axioms Dud.Blake3Total.leftLenT_pow
#print axioms Dud.Blake3Total.wordsT_eq_spec
#print axioms Dud.Blake3Total.chunkOutputT_eq_spec
#print axioms Dud.Blake3Total.subtreeT_eq_spec
#print axioms Dud.Blake3Total.splitChunksT
#print axioms Dud.Blake3Total.hashT_eq_spec_data
#print axioms Dud.Blake3Total.hashT_eq_spec
#print axioms Dud.Blake3Total.hashT_ofList
#print axioms Dud.Blake3Total.hashT_size
#print axioms Dud.Blake3Total.hashT_hex
#print axioms Dud.Blake3Total.hashT_hex_ofList
