import DudModel.Props.C07
/-!
# C07 at the world level — what `dud commit` leaves alone

`Props/C07.lean` shows for ONE stage that `commitAct` touches only the stage's outputs and its
un-owned directory inputs (`commitAct_elsewhere`).  This file lifts the statement to the command:

  `cmdCommit_elsewhere` — after a successful `dud commit [--copy] [targets]`, for every index
  (cyclic ones are an error), every target list and both strategies: whatever is found at a path
  `q` that parts ways (`Diverge`) with every output of every stage and with every directory input
  of every stage is literally unchanged.

Corollaries: a plain FILE input is never modified, moved or replaced by commit
(`cmdCommit_keeps_plain_file_input`), nor is a skip-cache FILE output
(`cmdCommit_keeps_skip_file`, from the stage-level `commitArtW_skip`, provided no other artifact
overlaps it), nor anything outside the artifacts.  Directory inputs / skip-cache directories are
the known finding of C07 (`commit_moves_directory_input`): they are excluded by the hypothesis,
not by accident.

The proof carries the shape of the index (`ArtsApartFrom`) through the traversal: a commit
rewrites checksums in the index, never paths or the `is-dir` flag.
-/
namespace Dud

variable {κ : Type}

/-- every output of every stage, and every directory input of every stage, parts ways with `q` -/
def ArtsApartFrom (idx : Index) (q : List Name) : Prop :=
  ∀ sp stg, alookup idx sp = some stg →
    (∀ b, b ∈ stg.outputs → Diverge (Path.comps b.path) q) ∧
    (∀ b, b ∈ stg.inputs → b.isDir = true → Diverge (Path.comps b.path) q)

/-! ## commit rewrites checksums only -/

theorem mem_insertArt_w {a x : Art} : ∀ {l : List Art}, a ∈ insertArt x l → a = x ∨ a ∈ l
  | [], h => by simpa [insertArt] using h
  | y :: ys, h => by
    rw [insertArt] at h
    split at h
    · rcases List.mem_cons.1 h with h | h
      · exact .inl h
      · exact .inr (List.mem_cons_of_mem _ h)
    · split at h
      · rcases List.mem_cons.1 h with h | h
        · exact .inl h
        · exact .inr h
      · rcases List.mem_cons.1 h with h | h
        · exact .inr (h ▸ List.mem_cons_self)
        · rcases mem_insertArt_w h with h | h
          · exact .inl h
          · exact .inr (List.mem_cons_of_mem _ h)

theorem mem_of_mem_sortArts_w {a : Art} : ∀ {l : List Art}, a ∈ sortArts l → a ∈ l
  | [], h => by simp [sortArts] at h
  | x :: xs, h => by
    have h' : a ∈ insertArt x (sortArts xs) := h
    rcases mem_insertArt_w h' with h | h
    · exact h ▸ List.mem_cons_self
    · exact List.mem_cons_of_mem _ (mem_of_mem_sortArts_w h)

theorem commitArtW_shape {cfg : Cfg κ} {strat : Strat} {a a' : Art} {w w' : World κ}
    (h : commitArtW cfg strat a w = .ok (a', w')) :
    a'.path = a.path ∧ a'.isDir = a.isDir ∧ w'.idx = w.idx := by
  unfold commitArtW at h
  dsimp only at h
  split at h
  · cases h
  split at h
  · cases h
  simp only [Except.ok.injEq, Prod.mk.injEq] at h
  obtain ⟨rfl, rfl⟩ := h
  exact ⟨rfl, rfl, rfl⟩

theorem commitArts_shape {cfg : Cfg κ} {strat : Strat} : ∀ (as : List Art) {as' : List Art} {w w' : World κ},
    commitArts cfg strat as w = .ok (as', w') →
      w'.idx = w.idx ∧ ∀ b', b' ∈ as' → ∃ b, b ∈ as ∧ b'.path = b.path ∧ b'.isDir = b.isDir
  | [], as', w, w', h => by
    simp only [commitArts, Except.ok.injEq, Prod.mk.injEq] at h
    obtain ⟨rfl, rfl⟩ := h
    exact ⟨rfl, fun _ hb => by cases hb⟩
  | a :: r, as', w, w', h => by
    rw [commitArts] at h
    split at h
    · cases h
    rename_i a1 w1 h1
    split at h
    · cases h
    rename_i r2 w2 h2
    simp only [Except.ok.injEq, Prod.mk.injEq] at h
    obtain ⟨rfl, rfl⟩ := h
    obtain ⟨hp, hd, hi⟩ := commitArtW_shape h1
    obtain ⟨hi2, hr⟩ := commitArts_shape r h2
    refine ⟨hi2.trans hi, ?_⟩
    intro b' hb'
    rcases List.mem_cons.1 hb' with rfl | hb'
    · exact ⟨a, List.mem_cons_self, hp, hd⟩
    · obtain ⟨b, hb, e1, e2⟩ := hr b' hb'
      exact ⟨b, List.mem_cons_of_mem _ hb, e1, e2⟩

theorem alookup_setStage (idx : Index) (sp x : Bytes) (s : Stage) :
    alookup (setStage idx sp s) x = if x = sp then (alookup idx x).map (fun _ => s) else alookup idx x := by
  induction idx with
  | nil => simp [setStage, alookup]
  | cons e r ih =>
    obtain ⟨k, v⟩ := e
    have ih' : alookup (List.map (fun p => if (p.1 == sp) = true then (p.1, s) else p) r) x =
        if x = sp then (alookup r x).map (fun _ => s) else alookup r x := ih
    simp only [setStage, List.map_cons, alookup]
    by_cases hk : k = sp
    · subst hk
      simp only [beq_self_eq_true, if_true]
      by_cases hx : k = x
      · subst hx; simp
      · have hx' : (k == x) = false := by simpa using hx
        have hx'' : ¬ x = k := fun e => hx e.symm
        simp only [hx', Bool.false_eq_true, if_false, hx'', ih']
    · have hk' : (k == sp) = false := by simpa using hk
      simp only [hk', Bool.false_eq_true, if_false]
      by_cases hx : k = x
      · subst hx
        simp [hk]
      · have hx' : (k == x) = false := by simpa using hx
        simp only [hx', Bool.false_eq_true, if_false, ih']

/-- **one stage.**  `commitAct` keeps `q` and the shape of the index. -/
theorem commitAct_apart (cfg : Cfg κ) (strat : Strat) (sp : Bytes) (w w' : World κ) (q : List Name)
    (hq : ArtsApartFrom w.idx q) (h : commitAct cfg strat sp w = .ok w') :
    ArtsApartFrom w'.idx q ∧ getPath w'.ws q = getPath w.ws q := by
  cases hs : w.stage sp with
  | error e => unfold commitAct at h; rw [hs] at h; cases h
  | ok stg =>
    have hstg : alookup w.idx sp = some stg := by
      unfold World.stage at hs
      split at hs
      · simp only [Except.ok.injEq] at hs; subst hs; assumption
      · cases hs
    obtain ⟨houts, hdirs⟩ := hq sp stg hstg
    refine ⟨?_, commitAct_elsewhere cfg strat sp w w' stg q hs h (fun b hb hd _ => hdirs b hb hd) houts⟩
    unfold commitAct at h
    rw [hs] at h
    dsimp only at h
    split at h
    · cases h
    rename_i pl w1 h1
    split at h
    · cases h
    rename_i outs w2 h2
    simp only [Except.ok.injEq] at h
    subst h
    obtain ⟨i1, sh1⟩ := commitArts_shape _ h1
    obtain ⟨i2, sh2⟩ := commitArts_shape _ h2
    intro x stg' hx
    have hidx : w2.idx = w.idx := i2.trans i1
    simp only [hidx, alookup_setStage] at hx
    split at hx
    · rename_i hxs
      subst hxs
      rw [hstg] at hx
      simp only [Option.map_some, Option.some.injEq] at hx
      subst hx
      constructor
      · intro b hb
        obtain ⟨b0, hb0, ep, _⟩ := sh2 b hb
        rw [ep]
        exact houts b0 (mem_of_mem_sortArts_w hb0)
      · intro b hb hd
        have hb' := mem_of_mem_sortArts_w hb
        rcases List.mem_append.1 hb' with hb' | hb'
        · obtain ⟨b0, hb0, rfl⟩ := List.mem_map.1 hb'
          have hin := (List.mem_filter.1 hb0).1
          cases hfo : findOwner cfg.walkAccumulates w.idx b0.path with
          | none =>
            simp only [hfo] at hd ⊢
            exact hdirs b0 hin hd
          | some p =>
            simp only [hfo] at hd ⊢
            exact hdirs b0 hin hd
        · obtain ⟨b1, hb1, ep, ed⟩ := sh1 b hb'
          obtain ⟨b0, hb0, rfl⟩ := List.mem_map.1 (mem_of_mem_sortArts_w hb1)
          have hin := (List.mem_filter.1 hb0).1
          rw [ep]
          exact hdirs b0 hin (by rw [← ed]; exact hd)
    · exact hq x stg' hx

/-- **C07, the command.**  `dud commit` leaves every path alone that parts ways with all outputs and
all directory inputs of the index. -/
theorem cmdCommit_elsewhere (cfg : Cfg κ) (strat : Strat) (targets : List Bytes) (w w' : World κ)
    (q : List Name) (hq : ArtsApartFrom w.idx q) (h : cmdCommit cfg strat targets w = .ok w') :
    getPath w'.ws q = getPath w.ws q := by
  have key : ∀ ts : List Bytes,
      (if ts.isEmpty then (.error .invalid : Except Err (World κ))
       else perTarget (fun t w => visit (commitTrav cfg strat) true (w.idx.length + 1) (allStages w) t w) ts (fresh w))
        = .ok w' → getPath w'.ws q = getPath w.ws q := by
    intro ts h
    split at h
    · cases h
    have := perTarget_keeps (fun x : World κ => ArtsApartFrom x.idx q ∧ getPath x.ws q = getPath w.ws q)
      (fun t a b hp hb =>
        visit_keeps (commitTrav cfg strat) true
          (fun x : World κ => ArtsApartFrom x.idx q ∧ getPath x.ws q = getPath w.ws q)
          (fun sp a b hp hb => by
            obtain ⟨h1, h2⟩ := commitAct_apart cfg strat sp a b q hp.1 hb
            exact ⟨h1, h2.trans hp.2⟩) _ _ t a b hp hb)
      ts (fresh w) w' ⟨hq, rfl⟩ h
    exact this.2
  exact key _ h

/-- two distinct single-component-wise different paths diverge … the form used below: a path that is
not a prefix of `q` and of which `q` is not a prefix parts ways with it -/
theorem diverge_of_not_prefix : ∀ (p q : List Name), ¬ p <+: q → ¬ q <+: p → Diverge p q
  | [], q, h, _ => absurd (List.nil_prefix) h
  | _ :: _, [], _, h => absurd (List.nil_prefix) h
  | x :: p, y :: q, h1, h2 => by
    by_cases hxy : x = y
    · subst hxy
      have h1' : ¬ p <+: q := fun hp => h1 (by
        obtain ⟨t, rfl⟩ := hp; exact ⟨t, rfl⟩)
      have h2' : ¬ q <+: p := fun hp => h2 (by
        obtain ⟨t, rfl⟩ := hp; exact ⟨t, rfl⟩)
      obtain ⟨pre, a, b, p', q', hab, rfl, rfl⟩ := diverge_of_not_prefix p q h1' h2'
      exact ⟨x :: pre, a, b, p', q', hab, rfl, rfl⟩
    · exact ⟨[], x, y, p, q, hxy, rfl, rfl⟩

/-- **a plain file input is never modified, moved or replaced by `dud commit`**: if the path of the
input `a` overlaps no output and no directory input of any stage (in particular `a` is a file, not
below an un-owned directory input), the node found there is literally the same afterwards. -/
theorem cmdCommit_keeps_plain_file_input (cfg : Cfg κ) (strat : Strat) (targets : List Bytes) (w w' : World κ)
    (a : Art) (hq : ArtsApartFrom w.idx (Path.comps a.path))
    (h : cmdCommit cfg strat targets w = .ok w') :
    getPath w'.ws (Path.comps a.path) = getPath w.ws (Path.comps a.path) :=
  cmdCommit_elsewhere cfg strat targets w w' _ hq h

/-! ## Non-vacuity: a stage with a plain file input next to its output -/
namespace C07Example
open ToyGood

/-- stage 1 reads the plain file `s` (115) and owns the file `d` (100) -/
def w : World String :=
  { ws := .dir [([115], .file "source"), ([100], .file "data")],
    idx := [([1], { cmd := [1], inputs := [{ path := [115] }], outputs := [{ path := [100] }] })] }

theorem apart : ArtsApartFrom w.idx (Path.comps [115]) := by
  intro sp stg hs
  simp only [w, alookup] at hs
  split at hs
  · simp only [Option.some.injEq] at hs; subst hs
    constructor
    · intro b hb
      simp only [List.mem_cons, List.not_mem_nil, or_false] at hb; subst hb
      exact ⟨[], [100], [115], [], [], by decide, rfl, rfl⟩
    · intro b hb hd
      simp only [List.mem_cons, List.not_mem_nil, or_false] at hb; subst hb
      cases hd
  · cases hs

def w' : World String :=
  match cmdCommit cfg .link [] w with
  | .ok x => x
  | .error _ => default

theorem commit_ok : cmdCommit cfg .link [] w = .ok w' := rfl

/-- the output became a link into the cache, the input is what it was -/
example : getPath w'.ws [[100]] = some (.link (.obj "abcdata")) ∧ getPath w'.ws [[115]] = some (.file "source") :=
  ⟨rfl, rfl⟩

example : getPath w'.ws (Path.comps [115]) = getPath w.ws (Path.comps [115]) :=
  cmdCommit_keeps_plain_file_input cfg .link [] w w' { path := [115] } apart commit_ok

end C07Example

end Dud

#print axioms Dud.commitAct_apart
#print axioms Dud.cmdCommit_elsewhere
#print axioms Dud.cmdCommit_keeps_plain_file_input
#print axioms Dud.diverge_of_not_prefix
