import DudModel.Props.C01world
/-!
# C16 at the world level — the checksums `dud commit` records depend on path and content only

`Props/C16.lean` shows, for one artifact, that the recorded checksum is `treeDigest` of the tree,
whatever the cache held before.  Here the statement is lifted to the command `cmdCommit` over a
multi-stage index, as a corollary of `commit_checkout_world_roundtrip` (b)
(`stg'.outputs = (sortArts stg.outputs).map (committedArt cfg.ctx w0.ws)`):

* `cmdCommit_records`: every output `a` of every stage in scope is recorded with the checksum
  `recordedSum cfg.ctx w0.ws a`, and `recordedSum_congr`: that is a function of the artifact's path,
  its `DisableRecursion` flag and the subtree found at the path — no strategy, no cache, no other
  stage, no previously recorded checksum enters;
* `commit_sums_world_independent`: two worlds with the same workspace and index, ARBITRARY consistent
  caches (content and history), remotes, memos, and arbitrary strategies record EQUAL outputs for
  every stage in scope;
* `commit_sums_world_local`: two PROJECTS (different indexes, workspaces, targets, even different
  stage paths) that agree on one stage's outputs up to the checksums recorded so far
  (`Art.noSum`) and on the subtrees at these output paths record equal outputs for that stage.

Hypotheses: those of `commit_checkout_world_roundtrip` (`PipelineOK`: distinct stage paths,
non-overlapping outputs satisfying `ArtPre`, …; in particular a directory output has no recorded
checksum yet — re-commits of directories are `Props/C16.lean` / C15 at the artifact level), and both
commits succeed.
-/
namespace Dud

open WT

variable {κ : Type}

/-! ## what is recorded -/

/-- the checksum a commit of the workspace `ws` records for the artifact `a` -/
def recordedSum (ctx : Ctx κ) (ws : Node κ) (a : Art) : Digest :=
  treeDigest ctx a.path (trackedOf a (origAt ws a))

theorem committedArt_sum (ctx : Ctx κ) (ws : Node κ) (a : Art) :
    (committedArt ctx ws a).sum = recordedSum ctx ws a ∧ (committedArt ctx ws a).path = a.path ∧
      (committedArt ctx ws a).isDir = a.isDir ∧ (committedArt ctx ws a).noRec = a.noRec ∧
      (committedArt ctx ws a).skip = a.skip := ⟨rfl, rfl, rfl, rfl, rfl⟩

theorem trackedOf_congr {a b : Art} (h : b.noRec = a.noRec) (n : Node κ) :
    trackedOf b n = trackedOf a n := by
  cases n <;> simp [trackedOf, h]

/-- **The recorded checksum is a function of the path, the `DisableRecursion` flag and the subtree
at the path**: two artifacts with the same path and flag, in two workspaces that have the same
subtree (or nothing) at that path, get the same checksum -/
theorem recordedSum_congr (ctx : Ctx κ) {ws ws' : Node κ} {a b : Art} (hp : b.path = a.path)
    (hn : b.noRec = a.noRec)
    (h : getPath ws' (Path.comps a.path) = getPath ws (Path.comps a.path)) :
    recordedSum ctx ws' b = recordedSum ctx ws a := by
  simp only [recordedSum, origAt, hp, h, trackedOf_congr hn]

/-- the recorded artifact does not depend on the checksum recorded before -/
theorem committedArt_noSum (ctx : Ctx κ) (ws : Node κ) (a : Art) :
    committedArt ctx ws a.noSum = committedArt ctx ws a := by
  simp only [committedArt, Art.noSum, origAt]
  rw [trackedOf_sum]

/-! ## sorting commutes with a map that keeps the paths -/

theorem insertArt_map (f : Art → Art) (hf : ∀ a, (f a).path = a.path) (a : Art) :
    ∀ l : List Art, insertArt (f a) (l.map f) = (insertArt a l).map f
  | [] => rfl
  | x :: xs => by
    simp only [List.map_cons, insertArt, hf]
    split
    · rfl
    · split
      · rfl
      · simp only [List.map_cons, insertArt_map f hf a xs]

theorem sortArts_map (f : Art → Art) (hf : ∀ a, (f a).path = a.path) :
    ∀ l : List Art, sortArts (l.map f) = (sortArts l).map f
  | [] => rfl
  | x :: xs => by
    show insertArt (f x) (sortArts (xs.map f)) = (insertArt x (sortArts xs)).map f
    rw [sortArts_map f hf xs, insertArt_map f hf]

/-- the recorded outputs of a stage, from its outputs up to the checksums recorded so far -/
theorem recorded_outputs_noSum (ctx : Ctx κ) (ws : Node κ) (outs : List Art) :
    (sortArts outs).map (committedArt ctx ws) =
      (sortArts (outs.map Art.noSum)).map (committedArt ctx ws) := by
  rw [sortArts_map Art.noSum (fun _ => rfl), List.map_map]
  exact List.map_congr_left (fun a _ => (committedArt_noSum ctx ws a).symm)

/-! ## the commands -/

/-- `InScope` depends on the index only -/
theorem inScope_congr (cfg : Cfg κ) {w v : World κ} (h : v.idx = w.idx) (targets : List Bytes)
    (sp : Bytes) : InScope cfg v targets sp ↔ InScope cfg w targets sp := by
  simp only [InScope, allStages, h]

/-- `PipelineOK` depends on the index and the workspace only (not on cache, remote, memos) -/
theorem PipelineOK.congr {cfg : Cfg κ} {Sc : Bytes → Prop} {w v : World κ} (hi : v.idx = w.idx)
    (hw : v.ws = w.ws) (h : PipelineOK cfg Sc w) : PipelineOK cfg Sc v where
  keys := by rw [hi]; exact h.keys
  apart_in := by rw [hi]; exact h.apart_in
  apart_across := by rw [hi]; exact h.apart_across
  pre := by rw [hi, hw]; exact h.pre
  inputs := by rw [hi]; exact h.inputs

/-- **What `dud commit` records, world level.** For every stage in scope: the recorded outputs are
the sorted outputs with `sum := recordedSum …`; in particular every output `a` listed in the stage
is recorded, under its path, with the checksum `recordedSum cfg.ctx w0.ws a`. -/
theorem cmdCommit_records (cfg : Cfg κ) (g : Good cfg.ctx) (strat : Strat) (targets : List Bytes)
    (w0 w' : World κ) (hc : Consistent cfg.ctx w0.store)
    (hok : PipelineOK cfg (InScope cfg w0 targets) w0)
    (h : cmdCommit cfg strat targets w0 = .ok w') :
    ∀ sp stg, InScope cfg w0 targets sp → alookup w0.idx sp = some stg →
      ∃ stg', alookup w'.idx sp = some stg' ∧
        stg'.outputs = (sortArts stg.outputs).map (committedArt cfg.ctx w0.ws) ∧
        (∀ a, a ∈ stg.outputs → ∃ a', a' ∈ stg'.outputs ∧ a'.path = a.path ∧
          a'.sum = recordedSum cfg.ctx w0.ws a) ∧
        (∀ a', a' ∈ stg'.outputs → ∃ a, a ∈ stg.outputs ∧ a'.path = a.path ∧
          a'.sum = recordedSum cfg.ctx w0.ws a) := by
  intro sp stg hsc hs
  obtain ⟨stg', h1, h2⟩ :=
    (commit_checkout_world_roundtrip cfg g strat strat targets w0 w' hc hok h).2.1 sp stg hsc hs
  refine ⟨stg', h1, h2, ?_, ?_⟩
  · intro a ha
    refine ⟨committedArt cfg.ctx w0.ws a, ?_, rfl, rfl⟩
    rw [h2]
    exact List.mem_map.2 ⟨a, mem_sortArts_of_mem (hok.apart_in sp stg hsc hs).paths_ne ha, rfl⟩
  · intro a' ha'
    rw [h2] at ha'
    obtain ⟨a, ha, rfl⟩ := List.mem_map.1 ha'
    exact ⟨a, mem_of_mem_sortArts ha, rfl, rfl⟩

/-- **Two projects, one stage in common.** `wA` and `wB` may differ in everything — index, workspace,
cache, remote, targets, strategy, even the path of the stage file — provided the stage `spA` of `wA`
and the stage `spB` of `wB` list the same outputs up to the checksums recorded so far, and the two
workspaces hold the same subtree at each of these output paths.  If both commits succeed (each
pipeline satisfying `PipelineOK`), the two stages are recorded with EQUAL outputs (paths, flags and
checksums). -/
theorem commit_sums_world_local (cfg : Cfg κ) (g : Good cfg.ctx) (sA sB : Strat)
    (tA tB : List Bytes) (wA wB wA' wB' : World κ)
    (hcA : Consistent cfg.ctx wA.store) (hcB : Consistent cfg.ctx wB.store)
    (hokA : PipelineOK cfg (InScope cfg wA tA) wA) (hokB : PipelineOK cfg (InScope cfg wB tB) wB)
    (hA : cmdCommit cfg sA tA wA = .ok wA') (hB : cmdCommit cfg sB tB wB = .ok wB')
    (spA spB : Bytes) (stgA stgB : Stage)
    (hinA : InScope cfg wA tA spA) (hinB : InScope cfg wB tB spB)
    (hsA : alookup wA.idx spA = some stgA) (hsB : alookup wB.idx spB = some stgB)
    (hout : stgB.outputs.map Art.noSum = stgA.outputs.map Art.noSum)
    (hws : ∀ a, a ∈ stgA.outputs →
      getPath wB.ws (Path.comps a.path) = getPath wA.ws (Path.comps a.path)) :
    ∃ stgA' stgB', alookup wA'.idx spA = some stgA' ∧ alookup wB'.idx spB = some stgB' ∧
      stgB'.outputs = stgA'.outputs ∧
      stgA'.outputs = (sortArts stgA.outputs).map (committedArt cfg.ctx wA.ws) := by
  obtain ⟨stgA', a1, a2, _⟩ := cmdCommit_records cfg g sA tA wA wA' hcA hokA hA spA stgA hinA hsA
  obtain ⟨stgB', b1, b2, _⟩ := cmdCommit_records cfg g sB tB wB wB' hcB hokB hB spB stgB hinB hsB
  refine ⟨stgA', stgB', a1, b1, ?_, a2⟩
  rw [a2, b2, recorded_outputs_noSum cfg.ctx wB.ws, recorded_outputs_noSum cfg.ctx wA.ws, hout]
  refine List.map_congr_left (fun a ha => committedArt_congr cfg.ctx ?_)
  obtain ⟨a0, ha0, rfl⟩ := List.mem_map.1 (mem_of_mem_sortArts ha)
  exact hws a0 ha0

/-- **C16, world level: recorded checksums do not depend on the strategy, nor on the content or the
history of the cache.** `wA` and `wB` have the same workspace and the same index; their caches (any
consistent ones: empty, or left by any sequence of earlier commits of anything), remotes and memos
are arbitrary, and so are the strategies `sA`, `sB`.  If both `dud commit [targets]` succeed, every
stage in scope is recorded with EQUAL outputs in both, namely the sorted outputs with the checksum
`recordedSum` — a function of path, flag and subtree (`recordedSum_congr`). -/
theorem commit_sums_world_independent (cfg : Cfg κ) (g : Good cfg.ctx) (sA sB : Strat)
    (targets : List Bytes) (wA wB wA' wB' : World κ) (hws : wB.ws = wA.ws) (hidx : wB.idx = wA.idx)
    (hcA : Consistent cfg.ctx wA.store) (hcB : Consistent cfg.ctx wB.store)
    (hok : PipelineOK cfg (InScope cfg wA targets) wA)
    (hA : cmdCommit cfg sA targets wA = .ok wA') (hB : cmdCommit cfg sB targets wB = .ok wB') :
    ∀ sp stg, InScope cfg wA targets sp → alookup wA.idx sp = some stg →
      ∃ stgA' stgB', alookup wA'.idx sp = some stgA' ∧ alookup wB'.idx sp = some stgB' ∧
        stgB'.outputs = stgA'.outputs ∧
        stgA'.outputs = (sortArts stg.outputs).map (committedArt cfg.ctx wA.ws) ∧
        ∀ a, a ∈ stg.outputs → ∃ a', a' ∈ stgA'.outputs ∧ a'.path = a.path ∧
          a'.sum = recordedSum cfg.ctx wA.ws a := by
  intro sp stg hsc hs
  have hscB : ∀ x, InScope cfg wA targets x → InScope cfg wB targets x :=
    fun x hx => (inScope_congr cfg hidx targets x).2 hx
  have hokB : PipelineOK cfg (InScope cfg wB targets) wB := by
    have : InScope cfg wB targets = InScope cfg wA targets :=
      funext (fun x => propext (inScope_congr cfg hidx targets x))
    rw [this]
    exact hok.congr hidx hws
  obtain ⟨stgA', stgB', a1, b1, e, a2⟩ := commit_sums_world_local cfg g sA sB targets targets
    wA wB wA' wB' hcA hcB hok hokB hA hB sp sp stg stg hsc (hscB sp hsc) hs (by rw [hidx]; exact hs)
    rfl (fun a _ => by rw [hws])
  refine ⟨stgA', stgB', a1, b1, e, a2, ?_⟩
  intro a ha
  refine ⟨committedArt cfg.ctx wA.ws a, ?_, rfl, rfl⟩
  rw [a2]
  exact List.mem_map.2 ⟨a, mem_sortArts_of_mem (hok.apart_in sp stg hsc hs).paths_ne ha, rfl⟩

/-! ## non-vacuity: the two-stage pipeline of `Props/C01world.lean`

`Example2.w0` committed with the link strategy into an empty cache (`Example2.w1`), and the same
workspace and index committed with the COPY strategy into the cache the first commit left behind. -/
namespace Example2
open Dud.Example

/-- same workspace and index as `w0`, but the cache (and the remote) hold what the first commit
stored: another history -/
def w0B : World K := { w0 with store := w1.store, remote := w1.store }

def w1B : World K :=
  match cmdCommit cfg .copy [] w0B with
  | .ok w => w
  | .error _ => default

theorem commitB_ok : cmdCommit cfg .copy [] w0B = .ok w1B := rfl

theorem w1_store_consistent : Consistent cfg.ctx w1.store :=
  (commit_checkout_world_roundtrip cfg good .link .link [] w0 w1
    (by intro d o h; simp [w0, Store.get, alookup] at h) (pipelineOK _) commit_ok).1.1

/-- **`commit_sums_world_independent` instantiated**: both commits record the same outputs for
stage A (the directory `a/`) and for stage B (the file `b`) -/
theorem two_histories_same_sums :
    (∃ sA sB, alookup w1.idx [1] = some sA ∧ alookup w1B.idx [1] = some sB ∧
      sB.outputs = sA.outputs ∧ ∃ a', a' ∈ sA.outputs ∧ a'.path = [97] ∧
        a'.sum = treeDigest ctx [97] treeA) ∧
    (∃ sA sB, alookup w1.idx [2] = some sA ∧ alookup w1B.idx [2] = some sB ∧
      sB.outputs = sA.outputs) := by
  have h := commit_sums_world_independent cfg good .link .copy [] w0 w0B w1 w1B rfl rfl
    (by intro d o h; simp [w0, Store.get, alookup] at h) w1_store_consistent (pipelineOK _)
    commit_ok commitB_ok
  constructor
  · obtain ⟨sA, sB, h1, h2, h3, _, h5⟩ := h [1] stageA (scope_all _ (.inl rfl)) rfl
    obtain ⟨a', ha', hp, hsum⟩ := h5 outA (by simp [stageA])
    exact ⟨sA, sB, h1, h2, h3, a', ha', hp, hsum⟩
  · obtain ⟨sA, sB, h1, h2, h3, _⟩ := h [2] stageB (scope_all _ (.inr rfl)) rfl
    exact ⟨sA, sB, h1, h2, h3⟩

/-- the same by running the model -/
def sumsOf (w : World K) : List (Bytes × List Digest) :=
  w.idx.map (fun p => (p.1, p.2.outputs.map (·.sum)))

#eval sumsOf w1 == sumsOf w1B
#eval (sumsOf w1).map (·.2.map (·.length))

end Example2

/-! ## axioms -/

#print axioms committedArt_sum
#print axioms trackedOf_congr
#print axioms recordedSum_congr
#print axioms committedArt_noSum
#print axioms insertArt_map
#print axioms sortArts_map
#print axioms recorded_outputs_noSum
#print axioms inScope_congr
#print axioms PipelineOK.congr
#print axioms cmdCommit_records
#print axioms commit_sums_world_local
#print axioms commit_sums_world_independent
#print axioms Example2.commitB_ok
#print axioms Example2.w1_store_consistent
#print axioms Example2.two_histories_same_sums

end Dud
