import DudModel.Props.C14blake3
import DudModel.Props.C14blake3Vectors
/-!
# C14 end to end: streaming BLAKE3 over the real compression function on official vectors

Core-only.  Combines the THEOREM `real_contract` (`Props/C14blake3.lean`: the streaming hasher over
`Blake3.compress` computes `hashSpecReal` of the concatenation of whatever pieces it is fed, from any
dirty state) with the KERNEL-CHECKED official vectors (`Props/C14blake3Vectors.lean`:
`hashSpecReal` of the official inputs = the official digests).  The streaming machine itself is never
evaluated in these proofs.
-/
namespace Dud.Blake3Incr
open Dud Dud.Blake3Spec Dud.Hasher

/-- The real streaming hasher (block-buffering machine over `Blake3.compress`), from ANY dirty state,
fed the 3073-byte official input in four pieces (one of them empty), returns the official digest. -/
theorem real_streaming_vector_3073 (s0 : BState (Array UInt32)) :
    toHex (realHasher.sum
      ([(testInput 3073).take 100, [], ((testInput 3073).drop 100).take 2000,
        (testInput 3073).drop 2100].foldl realHasher.write (realHasher.reset s0)))
    = "7124b49501012f81cc7f11ca069ec9226cecb8a2c850cfe644e327d22d3e1cd3" := by
  rw [real_contract s0]
  have : ([(testInput 3073).take 100, [], ((testInput 3073).drop 100).take 2000,
      (testInput 3073).drop 2100] : List Bytes).flatten = testInput 3073 := by decide +kernel
  rw [this]
  exact Vectors.V3073.digest

/-- `ChecksumBuffer` over the real streaming hasher, 4096-byte buffer, dirty pooled hasher, a reader
that delivers the 2049-byte official input in bursts of 1500, 0 and 549 bytes: the official digest. -/
theorem real_checksumBuffer_vector_2049 (s0 : BState (Array UInt32)) :
    toHex (checksumBuffer realHasher true 4096
      [(testInput 2049).take 1500, [], (testInput 2049).drop 1500] s0)
    = "5f4d72f40d7a5f82b15ca2b2e44b1de3c2ef86c426c95c1af0b6879522563030" := by
  rw [blake3_checksum_reader_real (by decide)]
  have : ([(testInput 2049).take 1500, [], (testInput 2049).drop 1500] : List Bytes).flatten
      = testInput 2049 := by decide +kernel
  rw [this]
  exact Vectors.V2049.digest

/-- Same content through a 7-byte buffer (hundreds of `Write` calls): same digest — by the theorem,
nothing is evaluated. -/
theorem real_checksumBuffer_vector_2049_small_buffer (s0 : BState (Array UInt32)) :
    toHex (checksumBuffer realHasher true 7 [testInput 2049] s0)
    = "5f4d72f40d7a5f82b15ca2b2e44b1de3c2ef86c426c95c1af0b6879522563030" := by
  rw [blake3_checksum_reader_real (by decide)]
  simp only [List.flatten_cons, List.flatten_nil, List.append_nil]
  exact Vectors.V2049.digest

end Dud.Blake3Incr

#print axioms Dud.Blake3Incr.real_streaming_vector_3073
#print axioms Dud.Blake3Incr.real_checksumBuffer_vector_2049
#print axioms Dud.Blake3Incr.real_checksumBuffer_vector_2049_small_buffer
