import DudModel.Props.C18
import DudModel.Stage
import DudModel.Generated.Facts
/-!
# C18, the stage-file half — "stage files naming absolute or parent-escaping paths are rejected"

`Props/C18.lean` shows that the traced commit and checkout of an artifact stay inside the project
PROVIDED the artifact's own path `pre` is a safe relative path (`SafeRel pre`).  This file
discharges that hypothesis from the validation every stage goes through when it is loaded
(`Stage.validate`, Go `Stage.Validate`: no `..` anywhere in a path, no absolute path):

* `comps_safe`: for every byte string `s` that does not contain `..` and is not absolute, the
  components `Path.comps s` the model addresses the workspace with (Go: `filepath.Clean` applied by
  `stage.FromFile`) form a safe relative path — whatever else the string contains (empty
  components, `.`, repeated or trailing slashes).
* `validate_paths_safe`: every input and output path, and the working directory, of a stage that
  passes `Stage.validate` is safe.
* `validated_commit_confined` / `validated_checkout_confined`: for a validated stage, every path of
  every mutating call of the traced commit / checkout of any of its artifacts is `Confined`
  (inside the project root, the cache directory, or a temp file next to them), whatever the
  workspace tree (entry names as commit accepts them) and whatever the cache manifests contain.
* `hostile_rejected`: `../x`, `a/../../x`, `/abs/x` and friends make `validate` false (decided).
-/
namespace Dud.Sys

open Dud Dud.Path

/-! ## splitting on "/" -/

theorem splitSlash_ne_nil : ∀ s : Bytes, splitSlash s ≠ []
  | [] => by simp [splitSlash]
  | b :: r => by
    rw [splitSlash]
    split
    · simp
    · split <;> simp

theorem splitSlash_no_slash : ∀ (s : Bytes) (c : Bytes), c ∈ splitSlash s → slash ∉ c
  | [], c, h => by
    simp only [splitSlash, List.mem_singleton] at h
    subst h; simp
  | b :: r, c, h => by
    rw [splitSlash] at h
    split at h
    · rcases List.mem_cons.1 h with rfl | h
      · simp
      · exact splitSlash_no_slash r c h
    · rename_i hb
      split at h
      · rename_i heq
        exact absurd heq (splitSlash_ne_nil r)
      · rename_i x xs heq
        rcases List.mem_cons.1 h with rfl | h
        · intro hm
          rcases List.mem_cons.1 hm with hm | hm
          · exact hb (by simp [hm.symm])
          · exact splitSlash_no_slash r x (by rw [heq]; exact List.mem_cons_self) hm
        · exact splitSlash_no_slash r c (by rw [heq]; exact List.mem_cons_of_mem _ h)

/-- a string without the substring ".." has no component equal to ".." -/
theorem splitSlash_no_dotdot : ∀ (s : Bytes), containsDotDot s = false → ∀ c, c ∈ splitSlash s → c ≠ dotdot
  | [], _, c, h => by
    simp only [splitSlash, List.mem_singleton] at h
    subst h; decide
  | [b], _, c, h => by
    have : splitSlash [b] = if b == slash then [[], []] else [[b]] := by
      simp [splitSlash]
    rw [this] at h
    split at h
    · have hc : c = [] := by
        rcases List.mem_cons.1 h with h | h
        · exact h
        · rcases List.mem_cons.1 h with h | h
          · exact h
          · cases h
      subst hc; decide
    · have hc : c = [b] := by
        rcases List.mem_cons.1 h with h | h
        · exact h
        · cases h
      subst hc
      intro e; cases e
  | a :: b :: r, hc, c, h => by
    have hc' : (a == dot && b == dot) = false ∧ containsDotDot (b :: r) = false := by
      simpa [containsDotDot] using hc
    have ih := splitSlash_no_dotdot (b :: r) hc'.2
    rw [splitSlash] at h
    split at h
    · rcases List.mem_cons.1 h with rfl | h
      · decide
      · exact ih c h
    · rename_i ha
      split at h
      · rename_i heq
        exact absurd heq (splitSlash_ne_nil (b :: r))
      · rename_i x xs heq
        rcases List.mem_cons.1 h with rfl | h
        · -- the first component of `a :: b :: r` is `a :: x`, `x` the first component of `b :: r`
          intro e
          simp only [dotdot, List.cons.injEq] at e
          obtain ⟨ea, ex⟩ := e
          -- x = [dot]: then b = dot (the first component of b :: r starts with b unless b is a slash)
          have hx : x ∈ splitSlash (b :: r) := by rw [heq]; exact List.mem_cons_self
          rw [splitSlash] at heq
          split at heq
          · simp only [List.cons.injEq] at heq
            rw [← heq.1] at ex; cases ex
          · split at heq
            · rename_i h0; exact absurd h0 (splitSlash_ne_nil r)
            · simp only [List.cons.injEq] at heq
              rw [← heq.1] at ex
              simp only [List.cons.injEq] at ex
              have : (a == dot && b == dot) = true := by simp [ea, ex.1]
              rw [hc'.1] at this; cases this
        · exact ih c (by rw [heq]; exact List.mem_cons_of_mem _ h)

/-! ## normalisation -/

/-- a good component: what `SafeComp` asks for -/
theorem normAux_safe (rooted : Bool) : ∀ (cs acc : List Bytes),
    (∀ c ∈ cs, slash ∉ c ∧ c ≠ dotdot) → (∀ c ∈ acc, SafeComp c) →
    ∀ c ∈ normAux rooted acc cs, SafeComp c
  | [], acc, _, hacc, c, h => by
    simp only [normAux, List.mem_reverse] at h
    exact hacc c h
  | x :: cs, acc, hcs, hacc, c, h => by
    have hx := hcs x List.mem_cons_self
    have hrest : ∀ c ∈ cs, slash ∉ c ∧ c ≠ dotdot := fun c hc => hcs c (List.mem_cons_of_mem _ hc)
    unfold normAux at h
    split at h
    · exact normAux_safe rooted cs acc hrest hacc c h
    · rename_i hne
      split at h
      · rename_i hdd
        exact absurd (by simpa using hdd) hx.2
      · refine normAux_safe rooted cs (x :: acc) hrest ?_ c h
        intro y hy
        rcases List.mem_cons.1 hy with rfl | hy
        · have h1 : ¬ (y = [] ∨ y = [dot]) := by simpa using hne
          exact ⟨fun e => h1 (.inl e), fun e => h1 (.inr e), hx.2, hx.1⟩
        · exact hacc y hy

/-- **the components of a path without `..` are safe**, absolute or not -/
theorem comps_safe (s : Bytes) (h : containsDotDot s = false) : SafeRel (comps s) := by
  intro c hc
  simp only [comps, norm, parse] at hc
  exact normAux_safe _ (splitSlash s) [] (fun c hc => ⟨splitSlash_no_slash s c hc, splitSlash_no_dotdot s h c hc⟩)
    (fun _ h => by cases h) c hc

/-! ## validated stages -/

/-- every artifact path (and the working directory) of a stage that passes `Stage.validate` is a
safe relative path, and is not absolute -/
theorem validate_paths_safe (wa : Bool) (stg : Stage) (sp : Bytes) (h : stg.validate wa sp = true) :
    (∀ a, a ∈ stg.outputs ++ stg.inputs → SafeRel (comps a.path) ∧ isAbs a.path = false) ∧
      SafeRel (comps stg.wd) ∧ isAbs stg.wd = false := by
  unfold Stage.validate at h
  simp only [Bool.and_eq_true, Bool.not_eq_true', List.all_eq_true] at h
  obtain ⟨⟨⟨⟨⟨⟨hwd1, hwd2⟩, _⟩, _⟩, _⟩, _⟩, hall⟩ := h
  refine ⟨fun a ha => ?_, comps_safe _ hwd1, hwd2⟩
  have := hall a ha
  exact ⟨comps_safe _ this.1.1, this.1.2⟩

/-- **C18, commit of a validated stage.**  Every path of every mutating call of the traced commit of
any artifact of a stage that passed validation is confined, for every workspace tree whose entry
names are single safe components (what a directory listing returns) and every cache. -/
theorem validated_commit_confined {κ : Type} (t : TCfg κ) (wa : Bool) (stg : Stage) (sp : Bytes)
    (hv : stg.validate wa sp = true) (a : Art) (ha : a ∈ stg.outputs ++ stg.inputs)
    {nd : Node κ} {s : Store κ} {res : Node κ × Digest × Store κ} {calls : List (Call κ)}
    (hnames : ∀ x ∈ allNames nd, SafeComp x)
    (h : commitArtT t a (comps a.path) (some nd) s = .ok (res, calls)) :
    ∀ call ∈ calls, ∀ p ∈ callPaths call, Confined p :=
  commitArt_paths_safe t h ((validate_paths_safe wa stg sp hv).1 a ha).1 hnames

/-- **C18, checkout of a validated stage**: whatever the manifests in the cache contain. -/
theorem validated_checkout_confined {κ : Type} (t : TCfg κ) (wa : Bool) (stg : Stage) (sp : Bytes)
    (hv : stg.validate wa sp = true) (a : Art) (ha : a ∈ stg.outputs ++ stg.inputs)
    {s : Store κ} {fuel : Nat} {cur : Option (Node κ)} {r : Node κ} {calls : List (Call κ)}
    (h : checkoutNodeT t s fuel (comps a.path) cur a.child = .ok (r, calls)) :
    ∀ call ∈ calls, ∀ p ∈ callPaths call, Confined p :=
  checkout_paths_safe ((validate_paths_safe wa stg sp hv).1 a ha).1 h

/-! ## checksums are not paths -/

/-- **Regenerated-fact obligation.**  `PathForChecksum` inspects every character of the checksum and
refuses anything but letters and digits (repo fix d539c28): a recorded checksum can therefore not
name a path outside `<cache>/<two characters>/<rest>`.  (The model's digests are the values of the
hash function; checksum strings that are not digests are exercised by the C18 hostile-checksum
stream, not by the model.) -/
theorem checksum_chars_fact : Dud.Facts.checksumCharsChecked = true := by decide

/-! ## hostile stage files are rejected; the hypotheses are satisfiable -/

/-- bytes of an ASCII string literal, in a form the kernel can evaluate -/
def bs (s : String) : Bytes := s.toList.map (fun c => UInt8.ofNat c.toNat)

def hostile : List Bytes :=
  ["../escape.txt", "../../escape.txt", "a/../../escape.txt", "/tmp/abs.txt", "sub/../../escape_dir/x", "..",
   "./../escape.txt", "a/b/../../../escape.txt"].map bs

/-- as an output, as an input or as the working directory: rejected -/
theorem hostile_rejected : ∀ p ∈ hostile, ∀ wa : Bool,
    Stage.validate wa { cmd := [1], outputs := [{ path := p }] } [115] = false ∧
    Stage.validate wa { cmd := [1], inputs := [{ path := p }], outputs := [{ path := [111] }] } [115] = false ∧
    Stage.validate wa { cmd := [1], wd := p, outputs := [{ path := [111] }] } [115] = false := by
  decide

def okStage : Stage :=
  { cmd := [1], outputs := [{ path := bs "data/raw/./big//", isDir := true }],
    inputs := [{ path := bs "src/in.txt" }] }

example : okStage.validate true [115] = true := by decide
/-- odd but harmless spellings are normalised away -/
example : comps (bs "data/raw/./big//") = [bs "data", bs "raw", bs "big"] := by decide
example : SafeRel (comps (bs "data/raw/./big//")) :=
  ((validate_paths_safe true okStage [115] (by decide)).1 _ List.mem_cons_self).1

end Dud.Sys

#print axioms Dud.Sys.comps_safe
#print axioms Dud.Sys.validate_paths_safe
#print axioms Dud.Sys.validated_commit_confined
#print axioms Dud.Sys.validated_checkout_confined
#print axioms Dud.Sys.hostile_rejected
