import DudModel.Lemmas.Owner
import DudModel.Generated.Facts
/-!
# C10 — artifact ownership: no overlapping outputs in the index, no overlapping artifacts in a stage

All positive theorems are about the *intended* behaviour, selected by the two regenerated facts
`wa = walkAccumulates = true` (the ancestor walk of `FindDirArtifactOwnerForPath` accumulates the
directory) and `rev = addStageChecksReverse = true` (`AddStage` also rejects a new directory output
that encloses an existing output).  The negative witnesses at the end are stated with explicit
`false` arguments: they exhibit what the other value of each fact (the current Go code,
`Dud.Facts.ownerWalkAccumulates = false`, `Dud.Facts.addStageChecksReverse = false`) does.

Hypotheses used throughout (`OutWF`, `StageWF`): artifact paths are `CleanRel` (what
`filepath.Clean` in `stage.FromFile` produces for a relative, non-escaping, non-"." path) and an
artifact map has one entry per path (Go maps keyed by path).
-/
namespace Dud
open Path

/-! ## 1. Go's path functions on clean relative paths

Proved in `Lemmas/Owner.lean`; restated here under the names of the deliverable. -/

theorem comps_cleanRel {cs : List Bytes} (hne : cs ≠ []) (h : ∀ c ∈ cs, GoodComp c) :
    Path.comps (intercalate cs) = cs := comps_intercalate hne h

theorem dir_cleanRel_snoc {cs : List Bytes} (c : Bytes) (hne : cs ≠ [])
    (h : ∀ x ∈ cs ++ [c], GoodComp x) : Path.dir (intercalate (cs ++ [c])) = intercalate cs :=
  dir_intercalate_snoc c hne h

theorem dir_cleanRel_single {c : Bytes} (h : GoodComp c) :
    Path.dir (intercalate ([] ++ [c])) = [dot] := dir_intercalate_nil_snoc h

theorem splitSlash_cleanRel {cs : List Bytes} (hne : cs ≠ []) (h : ∀ c ∈ cs, GoodComp c) :
    Path.splitSlash (intercalate cs) = cs :=
  splitSlash_intercalate hne fun c hc => (h c hc).noslash

theorem join_cleanRel {cs : List Bytes} (c : Bytes) (hne : cs ≠ [])
    (h : ∀ x ∈ cs ++ [c], GoodComp x) : Path.join [intercalate cs, c] = intercalate (cs ++ [c]) :=
  join_intercalate c hne h

theorem join_empty_cleanRel {c : Bytes} (h : GoodComp c) : Path.join [[], c] = c := join_nil_good h

theorem clean_cleanRel {p : Bytes} (h : CleanRel p) : Path.clean p = p := by
  obtain ⟨cs, hne, hg, rfl⟩ := h; exact clean_intercalate hne hg

theorem intercalate_injective {cs ds : List Bytes} (hc : cs ≠ []) (hd : ds ≠ [])
    (h1 : ∀ c ∈ cs, GoodComp c) (h2 : ∀ c ∈ ds, GoodComp c)
    (e : intercalate cs = intercalate ds) : cs = ds := intercalate_inj hc hd h1 h2 e

/-! ## 2. the owner walk decides `Inside` -/

/-- a reported owner is an entry of the map, and the path lies inside it (at any depth, honouring
disable-recursion).  No hypothesis on the map. -/
theorem findDirOwner_sound {p : Bytes} {arts : List Art} {o : Art} (hp : CleanRel p)
    (h : findDirOwner true p arts = some o) : o ∈ arts ∧ Inside { path := p } o :=
  ⟨(findDirOwner_sound' hp h).1, (findDirOwner_sound' hp h).2 _ rfl⟩

/-- `Inside` only looks at the path of its first argument -/
theorem findDirOwner_sound_any {p : Bytes} {arts : List Art} {o : Art} (hp : CleanRel p)
    (h : findDirOwner true p arts = some o) (x : Art) (hx : x.path = p) : Inside x o :=
  (findDirOwner_sound' hp h).2 x hx

/-- if the path lies inside some entry of the map, an owner is reported.  Needs the map to have one
entry per path (see `findDirOwner_complete_needs_nodup`). -/
theorem findDirOwner_complete {p : Bytes} {arts : List Art} (hp : CleanRel p)
    (hnd : (arts.map (·.path)).Nodup)
    (h : ∃ o ∈ arts, CleanRel o.path ∧ Inside { path := p } o) :
    (findDirOwner true p arts).isSome = true := by
  obtain ⟨o, ho, hc, hin⟩ := h
  exact findDirOwner_complete' hp hnd
    ⟨o, ho, hc, fun x hx => (Inside.congr_left (x := x) (y := { path := p }) hx).2 hin⟩

/-- both directions at once, for the path of an artifact -/
theorem findDirOwner_none_iff {x : Art} {arts : List Art} (hp : CleanRel x.path)
    (hnd : (arts.map (·.path)).Nodup) (hcl : ∀ o ∈ arts, CleanRel o.path) :
    findDirOwner true x.path arts = none ↔ ∀ o ∈ arts, ¬ Inside x o :=
  findDirOwner_eq_none_iff hp hnd hcl

/-- what the spec relation `Inside` says about the byte strings themselves: `x` lies inside `d` iff
its path is `d`'s path, a slash, and a non-empty rest — a single component when `d` has
`disable-recursion` set -/
theorem inside_iff_path_prefix {x d : Art} (hx : CleanRel x.path) (hd : CleanRel d.path) :
    Inside x d ↔ ∃ r, x.path = d.path ++ slash :: r ∧ (d.noRec = false ∨ slash ∉ r) :=
  inside_iff_prefix hx hd

theorem overlaps_symm {a b : Art} : Overlaps a b ↔ Overlaps b a := Overlaps.comm

/-! ## 3. `Stage.Validate` -/

/-- Full characterisation: a well-formed stage validates iff the side conditions hold and no
artifact (input or output) equals or lies inside another one. -/
theorem validate_iff {stg : Stage} {sp : Bytes} (hwf : StageWF stg) :
    stg.validate true sp = true ↔ SideOK stg sp ∧ NoSelfOverlap stg := validate_iff' hwf

/-- With the side conditions out of the way, validation is exactly absence of overlap: "no single
stage lists an artifact equal to or inside another of its own artifacts, and no stage is rejected
for an overlap that does not exist". -/
theorem validate_overlap_iff {stg : Stage} {sp : Bytes} (hwf : StageWF stg) (hside : SideOK stg sp) :
    stg.validate true sp = true ↔
      (∀ a ∈ stg.outputs, ∀ b ∈ stg.inputs, a.path ≠ b.path) ∧
      ∀ a ∈ stg.outputs ++ stg.inputs, ∀ b ∈ stg.outputs ++ stg.inputs, a ≠ b → ¬ Overlaps a b := by
  rw [validate_iff hwf]
  exact ⟨fun h => h.2, fun h => ⟨hside, h⟩⟩

/-- The statement with every hypothesis spelled out.  `_partial`: compared with the intended
statement ("wd/emptiness conditions hold, all paths `CleanRel` and `≠ stagePath`") it needs the
extra hypothesis `hdd`, because `Validate` rejects every path that merely *contains* the substring
".." (`strings.Contains(artPath, "..")`, stage.go:191), e.g. the clean relative path `a..b` —
see `validate_rejects_dotdot_substring`. -/
theorem validate_overlap_iff_partial (stg : Stage) (sp : Bytes)
    (hclO : ∀ a ∈ stg.outputs, CleanRel a.path) (hclI : ∀ a ∈ stg.inputs, CleanRel a.path)
    (hndO : (stg.outputs.map (·.path)).Nodup) (hndI : (stg.inputs.map (·.path)).Nodup)
    (hwd : Path.containsDotDot stg.wd = false ∧ Path.isAbs stg.wd = false)
    (hne : ¬ (stg.inputs = [] ∧ stg.outputs = [])) (hcmd : ¬ (stg.outputs = [] ∧ stg.cmd = []))
    (hsp : ∀ a ∈ stg.outputs ++ stg.inputs, a.path ≠ sp)
    (hdd : ∀ a ∈ stg.outputs ++ stg.inputs, Path.containsDotDot a.path = false) :
    stg.validate true sp = true ↔
      (∀ a ∈ stg.outputs, ∀ b ∈ stg.inputs, a.path ≠ b.path) ∧
      ∀ a ∈ stg.outputs ++ stg.inputs, ∀ b ∈ stg.outputs ++ stg.inputs, a ≠ b → ¬ Overlaps a b :=
  validate_overlap_iff ⟨hclO, hclI, hndO, hndI⟩ ⟨hwd.1, hwd.2, hne, hcmd, hsp, hdd⟩

/-- the direction "accepted ⇒ no overlap" needs no side hypothesis at all -/
theorem validate_no_overlap {stg : Stage} {sp : Bytes} (hwf : StageWF stg)
    (h : stg.validate true sp = true) : NoSelfOverlap stg := ((validate_iff hwf).1 h).2

/-- `CleanRel` need not be assumed for a stage that went through `stage.FromFile`: the paths were
`filepath.Clean`ed, and `Validate` rejects absolute paths, paths containing ".." and (because a
"." artifact is found as its own owner) the path ".". -/
theorem validate_cleanRel {stg : Stage} {sp : Bytes}
    (hclean : ∀ a ∈ stg.outputs ++ stg.inputs, ∃ q, a.path = Path.clean q)
    (h : stg.validate true sp = true) : ∀ a ∈ stg.outputs ++ stg.inputs, CleanRel a.path :=
  validate_cleanRel' hclean h

theorem stageWF_of_fromFile {stg : Stage} {sp : Bytes} (hs : FromFileShape stg)
    (h : stg.validate true sp = true) : StageWF stg := hs.wf h

/-- the view `Validate` itself has: the consolidated map `allArtifacts` has one entry per path, and
in it distinct entries never overlap -/
theorem validate_allArtifacts {stg : Stage} {sp : Bytes} (hwf : StageWF stg)
    (h : stg.validate true sp = true) :
    ((stg.outputs ++ stg.inputs).map (·.path)).Nodup ∧
    ∀ a ∈ stg.outputs ++ stg.inputs, ∀ b ∈ stg.outputs ++ stg.inputs,
      Overlaps a b → a = b := by
  obtain ⟨_, hd, hno⟩ := (validate_iff hwf).1 h
  refine ⟨nodup_all hwf hd, fun a ha b hb hov => ?_⟩
  exact Classical.byContradiction fun hne => hno a ha b hb hne hov

/-! ## 4. `Index.AddStage` (with the reverse check) -/

theorem addStage_iff {idx : Index} {sp : Bytes} {stg : Stage} {r : Index}
    (hidx : ∀ q ∈ idx, OutWF q.2) (hstg : OutWF stg) :
    addStage true true idx sp stg = .ok r ↔
      alookup idx sp = none ∧
      (∀ a ∈ stg.outputs, ∀ q ∈ idx, ∀ b ∈ q.2.outputs, ¬ Overlaps a b) ∧
      r = idx ++ [(sp, stg)] := addStage_iff' hidx hstg

/-- … in particular a stage is never rejected for an overlap that does not exist -/
theorem addStage_accepts {idx : Index} {sp : Bytes} {stg : Stage}
    (hidx : ∀ q ∈ idx, OutWF q.2) (hstg : OutWF stg) (hnew : alookup idx sp = none)
    (hno : ∀ a ∈ stg.outputs, ∀ q ∈ idx, ∀ b ∈ q.2.outputs, ¬ Overlaps a b) :
    addStage true true idx sp stg = .ok (idx ++ [(sp, stg)]) :=
  (addStage_iff hidx hstg).2 ⟨hnew, hno, rfl⟩

/-! ## 5. the index invariant -/

/-- characterisation of `index.FromFile` -/
theorem loadIndex_iff {l : List (Bytes × Stage)} {idx : Index} (hl : ∀ q ∈ l, OutWF q.2) :
    loadIndex true true l [] = .ok idx ↔
      idx = l ∧ (∀ q ∈ l, q.2.validate true q.1 = true) ∧ (l.map Prod.fst).Nodup ∧ IndexOK l :=
  loadIndex_iff' hl

/-- a loaded index never holds two outputs of different stages where one equals or lies inside the
other -/
theorem index_invariant {l : List (Bytes × Stage)} {idx : Index} (hl : ∀ q ∈ l, OutWF q.2)
    (h : loadIndex true true l [] = .ok idx) : IndexOK idx := by
  obtain ⟨rfl, _, _, hok⟩ := (loadIndex_iff hl).1 h
  exact hok

/-- … every stage in it validated, so within a stage there is no overlap either -/
theorem index_invariant_within {l : List (Bytes × Stage)} {idx : Index} (hl : ∀ q ∈ l, StageWF q.2)
    (h : loadIndex true true l [] = .ok idx) :
    ∀ q ∈ idx, SideOK q.2 q.1 ∧ NoSelfOverlap q.2 := by
  obtain ⟨rfl, hv, _, _⟩ := (loadIndex_iff fun q hq => (hl q hq).out).1 h
  exact fun q hq => (validate_iff (hl q hq)).1 (hv q hq)

/-- … and stage paths are distinct -/
theorem index_keys_nodup {l : List (Bytes × Stage)} {idx : Index} (hl : ∀ q ∈ l, OutWF q.2)
    (h : loadIndex true true l [] = .ok idx) : (idx.map Prod.fst).Nodup := by
  obtain ⟨rfl, _, hn, _⟩ := (loadIndex_iff hl).1 h
  exact hn

/-- all outputs of a loaded index, whichever stages they belong to: any two that overlap are the
same output of the same stage -/
theorem index_outputs_disjoint {l : List (Bytes × Stage)} {idx : Index} (hl : ∀ q ∈ l, StageWF q.2)
    (h : loadIndex true true l [] = .ok idx) :
    ∀ q1 ∈ idx, ∀ q2 ∈ idx, ∀ a ∈ q1.2.outputs, ∀ b ∈ q2.2.outputs,
      Overlaps a b → q1 = q2 ∧ a = b := by
  have hwithin := index_invariant_within hl h
  have hok := index_invariant (fun q hq => (hl q hq).out) h
  intro q1 h1 q2 h2 a ha b hb hov
  by_cases e : q1 = q2
  · subst e
    refine ⟨rfl, Classical.byContradiction fun hne => ?_⟩
    exact (hwithin q1 h1).2.2 a (List.mem_append_left _ ha) b (List.mem_append_left _ hb) hne hov
  · exfalso
    rcases List.mem_iff_getElem.1 h1 with ⟨i, hi, rfl⟩
    rcases List.mem_iff_getElem.1 h2 with ⟨j, hj, rfl⟩
    have hp := List.pairwise_iff_getElem.1 hok
    rcases Nat.lt_trichotomy i j with hij | hij | hij
    · exact hp i j hi hj hij a ha b hb hov
    · subst hij; exact e rfl
    · exact hp j i hj hi hij b hb a ha hov.symm

/-! ## 6. acceptance does not depend on the order of insertion -/

theorem NoOverlap_symm : ∀ {x y : Bytes × Stage}, NoOverlap x y → NoOverlap y x := NoOverlap.symm

theorem accept_perm_iff {l1 l2 : List (Bytes × Stage)} (hp : l1.Perm l2) (hl : ∀ q ∈ l1, OutWF q.2) :
    (∃ idx, loadIndex true true l1 [] = .ok idx) ↔ (∃ idx, loadIndex true true l2 [] = .ok idx) := by
  have hl2 : ∀ q ∈ l2, OutWF q.2 := fun q hq => hl q (hp.mem_iff.2 hq)
  simp only [loadIndex_iff hl, loadIndex_iff hl2, IndexOK]
  constructor
  · rintro ⟨_, _, hv, hn, hok⟩
    exact ⟨l2, rfl, fun q hq => hv q (hp.mem_iff.2 hq), ((hp.map _).nodup_iff).1 hn,
      (hp.pairwise_iff NoOverlap.symm).1 hok⟩
  · rintro ⟨_, _, hv, hn, hok⟩
    exact ⟨l1, rfl, fun q hq => hv q (hp.mem_iff.1 hq), ((hp.map _).nodup_iff).2 hn,
      (hp.pairwise_iff NoOverlap.symm).2 hok⟩

theorem isOk_iff {α : Type} (e : Except Err α) : e.isOk = true ↔ ∃ a, e = .ok a := by
  cases e <;> simp [Except.isOk, Except.toBool]

/-- whether a set of stages is accepted does not depend on the order in which they are added
(the hypothesis "distinct stage paths" is not needed: duplicate paths are rejected in any order) -/
theorem accept_perm {l1 l2 : List (Bytes × Stage)} (hp : l1.Perm l2) (hl : ∀ q ∈ l1, OutWF q.2) :
    (loadIndex true true l1 []).isOk = (loadIndex true true l2 []).isOk := by
  rw [Bool.eq_iff_iff, isOk_iff, isOk_iff]
  exact accept_perm_iff hp hl

/-! ## 7. an index written by a successful `stage add` can be loaded again -/

theorem reload_ok {l : List (Bytes × Stage)} {idx idx' : Index} {sp : Bytes} {stg : Stage}
    (hl : ∀ q ∈ l, OutWF q.2) (hstg : OutWF stg)
    (hload : loadIndex true true l [] = .ok idx)
    (hadd : addStage true true idx sp stg = .ok idx')
    (hval : stg.validate true sp = true) :
    ∀ l', l'.Perm idx' → ∃ idx'', loadIndex true true l' [] = .ok idx'' := by
  intro l' hp
  obtain ⟨rfl, hv, hn, hok⟩ := (loadIndex_iff hl).1 hload
  obtain ⟨hnew, hno, rfl⟩ := (addStage_iff hl hstg).1 hadd
  have hwf' : ∀ q ∈ idx ++ [(sp, stg)], OutWF q.2 := fun q hq => by
    rcases List.mem_append.1 hq with h | h
    · exact hl q h
    · simp at h; subst h; exact hstg
  have hself : loadIndex true true (idx ++ [(sp, stg)]) [] = .ok (idx ++ [(sp, stg)]) := by
    rw [loadIndex_iff hwf']
    refine ⟨rfl, ?_, ?_, ?_⟩
    · intro q hq
      rcases List.mem_append.1 hq with h | h
      · exact hv q h
      · simp at h; subst h; exact hval
    · rw [List.map_append, List.nodup_append]
      refine ⟨hn, by simp, ?_⟩
      intro a ha b hb e
      simp at hb; subst hb; subst e
      exact alookup_eq_none_iff.1 hnew ha
    · rw [IndexOK, List.pairwise_append]
      refine ⟨hok, by simp, ?_⟩
      intro x hx y hy
      simp at hy; subst hy
      exact fun a ha b hb hov => hno b hb x hx a ha hov.symm
  exact (accept_perm_iff hp.symm hwf').1 ⟨_, hself⟩

/-- the same for the index file as dud writes it (any list of the same stages, e.g. sorted by stage
path), giving the loaded index explicitly -/
theorem reload_ok_eq {l : List (Bytes × Stage)} {idx idx' : Index} {sp : Bytes} {stg : Stage}
    (hl : ∀ q ∈ l, OutWF q.2) (hstg : OutWF stg)
    (hload : loadIndex true true l [] = .ok idx)
    (hadd : addStage true true idx sp stg = .ok idx')
    (hval : stg.validate true sp = true) (l' : List (Bytes × Stage)) (hp : l'.Perm idx') :
    loadIndex true true l' [] = .ok l' := by
  obtain ⟨idx'', h⟩ := reload_ok hl hstg hload hadd hval l' hp
  have hwf : ∀ q ∈ l', OutWF q.2 := by
    obtain ⟨rfl, _, _, _⟩ := (loadIndex_iff hl).1 hload
    obtain ⟨_, _, rfl⟩ := (addStage_iff hl hstg).1 hadd
    intro q hq
    rcases List.mem_append.1 (hp.mem_iff.1 hq) with h | h
    · exact hl q h
    · simp at h; subst h; exact hstg
  obtain ⟨rfl, _⟩ := (loadIndex_iff hwf).1 h
  exact h

/-- `dud stage add p₁ … pₙ` loads, validates and adds several stages before writing the index:
in the model that is `loadIndex` continued from the loaded index -/
theorem reload_ok_many {l news : List (Bytes × Stage)} {idx idx' : Index}
    (hl : ∀ q ∈ l, OutWF q.2) (hn : ∀ q ∈ news, OutWF q.2)
    (hload : loadIndex true true l [] = .ok idx)
    (hadd : loadIndex true true news idx = .ok idx') :
    ∀ l', l'.Perm idx' → ∃ idx'', loadIndex true true l' [] = .ok idx'' := by
  intro l' hp
  have hall : loadIndex true true (l ++ news) [] = .ok idx' := by
    rw [loadIndex_append, hload]; exact hadd
  have hwf : ∀ q ∈ l ++ news, OutWF q.2 := fun q hq => by
    rcases List.mem_append.1 hq with h | h
    · exact hl q h
    · exact hn q h
  obtain ⟨rfl, _⟩ := (loadIndex_iff hwf).1 hall
  exact (accept_perm_iff hp.symm hwf).1 ⟨_, hall⟩

/-! ### the same results assuming only what `stage.FromFile` establishes (`FromFileShape`)

`CleanRel` is then a consequence of validation instead of a hypothesis. -/

theorem outWF_of_loaded {l : List (Bytes × Stage)} {idx0 idx : Index}
    (hs : ∀ q ∈ l, FromFileShape q.2) (h : loadIndex true true l idx0 = .ok idx) :
    ∀ q ∈ l, StageWF q.2 :=
  fun q hq => (hs q hq).wf (loadIndex_ok_validates true true l idx0 idx h q hq)

theorem loadIndex_iff_fromFile {l : List (Bytes × Stage)} {idx : Index}
    (hs : ∀ q ∈ l, FromFileShape q.2) :
    loadIndex true true l [] = .ok idx ↔
      idx = l ∧ (∀ q ∈ l, q.2.validate true q.1 = true) ∧ (l.map Prod.fst).Nodup ∧ IndexOK l := by
  constructor
  · intro h
    exact (loadIndex_iff fun q hq => (outWF_of_loaded hs h q hq).out).1 h
  · intro h
    exact (loadIndex_iff fun q hq => ((hs q hq).wf (h.2.1 q hq)).out).2 h

theorem index_invariant_fromFile {l : List (Bytes × Stage)} {idx : Index}
    (hs : ∀ q ∈ l, FromFileShape q.2) (h : loadIndex true true l [] = .ok idx) :
    IndexOK idx ∧ (idx.map Prod.fst).Nodup ∧
    (∀ q ∈ idx, StageWF q.2 ∧ SideOK q.2 q.1 ∧ NoSelfOverlap q.2) ∧
    ∀ q1 ∈ idx, ∀ q2 ∈ idx, ∀ a ∈ q1.2.outputs, ∀ b ∈ q2.2.outputs,
      Overlaps a b → q1 = q2 ∧ a = b := by
  have hwf := outWF_of_loaded hs h
  have hout : ∀ q ∈ l, OutWF q.2 := fun q hq => (hwf q hq).out
  have hw := index_invariant_within hwf h
  have e : idx = l := ((loadIndex_iff hout).1 h).1
  refine ⟨index_invariant hout h, index_keys_nodup hout h, ?_, index_outputs_disjoint hwf h⟩
  intro q hq
  exact ⟨hwf q (e ▸ hq), hw q hq⟩

theorem accept_perm_fromFile {l1 l2 : List (Bytes × Stage)} (hp : l1.Perm l2)
    (hs : ∀ q ∈ l1, FromFileShape q.2) :
    (loadIndex true true l1 []).isOk = (loadIndex true true l2 []).isOk := by
  have hs2 : ∀ q ∈ l2, FromFileShape q.2 := fun q hq => hs q (hp.mem_iff.2 hq)
  rw [Bool.eq_iff_iff, isOk_iff, isOk_iff]
  constructor
  · rintro ⟨idx, h⟩
    exact (accept_perm_iff hp fun q hq => (outWF_of_loaded hs h q hq).out).1 ⟨idx, h⟩
  · rintro ⟨idx, h⟩
    exact (accept_perm_iff hp.symm fun q hq => (outWF_of_loaded hs2 h q hq).out).1 ⟨idx, h⟩

theorem reload_ok_fromFile {l news : List (Bytes × Stage)} {idx idx' : Index}
    (hl : ∀ q ∈ l, FromFileShape q.2) (hn : ∀ q ∈ news, FromFileShape q.2)
    (hload : loadIndex true true l [] = .ok idx)
    (hadd : loadIndex true true news idx = .ok idx') :
    ∀ l', l'.Perm idx' → loadIndex true true l' [] = .ok l' := by
  intro l' hp
  have h1 := fun q hq => (outWF_of_loaded hl hload q hq).out
  have h2 := fun q hq => (outWF_of_loaded hn hadd q hq).out
  obtain ⟨idx'', h⟩ := reload_ok_many h1 h2 hload hadd l' hp
  have hall : loadIndex true true (l ++ news) [] = .ok idx' := by
    rw [loadIndex_append, hload]; exact hadd
  have hwf : ∀ q ∈ l ++ news, OutWF q.2 := fun q hq => by
    rcases List.mem_append.1 hq with h | h
    · exact h1 q h
    · exact h2 q h
  obtain ⟨rfl, _⟩ := (loadIndex_iff hwf).1 hall
  obtain ⟨rfl, _⟩ := (loadIndex_iff fun q hq => hwf q (hp.mem_iff.1 hq)).1 h
  exact h

/-! ## 8. negative witnesses: what the other value of each regenerated fact does -/

/-- so that outcomes of `addStage` / `loadIndex` on concrete data can be compared by `decide` -/
instance C10ex.exceptDecEq {ε α : Type} [DecidableEq ε] [DecidableEq α] : DecidableEq (Except ε α)
  | .ok a, .ok b => if h : a = b then isTrue (h ▸ rfl) else isFalse fun e => h (Except.ok.inj e)
  | .error a, .error b =>
    if h : a = b then isTrue (h ▸ rfl) else isFalse fun e => h (Except.error.inj e)
  | .ok _, .error _ => isFalse nofun
  | .error _, .ok _ => isFalse nofun

namespace C10ex

def p_a_b : Bytes := [0x61, 0x2F, 0x62]                               -- "a/b"
def p_a_b_c : Bytes := [0x61, 0x2F, 0x62, 0x2F, 0x63, 0x2E, 0x74, 0x78, 0x74]   -- "a/b/c.txt"
def p_b : Bytes := [0x62]                                             -- "b"
def p_x_b_f : Bytes := [0x78, 0x2F, 0x62, 0x2F, 0x66, 0x2E, 0x74, 0x78, 0x74]   -- "x/b/f.txt"
def p_x : Bytes := [0x78]                                             -- "x"
def p_x_y : Bytes := [0x78, 0x2F, 0x79, 0x2E, 0x74, 0x78, 0x74]       -- "x/y.txt"
def spD : Bytes := [0x64, 0x2E, 0x79]                                 -- "d.y"   (sorts first)
def spF : Bytes := [0x66, 0x2E, 0x79]                                 -- "f.y"

def dirAB : Art := { path := p_a_b, isDir := true }
def dirB : Art := { path := p_b, isDir := true }
/-- stage D: one directory output `x` -/
def stgD : Stage := { cmd := [0x63], outputs := [{ path := p_x, isDir := true }] }
/-- stage F: one file output `x/y.txt` -/
def stgF : Stage := { cmd := [0x63], outputs := [{ path := p_x_y }] }
end C10ex

open C10ex

/-- `wa = false` (shadowed loop variable): the directory output `a/b` is not found as owner of
`a/b/c.txt` although the file lies inside it … -/
theorem owner_lookup_missed :
    findDirOwner false p_a_b_c [dirAB] = none ∧ Inside { path := p_a_b_c } dirAB ∧
    CleanRel p_a_b_c ∧ CleanRel dirAB.path := by decide

/-- … while the accumulating walk finds it -/
theorem owner_lookup_found : findDirOwner true p_a_b_c [dirAB] = some dirAB := by decide

/-- `wa = false`: the directory output `b` is reported as owner of `x/b/f.txt` although that file
does not lie inside it … -/
theorem owner_lookup_spurious :
    findDirOwner false p_x_b_f [dirB] = some dirB ∧ ¬ Inside { path := p_x_b_f } dirB ∧
    CleanRel p_x_b_f ∧ CleanRel dirB.path := by decide

/-- … while the accumulating walk does not -/
theorem owner_lookup_not_spurious : findDirOwner true p_x_b_f [dirB] = none := by decide

/-- `rev = false` (even with the correct walk): adding F (file `x/y.txt`) then D (directory `x`) is
accepted, D then F is rejected -/
theorem add_order_dependent :
    loadIndex true false [(spF, stgF), (spD, stgD)] [] = .ok [(spF, stgF), (spD, stgD)] ∧
    loadIndex true false [(spD, stgD), (spF, stgF)] [] = .error .owned := by decide

/-- the same two stages step by step, through `addStage` itself -/
theorem add_order_dependent_addStage :
    addStage true false [(spF, stgF)] spD stgD = .ok [(spF, stgF), (spD, stgD)] ∧
    addStage true false [(spD, stgD)] spF stgF = .error .owned ∧
    stgD.validate true spD = true ∧ stgF.validate true spF = true := by decide

/-- `rev = false`: the index accepted above, written to the index file (sorted by stage path, D
first) and loaded by the next command, is rejected -/
theorem accepted_index_unloadable :
    addStage true false [(spF, stgF)] spD stgD = .ok [(spF, stgF), (spD, stgD)] ∧
    [(spD, stgD), (spF, stgF)].Perm [(spF, stgF), (spD, stgD)] ∧
    decide (spD < spF) = true ∧
    loadIndex true false [(spD, stgD), (spF, stgF)] [] = .error .owned := by
  refine ⟨by decide, List.Perm.swap _ _ _, by decide, by decide⟩

/-- with `rev = true` both orders are rejected: the overlap is seen from either side -/
theorem add_order_independent_witness :
    loadIndex true true [(spF, stgF), (spD, stgD)] [] = .error .owned ∧
    loadIndex true true [(spD, stgD), (spF, stgF)] [] = .error .owned := by decide

/-- completeness of the owner walk needs one entry per path: with two entries for `x`, the first
non-recursive, the (recursive) second one is never consulted -/
theorem findDirOwner_complete_needs_nodup :
    let arts : List Art := [{ path := p_x, isDir := true, noRec := true }, { path := p_x, isDir := true }]
    findDirOwner true [0x78, 0x2F, 0x61, 0x2F, 0x62] arts = none ∧
    Inside { path := [0x78, 0x2F, 0x61, 0x2F, 0x62] } { path := p_x, isDir := true } := by decide

/-- `Validate` rejects a clean relative path merely containing ".." as a substring (`a..b`): the
hypothesis `SideOK.noDotDot` of `validate_overlap_iff` cannot be dropped -/
theorem validate_rejects_dotdot_substring :
    let stg : Stage := { cmd := [0x63], outputs := [{ path := [0x61, 0x2E, 0x2E, 0x62] }] }
    CleanRel [0x61, 0x2E, 0x2E, 0x62] ∧ stg.validate true spD = false ∧ NoSelfOverlap stg ∧ StageWF stg := by
  refine ⟨by decide, by decide, ⟨by simp, ?_⟩, ⟨?_, by simp, by decide, by decide⟩⟩
  · intro a ha b hb hne
    simp at ha hb; subst ha; subst hb; exact absurd rfl hne
  · intro a ha; simp at ha; subst ha; decide

/-! ## 9. non-vacuity of the hypothesis bundles -/

example : OutWF stgD := ⟨by intro a ha; simp [stgD] at ha; subst ha; decide, by decide⟩
example : OutWF stgF := ⟨by intro a ha; simp [stgF] at ha; subst ha; decide, by decide⟩

/-- a two-stage index with nested (non-overlapping) directories and a disable-recursion directory,
accepted in both orders -/
def stgP : Stage :=
  { cmd := [0x63], inputs := [{ path := p_x_y, skip := true }],
    outputs := [{ path := p_a_b, isDir := true, noRec := true }] }
def stgQ : Stage := { cmd := [0x63], outputs := [{ path := p_a_b_c ++ [0x2F, 0x7A] }, { path := p_b, isDir := true }] }

theorem stgP_wf : StageWF stgP :=
  ⟨by intro a ha; simp [stgP] at ha; subst ha; decide,
   by intro a ha; simp [stgP] at ha; subst ha; decide, by decide, by decide⟩
theorem stgQ_wf : StageWF stgQ :=
  ⟨by intro a ha; simp [stgQ] at ha; rcases ha with rfl | rfl <;> decide,
   by intro a ha; simp [stgQ] at ha, by decide, by decide⟩

example : FromFileShape stgP ∧ FromFileShape stgQ := by
  refine ⟨⟨?_, by decide, by decide⟩, ⟨?_, by decide, by decide⟩⟩
  · intro a ha; refine ⟨a.path, ?_⟩; simp [stgP] at ha; rcases ha with rfl | rfl <;> decide
  · intro a ha; refine ⟨a.path, ?_⟩; simp [stgQ] at ha; rcases ha with rfl | rfl <;> decide

example : SideOK stgP spD ∧ NoSelfOverlap stgP := (validate_iff stgP_wf).1 (by decide)
example : stgP.validate true spD = true ∧ stgQ.validate true spF = true := by decide

/-- the disable-recursion directory `a/b` does not own `a/b/c.txt/z` two levels down, so the two
stages coexist; hypotheses of `loadIndex_iff`, `index_invariant`, `accept_perm`, `reload_ok` hold -/
example : ∃ idx, loadIndex true true [(spD, stgP), (spF, stgQ)] [] = .ok idx ∧ IndexOK idx ∧
    (∀ q ∈ [(spD, stgP), (spF, stgQ)], StageWF q.2) := by
  have hwf : ∀ q ∈ [(spD, stgP), (spF, stgQ)], StageWF q.2 := by
    intro q hq; simp at hq; rcases hq with rfl | rfl
    · exact stgP_wf
    · exact stgQ_wf
  have h : loadIndex true true [(spD, stgP), (spF, stgQ)] [] = .ok [(spD, stgP), (spF, stgQ)] := by decide
  exact ⟨_, h, index_invariant (fun q hq => (hwf q hq).out) h, hwf⟩

example : (loadIndex true true [(spF, stgQ), (spD, stgP)] []).isOk = true := by
  rw [← accept_perm (l1 := [(spD, stgP), (spF, stgQ)]) (List.Perm.swap _ _ _)]
  · decide
  · intro q hq; simp at hq; rcases hq with rfl | rfl
    · exact stgP_wf.out
    · exact stgQ_wf.out

/-- `reload_ok` instantiated: load [P], add Q, reload in the other order -/
example : ∃ idx'', loadIndex true true [(spF, stgQ), (spD, stgP)] [] = .ok idx'' :=
  reload_ok (l := [(spD, stgP)]) (idx := [(spD, stgP)]) (sp := spF) (stg := stgQ)
    (by intro q hq; simp at hq; subst hq; exact stgP_wf.out) stgQ_wf.out (by decide) (by decide)
    (by decide) _ (List.Perm.swap _ _ _)

/-- `Inside` honours disable-recursion: one level below a non-recursive directory is inside, two
levels below is not; below a recursive directory everything is -/
example : Inside { path := p_a_b_c } { path := p_a_b, noRec := true } ∧
    ¬ Inside { path := p_a_b_c ++ [0x2F, 0x7A] } { path := p_a_b, noRec := true } ∧
    Inside { path := p_a_b_c ++ [0x2F, 0x7A] } { path := p_a_b } ∧
    ¬ Overlaps { path := p_a_b } { path := p_b } := by decide

end Dud

/-! ## axioms -/
/-- The two regenerated facts the positive theorems of this file are about: the ancestor walk
accumulates the directory, and `AddStage` checks both directions. Reverting either repair in the
Go sources flips the fact and this obligation stops building. -/
theorem Dud.ownership_facts_obligation :
    Dud.Facts.ownerWalkAccumulates = true ∧ Dud.Facts.addStageChecksReverse = true := by decide

#print axioms Dud.comps_cleanRel
#print axioms Dud.dir_cleanRel_snoc
#print axioms Dud.dir_cleanRel_single
#print axioms Dud.splitSlash_cleanRel
#print axioms Dud.join_cleanRel
#print axioms Dud.join_empty_cleanRel
#print axioms Dud.clean_cleanRel
#print axioms Dud.intercalate_injective
#print axioms Dud.cleanRelB_iff
#print axioms Dud.insideB_iff
#print axioms Dud.overlapsB_iff
#print axioms Dud.findDirOwner_sound
#print axioms Dud.findDirOwner_sound_any
#print axioms Dud.findDirOwner_complete
#print axioms Dud.findDirOwner_none_iff
#print axioms Dud.validate_iff
#print axioms Dud.validate_overlap_iff
#print axioms Dud.validate_allArtifacts
#print axioms Dud.addStage_iff
#print axioms Dud.addStage_accepts
#print axioms Dud.loadIndex_iff
#print axioms Dud.index_invariant
#print axioms Dud.index_invariant_within
#print axioms Dud.index_keys_nodup
#print axioms Dud.index_outputs_disjoint
#print axioms Dud.accept_perm_iff
#print axioms Dud.accept_perm
#print axioms Dud.reload_ok
#print axioms Dud.reload_ok_eq
#print axioms Dud.owner_lookup_missed
#print axioms Dud.owner_lookup_found
#print axioms Dud.owner_lookup_spurious
#print axioms Dud.owner_lookup_not_spurious
#print axioms Dud.add_order_dependent
#print axioms Dud.add_order_dependent_addStage
#print axioms Dud.accepted_index_unloadable
#print axioms Dud.add_order_independent_witness
#print axioms Dud.findDirOwner_complete_needs_nodup
#print axioms Dud.validate_rejects_dotdot_substring
#print axioms Dud.validate_overlap_iff_partial
#print axioms Dud.validate_no_overlap
#print axioms Dud.validate_cleanRel
#print axioms Dud.stageWF_of_fromFile
#print axioms Dud.reload_ok_many
#print axioms Dud.loadIndex_iff_fromFile
#print axioms Dud.index_invariant_fromFile
#print axioms Dud.accept_perm_fromFile
#print axioms Dud.reload_ok_fromFile
#print axioms Dud.inside_iff_path_prefix
#print axioms Dud.overlaps_symm
#print axioms Dud.NoOverlap_symm
#print axioms Dud.isOk_iff
#print axioms Dud.outWF_of_loaded
#print axioms Dud.stgP_wf
#print axioms Dud.stgQ_wf
#print axioms Dud.cleanRel_of_clean
#print axioms Dud.loadIndex_acc
#print axioms Dud.goodCompB_iff
#print axioms Dud.ownership_facts_obligation
