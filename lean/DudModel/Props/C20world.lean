import DudModel.Lemmas.Twin
import DudModel.Props.C20
import DudModel.Props.C15world
/-!
# C20 at the world level — a cache with old-schema (or mixed) manifests behaves like its twin

`Props/C20.lean` shows, for ONE artifact whose tree the cache holds, that checkout and status do not
care which schema the manifests were written with.  This file lifts the statement to whole worlds
and to the commands `dud checkout` / `dud status`.

**The twin relation** (`TwinWorlds cfg wO wN`; vocabulary of `Lemmas/Twin.lean`):
* the same workspace;
* indexes with the same stage paths in the same order; twin stages have the same command, working
  directory and stage checksum, and pairwise *twin artifacts* (`Twin.TwinArt`): the same path and
  flags — only the recorded CHECKSUM may differ — and `Twin.TwinChild`: for a file artifact the
  same checksum under which both caches hold objects with the same bytes (or both nothing); for a
  directory artifact, manifests that both caches read without error into pairwise twin entry
  lists (the two directory checksums are unrelated, they are digests of different manifest
  bytes), or a manifest missing from both caches.
Nothing is assumed about schemas, the hash, consistency of the caches: `readManifest` is all the
relation looks at.  `twinChild_of_holds` / `twinChild_storeAs` connect it to `Props/C20.lean`: the
caches `storeAs ctx ch t nm` for ANY two schema choices (old, new, mixed) — and every cache above
them — make the two artifacts `⟨nm, digestAs …⟩` twins.

**Statements** (for ANY common workspace, any index, both strategies, any targets, `--single-stage`
or not; no non-overlap hypothesis):
* `twin_checkout`: `dud checkout` succeeds in the one world iff it succeeds in the other
  (`twin_checkout` + `TwinWorlds.symm`), the resulting workspaces are EQUAL, the results are twin
  worlds again, and if the links of the common workspace resolve alike in both caches
  (`Twin.LinksAgree`; trivially true of an empty or link-free workspace) the resulting workspace
  has the same logical content (`deref`) w.r.t. both caches;
* `twin_status`: `dud status` reports the same statuses (per stage: the recorded-checksum flags and
  the full status tree of every artifact) provided no link to a cache object sits where an artifact
  expects a directory (`Twin.WsDirPos`: `quickStatus` compares such a link with the — different —
  manifest checksums; dud never creates such links);
* `twin_checkout_then_status`: from an EMPTY workspace, `dud checkout` followed by `dud status` in
  the old-schema world and in its twin: same workspace, same logical content, same statuses.

Non-vacuity: `Example.old_vs_new_world` (a `Good` context; the caches are literally
`storeAs ctx ch tree "t"` of `Props/C20.lean` for an arbitrary schema choice `ch` vs. the current
schema; the premise is discharged by `old_schema_checkout`), and `C20Twin` (a two-stage world with
explicit old-schema manifest objects and its current-schema twin: checkout then status from an empty
workspace, both strategies; status over an edited workspace; the converse direction).

Not covered: `dud commit` in twin worlds (the recommit on old manifests is `old_schema_recommit*`,
artifact level); error classes of failing commands (only "fails in both"); manifests nested deeper
than `cfg.fuel` (then `TwinChild` is false).
-/
namespace Dud

open CI Twin

variable {κ : Type}

/-- see the header -/
structure TwinWorlds (cfg : Cfg κ) (wO wN : World κ) : Prop where
  idx : TwinIdx cfg.ctx wO.store wN.store cfg.fuel wO.idx wN.idx
  ws : wN.ws = wO.ws

/-! ## the relation is symmetric -/

theorem all2_flip {α β : Type} {R : α → β → Prop} {S : β → α → Prop} (h : ∀ a b, R a b → S b a) :
    ∀ {l : List α} {m : List β}, All2 R l m → All2 S m l
  | _, _, .nil => .nil
  | _, _, .cons hab ht => .cons (h _ _ hab) (all2_flip h ht)

theorem TwinArt.symm {ctx : Ctx κ} {sO sN : Store κ} {fuel : Nat} {aO aN : Art}
    (h : TwinArt ctx sO sN fuel aO aN) : TwinArt ctx sN sO fuel aN aO :=
  ⟨h.1.symm, TwinChild.symm fuel _ _ h.2⟩

theorem TwinStage.symm {ctx : Ctx κ} {sO sN : Store κ} {fuel : Nat} {stO stN : Stage}
    (h : TwinStage ctx sO sN fuel stO stN) : TwinStage ctx sN sO fuel stN stO :=
  ⟨h.1.symm, h.2.1.symm, h.2.2.1.symm, all2_flip (fun _ _ hab => TwinArt.symm hab) h.2.2.2.1,
    all2_flip (fun _ _ hab => TwinArt.symm hab) h.2.2.2.2⟩

theorem TwinWorlds.symm {cfg : Cfg κ} {wO wN : World κ} (h : TwinWorlds cfg wO wN) :
    TwinWorlds cfg wN wO :=
  ⟨all2_flip (fun _ _ hab => ⟨hab.1.symm, TwinStage.symm hab.2⟩) h.idx, h.ws.symm⟩

/-! ## from `Props/C20.lean`: caches holding the same tree with different schemas are twins -/

mutual
/-- two caches that hold the plain tree `t` — with whatever schema choices `chO`, `chN` — make the
artifacts recorded for them twins -/
theorem twinChild_of_holds {ctx : Ctx κ} (g : Good ctx) {sO sN : Store κ} : ∀ (t : Node κ)
    (chO chN : Choice) (nm : Bytes) (fuel : Nat), t.plain = true → t.sorted = true → NamesOK ctx t →
    HoldsNode ctx sO chO nm t → HoldsNode ctx sN chN nm t → depth t ≤ fuel →
    TwinChild ctx sO sN fuel ⟨nm, digestAs ctx chO nm t, t.isDir⟩ ⟨nm, digestAs ctx chN nm t, t.isDir⟩
  | .file x, _, _, nm, fuel, _, _, _, hO, hN, hf => by
    obtain ⟨k, rfl⟩ : ∃ k, fuel = k + 1 := ⟨fuel - 1, by simp only [depth] at hf; omega⟩
    simp only [HoldsNode] at hO hN
    obtain ⟨oO, gO, bO⟩ := hO
    obtain ⟨oN, gN, bN⟩ := hN
    simp only [TwinChild, Node.isDir, digestAs, Bool.false_eq_true, if_false, true_and]
    exact .inr ⟨oO, oN, gO, gN, bO.trans bN.symm⟩
  | .dir es, chO, chN, nm, fuel, hp, hs, hn, hO, hN, hf => by
    have hp' : plainList es = true := by simpa [Node.plain] using hp
    have hs' : sortedList es = true := by simpa [Node.sorted] using hs
    have hn' : NamesOKList ctx es := namesOK_dir hn
    obtain ⟨k, rfl⟩ : ∃ k, fuel = k + 1 := ⟨fuel - 1, by simp only [depth] at hf; omega⟩
    have hk : depthList es ≤ k := by simp only [depth] at hf; omega
    obtain ⟨_, rO⟩ := readManifest_holds g hs' hn' hO
    obtain ⟨_, rN⟩ := readManifest_holds g hs' hn' hN
    simp only [HoldsNode] at hO hN
    simp only [TwinChild, Node.isDir, if_true, true_and]
    exact .inr ⟨hasSum_digestAs_dir g chO nm es, hasSum_digestAs_dir g chN nm es, _, _, rO, rN,
      twinChildren_of_holds g es chO chN k hp' hs' hn' hO.2 hN.2 hk⟩
  | .link _, _, _, _, _, hp, _, _, _, _, _ => by simp [Node.plain] at hp
  | .other, _, _, _, _, hp, _, _, _, _, _ => by simp [Node.plain] at hp
theorem twinChildren_of_holds {ctx : Ctx κ} (g : Good ctx) {sO sN : Store κ} :
    ∀ (es : List (Name × Node κ)) (chO chN : Choice) (fuel : Nat), plainList es = true →
    sortedList es = true → NamesOKList ctx es → HoldsList ctx sO chO es → HoldsList ctx sN chN es →
    depthList es ≤ fuel →
    All2 (TwinChild ctx sO sN fuel) (childrenAs ctx chO es) (childrenAs ctx chN es)
  | [], _, _, _, _, _, _, _, _, _ => by simp only [childrenAs]; exact .nil
  | (nm, n) :: r, chO, chN, fuel, hp, hs, hn, hO, hN, hf => by
    simp only [HoldsList] at hO hN
    have hdn : depth n ≤ fuel := by simp only [depthList] at hf; omega
    have hdr : depthList r ≤ fuel := by simp only [depthList] at hf; omega
    simp only [childrenAs]
    exact .cons
      (twinChild_of_holds g n _ _ nm fuel (plainList_cons hp).1 (sortedList_cons hs).1
        (namesOK_node hn) hO.1 hN.1 hdn)
      (twinChildren_of_holds g r chO chN fuel (plainList_cons hp).2 (sortedList_cons hs).2
        (namesOK_tail hn) hO.2 hN.2 hdr)
end

/-- **The caches of `Props/C20.lean` are twins**: `storeAs ctx chO t nm` and `storeAs ctx chN t nm`
(any two schema choices: old, current, mixed), and any caches above them, make the artifacts with
the checksums `(storeAs …).1` twins. -/
theorem twinChild_storeAs {ctx : Ctx κ} (g : Good ctx) (t : Node κ) (chO chN : Choice) (nm : Bytes)
    (hp : t.plain = true) (hs : t.sorted = true) (hn : NamesOK ctx t) {sO sN : Store κ}
    (hO : Store.le ctx (storeAs ctx chO t nm).2 sO) (hN : Store.le ctx (storeAs ctx chN t nm).2 sN)
    (fuel : Nat) (hf : depth t ≤ fuel) :
    TwinChild ctx sO sN fuel ⟨nm, (storeAs ctx chO t nm).1, t.isDir⟩
      ⟨nm, (storeAs ctx chN t nm).1, t.isDir⟩ :=
  twinChild_of_holds g t chO chN nm fuel hp hs hn
    (HoldsNode.mono hO t chO nm (storeAs_holds g chO t nm).2)
    (HoldsNode.mono hN t chN nm (storeAs_holds g chN t nm).2) hf

/-- the same for a top-level artifact `a` recorded with the two checksums -/
theorem twinArt_storeAs {ctx : Ctx κ} (g : Good ctx) (a : Art) (t : Node κ) (chO chN : Choice)
    (hk : t.isDir = a.isDir) (hp : t.plain = true) (hs : t.sorted = true) (hn : NamesOK ctx t)
    {sO sN : Store κ} (hO : Store.le ctx (storeAs ctx chO t a.path).2 sO)
    (hN : Store.le ctx (storeAs ctx chN t a.path).2 sN) (fuel : Nat) (hf : depth t ≤ fuel) :
    TwinArt ctx sO sN fuel { a with sum := (storeAs ctx chO t a.path).1 }
      { a with sum := (storeAs ctx chN t a.path).1 } := by
  refine ⟨rfl, ?_⟩
  have := twinChild_storeAs g t chO chN a.path hp hs hn hO hN fuel hf
  simp only [Art.child, ← hk]
  exact this

/-- the artifact-level statements of `Props/C20.lean`, as corollaries of the twin relation:
checkout over ANY workspace entry (not only an absent one) computes the same from both caches … -/
theorem old_schema_checkout_any (ctx : Ctx κ) (g : Good ctx) (t : Node κ) (ch : Choice) (nm : Bytes)
    (hp : t.plain = true) (hs : t.sorted = true) (hn : NamesOK ctx t) (strat : Strat) (fuel : Nat)
    (hf : depth t ≤ fuel) (cur : Option (Node κ)) :
    checkoutNode ctx strat (storeAs ctx ch t nm).2 fuel cur ⟨nm, (storeAs ctx ch t nm).1, t.isDir⟩ =
      checkoutNode ctx strat (storeAs ctx newChoice t nm).2 fuel cur
        ⟨nm, (storeAs ctx newChoice t nm).1, t.isDir⟩ :=
  checkoutNode_twin fuel _ _
    (twinChild_storeAs g t ch newChoice nm hp hs hn (Store.le_refl _ _) (Store.le_refl _ _) fuel hf) cur

/-- … and so does the full status, over any entry that is not (and does not contain, at a directory
position) a link to a cache object -/
theorem old_schema_status_any [DecidableEq κ] (ctx : Ctx κ) (g : Good ctx) (es : List (Name × Node κ))
    (ch : Choice) (nm : Bytes) (hp : (Node.dir es).plain = true) (hs : (Node.dir es).sorted = true)
    (hn : NamesOK ctx (.dir es)) (fuel : Nat) (hf : depth (Node.dir es) ≤ fuel) (nr : Bool)
    (cur : Option (Node κ))
    (hpos : DirPos ctx (storeAs ctx ch (.dir es) nm).2 fuel cur ⟨nm, (storeAs ctx ch (.dir es) nm).1, true⟩) :
    dirStatus ctx (storeAs ctx ch (.dir es) nm).2 fuel nm nr (storeAs ctx ch (.dir es) nm).1 cur =
      dirStatus ctx (storeAs ctx newChoice (.dir es) nm).2 fuel nm nr
        (storeAs ctx newChoice (.dir es) nm).1 cur :=
  dirStatus_twin fuel ⟨nm, (storeAs ctx ch (.dir es) nm).1, true⟩
    ⟨nm, (storeAs ctx newChoice (.dir es) nm).1, true⟩
    (twinChild_storeAs g (.dir es) ch newChoice nm hp hs hn (Store.le_refl _ _) (Store.le_refl _ _)
      fuel hf) rfl nr cur hpos

/-! ## the commands -/

/-- **C20, command level: `dud checkout` in twin worlds.**  If `dud checkout [--copy]
[--single-stage] [targets]` succeeds in the world `wO` (old-schema / mixed manifests), it succeeds
in every twin world `wN` (e.g. current-schema manifests) — and conversely, `TwinWorlds.symm` —
with the SAME resulting workspace and the same stages visited; cache and index are untouched, so the
results are twin worlds again; and when the links of the common workspace resolve alike in both
caches, the resulting workspace has the same logical content w.r.t. both caches. -/
theorem twin_checkout (cfg : Cfg κ) (strat : Strat) (single : Bool) (targets : List Bytes)
    (wO wN wO' : World κ) (ht : TwinWorlds cfg wO wN)
    (h : cmdCheckout cfg strat single targets wO = .ok wO') :
    ∃ wN', cmdCheckout cfg strat single targets wN = .ok wN' ∧ wN'.ws = wO'.ws ∧
      wN'.done = wO'.done ∧ TwinWorlds cfg wO' wN' ∧
      (LinksAgree cfg.ctx wO.store wN.store wO.ws →
        deref cfg.ctx wO'.store wO'.ws = deref cfg.ctx wN'.store wN'.ws) := by
  obtain ⟨wN', h1, h2, h3, h4, h5, h6, h7⟩ := cmdCheckout_twin ht.idx ht.ws h
  refine ⟨wN', h1, h2, h3, ⟨by rw [h4, h5, h6, h7]; exact ht.idx, h2⟩, fun hl => ?_⟩
  rw [h2, h4, h6]
  exact deref_agree _ (cmdCheckout_linksAgree ht.idx hl h)

/-- **C20, command level: `dud status` in twin worlds** reports the same statuses: the list
`stat` — per stage visited: stage path, "has a checksum", "checksum matches", and the full status
tree of every artifact — is the same, provided no link to a cache object sits where an artifact
expects a directory (`WsDirPos`; see `wsDirPos_of_checkedOut`). -/
theorem twin_status [DecidableEq κ] (cfg : Cfg κ) (targets : List Bytes) (wO wN wO' : World κ)
    (ht : TwinWorlds cfg wO wN) (hpos : WsDirPos cfg wO) (h : cmdStatus cfg targets wO = .ok wO') :
    ∃ wN', cmdStatus cfg targets wN = .ok wN' ∧ wN'.stat = wO'.stat ∧ wN'.done = wO'.done :=
  cmdStatus_twin ht.idx ht.ws hpos h

/-- `WsDirPos` holds when every artifact `dud status` looks at is a file artifact, or absent from
the workspace, or checked out (`CheckedOut`, e.g. by `cmdCheckout_checkedOut`) -/
theorem wsDirPos_of_checkedOut (cfg : Cfg κ) (strat : Strat) (w : World κ)
    (h : ∀ sp stg, alookup w.idx sp = some stg → ∀ x,
      x ∈ stg.inputs.filter (fun x => (findOwner cfg.walkAccumulates w.idx x.path).isNone) ++ stg.outputs →
      x.isDir = false ∨ getPath w.ws (Path.comps x.path) = none ∨
        (x.skip = false ∧ CheckedOut cfg strat w x)) : WsDirPos cfg w := by
  intro sp stg hl x hx
  rcases h sp stg hl x hx with hf | hnone | ⟨hsk, hco⟩
  · exact dirPos_file hf
  · rw [hnone]; exact dirPos_none
  · rcases hco with hco | ⟨m, hm, hc⟩
    · rw [hsk] at hco; cases hco
    · rw [hm]; exact dirPos_of_conf _ _ _ hc

/-- **C20, command level: checkout from an empty workspace, then status.**  In twin worlds with an
EMPTY workspace — the old-schema world `wO` and e.g. its current-schema twin `wN` — whose stages
have outputs with pairwise different paths, directory outputs that are not `skip-cache`, and whose
un-owned inputs are file artifacts: if `dud checkout` (all stages) and then `dud status` succeed in
`wO`, they succeed in `wN`, the checked-out workspaces are equal, have the same logical content
w.r.t. the two caches, and `dud status` reports the same statuses. -/
theorem twin_checkout_then_status [DecidableEq κ] (cfg : Cfg κ) (strat : Strat)
    (wO wN vO uO : World κ) (ht : TwinWorlds cfg wO wN) (hempty : wO.ws = .dir [])
    (hin : ∀ sp stg, alookup wO.idx sp = some stg → ∀ x, x ∈ stg.inputs →
      (findOwner cfg.walkAccumulates wO.idx x.path).isNone = true → x.isDir = false)
    (hout : ∀ sp stg, alookup wO.idx sp = some stg →
      stg.outputs.Pairwise (fun x y => x.path ≠ y.path) ∧
      ∀ x, x ∈ stg.outputs → x.isDir = true → x.skip = false)
    (hco : cmdCheckout cfg strat false [] wO = .ok vO) (hst : cmdStatus cfg [] vO = .ok uO) :
    ∃ vN uN, cmdCheckout cfg strat false [] wN = .ok vN ∧ vN.ws = vO.ws ∧
      deref cfg.ctx vO.store vO.ws = deref cfg.ctx vN.store vN.ws ∧
      cmdStatus cfg [] vN = .ok uN ∧ uN.stat = uO.stat := by
  obtain ⟨vN, h1, h2, _, htw, hd⟩ := twin_checkout cfg strat false [] wO wN vO ht hco
  obtain ⟨hidx, hstore, hchecked⟩ := cmdCheckout_checkedOut cfg strat false [] wO vO hco
  have hdone := cmdCheckout_targets_done cfg strat false [] wO vO hco
  have hpos : WsDirPos cfg vO := by
    refine wsDirPos_of_checkedOut cfg strat vO (fun sp stg hl x hx => ?_)
    rw [hidx] at hl
    rcases List.mem_append.1 hx with hx | hx
    · obtain ⟨hx1, hx2⟩ := List.mem_filter.1 hx
      rw [hidx] at hx2
      exact .inl (hin sp stg hl x hx1 hx2)
    · cases hd' : x.isDir with
      | false => exact .inl rfl
      | true =>
        right; right
        obtain ⟨hpw, hsk⟩ := hout sp stg hl
        have hsp : sp ∈ vO.done := hdone sp (by
          simp only [List.isEmpty_nil, if_true, allStages]
          exact List.mem_map.2 ⟨(sp, stg), alookup_mem hl, rfl⟩)
        exact ⟨hsk x hx hd', hchecked sp stg hsp hl x (mem_sortArts_of_mem hpw hx)⟩
  obtain ⟨uN, h3, h4, _⟩ := twin_status cfg [] vO vN uO htw hpos hst
  refine ⟨vN, uN, h1, h2, hd ?_, h3, h4⟩
  rw [hempty]
  simp only [LinksAgree, LinksAgreeList]

/-! ## non-vacuity -/

namespace Example
open Dud.Example

/-- **the bridge instantiated**: the all-old and the all-new cache of the example tree are twins;
so are a mixed cache and the all-new cache -/
example : TwinChild ctx (storeAs ctx oldChoice tree [116]).2 (storeAs ctx newChoice tree [116]).2 3
    ⟨[116], (storeAs ctx oldChoice tree [116]).1, true⟩
    ⟨[116], (storeAs ctx newChoice tree [116]).1, true⟩ :=
  twinChild_storeAs good tree oldChoice newChoice [116] tree_plain tree_sorted tree_names
    (Store.le_refl _ _) (Store.le_refl _ _) 3 (Nat.le_of_eq tree_depth)

/-- checkout over ANY entry computes the same from the old-schema cache as from the current one
(`old_schema_checkout_same` is the case `cur = none`) -/
example (strat : Strat) (cur : Option (Node K)) :
    checkoutNode ctx strat (storeAs ctx mixedChoice tree [116]).2 3 cur
        ⟨[116], (storeAs ctx mixedChoice tree [116]).1, true⟩ =
      checkoutNode ctx strat (storeAs ctx newChoice tree [116]).2 3 cur
        ⟨[116], (storeAs ctx newChoice tree [116]).1, true⟩ :=
  old_schema_checkout_any ctx good tree mixedChoice [116] tree_plain tree_sorted tree_names strat 3
    (Nat.le_of_eq tree_depth) cur

/-- a one-stage world whose only output is the directory `nm`, recorded with the checksum `d` -/
def oneStage (s : Store K) (nm : Bytes) (d : Digest) : World K :=
  { store := s, idx := [([1], { cmd := [1], outputs := [{ path := nm, sum := d, isDir := true }] })] }

theorem cmdCheckout_oneStage (cfg : Cfg K) (strat : Strat) (s : Store K) (nm : Bytes) (d : Digest)
    (r : Node K) (hcomps : Path.comps nm = [nm])
    (h : checkoutNode cfg.ctx strat s cfg.fuel none ⟨nm, d, true⟩ = .ok r) :
    cmdCheckout cfg strat false [] (oneStage s nm d) =
      .ok { oneStage s nm d with ws := .dir [(nm, r)], done := [[1]] } := by
  simp [cmdCheckout, oneStage, allStages, perTarget, alookup, fresh, visit, checkoutTrav, ownersOf,
      World.stage, sortArts, insertArt, visitAll, checkoutAct, checkoutArts, checkoutArtW, checkoutArt,
      hcomps, getPath, Art.child, h, setPath, setEntry]

/-- the world whose cache is exactly what an old (or mixed, or current) dud wrote for the example
tree: `storeAs ctx ch tree "t"`, and the stage records the checksum `(storeAs …).1` -/
def wAs (ch : Choice) : World K :=
  oneStage (storeAs ctx ch tree [116]).2 [116] (storeAs ctx ch tree [116]).1

/-- such worlds are twins, whatever the two schema choices (via `twinArt_storeAs`, i.e. via
`storeAs_holds` of `Props/C20.lean`; the context is `Good`) -/
theorem wAs_twins (chO chN : Choice) : TwinWorlds Example2.cfg (wAs chO) (wAs chN) where
  ws := rfl
  idx := .cons ⟨rfl, rfl, rfl, rfl, .nil,
    .cons (twinArt_storeAs good { path := [116], isDir := true } tree chO chN rfl tree_plain
      tree_sorted tree_names (Store.le_refl _ _) (Store.le_refl _ _) 8
      (by rw [tree_depth]; decide)) .nil⟩ .nil

/-- **`twin_checkout` instantiated with a `Good` context and the caches of `Props/C20.lean`**:
`dud checkout` (either strategy) in the world with old-schema (or mixed) manifests succeeds — by
`old_schema_checkout` — and so it does in the world with current-schema manifests, with the same
workspace, whose logical content is, w.r.t. both caches, the example tree. -/
theorem old_vs_new_world (ch : Choice) (strat : Strat) :
    ∃ vO vN, cmdCheckout Example2.cfg strat false [] (wAs ch) = .ok vO ∧
      cmdCheckout Example2.cfg strat false [] (wAs newChoice) = .ok vN ∧ vN.ws = vO.ws ∧
      deref ctx vO.store vO.ws = .dir [([116], tree)] ∧
      deref ctx vN.store vN.ws = .dir [([116], tree)] := by
  obtain ⟨r, hr, hd, _⟩ := old_schema_checkout ctx good ch tree [116] tree_plain tree_sorted tree_names
    _ (Store.le_refl _ _) strat 8 (by rw [tree_depth]; decide)
  have hco := cmdCheckout_oneStage Example2.cfg strat _ [116] _ r rfl hr
  obtain ⟨vN, h1, h2, _, _, h5⟩ := twin_checkout Example2.cfg strat false [] (wAs ch) (wAs newChoice) _
    (wAs_twins ch newChoice) hco
  have hdO : deref ctx (storeAs ctx ch tree [116]).2 (.dir [([116], r)]) = .dir [([116], tree)] := by
    simp only [deref, derefList, hd]
  refine ⟨_, vN, hco, h1, h2, hdO, ?_⟩
  have h5' := h5 (by simp only [wAs, oneStage, LinksAgree, LinksAgreeList])
  exact h5'.symm.trans hdO

/-- the two worlds really differ: the recorded checksums are not the same -/
example : (wAs oldChoice).idx ≠ (wAs newChoice).idx := by
  intro h
  have h' : (storeAs ctx oldChoice tree [116]).1 = (storeAs ctx newChoice tree [116]).1 := by
    simp only [wAs, oneStage, List.cons.injEq, Prod.mk.injEq, Stage.mk.injEq, Art.mk.injEq, and_true,
      true_and] at h
    exact h
  simp only [storeAs, tree, digestAs, Obj.digest, Obj.bytes] at h'
  have := good.inj _ _ h'
  simp [ctx, oldChoice, newChoice] at this

end Example

/-! ### a concrete two-stage world with an old-schema cache, and its current-schema twin -/

namespace C20Twin

/-- a toy context (the world-level statements need no `Good`): `H c = "h-" ++ c` -/
def ctx : Ctx String :=
  { H := fun c => "h-" ++ c, encMan := fun _ _ _ => "", decBlob := fun _ => none,
    reload := fun _ c => c, nameOK := fun _ => true }

def cfg : Cfg String :=
  { ctx := ctx, ofBytes := fun _ => "", toBytes := fun _ => [], walkAccumulates := true, fuel := 5 }

def blobs : Store String := [("h-x", .blob "x"), ("h-z", .blob "z"), ("h-o", .blob "o")]

/-- the directory `a/` = { x, y/ = { z } } with OLD-schema manifests … -/
def sOld : Store String :=
  ("oldA", .man .old [97] [⟨[120], "h-x", false⟩, ⟨[121], "oldY", true⟩]) ::
  ("oldY", .man .old [121] [⟨[122], "h-z", false⟩]) :: blobs

/-- … and with current-schema manifests, under other digests -/
def sNew : Store String :=
  ("newA", .man .new [97] [⟨[120], "h-x", false⟩, ⟨[121], "newY", true⟩]) ::
  ("newY", .man .new [121] [⟨[122], "h-z", false⟩]) :: blobs

/-- stage 1 owns `a/`; stage 2 reads `a/` and the un-owned file `i`, and owns `b` -/
def idxWith (dA : Digest) : Index :=
  [([1], { cmd := [1], outputs := [{ path := [97], sum := dA, isDir := true }] }),
   ([2], { cmd := [2], inputs := [{ path := [97], sum := dA, isDir := true },
                                  { path := [105], sum := "h-i", skip := true }],
           outputs := [{ path := [98], sum := "h-o" }] })]

def wOld : World String := { store := sOld, idx := idxWith "oldA" }
def wNew : World String := { store := sNew, idx := idxWith "newA" }

theorem twinA : TwinChild ctx sOld sNew 5 ⟨[97], "oldA", true⟩ ⟨[97], "newA", true⟩ :=
  .dir rfl rfl (csO := [⟨[120], "h-x", false⟩, ⟨[121], "oldY", true⟩])
    (csN := [⟨[120], "h-x", false⟩, ⟨[121], "newY", true⟩]) rfl rfl
    (.cons (.file (.inr ⟨_, _, rfl, rfl, rfl⟩))
      (.cons (.dir rfl rfl (csO := [⟨[122], "h-z", false⟩]) (csN := [⟨[122], "h-z", false⟩]) rfl rfl
        (.cons (.file (.inr ⟨_, _, rfl, rfl, rfl⟩)) .nil)) .nil))

/-- the two worlds are twins (the old-schema checksums `oldA`, `oldY` differ from `newA`, `newY`) -/
theorem twins : TwinWorlds cfg wOld wNew where
  ws := rfl
  idx :=
    .cons ⟨rfl, rfl, rfl, rfl, .nil, .cons ⟨rfl, twinA⟩ .nil⟩
      (.cons ⟨rfl, rfl, rfl, rfl,
          .cons ⟨rfl, twinA⟩ (.cons ⟨rfl, .file (.inl ⟨rfl, rfl⟩)⟩ .nil),
          .cons ⟨rfl, .file (.inr ⟨_, _, rfl, rfl, rfl⟩)⟩ .nil⟩ .nil)

/-- `dud checkout [--copy]` and then `dud status` in the old-schema world, computed by the model -/
def vOld (strat : Strat) : World String :=
  match cmdCheckout cfg strat false [] wOld with
  | .ok x => x
  | .error _ => default

def uOld (strat : Strat) : World String :=
  match cmdStatus cfg [] (vOld strat) with
  | .ok x => x
  | .error _ => default

theorem checkout_old_ok (strat : Strat) : cmdCheckout cfg strat false [] wOld = .ok (vOld strat) := by
  cases strat <;> rfl

theorem status_old_ok (strat : Strat) : cmdStatus cfg [] (vOld strat) = .ok (uOld strat) := by
  cases strat <;> rfl

theorem idx_cases {sp : Bytes} {stg : Stage} (h : alookup wOld.idx sp = some stg) :
    stg.outputs = [{ path := [97], sum := "oldA", isDir := true }] ∧ stg.inputs = [] ∨
    stg.outputs = [{ path := [98], sum := "h-o" }] ∧
      stg.inputs = [{ path := [97], sum := "oldA", isDir := true },
                    { path := [105], sum := "h-i", skip := true }] := by
  simp only [wOld, idxWith, alookup] at h
  split at h
  · cases h; exact .inl ⟨rfl, rfl⟩
  · split at h
    · cases h; exact .inr ⟨rfl, rfl⟩
    · cases h

/-- **`twin_checkout_then_status` instantiated** (both strategies): `dud checkout` then `dud status`
in the current-schema twin succeed, with the same workspace, the same logical content and the same
statuses as in the old-schema world. -/
theorem old_vs_new (strat : Strat) :
    ∃ vN uN, cmdCheckout cfg strat false [] wNew = .ok vN ∧ vN.ws = (vOld strat).ws ∧
      deref ctx sOld (vOld strat).ws = deref ctx sNew vN.ws ∧
      cmdStatus cfg [] vN = .ok uN ∧ uN.stat = (uOld strat).stat := by
  obtain ⟨vN, uN, h1, h2, h3, h4, h5⟩ := twin_checkout_then_status cfg strat wOld wNew (vOld strat)
    (uOld strat) twins rfl
    (by
      intro sp stg hl x hx hn
      rcases idx_cases hl with ⟨_, hi⟩ | ⟨_, hi⟩
      · rw [hi] at hx; cases hx
      · rw [hi] at hx
        simp only [List.mem_cons, List.not_mem_nil, or_false] at hx
        rcases hx with rfl | rfl
        · have : (findOwner cfg.walkAccumulates wOld.idx [97]).isNone = false := rfl
          rw [this] at hn; cases hn
        · rfl)
    (by
      intro sp stg hl
      rcases idx_cases hl with ⟨ho, _⟩ | ⟨ho, _⟩ <;> rw [ho]
      · exact ⟨List.pairwise_singleton _ _, fun x hx _ => by
          simp only [List.mem_singleton] at hx; subst hx; rfl⟩
      · exact ⟨List.pairwise_singleton _ _, fun x hx hd => by
          simp only [List.mem_singleton] at hx; subst hx; cases hd⟩)
    (checkout_old_ok strat) (status_old_ok strat)
  have e1 : (vOld strat).store = sOld := by cases strat <;> rfl
  have e2 : vN.store = sNew := by
    obtain ⟨_, hs, _⟩ := cmdCheckout_checkedOut cfg strat false [] wNew vN h1
    exact hs
  rw [e1, e2] at h3
  exact ⟨vN, uN, h1, h2, h3, h4, h5⟩

/-- what was compared is not trivial: the link checkout built `a/x`, `a/y/z`, `b`, and the status
of stage 1 reports the directory `a` with two tracked children, contents matching -/
example : getPath (vOld .link).ws [[97], [121], [122]] = some (.link (.obj "h-z")) ∧
    getPath (vOld .link).ws [[98]] = some (.link (.obj "h-o")) := ⟨rfl, rfl⟩

example : (uOld .link).stat.map (fun e => (e.1, e.2.2.2.map (fun st => (st.name, st.cm, st.children.length)))) =
    [([1], [([97], true, 2)]), ([2], [([98], true, 0), ([105], false, 0)])] := by decide

/-- the converse direction (`TwinWorlds.symm`): from the current-schema world to the old one -/
example (strat : Strat) (vN : World String) (h : cmdCheckout cfg strat false [] wNew = .ok vN) :
    ∃ vO, cmdCheckout cfg strat false [] wOld = .ok vO ∧ vO.ws = vN.ws := by
  obtain ⟨vO, h1, h2, _⟩ := twin_checkout cfg strat false [] wNew wOld vN twins.symm h
  exact ⟨vO, h1, h2⟩

/-- **`twin_status` instantiated on a MODIFIED workspace**: `a/x` edited, `a/y` replaced by a file,
an untracked file added, `b` missing — `dud status` in the two worlds reports the same -/
def wsEdited : Node String :=
  .dir [([97], .dir [([120], .file "edited"), ([121], .file "not a dir"), ([117], .file "new")])]

example : ∃ uO uN, cmdStatus cfg [] { wOld with ws := wsEdited } = .ok uO ∧
    cmdStatus cfg [] { wNew with ws := wsEdited } = .ok uN ∧ uN.stat = uO.stat := by
  have hO : cmdStatus cfg [] { wOld with ws := wsEdited } = .ok
      (match cmdStatus cfg [] { wOld with ws := wsEdited } with | .ok x => x | .error _ => default) := rfl
  obtain ⟨uN, h1, h2, _⟩ := twin_status cfg [] { wOld with ws := wsEdited } { wNew with ws := wsEdited } _
    ⟨twins.idx, rfl⟩ (by
      intro sp stg hl x hx
      have hl' : alookup wOld.idx sp = some stg := hl
      rcases idx_cases hl' with ⟨ho, hi⟩ | ⟨ho, hi⟩
      · rw [ho, hi] at hx
        simp only [List.filter_nil, List.nil_append, List.mem_singleton] at hx
        subst hx
        -- the directory `a`: a real directory, whose entry `y` (a directory in the manifest) is a
        -- regular file, not a link
        show DirPos ctx sOld (4+1) (some (.dir _)) ⟨[97], "oldA", true⟩
        rw [DirPos]
        intro _
        refine ⟨?_, ?_⟩
        · intro d hd; cases hd
        intro es cs he hcs k hk
        have hcs' : cs = [⟨[120], "h-x", false⟩, ⟨[121], "oldY", true⟩] := by
          have : readManifest ctx sOld "oldA" = .ok [⟨[120], "h-x", false⟩, ⟨[121], "oldY", true⟩] := rfl
          rw [this] at hcs
          cases hcs; rfl
        subst hcs'
        simp only [Option.some.injEq, Node.dir.injEq] at he
        subst he
        simp only [List.mem_cons, List.not_mem_nil, or_false] at hk
        rcases hk with rfl | rfl
        · exact dirPos_file rfl
        · show DirPos ctx sOld (3+1) (some (.file "not a dir")) ⟨[121], "oldY", true⟩
          rw [DirPos]
          intro _
          refine ⟨?_, ?_⟩
          · intro d hd; cases hd
          · intro es cs he; cases he
      · have hx' : x.isDir = false ∨ getPath wsEdited (Path.comps x.path) = none := by
          rw [ho, hi] at hx
          rcases List.mem_append.1 hx with hx | hx
          · obtain ⟨hx1, hx2⟩ := List.mem_filter.1 hx
            simp only [List.mem_cons, List.not_mem_nil, or_false] at hx1
            rcases hx1 with rfl | rfl
            · have : (findOwner cfg.walkAccumulates wOld.idx [97]).isNone = false := rfl
              have hx2' : (findOwner cfg.walkAccumulates wOld.idx [97]).isNone = true := hx2
              rw [this] at hx2'; cases hx2'
            · exact .inl rfl
          · simp only [List.mem_singleton] at hx
            subst hx
            exact .inl rfl
        rcases hx' with hf | hn
        · exact dirPos_file hf
        · show DirPos ctx sOld 5 (getPath wsEdited (Path.comps x.path)) x.child
          rw [hn]; exact dirPos_none) hO
  exact ⟨_, uN, hO, h1, h2⟩

end C20Twin

end Dud

#print axioms Dud.TwinWorlds.symm
#print axioms Dud.twinChild_of_holds
#print axioms Dud.twinChild_storeAs
#print axioms Dud.old_schema_checkout_any
#print axioms Dud.old_schema_status_any
#print axioms Dud.twin_checkout
#print axioms Dud.twin_status
#print axioms Dud.wsDirPos_of_checkedOut
#print axioms Dud.twin_checkout_then_status
#print axioms Dud.C20Twin.twins
#print axioms Dud.C20Twin.old_vs_new
#print axioms Dud.twinArt_storeAs
#print axioms Dud.Example.old_vs_new_world
