import DudModel.Lemmas.Trav
import DudModel.Lemmas.Run
import DudModel.Lemmas.Shape
/-!
# C08 — the index traversal acts on each stage once, owners first, and refuses cycles

Generic theorems about `visit` (first for `Trav.LawfulOn`, i.e. laws that hold on the states
satisfying an invariant the action preserves, then for `Trav.Lawful` = `LawfulOn (fun _ => True)`),
followed by the instances for checkout / push / fetch / status and a non-vacuity example.
-/
namespace Dud

variable {σ : Type}

/-! ## erasing the log -/

/-- erasing the ghost log gives back the original traversal -/
theorem visit_logged_erase (T : Trav σ) (r : Bool) (fuel : Nat) (avail : List Bytes) (sp : Bytes) (st : σ) (l : List Bytes) :
    (visit T.logged r fuel avail sp (st, l)).map (·.1) = visit T r fuel avail sp st :=
  visit_erase T r fuel avail sp st l

/-! ## laws relative to an invariant -/

/-- Everything at once, from an arbitrary start state (`perTarget` shares the memo between targets,
so later targets do start with stages already done): the traversal appends a list `d` to the log. -/
theorem visit_from (T : Trav σ) (own) (Inv : σ → Prop) (hT : T.LawfulOn own Inv) (r : Bool) (fuel : Nat)
    (avail : List Bytes) (sp : Bytes) (st st' : σ) (l l' : List Bytes) (hi : Inv st)
    (h : visit T.logged r fuel avail sp (st, l) = .ok (st', l')) :
    ∃ d, l' = l ++ d ∧ Inv st' ∧ d.Nodup ∧
      (∀ x, x ∈ d → x ∈ avail ∧ T.isDone st x = false ∧ Reach own sp x) ∧
      (∀ x, T.isDone st' x = (T.isDone st x || d.contains x)) ∧
      T.isDone st' sp = true ∧
      (r = true → ∀ x, x ∈ d → ∀ o, o ∈ own x → T.isDone st o = true ∨ Before d o x) := by
  obtain ⟨⟨d, h1, h2, h3, h4, h5, h6⟩, hd⟩ := visit_trace hT fuel avail sp (st, l) (st', l') hi h
  exact ⟨d, h1, h2, h3, h4, h5, hd, h6⟩

/-- The same from a state in which nothing is done: the log is duplicate-free, consists of available
stages upstream of the target, contains the target, is exactly the set of stages done afterwards, and
(recursive traversal) lists owners before their dependants. -/
theorem visit_spec_on (T : Trav σ) (own) (Inv : σ → Prop) (hT : T.LawfulOn own Inv) (r : Bool) (fuel : Nat)
    (avail : List Bytes) (sp : Bytes) (st st' : σ) (l' : List Bytes) (hi : Inv st)
    (h0 : ∀ x, T.isDone st x = false)
    (h : visit T.logged r fuel avail sp (st, []) = .ok (st', l')) :
    Inv st' ∧ l'.Nodup ∧ (∀ x, x ∈ l' → x ∈ avail ∧ Reach own sp x) ∧ sp ∈ l' ∧
      (∀ x, T.isDone st' x = l'.contains x) ∧
      (r = true → ∀ x, x ∈ l' → ∀ o, o ∈ own x → Before l' o x) := by
  obtain ⟨d, h1, h2, h3, h4, h5, hd, h6⟩ := visit_from T own Inv hT r fuel avail sp st st' [] l' hi h
  rw [List.nil_append] at h1
  subst h1
  have h5' : ∀ x, T.isDone st' x = l'.contains x := by intro x; rw [h5, h0, Bool.false_or]
  refine ⟨h2, h3, fun x hx => ⟨(h4 x hx).1, (h4 x hx).2.2⟩, ?_, h5', ?_⟩
  · rw [h5'] at hd; simpa using hd
  · intro hr x hx o ho
    rcases h6 hr x hx o ho with h | h
    · rw [h0] at h; cases h
    · exact h

theorem visit_once_on (T : Trav σ) (own) (Inv : σ → Prop) (hT : T.LawfulOn own Inv) (r : Bool) (fuel : Nat)
    (avail : List Bytes) (sp : Bytes) (st st' : σ) (l' : List Bytes) (hi : Inv st)
    (h0 : ∀ x, T.isDone st x = false)
    (h : visit T.logged r fuel avail sp (st, []) = .ok (st', l')) : l'.Nodup :=
  (visit_spec_on T own Inv hT r fuel avail sp st st' l' hi h0 h).2.1

theorem visit_topological_on (T : Trav σ) (own) (Inv : σ → Prop) (hT : T.LawfulOn own Inv) (fuel : Nat)
    (avail : List Bytes) (sp : Bytes) (st st' : σ) (l' : List Bytes) (hi : Inv st)
    (h0 : ∀ x, T.isDone st x = false)
    (h : visit T.logged true fuel avail sp (st, []) = .ok (st', l')) :
    ∀ x, x ∈ l' → ∀ o, o ∈ own x → Before l' o x :=
  (visit_spec_on T own Inv hT true fuel avail sp st st' l' hi h0 h).2.2.2.2.2 rfl

/-- without recursion the traversal is one action -/
theorem visit_single (T : Trav σ) (fuel : Nat) (avail : List Bytes) (sp : Bytes) (st st' : σ)
    (l l' : List Bytes) (h0 : T.isDone st sp = false)
    (h : visit T.logged false fuel avail sp (st, l) = .ok (st', l')) : l' = l ++ [sp] := by
  cases fuel with
  | zero => simp [visit] at h
  | succ fuel =>
    simp only [visit] at h
    have hd : T.logged.isDone (st, l) sp = T.isDone st sp := rfl
    have ho : T.logged.owners (st, l) sp = T.owners st sp := rfl
    rw [hd, ho, h0] at h
    simp only [Bool.false_eq_true, if_false] at h
    split at h
    · cases h
    cases hos : T.owners st sp with
    | error e => rw [hos] at h; cases h
    | ok os =>
      rw [hos] at h
      simp only [Trav.logged] at h
      cases hact : T.act sp st with
      | error e => rw [hact] at h; cases h
      | ok s => rw [hact] at h; cases h; rfl

theorem visit_scope_on (T : Trav σ) (own) (Inv : σ → Prop) (hT : T.LawfulOn own Inv) (r : Bool) (fuel : Nat)
    (avail : List Bytes) (sp : Bytes) (st st' : σ) (l' : List Bytes) (hi : Inv st)
    (h0 : ∀ x, T.isDone st x = false)
    (h : visit T.logged r fuel avail sp (st, []) = .ok (st', l')) :
    (∀ x, x ∈ l' → Reach own sp x) ∧ (r = false → l' = [sp]) ∧ sp ∈ l' := by
  have hs := visit_spec_on T own Inv hT r fuel avail sp st st' l' hi h0 h
  refine ⟨fun x hx => (hs.2.2.1 x hx).2, ?_, hs.2.2.2.1⟩
  intro hr
  subst hr
  exact visit_single T fuel avail sp st st' [] l' (h0 sp) h

/-- no `h0` needed: the guard is irrelevant from any state satisfying the invariant -/
theorem visit_guard_irrelevant_on (T : Trav σ) (own) (Inv : σ → Prop) (hT : T.LawfulOn own Inv) (fuel : Nat)
    (avail : List Bytes) (sp : Bytes) (st : σ) (hi : Inv st) :
    visit (T.guarded (ownersDone T own)) true fuel avail sp st = visit T true fuel avail sp st :=
  visit_guarded_eq hT fuel avail sp st hi

/-- the same equation for the logged traversals: also the logs agree, and also when the result is an
error. So the action is only ever invoked in states where all owners of the stage are done. -/
theorem visit_guard_irrelevant_logged_on (T : Trav σ) (own) (Inv : σ → Prop) (hT : T.LawfulOn own Inv)
    (fuel : Nat) (avail : List Bytes) (sp : Bytes) (st : σ) (l : List Bytes) (hi : Inv st) :
    visit (T.logged.guarded (ownersDone T.logged own)) true fuel avail sp (st, l) =
      visit T.logged true fuel avail sp (st, l) :=
  visit_guarded_eq hT.logged fuel avail sp (st, l) hi

/-- no stage on a cycle is ever acted on by a successful recursive traversal -/
theorem cycle_no_act_on (T : Trav σ) (own) (Inv : σ → Prop) (hT : T.LawfulOn own Inv) (fuel : Nat)
    (avail : List Bytes) (sp : Bytes) (st st' : σ) (l' : List Bytes) (hi : Inv st)
    (h0 : ∀ x, T.isDone st x = false)
    (h : visit T.logged true fuel avail sp (st, []) = .ok (st', l')) :
    ∀ x, (∃ y, y ∈ own x ∧ Reach own y x) → x ∉ l' := by
  have hs := visit_spec_on T own Inv hT true fuel avail sp st st' l' hi h0 h
  intro x ⟨y, hxy, hyx⟩ hx
  exact no_cycle_in_log hs.2.1 (hs.2.2.2.2.2 rfl) hx hxy hyx

theorem cycle_refused_on (T : Trav σ) (own) (Inv : σ → Prop) (hT : T.LawfulOn own Inv) (fuel : Nat)
    (avail : List Bytes) (sp : Bytes) (st : σ) (hi : Inv st)
    (h0 : ∀ x, T.isDone st x = false) (x y : Bytes) (hx : Reach own sp x) (hxy : y ∈ own x)
    (hyx : Reach own y x) :
    ∃ e, visit T true fuel avail sp st = .error e := by
  cases hv : visit T true fuel avail sp st with
  | error e => exact ⟨e, rfl⟩
  | ok st' =>
    exfalso
    obtain ⟨l', hl⟩ := visit_ok_logged hv []
    have hs := visit_spec_on T own Inv hT true fuel avail sp st st' l' hi h0 hl
    have hxl := reach_mem_log hs.2.1 (hs.2.2.2.2.2 rfl) hx hs.2.2.2.1
    exact cycle_no_act_on T own Inv hT fuel avail sp st st' l' hi h0 hl x ⟨y, hxy, hyx⟩ hxl

/-! ## the theorems for `Trav.Lawful` -/

/-- each stage is acted on at most once -/
theorem visit_once (T : Trav σ) (own) (hT : T.Lawful own) (r : Bool) (fuel : Nat) (avail : List Bytes) (sp : Bytes)
    (st st' : σ) (l' : List Bytes) (h0 : ∀ x, T.isDone st x = false)
    (h : visit T.logged r fuel avail sp (st, []) = .ok (st', l')) : l'.Nodup :=
  visit_once_on T own _ hT.lawfulOn r fuel avail sp st st' l' trivial h0 h

/-- a stage is acted on only after every stage owning one of its inputs (recursive traversal) -/
theorem visit_topological (T : Trav σ) (own) (hT : T.Lawful own) (fuel : Nat) (avail : List Bytes) (sp : Bytes)
    (st st' : σ) (l' : List Bytes) (h0 : ∀ x, T.isDone st x = false)
    (h : visit T.logged true fuel avail sp (st, []) = .ok (st', l')) :
    ∀ x, x ∈ l' → ∀ o, o ∈ own x → Before l' o x :=
  visit_topological_on T own _ hT.lawfulOn fuel avail sp st st' l' trivial h0 h

/-- only the requested stage and stages upstream of it are acted on; with `--single-stage` only the requested one -/
theorem visit_scope (T : Trav σ) (own) (hT : T.Lawful own) (r : Bool) (fuel : Nat) (avail : List Bytes) (sp : Bytes)
    (st st' : σ) (l' : List Bytes) (h0 : ∀ x, T.isDone st x = false)
    (h : visit T.logged r fuel avail sp (st, []) = .ok (st', l')) :
    (∀ x, x ∈ l' → Reach own sp x) ∧ (r = false → l' = [sp]) ∧ sp ∈ l' :=
  visit_scope_on T own _ hT.lawfulOn r fuel avail sp st st' l' trivial h0 h

/-- the precondition "all owners finished" never fails in a recursive traversal: the guard is irrelevant
(the hypothesis `h0` of the original statement is not needed) -/
theorem visit_guard_irrelevant (T : Trav σ) (own) (hT : T.Lawful own) (fuel : Nat) (avail : List Bytes) (sp : Bytes) (st : σ) :
    visit (T.guarded (ownersDone T own)) true fuel avail sp st = visit T true fuel avail sp st :=
  visit_guard_irrelevant_on T own _ hT.lawfulOn fuel avail sp st trivial

/-- the guard is irrelevant for the log as well, whatever the outcome -/
theorem visit_guard_irrelevant_logged (T : Trav σ) (own) (hT : T.Lawful own) (fuel : Nat) (avail : List Bytes)
    (sp : Bytes) (st : σ) (l : List Bytes) :
    visit (T.logged.guarded (ownersDone T.logged own)) true fuel avail sp (st, l) =
      visit T.logged true fuel avail sp (st, l) :=
  visit_guard_irrelevant_logged_on T own _ hT.lawfulOn fuel avail sp st l trivial

/-- a cycle upstream of the target makes the traversal fail -/
theorem cycle_refused (T : Trav σ) (own) (hT : T.Lawful own) (fuel : Nat) (avail : List Bytes) (sp : Bytes) (st : σ)
    (h0 : ∀ x, T.isDone st x = false) (x y : Bytes) (hx : Reach own sp x) (hxy : y ∈ own x) (hyx : Reach own y x) :
    ∃ e, visit T true fuel avail sp st = .error e :=
  cycle_refused_on T own _ hT.lawfulOn fuel avail sp st trivial h0 x y hx hxy hyx

/-- no stage on a cycle is ever acted on -/
theorem cycle_no_act (T : Trav σ) (own) (hT : T.Lawful own) (fuel : Nat) (avail : List Bytes) (sp : Bytes)
    (st st' : σ) (l' : List Bytes) (h0 : ∀ x, T.isDone st x = false)
    (h : visit T.logged true fuel avail sp (st, []) = .ok (st', l')) :
    ∀ x, (∃ y, y ∈ own x ∧ Reach own y x) → x ∉ l' :=
  cycle_no_act_on T own _ hT.lawfulOn fuel avail sp st st' l' trivial h0 h

/-- the fuel never decides the outcome once it exceeds the number of available stages (all uses pass
`idx.length + 1` and `allStages`): the `.error .cycle` of the fuel-0 case is unreachable -/
theorem visit_fuel_adequate (T : Trav σ) (r : Bool) (fuel fuel' : Nat) (avail : List Bytes) (sp : Bytes)
    (st : σ) (h : avail.length < fuel) (h' : avail.length < fuel') :
    visit T r fuel avail sp st = visit T r fuel' avail sp st :=
  visit_fuel_irrelevant T r fuel fuel' avail sp st h h'

/-! ## the concrete traversals -/

section Concrete
variable {κ : Type}

-- `ownIdx` (the owner function of a fixed index) and `ownersOf_eq` live in `Lemmas/Shape.lean`

/-- any traversal whose memo is `World.done`, whose owners come from the index and whose action keeps
the index and pushes the stage on `done` is lawful on the worlds with that index -/
theorem lawfulOn_of_act (cfg : Cfg κ) (idx : Index) (act : Bytes → World κ → Except Err (World κ))
    (hact : ∀ sp w w', act sp w = .ok w' → w'.idx = w.idx ∧ w'.done = sp :: w.done) :
    Trav.LawfulOn { isDone := fun w sp => w.done.contains sp, owners := ownersOf cfg, act := act }
      (ownIdx cfg idx) (fun w => w.idx = idx) where
  owners_eq := by
    intro w sp os hi h x
    subst hi
    rw [ownersOf_eq cfg w sp os h]
  act_done := by
    intro sp w w' _ h x
    simp only
    rw [(hact sp w w' h).2, List.contains_cons]
  act_inv := by
    intro sp w w' hi h
    rw [(hact sp w w' h).1]; exact hi

theorem checkoutArtW_frame (cfg : Cfg κ) (strat : Strat) (a : Art) (w w' : World κ)
    (h : checkoutArtW cfg strat a w = .ok w') : w'.idx = w.idx ∧ w'.done = w.done := by
  simp only [checkoutArtW] at h
  split at h
  · cases h
  · cases h; exact ⟨rfl, rfl⟩
  · split at h
    · cases h; exact ⟨rfl, rfl⟩
    · split at h
      · cases h
      · cases h; exact ⟨rfl, rfl⟩

theorem checkoutArts_frame (cfg : Cfg κ) (strat : Strat) : ∀ (as : List Art) (w w' : World κ),
    checkoutArts cfg strat as w = .ok w' → w'.idx = w.idx ∧ w'.done = w.done
  | [], w, w', h => by simp only [checkoutArts] at h; cases h; exact ⟨rfl, rfl⟩
  | a :: as, w, w', h => by
    simp only [checkoutArts] at h
    cases h1 : checkoutArtW cfg strat a w with
    | error e => rw [h1] at h; cases h
    | ok w1 =>
      rw [h1] at h
      have f1 := checkoutArtW_frame cfg strat a w w1 h1
      have f2 := checkoutArts_frame cfg strat as w1 w' h
      exact ⟨f2.1.trans f1.1, f2.2.trans f1.2⟩

theorem checkoutAct_frame (cfg : Cfg κ) (strat : Strat) (sp : Bytes) (w w' : World κ)
    (h : checkoutAct cfg strat sp w = .ok w') : w'.idx = w.idx ∧ w'.done = sp :: w.done := by
  simp only [checkoutAct] at h
  split at h
  · cases h
  · split at h
    · cases h
    · rename_i w1 h1
      cases h
      have f := checkoutArts_frame cfg strat _ w w1 h1
      exact ⟨f.1, by simp only [f.2]⟩

theorem pushAct_frame (cfg : Cfg κ) (sp : Bytes) (w w' : World κ)
    (h : pushAct cfg sp w = .ok w') : w'.idx = w.idx ∧ w'.done = sp :: w.done := by
  simp only [pushAct] at h
  repeat' split at h
  all_goals first | (cases h; done) | (cases h; exact ⟨rfl, rfl⟩)

theorem fetchAct_frame (cfg : Cfg κ) (sp : Bytes) (w w' : World κ)
    (h : fetchAct cfg sp w = .ok w') : w'.idx = w.idx ∧ w'.done = sp :: w.done := by
  simp only [fetchAct] at h
  repeat' split at h
  all_goals first | (cases h; done) | (cases h; exact ⟨rfl, rfl⟩)

theorem statusAct_frame [DecidableEq κ] (cfg : Cfg κ) (sp : Bytes) (w w' : World κ)
    (h : statusAct cfg sp w = .ok w') : w'.idx = w.idx ∧ w'.done = sp :: w.done := by
  simp only [statusAct] at h
  repeat' split at h
  all_goals first | (cases h; done) | (cases h; exact ⟨rfl, rfl⟩)

theorem checkoutTrav_lawfulOn (cfg : Cfg κ) (strat : Strat) (idx : Index) :
    (checkoutTrav cfg strat).LawfulOn (ownIdx cfg idx) (fun w => w.idx = idx) :=
  lawfulOn_of_act cfg idx _ (checkoutAct_frame cfg strat)

theorem pushTrav_lawfulOn (cfg : Cfg κ) (idx : Index) :
    (simpleTrav cfg (pushAct cfg)).LawfulOn (ownIdx cfg idx) (fun w => w.idx = idx) :=
  lawfulOn_of_act cfg idx _ (pushAct_frame cfg)

theorem fetchTrav_lawfulOn (cfg : Cfg κ) (idx : Index) :
    (simpleTrav cfg (fetchAct cfg)).LawfulOn (ownIdx cfg idx) (fun w => w.idx = idx) :=
  lawfulOn_of_act cfg idx _ (fetchAct_frame cfg)

theorem statusTrav_lawfulOn [DecidableEq κ] (cfg : Cfg κ) (idx : Index) :
    (statusTrav cfg).LawfulOn (ownIdx cfg idx) (fun w => w.idx = idx) :=
  lawfulOn_of_act cfg idx _ (statusAct_frame cfg)

/-- `dud run`: lawful as soon as the stage command leaves index, memo, log and cache alone -/
theorem runTrav_lawfulOn [DecidableEq κ] (cfg : Cfg κ) (exec : Exec κ) (hex : ExecFrame exec)
    (recursive : Bool) (idx : Index) :
    (runTrav cfg exec recursive).LawfulOn (ownIdx cfg idx) (fun w => w.idx = idx) where
  owners_eq := by
    intro w sp os hi h x
    subst hi
    rw [ownersOf_eq cfg w sp os h]
  act_done := by
    intro sp w w' _ h x
    obtain ⟨_, _, b, hr⟩ := runAct_frame cfg exec hex recursive sp w w' h
    simp only [runTrav]
    rw [hr, isSome_alookup_cons]
  act_inv := by
    intro sp w w' hi h
    rw [(runAct_frame cfg exec hex recursive sp w w' h).1]; exact hi

/-- `dud commit` rewrites the index (checksums, `skip`, order of artifacts) but keeps its shape, on
which alone the owners depend. Needs distinct stage paths in the index (Go: a map), because
`setStage` rewrites every entry with that path. -/
theorem commitTrav_lawfulOn (cfg : Cfg κ) (strat : Strat) (idx0 : Index) (hk : (idx0.map (·.1)).Nodup) :
    (commitTrav cfg strat).LawfulOn (ownIdx cfg idx0) (fun w => SameShape w.idx idx0) where
  owners_eq := by
    intro w sp os hi h x
    rw [ownersOf_eq cfg w sp os h]
    exact ownIdx_sim cfg hi sp x
  act_done := by
    intro sp w w' hi h x
    have hn : (w.idx.map (·.1)).Nodup := by rw [hi.keys]; exact hk
    simp only [commitTrav]
    rw [(commitAct_frame cfg strat sp w w' hn h).2, List.contains_cons]
  act_inv := by
    intro sp w w' hi h
    have hn : (w.idx.map (·.1)).Nodup := by rw [hi.keys]; exact hk
    exact (commitAct_frame cfg strat sp w w' hn h).1.trans hi

/-- e.g. checkout from a fresh world: each stage checked out once, owners first, only upstream stages -/
theorem checkout_order (cfg : Cfg κ) (strat : Strat) (r : Bool) (sp : Bytes) (w w' : World κ) (l' : List Bytes)
    (h0 : w.done = [])
    (h : visit (checkoutTrav cfg strat).logged r (w.idx.length + 1) (allStages w) sp (w, []) = .ok (w', l')) :
    w'.idx = w.idx ∧ l'.Nodup ∧ (∀ x, x ∈ l' → x ∈ allStages w ∧ Reach (ownIdx cfg w.idx) sp x) ∧ sp ∈ l' ∧
      (∀ x, w'.done.contains x = l'.contains x) ∧
      (r = true → ∀ x, x ∈ l' → ∀ o, o ∈ ownIdx cfg w.idx x → Before l' o x) :=
  visit_spec_on (checkoutTrav cfg strat) (ownIdx cfg w.idx) _ (checkoutTrav_lawfulOn cfg strat w.idx) r _ _ sp
    w w' l' rfl (fun x => by simp [checkoutTrav, h0]) h

/-! ## whole commands: one traversal per target with a shared memo -/

/-- Everything at once for a command: `l'` is the list of stages acted on, in order, over all targets. -/
theorem cmd_spec_on (T : Trav (World κ)) (own) (Inv : World κ → Prop) (hT : T.LawfulOn own Inv) (r : Bool)
    (F : World κ → Nat) (A : World κ → List Bytes) (ts : List Bytes) (w w' : World κ) (l' : List Bytes)
    (hi : Inv w) (h0 : ∀ x, T.isDone w x = false)
    (h : perTargetLogged (fun t p => visit T.logged r (F p.1) (A p.1) t p) ts (w, []) = .ok (w', l')) :
    Inv w' ∧ l'.Nodup ∧ (∀ x, x ∈ l' → ∃ t, t ∈ ts ∧ Reach own t x) ∧ (∀ t, t ∈ ts → t ∈ l') ∧
      (∀ x, T.isDone w' x = l'.contains x) ∧
      (r = true → ∀ x, x ∈ l' → ∀ o, o ∈ own x → Before l' o x) := by
  obtain ⟨⟨d, h1, h2, h3, h4, h5, h6⟩, hd⟩ := perTarget_trace hT F A ts (w, []) (w', l') hi h
  simp only [List.nil_append] at h1
  subst h1
  have h5' : ∀ x, T.isDone w' x = l'.contains x := by intro x; rw [h5]; simp only [h0, Bool.false_or]
  refine ⟨h2, h3, fun x hx => (h4 x hx).2.2, ?_, h5', ?_⟩
  · intro t ht
    have := hd t ht
    rw [h5'] at this; simpa using this
  · intro hr x hx o ho
    rcases h6 hr x hx o ho with h | h
    · simp only [h0] at h; cases h
    · exact h

/-- over a whole command each stage is acted on at most once -/
theorem cmd_once (T : Trav (World κ)) (own) (Inv : World κ → Prop) (hT : T.LawfulOn own Inv) (r : Bool)
    (F : World κ → Nat) (A : World κ → List Bytes) (ts : List Bytes) (w w' : World κ) (l' : List Bytes)
    (hi : Inv w) (h0 : ∀ x, T.isDone w x = false)
    (h : perTargetLogged (fun t p => visit T.logged r (F p.1) (A p.1) t p) ts (w, []) = .ok (w', l')) :
    l'.Nodup :=
  (cmd_spec_on T own Inv hT r F A ts w w' l' hi h0 h).2.1

/-- … owners first (recursive commands) -/
theorem cmd_topological (T : Trav (World κ)) (own) (Inv : World κ → Prop) (hT : T.LawfulOn own Inv)
    (F : World κ → Nat) (A : World κ → List Bytes) (ts : List Bytes) (w w' : World κ) (l' : List Bytes)
    (hi : Inv w) (h0 : ∀ x, T.isDone w x = false)
    (h : perTargetLogged (fun t p => visit T.logged true (F p.1) (A p.1) t p) ts (w, []) = .ok (w', l')) :
    ∀ x, x ∈ l' → ∀ o, o ∈ own x → Before l' o x :=
  (cmd_spec_on T own Inv hT true F A ts w w' l' hi h0 h).2.2.2.2.2 rfl

/-- … and only stages upstream of some target, all targets included -/
theorem cmd_scope (T : Trav (World κ)) (own) (Inv : World κ → Prop) (hT : T.LawfulOn own Inv) (r : Bool)
    (F : World κ → Nat) (A : World κ → List Bytes) (ts : List Bytes) (w w' : World κ) (l' : List Bytes)
    (hi : Inv w) (h0 : ∀ x, T.isDone w x = false)
    (h : perTargetLogged (fun t p => visit T.logged r (F p.1) (A p.1) t p) ts (w, []) = .ok (w', l')) :
    (∀ x, x ∈ l' → ∃ t, t ∈ ts ∧ Reach own t x) ∧ (∀ t, t ∈ ts → t ∈ l') :=
  let hs := cmd_spec_on T own Inv hT r F A ts w w' l' hi h0 h
  ⟨hs.2.2.1, hs.2.2.2.1⟩

/-- a successful command has a logged run -/
theorem cmd_logged (T : Trav (World κ)) (r : Bool) (F : World κ → Nat) (A : World κ → List Bytes)
    (ts : List Bytes) (w w' : World κ)
    (h : perTarget (fun t w => visit T r (F w) (A w) t w) ts w = .ok w') :
    ∃ l', perTargetLogged (fun t p => visit T.logged r (F p.1) (A p.1) t p) ts (w, []) = .ok (w', l') :=
  ok_of_map_fst ((perTargetLogged_erase
    (fL := fun t p => visit T.logged r (F p.1) (A p.1) t p)
    (f := fun t w => visit T r (F w) (A w) t w)
    (fun t w l => visit_erase T r (F w) (A w) t w l) ts w []).trans h)

/-- a cycle upstream of some target makes the command fail -/
theorem cmd_cycle_refused (T : Trav (World κ)) (own) (Inv : World κ → Prop) (hT : T.LawfulOn own Inv)
    (F : World κ → Nat) (A : World κ → List Bytes) (ts : List Bytes) (w : World κ)
    (hi : Inv w) (h0 : ∀ x, T.isDone w x = false) (t x y : Bytes) (ht : t ∈ ts) (hx : Reach own t x)
    (hxy : y ∈ own x) (hyx : Reach own y x) :
    ∃ e, perTarget (fun t w => visit T true (F w) (A w) t w) ts w = .error e := by
  cases hv : perTarget (fun t w => visit T true (F w) (A w) t w) ts w with
  | error e => exact ⟨e, rfl⟩
  | ok w' =>
    exfalso
    obtain ⟨l', hl⟩ := cmd_logged T true F A ts w w' hv
    have hs := cmd_spec_on T own Inv hT true F A ts w w' l' hi h0 hl
    have htop := hs.2.2.2.2.2 rfl
    have hxl := reach_mem_log hs.2.1 htop hx (hs.2.2.2.1 t ht)
    exact no_cycle_in_log hs.2.1 htop hxl hxy hyx

/-- `dud run`: the stages looked at, in order -/
theorem cmdRun_spec [DecidableEq κ] (cfg : Cfg κ) (exec : Exec κ) (hex : ExecFrame exec) (single : Bool)
    (targets : List Bytes) (w w' : World κ) (h : cmdRun cfg exec single targets w = .ok w') :
    ∃ l', perTargetLogged
        (fun t p => visit (runTrav cfg exec (!single)).logged (!single) (p.1.idx.length + 1) (allStages p.1) t p)
        (if targets.isEmpty then allStages w else targets) (fresh w, []) = .ok (w', l') ∧
      w'.idx = w.idx ∧ l'.Nodup ∧
      (∀ x, x ∈ l' → ∃ t, t ∈ (if targets.isEmpty then allStages w else targets) ∧ Reach (ownIdx cfg w.idx) t x) ∧
      (∀ t, t ∈ (if targets.isEmpty then allStages w else targets) → t ∈ l') ∧
      (∀ x, (alookup w'.ran x).isSome = l'.contains x) ∧
      (single = false → ∀ x, x ∈ l' → ∀ o, o ∈ ownIdx cfg w.idx x → Before l' o x) := by
  simp only [cmdRun] at h
  split at h
  · cases h
  obtain ⟨l', hl⟩ := cmd_logged _ _ (fun w => w.idx.length + 1) allStages _ _ _ h
  have hs := cmd_spec_on _ _ _ (runTrav_lawfulOn cfg exec hex (!single) w.idx) (!single)
    (fun w => w.idx.length + 1) allStages _ _ _ l'
    (show (fresh w).idx = w.idx from rfl) (fun x => by simp [runTrav, fresh, alookup]) hl
  exact ⟨l', hl, hs.1, hs.2.1, hs.2.2.1, hs.2.2.2.1, hs.2.2.2.2.1,
    fun hsg => hs.2.2.2.2.2 (by simp [hsg])⟩

/-- `dud commit` (always recursive); the index keeps its shape -/
theorem cmdCommit_spec (cfg : Cfg κ) (strat : Strat) (targets : List Bytes) (w w' : World κ)
    (hk : (w.idx.map (·.1)).Nodup) (h : cmdCommit cfg strat targets w = .ok w') :
    ∃ l', perTargetLogged
        (fun t p => visit (commitTrav cfg strat).logged true (p.1.idx.length + 1) (allStages p.1) t p)
        (if targets.isEmpty then allStages w else targets) (fresh w, []) = .ok (w', l') ∧
      SameShape w'.idx w.idx ∧ l'.Nodup ∧
      (∀ x, x ∈ l' → ∃ t, t ∈ (if targets.isEmpty then allStages w else targets) ∧ Reach (ownIdx cfg w.idx) t x) ∧
      (∀ t, t ∈ (if targets.isEmpty then allStages w else targets) → t ∈ l') ∧
      (∀ x, w'.done.contains x = l'.contains x) ∧
      (∀ x, x ∈ l' → ∀ o, o ∈ ownIdx cfg w.idx x → Before l' o x) := by
  simp only [cmdCommit] at h
  by_cases hts : (if targets.isEmpty then allStages w else targets).isEmpty = true
  · rw [if_pos hts] at h; cases h
  rw [if_neg hts] at h
  obtain ⟨l', hl⟩ := cmd_logged _ _ (fun w => w.idx.length + 1) allStages _ _ _ h
  have hs := cmd_spec_on _ _ _ (commitTrav_lawfulOn cfg strat w.idx hk) true
    (fun w => w.idx.length + 1) allStages _ _ _ l'
    (show SameShape (fresh w).idx w.idx from SameShape.refl _) (fun x => by simp [commitTrav, fresh]) hl
  exact ⟨l', hl, hs.1, hs.2.1, hs.2.2.1, hs.2.2.2.1, hs.2.2.2.2.1, hs.2.2.2.2.2 rfl⟩

/-- `dud checkout` -/
theorem cmdCheckout_spec (cfg : Cfg κ) (strat : Strat) (single : Bool) (targets : List Bytes) (w w' : World κ)
    (h : cmdCheckout cfg strat single targets w = .ok w') :
    ∃ l', perTargetLogged
        (fun t p => visit (checkoutTrav cfg strat).logged (targets.isEmpty || !single) (p.1.idx.length + 1)
          (allStages p.1) t p)
        (if targets.isEmpty then allStages w else targets) (fresh w, []) = .ok (w', l') ∧
      w'.idx = w.idx ∧ l'.Nodup ∧
      (∀ x, x ∈ l' → ∃ t, t ∈ (if targets.isEmpty then allStages w else targets) ∧ Reach (ownIdx cfg w.idx) t x) ∧
      (∀ t, t ∈ (if targets.isEmpty then allStages w else targets) → t ∈ l') ∧
      (∀ x, w'.done.contains x = l'.contains x) ∧
      ((targets.isEmpty || !single) = true → ∀ x, x ∈ l' → ∀ o, o ∈ ownIdx cfg w.idx x → Before l' o x) := by
  simp only [cmdCheckout] at h
  split at h
  · cases h
  obtain ⟨l', hl⟩ := cmd_logged _ _ (fun w => w.idx.length + 1) allStages _ _ _ h
  have hs := cmd_spec_on _ _ _ (checkoutTrav_lawfulOn cfg strat w.idx) (targets.isEmpty || !single)
    (fun w => w.idx.length + 1) allStages _ _ _ l'
    (show (fresh w).idx = w.idx from rfl) (fun x => by simp [checkoutTrav, fresh]) hl
  exact ⟨l', hl, hs.1, hs.2.1, hs.2.2.1, hs.2.2.2.1, hs.2.2.2.2.1, hs.2.2.2.2.2⟩

end Concrete

/-! ## non-vacuity: a diamond and a 2-cycle -/

section Example

/-- state = list of done stages, action = cons -/
def listTrav (own : Bytes → List Bytes) : Trav (List Bytes) :=
  { isDone := fun st sp => st.contains sp, owners := fun _ sp => .ok (own sp), act := fun sp st => .ok (sp :: st) }

theorem listTrav_lawful (own : Bytes → List Bytes) : (listTrav own).Lawful own where
  owners_eq := by intro st sp os h; cases h; rfl
  act_done := by
    intro sp st st' h x
    cases h
    simp only [listTrav, List.contains_cons]

/-- `[4]` needs `[2]` and `[3]`, both need `[1]` -/
def diamondOwn : Bytes → List Bytes := fun sp =>
  if sp = [4] then [[2], [3]] else if sp = [2] then [[1]] else if sp = [3] then [[1]] else []

/-- `[1]` and `[2]` need each other; `[3]` needs `[1]` -/
def cycleOwn : Bytes → List Bytes := fun sp =>
  if sp = [1] then [[2]] else if sp = [2] then [[1]] else if sp = [3] then [[1]] else []

#eval visit (listTrav diamondOwn).logged true 5 [[1], [2], [3], [4]] [4] ([], [])
#eval visit (listTrav diamondOwn).logged false 5 [[1], [2], [3], [4]] [4] ([], [])
#eval visit (listTrav cycleOwn) true 4 [[1], [2], [3]] [3] []

/-- the diamond: `[1]` is acted on once although reached twice, owners first -/
example : visit (listTrav diamondOwn).logged true 5 [[1], [2], [3], [4]] [4] ([], []) =
    .ok ([[4], [3], [2], [1]], [[1], [2], [3], [4]]) := by rfl

/-- `--single-stage` -/
example : visit (listTrav diamondOwn).logged false 5 [[1], [2], [3], [4]] [4] ([], []) =
    .ok ([[4]], [[4]]) := by rfl

/-- the 2-cycle upstream of `[3]` -/
example : visit (listTrav cycleOwn) true 4 [[1], [2], [3]] [3] [] = .error .cycle := by rfl

/-- … as predicted by `cycle_refused`, for any fuel and any `avail` -/
example (fuel : Nat) (avail : List Bytes) : ∃ e, visit (listTrav cycleOwn) true fuel avail [3] [] = .error e :=
  cycle_refused (listTrav cycleOwn) cycleOwn (listTrav_lawful _) fuel avail [3] [] (fun _ => rfl) [1] [2]
    (.step (b := [1]) (by decide) (.refl _)) (by decide) (.step (b := [1]) (by decide) (.refl _))

end Example

/-! ## axioms -/

#print axioms visit_logged_erase
#print axioms visit_from
#print axioms visit_spec_on
#print axioms visit_once_on
#print axioms visit_topological_on
#print axioms visit_single
#print axioms visit_scope_on
#print axioms visit_guard_irrelevant_on
#print axioms visit_guard_irrelevant_logged_on
#print axioms cycle_no_act_on
#print axioms cycle_refused_on
#print axioms visit_once
#print axioms visit_topological
#print axioms visit_scope
#print axioms visit_guard_irrelevant
#print axioms visit_guard_irrelevant_logged
#print axioms cycle_refused
#print axioms cycle_no_act
#print axioms visit_fuel_adequate
#print axioms checkoutTrav_lawfulOn
#print axioms pushTrav_lawfulOn
#print axioms fetchTrav_lawfulOn
#print axioms statusTrav_lawfulOn
#print axioms runTrav_lawfulOn
#print axioms commitTrav_lawfulOn
#print axioms checkout_order
#print axioms cmd_spec_on
#print axioms cmd_once
#print axioms cmd_topological
#print axioms cmd_scope
#print axioms cmd_cycle_refused
#print axioms cmdRun_spec
#print axioms cmdCommit_spec
#print axioms cmdCheckout_spec
#print axioms listTrav_lawful

end Dud
