import DudModel.Lemmas.CrashTree
import DudModel.Lemmas.Codec
/-!
# C18 — dud never writes outside the project, its cache and its config

Every path of a trace is a canonical class `P` (`DudModel/Sys.lean`).  All classes but one denote
fixed places inside the cache directory, the `.dud` directory or a temp file next to them; the only
class that can escape is `.ws rel` — a path relative to the project root — when `rel` contains a
component that is empty, `.`, `..` or contains `/`.

* `commit_paths_confined`: every workspace path of the traced commit is `pre` followed by entry
  names of the tree, every other path is a cache/temp class; hence `commit_paths_safe`.
* `checkoutNodeT` (added to `Sys.lean`), `checkoutNodeT_refines`.
* `readManifest_safe`: `readManifest` validates entry names (`entryNameOK`), so every child name it
  returns is a single safe component.
* `checkout_paths_confined`: all workspace paths of the traced checkout are safe and below `pre`
  (unconditionally; `checkout_paths_confined_partial` is the form with the validation as a
  hypothesis, kept as the lemma it is derived from).
* `manifest_entry_rejected` (positive witness; this used to be the escape `manifest_entry_escapes`):
  a manifest with a child named `../../x` is rejected with `badManifest`, by `readManifest` and by
  the traced checkout, before anything is written.
-/
namespace Dud.Sys

open Dud

variable {κ : Type}

/-- a single, harmless path component -/
def SafeComp (c : Name) : Prop :=
  c ≠ [] ∧ c ≠ [0x2E] ∧ c ≠ [0x2E, 0x2E] ∧ (0x2F : UInt8) ∉ c

/-- a relative path all of whose components are harmless: it stays below the project root -/
def SafeRel (rel : List Name) : Prop := ∀ c ∈ rel, SafeComp c

instance (c : Name) : Decidable (SafeComp c) := by unfold SafeComp; infer_instance

/-- `entryNameOK` (the check of `readManifest`) is exactly `SafeComp` -/
theorem safeComp_iff_entryNameOK (c : Name) : SafeComp c ↔ entryNameOK c = true := by
  simp [SafeComp, entryNameOK, and_assoc]

theorem SafeRel.append {a b : List Name} (ha : SafeRel a) (hb : SafeRel b) : SafeRel (a ++ b) := by
  intro c hc
  rcases List.mem_append.1 hc with h | h
  · exact ha c h
  · exact hb c h

/-- the only class that can denote a place outside the project / cache / config -/
def Confined : P → Prop
  | .ws rel => SafeRel rel
  | _ => True

/-! ## commit -/

/-- **Paths of the traced commit.**  Workspace paths are `pre` followed by entry names of the tree;
everything else is a temp file in the cache root, a shard directory or an object. -/
theorem commit_paths_confined (t : TCfg κ) {nd : Node κ} {pre : List Name} {c : Child} {s : Store κ}
    {n : Nat} {res : Node κ × Child × Store κ} {calls : List (Call κ)} {n' : Nat}
    (h : commitNodeT t pre nd c s n = .ok (res, calls, n')) :
    ∀ call ∈ calls, ∀ p ∈ callPaths call,
      (∃ names, p = .ws (pre ++ names) ∧ ∀ x ∈ names, x ∈ allNames nd) ∨
      (∃ k, p = .ctmp k ∧ n ≤ k ∧ k < n') ∨ (∃ hh, p = .shard hh) ∨ (∃ d, p = .obj d) := by
  intro call hcall p hp
  have hf := (commitNodeT_foot t nd pre c s n res calls n' h).2 call hcall p hp
  cases p with
  | ws q =>
    simp only [InFoot, paths, List.mem_map] at hf
    obtain ⟨p', hp', heq⟩ := hf
    obtain ⟨names, hn, hall⟩ := trackedOf_names nd pre p' hp'
    exact Or.inl ⟨names, by rw [← heq, hn], hall⟩
  | ctmp k => exact Or.inr (Or.inl ⟨k, rfl, hf.1, hf.2⟩)
  | shard hh => exact Or.inr (Or.inr (Or.inl ⟨hh, rfl⟩))
  | obj d => exact Or.inr (Or.inr (Or.inr ⟨d, rfl⟩))
  | _ => simp [InFoot] at hf

theorem commitEntries_paths_confined (t : TCfg κ) {es : List (Name × Node κ)} {pre : List Name}
    {skipDirs : Bool} {old : List Child} {s : Store κ} {n : Nat}
    {res : List (Name × Node κ) × List Child × Store κ} {calls : List (Call κ)} {n' : Nat}
    (h : commitEntriesT t pre skipDirs es old s n = .ok (res, calls, n')) :
    ∀ call ∈ calls, ∀ p ∈ callPaths call,
      (∃ names, p = .ws (pre ++ names) ∧ ∀ x ∈ names, x ∈ allNamesList es) ∨
      (∃ k, p = .ctmp k ∧ n ≤ k ∧ k < n') ∨ (∃ hh, p = .shard hh) ∨ (∃ d, p = .obj d) := by
  intro call hcall p hp
  have hf := (commitEntriesT_foot t es pre skipDirs old s n res calls n' h).2 call hcall p hp
  cases p with
  | ws q =>
    simp only [InFoot, paths, List.mem_map] at hf
    obtain ⟨p', hp', heq⟩ := hf
    obtain ⟨e, he, names, hn, hall⟩ := trackedList_names es pre p' hp'
    refine Or.inl ⟨e.1 :: names, by rw [← heq, hn]; simp, ?_⟩
    intro x hx
    rcases List.mem_cons.1 hx with rfl | hx'
    · exact mem_allNamesList_of_mem he
    · exact allNames_sub_allNamesList he (hall x hx')
  | ctmp k => exact Or.inr (Or.inl ⟨k, rfl, hf.1, hf.2⟩)
  | shard hh => exact Or.inr (Or.inr (Or.inl ⟨hh, rfl⟩))
  | obj d => exact Or.inr (Or.inr (Or.inr ⟨d, rfl⟩))
  | _ => simp [InFoot] at hf

/-- If the artifact path and all entry names are single safe components, commit stays inside. -/
theorem commit_paths_safe (t : TCfg κ) {nd : Node κ} {pre : List Name} {c : Child} {s : Store κ}
    {n : Nat} {res : Node κ × Child × Store κ} {calls : List (Call κ)} {n' : Nat}
    (h : commitNodeT t pre nd c s n = .ok (res, calls, n'))
    (hpre : SafeRel pre) (hnames : ∀ x ∈ allNames nd, SafeComp x) :
    ∀ call ∈ calls, ∀ p ∈ callPaths call, Confined p := by
  intro call hcall p hp
  rcases commit_paths_confined t h call hcall p hp with
    ⟨names, rfl, hall⟩ | ⟨k, rfl, -⟩ | ⟨hh, rfl⟩ | ⟨d, rfl⟩
  · exact hpre.append (fun x hx => hnames x (hall x hx))
  all_goals trivial

/-- the whole `LocalCache.Commit`: MkdirAll(cache) and the rename probe add the cache root and the
two probe temp files -/
theorem commitArt_paths_confined (t : TCfg κ) {a : Art} {pre : List Name} {nd : Node κ} {s : Store κ}
    {res : Node κ × Digest × Store κ} {calls : List (Call κ)}
    (h : commitArtT t a pre (some nd) s = .ok (res, calls)) :
    ∀ call ∈ calls, ∀ p ∈ callPaths call,
      (∃ names, p = .ws (pre ++ names) ∧ ∀ x ∈ names, x ∈ allNames nd) ∨
      (∃ k, p = .ctmp k) ∨ (∃ hh, p = .shard hh) ∨ (∃ d, p = .obj d) ∨ p = .cacheRoot ∨ p = .wtmp 0 := by
  intro call hcall p hp
  obtain ⟨hi, hf⟩ := commitArtT_foot h
  rcases hf call hcall p hp with (rfl | rfl | rfl) | hin
  · simp
  · simp
  · exact Or.inr (Or.inl ⟨0, rfl⟩)
  · cases p with
    | ws q =>
      simp only [InFoot, paths, trackedOpt, List.mem_map] at hin
      obtain ⟨p', hp', heq⟩ := hin
      obtain ⟨names, hn, hall⟩ := trackedOf_names nd pre p' hp'
      exact Or.inl ⟨names, by rw [← heq, hn], hall⟩
    | ctmp k => exact Or.inr (Or.inl ⟨k, rfl⟩)
    | shard hh => exact Or.inr (Or.inr (Or.inl ⟨hh, rfl⟩))
    | obj d => exact Or.inr (Or.inr (Or.inr (Or.inl ⟨d, rfl⟩)))
    | _ => simp [InFoot] at hin

theorem commitArt_paths_safe (t : TCfg κ) {a : Art} {pre : List Name} {nd : Node κ} {s : Store κ}
    {res : Node κ × Digest × Store κ} {calls : List (Call κ)}
    (h : commitArtT t a pre (some nd) s = .ok (res, calls))
    (hpre : SafeRel pre) (hnames : ∀ x ∈ allNames nd, SafeComp x) :
    ∀ call ∈ calls, ∀ p ∈ callPaths call, Confined p := by
  intro call hcall p hp
  rcases commitArt_paths_confined t h call hcall p hp with
    ⟨names, rfl, hall⟩ | ⟨k, rfl⟩ | ⟨hh, rfl⟩ | ⟨d, rfl⟩ | rfl | rfl
  · exact hpre.append (fun x hx => hnames x (hall x hx))
  all_goals trivial


/-! ## checkout -/

theorem checkoutFileT_refines (t : TCfg κ) (w : P) (cur : Option (Node κ)) (sum : Digest) (s : Store κ) :
    (checkoutFileT t w cur sum s).map (·.1) = checkoutFile t.ctx t.strat cur sum s := by
  unfold checkoutFileT
  cases h : checkoutFile t.ctx t.strat cur sum s with
  | error e => rfl
  | ok r =>
    simp only
    split
    · rfl
    · split <;> rfl

theorem checkoutChildrenT_refines
    (f : List Name → Option (Node κ) → Child → Except Err (Node κ × List (Call κ)))
    (g : Option (Node κ) → Child → Except Err (Node κ))
    (hfg : ∀ pre cur c, (f pre cur c).map (·.1) = g cur c) (pre : List Name) :
    ∀ (cs : List Child) (es : List (Name × Node κ)),
      (checkoutChildrenT f pre es cs).map (·.1) = checkoutChildren g es cs
  | [], es => by simp [checkoutChildrenT, checkoutChildren, Except.map]
  | c :: cs, es => by
    simp only [checkoutChildrenT, checkoutChildren]
    have h1 := map_fst_eq (hfg (pre ++ [c.name]) (alookup es c.name) c)
    cases hT : f (pre ++ [c.name]) (alookup es c.name) c with
    | error e => simp [h1.1 e hT, Except.map]
    | ok v =>
      obtain ⟨n, calls1⟩ := v
      simp only [h1.2 _ _ hT]
      have h2 := map_fst_eq (checkoutChildrenT_refines f g hfg pre cs (setEntry es c.name n))
      cases hT2 : checkoutChildrenT f pre (setEntry es c.name n) cs with
      | error e => simp [h2.1 e hT2, Except.map]
      | ok v =>
        obtain ⟨es', calls2⟩ := v
        simp [h2.2 _ _ hT2, Except.map]

/-- erasing the trace of the traced checkout gives the logical `checkoutNode` -/
theorem checkoutNodeT_refines (t : TCfg κ) (s : Store κ) :
    ∀ (fuel : Nat) (pre : List Name) (cur : Option (Node κ)) (c : Child),
      (checkoutNodeT t s fuel pre cur c).map (·.1) = checkoutNode t.ctx t.strat s fuel cur c
  | 0, _, _, _ => rfl
  | fuel+1, pre, cur, c => by
    have ihc := fun es cs => map_fst_eq (checkoutChildrenT_refines (checkoutNodeT t s fuel)
      (checkoutNode t.ctx t.strat s fuel) (checkoutNodeT_refines t s fuel) pre cs es)
    simp only [checkoutNodeT, checkoutNode]
    split
    · split
      · rfl
      · split
        · rfl
        · cases cur with
          | none =>
            simp only
            cases hm : readManifest t.ctx s c.sum with
            | error e => rfl
            | ok cs =>
              simp only
              cases hT : checkoutChildrenT (checkoutNodeT t s fuel) pre [] cs with
              | error e => simp [(ihc [] cs).1 e hT, Except.map]
              | ok v => obtain ⟨es', calls⟩ := v; simp [(ihc [] cs).2 _ _ hT, Except.map]
          | some x =>
            cases x with
            | file _ => rfl
            | link _ => rfl
            | other => rfl
            | dir es =>
              simp only
              cases hm : readManifest t.ctx s c.sum with
              | error e => rfl
              | ok cs =>
                simp only
                cases hT : checkoutChildrenT (checkoutNodeT t s fuel) pre es cs with
                | error e => simp [(ihc es cs).1 e hT, Except.map]
                | ok v => obtain ⟨es', calls⟩ := v; simp [(ihc es cs).2 _ _ hT, Except.map]
    · exact checkoutFileT_refines t (.ws pre) cur c.sum s

/-- where a traced checkout below `pre` may write: safe workspace paths below `pre`, and objects
(mentioned as link targets) -/
def CoOK (pre : List Name) (p : P) : Prop :=
  (∃ rel, p = .ws rel ∧ pre <+: rel ∧ SafeRel rel) ∨ ∃ d, p = .obj d

theorem CoOK.up {pre : List Name} {nm : Name} {p : P} (h : CoOK (pre ++ [nm]) p) : CoOK pre p := by
  rcases h with ⟨rel, rfl, hpre, hs⟩ | h
  · exact Or.inl ⟨rel, rfl, List.IsPrefix.trans (List.prefix_append pre [nm]) hpre, hs⟩
  · exact Or.inr h

theorem checkoutFileCalls_paths (isEmp : κ → Bool) (strat : Strat) (w : P) (b : Bool) (c : κ) (d : Digest) :
    ∀ call ∈ checkoutFileCalls isEmp strat w b c d, ∀ p ∈ callPaths call, p = w ∨ p = .obj d := by
  intro call hcall p hp
  cases strat <;> cases b <;> cases he : isEmp c <;> simp [checkoutFileCalls, he] at hcall
  all_goals (first
    | (rcases hcall with rfl | rfl | rfl | rfl <;> simp only [callPaths] at hp <;> grind)
    | (rcases hcall with rfl | rfl | rfl <;> simp only [callPaths] at hp <;> grind)
    | (rcases hcall with rfl | rfl <;> simp only [callPaths] at hp <;> grind)
    | (subst hcall; simp only [callPaths] at hp; grind))

theorem checkoutFileT_paths {t : TCfg κ} {pre : List Name} {cur : Option (Node κ)} {sum : Digest}
    {s : Store κ} {r : Node κ} {calls : List (Call κ)} (hpre : SafeRel pre)
    (h : checkoutFileT t (.ws pre) cur sum s = .ok (r, calls)) :
    ∀ call ∈ calls, ∀ p ∈ callPaths call, CoOK pre p := by
  unfold checkoutFileT at h
  cases hcf : checkoutFile t.ctx t.strat cur sum s with
  | error e => simp [hcf] at h
  | ok r' =>
    simp only [hcf] at h
    split at h
    · simp at h; obtain ⟨-, rfl⟩ := h; simp
    · split at h
      · simp at h; obtain ⟨-, rfl⟩ := h; simp
      · simp at h
        obtain ⟨-, rfl⟩ := h
        intro call hcall p hp
        rcases checkoutFileCalls_paths _ _ _ _ _ _ call hcall p hp with rfl | rfl
        · exact Or.inl ⟨pre, rfl, List.prefix_refl _, hpre⟩
        · exact Or.inr ⟨_, rfl⟩

theorem checkoutChildrenT_paths
    {f : List Name → Option (Node κ) → Child → Except Err (Node κ × List (Call κ))}
    {pre : List Name} (hpre : SafeRel pre)
    (hf : ∀ pre' cur c r calls, SafeRel pre' → f pre' cur c = .ok (r, calls) →
      ∀ call ∈ calls, ∀ p ∈ callPaths call, CoOK pre' p) :
    ∀ (cs : List Child) (es es' : List (Name × Node κ)) (calls : List (Call κ)),
      (∀ c ∈ cs, SafeComp c.name) → checkoutChildrenT f pre es cs = .ok (es', calls) →
      ∀ call ∈ calls, ∀ p ∈ callPaths call, CoOK pre p
  | [], es, es', calls, _, h => by
    simp [checkoutChildrenT] at h; obtain ⟨-, rfl⟩ := h; simp
  | c :: cs, es, es', calls, hsafe, h => by
    simp only [checkoutChildrenT] at h
    cases hT : f (pre ++ [c.name]) (alookup es c.name) c with
    | error e => simp [hT] at h
    | ok v =>
      obtain ⟨n, calls1⟩ := v
      simp only [hT] at h
      cases hT2 : checkoutChildrenT f pre (setEntry es c.name n) cs with
      | error e => simp [hT2] at h
      | ok v =>
        obtain ⟨es2, calls2⟩ := v
        simp [hT2] at h
        obtain ⟨-, rfl⟩ := h
        intro call hcall p hp
        rcases List.mem_append.1 hcall with hc | hc
        · have hpre' : SafeRel (pre ++ [c.name]) :=
            hpre.append (fun x hx => by simp at hx; subst hx; exact hsafe c (by simp))
          exact (hf _ _ _ _ _ hpre' hT call hc p hp).up
        · exact checkoutChildrenT_paths hpre hf cs _ _ _ (fun c' hc' => hsafe c' (by simp [hc'])) hT2
            call hc p hp

/-- **Paths of the traced checkout (partial: needs validated manifests).**  IF every entry name of
every manifest readable from the store is a single safe component THEN every workspace path of the
traced checkout is a safe relative path below `pre`; the only other paths are objects. -/
theorem checkout_paths_confined_partial {t : TCfg κ} {s : Store κ}
    (hman : ∀ d cs, readManifest t.ctx s d = .ok cs → ∀ c ∈ cs, SafeComp c.name) :
    ∀ (fuel : Nat) (pre : List Name) (cur : Option (Node κ)) (c : Child) (r : Node κ)
      (calls : List (Call κ)), SafeRel pre → checkoutNodeT t s fuel pre cur c = .ok (r, calls) →
      ∀ call ∈ calls, ∀ p ∈ callPaths call, CoOK pre p
  | 0, _, _, _, _, _, _, h => by simp [checkoutNodeT] at h
  | fuel+1, pre, cur, c, r, calls, hpre, h => by
    have ih := checkout_paths_confined_partial hman fuel
    have hself : CoOK pre (.ws pre) := Or.inl ⟨pre, rfl, List.prefix_refl _, hpre⟩
    simp only [checkoutNodeT] at h
    split at h
    · split at h
      · cases h
      · split at h
        · cases h
        · cases cur with
          | none =>
            simp only at h
            cases hm : readManifest t.ctx s c.sum with
            | error e => simp [hm] at h
            | ok cs =>
              simp only [hm] at h
              cases hT : checkoutChildrenT (checkoutNodeT t s fuel) pre [] cs with
              | error e => simp [hT] at h
              | ok v =>
                obtain ⟨es', calls1⟩ := v
                simp [hT] at h
                obtain ⟨-, rfl⟩ := h
                intro call hcall p hp
                rcases List.mem_cons.1 hcall with rfl | hc
                · simp [callPaths] at hp; subst hp; exact hself
                · exact checkoutChildrenT_paths hpre ih cs _ _ _ (hman _ _ hm) hT call hc p hp
          | some x =>
            cases x with
            | file _ => simp at h
            | link _ => simp at h
            | other => simp at h
            | dir es =>
              simp only at h
              cases hm : readManifest t.ctx s c.sum with
              | error e => simp [hm] at h
              | ok cs =>
                simp only [hm] at h
                cases hT : checkoutChildrenT (checkoutNodeT t s fuel) pre es cs with
                | error e => simp [hT] at h
                | ok v =>
                  obtain ⟨es', calls1⟩ := v
                  simp [hT] at h
                  obtain ⟨-, rfl⟩ := h
                  exact checkoutChildrenT_paths hpre ih cs _ _ _ (hman _ _ hm) hT
    · exact checkoutFileT_paths hpre h

/-- in particular every path of the traced checkout is confined -/
theorem checkout_paths_safe_partial {t : TCfg κ} {s : Store κ}
    (hman : ∀ d cs, readManifest t.ctx s d = .ok cs → ∀ c ∈ cs, SafeComp c.name)
    {fuel : Nat} {pre : List Name} {cur : Option (Node κ)} {c : Child} {r : Node κ}
    {calls : List (Call κ)} (hpre : SafeRel pre)
    (h : checkoutNodeT t s fuel pre cur c = .ok (r, calls)) :
    ∀ call ∈ calls, ∀ p ∈ callPaths call, Confined p := by
  intro call hcall p hp
  rcases checkout_paths_confined_partial hman fuel pre cur c r calls hpre h call hcall p hp with
    ⟨rel, rfl, -, hs⟩ | ⟨d, rfl⟩
  · exact hs
  · trivial

/-- **Manifests are validated on read**: every entry name `readManifest` returns is a single safe
component (this was the hypothesis of `checkout_paths_confined_partial`). -/
theorem readManifest_safe {ctx : Ctx κ} {s : Store κ} {d : Digest} {cs : List Child}
    (h : readManifest ctx s d = .ok cs) : ∀ c ∈ cs, SafeComp c.name :=
  fun c hc => (safeComp_iff_entryNameOK c.name).2 (readManifest_childrenOK h c hc)

/-- **Paths of the traced checkout.**  Every workspace path of the traced checkout is a safe
relative path below `pre`; the only other paths are objects. -/
theorem checkout_paths_confined {t : TCfg κ} {s : Store κ}
    (fuel : Nat) (pre : List Name) (cur : Option (Node κ)) (c : Child) (r : Node κ)
    (calls : List (Call κ)) (hpre : SafeRel pre)
    (h : checkoutNodeT t s fuel pre cur c = .ok (r, calls)) :
    ∀ call ∈ calls, ∀ p ∈ callPaths call, CoOK pre p :=
  checkout_paths_confined_partial (fun _ _ hm => readManifest_safe hm) fuel pre cur c r calls hpre h

/-- in particular every path of the traced checkout is confined -/
theorem checkout_paths_safe {t : TCfg κ} {s : Store κ}
    {fuel : Nat} {pre : List Name} {cur : Option (Node κ)} {c : Child} {r : Node κ}
    {calls : List (Call κ)} (hpre : SafeRel pre)
    (h : checkoutNodeT t s fuel pre cur c = .ok (r, calls)) :
    ∀ call ∈ calls, ∀ p ∈ callPaths call, Confined p :=
  checkout_paths_safe_partial (fun _ _ hm => readManifest_safe hm) hpre h

/-- the one-entry store used by the witness: a manifest with a single file entry named `nm`, and
the payload it points to, each under its own digest -/
def escStore (ctx : Ctx κ) (path nm : Name) (payload : κ) : Store κ :=
  [((Obj.man .new path [⟨nm, ctx.H payload, false⟩] : Obj κ).digest ctx,
      .man .new path [⟨nm, ctx.H payload, false⟩]),
   (ctx.H payload, .blob payload)]

theorem escStore_consistent (ctx : Ctx κ) (path nm : Name) (payload : κ) :
    Consistent ctx (escStore ctx path nm payload) := by
  intro d o h
  simp only [escStore, Store.get, alookup, beq_iff_eq] at h
  split at h
  · next hd => cases h; exact hd
  · split at h
    · next hd => cases h; exact hd
    · cases h

/-- Whatever the *valid* entry name `nm` of the manifest, checking out the directory at `pre` into
an empty place writes to `pre ++ [nm]` — the name is joined as is (which is harmless, the name being
a single safe component; invalid names: `checkout_rejects_entry_name`). -/
theorem checkout_writes_entry_name (t : TCfg κ) (g : Good t.ctx) (path nm : Name) (payload : κ)
    (pre : List Name) (hrel : ∀ c, t.ctx.reload .new c = c) (hnm : entryNameOK nm = true)
    (hne : (Obj.man .new path [⟨nm, t.ctx.H payload, false⟩] : Obj κ).digest t.ctx ≠ t.ctx.H payload) :
    ∃ r calls, checkoutNodeT t (escStore t.ctx path nm payload) 2 pre none
        ⟨path, (Obj.man .new path [⟨nm, t.ctx.H payload, false⟩] : Obj κ).digest t.ctx, true⟩ = .ok (r, calls) ∧
      ∃ call ∈ calls, P.ws (pre ++ [nm]) ∈ callWrites call := by
  generalize hdm : (Obj.man .new path [⟨nm, t.ctx.H payload, false⟩] : Obj κ).digest t.ctx = dm at hne
  have hs1 : hasSum dm = true := by rw [← hdm]; exact hasSum_H g _
  have hs2 : hasSum (t.ctx.H payload) = true := hasSum_H g payload
  have hg1 : (escStore t.ctx path nm payload).get dm
      = some (.man .new path [⟨nm, t.ctx.H payload, false⟩]) := by
    simp [escStore, Store.get, alookup, hdm]
  have hg2 : (escStore t.ctx path nm payload).get (t.ctx.H payload) = some (.blob payload) := by
    simp [escStore, Store.get, alookup, hdm, hne]
  generalize escStore t.ctx path nm payload = s at hg1 hg2
  have hrm : readManifest t.ctx s dm = .ok [⟨nm, t.ctx.H payload, false⟩] := by
    simp [readManifest, hg1, hrel, hnm]
  -- the file one level down
  have hfile : ∃ r, checkoutFileT t (.ws (pre ++ [nm])) none (t.ctx.H payload) s =
      .ok (r, checkoutFileCalls t.isEmp t.strat (.ws (pre ++ [nm])) false payload (t.ctx.H payload)) := by
    have hq : quick s (t.ctx.H payload) (none : Option (Node κ)) =
        { has := true, inCache := true, ws := .absent, cm := false } := by
      simp [quick, hs2, Store.has, hg2, wsOf]
    have hcf : ∃ r, checkoutFile t.ctx t.strat none (t.ctx.H payload) s = .ok r := by
      cases hst : t.strat <;> simp [checkoutFile, hq, hg2, upToDateCopy, Obj.bytes]
    obtain ⟨r, hr⟩ := hcf
    exact ⟨r, by simp [checkoutFileT, hr, upToDateCopy, hg2, hq, Obj.bytes]⟩
  obtain ⟨r1, hr1⟩ := hfile
  refine ⟨.dir [(nm, r1)], .mkdir (.ws pre) ::
    (checkoutFileCalls t.isEmp t.strat (.ws (pre ++ [nm])) false payload (t.ctx.H payload) ++ []), ?_, ?_⟩
  · simp [checkoutNodeT, hs1, Store.has, hg1, hrm, checkoutChildrenT, alookup, hr1, setEntry]
  · cases hst : t.strat with
    | link =>
      exact ⟨.symlink (.obj (t.ctx.H payload)) (.ws (pre ++ [nm])), by simp [checkoutFileCalls],
        by simp [callWrites]⟩
    | copy =>
      exact ⟨.createExcl (.ws (pre ++ [nm])), by simp [checkoutFileCalls],
        by simp [callWrites, callPaths]⟩

/-- **An invalid entry name is rejected**: if the entry name `nm` of the manifest is empty, `.`,
`..` or contains `/`, reading the manifest and checking out the directory (at any `pre`, over
anything) fail with `badManifest`; no call is issued. -/
theorem checkout_rejects_entry_name (t : TCfg κ) (g : Good t.ctx) (path nm : Name) (payload : κ)
    (pre : List Name) (cur : Option (Node κ)) (fuel : Nat)
    (hrel : ∀ c, t.ctx.reload .new c = c) (hnm : entryNameOK nm = false)
    (hcur : ∀ n, cur = some n → n.isDir = true) :
    readManifest t.ctx (escStore t.ctx path nm payload)
        ((Obj.man .new path [⟨nm, t.ctx.H payload, false⟩] : Obj κ).digest t.ctx) = .error .badManifest ∧
    checkoutNodeT t (escStore t.ctx path nm payload) (fuel + 1) pre cur
        ⟨path, (Obj.man .new path [⟨nm, t.ctx.H payload, false⟩] : Obj κ).digest t.ctx, true⟩ =
      .error .badManifest := by
  generalize hdm : (Obj.man .new path [⟨nm, t.ctx.H payload, false⟩] : Obj κ).digest t.ctx = dm
  have hs1 : hasSum dm = true := by rw [← hdm]; exact hasSum_H g _
  have hg1 : (escStore t.ctx path nm payload).get dm
      = some (.man .new path [⟨nm, t.ctx.H payload, false⟩]) := by
    simp [escStore, Store.get, alookup, hdm]
  generalize escStore t.ctx path nm payload = s at hg1
  have hrm : readManifest t.ctx s dm = .error .badManifest := by
    refine readManifest_man_bad hg1 (fun hok => ?_)
    have := hok _ (List.mem_map.2 ⟨_, List.mem_singleton.2 rfl, rfl⟩)
    rw [hrel, hnm] at this
    cases this
  refine ⟨hrm, ?_⟩
  cases cur with
  | none => simp [checkoutNodeT, hs1, Store.has, hg1, hrm]
  | some n =>
    cases n with
    | dir es => simp [checkoutNodeT, hs1, Store.has, hg1, hrm]
    | file _ => simpa [Node.isDir] using hcur _ rfl
    | link _ => simpa [Node.isDir] using hcur _ rfl
    | other => simpa [Node.isDir] using hcur _ rfl

/-! ## positive witness: manifests are validated on read -/

namespace Escape
open Dud.Example

/-- `../../x` -/
def evilName : Name := [0x2E, 0x2E, 0x2F, 0x2E, 0x2E, 0x2F, 0x78]

def payload : K := .raw "evil"

def tcfg (strat : Strat) : TCfg K :=
  { ctx := ctx, isEmp := fun k => k == .raw "", strat := strat, canRename := false }

/-- a consistent store: a manifest for directory `t` whose only entry is named `../../x` (as an
attacker, or a buggy third-party tool, could place it in a shared cache or a remote), and the
payload it points to -/
def store : Store K := escStore ctx [116] evilName payload

theorem store_consistent : Consistent ctx store := escStore_consistent ctx [116] evilName payload

/-- the artifact the user checks out: directory `t` with the manifest's checksum -/
def art : Child :=
  { name := [116], sum := (Obj.man .new [116] [⟨evilName, ctx.H payload, false⟩] : Obj K).digest ctx,
    isDir := true }

theorem evil_not_safe : ¬ SafeRel ([[116]] ++ [evilName]) := by
  intro h
  have := h evilName (by simp)
  exact this.2.2.2 (by decide)

theorem digest_ne :
    (Obj.man .new [116] [⟨evilName, ctx.H payload, false⟩] : Obj K).digest ctx ≠ ctx.H payload := by
  intro h
  have := good.inj _ _ h
  simp [Obj.bytes, ctx, payload] at this

theorem evil_not_ok : entryNameOK evilName = false := by decide

/-- **A manifest entry named `../../x` is rejected** (this used to be the escape
`manifest_entry_escapes`).  From the consistent store whose manifest has a child `../../x`, reading
the manifest fails with `badManifest`, and so does checking out directory `t` into an empty place —
with either strategy, without a single call (in particular nothing is written to `t/../../x`). -/
theorem manifest_entry_rejected (strat : Strat) :
    readManifest (tcfg strat).ctx store art.sum = .error .badManifest ∧
      checkoutNodeT (tcfg strat) store 2 [[116]] none art = .error .badManifest :=
  checkout_rejects_entry_name (tcfg strat) good [116] evilName payload [[116]] none 1
    (fun _ => rfl) evil_not_ok (fun _ h => by cases h)

/-- the hypothesis of `checkout_paths_confined_partial` now holds here as for every store (it used
to fail: `store_manifests_not_validated`) -/
theorem store_manifests_validated (strat : Strat) :
    ∀ d cs, readManifest (tcfg strat).ctx store d = .ok cs → ∀ c ∈ cs, SafeComp c.name :=
  fun _ _ h => readManifest_safe h

/-- a valid entry name is still joined as is: checkout of the same store shape with the entry named
`x` writes `t/x` (non-vacuity of `checkout_writes_entry_name`) -/
theorem valid_entry_written (strat : Strat) :
    ∃ r calls, checkoutNodeT (tcfg strat) (escStore ctx [116] [0x78] payload) 2 [[116]] none
        ⟨[116], (Obj.man .new [116] [⟨[0x78], ctx.H payload, false⟩] : Obj K).digest ctx, true⟩ =
          .ok (r, calls) ∧
      (∃ call ∈ calls, P.ws ([[116]] ++ [[0x78]]) ∈ callWrites call) ∧ SafeRel ([[116]] ++ [[0x78]]) := by
  have hne : (Obj.man .new [116] [⟨[0x78], ctx.H payload, false⟩] : Obj K).digest ctx ≠ ctx.H payload := by
    intro h
    have := good.inj _ _ h
    simp [Obj.bytes, ctx, payload] at this
  obtain ⟨r, calls, h, hc⟩ := checkout_writes_entry_name (tcfg strat) good [116] [0x78] payload [[116]]
    (fun _ => rfl) (by decide) hne
  refine ⟨r, calls, h, hc, ?_⟩
  intro c hc'
  simp at hc'
  rcases hc' with rfl | rfl <;> decide

def showB (n : Name) : String := String.ofList (n.map (fun b => Char.ofNat b.toNat))

def showP : P → String
  | .ws rel => "ws:" ++ "/".intercalate (rel.map showB)
  | .obj d => s!"obj#{d.length}"
  | .shard h => s!"shard:{h}"
  | .ctmp n => s!"ctmp{n}"
  | .wtmp n => s!"wtmp{n}"
  | .cacheRoot => "cache"
  | _ => "other"

def showCall : Call K → String
  | .mkdir p => s!"mkdir {showP p}"
  | .createExcl p => s!"createExcl {showP p}"
  | .createTrunc p => s!"createTrunc {showP p}"
  | .writePart p => s!"writePart {showP p}"
  | .write p _ => s!"write {showP p}"
  | .rename s d => s!"rename {showP s} {showP d}"
  | .chmod p m => s!"chmod {showP p} {m}"
  | .unlink p => s!"unlink {showP p}"
  | .symlink t p => s!"symlink {showP t} {showP p}"

#eval match checkoutNodeT (tcfg .copy) store 2 [[116]] none art with
  | .ok (_, calls) => "; ".intercalate (calls.map showCall)
  | .error e => s!"error {e}"
#eval match checkoutNodeT (tcfg .link) store 2 [[116]] none art with
  | .ok (_, calls) => "; ".intercalate (calls.map showCall)
  | .error e => s!"error {e}"

end Escape

/-! ## non-vacuity of the positive results -/

namespace ExampleC18
open Dud.Example

def tree : Node K :=
  .dir [([97], .file (.raw "alpha")), ([98], .dir [([99], .file (.raw "gamma"))])]

def tcfg : TCfg K := { ctx := ctx, isEmp := fun k => k == .raw "", strat := .link, canRename := true }

theorem pre_safe : SafeRel [[116]] := by
  intro c hc; simp at hc; subst hc; decide

theorem names_safe : ∀ x ∈ allNames tree, SafeComp x := by
  intro x hx
  simp [tree, allNames, allNamesList] at hx
  rcases hx with rfl | rfl | rfl <;> decide

/-- commit of a tree with safe names succeeds and all its paths are confined -/
example : ∃ res calls, commitArtT tcfg { path := [116], isDir := true } [[116]] (some tree) [] = .ok (res, calls) ∧
    ∀ call ∈ calls, ∀ p ∈ callPaths call, Confined p := by
  have h : ∃ res calls, commitArtT tcfg { path := [116], isDir := true } [[116]] (some tree) []
      = .ok (res, calls) := ⟨_, _, rfl⟩
  obtain ⟨res, calls, h⟩ := h
  exact ⟨res, calls, h, commitArt_paths_safe tcfg h pre_safe names_safe⟩

/-- commit, then checkout from the resulting store -/
def committed : Store K × Digest :=
  match commitArtT tcfg { path := [116], isDir := true } [[116]] (some tree) [] with
  | .ok ((_, d, s), _) => (s, d)
  | .error _ => ([], "")

#eval match checkoutNodeT tcfg committed.1 3 [[116]] none ⟨[116], committed.2, true⟩ with
  | .ok (_, calls) => "; ".intercalate (calls.map Escape.showCall)
  | .error e => s!"error {e}"

end ExampleC18

#print axioms commit_paths_confined
#print axioms commitEntries_paths_confined
#print axioms commit_paths_safe
#print axioms commitArt_paths_confined
#print axioms commitArt_paths_safe
#print axioms checkoutFileT_refines
#print axioms checkoutChildrenT_refines
#print axioms checkoutNodeT_refines
#print axioms checkoutChildrenT_paths
#print axioms checkout_paths_confined_partial
#print axioms checkout_paths_safe_partial
#print axioms safeComp_iff_entryNameOK
#print axioms readManifest_safe
#print axioms checkout_paths_confined
#print axioms checkout_paths_safe
#print axioms escStore_consistent
#print axioms checkout_writes_entry_name
#print axioms checkout_rejects_entry_name
#print axioms Escape.store_consistent
#print axioms Escape.evil_not_safe
#print axioms Escape.evil_not_ok
#print axioms Escape.manifest_entry_rejected
#print axioms Escape.store_manifests_validated
#print axioms Escape.valid_entry_written
#print axioms ExampleC18.pre_safe
#print axioms ExampleC18.names_safe

end Dud.Sys
