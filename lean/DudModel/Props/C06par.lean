import DudModel.Lemmas.InterleaveCheckoutRun
import DudModel.Props.C06cmd
/-!
# C06 + C13 + C03 — CONCURRENT checkout workers: every schedule keeps the workspace, all schedules agree

In the Go code (`src/cache/checkout.go`) `checkoutDir` reads the manifest, `os.MkdirAll(workPath)`, then
hands the entries of the manifest — a Go map, iterated in RANDOM order — to concurrent workers
(`startCheckoutWorkers` / `checkoutWorker`).  A worker that meets a sub-directory calls `checkoutDir` again,
which starts workers of its own: the concurrency is nested.  The model (`checkoutNodeT`, `Sys.lean`)
processes the entries one after the other, in manifest order.  This file is the theorem that makes the
canonicalisation "compare real and model traces up to the order of siblings" sound.

## Vocabulary (`Lemmas/Shuffle.lean`, `Lemmas/InterleaveCheckout.lean`)

* `Shuffle`, `ShuffleN`, `All2`: the inductive definitions `Interleaving`, `InterleavingN`, `Forall2` of
  `Lemmas/Interleave2.lean` under fresh names (that file cannot be imported here: its family defines a
  second `Dud.Sys.Rel`); `Lemmas/ShuffleBridge.lean` proves `ShuffleN ts l ↔ InterleavingN ts l ↔ Sched ts l`.
* `ParCheckoutTrace t s fuel pre cur c calls`: `calls` is a trace of the nested concurrent checkout of the
  manifest entry `c` at workspace path `pre`, where the workspace holds `cur`: for a directory the `mkdir`
  of the directory itself (if absent) comes FIRST (the parent exists before its workers start), then ANY
  `ShuffleN` of the traces of the entries, each of them again such a trace.  `SeqPermTrace`: the entries of
  every directory one after the other in ANY order.
* `SamePerPath l l'`: at every path, the same calls in the same order.

## Results (node level: one `checkoutDir` / `checkoutFile`; from ANY file system that agrees with the
logical workspace below the path — files, links of every kind, directories, in the way or not)

1. `checkoutNodeT_is_parTrace`, `checkoutNodeT_perm_is_parTrace`: the sequential trace of the model, and
   the sequential trace with the siblings of every directory permuted, are concurrent traces.
2. `parCheckout_samePerPath`: every concurrent trace issues at every path the calls of the sequential trace
   in the same order.  Hence
   (a) `parCheckout_keeps` (`_files`, `_link`): after EVERY prefix of EVERY schedule every pre-existing
       workspace entry is unchanged, except a link to the very object being copied (`KeptP`);
   (b) `parCheckout_crash_safe`: every prefix of every schedule is `Safe` (C03);
   (c) `parCheckout_schedules_same`: two schedules end in the same file system at EVERY path;
       `parCheckout_prefix_like_seq`: every crash state of a schedule shows at any single path what some
       crash state of the sequential run shows there; `parCheckout_final`: the final state agrees with
       the logical result of the model;
   (d) `parCheckout_complete_iff`: a complete concurrent trace exists iff the sequential run succeeds.
2'. runs that FAIL, are CANCELLED or are KILLED (`CheckoutRun`, `Lemmas/InterleaveCheckoutRun.lean`: every
   worker may contribute nothing or stop after any of its calls — the prefix-closed set that contains every
   prefix of every complete trace, `parTrace_is_run`, and the traces of runs in which a worker fails and the
   errgroup cancels the siblings): `parCheckoutRun_keeps` — (a) after every such run, NO success hypothesis;
   `parCheckoutRun_crash_safe` — (b).
3. one `LocalCache.Checkout` inside the command (`ParArtTrace`: the `MkdirAll` of the ancestors, then any
   concurrent trace): `parArt_keeps`, `parArt_schedules_same`; the whole command (`CmdParTrace`: lock; for
   every `LocalCache.Checkout` of the sequential run — `cmdCheckoutSegs_artSegs` — ANY concurrent trace of
   that artifact in that intermediate world; unlock): `cmdCheckoutParTrace_keeps`, `_crash_safe`, `_final`
   (the conclusion of `cmdCheckoutT_final`, and the same file system as the sequential command at every
   path), `_schedules_same`; `cmdCheckoutT_is_cmdParTrace`.  (`cmdCheckoutPar_*`: the same for segments
   replaced by ANY lists with the same calls per path, `CmdParSegs`.)
4. `ExamplePar`: a directory with two files and a sub-directory; ALL schedules enumerated (`enumPar`,
   `enumPar_sound`: 12 for links, 280 / 630 for copies), checked by evaluation and by the theorems; an entry
   in the way two levels down: no complete trace exists, a failing run and a cut-short run are covered.

## Hypotheses

* `ManUniq ctx s`: every readable manifest of the cache lists pairwise distinct names.  In Go the manifest
  IS a map keyed by entry name.  (With a repeated name the sequential model lets the second occurrence see
  the result of the first; two real workers would race on the same path.)  `manUniq_of_B`: Boolean check.
* `hemp`, `uniqOpt cur` / `uniqNode w.ws`, `ObjIn`, `AbsAt`, `Consistent`: as in `Props/C06cmd.lean`.
* (c), (d), `_final` are about COMPLETE traces: all workers succeed (iff the sequential run succeeds).
  For the command and artifact level the sequential run is assumed to succeed (`cmdCheckoutSegs … = .ok`,
  `checkoutArtWT … = .ok`): the model has no trace for a command that fails at the logical level.

## Not covered

* What the model does with the OTHER workers' remaining calls when one worker fails: nothing is assumed —
  `CheckoutRun` lets every worker stop anywhere (Go: the errgroup cancels the context, a worker stops
  before its next entry), so (a) and (b) hold whatever the cancellation does.  A failing run at the level
  of the whole COMMAND (lock, earlier artifacts complete, one artifact a failing run) is not assembled
  here; the node-level theorem applies to its last artifact from the state the earlier ones left
  (`parCheckout_keeps_from` for complete traces).
* A copy from a corrupted cache object (checksum mismatch after the copy: the real code leaves the bad copy
  behind) is a failing `checkoutFile` with calls; `CheckoutRun` gives such a worker no calls (as
  `C06cmd.lean`: not covered).
* System calls are atomic steps (a non-empty `write` is two: incomplete, complete).  The flat file-system
  model does not check that the parent directory of a created path exists; that the `mkdir` of a directory
  precedes the calls of its workers is part of the definition of `ParCheckoutTrace`, not a consequence.
* permission bits of created files, `fsync`, foreign links and special files (as in `C06cmd.lean`).
-/
namespace Dud.Sys
open Dud
variable {κ : Type}

/-! ## 1. the sequential trace, and its sibling permutations, are concurrent traces -/

/-- **The sequential trace of the model is one of the traces of the concurrent checkout.** -/
theorem checkoutNodeT_is_parTrace {t : TCfg κ} {s : Store κ} (hman : ManUniq t.ctx s) {fuel : Nat}
    {pre : List Name} {cur : Option (Node κ)} {c : Child} {r : Node κ} {calls : List (Call κ)}
    (h : checkoutNodeT t s fuel pre cur c = .ok (r, calls)) : ParCheckoutTrace t s fuel pre cur c calls :=
  checkoutNodeT_parTrace hman h

/-- the sequential trace is the identity permutation -/
theorem checkoutNodeT_is_seqPermTrace {t : TCfg κ} {s : Store κ} (hman : ManUniq t.ctx s) {fuel : Nat}
    {pre : List Name} {cur : Option (Node κ)} {c : Child} {r : Node κ} {calls : List (Call κ)}
    (h : checkoutNodeT t s fuel pre cur c = .ok (r, calls)) : SeqPermTrace t s fuel pre cur c calls :=
  seq_seqPerm (checkoutNodeT_seqTrace hman _ _ _ _ _ _ h)

/-- **The sequential trace with the siblings of every directory, at every depth, PERMUTED in any way (the
freedom of the Go map iteration) is one of the traces of the concurrent checkout.** -/
theorem checkoutNodeT_perm_is_parTrace {t : TCfg κ} {s : Store κ} {fuel : Nat} {pre : List Name}
    {cur : Option (Node κ)} {c : Child} {calls : List (Call κ)}
    (h : SeqPermTrace t s fuel pre cur c calls) : ParCheckoutTrace t s fuel pre cur c calls :=
  seqPerm_parTrace h

/-- one level, spelled out: the entries `cs` of the manifest of an absent directory, any concurrent traces
`ts` of the entries, any permutation `ts'` of them: `mkdir`, then the workers one after the other in the
permuted order, is a concurrent trace -/
theorem parTrace_of_perm {t : TCfg κ} {s : Store κ} {fuel : Nat} {pre : List Name} {c : Child}
    (hd : c.isDir = true) (h1 : hasSum c.sum = true) (h2 : s.has c.sum = true) {cs : List Child}
    (hm : readManifest t.ctx s c.sum = .ok cs) {ts ts' : List (List (Call κ))}
    (hall : All2 (fun (c' : Child) tr => ParCheckoutTrace t s fuel (pre ++ [c'.name]) none c' tr) cs ts)
    (hp : List.Perm ts' ts) :
    ParCheckoutTrace t s (fuel + 1) pre none c (.mkdir (.ws pre) :: ts'.flatten) := by
  simp only [CheckoutTraces]
  exact .inl ⟨hd, h1, h2, cs, [], [.mkdir (.ws pre)], ts, _, hm, by simp, hall, ShuffleN.flatten_perm hp, rfl⟩

/-! ## 2. every schedule against the sequential run -/

/-- **Every concurrent trace issues, at every path, exactly the calls of the sequential trace, in the same
order**; all its calls act on a single workspace path below the entry's path. -/
theorem parCheckout_samePerPath {t : TCfg κ} {s : Store κ} (hman : ManUniq t.ctx s) {fuel : Nat}
    {pre : List Name} {cur : Option (Node κ)} {c : Child} {calls : List (Call κ)}
    (h : ParCheckoutTrace t s fuel pre cur c calls) :
    ∃ r seq, checkoutNodeT t s fuel pre cur c = .ok (r, seq) ∧ SamePerPath calls seq ∧
      AllSingle calls ∧ Below pre calls := by
  obtain ⟨r, seq, hseq, hsp⟩ := parCheckout_seq hman fuel pre cur c calls h
  obtain ⟨hs, hb⟩ := parCheckout_single_below fuel pre cur c calls h
  exact ⟨r, seq, hseq, hsp, hs, hb.below hs⟩

/-- **(d) a complete concurrent trace exists iff the sequential run of the model succeeds**: a worker that
fails (an entry in the way, an object missing from the cache, an unreadable manifest) fails in every
schedule, and then the sequential run fails as well. -/
theorem parCheckout_complete_iff {t : TCfg κ} {s : Store κ} (hman : ManUniq t.ctx s) (fuel : Nat)
    (pre : List Name) (cur : Option (Node κ)) (c : Child) :
    (∃ calls, ParCheckoutTrace t s fuel pre cur c calls) ↔
      ∃ r seq, checkoutNodeT t s fuel pre cur c = .ok (r, seq) := by
  constructor
  · rintro ⟨calls, h⟩
    obtain ⟨r, seq, hseq, -⟩ := parCheckout_seq hman fuel pre cur c calls h
    exact ⟨r, seq, hseq⟩
  · rintro ⟨r, seq, h⟩
    exact ⟨seq, checkoutNodeT_parTrace hman h⟩

/-- (a), general form: inside a command, relative to the state `fs0` before the command -/
theorem parCheckout_keeps_from {t : TCfg κ} {emp : κ} (hemp : ∀ x, t.isEmp x = true → x = emp) {s : Store κ}
    (hman : ManUniq t.ctx s) {fuel : Nat} {pre : List Name} {cur : Option (Node κ)} {c : Child}
    {calls : List (Call κ)} (h : ParCheckoutTrace t s fuel pre cur c calls) {st : Strat}
    (hcp : t.strat = .copy → st = .copy) {fs0 fs : FS κ} (hobj : ObjIn t.ctx s fs0) (ha : AbsAt pre cur fs)
    (hk : KeptB st fs0 fs) (hu : uniqOpt cur) :
    Pref (KeptP st emp fs0) emp fs calls ∧ KeptB st fs0 (replay emp fs calls) ∧
      ∃ r, AbsAt pre (some r) (replay emp fs calls) ∧ uniqNode r ∧
        ∃ seq, checkoutNodeT t s fuel pre cur c = .ok (r, seq) := by
  obtain ⟨r, seq, hseq, hsp, hs, -⟩ := parCheckout_samePerPath hman h
  obtain ⟨res, hur⟩ := checkoutNodeT_step (st := st) hemp hcp hobj fuel pre cur c r seq hseq fs ha hk hu
  have heq : ∀ q, (replay emp fs calls).get q = (replay emp fs seq).get q := hsp.replay_get hs emp fs
  refine ⟨hsp.pref_keptP hs res.pref, res.kept.frame (fun q _ => heq _), r,
    res.abs.frame (fun _ => heq _), hur, seq, hseq⟩

/-- **(a) Every schedule of the concurrent checkout keeps the pre-existing workspace entries, after every
prefix.**  From ANY file system `fs` that agrees with the logical workspace below the path (`AbsAt`: any
pre-existing files, links, directories, in the way or not) and holds the objects of the cache: after the
first `k` calls of ANY concurrent trace, for every `k`, every workspace path that held something in `fs`
holds exactly the same — or (copy strategy only) it held a link to the very cache object being checked out
and now holds nothing, an empty or incomplete file, or a file with the bytes of that object (`KeptP`). -/
theorem parCheckout_keeps {t : TCfg κ} {emp : κ} (hemp : ∀ x, t.isEmp x = true → x = emp) {s : Store κ}
    (hman : ManUniq t.ctx s) {fuel : Nat} {pre : List Name} {cur : Option (Node κ)} {c : Child}
    {calls : List (Call κ)} (h : ParCheckoutTrace t s fuel pre cur c calls) {fs : FS κ}
    (hobj : ObjIn t.ctx s fs) (ha : AbsAt pre cur fs) (hu : uniqOpt cur) :
    ∀ k, KeptP t.strat emp fs (replay emp fs (calls.take k)) :=
  (parCheckout_keeps_from hemp hman h id hobj ha (KeptB.refl _ fs) hu).1

/-- in particular a regular file of the workspace is never touched by any schedule, not even its mode -/
theorem parCheckout_keeps_files {t : TCfg κ} {emp : κ} (hemp : ∀ x, t.isEmp x = true → x = emp) {s : Store κ}
    (hman : ManUniq t.ctx s) {fuel : Nat} {pre : List Name} {cur : Option (Node κ)} {c : Child}
    {calls : List (Call κ)} (h : ParCheckoutTrace t s fuel pre cur c calls) {fs : FS κ}
    (hobj : ObjIn t.ctx s fs) (ha : AbsAt pre cur fs) (hu : uniqOpt cur) {q : List Name} {x : κ} {m : Nat}
    (hq : fs.get (.ws q) = some (.file x m)) :
    ∀ k, (replay emp fs (calls.take k)).get (.ws q) = some (.file x m) := by
  intro k
  rcases parCheckout_keeps hemp hman h hobj ha hu k q _ hq with h1 | ⟨-, d, y, m0, he, -, -⟩
  · exact h1
  · cases he

/-- … a directory neither … -/
theorem parCheckout_keeps_dirs {t : TCfg κ} {emp : κ} (hemp : ∀ x, t.isEmp x = true → x = emp) {s : Store κ}
    (hman : ManUniq t.ctx s) {fuel : Nat} {pre : List Name} {cur : Option (Node κ)} {c : Child}
    {calls : List (Call κ)} (h : ParCheckoutTrace t s fuel pre cur c calls) {fs : FS κ}
    (hobj : ObjIn t.ctx s fs) (ha : AbsAt pre cur fs) (hu : uniqOpt cur) {q : List Name}
    (hq : fs.get (.ws q) = some .dir) :
    ∀ k, (replay emp fs (calls.take k)).get (.ws q) = some .dir := by
  intro k
  rcases parCheckout_keeps hemp hman h hobj ha hu k q _ hq with h1 | ⟨-, d, y, m0, he, -, -⟩
  · exact h1
  · cases he

/-- … and with the link strategy NOTHING that existed is ever touched, in any schedule -/
theorem parCheckout_keeps_link {t : TCfg κ} {emp : κ} (hemp : ∀ x, t.isEmp x = true → x = emp) {s : Store κ}
    (hman : ManUniq t.ctx s) {fuel : Nat} {pre : List Name} {cur : Option (Node κ)} {c : Child}
    {calls : List (Call κ)} (h : ParCheckoutTrace t s fuel pre cur c calls) (hl : t.strat = .link)
    {fs : FS κ} (hobj : ObjIn t.ctx s fs) (ha : AbsAt pre cur fs) (hu : uniqOpt cur) {q : List Name}
    {e : Entry κ} (hq : fs.get (.ws q) = some e) :
    ∀ k, (replay emp fs (calls.take k)).get (.ws q) = some e := by
  intro k
  rcases parCheckout_keeps hemp hman h hobj ha hu k q _ hq with h1 | ⟨hc, -⟩
  · exact h1
  · rw [hl] at hc; cases hc

/-- no schedule writes anything but workspace paths below the entry's path -/
theorem parCheckout_untouched {t : TCfg κ} {s : Store κ} {fuel : Nat} {pre : List Name}
    {cur : Option (Node κ)} {c : Child} {calls : List (Call κ)}
    (h : ParCheckoutTrace t s fuel pre cur c calls) (emp : κ) (fs : FS κ) {p : P}
    (hp : ∀ rel, p ≠ .ws (pre ++ rel)) :
    ∀ k, (replay emp fs (calls.take k)).get p = fs.get p := by
  obtain ⟨hs, hb⟩ := parCheckout_single_below fuel pre cur c calls h
  intro k
  refine replay_take_get_frame emp calls p fs (fun x hx hmem => ?_) k
  obtain ⟨rel, hrel⟩ := hb.below hs x hx p hmem
  exact hp rel hrel

/-- **(b) Every prefix of every schedule is `Safe`** (C03): for ANY recorded list of (workspace path,
bytes) for which the start state is safe, each recorded byte sequence stays retrievable (at its path, through
a link at its path, or in the cache under its digest) and nothing incomplete or foreign sits under a digest
name — whatever the scheduler does, wherever the process is killed. -/
theorem parCheckout_crash_safe {t : TCfg κ} {emp : κ} (hemp : ∀ x, t.isEmp x = true → x = emp) {s : Store κ}
    (hman : ManUniq t.ctx s) {fuel : Nat} {pre : List Name} {cur : Option (Node κ)} {c : Child}
    {calls : List (Call κ)} (h : ParCheckoutTrace t s fuel pre cur c calls) {fs : FS κ}
    (hobj : ObjIn t.ctx s fs) (ha : AbsAt pre cur fs) (hu : uniqOpt cur) {tracked : List (P × κ)}
    (htw : TrackedWs tracked) (hs : Safe t.ctx tracked fs) :
    ∀ k, Safe t.ctx tracked (replay emp fs (calls.take k)) := by
  intro k
  refine safe_of_keptP htw hs (parCheckout_keeps hemp hman h hobj ha hu k) (fun d => ?_)
  exact parCheckout_untouched h emp fs (fun rel => by simp) k

/-- **(c) All schedules end in the same file system**: the final states of any two concurrent traces — in
particular of the sequential trace of the model and of any sibling permutation — agree at EVERY path, from
every start state. -/
theorem parCheckout_schedules_same {t : TCfg κ} {s : Store κ} (hman : ManUniq t.ctx s) {fuel : Nat}
    {pre : List Name} {cur : Option (Node κ)} {c : Child} {calls calls' : List (Call κ)}
    (h : ParCheckoutTrace t s fuel pre cur c calls) (h' : ParCheckoutTrace t s fuel pre cur c calls')
    (emp : κ) (fs : FS κ) : ∀ p, (replay emp fs calls).get p = (replay emp fs calls').get p := by
  obtain ⟨r, seq, hseq, hsp, hs, -⟩ := parCheckout_samePerPath hman h
  obtain ⟨r', seq', hseq', hsp', hs', -⟩ := parCheckout_samePerPath hman h'
  rw [hseq] at hseq'
  simp only [Except.ok.injEq, Prod.mk.injEq] at hseq'
  obtain ⟨-, rfl⟩ := hseq'
  intro p
  rw [hsp.replay_get hs, hsp'.replay_get hs']

/-- every crash state of every schedule shows, at any single path, what some crash state of the
sequential run shows there -/
theorem parCheckout_prefix_like_seq {t : TCfg κ} {s : Store κ} (hman : ManUniq t.ctx s) {fuel : Nat}
    {pre : List Name} {cur : Option (Node κ)} {c : Child} {calls seq : List (Call κ)} {r : Node κ}
    (h : ParCheckoutTrace t s fuel pre cur c calls) (hseq : checkoutNodeT t s fuel pre cur c = .ok (r, seq))
    (emp : κ) (fs : FS κ) (k : Nat) (p : P) :
    ∃ k', (replay emp fs (calls.take k)).get p = (replay emp fs (seq.take k')).get p := by
  obtain ⟨r', seq', hseq', hsp, hs, -⟩ := parCheckout_samePerPath hman h
  rw [hseq] at hseq'
  simp only [Except.ok.injEq, Prod.mk.injEq] at hseq'
  obtain ⟨-, rfl⟩ := hseq'
  exact hsp.take_get hs emp fs k p

/-- **the state after a complete schedule**: it agrees with the logical result `r` of the model below the
path (every file checked out with its bytes, every link, every directory; nothing where the tree has
nothing), every pre-existing entry is kept or is a link replaced by a COMPLETE copy (`KeptB`) -/
theorem parCheckout_final {t : TCfg κ} {emp : κ} (hemp : ∀ x, t.isEmp x = true → x = emp) {s : Store κ}
    (hman : ManUniq t.ctx s) {fuel : Nat} {pre : List Name} {cur : Option (Node κ)} {c : Child}
    {calls : List (Call κ)} (h : ParCheckoutTrace t s fuel pre cur c calls) {fs : FS κ}
    (hobj : ObjIn t.ctx s fs) (ha : AbsAt pre cur fs) (hu : uniqOpt cur) :
    ∃ r seq, checkoutNodeT t s fuel pre cur c = .ok (r, seq) ∧ AbsAt pre (some r) (replay emp fs calls) ∧
      KeptB t.strat fs (replay emp fs calls) := by
  obtain ⟨-, hk, r, habs, -, seq, hseq⟩ := parCheckout_keeps_from hemp hman h id hobj ha (KeptB.refl _ fs) hu
  exact ⟨r, seq, hseq, habs, hk⟩

/-! ## 3. one `LocalCache.Checkout` inside the command, the whole command -/

/-- the traces of one `LocalCache.Checkout` with concurrent workers: the `MkdirAll` of the ancestors, then
any concurrent trace of the artifact -/
def ParArtTrace (c : CmdCfg κ) (strat : Strat) (a : Art) (w : World κ) (calls : List (Call κ)) : Prop :=
  ∃ l, ParCheckoutTrace (c.tc strat) w.store c.cfg.fuel (Path.comps a.path)
      (getPath w.ws (Path.comps a.path)) a.child l ∧
    calls = parentMkdirs w.ws (Path.comps a.path) ++ l

theorem parentMkdirs_single (ws : Node κ) (comps : List Name) : AllSingle (parentMkdirs (κ := κ) ws comps) := by
  intro x hx
  simp only [parentMkdirs, List.mem_map] at hx
  obtain ⟨p, -, rfl⟩ := hx
  rfl

/-- inversion of `checkoutArtWT` -/
theorem checkoutArtWT_inv {c : CmdCfg κ} {strat : Strat} {a : Art} {w w' : World κ} {calls : List (Call κ)}
    (h : checkoutArtWT c strat a w = .ok (w', calls)) :
    ∃ n l, checkoutNodeT (c.tc strat) w.store c.cfg.fuel (Path.comps a.path)
        (getPath w.ws (Path.comps a.path)) a.child = .ok (n, l) ∧
      calls = parentMkdirs w.ws (Path.comps a.path) ++ l ∧ w'.store = w.store := by
  unfold checkoutArtWT at h
  simp only at h
  cases hT : checkoutNodeT (c.tc strat) w.store c.cfg.fuel (Path.comps a.path)
      (getPath w.ws (Path.comps a.path)) a.child with
  | error e => rw [hT] at h; cases h
  | ok v =>
    obtain ⟨n, l⟩ := v
    rw [hT] at h
    simp only at h
    cases hset : setPath w.ws (Path.comps a.path) n with
    | none => rw [hset] at h; cases h
    | some ws' =>
      rw [hset] at h
      simp only [Except.ok.injEq, Prod.mk.injEq] at h
      exact ⟨n, l, rfl, h.2.symm, by rw [← h.1]⟩

/-- the sequential trace of the model's `LocalCache.Checkout` is one of them -/
theorem checkoutArtWT_is_parArtTrace {c : CmdCfg κ} {strat : Strat} {a : Art} {w w' : World κ}
    {calls : List (Call κ)} (hman : ManUniq c.cfg.ctx w.store)
    (h : checkoutArtWT c strat a w = .ok (w', calls)) : ParArtTrace c strat a w calls := by
  obtain ⟨n, l, hT, rfl, -⟩ := checkoutArtWT_inv h
  exact ⟨l, checkoutNodeT_parTrace (t := c.tc strat) hman hT, rfl⟩

/-- every concurrent trace of the artifact issues at every path the calls of the model's trace -/
theorem parArt_samePerPath {c : CmdCfg κ} {strat : Strat} {a : Art} {w w' : World κ}
    {seq calls : List (Call κ)} (hman : ManUniq c.cfg.ctx w.store)
    (hseq : checkoutArtWT c strat a w = .ok (w', seq)) (h : ParArtTrace c strat a w calls) :
    SamePerPath calls seq ∧ AllSingle calls := by
  obtain ⟨n, l, hT, rfl, -⟩ := checkoutArtWT_inv hseq
  obtain ⟨l', hpar, rfl⟩ := h
  obtain ⟨r, seq', hseq', hsp, hs, -⟩ := parCheckout_samePerPath (t := c.tc strat) hman hpar
  rw [hT] at hseq'
  simp only [Except.ok.injEq, Prod.mk.injEq] at hseq'
  obtain ⟨-, rfl⟩ := hseq'
  exact ⟨(SamePerPath.refl _).append hsp, (parentMkdirs_single _ _).append hs⟩

/-- **One `LocalCache.Checkout` with concurrent workers, inside a command**: if the model's sequential
`checkoutArtWT` succeeds, every concurrent trace of the artifact keeps, after every prefix, the entries the
workspace held in the state `fs0` before the command, and ends in the state that agrees with the model's
logical result `w'.ws` at every workspace path. -/
theorem parArt_keeps {c : CmdCfg κ} {strat : Strat} {emp : κ} (hemp : ∀ x, c.isEmp x = true → x = emp)
    {a : Art} {w w' : World κ} {seq calls : List (Call κ)} (hman : ManUniq c.cfg.ctx w.store)
    (hseq : checkoutArtWT c strat a w = .ok (w', seq)) (h : ParArtTrace c strat a w calls)
    {fs0 fs : FS κ} (hobj : ObjIn c.cfg.ctx w.store fs0) (ha : AbsAt [] (some w.ws) fs)
    (hk : KeptB strat fs0 fs) (hu : uniqNode w.ws) :
    StepRes strat emp fs0 [] w'.ws fs calls := by
  obtain ⟨res, -⟩ := checkoutArtWT_step hemp hseq hobj ha hk hu
  obtain ⟨hsp, hs⟩ := parArt_samePerPath hman hseq h
  have heq : ∀ q, (replay emp fs calls).get q = (replay emp fs seq).get q := hsp.replay_get hs emp fs
  refine ⟨res.abs.frame (fun _ => heq _), hsp.pref_keptP hs res.pref, res.kept.frame (fun q _ => heq _), ?_⟩
  intro x hx p hp
  exact res.below x ((hsp.mem x).1 hx) p hp

/-- from the abstraction of the world: every prefix of every schedule of one artifact keeps the workspace -/
theorem parArt_keeps_fsOfWorld {c : CmdCfg κ} {strat : Strat} {emp : κ}
    (hemp : ∀ x, c.isEmp x = true → x = emp) {a : Art} {w w' : World κ} {seq calls : List (Call κ)}
    (hman : ManUniq c.cfg.ctx w.store) (hseq : checkoutArtWT c strat a w = .ok (w', seq))
    (h : ParArtTrace c strat a w calls) (hu : uniqNode w.ws) :
    (∀ k, KeptP strat emp (fsOfWorld c w) (replay emp (fsOfWorld c w) (calls.take k))) ∧
      AbsAt [] (some w'.ws) (replay emp (fsOfWorld c w) calls) ∧
      KeptB strat (fsOfWorld c w) (replay emp (fsOfWorld c w) calls) :=
  have r := parArt_keeps hemp hman hseq h (objIn_init c w) (absAt_init c w hu) (KeptB.refl _ _) hu
  ⟨r.pref, r.abs, r.kept⟩

/-- all schedules of one artifact end in the same file system -/
theorem parArt_schedules_same {c : CmdCfg κ} {strat : Strat} {a : Art} {w w' : World κ}
    {seq calls calls' : List (Call κ)} (hman : ManUniq c.cfg.ctx w.store)
    (hseq : checkoutArtWT c strat a w = .ok (w', seq)) (h : ParArtTrace c strat a w calls)
    (h' : ParArtTrace c strat a w calls') (emp : κ) (fs : FS κ) :
    ∀ p, (replay emp fs calls).get p = (replay emp fs calls').get p := by
  obtain ⟨hsp, hs⟩ := parArt_samePerPath hman hseq h
  obtain ⟨hsp', hs'⟩ := parArt_samePerPath hman hseq h'
  intro p
  rw [hsp.replay_get hs, hsp'.replay_get hs']

/-! ### the whole command -/

/-- the call lists of the whole command with concurrent workers: one list per `LocalCache.Checkout` of the
sequential run `segs`, each a list that issues at every path the calls of the model's segment in the same
order — e.g. (`parArt_samePerPath`) any `ParArtTrace` of that artifact in the world it is checked out in -/
def CmdParSegs (segs segs' : List (List (Call κ))) : Prop :=
  All2 (fun seg seg' => SamePerPath seg' seg ∧ AllSingle seg') segs segs'

theorem CmdParSegs.refl_of_single : ∀ {segs : List (List (Call κ))}, (∀ seg ∈ segs, AllSingle seg) →
    CmdParSegs segs segs
  | [], _ => .nil
  | seg :: _, h => .cons ⟨SamePerPath.refl _, h seg List.mem_cons_self⟩
      (CmdParSegs.refl_of_single (fun s hs => h s (List.mem_cons_of_mem _ hs)))

theorem CmdParSegs.flatten {segs segs' : List (List (Call κ))} (h : CmdParSegs segs segs') :
    SamePerPath segs'.flatten segs.flatten ∧ AllSingle segs'.flatten := by
  induction h with
  | nil => exact ⟨SamePerPath.refl _, fun c hc => by cases hc⟩
  | cons h _ ih =>
    simp only [List.flatten_cons]
    exact ⟨h.1.append ih.1, h.2.append ih.2⟩

theorem CmdParSegs.coCalls {segs segs' : List (List (Call κ))} (h : CmdParSegs segs segs') :
    SamePerPath (coCalls segs') (coCalls segs) ∧ AllSingle (coCalls segs') := by
  obtain ⟨h1, h2⟩ := h.flatten
  refine ⟨((SamePerPath.refl _).append h1).append (SamePerPath.refl _), ?_⟩
  refine AllSingle.append (AllSingle.append ?_ h2) ?_
  · intro x hx; simp only [List.mem_singleton] at hx; subst hx; rfl
  · intro x hx; simp only [List.mem_singleton] at hx; subst hx; rfl

theorem cmdCheckoutT_of_segs {c : CmdCfg κ} {strat : Strat} {single : Bool} {targets : List Bytes}
    {w w' : World κ} {segs : List (List (Call κ))}
    (h : cmdCheckoutSegs c strat single targets w = .ok (w', segs)) :
    cmdCheckoutT c strat single targets w = .ok (w', coCalls segs) := by
  simp [cmdCheckoutT, h]

/-- **The whole command with concurrent workers keeps the workspace after every prefix**: the trace of
`cmdCheckoutT` (lock, artifacts, unlock) with every artifact's segment replaced by a concurrent trace. -/
theorem cmdCheckoutPar_keeps {c : CmdCfg κ} {strat : Strat} {emp : κ}
    (hemp : ∀ x, c.isEmp x = true → x = emp) {single : Bool} {targets : List Bytes} {w w' : World κ}
    {segs segs' : List (List (Call κ))} (hu : uniqNode w.ws)
    (h : cmdCheckoutSegs c strat single targets w = .ok (w', segs)) (hpar : CmdParSegs segs segs') :
    ∀ k, KeptP strat emp (fsOfWorld c w) (replay emp (fsOfWorld c w) ((coCalls segs').take k)) := by
  obtain ⟨hsp, hs⟩ := hpar.coCalls
  exact hsp.pref_keptP hs (cmdCheckoutT_keeps hemp hu (cmdCheckoutT_of_segs h))

/-- … and every prefix is `Safe` for all regular files the workspace held before the command -/
theorem cmdCheckoutPar_crash_safe {c : CmdCfg κ} {strat : Strat} {emp : κ}
    (hemp : ∀ x, c.isEmp x = true → x = emp) {single : Bool} {targets : List Bytes} {w w' : World κ}
    {segs segs' : List (List (Call κ))} (hu : uniqNode w.ws) (hc : Consistent c.cfg.ctx w.store)
    (h : cmdCheckoutSegs c strat single targets w = .ok (w', segs)) (hpar : CmdParSegs segs segs') :
    ∀ k, Safe c.cfg.ctx (trackedOf [] w.ws) (replay emp (fsOfWorld c w) ((coCalls segs').take k)) := by
  obtain ⟨hsp, hs⟩ := hpar.coCalls
  have hT := cmdCheckoutT_of_segs h
  intro k
  refine safe_of_keptP (trackedOf_ws [] w.ws) (fsOfWorld_safe c w hu hc)
    (cmdCheckoutPar_keeps hemp hu h hpar k) (fun d => ?_)
  obtain ⟨k', hk'⟩ := hsp.take_get hs emp (fsOfWorld c w) k (.obj d)
  rw [hk']
  exact cmdCheckoutT_untouched hemp hu hT (by simp) (by simp) k'

/-- **… and ends in the state of the sequential command**: the conclusion of `cmdCheckoutT_final` — the file
system agrees with the final logical workspace at every path, `Rel`, `KeptB`, the lock is gone — and the
final file system is the one of the sequential trace at EVERY path. -/
theorem cmdCheckoutPar_final {c : CmdCfg κ} {strat : Strat} {emp : κ}
    (hemp : ∀ x, c.isEmp x = true → x = emp) {single : Bool} {targets : List Bytes} {w w' : World κ}
    {segs segs' : List (List (Call κ))} (hu : uniqNode w.ws)
    (h : cmdCheckoutSegs c strat single targets w = .ok (w', segs)) (hpar : CmdParSegs segs segs') :
    (∀ p, (replay emp (fsOfWorld c w) (coCalls segs')).get p = (replay emp (fsOfWorld c w) (coCalls segs)).get p) ∧
      Rel w'.ws (replay emp (fsOfWorld c w) (coCalls segs')) ∧
      AbsAt [] (some w'.ws) (replay emp (fsOfWorld c w) (coCalls segs')) ∧
      KeptB strat (fsOfWorld c w) (replay emp (fsOfWorld c w) (coCalls segs')) ∧
      (replay emp (fsOfWorld c w) (coCalls segs')).get .lock = none ∧ w'.store = w.store ∧ w'.idx = w.idx := by
  obtain ⟨hsp, hs⟩ := hpar.coCalls
  have heq := hsp.replay_get hs emp (fsOfWorld c w)
  obtain ⟨hrel, habs, hk, hlock, hst, hidx⟩ := cmdCheckoutT_final hemp hu (cmdCheckoutT_of_segs h)
  refine ⟨heq, ⟨fun q x hg => ?_, fun k hk' => ?_, hrel.3⟩, habs.frame (fun _ => heq _),
    hk.frame (fun q _ => heq _), by rw [heq]; exact hlock, hst, hidx⟩
  · rw [heq]; exact hrel.1 q x hg
  · rw [heq]; exact hrel.2 k hk'

/-! ### every segment of the sequential command is one `LocalCache.Checkout` -/

/-- `seg` is the model's trace of one `LocalCache.Checkout`, in some world with the cache `s0` -/
def IsArtSeg (c : CmdCfg κ) (strat : Strat) (s0 : Store κ) (seg : List (Call κ)) : Prop :=
  ∃ a w1 w2, checkoutArtWT c strat a w1 = .ok (w2, seg) ∧ w1.store = s0

theorem checkoutArtsT_artSegs {c : CmdCfg κ} {strat : Strat} :
    ∀ (as : List Art) (w w' : World κ) (segs : List (List (Call κ))),
      checkoutArtsT c strat as w = .ok (w', segs) →
      w'.store = w.store ∧ ∀ seg ∈ segs, IsArtSeg c strat w.store seg
  | [], w, w', segs, h => by
    simp only [checkoutArtsT, Except.ok.injEq, Prod.mk.injEq] at h
    obtain ⟨rfl, rfl⟩ := h
    exact ⟨rfl, fun seg hs => by cases hs⟩
  | a :: r, w, w', segs, h => by
    simp only [checkoutArtsT] at h
    by_cases hs : a.skip = true
    · rw [if_pos hs] at h
      exact checkoutArtsT_artSegs r w w' segs h
    · rw [if_neg hs] at h
      cases h1 : checkoutArtWT c strat a w with
      | error e => rw [h1] at h; cases h
      | ok v =>
        obtain ⟨w1, calls1⟩ := v
        rw [h1] at h
        simp only at h
        cases h2 : checkoutArtsT c strat r w1 with
        | error e => rw [h2] at h; cases h
        | ok v =>
          obtain ⟨w2, segs2⟩ := v
          rw [h2] at h
          simp only [Except.ok.injEq, Prod.mk.injEq] at h
          obtain ⟨rfl, rfl⟩ := h
          obtain ⟨-, -, -, -, hst1⟩ := checkoutArtWT_inv h1
          obtain ⟨hst2, hsegs⟩ := checkoutArtsT_artSegs r w1 w2 segs2 h2
          refine ⟨by rw [hst2, hst1], fun seg hseg => ?_⟩
          rcases List.mem_cons.1 hseg with rfl | hseg
          · exact ⟨a, w, w1, h1, rfl⟩
          · rw [← hst1]; exact hsegs seg hseg

theorem checkoutTravT_artSegs {c : CmdCfg κ} {strat : Strat} {s0 : Store κ} (sp : Bytes)
    (p p' : World κ × List (List (Call κ)))
    (hi : p.1.store = s0 ∧ ∀ seg ∈ p.2, IsArtSeg c strat s0 seg)
    (h : (checkoutTravT c strat).act sp p = .ok p') :
    p'.1.store = s0 ∧ ∀ seg ∈ p'.2, IsArtSeg c strat s0 seg := by
  simp only [checkoutTravT] at h
  cases hT : checkoutActT c strat sp p.1 with
  | error e => rw [hT] at h; cases h
  | ok v =>
    obtain ⟨w', segs⟩ := v
    rw [hT] at h
    simp only [Except.ok.injEq] at h
    subst h
    unfold checkoutActT at hT
    cases hst : p.1.stage sp with
    | error e => rw [hst] at hT; cases hT
    | ok stg =>
      rw [hst] at hT
      simp only at hT
      cases h1 : checkoutArtsT c strat (sortArts stg.outputs) p.1 with
      | error e => rw [h1] at hT; cases hT
      | ok v =>
        obtain ⟨w1, segs1⟩ := v
        rw [h1] at hT
        simp only [Except.ok.injEq, Prod.mk.injEq] at hT
        obtain ⟨rfl, rfl⟩ := hT
        obtain ⟨hst1, hsegs⟩ := checkoutArtsT_artSegs _ _ _ _ h1
        refine ⟨by simp only; rw [hst1, hi.1], fun seg hseg => ?_⟩
        rcases List.mem_append.1 hseg with hseg | hseg
        · exact hi.2 seg hseg
        · rw [← hi.1]; exact hsegs seg hseg

/-- **every segment of the sequential command is the model's trace of one `LocalCache.Checkout`** of some
artifact in some intermediate world with the cache of the start -/
theorem cmdCheckoutSegs_artSegs {c : CmdCfg κ} {strat : Strat} {single : Bool} {targets : List Bytes}
    {w w' : World κ} {segs : List (List (Call κ))}
    (h : cmdCheckoutSegs c strat single targets w = .ok (w', segs)) :
    ∀ seg ∈ segs, IsArtSeg c strat w.store seg := by
  obtain ⟨segs1, hpt, hcalls⟩ := cmdCheckoutT_ok_inv (cmdCheckoutT_of_segs h)
  have hinv := perTargetP_inv (Q := fun p : World κ × List (List (Call κ)) =>
      p.1.store = w.store ∧ ∀ seg ∈ p.2, IsArtSeg c strat w.store seg)
    (fun t q q' hq hv => visit_inv (checkoutTravT c strat)
      (fun sp a b ha hb => checkoutTravT_artSegs sp a b ha hb) _ _ _ t q q' hq hv)
    _ _ _ ⟨rfl, fun seg hs => by cases hs⟩ hpt
  unfold cmdCheckoutSegs at h
  by_cases hi : w.idx.isEmpty = true
  · rw [if_pos hi] at h; cases h
  · rw [if_neg hi] at h
    rw [hpt] at h
    simp only [Except.ok.injEq, Prod.mk.injEq] at h
    rw [← h.2]
    exact hinv.2

/-- **the traces of the whole command with concurrent workers**: lock; for every `LocalCache.Checkout` of
the sequential run (artifact `a` in the intermediate world `w1`) ANY concurrent trace of that artifact in
that world; unlock -/
def CmdParTrace (c : CmdCfg κ) (strat : Strat) (single : Bool) (targets : List Bytes) (w : World κ)
    (calls : List (Call κ)) : Prop :=
  ∃ w' segs segs', cmdCheckoutSegs c strat single targets w = .ok (w', segs) ∧
    All2 (fun seg seg' => ∃ a w1 w2, checkoutArtWT c strat a w1 = .ok (w2, seg) ∧ w1.store = w.store ∧
      ParArtTrace c strat a w1 seg') segs segs' ∧
    calls = coCalls segs'

theorem all2_self {α : Type} {R : α → α → Prop} : ∀ {l : List α}, (∀ x ∈ l, R x x) → All2 R l l
  | [], _ => .nil
  | x :: _, h => .cons (h x List.mem_cons_self) (all2_self (fun y hy => h y (List.mem_cons_of_mem _ hy)))

/-- the sequential trace of the model's command is one of them -/
theorem cmdCheckoutT_is_cmdParTrace {c : CmdCfg κ} {strat : Strat} {single : Bool} {targets : List Bytes}
    {w w' : World κ} {calls : List (Call κ)} (hman : ManUniq c.cfg.ctx w.store)
    (h : cmdCheckoutT c strat single targets w = .ok (w', calls)) :
    CmdParTrace c strat single targets w calls := by
  unfold cmdCheckoutT at h
  cases hs : cmdCheckoutSegs c strat single targets w with
  | error e => rw [hs] at h; cases h
  | ok v =>
    obtain ⟨w1, segs⟩ := v
    rw [hs] at h
    simp only [Except.ok.injEq, Prod.mk.injEq] at h
    obtain ⟨rfl, rfl⟩ := h
    refine ⟨w1, segs, segs, hs, all2_self (fun seg hseg => ?_), rfl⟩
    obtain ⟨a, wa, wb, hab, hst⟩ := cmdCheckoutSegs_artSegs hs seg hseg
    exact ⟨a, wa, wb, hab, hst, checkoutArtWT_is_parArtTrace (by rw [hst]; exact hman) hab⟩

theorem CmdParTrace.segs {c : CmdCfg κ} {strat : Strat} {single : Bool} {targets : List Bytes}
    {w : World κ} {calls : List (Call κ)} (hman : ManUniq c.cfg.ctx w.store)
    (h : CmdParTrace c strat single targets w calls) :
    ∃ w' segs segs', cmdCheckoutSegs c strat single targets w = .ok (w', segs) ∧ CmdParSegs segs segs' ∧
      calls = coCalls segs' := by
  obtain ⟨w', segs, segs', hs, hall, rfl⟩ := h
  refine ⟨w', segs, segs', hs, hall.imp (fun seg seg' ⟨a, w1, w2, hab, hst, hpar⟩ => ?_), rfl⟩
  exact parArt_samePerPath (by rw [hst]; exact hman) hab hpar

/-- **`dud checkout` with concurrent workers never removes or changes a workspace entry — except a link to
the object it is copying — after EVERY prefix of EVERY schedule** (the statement of `cmdCheckoutT_keeps`) -/
theorem cmdCheckoutParTrace_keeps {c : CmdCfg κ} {strat : Strat} {emp : κ}
    (hemp : ∀ x, c.isEmp x = true → x = emp) {single : Bool} {targets : List Bytes} {w : World κ}
    {calls : List (Call κ)} (hu : uniqNode w.ws) (hman : ManUniq c.cfg.ctx w.store)
    (h : CmdParTrace c strat single targets w calls) :
    ∀ k, KeptP strat emp (fsOfWorld c w) (replay emp (fsOfWorld c w) (calls.take k)) := by
  obtain ⟨w', segs, segs', hs, hpar, rfl⟩ := h.segs hman
  exact cmdCheckoutPar_keeps hemp hu hs hpar

/-- … every prefix of every schedule of the whole command is `Safe` (the statement of
`cmdCheckoutT_crash_safe`) -/
theorem cmdCheckoutParTrace_crash_safe {c : CmdCfg κ} {strat : Strat} {emp : κ}
    (hemp : ∀ x, c.isEmp x = true → x = emp) {single : Bool} {targets : List Bytes} {w : World κ}
    {calls : List (Call κ)} (hu : uniqNode w.ws) (hc : Consistent c.cfg.ctx w.store)
    (hman : ManUniq c.cfg.ctx w.store) (h : CmdParTrace c strat single targets w calls) :
    ∀ k, Safe c.cfg.ctx (trackedOf [] w.ws) (replay emp (fsOfWorld c w) (calls.take k)) := by
  obtain ⟨w', segs, segs', hs, hpar, rfl⟩ := h.segs hman
  exact cmdCheckoutPar_crash_safe hemp hu hc hs hpar

/-- … and every schedule of the whole command ends in the file system of the sequential command, which is
the abstraction of the logical result (the conclusion of `cmdCheckoutT_final`) -/
theorem cmdCheckoutParTrace_final {c : CmdCfg κ} {strat : Strat} {emp : κ}
    (hemp : ∀ x, c.isEmp x = true → x = emp) {single : Bool} {targets : List Bytes} {w : World κ}
    {calls : List (Call κ)} (hu : uniqNode w.ws) (hman : ManUniq c.cfg.ctx w.store)
    (h : CmdParTrace c strat single targets w calls) :
    ∃ w' seq, cmdCheckoutT c strat single targets w = .ok (w', seq) ∧
      (∀ p, (replay emp (fsOfWorld c w) calls).get p = (replay emp (fsOfWorld c w) seq).get p) ∧
      Rel w'.ws (replay emp (fsOfWorld c w) calls) ∧
      AbsAt [] (some w'.ws) (replay emp (fsOfWorld c w) calls) ∧
      KeptB strat (fsOfWorld c w) (replay emp (fsOfWorld c w) calls) ∧
      (replay emp (fsOfWorld c w) calls).get .lock = none ∧ w'.store = w.store ∧ w'.idx = w.idx := by
  obtain ⟨w', segs, segs', hs, hpar, rfl⟩ := h.segs hman
  exact ⟨w', coCalls segs, cmdCheckoutT_of_segs hs, cmdCheckoutPar_final hemp hu hs hpar⟩

/-- two schedules of the whole command end in the same file system -/
theorem cmdCheckoutParTrace_schedules_same {c : CmdCfg κ} {strat : Strat} {emp : κ}
    (hemp : ∀ x, c.isEmp x = true → x = emp) {single : Bool} {targets : List Bytes} {w : World κ}
    {calls calls' : List (Call κ)} (hu : uniqNode w.ws) (hman : ManUniq c.cfg.ctx w.store)
    (h : CmdParTrace c strat single targets w calls) (h' : CmdParTrace c strat single targets w calls') :
    ∀ p, (replay emp (fsOfWorld c w) calls).get p = (replay emp (fsOfWorld c w) calls').get p := by
  obtain ⟨w1, seq, hseq, heq, -⟩ := cmdCheckoutParTrace_final hemp hu hman h
  obtain ⟨w2, seq', hseq', heq', -⟩ := cmdCheckoutParTrace_final hemp hu hman h'
  rw [hseq] at hseq'
  simp only [Except.ok.injEq, Prod.mk.injEq] at hseq'
  obtain ⟨-, rfl⟩ := hseq'
  intro p
  rw [heq, heq']

/-! ## 2'. runs that fail, are cancelled or are killed -/

/-- every complete concurrent trace is a run, and so is every prefix of it -/
theorem parTrace_is_run {t : TCfg κ} {s : Store κ} {fuel : Nat} {pre : List Name} {cur : Option (Node κ)}
    {c : Child} {calls : List (Call κ)} (h : ParCheckoutTrace t s fuel pre cur c calls) (k : Nat) :
    CheckoutRun t s fuel pre cur c (calls.take k) :=
  CheckoutRun.take fuel pre cur c calls (parTrace_run fuel pre cur c calls h) k

/-- the set of runs is closed under killing the process after any call -/
theorem checkoutRun_prefix_closed {t : TCfg κ} {s : Store κ} {fuel : Nat} {pre : List Name}
    {cur : Option (Node κ)} {c : Child} {calls : List (Call κ)} (h : CheckoutRun t s fuel pre cur c calls)
    (k : Nat) : CheckoutRun t s fuel pre cur c (calls.take k) :=
  CheckoutRun.take fuel pre cur c calls h k

/-- **(a) for failing and cancelled runs: after EVERY run of the concurrent checkout** (`CheckoutRun`:
every worker may stop after any of its calls or contribute nothing at all — it failed, it was cancelled by
the errgroup because a sibling failed, the process was killed; in particular after every prefix of a run)
**every pre-existing workspace entry is unchanged**, up to a link to the very object being copied
(`KeptP`).  No hypothesis that anything succeeds. -/
theorem parCheckoutRun_keeps {t : TCfg κ} {emp : κ} (hemp : ∀ x, t.isEmp x = true → x = emp) {s : Store κ}
    (hman : ManUniq t.ctx s) {fuel : Nat} {pre : List Name} {cur : Option (Node κ)} {c : Child}
    {calls : List (Call κ)} (h : CheckoutRun t s fuel pre cur c calls) {fs : FS κ}
    (hobj : ObjIn t.ctx s fs) (ha : AbsAt pre cur fs) (hu : uniqOpt cur) :
    ∀ k, KeptP t.strat emp fs (replay emp fs (calls.take k)) :=
  fun k => checkoutRun_keptP hemp hman hobj fuel pre cur c _ (CheckoutRun.take fuel pre cur c calls h k) ha hu

/-- no run writes anything but workspace paths below the entry's path -/
theorem parCheckoutRun_untouched {t : TCfg κ} {s : Store κ} {fuel : Nat} {pre : List Name}
    {cur : Option (Node κ)} {c : Child} {calls : List (Call κ)}
    (h : CheckoutRun t s fuel pre cur c calls) (emp : κ) (fs : FS κ) {p : P}
    (hp : ∀ rel, p ≠ .ws (pre ++ rel)) :
    ∀ k, (replay emp fs (calls.take k)).get p = fs.get p := by
  obtain ⟨hs, hb⟩ := checkoutRun_single_below fuel pre cur c calls h
  intro k
  refine replay_take_get_frame emp calls p fs (fun x hx hmem => ?_) k
  obtain ⟨rel, hrel⟩ := hb.below hs x hx p hmem
  exact hp rel hrel

/-- **(b) for failing and cancelled runs: every run is `Safe` after every prefix** -/
theorem parCheckoutRun_crash_safe {t : TCfg κ} {emp : κ} (hemp : ∀ x, t.isEmp x = true → x = emp)
    {s : Store κ} (hman : ManUniq t.ctx s) {fuel : Nat} {pre : List Name} {cur : Option (Node κ)} {c : Child}
    {calls : List (Call κ)} (h : CheckoutRun t s fuel pre cur c calls) {fs : FS κ}
    (hobj : ObjIn t.ctx s fs) (ha : AbsAt pre cur fs) (hu : uniqOpt cur) {tracked : List (P × κ)}
    (htw : TrackedWs tracked) (hs : Safe t.ctx tracked fs) :
    ∀ k, Safe t.ctx tracked (replay emp fs (calls.take k)) := by
  intro k
  refine safe_of_keptP htw hs (parCheckoutRun_keeps hemp hman h hobj ha hu k) (fun d => ?_)
  exact parCheckoutRun_untouched h emp fs (fun rel => by simp) k

/-! ## Boolean checkers, enumeration of all schedules (for concrete instances) -/

def namesDistinctB : List Child → Bool
  | [] => true
  | c :: cs => cs.all (fun c' => c.name != c'.name) && namesDistinctB cs

theorem namesDistinct_of_B : ∀ (cs : List Child), namesDistinctB cs = true → NamesDistinct cs
  | [], _ => List.Pairwise.nil
  | c :: cs, h => by
    simp only [namesDistinctB, Bool.and_eq_true, List.all_eq_true, bne_iff_ne] at h
    exact List.pairwise_cons.2 ⟨fun c' hc' => h.1 c' hc', namesDistinct_of_B cs h.2⟩

/-- every manifest stored in the cache lists pairwise distinct names -/
def manUniqB (ctx : Ctx κ) (s : Store κ) : Bool :=
  s.all (fun e => match readManifest ctx s e.1 with
    | .ok cs => namesDistinctB cs
    | .error _ => true)

theorem manUniq_of_B {ctx : Ctx κ} {s : Store κ} (h : manUniqB ctx s = true) : ManUniq ctx s := by
  intro d cs hr
  have hget : ∃ o, s.get d = some o := by
    unfold readManifest at hr
    cases hg : s.get d with
    | none => rw [hg] at hr; cases hr
    | some o => exact ⟨o, rfl⟩
  obtain ⟨o, ho⟩ := hget
  have hm := alookup_mem ho
  simp only [manUniqB, List.all_eq_true] at h
  have := h _ hm
  simp only [hr] at this
  exact namesDistinct_of_B cs this

/-- all interleavings of two lists (structural recursion, so that the kernel can evaluate it) -/
def shufflesAux {α : Type} (a : α) (rec1 : List α → List (List α)) (l1 : List α) : List α → List (List α)
  | [] => [a :: l1]
  | b :: l2 => (rec1 (b :: l2)).map (a :: ·) ++ (shufflesAux a rec1 l1 l2).map (b :: ·)

def shuffles {α : Type} : List α → List α → List (List α)
  | [], l2 => [l2]
  | a :: l1, l2 => shufflesAux a (shuffles l1) l1 l2

theorem shuffles_nil_left {α : Type} (l2 : List α) : shuffles [] l2 = [l2] := rfl
theorem shuffles_cons_nil {α : Type} (a : α) (l1 : List α) : shuffles (a :: l1) [] = [a :: l1] := rfl
theorem shuffles_cons_cons {α : Type} (a b : α) (l1 l2 : List α) :
    shuffles (a :: l1) (b :: l2) =
      (shuffles l1 (b :: l2)).map (a :: ·) ++ (shuffles (a :: l1) l2).map (b :: ·) := rfl

theorem mem_shuffles {α : Type} : ∀ (l1 l2 l : List α), l ∈ shuffles l1 l2 ↔ Shuffle l1 l2 l := by
  intro l1 l2 l
  constructor
  · induction l1 generalizing l l2 with
    | nil =>
      intro h
      have : l = l2 := by simpa [shuffles_nil_left] using h
      subst this; exact Shuffle.nil_left _
    | cons a l1 ih1 =>
      induction l2 generalizing l with
      | nil =>
        intro h
        have : l = a :: l1 := by simpa [shuffles_cons_nil] using h
        subst this; exact Shuffle.nil_right _
      | cons b l2 ih2 =>
        intro h
        simp only [shuffles_cons_cons, List.mem_append, List.mem_map] at h
        rcases h with ⟨l', hl', rfl⟩ | ⟨l', hl', rfl⟩
        · exact .left (ih1 _ _ hl')
        · exact .right (ih2 _ hl')
  · intro h
    induction h with
    | nil => simp [shuffles_nil_left]
    | @left a t1 t2 t h ih =>
      cases t2 with
      | nil => rw [h.eq_of_nil_right]; simp [shuffles_cons_nil]
      | cons b t2 =>
        simp only [shuffles_cons_cons, List.mem_append, List.mem_map]
        exact .inl ⟨t, ih, rfl⟩
    | @right a t1 t2 t h ih =>
      cases t1 with
      | nil => rw [h.eq_of_nil_left]; simp [shuffles_nil_left]
      | cons b t1 =>
        simp only [shuffles_cons_cons, List.mem_append, List.mem_map]
        exact .inr ⟨t, ih, rfl⟩

/-- all interleavings of n lists -/
def shufflesN {α : Type} : List (List α) → List (List α)
  | [] => [[]]
  | t :: ts => (shufflesN ts).flatMap (fun r => shuffles t r)

theorem mem_shufflesN {α : Type} : ∀ (ts : List (List α)) (l : List α), l ∈ shufflesN ts ↔ ShuffleN ts l
  | [], l => by
    simp only [shufflesN, List.mem_singleton]
    exact ⟨fun h => h ▸ .nil, fun h => h.nil_inv⟩
  | t :: ts, l => by
    simp only [shufflesN, List.mem_flatMap]
    constructor
    · rintro ⟨r, hr, hl⟩
      exact .cons ((mem_shufflesN ts r).1 hr) ((mem_shuffles _ _ _).1 hl)
    · intro h
      obtain ⟨r, hr, hi⟩ := h.cons_inv
      exact ⟨r, (mem_shufflesN ts r).2 hr, (mem_shuffles _ _ _).2 hi⟩

/-- one element from each list -/
def choices {β : Type} : List (List β) → List (List β)
  | [] => [[]]
  | xs :: rest => xs.flatMap (fun x => (choices rest).map (x :: ·))

theorem mem_choices_map {α β : Type} (f : α → List β) : ∀ (as : List α) (bs : List β),
    bs ∈ choices (as.map f) → All2 (fun a b => b ∈ f a) as bs
  | [], bs, h => by
    simp only [List.map_nil, choices, List.mem_singleton] at h
    subst h; exact .nil
  | a :: as, bs, h => by
    simp only [List.map_cons, choices, List.mem_flatMap, List.mem_map] at h
    obtain ⟨x, hx, r, hr, rfl⟩ := h
    exact .cons hx (mem_choices_map f as r hr)

/-- **all schedules of the nested concurrent checkout**, as a list (executable) -/
def enumPar (t : TCfg κ) (s : Store κ) :
    Nat → List Name → Option (Node κ) → Child → List (List (Call κ))
  | 0, _, _, _ => []
  | fuel + 1, pre, cur, c =>
    if c.isDir then
      if hasSum c.sum && s.has c.sum then
        match readManifest t.ctx s c.sum with
        | .error _ => []
        | .ok cs =>
          match cur with
          | some (.dir es) =>
            (choices (cs.map fun c' => enumPar t s fuel (pre ++ [c'.name]) (alookup es c'.name) c')).flatMap
              shufflesN
          | none =>
            ((choices (cs.map fun c' => enumPar t s fuel (pre ++ [c'.name]) (alookup [] c'.name) c')).flatMap
              shufflesN).map (Call.mkdir (.ws pre) :: ·)
          | some _ => []
      else []
    else
      match checkoutFileT t (.ws pre) cur c.sum s with
      | .ok (_, calls) => [calls]
      | .error _ => []

/-- every enumerated schedule is a trace of the concurrent checkout -/
theorem enumPar_sound {t : TCfg κ} {s : Store κ} :
    ∀ (fuel : Nat) (pre : List Name) (cur : Option (Node κ)) (c : Child) (l : List (Call κ)),
      l ∈ enumPar t s fuel pre cur c → ParCheckoutTrace t s fuel pre cur c l
  | 0, _, _, _, _, h => by simp [enumPar] at h
  | fuel + 1, pre, cur, c, l, h => by
    simp only [enumPar] at h
    simp only [CheckoutTraces]
    by_cases hd : c.isDir = true
    · rw [if_pos hd] at h
      by_cases hchk : (hasSum c.sum && s.has c.sum) = true
      · rw [if_pos hchk] at h
        simp only [Bool.and_eq_true] at hchk
        cases hm : readManifest t.ctx s c.sum with
        | error e => rw [hm] at h; simp at h
        | ok cs =>
          rw [hm] at h
          simp only at h
          cases cur with
          | none =>
            simp only [List.mem_map, List.mem_flatMap] at h
            obtain ⟨l', ⟨ts, hts, hl'⟩, rfl⟩ := h
            have hall := mem_choices_map _ cs ts hts
            exact .inl ⟨hd, hchk.1, hchk.2, cs, [], [.mkdir (.ws pre)], ts, l', rfl, .inr ⟨rfl, rfl, rfl⟩,
              hall.imp (fun c' tr h' => enumPar_sound fuel _ _ _ _ h'), (mem_shufflesN ts l').1 hl', rfl⟩
          | some n =>
            cases n with
            | dir es =>
              simp only [List.mem_flatMap] at h
              obtain ⟨ts, hts, hl'⟩ := h
              have hall := mem_choices_map _ cs ts hts
              exact .inl ⟨hd, hchk.1, hchk.2, cs, es, [], ts, l, rfl, .inl ⟨rfl, rfl⟩,
                hall.imp (fun c' tr h' => enumPar_sound fuel _ _ _ _ h'), (mem_shufflesN ts l).1 hl', rfl⟩
            | file _ => simp at h
            | link _ => simp at h
            | other => simp at h
      · rw [if_neg hchk] at h; simp at h
    · rw [if_neg hd] at h
      have hd' : c.isDir = false := by simpa using hd
      cases hf : checkoutFileT t (.ws pre) cur c.sum s with
      | error e => rw [hf] at h; simp at h
      | ok v =>
        obtain ⟨r, calls⟩ := v
        rw [hf] at h
        simp only [List.mem_singleton] at h
        subst h
        exact .inr ⟨hd', r, rfl⟩

/-- below a path of the workspace the file system agrees with what the tree holds there -/
theorem AbsAt.sub {ws : Node κ} {fs : FS κ} (ha : AbsAt [] (some ws) fs) (comps : List Name) :
    AbsAt comps (getPath ws comps) fs := by
  intro r
  have := ha (comps ++ r)
  rw [getOpt_some, getPath_append] at this
  simpa [getOpt] using this

/-! ## 4. non-vacuity: a directory with two files and a sub-directory, all schedules enumerated -/

namespace ExamplePar
open Dud Dud.Sys Dud.Example ExampleCmd ExampleCheckout

deriving instance DecidableEq for Entry
deriving instance DecidableEq for Call

/-- the manifest of `a/s/`: one file `z` -/
def manSub : Obj K := .man .new [115] [⟨[122], df, false⟩]
def dsub : Digest := manSub.digest ctxS
/-- the manifest of `a/`: the files `x`, `y` (empty) and the sub-directory `s` -/
def manA3 : Obj K := .man .new [97] [⟨[120], dx, false⟩, ⟨[121], dy, false⟩, ⟨[115], dsub, true⟩]
def da3 : Digest := manA3.digest ctxS
def store3 : Store K := mkStore [.blob (.raw "x"), .blob (.raw ""), .blob (.raw "deep"), manSub, manA3]
/-- the artifact: directory `a` -/
def artA : Art := { path := [97], isDir := true, sum := da3 }

/-- workspace 1: an unrelated file `c`, the directory `a` with an unrelated file `a/w` -/
def w1 : World K :=
  { ws := .dir [([99], .file (.raw "i")), ([97], .dir [([119], .file (.raw "keep"))])], store := store3, idx := [] }
/-- workspace 2: moreover `a/x` is a link to the very object (the exception of `KeptP` under copy) -/
def w2 : World K :=
  { w1 with ws := .dir [([99], .file (.raw "i")),
      ([97], .dir [([119], .file (.raw "keep")), ([120], .link (.obj dx))])] }
/-- workspace 3: `a/s/z` exists with other bytes: an entry IN THE WAY, two levels down -/
def wBad : World K :=
  { w1 with ws := .dir [([99], .file (.raw "i")),
      ([97], .dir [([119], .file (.raw "keep")), ([115], .dir [([122], .file (.raw "other"))])])] }

theorem store3_manUniq : ManUniq ctxS store3 := manUniq_of_B (by decide +kernel)
theorem store3_consistent : Consistent ctxS store3 := mkStore_consistent _
theorem w1_uniq : uniqNode w1.ws := uniqNode_of_B _ (by decide +kernel)
theorem w2_uniq : uniqNode w2.ws := uniqNode_of_B _ (by decide +kernel)
theorem wBad_uniq : uniqNode wBad.ws := uniqNode_of_B _ (by decide +kernel)

/-- ALL schedules of the concurrent checkout of `a` -/
def schedules (strat : Strat) (w : World K) : List (List (Call K)) :=
  enumPar (ccS.tc strat) w.store ccS.cfg.fuel (Path.comps artA.path) (getPath w.ws (Path.comps artA.path))
    artA.child

/-- the sequential trace of the model (empty on failure) -/
def seqCalls (strat : Strat) (w : World K) : List (Call K) :=
  match checkoutArtWT ccS strat artA w with
  | .ok (_, calls) => calls
  | .error _ => []

theorem seqCalls_ok {strat : Strat} {w : World K} (h : (seqCalls strat w).isEmpty = false) :
    ∃ w', checkoutArtWT ccS strat artA w = .ok (w', seqCalls strat w) := by
  unfold seqCalls at h ⊢
  cases hT : checkoutArtWT ccS strat artA w with
  | error e => rw [hT] at h; simp at h
  | ok v => exact ⟨v.1, rfl⟩

theorem artA_comps : Path.comps artA.path = [[97]] := by decide +kernel

theorem schedules_par {strat : Strat} {w : World K} : ∀ l ∈ schedules strat w, ParArtTrace ccS strat artA w l := by
  intro l hl
  refine ⟨l, enumPar_sound _ _ _ _ _ hl, ?_⟩
  rw [artA_comps]; rfl

/-- link strategy: `a/x`, `a/y` one call each, `a/s` two (`mkdir`, the link `a/s/z`): 4!/2! = 12 schedules;
copy strategy: 3 + 1 + 4 calls: 8!/(3!·4!) = 280; copy over the link `a/x`: 4 + 1 + 4 calls: 630 -/
example : (schedules .link w1).length = 12 ∧ (schedules .copy w1).length = 280 ∧
    (schedules .copy w2).length = 630 := by decide +kernel

/-- the sequential trace of the model, and the trace with the siblings in the opposite order (`s`, `y`,
`x`: a sibling permutation), and a proper interleaving (`mkdir a/s` first, `a/s/z` last) are schedules -/
example :
    seqCalls .link w1 =
      [.symlink (.obj dx) (.ws [[97], [120]]), .symlink (.obj dy) (.ws [[97], [121]]),
       .mkdir (.ws [[97], [115]]), .symlink (.obj df) (.ws [[97], [115], [122]])] ∧
    seqCalls .link w1 ∈ schedules .link w1 ∧
    [.mkdir (.ws [[97], [115]]), .symlink (.obj df) (.ws [[97], [115], [122]]),
     .symlink (.obj dy) (.ws [[97], [121]]), .symlink (.obj dx) (.ws [[97], [120]])] ∈ schedules .link w1 ∧
    [.mkdir (.ws [[97], [115]]), .symlink (.obj dy) (.ws [[97], [121]]),
     .symlink (.obj dx) (.ws [[97], [120]]), .symlink (.obj df) (.ws [[97], [115], [122]])] ∈ schedules .link w1 := by
  decide +kernel

def fs0 (w : World K) : FS K := fsOfWorld ccS w

/-- the workspace paths of the example -/
def wsPaths : List P :=
  [.ws [[99]], .ws [[97]], .ws [[97], [119]], .ws [[97], [120]], .ws [[97], [121]], .ws [[97], [115]],
   .ws [[97], [115], [122]]]

/-- all schedules end in the state of the sequential trace (at the listed paths) -/
def sameFinalB (strat : Strat) (w : World K) : Bool :=
  (schedules strat w).all fun l =>
    wsPaths.all fun p =>
      (replay Example.emp (fs0 w) l).get p == (replay Example.emp (fs0 w) (seqCalls strat w)).get p

/-- after every prefix of every schedule the listed entries are in place -/
def keepsB (strat : Strat) (w : World K) (pre : List (P × Entry K)) : Bool :=
  (schedules strat w).all fun l =>
    (List.range (l.length + 1)).all fun k =>
      pre.all fun pe => (replay Example.emp (fs0 w) (l.take k)).get pe.1 == some pe.2

/-- the pre-existing entries: the unrelated file `c`, the directory `a`, the unrelated file `a/w` -/
def pre1 : List (P × Entry K) :=
  [(.ws [[99]], .file (.raw "i") 0o644), (.ws [[97]], .dir), (.ws [[97], [119]], .file (.raw "keep") 0o644)]

/-- **by evaluation**: all 12 / 280 / 630 schedules end in the file system of the sequential trace … -/
example : sameFinalB .link w1 = true := by decide +kernel
example : sameFinalB .copy w1 = true := by decide +kernel
example : sameFinalB .copy w2 = true := by decide +kernel
/-- … and keep the pre-existing entries after every prefix -/
example : keepsB .link w1 pre1 = true := by decide +kernel
example : keepsB .copy w1 pre1 = true := by decide +kernel

theorem seq_nonempty :
    (seqCalls .link w1).isEmpty = false ∧ (seqCalls .copy w1).isEmpty = false ∧
    (seqCalls .link w2).isEmpty = false ∧ (seqCalls .copy w2).isEmpty = false := by decide +kernel

/-- **by the theorems** (all hypotheses are satisfiable together): every enumerated schedule, for both
strategies and both workspaces, keeps the pre-existing entries after every prefix (`KeptP`), is `Safe` after
every prefix, and ends in the file system of the sequential trace at EVERY path -/
theorem all_schedules_ok {strat : Strat} {w : World K} (hu : uniqNode w.ws) (hst : w.store = store3)
    (hne : (seqCalls strat w).isEmpty = false) :
    ∀ l ∈ schedules strat w,
      (∀ k, KeptP strat Example.emp (fs0 w) (replay Example.emp (fs0 w) (l.take k))) ∧
      (∀ p, (replay Example.emp (fs0 w) l).get p = (replay Example.emp (fs0 w) (seqCalls strat w)).get p) := by
  intro l hl
  obtain ⟨w', hseq⟩ := seqCalls_ok hne
  have hman : ManUniq ccS.cfg.ctx w.store := by rw [hst]; exact store3_manUniq
  have hpar := schedules_par l hl
  exact ⟨(parArt_keeps_fsOfWorld (c := ccS) Example.hemp hman hseq hpar hu).1,
    parArt_schedules_same hman hseq hpar (checkoutArtWT_is_parArtTrace hman hseq) Example.emp (fs0 w)⟩

example : ∀ l ∈ schedules .copy w2,
    (∀ k, KeptP .copy Example.emp (fs0 w2) (replay Example.emp (fs0 w2) (l.take k))) ∧
    (∀ p, (replay Example.emp (fs0 w2) l).get p = (replay Example.emp (fs0 w2) (seqCalls .copy w2)).get p) :=
  all_schedules_ok w2_uniq rfl seq_nonempty.2.2.2

example : ∀ l ∈ schedules .link w1,
    (∀ k, KeptP .link Example.emp (fs0 w1) (replay Example.emp (fs0 w1) (l.take k))) ∧
    (∀ p, (replay Example.emp (fs0 w1) l).get p = (replay Example.emp (fs0 w1) (seqCalls .link w1)).get p) :=
  all_schedules_ok w1_uniq rfl seq_nonempty.1

/-- node level, with `Safe`: every prefix of every enumerated schedule is safe for the regular files of the
workspace -/
example (strat : Strat) : ∀ l ∈ schedules strat w2, ∀ k,
    Safe ctxS (trackedOf [] w2.ws) (replay Example.emp (fs0 w2) (l.take k)) := by
  intro l hl
  have hpar : ParCheckoutTrace (ccS.tc strat) store3 ccS.cfg.fuel [[97]] (getPath w2.ws [[97]]) artA.child l := by
    have := enumPar_sound _ _ _ _ _ hl
    rwa [artA_comps] at this
  exact parCheckout_crash_safe (t := ccS.tc strat) Example.hemp store3_manUniq hpar (objIn_init ccS w2)
    ((absAt_init ccS w2 w2_uniq).sub _) (uniqOpt_getPath _ _ w2_uniq) (trackedOf_ws [] w2.ws)
    (fsOfWorld_safe ccS w2 w2_uniq store3_consistent)

/-! ### the failing case: `a/s/z` is in the way -/

/-- the sequential run fails with "exists", for both strategies … -/
theorem bad_seq_fails (strat : Strat) :
    (match checkoutArtWT ccS strat artA wBad with
      | .error .exists_ => true
      | _ => false) = true := by cases strat <;> decide +kernel

theorem bad_node_fails (strat : Strat) :
    (match checkoutNodeT (ccS.tc strat) store3 ccS.cfg.fuel [[97]] (getPath wBad.ws [[97]]) artA.child with
      | .error _ => true
      | .ok _ => false) = true := by cases strat <;> decide +kernel

/-- … there is no schedule in the enumeration … -/
example (strat : Strat) : schedules strat wBad = [] := by cases strat <;> decide +kernel

/-- … and indeed NO complete concurrent trace exists: the worker of `a/s/z` fails in every schedule -/
theorem bad_no_parTrace (strat : Strat) :
    ¬ ∃ calls, ParCheckoutTrace (ccS.tc strat) store3 ccS.cfg.fuel [[97]] (getPath wBad.ws [[97]])
      artA.child calls := by
  intro h
  obtain ⟨r, seq, hseq⟩ := (parCheckout_complete_iff (t := ccS.tc strat) store3_manUniq _ _ _ _).1 h
  have := bad_node_fails strat
  rw [hseq] at this
  cases this

/-- a failing run: the workers of `a/x` and `a/y` complete, the worker of `a/s` (whose entry `z` fails)
contributes nothing -/
def runBad : List (Call K) :=
  [.symlink (.obj dx) (.ws [[97], [120]]), .symlink (.obj dy) (.ws [[97], [121]])]

theorem runBad_is_run :
    CheckoutRun (ccS.tc .link) store3 ccS.cfg.fuel [[97]] (getPath wBad.ws [[97]]) artA.child runBad :=
  CheckoutRun.dir (fuel := 7) rfl
    (cs := [⟨[120], dx, false⟩, ⟨[121], dy, false⟩, ⟨[115], dsub, true⟩])
    (es := [([119], .file (.raw "keep")), ([115], .dir [([122], .file (.raw "other"))])]) (head := [])
    (ts := [[.symlink (.obj dx) (.ws [[97], [120]])], [.symlink (.obj dy) (.ws [[97], [121]])], []])
    rfl (.inl ⟨rfl, rfl⟩)
    (.cons (CheckoutRun.file (fuel := 6) rfl rfl 1 rfl)
      (.cons (CheckoutRun.file (fuel := 6) rfl rfl 1 rfl) (.cons (CheckoutRun.nil _ _ _ _ _ _) .nil)))
    (ShuffleN.flatten _) rfl

/-- a run of the copy strategy in workspace 1 cut short: `a/x` created and half written, `a/y` created,
`a/s` made, nothing else (cancelled or killed) -/
def runCut : List (Call K) :=
  [.createExcl (.ws [[97], [120]]), .mkdir (.ws [[97], [115]]), .createExcl (.ws [[97], [121]]),
   .writePart (.ws [[97], [120]])]

theorem runCut_is_run :
    CheckoutRun (ccS.tc .copy) store3 ccS.cfg.fuel [[97]] (getPath w1.ws [[97]]) artA.child runCut :=
  CheckoutRun.dir (fuel := 7) rfl
    (cs := [⟨[120], dx, false⟩, ⟨[121], dy, false⟩, ⟨[115], dsub, true⟩])
    (es := [([119], .file (.raw "keep"))]) (head := [])
    (ts := [[.createExcl (.ws [[97], [120]]), .writePart (.ws [[97], [120]])],
            [.createExcl (.ws [[97], [121]])], [.mkdir (.ws [[97], [115]])]])
    rfl (.inl ⟨rfl, rfl⟩)
    (.cons (CheckoutRun.file (fuel := 6) rfl rfl 2 rfl)
      (.cons (CheckoutRun.file (fuel := 6) rfl rfl 1 rfl)
        (.cons (CheckoutRun.dir (fuel := 6) rfl (cs := [⟨[122], df, false⟩]) (es := [])
          (head := [.mkdir (.ws [[97], [115]])]) (ts := [[]]) rfl (.inr ⟨rfl, rfl, rfl⟩)
          (.cons (CheckoutRun.nil _ _ _ _ _ _) .nil) (ShuffleN.flatten _) rfl) .nil)))
    ((mem_shufflesN _ _).1 (by decide +kernel)) rfl

/-- **the failing and the cut-short run keep every pre-existing entry after every prefix and are `Safe`** (by
the theorems), in particular the entry in the way is still there with its bytes (by the theorem AND by
evaluation) -/
example :
    (∀ k, KeptP .link Example.emp (fs0 wBad) (replay Example.emp (fs0 wBad) (runBad.take k))) ∧
    (∀ k, Safe ctxS (trackedOf [] wBad.ws) (replay Example.emp (fs0 wBad) (runBad.take k))) ∧
    (∀ k, (replay Example.emp (fs0 wBad) (runBad.take k)).get (.ws [[97], [115], [122]])
      = some (.file (.raw "other") 0o644)) ∧
    (∀ k, KeptP .copy Example.emp (fs0 w1) (replay Example.emp (fs0 w1) (runCut.take k))) := by
  have hk := parCheckoutRun_keeps (t := ccS.tc .link) Example.hemp store3_manUniq runBad_is_run
    (objIn_init ccS wBad) ((absAt_init ccS wBad wBad_uniq).sub _) (uniqOpt_getPath _ _ wBad_uniq)
  refine ⟨hk, ?_, fun k => ?_, ?_⟩
  · exact parCheckoutRun_crash_safe (t := ccS.tc .link) Example.hemp store3_manUniq runBad_is_run
      (objIn_init ccS wBad) ((absAt_init ccS wBad wBad_uniq).sub _) (uniqOpt_getPath _ _ wBad_uniq)
      (trackedOf_ws [] wBad.ws) (fsOfWorld_safe ccS wBad wBad_uniq store3_consistent)
  · have h0 : (fs0 wBad).get (.ws [[97], [115], [122]]) = some (.file (.raw "other") 0o644) := by
      decide +kernel
    rcases hk k _ _ h0 with h1 | ⟨hc, -⟩
    · exact h1
    · cases hc
  · exact parCheckoutRun_keeps (t := ccS.tc .copy) Example.hemp store3_manUniq runCut_is_run
      (objIn_init ccS w1) ((absAt_init ccS w1 w1_uniq).sub _) (uniqOpt_getPath _ _ w1_uniq)

example : ((replay Example.emp (fs0 wBad) runBad).get (.ws [[97], [115], [122]])
      == some (.file (.raw "other") 0o644)) = true := by decide +kernel

/-- the exception of `KeptP` does occur in some schedule of the copy checkout over the link `a/x`: after the
first call of the sequential trace (`unlink a/x`) the path holds nothing -/
example : ((replay Example.emp (fs0 w2) ((seqCalls .copy w2).take 1)).get (.ws [[97], [120]])).isNone = true ∧
    ((fs0 w2).get (.ws [[97], [120]]) == some (.link (.obj dx))) = true := by decide +kernel

/-! ### the whole command -/

/-- the project: one stage whose output is the directory `a`; workspace and cache of `w` -/
def wcmd (w : World K) : World K := { w with idx := [([1], { stageA with outputs := [artA] })] }

/-- the segments of the sequential command (empty on failure) -/
def segsOf (strat : Strat) (w : World K) : List (List (Call K)) :=
  match cmdCheckoutSegs ccS strat false [] w with
  | .ok (_, segs) => segs
  | .error _ => []

theorem segsOf_ok {strat : Strat} {w : World K} (h : (segsOf strat w).isEmpty = false) :
    ∃ w', cmdCheckoutSegs ccS strat false [] w = .ok (w', segsOf strat w) := by
  unfold segsOf at h ⊢
  cases hT : cmdCheckoutSegs ccS strat false [] w with
  | error e => rw [hT] at h; simp at h
  | ok v => exact ⟨v.1, rfl⟩

/-- the command has one `LocalCache.Checkout`: the artifact `a` in the fresh world -/
theorem segsOf_wcmd (strat : Strat) :
    segsOf strat (wcmd w1) = [seqCalls strat (fresh (wcmd w1))] ∧
    (seqCalls strat (fresh (wcmd w1))).isEmpty = false := by cases strat <;> decide +kernel

/-- **the whole command with concurrent workers**: lock, ANY of the 12 / 280 schedules of the artifact,
unlock is a trace of the concurrent command, and the command-level theorems apply to it -/
theorem cmd_schedules (strat : Strat) : ∀ l ∈ schedules strat w1,
    CmdParTrace ccS strat false [] (wcmd w1) (coCalls [l]) := by
  intro l hl
  obtain ⟨hsegs, hne⟩ := segsOf_wcmd strat
  obtain ⟨w', hcmd⟩ := segsOf_ok (strat := strat) (w := wcmd w1) (by rw [hsegs]; rfl)
  obtain ⟨w2', hart⟩ := seqCalls_ok hne
  rw [hsegs] at hcmd
  refine ⟨w', _, [l], hcmd, .cons ⟨artA, fresh (wcmd w1), w2', hart, rfl, ?_⟩ .nil, rfl⟩
  exact schedules_par (w := fresh (wcmd w1)) l hl

example (strat : Strat) : ∀ l ∈ schedules strat w1, ∀ k,
    KeptP strat Example.emp (fsOfWorld ccS (wcmd w1))
      (replay Example.emp (fsOfWorld ccS (wcmd w1)) ((coCalls [l]).take k)) := fun l hl =>
  cmdCheckoutParTrace_keeps (c := ccS) Example.hemp w1_uniq store3_manUniq (cmd_schedules strat l hl)

end ExamplePar

#print axioms checkoutNodeT_is_parTrace
#print axioms checkoutNodeT_is_seqPermTrace
#print axioms checkoutNodeT_perm_is_parTrace
#print axioms parTrace_of_perm
#print axioms parCheckout_samePerPath
#print axioms parCheckout_complete_iff
#print axioms parCheckout_keeps_from
#print axioms parCheckout_keeps
#print axioms parCheckout_keeps_files
#print axioms parCheckout_keeps_dirs
#print axioms parCheckout_keeps_link
#print axioms parCheckout_untouched
#print axioms parCheckout_crash_safe
#print axioms parCheckout_schedules_same
#print axioms parCheckout_prefix_like_seq
#print axioms parCheckout_final
#print axioms checkoutArtWT_is_parArtTrace
#print axioms parArt_samePerPath
#print axioms parArt_keeps
#print axioms parArt_keeps_fsOfWorld
#print axioms parArt_schedules_same
#print axioms cmdCheckoutPar_keeps
#print axioms cmdCheckoutPar_crash_safe
#print axioms cmdCheckoutPar_final
#print axioms cmdCheckoutSegs_artSegs
#print axioms cmdCheckoutT_is_cmdParTrace
#print axioms cmdCheckoutParTrace_keeps
#print axioms cmdCheckoutParTrace_crash_safe
#print axioms cmdCheckoutParTrace_final
#print axioms cmdCheckoutParTrace_schedules_same
#print axioms parTrace_is_run
#print axioms checkoutRun_prefix_closed
#print axioms parCheckoutRun_keeps
#print axioms parCheckoutRun_crash_safe
#print axioms manUniq_of_B
#print axioms mem_shufflesN
#print axioms enumPar_sound
#print axioms ExamplePar.all_schedules_ok
#print axioms ExamplePar.bad_no_parTrace
#print axioms ExamplePar.runBad_is_run
#print axioms ExamplePar.runCut_is_run
#print axioms ExamplePar.cmd_schedules

end Dud.Sys
