import DudModel.Spec
import DudModel.Lemmas.Tree
import DudModel.Lemmas.Holds
import DudModel.Lemmas.Compat
import DudModel.Lemmas.Idem
import DudModel.Lemmas.Codec
import DudModel.Props.C01
import DudModel.Props.C16
/-!
# C20 — manifests written with the old schema

`storeAs ctx ch t nm`: the cache (and the checksum) an older / the current dud would have written
for the plain tree `t` under the name `nm`, the manifest of the directory at path `p` below `t`
having schema `ch p` (`oldChoice`: all old, `newChoice`: all current, anything in between: mixed).
Checkout restores the same tree from all of them; a recommit on top of any of them records the
current-format digest `treeDigest`.
-/
namespace Dud

variable {κ : Type}

mutual
/-- the objects of a tree written into a store, manifests with the schemas `ch` -/
def buildStore (ctx : Ctx κ) : Choice → Bytes → Node κ → Store κ → Store κ
  | _, _, .file x, s => s.put (ctx.H x) (.blob x)
  | ch, nm, .dir es, s =>
    (buildStoreList ctx ch es s).put (digestAs ctx ch nm (.dir es))
      (.man (ch []) nm (sortChildren (childrenAs ctx ch es)))
  | _, _, .link _, s => s
  | _, _, .other, s => s
def buildStoreList (ctx : Ctx κ) : Choice → List (Name × Node κ) → Store κ → Store κ
  | _, [], s => s
  | ch, (nm, n) :: r, s => buildStoreList ctx ch r (buildStore ctx (subChoice ch nm) nm n s)
end

/-- checksum and cache of a tree stored with the schemas `ch` (starting from an empty cache) -/
def storeAs (ctx : Ctx κ) (ch : Choice) (t : Node κ) (nm : Bytes) : Digest × Store κ :=
  (digestAs ctx ch nm t, buildStore ctx ch nm t [])

mutual
theorem buildStore_post {ctx : Ctx κ} (g : Good ctx) : ∀ (t : Node κ) (ch : Choice) (nm : Bytes)
    (s : Store κ), Consistent ctx s →
      Consistent ctx (buildStore ctx ch nm t s) ∧ Store.le ctx s (buildStore ctx ch nm t s) ∧
        HoldsNode ctx (buildStore ctx ch nm t s) ch nm t
  | .file x, _, _, s, hc => by
    simp only [buildStore, HoldsNode]
    exact ⟨hc.put (.blob x), Store.le_put g hc (.blob x), .blob x, Store.get_put_self _ _ _, rfl⟩
  | .dir es, ch, nm, s, hc => by
    obtain ⟨hc2, hle2, hh2⟩ := buildStoreList_post g es ch s hc
    let m : Obj κ := .man (ch []) nm (sortChildren (childrenAs ctx ch es))
    have hd : digestAs ctx ch nm (.dir es) = m.digest ctx := by simp [digestAs, m]
    have hlep : Store.le ctx (buildStoreList ctx ch es s)
        ((buildStoreList ctx ch es s).put (m.digest ctx) m) := Store.le_put g hc2 m
    simp only [buildStore, HoldsNode]
    rw [hd]
    exact ⟨hc2.put m, Store.le_trans hle2 hlep, ⟨m, Store.get_put_self _ _ _, rfl⟩,
      HoldsList.mono hlep es ch hh2⟩
  | .link _, _, _, s, hc => by
    simp only [buildStore, HoldsNode]; exact ⟨hc, Store.le_refl _ _, trivial⟩
  | .other, _, _, s, hc => by
    simp only [buildStore, HoldsNode]; exact ⟨hc, Store.le_refl _ _, trivial⟩
theorem buildStoreList_post {ctx : Ctx κ} (g : Good ctx) : ∀ (es : List (Name × Node κ))
    (ch : Choice) (s : Store κ), Consistent ctx s →
      Consistent ctx (buildStoreList ctx ch es s) ∧ Store.le ctx s (buildStoreList ctx ch es s) ∧
        HoldsList ctx (buildStoreList ctx ch es s) ch es
  | [], _, s, hc => by
    simp only [buildStoreList, HoldsList]; exact ⟨hc, Store.le_refl _ _, trivial⟩
  | (nm, n) :: r, ch, s, hc => by
    obtain ⟨hc1, hle1, hh1⟩ := buildStore_post g n (subChoice ch nm) nm s hc
    obtain ⟨hc2, hle2, hh2⟩ := buildStoreList_post g r ch _ hc1
    simp only [buildStoreList, HoldsList]
    exact ⟨hc2, Store.le_trans hle1 hle2, HoldsNode.mono hle2 n _ nm hh1, hh2⟩
end

theorem consistent_nil (ctx : Ctx κ) : Consistent ctx ([] : Store κ) := by
  intro d o h; simp [Store.get, alookup] at h

/-- the cache `storeAs` builds is consistent and holds the tree -/
theorem storeAs_holds {ctx : Ctx κ} (g : Good ctx) (ch : Choice) (t : Node κ) (nm : Bytes) :
    Consistent ctx (storeAs ctx ch t nm).2 ∧ HoldsNode ctx (storeAs ctx ch t nm).2 ch nm t := by
  obtain ⟨hc, _, hh⟩ := buildStore_post g t ch nm [] (consistent_nil ctx)
  exact ⟨hc, hh⟩

/-- with the current schema everywhere, `storeAs` computes the checksum commit records -/
theorem storeAs_new_digest (ctx : Ctx κ) (t : Node κ) (nm : Bytes) :
    (storeAs ctx newChoice t nm).1 = treeDigest ctx nm t := digestAs_new ctx nm t

/-- **C20: checkout from old-schema / mixed manifests.**  Whatever schemas the manifests have,
checkout into an absent workspace (from the store or any later one) restores the tree — the very
same workspace as from current-format manifests. -/
theorem old_schema_checkout (ctx : Ctx κ) (g : Good ctx) (ch : Choice) (t : Node κ) (nm : Bytes)
    (hp : t.plain = true) (hs : t.sorted = true) (hn : NamesOK ctx t)
    (s : Store κ) (hle : Store.le ctx (storeAs ctx ch t nm).2 s)
    (strat : Strat) (fuel : Nat) (hf : depth t ≤ fuel) :
    ∃ r, checkoutNode ctx strat s fuel none ⟨nm, (storeAs ctx ch t nm).1, t.isDir⟩ = .ok r ∧
      deref ctx s r = t ∧ r = wsAfter ctx strat t := by
  have hh := HoldsNode.mono hle t ch nm (storeAs_holds g ch t nm).2
  exact ⟨_, checkoutNode_holds g s strat t ch nm fuel hp hs hn hh hf,
    deref_wsAfter hp hh strat, rfl⟩

/-- old-schema and current-schema caches restore identical workspaces -/
theorem old_schema_checkout_same (ctx : Ctx κ) (g : Good ctx) (ch : Choice) (t : Node κ)
    (nm : Bytes) (hp : t.plain = true) (hs : t.sorted = true) (hn : NamesOK ctx t)
    (strat : Strat) (fuel : Nat) (hf : depth t ≤ fuel) :
    checkoutNode ctx strat (storeAs ctx ch t nm).2 fuel none
        ⟨nm, (storeAs ctx ch t nm).1, t.isDir⟩ =
      checkoutNode ctx strat (storeAs ctx newChoice t nm).2 fuel none
        ⟨nm, (storeAs ctx newChoice t nm).1, t.isDir⟩ := by
  have h1 := checkoutNode_holds g _ strat t ch nm fuel hp hs hn (storeAs_holds g ch t nm).2 hf
  have h2 := checkoutNode_holds g _ strat t newChoice nm fuel hp hs hn
    (storeAs_holds g newChoice t nm).2 hf
  exact h1.trans h2.symm

/-- **C20: recommit on top of old-schema / mixed manifests**, of the restored workspace (either
strategy): the current-format digest is recorded, the manifests are rewritten in the current
format, the logical content stays. -/
theorem old_schema_recommit (ctx : Ctx κ) (g : Good ctx) (ch : Choice) (t : Node κ) (nm : Bytes)
    (hp : t.plain = true) (hs : t.sorted = true) (hn : NamesOK ctx t)
    (s : Store κ) (hc : Consistent ctx s) (hle : Store.le ctx (storeAs ctx ch t nm).2 s)
    (strat1 strat2 : Strat) :
    ∃ w s', commitNode ctx strat2 (wsAfter ctx strat1 t) ⟨nm, (storeAs ctx ch t nm).1, t.isDir⟩ s =
        .ok (w, ⟨nm, treeDigest ctx nm t, t.isDir⟩, s') ∧
      Consistent ctx s' ∧ Store.le ctx s s' ∧ HoldsNode ctx s' newChoice nm t ∧
      deref ctx s' w = t := by
  have hh := HoldsNode.mono hle t ch nm (storeAs_holds g ch t nm).2
  cases strat1 with
  | link =>
    obtain ⟨s', h, hc', hle', hh', _⟩ := commitNode_linked g t hp hs hn ch nm s strat2 hh hc
    exact ⟨_, s', h, hc', hle', hh', deref_linked t _ nm hp hh'⟩
  | copy =>
    have hk := compatNode_of_holds g t ch nm hs hn hh
    obtain ⟨s', h, hc', hle', hh', _⟩ := recommitNode_post g t hp hn
      ⟨nm, digestAs ctx ch nm t, t.isDir⟩ s strat2 rfl hk hc
    exact ⟨_, s', h, hc', hle', hh', deref_wsAfter hp hh' strat2⟩

/-- … and of an arbitrarily *edited* plain tree `t2` of the same top-level kind (entries added,
removed, changed, even swapped between file and directory): the digest recorded is
`treeDigest ctx nm t2`.  No compatibility hypothesis is needed: the manifests of `t1` are present
and readable, and an old child is reused only where the kinds agree. -/
theorem old_schema_recommit_edited (ctx : Ctx κ) (g : Good ctx) (ch : Choice) (t t2 : Node κ)
    (nm : Bytes) (hs : t.sorted = true) (hn : NamesOK ctx t)
    (hp2 : t2.plain = true) (hn2 : NamesOK ctx t2) (hd : t.isDir = t2.isDir)
    (s : Store κ) (hc : Consistent ctx s) (hle : Store.le ctx (storeAs ctx ch t nm).2 s)
    (strat : Strat) :
    ∃ w s', commitNode ctx strat t2 ⟨nm, (storeAs ctx ch t nm).1, t.isDir⟩ s =
        .ok (w, ⟨nm, treeDigest ctx nm t2, t.isDir⟩, s') ∧
      Consistent ctx s' ∧ Store.le ctx s s' ∧ HoldsNode ctx s' newChoice nm t2 ∧
      deref ctx s' w = t2 := by
  have hh := HoldsNode.mono hle t ch nm (storeAs_holds g ch t nm).2
  obtain ⟨s', h, hc', hle', hh', hdd⟩ :=
    recommit_after_edit ctx g t t2 ch nm hs hn hp2 hn2 hd s hc hh strat
  exact ⟨_, s', h, hc', hle', hh', hdd⟩

/-- the same with an explicit (now weaker) compatibility hypothesis on an arbitrary store -/
theorem old_schema_recommit_compat (ctx : Ctx κ) (g : Good ctx) (ch : Choice) (t t2 : Node κ)
    (nm : Bytes) (hp2 : t2.plain = true) (hn2 : NamesOK ctx t2) (hd : t2.isDir = t.isDir)
    (s : Store κ) (hc : Consistent ctx s)
    (hk : CompatNode ctx s t2 (storeAs ctx ch t nm).1) (strat : Strat) :
    ∃ w s', commitNode ctx strat t2 ⟨nm, (storeAs ctx ch t nm).1, t.isDir⟩ s =
        .ok (w, ⟨nm, treeDigest ctx nm t2, t.isDir⟩, s') ∧
      Consistent ctx s' ∧ Store.le ctx s s' ∧ deref ctx s' w = t2 := by
  obtain ⟨s', h, hc', hle', hh', _⟩ := recommitNode_post g t2 hp2 hn2
    ⟨nm, (storeAs ctx ch t nm).1, t.isDir⟩ s strat hd.symm hk hc
  exact ⟨_, s', h, hc', hle', deref_wsAfter hp2 hh' strat⟩

/-- `readManifest` looks at the schema only through `reload`. -/
theorem readManifest_schema_irrelevant (ctx : Ctx κ) (s1 s2 : Store κ) (d1 d2 : Digest)
    (p1 p2 : Bytes) (cs : List Child)
    (h1 : s1.get d1 = some (.man .old p1 cs)) (h2 : s2.get d2 = some (.man .new p2 cs))
    (hr : ∀ c ∈ cs, ctx.reload .old c = ctx.reload .new c) :
    readManifest ctx s1 d1 = readManifest ctx s2 d2 := by
  simp only [readManifest_eq, h1, h2]
  rw [List.map_congr_left hr]

/-! ## status over the restored tree -/

theorem alookup_wsAfterList (ctx : Ctx κ) (strat : Strat) : ∀ (es : List (Name × Node κ)),
    sortedList es = true → ∀ e ∈ es,
      alookup (wsAfterList ctx strat es) e.1 = some (wsAfter ctx strat e.2)
  | [], _, e, he => by simp at he
  | (nm, n) :: r, h, e, he => by
    rw [wsAfterList_cons]
    rcases List.mem_cons.1 he with rfl | he'
    · simp [alookup]
    · have hne : nm ≠ e.1 := sortedList_head_ne h e he'
      simp [alookup, hne, alookup_wsAfterList ctx strat r (sortedList_cons h).2 e he']

theorem mem_wsAfterList (ctx : Ctx κ) (strat : Strat) : ∀ (es : List (Name × Node κ))
    (e' : Name × Node κ), e' ∈ wsAfterList ctx strat es → ∃ e ∈ es, e'.1 = e.1
  | [], e', h => by simp [wsAfterList_nil] at h
  | (nm, n) :: r, e', h => by
    rw [wsAfterList_cons] at h
    rcases List.mem_cons.1 h with rfl | h'
    · exact ⟨(nm, n), by simp, rfl⟩
    · obtain ⟨e, he, hh⟩ := mem_wsAfterList ctx strat r e' h'
      exact ⟨e, by simp [he], hh⟩

mutual
/-- status of one manifest entry over the restored workspace: contents match -/
theorem statusNode_holds [DecidableEq κ] {ctx : Ctx κ} (g : Good ctx) (s : Store κ)
    (strat : Strat) : ∀ (t : Node κ) (ch : Choice) (nm : Bytes) (fuel : Nat),
    t.plain = true → t.sorted = true → NamesOK ctx t → HoldsNode ctx s ch nm t →
    depth t ≤ fuel →
    ∃ st, (if t.isDir then
            dirStatus ctx s fuel nm false (digestAs ctx ch nm t) (some (wsAfter ctx strat t))
          else .ok (fileStatus ctx s nm false (digestAs ctx ch nm t)
            (some (wsAfter ctx strat t)))) = .ok st ∧ st.cm = true
  | .file x, ch, nm, _, _, _, _, h, _ => by
    simp only [HoldsNode] at h
    obtain ⟨o, ho, hb⟩ := h
    refine ⟨fileStatus ctx s nm false (digestAs ctx ch nm (.file x))
      (some (wsAfter ctx strat (.file x))), by simp [Node.isDir], ?_⟩
    cases strat with
    | link => simp [wsAfter, linked, digestAs, fileStatus, quick, hasSum_H g, Store.has_of_get ho]
    | copy => simp [wsAfter, digestAs, fileStatus, quick, hasSum_H g, Store.has_of_get ho, ho, hb]
  | .dir es, ch, nm, fuel, hp, hs, hn, h, hf => by
    have hp' : plainList es = true := by simpa [Node.plain] using hp
    have hs' : sortedList es = true := by simpa [Node.sorted] using hs
    have hn' : NamesOKList ctx es := namesOK_dir hn
    obtain ⟨hhas, hread⟩ := readManifest_holds g hs' hn' h
    have hsum := hasSum_digestAs_dir g ch nm es
    obtain ⟨k, rfl⟩ : ∃ k, fuel = k + 1 := ⟨fuel - 1, by simp only [depth] at hf; omega⟩
    have hk : depthList es ≤ k := by simp only [depth] at hf; omega
    simp only [HoldsNode] at h
    obtain ⟨sts, hsts, hall⟩ := childStatuses_holds g s strat es ch k (wsAfterList ctx strat es)
      hp' hs' hn' h.2 hk (alookup_wsAfterList ctx strat es hs')
    have hun : (wsAfterList ctx strat es).filter
        (fun e => (findChild (childrenAs ctx ch es) e.1).isNone) = [] := by
      rw [List.filter_eq_nil_iff]
      intro e' he'
      obtain ⟨e, he, hname⟩ := mem_wsAfterList ctx strat es e' he'
      rw [hname, findChild_childrenAs ctx ch es hs' e he]
      simp
    generalize digestAs ctx ch nm (.dir es) = d at hhas hread hsum ⊢
    simp only [Node.isDir, if_true, dirStatus, wsAfter_dir, quick, hsum, hhas, Bool.and_self,
      hread, hsts, Bool.false_eq_true, if_false, hun, untrackedStatuses]
    exact ⟨_, rfl, by simp [hall]⟩
  | .link _, _, _, _, hp, _, _, _, _ => by simp [Node.plain] at hp
  | .other, _, _, _, hp, _, _, _, _ => by simp [Node.plain] at hp
theorem childStatuses_holds [DecidableEq κ] {ctx : Ctx κ} (g : Good ctx) (s : Store κ)
    (strat : Strat) : ∀ (r : List (Name × Node κ)) (ch : Choice) (fuel : Nat)
    (W : List (Name × Node κ)),
    plainList r = true → sortedList r = true → NamesOKList ctx r → HoldsList ctx s ch r →
    depthList r ≤ fuel → (∀ e ∈ r, alookup W e.1 = some (wsAfter ctx strat e.2)) →
    ∃ sts, childStatuses ctx s (fun nm sm cu => dirStatus ctx s fuel nm false sm cu) W
        (childrenAs ctx ch r) = .ok sts ∧ sts.all (·.cm) = true
  | [], _, _, _, _, _, _, _, _, _ => ⟨[], by simp [childrenAs, childStatuses], by simp⟩
  | (nm, n) :: r, ch, fuel, W, hp, hs, hn, h, hf, hW => by
    simp only [HoldsList] at h
    have hdn : depth n ≤ fuel := by simp only [depthList] at hf; omega
    have hdr : depthList r ≤ fuel := by simp only [depthList] at hf; omega
    obtain ⟨st, hst, hcm⟩ := statusNode_holds g s strat n (subChoice ch nm) nm fuel
      (plainList_cons hp).1 (sortedList_cons hs).1 (namesOK_node hn) h.1 hdn
    obtain ⟨sts, hsts, hall⟩ := childStatuses_holds g s strat r ch fuel W (plainList_cons hp).2
      (sortedList_cons hs).2 (namesOK_tail hn) h.2 hdr (fun e he => hW e (by simp [he]))
    have hl := hW (nm, n) (by simp)
    refine ⟨st :: sts, ?_, by simp [hcm, hall]⟩
    simp only [childrenAs, childStatuses, hl, hst, hsts]
end

/-- **C20: status over old-schema / mixed manifests.**  The full status of the restored workspace
(either strategy) against the old-schema artifact reports `ContentsMatch`. -/
theorem old_schema_status [DecidableEq κ] (ctx : Ctx κ) (g : Good ctx) (ch : Choice)
    (es : List (Name × Node κ)) (nm : Bytes)
    (hp : (Node.dir es).plain = true) (hs : (Node.dir es).sorted = true)
    (hn : NamesOK ctx (.dir es))
    (s : Store κ) (hle : Store.le ctx (storeAs ctx ch (.dir es) nm).2 s)
    (strat : Strat) (fuel : Nat) (hf : depth (Node.dir es) ≤ fuel) :
    ∃ st, dirStatus ctx s fuel nm false (storeAs ctx ch (.dir es) nm).1
        (some (wsAfter ctx strat (.dir es))) = .ok st ∧ st.cm = true := by
  have hh := HoldsNode.mono hle _ ch nm (storeAs_holds g ch (.dir es) nm).2
  have := statusNode_holds g s strat (.dir es) ch nm fuel hp hs hn hh hf
  simpa [Node.isDir, storeAs] using this

/-! ## Non-vacuity over `Dud.Example.ctx` -/

namespace Example

/-- only the manifest of the sub-directory `b` is old -/
def mixedChoice : Choice := fun p => if p == [[98]] then .old else .new

/-- old-schema manifests really are other objects: the checksums differ -/
example : (storeAs ctx oldChoice tree [116]).1 ≠ (storeAs ctx newChoice tree [116]).1 := by
  intro h
  simp only [storeAs, tree, digestAs, Obj.digest, Obj.bytes] at h
  have := good.inj _ _ h
  simp [ctx, oldChoice, newChoice] at this

/-- checkout from the old-schema cache of the example tree -/
example (strat : Strat) :
    ∃ r, checkoutNode ctx strat (storeAs ctx oldChoice tree [116]).2 3 none
        ⟨[116], (storeAs ctx oldChoice tree [116]).1, true⟩ = .ok r ∧
      deref ctx (storeAs ctx oldChoice tree [116]).2 r = tree := by
  obtain ⟨r, h, hd, _⟩ := old_schema_checkout ctx good oldChoice tree [116] tree_plain tree_sorted
    tree_names _ (Store.le_refl _ _) strat 3 (Nat.le_of_eq tree_depth)
  exact ⟨r, h, hd⟩

/-- executable evidence: checkout, status and recommit over old / mixed / new caches -/
def oldSchema (ch : Choice) (strat strat2 : Strat) : String :=
  let (d, s) := storeAs ctx ch tree [116]
  let c : Child := ⟨[116], d, true⟩
  match checkoutNode ctx strat s 3 none c with
  | .error e => s!"checkout error {e}"
  | .ok w =>
    s!"restored: {nodeBEq (deref ctx s w) tree}; " ++
    s!"digest is the current one: {d == treeDigest ctx [116] tree}; " ++
    (match dirStatus ctx s 3 [116] false d (some w) with
     | .ok st => s!"status cm: {st.cm}; "
     | .error e => s!"status error {e}; ") ++
    (match commitNode ctx strat2 w c s with
     | .ok (w', c', s') =>
       s!"recommit records treeDigest: {c'.sum == treeDigest ctx [116] tree}, " ++
       s!"logical content kept: {nodeBEq (deref ctx s' w') tree}"
     | .error e => s!"recommit error {e}")

#eval oldSchema oldChoice .link .copy
#eval oldSchema oldChoice .copy .link
#eval oldSchema mixedChoice .link .link
#eval oldSchema mixedChoice .copy .copy
#eval oldSchema newChoice .copy .link

end Example

#print axioms buildStore_post
#print axioms buildStoreList_post
#print axioms consistent_nil
#print axioms storeAs_holds
#print axioms storeAs_new_digest
#print axioms old_schema_checkout
#print axioms old_schema_checkout_same
#print axioms old_schema_recommit
#print axioms old_schema_recommit_edited
#print axioms old_schema_recommit_compat
#print axioms readManifest_schema_irrelevant
#print axioms alookup_wsAfterList
#print axioms mem_wsAfterList
#print axioms statusNode_holds
#print axioms childStatuses_holds
#print axioms old_schema_status

end Dud
